(* Proofs for C03 (1D memoisation is transparent) and the 1D half of C09 (the rule is invoked at
   most once per distinct neighbourhood).  The one-step core of the recursive engine is lifted from
   notes/spikes/memo1d_recursive.v onto the definitions of Model/Memo1D.v, with the rule-call log
   threaded through.  Depends on Proofs/Evolve1DProofs.v (C01) only for neighbourhoods_spec. *)
From Coq Require Import List Arith ZArith Lia Bool.
From Coq Require String.
From CPL Require Import Model.Base Model.Rules Model.Engine Model.Evolve1D Model.Memo1D.
From CPL Require Import Proofs.Evolve1DProofs.
From CPL Require Proofs.EngineProofs.
Import ListNotations.

(* ------------------------------------------------------------------ list helpers *)
Lemma m1_skipn_map_seq {A} (g : nat -> A) i s L : skipn i (map g (seq s L)) = map g (seq (s + i) (L - i)).
Proof.
  revert s L; induction i as [|i IH]; intros s L.
  - rewrite Nat.add_0_r, Nat.sub_0_r. reflexivity.
  - destruct L as [|L]; [reflexivity|]. cbn [seq map skipn]. rewrite IH. f_equal. f_equal; lia.
Qed.
Lemma m1_firstn_map_seq {A} (g : nat -> A) w s L : w <= L -> firstn w (map g (seq s L)) = map g (seq s w).
Proof.
  revert s L; induction w as [|w IH]; intros s L H; [reflexivity|].
  destruct L as [|L]; [lia|]. cbn [seq map firstn]. f_equal. apply IH. lia.
Qed.
Lemma m1_map_seq_shift {A} (g : nat -> A) s w : map g (seq s w) = map (fun j => g (s + j)) (seq 0 w).
Proof.
  revert g s; induction w as [|w IH]; intros g s; [reflexivity|].
  cbn [seq map]. rewrite Nat.add_0_r. f_equal.
  rewrite (IH g (S s)), (IH (fun j => g (s + j)) 1). apply map_ext. intros j. f_equal. lia.
Qed.
Lemma m1_nth_skipn {A} (d : A) n (l : list A) j : nth j (skipn n l) d = nth (n + j) l d.
Proof.
  revert l j; induction n as [|n IHn]; intros l j; [reflexivity|].
  destruct l as [|x l]; cbn [skipn plus nth]; [destruct j; reflexivity|apply IHn].
Qed.
Lemma m1_nth_firstn {A} (d : A) w (l : list A) j : j < w -> nth j (firstn w l) d = nth j l d.
Proof.
  revert l j; induction w as [|w IHw]; intros l j H; [lia|].
  destruct l as [|x l]; [destruct j; reflexivity|]. destruct j; cbn; [reflexivity|apply IHw; lia].
Qed.
Lemma m1_nth_map_seq {A} (g : nat -> A) s n c d : c < n -> nth c (map g (seq s n)) d = g (s + c).
Proof.
  intros H. rewrite (nth_indep _ d (g 0)) by (rewrite map_length, seq_length; exact H).
  rewrite map_nth, seq_nth by exact H. reflexivity.
Qed.
Lemma m1_nodup_snoc {A} (l : list A) a : NoDup l -> ~ In a l -> NoDup (l ++ [a]).
Proof.
  induction l as [|x l IH]; intros Hn Ha; cbn.
  - constructor; [intros []|constructor].
  - inversion Hn as [|? ? Hx Hl]; subst. constructor.
    + rewrite in_app_iff. intros [H|[H|[]]]; [exact (Hx H)|]. apply Ha. left. symmetry. exact H.
    + apply IH; [exact Hl|]. intros H. apply Ha. right. exact H.
Qed.

(* ------------------------------------------------------------------ keys and lookup *)
Lemma zlist_eqb_spec a b : zlist_eqb a b = true <-> a = b.
Proof.
  unfold zlist_eqb. revert b; induction a as [|x a IH]; intros [|y b]; cbn [list_eqb]; split; intros H;
    try congruence; try discriminate.
  - apply andb_true_iff in H as [H1 H2]. apply Z.eqb_eq in H1. apply IH in H2. congruence.
  - injection H as -> ->. apply andb_true_iff. split; [apply Z.eqb_refl|apply IH; reflexivity].
Qed.

Lemma lookup_In {B} k (c : list (list Z * B)) v : lookup k c = Some v -> In (k, v) c.
Proof.
  induction c as [|[k' v'] c IH]; cbn [lookup]; [discriminate|].
  destruct (zlist_eqb k k') eqn:E.
  - intros [= <-]. apply zlist_eqb_spec in E. subst k'. left; reflexivity.
  - intros H. right. apply IH. exact H.
Qed.
Lemma lookup_None {B} k (c : list (list Z * B)) : lookup k c = None -> ~ In k (map fst c).
Proof.
  induction c as [|[k' v'] c IH]; cbn [lookup map fst In]; [intros _ []|].
  destruct (zlist_eqb k k') eqn:E; [discriminate|].
  intros H [H1|H1]; [|exact (IH H H1)].
  subst k'. assert (zlist_eqb k k = true) by (apply zlist_eqb_spec; reflexivity). congruence.
Qed.
Lemma lookup_Some_key {B} k (c : list (list Z * B)) v : lookup k c = Some v -> In k (map fst c).
Proof. intros H. apply lookup_In in H. change k with (fst (k, v)). apply in_map. exact H. Qed.

(* ------------------------------------------------------------------ the option dispatch *)
Theorem dispatch_by_value :
  dispatch (PStr StrLit.recursive_lit) = Some Recursive /\
  dispatch (PBool true) = Some Memo /\
  dispatch (PBool false) = Some Plain /\
  (forall s, s <> StrLit.recursive_lit -> dispatch (PStr s) = None) /\
  (forall z, dispatch (PInt z) = None) /\
  dispatch PNone = None.
Proof.
  split; [reflexivity|]. split; [reflexivity|]. split; [reflexivity|].
  split; [|split; [reflexivity|reflexivity]].
  intros s Hs. unfold dispatch. destruct (String.eqb s StrLit.recursive_lit) eqn:E; [|reflexivity].
  apply String.eqb_eq in E. contradiction.
Qed.

(* the selection depends on the characters of the string only: two equal strings select alike *)
Lemma dispatch_string_value s : dispatch (PStr s) = if String.eqb s StrLit.recursive_lit then Some Recursive else None.
Proof. unfold dispatch. destruct (String.eqb s StrLit.recursive_lit); reflexivity. Qed.

(* ------------------------------------------------------------------ a process: calls are independent *)
Lemma run_process_eq calls : run_process calls = map run_call calls.
Proof.
  unfold run_process.
  assert (G : forall acc, fold_left (fun a c => a ++ [run_call c]) calls acc = acc ++ map run_call calls).
  { induction calls as [|c calls IH]; intros acc; cbn [fold_left map]; [rewrite app_nil_r; reflexivity|].
    rewrite IH, <- app_assoc. reflexivity. }
  exact (G []).
Qed.

(* true by construction of the model (nothing is carried from call to call); the content of this
   clause is in the correspondence over call sequences *)
Theorem calls_independent calls i c : nth_error calls i = Some c ->
  nth_error (run_process calls) i = Some (run_call c) /\ run_process [c] = [run_call c].
Proof.
  intros H. split; [|reflexivity]. rewrite run_process_eq. apply map_nth_error. exact H.
Qed.

(* ------------------------------------------------------------------ simulation of two engines *)
Section Sim.
  Variables (XA XB P C : Type).
  Variable dflt : C.
  Variable stepA : XA -> C -> nat -> XA * C.
  Variable stepB : XB -> C -> nat -> XB * C.
  Variable pred : P -> list C -> nat -> P * bool.
  Variable R : XA -> XB -> Prop.
  Variable good : C -> Prop.
  Hypothesis Hstep : forall xa xb c t, R xa xb -> good c ->
    R (fst (stepA xa c t)) (fst (stepB xb c t)) /\
    snd (stepA xa c t) = snd (stepB xb c t) /\ good (snd (stepB xb c t)).

  Lemma iter_sim : forall n xa xb cur t, R xa xb -> good cur ->
    R (fst (iter_steps stepA n xa cur t)) (fst (iter_steps stepB n xb cur t)) /\
    snd (iter_steps stepA n xa cur t) = snd (iter_steps stepB n xb cur t).
  Proof.
    induction n as [|n IH]; intros xa xb cur t HR Hg; [split; [exact HR|reflexivity]|].
    cbn [iter_steps]. destruct (Hstep xa xb cur t HR Hg) as (HR1 & Heq & Hg1).
    destruct (stepA xa cur t) as [xa1 na]. destruct (stepB xb cur t) as [xb1 nb].
    cbn [fst snd] in HR1, Heq, Hg1. subst na.
    specialize (IH xa1 xb1 nb (S t) HR1 Hg1).
    destruct (iter_steps stepA n xa1 nb (S t)) as [xa2 ra]. destruct (iter_steps stepB n xb1 nb (S t)) as [xb2 rb].
    cbn [fst snd] in IH |- *. destruct IH as [IH1 IH2]. split; [exact IH1|]. rewrite IH2. reflexivity.
  Qed.

  Definition fixed_rel (a : res (XA * list C)) (b : res (XB * list C)) : Prop :=
    match a, b with
    | Ok (xa, oa), Ok (xb, ob) => R xa xb /\ oa = ob
    | Raise e1, Raise e2 => e1 = e2
    | _, _ => False
    end.

  Lemma fixed_sim xa xb hist T : R xa xb -> good (last hist dflt) ->
    fixed_rel (evolve_fixed dflt stepA xa hist T) (evolve_fixed dflt stepB xb hist T).
  Proof.
    intros HR Hg. destruct T as [|k]; [reflexivity|]. unfold evolve_fixed.
    pose proof (iter_sim k xa xb (last hist dflt) 1 HR Hg) as H.
    destruct (iter_steps stepA k xa (last hist dflt) 1) as [xa1 ra].
    destruct (iter_steps stepB k xb (last hist dflt) 1) as [xb1 rb].
    cbn [fst snd] in H. destruct H as [H1 H2]. cbn [fixed_rel]. split; [exact H1|]. rewrite H2. reflexivity.
  Qed.

  Definition dyn_rel (a : option (P * XA * list C * list (list C * nat)))
             (b : option (P * XB * list C * list (list C * nat))) : Prop :=
    match a, b with
    | Some (pa, xa, sa, la), Some (pb, xb, sb, lb) => pa = pb /\ R xa xb /\ sa = sb /\ la = lb
    | None, None => True
    | _, _ => False
    end.

  Lemma dyn_loop_sim : forall fuel p xa xb states t plog, R xa xb -> good (last states dflt) ->
    dyn_rel (dynamic_loop dflt stepA pred fuel p xa states t plog)
            (dynamic_loop dflt stepB pred fuel p xb states t plog).
  Proof.
    induction fuel as [|fuel IH]; intros p xa xb states t plog HR Hg; [exact I|].
    cbn [dynamic_loop]. destruct (pred p states t) as [p1 go]. destruct go.
    - destruct (Hstep xa xb (last states dflt) t HR Hg) as (HR1 & Heq & Hg1).
      destruct (stepA xa (last states dflt) t) as [xa1 na]. destruct (stepB xb (last states dflt) t) as [xb1 nb].
      cbn [fst snd] in HR1, Heq, Hg1. subst na.
      apply IH; [exact HR1|]. rewrite last_last. exact Hg1.
    - cbn [dyn_rel]. split; [reflexivity|]. split; [exact HR|]. split; reflexivity.
  Qed.

  Lemma dynamic_sim fuel p xa xb hist : R xa xb -> good (last hist dflt) ->
    dyn_rel (evolve_dynamic dflt stepA pred fuel p xa hist) (evolve_dynamic dflt stepB pred fuel p xb hist).
  Proof.
    intros HR Hg. unfold evolve_dynamic.
    pose proof (dyn_loop_sim fuel p xa xb [last hist dflt] 1 [] HR Hg) as H.
    destruct (dynamic_loop dflt stepA pred fuel p xa [last hist dflt] 1 []) as [[[[pa xa1] sa] la]|];
      destruct (dynamic_loop dflt stepB pred fuel p xb [last hist dflt] 1 []) as [[[[pb xb1] sb] lb]|];
      cbn [dyn_rel] in H |- *; try exact H.
    destruct H as (H1 & H2 & H3 & H4). subst. split; [reflexivity|]. split; [exact H2|]. split; reflexivity.
  Qed.
End Sim.

(* ------------------------------------------------------------------ rules whose answer depends only on the contents *)
(* `rule` is ANY state machine (counters, loggers, ...) whose returned value is determined by the
   neighbourhood contents: it answers f.  Its state may evolve arbitrarily. *)
Definition answers {St} (rule : rule1 St) (f : list Z -> Z) : Prop :=
  forall s n c t, snd (rule s n c t) = f n.

Lemma pure1_answers f : answers (pure1 f) f.
Proof. intros s n c t. reflexivity. Qed.

Section Pure.
  Variable St : Type.
  Variable rule : rule1 St.
  Variable f : list Z -> Z.
  Variable store : Z -> Z.
  Hypothesis Hans : answers rule f.

  (* the row the unmemoised engine writes (C01: step_plain_pure) *)
  Definition next_row (cells : list Z) (r : nat) : list Z :=
    map (fun c => store (f (ring_nbhd cells c r))) (seq 0 (length cells)).

  Lemma next_row_length cells r : length (next_row cells r) = length cells.
  Proof. unfold next_row. rewrite map_length, seq_length. reflexivity. Qed.

  Lemma neighbourhoods_ring cells r : 1 <= r <= length cells ->
    neighbourhoods cells r = map (fun c => ring_nbhd cells c r) (seq 0 (length cells)).
  Proof.
    intros H. destruct (neighbourhoods_spec cells r H) as [HL Hn].
    apply nth_ext with (d := []) (d' := []); [rewrite HL, map_length, seq_length; reflexivity|].
    intros c Hc. rewrite HL in Hc. rewrite Hn by exact Hc.
    rewrite (m1_nth_map_seq (fun c0 => ring_nbhd cells c0 r)) by exact Hc. reflexivity.
  Qed.

  (* ---------------------------------------------------------------- memoize=False, with the log *)
  Lemma apply_all_logged_pure : forall nbs s lg c t,
    exists s' lg', apply_all (logged1 rule) store (s, lg) c nbs t = ((s', lg ++ lg'), map (fun n => store (f n)) nbs)
                /\ map call_key lg' = nbs.
  Proof.
    induction nbs as [|n nbs IH]; intros s lg c t.
    - exists s, []. cbn [apply_all map]. rewrite app_nil_r. split; reflexivity.
    - cbn [apply_all]. unfold logged1 at 1. pose proof (Hans s n c t) as Hv.
      destruct (rule s n c t) as [s1 v]. cbn [snd] in Hv. subst v.
      destruct (IH s1 (lg ++ [(n, c, t)]) (S c) t) as (s' & lg' & E & K). rewrite E.
      exists s', ((n, c, t) :: lg'). cbn [map]. rewrite <- app_assoc. cbn [app]. split; [reflexivity|].
      unfold call_key at 1. cbn [fst]. rewrite K. reflexivity.
  Qed.

  Lemma step_plain_logged_pure r s lg cells t : 1 <= r <= length cells ->
    exists s' lg', step_plain (logged1 rule) store r (s, lg) cells t = ((s', lg ++ lg'), next_row cells r)
                /\ map call_key lg' = map (fun c => ring_nbhd cells c r) (seq 0 (length cells)).
  Proof.
    intros H. unfold step_plain. destruct (apply_all_logged_pure (neighbourhoods cells r) s lg 0 t) as (s' & lg' & E & K).
    exists s', lg'. rewrite E, K. rewrite neighbourhoods_ring by exact H. unfold next_row. rewrite map_map.
    split; reflexivity.
  Qed.

  (* ---------------------------------------------------------------- memoize=True *)
  (* every cache entry holds the rule's value on its key *)
  Definition InvM (cache : cacheM) : Prop := forall k v, In (k, v) cache -> v = f k.

  (* state of the memoised engine after the neighbourhoods `seen` (in this order) have been processed *)
  Definition GoodM (x : XM St) (seen : list (list Z)) : Prop :=
    let cache := snd (fst x) in let lg := snd x in
    InvM cache /\ NoDup (map call_key lg) /\
    (forall k, In k (map fst cache) <-> In k (map call_key lg)) /\
    (forall k, In k (map call_key lg) <-> In k seen).

  Lemma get_memoized_ok x n c t seen : GoodM x seen ->
    snd (get_memoized rule x n c t) = f n /\ GoodM (fst (get_memoized rule x n c t)) (seen ++ [n]).
  Proof.
    destruct x as [[s cache] lg]. unfold GoodM. cbn [fst snd]. intros (HI & HN & HC & HS).
    unfold get_memoized. destruct (lookup n cache) as [v|] eqn:EL.
    - cbn [fst snd]. split; [apply HI; apply lookup_In; exact EL|].
      split; [exact HI|]. split; [exact HN|]. split; [exact HC|].
      intros k. rewrite in_app_iff. rewrite HS. split; [intros H; left; exact H|].
      intros [H|[H|[]]]; [exact H|]. subst k. apply HS, HC. eapply lookup_Some_key. exact EL.
    - pose proof (Hans s n c t) as Hv. destruct (rule s n c t) as [s1 v]. cbn [snd] in Hv. subst v.
      cbn [fst snd]. split; [reflexivity|].
      assert (Hnew : ~ In n (map call_key lg)) by (intros H; apply HC in H; exact (lookup_None _ _ EL H)).
      split; [intros k v [H|H]; [injection H as <- <-; reflexivity|apply HI; exact H]|].
      rewrite map_app. cbn [map]. unfold call_key at 2 4 6. cbn [fst].
      split; [apply m1_nodup_snoc; assumption|].
      split; intros k; cbn [map fst In]; rewrite !in_app_iff; cbn [In].
      + rewrite HC. tauto.
      + rewrite HS. tauto.
  Qed.

  Lemma memo_all_ok : forall nbs x c t seen, GoodM x seen ->
    snd (memo_all rule store x c nbs t) = map (fun n => store (f n)) nbs /\
    GoodM (fst (memo_all rule store x c nbs t)) (seen ++ nbs).
  Proof.
    induction nbs as [|n nbs IH]; intros x c t seen HG.
    - cbn [memo_all fst snd map]. rewrite app_nil_r. split; [reflexivity|exact HG].
    - cbn [memo_all]. destruct (get_memoized_ok x n c t seen HG) as [Hv HG1].
      destruct (get_memoized rule x n c t) as [x1 v]. cbn [fst snd] in Hv, HG1. subst v.
      destruct (IH x1 (S c) t (seen ++ [n]) HG1) as [Hvs HG2].
      destruct (memo_all rule store x1 (S c) nbs t) as [x2 vs]. cbn [fst snd] in Hvs, HG2 |- *.
      rewrite <- app_assoc in HG2. cbn [app] in HG2. split; [cbn [map]; rewrite Hvs; reflexivity|exact HG2].
  Qed.

  Lemma step_memo_ok r x cells t seen : 1 <= r <= length cells -> GoodM x seen ->
    snd (step_memo rule store r x cells t) = next_row cells r /\
    GoodM (fst (step_memo rule store r x cells t)) (seen ++ map (fun c => ring_nbhd cells c r) (seq 0 (length cells))).
  Proof.
    intros H HG. unfold step_memo. destruct (memo_all_ok (neighbourhoods cells r) x 0 t seen HG) as [H1 H2].
    rewrite neighbourhoods_ring in H1, H2 |- * by exact H. split; [|exact H2].
    rewrite H1. unfold next_row. rewrite map_map. reflexivity.
  Qed.
End Pure.

(* ------------------------------------------------------------------ memoize="recursive": one step *)
(* lifted from notes/spikes/memo1d_recursive.v; the wrapped take is over Z as in the model, the rule
   state and the rule-call log are threaded *)
Section PureRec.
  Variable St : Type.
  Variable rule : rule1 St.
  Variable f : list Z -> Z.
  Variable store : Z -> Z.
  Variable r : nat.
  Hypothesis Hans : answers rule f.

  (* the wrapped take with a non-negative start (r <= N) *)
  Definition wt (row : list Z) (s len : nat) : list Z :=
    map (fun i => nth ((s + i) mod length row) row 0%Z) (seq 0 len).

  Lemma wt_length row s len : length (wt row s len) = len.
  Proof. unfold wt. rewrite map_length, seq_length. reflexivity. Qed.

  Lemma wrap_take_wt row start len : 1 <= length row -> r <= length row ->
    wrap_take row (Z.of_nat start - Z.of_nat r) len = wt row (start + length row - r) len.
  Proof.
    intros HN Hr. unfold wrap_take, wt. apply map_ext. intros i. f_equal.
    rewrite <- (Nat2Z.id ((start + length row - r + i) mod length row)). f_equal.
    rewrite Nat2Z.inj_mod.
    replace (Z.of_nat (start + length row - r + i))
      with ((Z.of_nat start - Z.of_nat r + Z.of_nat i) + 1 * Z.of_nat (length row))%Z by lia.
    symmetry. apply Z_mod_plus_full.
  Qed.

  Lemma ring_nbhd_wt cells c : r <= length cells -> ring_nbhd cells c r = wt cells (c + length cells - r) (2 * r + 1).
  Proof. intros Hr. unfold ring_nbhd, wt. apply map_ext. intros k. f_equal. f_equal. lia. Qed.

  (* the key lemma: window i of the wrapped block neighbourhood is the ring neighbourhood of cell s+i *)
  Lemma window_of_block row s L i : i + (2 * r + 1) <= L ->
    firstn (2 * r + 1) (skipn i (wt row s L)) = wt row (s + i) (2 * r + 1).
  Proof.
    intros Hi. unfold wt. rewrite m1_skipn_map_seq, m1_firstn_map_seq by lia. cbn [plus].
    rewrite m1_map_seq_shift. apply map_ext. intros j. f_equal. f_equal. lia.
  Qed.

  Definition spec_cell (curr : list Z) (c : nat) : Z := store (f (ring_nbhd curr c r)).

  (* what a cache entry must hold for its key *)
  Definition block_vals (key : list Z) : list Z := map (fun n => store (f n)) (windows (2 * r + 1) key).

  Lemma block_vals_spec curr start len : r <= length curr -> 1 <= len ->
    block_vals (wt curr (start + length curr - r) (len + 2 * r)) = map (spec_cell curr) (seq start len).
  Proof.
    intros Hr Hl. unfold block_vals, windows. rewrite wt_length.
    replace (len + 2 * r - (2 * r + 1) + 1) with len by lia.
    rewrite map_map. rewrite (m1_map_seq_shift (spec_cell curr)). apply map_ext_in. intros i Hi. apply in_seq in Hi.
    rewrite window_of_block by lia. unfold spec_cell. rewrite ring_nbhd_wt by exact Hr.
    f_equal. f_equal. f_equal. lia.
  Qed.

  (* entry (key, vals): length key = length vals + 2r and vals = map (store o f) (windows (2r+1) key) *)
  Definition InvR (c : cacheR) : Prop :=
    forall k v, In (k, v) c -> length k = length v + 2 * r /\ v = block_vals k.

  (* a rule call happens only on a miss and is followed by the insertion of its key: no two logged
     calls have equal contents, and every logged key is in the cache *)
  Definition LogR (c : cacheR) (lg : list call1) : Prop :=
    NoDup (map call_key lg) /\ forall k, In k (map call_key lg) -> In k (map fst c).

  (* write / read facts *)
  Lemma write_length next start vals : start + length vals <= length next -> length (write next start vals) = length next.
  Proof. intros H. unfold write. rewrite !app_length, firstn_length, skipn_length. lia. Qed.
  Lemma write_in next start vals i : start + length vals <= length next -> start <= i < start + length vals ->
    nth i (write next start vals) 0%Z = nth (i - start) vals 0%Z.
  Proof.
    intros H Hi. unfold write. rewrite app_nth2 by (rewrite firstn_length; lia).
    rewrite firstn_length, Nat.min_l by lia. rewrite app_nth1 by lia. reflexivity.
  Qed.
  Lemma write_out next start vals i : start + length vals <= length next -> i < start \/ start + length vals <= i ->
    nth i (write next start vals) 0%Z = nth i next 0%Z.
  Proof.
    intros H [Hi|Hi]; unfold write.
    - rewrite app_nth1 by (rewrite firstn_length; lia). apply m1_nth_firstn. exact Hi.
    - rewrite app_nth2 by (rewrite firstn_length; lia). rewrite firstn_length, Nat.min_l by lia.
      rewrite app_nth2 by lia. rewrite m1_nth_skipn. f_equal. lia.
  Qed.
  Lemma read_length next start len : start + len <= length next -> length (read next start len) = len.
  Proof. intros H. unfold read. rewrite firstn_length, skipn_length. lia. Qed.
  Lemma read_spec next start len (g : nat -> Z) : start + len <= length next ->
    (forall i, start <= i < start + len -> nth i next 0%Z = g i) -> read next start len = map g (seq start len).
  Proof.
    intros H Hg. apply nth_ext with (d := 0%Z) (d' := 0%Z).
    - rewrite read_length by exact H. rewrite map_length, seq_length. reflexivity.
    - intros j Hj. rewrite read_length in Hj by exact H. unfold read.
      rewrite m1_nth_firstn, m1_nth_skipn by lia. rewrite Hg by lia.
      rewrite m1_nth_map_seq by lia. reflexivity.
  Qed.

  Definition Post (curr : list Z) (start len : nat) (x : XR St) (next : list Z) (res : XR St * list Z) : Prop :=
    let cache' := snd (fst (fst res)) in
    let lg' := snd (fst res) in
    let next' := snd res in
    length next' = length next /\ InvR cache' /\
    (forall i, start <= i < start + len -> nth i next' 0%Z = spec_cell curr i) /\
    (forall i, i < start \/ start + len <= i -> nth i next' 0%Z = nth i next 0%Z) /\
    LogR cache' lg' /\ length lg' <= length (snd x) + len.

  (* _update_state sets exactly the block's cells to their next values, leaves the other cells of
     next_state untouched, keeps the cache sound and calls the rule only on misses; for any split
     (uneven halves, blocks wider than the ring), by induction on the fuel >= block length *)
  Lemma update_state_ok curr t : 1 <= length curr -> r <= length curr ->
    forall fuel start len x next,
      len <= fuel -> 1 <= len -> start + len <= length curr -> length next = length curr ->
      InvR (snd (fst x)) -> LogR (snd (fst x)) (snd x) ->
      Post curr start len x next (update_state rule store fuel curr r t start len x next).
  Proof.
    intros HN Hr. induction fuel as [|k IH]; intros start len x next Hf Hl Hs Hn HI HL; [lia|].
    destruct x as [[s cache] lg]. cbn [fst snd] in HI, HL. cbn [update_state].
    rewrite wrap_take_wt by assumption.
    set (key := wt curr (start + length curr - r) (len + 2 * r)).
    assert (Hbv : block_vals key = map (spec_cell curr) (seq start len)) by (apply block_vals_spec; assumption).
    assert (Hkl : length key = len + 2 * r) by apply wt_length.
    destruct (lookup key cache) as [vals|] eqn:EL.
    - (* cache hit *)
      pose proof (HI _ _ (lookup_In _ _ _ EL)) as [_ Hv]. rewrite Hbv in Hv. subst vals.
      assert (Hlv : length (map (spec_cell curr) (seq start len)) = len) by (rewrite map_length, seq_length; reflexivity).
      unfold Post. cbn [fst snd]. split; [apply write_length; lia|]. split; [exact HI|]. split; [|split; [|split; [exact HL|lia]]].
      + intros i Hi. rewrite write_in by lia. rewrite m1_nth_map_seq by lia. f_equal. lia.
      + intros i Hi. apply write_out; lia.
    - (* miss *)
      assert (Hnew : ~ In key (map call_key lg)).
      { intros H. apply (proj2 HL) in H. exact (lookup_None _ _ EL H). }
      destruct (1 <? len) eqn:E1.
      + (* a block of several cells: _step *)
        apply Nat.ltb_lt in E1. unfold split_with.
        assert (Hmid : 1 <= len / 2 < len).
        { split; [apply Nat.div_le_lower_bound; lia|apply Nat.div_lt; lia]. }
        replace (0 <? len / 2) with true by (symmetry; apply Nat.ltb_lt; lia).
        pose proof (IH start (len / 2) (s, cache, lg) next) as IH1.
        destruct (update_state rule store k curr r t start (len / 2) (s, cache, lg) next) as [[[s1 c1] l1] n1].
        unfold Post in IH1. cbn [fst snd] in IH1.
        destruct IH1 as (L1 & I1 & A1 & B1 & G1 & N1); try lia; try assumption.
        replace (0 <? len - len / 2) with true by (symmetry; apply Nat.ltb_lt; lia).
        pose proof (IH (start + len / 2) (len - len / 2) (s1, c1, l1) n1) as IH2.
        destruct (update_state rule store k curr r t (start + len / 2) (len - len / 2) (s1, c1, l1) n1) as [[[s2 c2] l2] n2].
        unfold Post in IH2. cbn [fst snd] in IH2.
        destruct IH2 as (L2 & I2 & A2 & B2 & G2 & N2); try lia; try assumption.
        assert (A : forall i, start <= i < start + len -> nth i n2 0%Z = spec_cell curr i).
        { intros i Hi. destruct (Nat.lt_ge_cases i (start + len / 2)).
          - rewrite B2 by lia. apply A1. lia.
          - apply A2. lia. }
        unfold Post. cbn [fst snd]. split; [lia|]. split; [|split; [exact A|split; [|split; [|lia]]]].
        * intros k0 v0 [H0|H0]; [|apply I2; exact H0]. injection H0 as <- <-.
          rewrite read_length by lia. split; [lia|]. rewrite Hbv. apply read_spec; [lia|exact A].
        * intros i Hi. rewrite B2 by lia. apply B1. lia.
        * destruct G2 as [G2a G2b]. split; [exact G2a|]. intros k0 H0. cbn [map fst]. right. apply G2b. exact H0.
      + (* a single cell: the rule is invoked *)
        apply Nat.ltb_ge in E1. assert (len = 1) by lia. subst len.
        pose proof (Hans s key start t) as Hv. destruct (rule s key start t) as [s1 v]. cbn [snd] in Hv. subst v.
        set (next' := write next start [store (f key)]).
        assert (L : length next' = length next) by (apply write_length; cbn [length]; lia).
        assert (A : forall i, start <= i < start + 1 -> nth i next' 0%Z = spec_cell curr i).
        { intros i Hi. assert (i = start) by lia. subst i. unfold next'. rewrite write_in by (cbn [length]; lia).
          rewrite Nat.sub_diag. cbn [nth]. unfold spec_cell. rewrite ring_nbhd_wt by exact Hr. unfold key.
          replace (1 + 2 * r) with (2 * r + 1) by lia. reflexivity. }
        unfold Post. cbn [fst snd]. split; [exact L|]. split; [|split; [exact A|split; [|split]]].
        * intros k0 v0 [H0|H0]; [|apply HI; exact H0]. injection H0 as <- <-.
          rewrite read_length by lia. split; [lia|]. rewrite Hbv. apply read_spec; [lia|exact A].
        * intros i Hi. unfold next'. apply write_out; cbn [length]; lia.
        * unfold LogR. rewrite map_app. cbn [map]. unfold call_key at 2 4. cbn [fst]. split.
          -- apply m1_nodup_snoc; [exact (proj1 HL)|exact Hnew].
          -- intros k0 H0. apply in_app_iff in H0. cbn [map fst In]. destruct H0 as [H0|[H0|[]]].
             ++ right. apply (proj2 HL). exact H0.
             ++ left. exact H0.
        * rewrite app_length. cbn [length]. lia.
  Qed.

  (* one step of the recursive engine, from any sound cache: the plain next row, a sound cache, no
     repeated rule call, at most one rule call per cell *)
  Theorem step_recursive_ok cells t x : 1 <= length cells -> r <= length cells ->
    InvR (snd (fst x)) -> LogR (snd (fst x)) (snd x) ->
    snd (step_recursive rule store r x cells t) = next_row f store cells r /\
    InvR (snd (fst (fst (step_recursive rule store r x cells t)))) /\
    LogR (snd (fst (fst (step_recursive rule store r x cells t)))) (snd (fst (step_recursive rule store r x cells t))) /\
    length (snd (fst (step_recursive rule store r x cells t))) <= length (snd x) + length cells.
  Proof.
    intros HN Hr HI HL. unfold step_recursive, split_with.
    set (N := length cells) in *. set (next := repeat 0%Z N).
    assert (Hn : length next = N) by apply repeat_length.
    assert (Hrow : forall n2, length n2 = N -> (forall i, i < N -> nth i n2 0%Z = spec_cell cells i) ->
                              n2 = next_row f store cells r).
    { intros n2 L2 A2. unfold next_row. fold N. apply nth_ext with (d := 0%Z) (d' := 0%Z);
        [rewrite map_length, seq_length; exact L2|].
      intros i Hi. rewrite L2 in Hi. rewrite (m1_nth_map_seq (fun c => store (f (ring_nbhd cells c r)))) by exact Hi.
      apply A2. exact Hi. }
    destruct (Nat.eq_dec N 1) as [E|E].
    - (* N = 1: the left half is empty, the right half is the single cell *)
      rewrite E. change (1 / 2) with 0. change (0 <? 0) with false. change (0 <? 1 - 0) with true.
      change (1 - 0) with 1. change (0 + 0) with 0.
      pose proof (update_state_ok cells t HN Hr 1 0 1 x next) as H. fold N in H. rewrite E in H.
      specialize (H (le_n _) (le_n _) (le_n _)). rewrite Hn in H. specialize (H E HI HL).
      destruct (update_state rule store 1 cells r t 0 1 x next) as [[[s1 c1] l1] n1].
      unfold Post in H. cbn [fst snd] in H |- *. destruct H as (L & I & A & B & G & Nn).
      split; [apply Hrow; [lia|intros i Hi; apply A; lia]|]. split; [exact I|]. split; [exact G|lia].
    - assert (Hmid : 1 <= N / 2 < N) by (split; [apply Nat.div_le_lower_bound; lia|apply Nat.div_lt; lia]).
      replace (0 <? N / 2) with true by (symmetry; apply Nat.ltb_lt; lia).
      pose proof (update_state_ok cells t HN Hr N 0 (N / 2) x next) as H1. fold N in H1.
      destruct (update_state rule store N cells r t 0 (N / 2) x next) as [[[s1 c1] l1] n1].
      unfold Post in H1. cbn [fst snd] in H1.
      destruct H1 as (L1 & I1 & A1 & B1 & G1 & N1); try lia; try assumption.
      replace (0 <? N - N / 2) with true by (symmetry; apply Nat.ltb_lt; lia).
      pose proof (update_state_ok cells t HN Hr N (0 + N / 2) (N - N / 2) (s1, c1, l1) n1) as H2. fold N in H2.
      destruct (update_state rule store N cells r t (0 + N / 2) (N - N / 2) (s1, c1, l1) n1) as [[[s2 c2] l2] n2].
      unfold Post in H2. cbn [fst snd] in H2 |- *.
      destruct H2 as (L2 & I2 & A2 & B2 & G2 & N2); try lia; try assumption.
      split; [|split; [exact I2|split; [exact G2|lia]]].
      apply Hrow; [lia|]. intros i Hi. destruct (Nat.lt_ge_cases i (N / 2)).
      + rewrite B2 by lia. apply A1. lia.
      + apply A2. lia.
  Qed.
End PureRec.

(* ------------------------------------------------------------------ whole calls: C03 and C09 (1D) *)
Arguments GoodM {St} f x seen.

Section Calls.
  Variable St : Type.
  Variable rule : rule1 St.
  Variable f : list Z -> Z.
  Variable store : Z -> Z.
  Variable r : nat.
  Variable hist : list (list Z).
  Hypothesis Hans : answers rule f.
  Local Notation N := (length (last hist [])).
  Hypothesis Hr : 1 <= r <= N.

  Local Notation stepP := (step_plain (logged1 rule) store r).
  Local Notation stepM := (step_memo rule store r).
  Local Notation stepR := (step_recursive rule store r).
  Definition goodrow (c : list Z) : Prop := length c = N.

  (* ---- memoize=True against memoize=False: the memoised engine has processed exactly the
          neighbourhoods the plain engine has passed to the rule (the rule states are unrelated) *)
  Definition RM (xa : XM St) (xb : St * list call1) : Prop := GoodM f xa (map call_key (snd xb)).

  Lemma memo_step_sim : forall xa xb c t, RM xa xb -> goodrow c ->
    RM (fst (stepM xa c t)) (fst (stepP xb c t)) /\ snd (stepM xa c t) = snd (stepP xb c t) /\ goodrow (snd (stepP xb c t)).
  Proof.
    intros xa [sb plg] c t HR Hg. unfold goodrow in *. unfold RM in *. cbn [snd] in HR.
    assert (Hc : 1 <= r <= length c) by (rewrite Hg; exact Hr).
    destruct (step_plain_logged_pure St rule f store Hans r sb plg c t Hc) as (sb' & lg' & E & K). rewrite E. cbn [fst snd].
    destruct (step_memo_ok St rule f store Hans r xa c t _ Hc HR) as [H1 H2].
    split; [|split; [exact H1|rewrite next_row_length; exact Hg]].
    rewrite map_app, K. exact H2.
  Qed.

  Lemma RM_init s0 : RM (s0, [], []) (s0, []).
  Proof.
    unfold RM, GoodM. cbn [fst snd map]. split; [intros k v []|]. split; [constructor|]. split; intros k; reflexivity.
  Qed.

  (* ---- memoize="recursive" against memoize=False *)
  Definition RR (xa : XR St) (xb : St * list call1) : Prop :=
    InvR f store r (snd (fst xa)) /\ LogR (snd (fst xa)) (snd xa) /\ length (snd xa) <= length (snd xb).

  Lemma rec_step_sim : forall xa xb c t, RR xa xb -> goodrow c ->
    RR (fst (stepR xa c t)) (fst (stepP xb c t)) /\ snd (stepR xa c t) = snd (stepP xb c t) /\ goodrow (snd (stepP xb c t)).
  Proof.
    intros xa [sb plg] c t (HI & HL & HC) Hg. unfold goodrow in *. cbn [snd] in HC.
    assert (Hc : 1 <= r <= length c) by (rewrite Hg; exact Hr).
    destruct (step_plain_logged_pure St rule f store Hans r sb plg c t Hc) as (sb' & lg' & E & K). rewrite E. cbn [fst snd].
    assert (Hl' : length lg' = length c).
    { rewrite <- (map_length call_key lg'), K, map_length, seq_length. reflexivity. }
    destruct (step_recursive_ok St rule f store r Hans c t xa) as (H1 & H2 & H3 & H4); try lia; try assumption.
    split; [|split; [exact H1|rewrite next_row_length; exact Hg]].
    unfold RR. cbn [fst snd]. split; [exact H2|]. split; [exact H3|]. rewrite app_length. lia.
  Qed.

  Lemma RR_init s0 : RR (s0, [], []) (s0, []).
  Proof.
    unfold RR, InvR, LogR. cbn [fst snd map length]. split; [intros k v []|]. split; [|lia].
    split; [constructor|intros k []].
  Qed.

  Lemma good_init : goodrow (last hist []).
  Proof. reflexivity. Qed.

  (* ---- the plain log has one entry per cell and step *)
  Lemma plain_log_iter : forall n s lg cur t, goodrow cur ->
    length (snd (fst (iter_steps stepP n (s, lg) cur t))) = length lg + n * N.
  Proof.
    induction n as [|n IH]; intros s lg cur t Hg; [cbn [iter_steps fst snd]; lia|].
    cbn [iter_steps]. unfold goodrow in Hg.
    assert (Hc : 1 <= r <= length cur) by (rewrite Hg; exact Hr).
    destruct (step_plain_logged_pure St rule f store Hans r s lg cur t Hc) as (s' & lg' & E & K). rewrite E.
    assert (Hl' : length lg' = N).
    { rewrite <- (map_length call_key lg'), K, map_length, seq_length. exact Hg. }
    specialize (IH s' (lg ++ lg') (next_row f store cur r) (S t)).
    destruct (iter_steps stepP n (s', lg ++ lg') (next_row f store cur r) (S t)) as [x2 rest].
    cbn [fst snd] in IH |- *. rewrite IH by (unfold goodrow; rewrite next_row_length; exact Hg).
    rewrite app_length, Hl'. lia.
  Qed.

  Lemma plain_log_length_ans s0 T : 1 <= T ->
    length (log_of (evolve1d_fixed rule store (PBool false) r s0 hist T)) = N * (T - 1).
  Proof.
    intros HT. destruct T as [|k]; [lia|].
    unfold evolve1d_fixed. change (dispatch (PBool false)) with (Some Plain).
    unfold evolve_mode_fixed, evolve_plain, evolve_fixed.
    pose proof (plain_log_iter k s0 [] (last hist []) 1 good_init) as H.
    destruct (iter_steps stepP k (s0, []) (last hist []) 1) as [[s lg] rows].
    cbn [fst snd bind log_of length] in H |- *. rewrite H. cbn [length]. lia.
  Qed.

  (* the unmemoised run of a call with T >= 1 returns (it does not raise) *)
  Lemma plain_fixed_ok s0 T : 1 <= T ->
    exists rows, arr_of (evolve1d_fixed rule store (PBool false) r s0 hist T) = Ok (hist ++ rows) /\ length rows = T - 1.
  Proof.
    intros HT. destruct T as [|k]; [lia|].
    unfold evolve1d_fixed. change (dispatch (PBool false)) with (Some Plain).
    unfold evolve_mode_fixed, evolve_plain, evolve_fixed.
    pose proof (EngineProofs.iter_steps_length _ _ stepP k (s0, []) (last hist []) 1) as HL.
    destruct (iter_steps stepP k (s0, []) (last hist []) 1) as [[s lg] rows]. cbn [snd] in HL.
    exists rows. cbn [bind arr_of]. split; [reflexivity|lia].
  Qed.

  (* ---------------------------------------------------------------- fixed timesteps *)
  Theorem memo_true_fixed_ans s0 T :
    arr_of (evolve1d_fixed rule store (PBool true) r s0 hist T) = arr_of (evolve1d_fixed rule store (PBool false) r s0 hist T) /\
    NoDup (map call_key (log_of (evolve1d_fixed rule store (PBool true) r s0 hist T))) /\
    forall k, In k (map call_key (log_of (evolve1d_fixed rule store (PBool true) r s0 hist T))) <->
              In k (map call_key (log_of (evolve1d_fixed rule store (PBool false) r s0 hist T))).
  Proof.
    unfold evolve1d_fixed. change (dispatch (PBool true)) with (Some Memo). change (dispatch (PBool false)) with (Some Plain).
    unfold evolve_mode_fixed, evolve_plain.
    pose proof (fixed_sim _ _ _ [] stepM stepP RM goodrow memo_step_sim (s0, [], []) (s0, []) hist T (RM_init s0) good_init) as H.
    destruct (evolve_fixed [] stepM (s0, [], []) hist T) as [[[[sa ca] la] oa]|ea];
      destruct (evolve_fixed [] stepP (s0, []) hist T) as [[[sb lb] ob]|eb]; cbn [fixed_rel] in H; try contradiction.
    - destruct H as [HR <-]. unfold RM, GoodM in HR. cbn [fst snd] in HR. destruct HR as (_ & HN & _ & HS).
      cbn [bind arr_of log_of]. split; [reflexivity|]. split; [exact HN|exact HS].
    - subst eb. cbn [bind arr_of log_of map]. split; [reflexivity|]. split; [constructor|intros k; reflexivity].
  Qed.

  Theorem memo_recursive_fixed_ans s0 T :
    arr_of (evolve1d_fixed rule store (PStr StrLit.recursive_lit) r s0 hist T) = arr_of (evolve1d_fixed rule store (PBool false) r s0 hist T) /\
    NoDup (map call_key (log_of (evolve1d_fixed rule store (PStr StrLit.recursive_lit) r s0 hist T))) /\
    length (log_of (evolve1d_fixed rule store (PStr StrLit.recursive_lit) r s0 hist T)) <=
      length (log_of (evolve1d_fixed rule store (PBool false) r s0 hist T)).
  Proof.
    unfold evolve1d_fixed. change (dispatch (PStr StrLit.recursive_lit)) with (Some Recursive).
    change (dispatch (PBool false)) with (Some Plain).
    unfold evolve_mode_fixed, evolve_plain.
    pose proof (fixed_sim _ _ _ [] stepR stepP RR goodrow rec_step_sim (s0, [], []) (s0, []) hist T (RR_init s0) good_init) as H.
    destruct (evolve_fixed [] stepR (s0, [], []) hist T) as [[[[sa ca] la] oa]|ea];
      destruct (evolve_fixed [] stepP (s0, []) hist T) as [[[sb lb] ob]|eb]; cbn [fixed_rel] in H; try contradiction.
    - destruct H as [HR <-]. unfold RR, LogR in HR. cbn [fst snd] in HR. destruct HR as (_ & [HN _] & HC).
      cbn [bind arr_of log_of]. split; [reflexivity|]. split; [exact HN|exact HC].
    - subst eb. cbn [bind arr_of log_of map length]. split; [reflexivity|]. split; [constructor|lia].
  Qed.

  (* ---- "exactly once each": the contents the rule sees under memoize=True are exactly the ring
          neighbourhoods that occur in the trajectory of the unmemoised evolution (C01's
          evolve_plain_logged says what the plain engine passes to the rule) *)
  Theorem memo_true_once_trajectory_ans s0 T : 1 <= T ->
    exists s' rows,
      evolve_plain rule store r s0 hist T = Ok (s', hist ++ rows) /\
      arr_of (evolve1d_fixed rule store (PBool true) r s0 hist T) = Ok (hist ++ rows) /\
      NoDup (map call_key (log_of (evolve1d_fixed rule store (PBool true) r s0 hist T))) /\
      forall k, In k (map call_key (log_of (evolve1d_fixed rule store (PBool true) r s0 hist T))) <->
        exists t c, 1 <= t < T /\ c < N /\ k = ring_nbhd (nth (t - 1) (last hist [] :: rows) []) c r.
  Proof.
    intros HT. destruct (evolve_plain_logged St rule store r s0 [] hist T Hr HT) as (s' & rows & E1 & HL & HRow & E2).
    exists s', rows. split; [exact E1|].
    destruct (memo_true_fixed_ans s0 T) as (HA & HN & HS).
    assert (EP : evolve1d_fixed rule store (PBool false) r s0 hist T =
                 Ok (s', evolve_calls r N (last hist []) rows T, hist ++ rows)).
    { unfold evolve1d_fixed. change (dispatch (PBool false)) with (Some Plain). unfold evolve_mode_fixed.
      rewrite E2. reflexivity. }
    rewrite EP in HA, HS. cbn [arr_of log_of] in HA, HS. split; [exact HA|]. split; [exact HN|].
    intros k. rewrite HS. unfold evolve_calls. rewrite in_map_iff. split.
    - intros (e & Hk & Hin). apply in_flat_map in Hin. destruct Hin as (t0 & Ht0 & Hin).
      apply in_map_iff in Hin. destruct Hin as (c0 & Hc0 & Hin). apply in_seq in Ht0. apply in_seq in Hin.
      subst e. unfold call_key in Hk. cbn [fst] in Hk. subst k. exists t0, c0.
      split; [lia|]. split; [lia|reflexivity].
    - intros (t0 & c0 & Ht0 & Hc0 & ->).
      exists (ring_nbhd (nth (t0 - 1) (last hist [] :: rows) []) c0 r, c0, t0). split; [reflexivity|].
      apply in_flat_map. exists t0. split; [apply in_seq; lia|].
      apply in_map_iff. exists c0. split; [reflexivity|apply in_seq; lia].
  Qed.

  (* the same with the results made explicit: neither run raised (REVIEW_B item 8) *)
  Theorem memo_recursive_fixed_ok s0 T : 1 <= T ->
    exists rows,
      arr_of (evolve1d_fixed rule store (PStr StrLit.recursive_lit) r s0 hist T) = Ok (hist ++ rows) /\
      arr_of (evolve1d_fixed rule store (PBool false) r s0 hist T) = Ok (hist ++ rows) /\
      length rows = T - 1 /\
      NoDup (map call_key (log_of (evolve1d_fixed rule store (PStr StrLit.recursive_lit) r s0 hist T))) /\
      length (log_of (evolve1d_fixed rule store (PStr StrLit.recursive_lit) r s0 hist T)) <=
        length (log_of (evolve1d_fixed rule store (PBool false) r s0 hist T)) /\
      length (log_of (evolve1d_fixed rule store (PBool false) r s0 hist T)) = N * (T - 1).
  Proof.
    intros HT. destruct (plain_fixed_ok s0 T HT) as (rows & EP & HL).
    destruct (memo_recursive_fixed_ans s0 T) as (HA & HN & HC).
    exists rows. rewrite HA. split; [exact EP|]. split; [exact EP|]. split; [exact HL|].
    split; [exact HN|]. split; [exact HC|apply plain_log_length_ans; exact HT].
  Qed.

  (* ---------------------------------------------------------------- callable timesteps *)
  Section Dyn.
    Variable P : Type.
    Variable pred : P -> list (list Z) -> nat -> P * bool.
    Variables (fuel : nat) (p0 : P).

    Theorem memo_true_dynamic_ans s0 :
      dyn_arr_of (evolve1d_dynamic rule store pred (PBool true) r fuel p0 s0 hist) =
        dyn_arr_of (evolve1d_dynamic rule store pred (PBool false) r fuel p0 s0 hist) /\
      NoDup (map call_key (dyn_log_of (evolve1d_dynamic rule store pred (PBool true) r fuel p0 s0 hist))) /\
      forall k, In k (map call_key (dyn_log_of (evolve1d_dynamic rule store pred (PBool true) r fuel p0 s0 hist))) <->
                In k (map call_key (dyn_log_of (evolve1d_dynamic rule store pred (PBool false) r fuel p0 s0 hist))).
    Proof.
      unfold evolve1d_dynamic. change (dispatch (PBool true)) with (Some Memo). change (dispatch (PBool false)) with (Some Plain).
      unfold evolve_mode_dynamic, evolve_plain_dynamic.
      pose proof (dynamic_sim _ _ _ _ [] stepM stepP pred RM goodrow memo_step_sim fuel p0 (s0, [], []) (s0, []) hist (RM_init s0) good_init) as H.
      destruct (evolve_dynamic [] stepM pred fuel p0 (s0, [], []) hist) as [[[[pa [[sa ca] la]] oa] pla]|];
        destruct (evolve_dynamic [] stepP pred fuel p0 (s0, []) hist) as [[[[pb [sb lb]] ob] plb]|]; cbn [dyn_rel] in H; try contradiction.
      - destruct H as (<- & HR & <- & <-). unfold RM, GoodM in HR. cbn [fst snd] in HR. destruct HR as (_ & HN & _ & HS).
        cbn [dyn_arr_of dyn_log_of]. split; [reflexivity|]. split; [exact HN|exact HS].
      - cbn [dyn_arr_of dyn_log_of map]. split; [reflexivity|]. split; [constructor|intros k; reflexivity].
    Qed.

    Theorem memo_recursive_dynamic_ans s0 :
      dyn_arr_of (evolve1d_dynamic rule store pred (PStr StrLit.recursive_lit) r fuel p0 s0 hist) =
        dyn_arr_of (evolve1d_dynamic rule store pred (PBool false) r fuel p0 s0 hist) /\
      NoDup (map call_key (dyn_log_of (evolve1d_dynamic rule store pred (PStr StrLit.recursive_lit) r fuel p0 s0 hist))) /\
      length (dyn_log_of (evolve1d_dynamic rule store pred (PStr StrLit.recursive_lit) r fuel p0 s0 hist)) <=
        length (dyn_log_of (evolve1d_dynamic rule store pred (PBool false) r fuel p0 s0 hist)).
    Proof.
      unfold evolve1d_dynamic. change (dispatch (PStr StrLit.recursive_lit)) with (Some Recursive).
      change (dispatch (PBool false)) with (Some Plain).
      unfold evolve_mode_dynamic, evolve_plain_dynamic.
      pose proof (dynamic_sim _ _ _ _ [] stepR stepP pred RR goodrow rec_step_sim fuel p0 (s0, [], []) (s0, []) hist (RR_init s0) good_init) as H.
      destruct (evolve_dynamic [] stepR pred fuel p0 (s0, [], []) hist) as [[[[pa [[sa ca] la]] oa] pla]|];
        destruct (evolve_dynamic [] stepP pred fuel p0 (s0, []) hist) as [[[[pb [sb lb]] ob] plb]|]; cbn [dyn_rel] in H; try contradiction.
      - destruct H as (<- & HR & <- & <-). unfold RR, LogR in HR. cbn [fst snd] in HR. destruct HR as (_ & [HN _] & HC).
        cbn [dyn_arr_of dyn_log_of]. split; [reflexivity|]. split; [exact HN|exact HC].
      - cbn [dyn_arr_of dyn_log_of map length]. split; [reflexivity|]. split; [constructor|lia].
    Qed.
    (* the same for a run that returned: the unmemoised run returned the same array with the same
       predicate state and log (it did not run out of fuel, it did not raise) *)
    Theorem memo_true_dynamic_ok s0 p sa la a plog :
      evolve1d_dynamic rule store pred (PBool true) r fuel p0 s0 hist = Some (Ok (p, (sa, la, a), plog)) ->
      exists sb lb,
        evolve1d_dynamic rule store pred (PBool false) r fuel p0 s0 hist = Some (Ok (p, (sb, lb, a), plog)) /\
        NoDup (map call_key la) /\ forall k, In k (map call_key la) <-> In k (map call_key lb).
    Proof.
      intros E. destruct (memo_true_dynamic_ans s0) as (HA & HN & HS). rewrite E in HA, HN, HS.
      cbn [dyn_arr_of dyn_log_of] in HA, HN, HS.
      destruct (evolve1d_dynamic rule store pred (PBool false) r fuel p0 s0 hist) as [[[[pb [[sb lb] ob]] plb]|eb]|];
        cbn [dyn_arr_of dyn_log_of] in HA, HS; try discriminate HA.
      injection HA as <- <- <-. exists sb, lb. split; [reflexivity|]. split; [exact HN|exact HS].
    Qed.

    Theorem memo_recursive_dynamic_ok s0 p sa la a plog :
      evolve1d_dynamic rule store pred (PStr StrLit.recursive_lit) r fuel p0 s0 hist = Some (Ok (p, (sa, la, a), plog)) ->
      exists sb lb,
        evolve1d_dynamic rule store pred (PBool false) r fuel p0 s0 hist = Some (Ok (p, (sb, lb, a), plog)) /\
        NoDup (map call_key la) /\ length la <= length lb.
    Proof.
      intros E. destruct (memo_recursive_dynamic_ans s0) as (HA & HN & HC). rewrite E in HA, HN, HC.
      cbn [dyn_arr_of dyn_log_of] in HA, HN, HC.
      destruct (evolve1d_dynamic rule store pred (PBool false) r fuel p0 s0 hist) as [[[[pb [[sb lb] ob]] plb]|eb]|];
        cbn [dyn_arr_of dyn_log_of] in HA, HC; try discriminate HA.
      injection HA as <- <- <-. exists sb, lb. split; [reflexivity|]. split; [exact HN|exact HC].
    Qed.
  End Dyn.
End Calls.

(* ------------------------------------------------------------------ the stateless instances (names used by other files) *)
Section PureCalls.
  Variable f : list Z -> Z.
  Variable store : Z -> Z.
  Variable r : nat.
  Variable hist : list (list Z).
  Hypothesis Hr : 1 <= r <= length (last hist []).
  Local Notation rule := (pure1 f).

  Lemma plain_log_length T : 1 <= T ->
    length (log_of (evolve1d_fixed rule store (PBool false) r tt hist T)) = length (last hist []) * (T - 1).
  Proof. exact (plain_log_length_ans unit rule f store r hist (pure1_answers f) Hr tt T). Qed.

  Theorem memo_true_fixed T :
    arr_of (evolve1d_fixed rule store (PBool true) r tt hist T) = arr_of (evolve1d_fixed rule store (PBool false) r tt hist T) /\
    NoDup (map call_key (log_of (evolve1d_fixed rule store (PBool true) r tt hist T))) /\
    forall k, In k (map call_key (log_of (evolve1d_fixed rule store (PBool true) r tt hist T))) <->
              In k (map call_key (log_of (evolve1d_fixed rule store (PBool false) r tt hist T))).
  Proof. exact (memo_true_fixed_ans unit rule f store r hist (pure1_answers f) Hr tt T). Qed.

  Theorem memo_recursive_fixed T :
    arr_of (evolve1d_fixed rule store (PStr StrLit.recursive_lit) r tt hist T) = arr_of (evolve1d_fixed rule store (PBool false) r tt hist T) /\
    NoDup (map call_key (log_of (evolve1d_fixed rule store (PStr StrLit.recursive_lit) r tt hist T))) /\
    length (log_of (evolve1d_fixed rule store (PStr StrLit.recursive_lit) r tt hist T)) <=
      length (log_of (evolve1d_fixed rule store (PBool false) r tt hist T)).
  Proof. exact (memo_recursive_fixed_ans unit rule f store r hist (pure1_answers f) Hr tt T). Qed.

  Theorem memo_true_once_trajectory T : 1 <= T ->
    exists rows,
      evolve_plain rule store r tt hist T = Ok (tt, hist ++ rows) /\
      arr_of (evolve1d_fixed rule store (PBool true) r tt hist T) = Ok (hist ++ rows) /\
      NoDup (map call_key (log_of (evolve1d_fixed rule store (PBool true) r tt hist T))) /\
      forall k, In k (map call_key (log_of (evolve1d_fixed rule store (PBool true) r tt hist T))) <->
        exists t c, 1 <= t < T /\ c < length (last hist []) /\ k = ring_nbhd (nth (t - 1) (last hist [] :: rows) []) c r.
  Proof.
    intros HT. destruct (memo_true_once_trajectory_ans unit rule f store r hist (pure1_answers f) Hr tt T HT) as ([] & rows & H).
    exists rows. exact H.
  Qed.

  Section Dyn.
    Variable P : Type.
    Variable pred : P -> list (list Z) -> nat -> P * bool.
    Variables (fuel : nat) (p0 : P).

    Theorem memo_true_dynamic :
      dyn_arr_of (evolve1d_dynamic rule store pred (PBool true) r fuel p0 tt hist) =
        dyn_arr_of (evolve1d_dynamic rule store pred (PBool false) r fuel p0 tt hist) /\
      NoDup (map call_key (dyn_log_of (evolve1d_dynamic rule store pred (PBool true) r fuel p0 tt hist))) /\
      forall k, In k (map call_key (dyn_log_of (evolve1d_dynamic rule store pred (PBool true) r fuel p0 tt hist))) <->
                In k (map call_key (dyn_log_of (evolve1d_dynamic rule store pred (PBool false) r fuel p0 tt hist))).
    Proof. exact (memo_true_dynamic_ans unit rule f store r hist (pure1_answers f) Hr P pred fuel p0 tt). Qed.

    Theorem memo_recursive_dynamic :
      dyn_arr_of (evolve1d_dynamic rule store pred (PStr StrLit.recursive_lit) r fuel p0 tt hist) =
        dyn_arr_of (evolve1d_dynamic rule store pred (PBool false) r fuel p0 tt hist) /\
      NoDup (map call_key (dyn_log_of (evolve1d_dynamic rule store pred (PStr StrLit.recursive_lit) r fuel p0 tt hist))) /\
      length (dyn_log_of (evolve1d_dynamic rule store pred (PStr StrLit.recursive_lit) r fuel p0 tt hist)) <=
        length (dyn_log_of (evolve1d_dynamic rule store pred (PBool false) r fuel p0 tt hist)).
    Proof. exact (memo_recursive_dynamic_ans unit rule f store r hist (pure1_answers f) Hr P pred fuel p0 tt). Qed.
  End Dyn.
End PureCalls.

(* ------------------------------------------------------------------ any rule: no repeated contents *)
(* "a rule call happens only on a miss and is followed by the insertion of its key": these are cache
   facts; they hold for ANY rule state machine (pure or not), any radius, any rows. *)
Section XInv.
  Variables (X P C : Type).
  Variable dflt : C.
  Variable step : X -> C -> nat -> X * C.
  Variable pred : P -> list C -> nat -> P * bool.
  Variable Inv : X -> Prop.
  Hypothesis Hstep : forall x c t, Inv x -> Inv (fst (step x c t)).

  Lemma iter_xinv : forall n x cur t, Inv x -> Inv (fst (iter_steps step n x cur t)).
  Proof.
    induction n as [|n IH]; intros x cur t HI; [exact HI|].
    cbn [iter_steps]. pose proof (Hstep x cur t HI) as H1. destruct (step x cur t) as [x1 nxt]. cbn [fst] in H1.
    specialize (IH x1 nxt (S t) H1). destruct (iter_steps step n x1 nxt (S t)) as [x2 rest]. exact IH.
  Qed.

  Lemma fixed_xinv x hist T x' out : Inv x -> evolve_fixed dflt step x hist T = Ok (x', out) -> Inv x'.
  Proof.
    intros HI E. destruct T as [|k]; [discriminate E|]. unfold evolve_fixed in E.
    pose proof (iter_xinv k x (last hist dflt) 1 HI) as H.
    destruct (iter_steps step k x (last hist dflt) 1) as [x1 rows]. injection E as <- _. exact H.
  Qed.

  Lemma dyn_loop_xinv : forall fuel p x states t plog p' x' st' pl',
    Inv x -> dynamic_loop dflt step pred fuel p x states t plog = Some (p', x', st', pl') -> Inv x'.
  Proof.
    induction fuel as [|fuel IH]; intros p x states t plog p' x' st' pl' HI E; [discriminate E|].
    cbn [dynamic_loop] in E. destruct (pred p states t) as [p1 go]. destruct go.
    - pose proof (Hstep x (last states dflt) t HI) as H1.
      destruct (step x (last states dflt) t) as [x1 nxt]. cbn [fst] in H1. exact (IH _ _ _ _ _ _ _ _ _ H1 E).
    - injection E as _ <- _ _. exact HI.
  Qed.

  Lemma dynamic_xinv fuel p x hist p' x' out pl' :
    Inv x -> evolve_dynamic dflt step pred fuel p x hist = Some (p', x', out, pl') -> Inv x'.
  Proof.
    intros HI E. unfold evolve_dynamic in E.
    destruct (dynamic_loop dflt step pred fuel p x [last hist dflt] 1 []) as [[[[p1 x1] s1] l1]|] eqn:EL; [|discriminate E].
    injection E as _ <- _ _. exact (dyn_loop_xinv _ _ _ _ _ _ _ _ _ _ HI EL).
  Qed.
End XInv.

Section AnyRule.
  Variable St : Type.
  Variable rule : rule1 St.
  Variable store : Z -> Z.
  Variable r : nat.

  (* memoize=True: the cache keys are exactly the contents of the logged calls, which are distinct *)
  Definition KM (x : XM St) : Prop :=
    NoDup (map call_key (snd x)) /\ forall k, In k (map fst (snd (fst x))) <-> In k (map call_key (snd x)).

  Lemma get_memoized_K x n c t : KM x -> KM (fst (get_memoized rule x n c t)).
  Proof.
    destruct x as [[s cache] lg]. unfold KM. cbn [fst snd]. intros (HN & HC).
    unfold get_memoized. destruct (lookup n cache) as [v|] eqn:EL; [cbn [fst snd]; split; assumption|].
    destruct (rule s n c t) as [s1 v]. cbn [fst snd].
    assert (Hnew : ~ In n (map call_key lg)) by (intros H; apply HC in H; exact (lookup_None _ _ EL H)).
    rewrite map_app. cbn [map]. unfold call_key at 2 4. cbn [fst].
    split; [apply m1_nodup_snoc; assumption|].
    intros k; cbn [map fst In]; rewrite !in_app_iff; cbn [In]. rewrite HC. tauto.
  Qed.

  Lemma memo_all_K : forall nbs x c t, KM x -> KM (fst (memo_all rule store x c nbs t)).
  Proof.
    induction nbs as [|n nbs IH]; intros x c t HK; [exact HK|].
    cbn [memo_all]. pose proof (get_memoized_K x n c t HK) as H1.
    destruct (get_memoized rule x n c t) as [x1 v]. cbn [fst] in H1.
    specialize (IH x1 (S c) t H1). destruct (memo_all rule store x1 (S c) nbs t) as [x2 vs]. exact IH.
  Qed.

  Lemma step_memo_K x cells t : KM x -> KM (fst (step_memo rule store r x cells t)).
  Proof. intros HK. unfold step_memo. apply memo_all_K. exact HK. Qed.

  (* memoize="recursive": logged keys are distinct and are all in the cache *)
  Definition KR (x : XR St) : Prop := LogR (snd (fst x)) (snd x).

  Lemma split_with_K (rec : nat -> nat -> XR St -> list Z -> XR St * list Z) start len x next :
    (forall st ln x0 n0, KR x0 -> KR (fst (rec st ln x0 n0))) -> KR x -> KR (fst (split_with rec start len x next)).
  Proof.
    intros Hrec HK. unfold split_with.
    assert (H1 : KR (fst (if 0 <? len / 2 then rec start (len / 2) x next else (x, next)))).
    { destruct (0 <? len / 2); [apply Hrec|]; exact HK. }
    destruct (if 0 <? len / 2 then rec start (len / 2) x next else (x, next)) as [x1 n1]. cbn [fst] in H1.
    destruct (0 <? len - len / 2); [apply Hrec|]; exact H1.
  Qed.

  Lemma update_state_K curr t : forall fuel start len x next,
    KR x -> KR (fst (update_state rule store fuel curr r t start len x next)).
  Proof.
    induction fuel as [|k IH]; intros start len x next HK; [exact HK|].
    destruct x as [[s cache] lg]. cbn [update_state].
    set (key := wrap_take curr (Z.of_nat start - Z.of_nat r) (len + 2 * r)).
    destruct (lookup key cache) as [vals|] eqn:EL; [exact HK|].
    assert (Hnew : ~ In key (map call_key lg)).
    { intros H. apply (proj2 HK) in H. exact (lookup_None _ _ EL H). }
    destruct (1 <? len).
    - pose proof (split_with_K (update_state rule store k curr r t) start len (s, cache, lg) next IH HK) as H2.
      destruct (split_with (update_state rule store k curr r t) start len (s, cache, lg) next) as [[[s2 c2] l2] n2].
      unfold KR, LogR in H2 |- *. cbn [fst snd] in H2 |- *.
      destruct H2 as [H2a H2b]. split; [exact H2a|]. intros k0 H0. cbn [map fst]. right. apply H2b. exact H0.
    - unfold KR, LogR in HK. cbn [fst snd] in HK.
      destruct (rule s key start t) as [s1 v]. unfold KR, LogR. cbn [fst snd].
      rewrite map_app. cbn [map]. unfold call_key at 2 4. cbn [fst]. split.
      + apply m1_nodup_snoc; [exact (proj1 HK)|exact Hnew].
      + intros k0 H0. apply in_app_iff in H0. cbn [map fst In]. destruct H0 as [H0|[H0|[]]].
        * right. apply (proj2 HK). exact H0.
        * left. exact H0.
  Qed.

  Lemma step_recursive_K x cells t : KR x -> KR (fst (step_recursive rule store r x cells t)).
  Proof.
    intros HK. unfold step_recursive. apply split_with_K; [|exact HK].
    intros st ln x0 n0 H0. apply update_state_K. exact H0.
  Qed.

  (* whole calls, any rule, any radius: no two rule calls of one evolve call have equal contents *)
  Theorem memo_nodup_fixed_any (memo : PyVal) s0 hist T : memo = PBool true \/ memo = PStr StrLit.recursive_lit ->
    NoDup (map call_key (log_of (evolve1d_fixed rule store memo r s0 hist T))).
  Proof.
    intros [-> | ->]; unfold evolve1d_fixed.
    - change (dispatch (PBool true)) with (Some Memo). unfold evolve_mode_fixed.
      destruct (evolve_fixed [] (step_memo rule store r) (s0, [], []) hist T) as [[[[sa ca] la] oa]|ea] eqn:E;
        cbn [bind log_of map]; [|constructor].
      assert (H0 : KM (s0, [], [])) by (unfold KM; cbn [fst snd map]; split; [constructor|intros k; reflexivity]).
      exact (proj1 (fixed_xinv _ _ [] (step_memo rule store r) KM (fun x c t => step_memo_K x c t) _ _ _ _ _ H0 E)).
    - change (dispatch (PStr StrLit.recursive_lit)) with (Some Recursive). unfold evolve_mode_fixed.
      destruct (evolve_fixed [] (step_recursive rule store r) (s0, [], []) hist T) as [[[[sa ca] la] oa]|ea] eqn:E;
        cbn [bind log_of map]; [|constructor].
      assert (H0 : KR (s0, [], [])) by (unfold KR, LogR; cbn [fst snd map]; split; [constructor|intros k []]).
      exact (proj1 (fixed_xinv _ _ [] (step_recursive rule store r) KR (fun x c t => step_recursive_K x c t) _ _ _ _ _ H0 E)).
  Qed.

  Theorem memo_nodup_dynamic_any {P} (pred : P -> list (list Z) -> nat -> P * bool) (memo : PyVal) fuel p0 s0 hist :
    memo = PBool true \/ memo = PStr StrLit.recursive_lit ->
    NoDup (map call_key (dyn_log_of (evolve1d_dynamic rule store pred memo r fuel p0 s0 hist))).
  Proof.
    intros [-> | ->]; unfold evolve1d_dynamic.
    - change (dispatch (PBool true)) with (Some Memo). unfold evolve_mode_dynamic.
      destruct (evolve_dynamic [] (step_memo rule store r) pred fuel p0 (s0, [], []) hist) as [[[[pa [[sa ca] la]] oa] pla]|] eqn:E;
        cbn [dyn_log_of map]; [|constructor].
      assert (H0 : KM (s0, [], [])) by (unfold KM; cbn [fst snd map]; split; [constructor|intros k; reflexivity]).
      exact (proj1 (dynamic_xinv _ _ _ [] (step_memo rule store r) pred KM (fun x c t => step_memo_K x c t) _ _ _ _ _ _ _ _ H0 E)).
    - change (dispatch (PStr StrLit.recursive_lit)) with (Some Recursive). unfold evolve_mode_dynamic.
      destruct (evolve_dynamic [] (step_recursive rule store r) pred fuel p0 (s0, [], []) hist) as [[[[pa [[sa ca] la]] oa] pla]|] eqn:E;
        cbn [dyn_log_of map]; [|constructor].
      assert (H0 : KR (s0, [], [])) by (unfold KR, LogR; cbn [fst snd map]; split; [constructor|intros k []]).
      exact (proj1 (dynamic_xinv _ _ _ [] (step_recursive rule store r) pred KR (fun x c t => step_recursive_K x c t) _ _ _ _ _ _ _ _ H0 E)).
  Qed.
End AnyRule.

(* ------------------------------------------------------------------ the Plain mode is C01's engine *)
(* memoize=False of this model is Evolve1D.evolve_plain run with a logging rule: same array, for any
   rule state machine (so C01's theorems describe the right-hand sides of the C03 theorems) *)
Theorem plain_mode_is_evolve_plain {St} (rule : rule1 St) (store : Z -> Z) r s0 hist T :
  1 <= r <= length (last hist []) ->
  arr_of (evolve1d_fixed rule store (PBool false) r s0 hist T) =
    match evolve_plain rule store r s0 hist T with Ok (_, a) => Ok a | Raise e => Raise e end.
Proof.
  intros H. destruct T as [|k]; [reflexivity|].
  destruct (evolve_plain_logged St rule store r s0 [] hist (S k) H) as (s' & rows & E1 & _ & _ & E2); [lia|].
  unfold evolve1d_fixed. change (dispatch (PBool false)) with (Some Plain). unfold evolve_mode_fixed.
  rewrite E2, E1. reflexivity.
Qed.
