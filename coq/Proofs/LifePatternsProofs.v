(* C11, after the independent review: (1) the general still-life theorem (any finite pattern passing the
   decidable plane check, any torus with the halo, any placement, every memoize mode) and the
   fixed-point theorem on grids; (2) the blinker's MINIMAL period is two, from either orientation;
   (3) the glider in all four directions and all four phases.  Builds on Proofs/LifeProofs.v
   (torus_pattern_step) and Proofs/LifeMemoProofs.v (every mode = the plain engine). *)
From Coq Require Import ZArith List Arith Lia Bool ZifyBool ZifyNat.
From CPL Require Import Model.Base Model.Rules Model.Engine Model.Evolve2D Model.Memo2D Model.Life Model.LifePatterns.
From CPL Require Import Proofs.Evolve2DProofs Proofs.Memo2DProofs Proofs.LifeProofs Proofs.LifeMemoProofs.
Import ListNotations.
Local Open Scope Z_scope.

(* ================================================================ 1. still lifes *)

(* (the reviewer's corollary of torus_pattern_step) *)
Theorem still_life_general : forall (R C p q : Z) (cells : list (Z * Z)) (a b : Z),
  step_check p q cells cells p q 1 1 = true -> 0 <= p -> 0 <= q -> p + 2 <= R -> q + 2 <= C ->
  tstep R C (emb R C a b (of_list cells)) == emb R C a b (of_list cells).
Proof.
  intros R C p q cells a b H Hp Hq HR HC i j.
  rewrite (torus_pattern_step R C p q cells cells p q 1 1 a b H Hp Hq HR HC i j).
  replace (a - 1 + 1) with a by ring. replace (b - 1 + 1) with b by ring. reflexivity.
Qed.

Lemma still_life_iter R C p q cells a b n :
  step_check p q cells cells p q 1 1 = true -> 0 <= p -> 0 <= q -> p + 2 <= R -> q + 2 <= C ->
  iter n (tstep R C) (emb R C a b (of_list cells)) == emb R C a b (of_list cells).
Proof.
  intros H Hp Hq HR HC. induction n as [|n IH]; cbn [iter]; [apply peq_refl|].
  eapply peq_trans; [apply tstep_ext; exact IH|]. apply (still_life_general R C p q); assumption.
Qed.

(* on the engine, every memoize mode, any number of steps *)
Theorem still_life_all_modes : forall (m : mode) (R C : nat) (p q : Z) (cells : list (Z * Z)) (a b : Z) (T : nat),
  step_check p q cells cells p q 1 1 = true -> 0 <= p -> 0 <= q -> p + 2 <= Z.of_nat R -> q + 2 <= Z.of_nat C ->
  arr2_of (evolve2d_mode_fixed gol_as_rule2 store_id m 1 Moore tt [pattern_grid R C a b cells] (S T))
  = Ok (repeat (pattern_grid R C a b cells) (S T)).
Proof.
  intros m R C p q cells a b T H Hp Hq HR HC.
  assert (HR1 : (1 <= R)%nat) by lia. assert (HC1 : (1 <= C)%nat) by lia.
  rewrite (life_all_modes_plain m R C _ (S T) HR1 HC1 (pattern_grid_wf2 R C a b cells)).
  rewrite (life_evolve_plane R C [pattern_grid R C a b cells] (emb (Z.of_nat R) (Z.of_nat C) a b (of_list cells)) T
             HR1 HC1 eq_refl).
  cbn [arr2_of app repeat]. f_equal. f_equal.
  rewrite (map_ext _ (fun _ => pattern_grid R C a b cells)).
  - rewrite map_const_repeat, seq_length. reflexivity.
  - intros k. apply grid_of_plane_ext. apply (still_life_iter _ _ p q cells a b (S k)); assumption.
Qed.

(* ANY grid that the torus Life step maps to itself stays fixed under evolve2d, in every mode *)
Lemma iter_steps_fixed {X} (step : X -> grid -> nat -> X * grid) (s : X) (g : grid) :
  (forall t, step s g t = (s, g)) -> forall n t, iter_steps step n s g t = (s, repeat g n).
Proof.
  intros H n. induction n as [|n IH]; intros t; [reflexivity|].
  cbn [iter_steps]. rewrite H, IH. reflexivity.
Qed.

Theorem fixed_point_stays : forall (m : mode) (R C : nat) (g : grid) (T : nat), (1 <= R)%nat -> (1 <= C)%nat ->
  wf_grid R C g -> binary_grid g -> life_step_grid g = g ->
  arr2_of (evolve2d_mode_fixed gol_as_rule2 store_id m 1 Moore tt [g] (S T)) = Ok (repeat g (S T)).
Proof.
  intros m R C g T HR HC Hwf Hb Hfix.
  rewrite (life_all_modes_plain m R C [g] (S T) HR HC Hwf).
  unfold life_evolve, evolve2d_plain, evolve_fixed. cbn [last].
  rewrite (iter_steps_fixed (step_plain2d gol_as_rule2 store_id 1 Moore) tt g).
  - reflexivity.
  - intros t. rewrite (life_step_torus R C g t HR HC Hwf Hb).
    unfold life_step_grid in Hfix. rewrite (wf_grid_rows R C g Hwf), (wf_grid_cols R C g HR Hwf) in Hfix.
    rewrite Hfix. reflexivity.
Qed.

(* ================================================================ 2. the blinker: minimal period two *)

(* reading a placed pattern at the image of its own cell (u, v) *)
Lemma emb_at R C a b P u v : 0 <= u < R -> 0 <= v < C ->
  emb R C a b P ((a + u) mod R) ((b + v) mod C) = P u v.
Proof.
  intros Hu Hv. unfold emb. rewrite !Zminus_mod_idemp_l.
  replace (a + u - a) with u by ring. replace (b + v - b) with v by ring.
  rewrite !Z.mod_small by lia. reflexivity.
Qed.

(* two tabulated planes that differ somewhere on the torus are different grids *)
Lemma grid_of_plane_neq R C f g i j : 0 <= i < Z.of_nat R -> 0 <= j < Z.of_nat C -> f i j <> g i j ->
  grid_of_plane R C f <> grid_of_plane R C g.
Proof.
  intros Hi Hj Hne E. apply Hne.
  rewrite <- (plane_of_grid_of_plane R C f i j Hi Hj), <- (plane_of_grid_of_plane R C g i j Hi Hj), E. reflexivity.
Qed.

(* the vertical phase is a different grid from the horizontal one it came from: at the blinker's first
   cell (a, b) the horizontal phase is alive and the vertical one (column b + 1) is dead *)
Lemma blinker_phases_differ (R C : nat) (a b : Z) : (3 <= R)%nat -> (3 <= C)%nat ->
  pattern_grid R C (a - 1) (b + 1) BV <> pattern_grid R C a b BH.
Proof.
  intros HR HC E. symmetry in E. revert E. unfold pattern_grid.
  apply (grid_of_plane_neq R C _ _ ((a + 0) mod Z.of_nat R) ((b + 0) mod Z.of_nat C));
    try (apply Z.mod_pos_bound; lia).
  rewrite (emb_at _ _ a b (of_list BH) 0 0) by lia.
  replace (a + 0) with (a - 1 + 1) by ring. replace (b + 0) with (b + 1 + -1) by ring.
  unfold emb at 1. rewrite !Zminus_mod_idemp_l.
  replace (a - 1 + 1 - (a - 1)) with 1 by ring. replace (b + 1 + -1 - (b + 1)) with (-1) by ring.
  rewrite (Z.mod_small 1) by lia.
  destruct (of_list BV 1 (-1 mod Z.of_nat C)) eqn:E1.
  - assert (S : supp 3 1 (of_list BV)) by (apply of_list_supp; vm_compute; reflexivity).
    apply S in E1. assert (0 <= -1 mod Z.of_nat C < Z.of_nat C) by (apply Z.mod_pos_bound; lia).
    assert (E2 : -1 mod Z.of_nat C = Z.of_nat C - 1).
    { rewrite <- (Z_mod_plus_full (-1) 1 (Z.of_nat C)). rewrite Z.mod_small by lia. ring. }
    lia.
  - vm_compute. discriminate.
Qed.

(* MINIMAL PERIOD TWO, horizontal start: all R, C >= 5, every placement, every mode *)
Theorem blinker_minimal_period_h : forall (m : mode) (R C : nat) (a b : Z), (5 <= R)%nat -> (5 <= C)%nat ->
  exists g1,
    arr2_of (evolve2d_mode_fixed gol_as_rule2 store_id m 1 Moore tt [pattern_grid R C a b BH] 3)
    = Ok [pattern_grid R C a b BH; g1; pattern_grid R C a b BH]
    /\ g1 <> pattern_grid R C a b BH.
Proof.
  intros m R C a b HR HC. exists (pattern_grid R C (a - 1) (b + 1) BV). split.
  - apply blinker_all_modes; assumption.
  - apply blinker_phases_differ; lia.
Qed.

(* vertical start *)
Lemma blinker_engine_v (R C : nat) (a b : Z) : (5 <= R)%nat -> (5 <= C)%nat ->
  life_evolve [pattern_grid R C a b BV] 3 =
  Ok (tt, [pattern_grid R C a b BV; pattern_grid R C (a + 1) (b - 1) BH; pattern_grid R C a b BV]).
Proof.
  intros HR HC.
  assert (HRz : 5 <= Z.of_nat R) by lia. assert (HCz : 5 <= Z.of_nat C) by lia.
  rewrite (life_evolve_plane R C [pattern_grid R C a b BV] (emb (Z.of_nat R) (Z.of_nat C) a b (of_list BV)) 2
             ltac:(lia) ltac:(lia) eq_refl).
  cbn [seq map app iter]. unfold pattern_grid.
  pose proof (blinker_phase2 (Z.of_nat R) (Z.of_nat C) a b HRz ltac:(lia)) as P1.
  assert (P2 : tstep (Z.of_nat R) (Z.of_nat C) (tstep (Z.of_nat R) (Z.of_nat C) (emb (Z.of_nat R) (Z.of_nat C) a b (of_list BV)))
               == emb (Z.of_nat R) (Z.of_nat C) a b (of_list BV)).
  { eapply peq_trans; [apply tstep_ext; exact P1|].
    intros i j. rewrite (blinker_phase1 (Z.of_nat R) (Z.of_nat C) (a + 1) (b - 1) ltac:(lia) HCz i j).
    replace (a + 1 - 1) with a by ring. replace (b - 1 + 1) with b by ring. reflexivity. }
  rewrite (grid_of_plane_ext R C _ _ P2), (grid_of_plane_ext R C _ _ P1). reflexivity.
Qed.

Theorem blinker_minimal_period_v : forall (m : mode) (R C : nat) (a b : Z), (5 <= R)%nat -> (5 <= C)%nat ->
  exists g1,
    arr2_of (evolve2d_mode_fixed gol_as_rule2 store_id m 1 Moore tt [pattern_grid R C a b BV] 3)
    = Ok [pattern_grid R C a b BV; g1; pattern_grid R C a b BV]
    /\ g1 <> pattern_grid R C a b BV.
Proof.
  intros m R C a b HR HC. exists (pattern_grid R C (a + 1) (b - 1) BH). split.
  - rewrite (life_all_modes_plain m R C _ 3 ltac:(lia) ltac:(lia) (pattern_grid_wf2 R C a b BV)).
    rewrite (blinker_engine_v R C a b HR HC). reflexivity.
  - intros E. apply (blinker_phases_differ R C (a + 1) (b - 1) ltac:(lia) ltac:(lia)).
    replace (a + 1 - 1) with a by ring. replace (b - 1 + 1) with b by ring. symmetry. exact E.
Qed.

(* ================================================================ 3. gliders: four directions, four phases *)

Lemma glider_checks_ok : glider_checks = true.
Proof. vm_compute. reflexivity. Qed.

Lemma dk16_in d k : (d < 4)%nat -> (k < 4)%nat -> In (d, k) dk16.
Proof.
  intros Hd Hk. unfold dk16. apply in_prod.
  - destruct d as [|[|[|[|d]]]]; cbn; auto; lia.
  - destruct k as [|[|[|[|k]]]]; cbn; auto; lia.
Qed.

Lemma nextk_lt k : (nextk k < 4)%nat.
Proof. destruct k as [|[|[|k]]]; cbn; lia. Qed.

(* one step of the glider of direction d in phase k, anywhere on any torus with R, C >= 5 *)
Lemma glider_step d k R C a b : (d < 4)%nat -> (k < 4)%nat -> 5 <= R -> 5 <= C ->
  tstep R C (emb R C a b (of_list (gl d k)))
  == emb R C (a - 1 + fst (goff d k)) (b - 1 + snd (goff d k)) (of_list (gl d (nextk k))).
Proof.
  intros Hd Hk HR HC.
  pose proof glider_checks_ok as H. unfold glider_checks in H. rewrite forallb_forall in H.
  specialize (H (d, k) (dk16_in d k Hd Hk)). cbn [fst snd] in H.
  apply (torus_pattern_step R C 3 3 _ _ 3 3 _ _ a b H); lia.
Qed.

Lemma emb_eq_args R C x y x' y' P : x = x' -> y = y' -> emb R C x y P == emb R C x' y' P.
Proof. intros -> ->. apply peq_refl. Qed.

Ltac norm_goff :=
  repeat match goal with
         | |- context [goff ?d ?k] => let v := eval vm_compute in (goff d k) in change (goff d k) with v
         | |- context [gdir ?d] => let v := eval vm_compute in (gdir d) in change (gdir d) with v
         end.

(* FOUR STEPS: the glider of ANY direction d, started in ANY phase k, placed ANYWHERE on ANY torus with
   R, C >= 5, is the same pattern displaced by its direction *)
Theorem glider_any_direction_period4 : forall (d k : nat) (R C a b : Z), (d < 4)%nat -> (k < 4)%nat -> 5 <= R -> 5 <= C ->
  iter 4 (tstep R C) (emb R C a b (of_list (gl d k)))
  == emb R C (a + fst (gdir d)) (b + snd (gdir d)) (of_list (gl d k)).
Proof.
  intros d k R C a b Hd Hk HR HC. cbn [iter].
  pose proof (nextk_lt k) as K1. pose proof (nextk_lt (nextk k)) as K2. pose proof (nextk_lt (nextk (nextk k))) as K3.
  eapply peq_trans. { apply tstep_ext, tstep_ext, tstep_ext. apply (glider_step d k); assumption. }
  eapply peq_trans. { apply tstep_ext, tstep_ext. apply (glider_step d (nextk k)); assumption. }
  eapply peq_trans. { apply tstep_ext. apply (glider_step d (nextk (nextk k))); assumption. }
  eapply peq_trans. { apply (glider_step d (nextk (nextk (nextk k)))); assumption. }
  destruct d as [|[|[|[|d]]]]; try lia; destruct k as [|[|[|[|k]]]]; try lia; cbn [nextk];
    norm_goff; cbn [fst snd]; apply emb_eq_args; ring.
Qed.

(* the direction really is a displacement by one cell diagonally, and the four directions are the four diagonals *)
Lemma gdir_diagonals : map gdir [0; 1; 2; 3]%nat = [(1, 1); (1, -1); (-1, -1); (-1, 1)].
Proof. reflexivity. Qed.

(* on the engine, every mode: five grids, the first the placed glider, the last the same glider displaced *)
Theorem glider_any_direction_all_modes : forall (m : mode) (d k : nat) (R C : nat) (a b : Z),
  (d < 4)%nat -> (k < 4)%nat -> (5 <= R)%nat -> (5 <= C)%nat ->
  exists g1 g2 g3,
    arr2_of (evolve2d_mode_fixed gol_as_rule2 store_id m 1 Moore tt [pattern_grid R C a b (gl d k)] 5)
    = Ok [pattern_grid R C a b (gl d k); g1; g2; g3;
          pattern_grid R C (a + fst (gdir d)) (b + snd (gdir d)) (gl d k)].
Proof.
  intros m d k R C a b Hd Hk HR HC.
  assert (HRz : 5 <= Z.of_nat R) by lia. assert (HCz : 5 <= Z.of_nat C) by lia.
  do 3 eexists.
  rewrite (life_all_modes_plain m R C _ 5 ltac:(lia) ltac:(lia) (pattern_grid_wf2 R C a b (gl d k))).
  rewrite (life_evolve_plane R C [pattern_grid R C a b (gl d k)]
             (emb (Z.of_nat R) (Z.of_nat C) a b (of_list (gl d k))) 4 ltac:(lia) ltac:(lia) eq_refl).
  cbn [seq map app arr2_of]. unfold pattern_grid at 3.
  rewrite <- (grid_of_plane_ext R C _ _ (glider_any_direction_period4 d k _ _ a b Hd Hk HRz HCz)).
  reflexivity.
Qed.

(* the displaced glider is not the start grid (it does move): the cell count of a row changes... shown on
   instances in Properties/C11.v; here: the 16 patterns are pairwise different as cell sets *)
Lemma gl_all_distinct : NoDup (map (fun dk : nat * nat => gl (fst dk) (snd dk)) dk16).
Proof.
  apply (NoDup_map_inv (fun cells => fold_right (fun c acc => acc + 2 ^ (3 * fst c + snd c)) 0 cells)).
  vm_compute. repeat (constructor; [cbn; intuition discriminate|]). constructor.
Qed.
