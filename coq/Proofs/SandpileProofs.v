(* Proofs for C14: Sandpile is the Bak-Tang-Wiesenfeld parallel toppling rule; grains are conserved.
   Part 1 (rule level, against the SPEC neighbourhood torus_block, r = 1): the value returned on the
           block of cell (row, col) is `sand_cell`: 0 on a closed boundary, centre + 1 on a scheduled
           addition, the BTW toppling value otherwise.
   Part 2 (sums): finite sums over {0..n-1} are invariant under cyclic rotation; double sums.
   Part 3 (one engine step, via Proofs/Evolve2DProofs.step_plain2d_pure_ct): is_btw, conserves, closed,
           stable_fixed, add_grain.
   Part 4 (whole evolutions through Engine.iter_steps / evolve2d_plain). *)
From Coq Require Import ZArith Lia ZifyBool ZifyNat.
From CPL Require Import Model.Base Model.Rules Model.Engine Model.Evolve2D Model.Sandpile.
From CPL Require Import Proofs.Evolve2DProofs.
Local Open Scope Z_scope.

(* ------------------------------------------------------------------ specification vocabulary *)
Definition cell (g : grid) (row col : nat) : Z := nth col (nth row g []) 0.
(* [x >= 4] *)
Definition tp (x : Z) : Z := if 4 <=? x then 1 else 0.
(* x - 1 and x + 1 on the ring of n positions *)
Definition up (n x : nat) : nat := ((x + n - 1) mod n)%nat.
Definition dn (n x : nat) : nat := ((x + 1) mod n)%nat.

(* the BTW parallel toppling value of cell (row, col) on the R x C torus:
   neighbours N, W, E, S are POSITIONS; on 1xN / 2xN tori they may be the same cell and are then
   counted once per position *)
Definition btw_cell (g : grid) (R C row col : nat) : Z :=
  cell g row col - 4 * tp (cell g row col)
  + tp (cell g (up R row) col) + tp (cell g row (up C col))
  + tp (cell g row (dn C col)) + tp (cell g (dn R row) col).

(* what one call of the rule object returns for cell (row, col) at step t, in terms of the grid *)
Definition sand_cell (rows cols : nat) (closed : bool) (adds : list addition)
           (g : grid) (R C t row col : nat) : Z :=
  if closed && in_boundary rows cols (row, col) then 0
  else if scheduled adds (row, col) t then cell g row col + 1
  else btw_cell g R C row col.

Definition grid_of (R C : nat) (f : nat -> nat -> Z) : grid :=
  map (fun row => map (fun col => f row col) (seq 0 C)) (seq 0 R).

Definition gsum (g : grid) : Z := zsum (map zsum g).

Definition stable (R C : nat) (g : grid) : Prop :=
  forall row col, (row < R)%nat -> (col < C)%nat -> cell g row col < 4.
Definition boundary_zero (rows cols R C : nat) (g : grid) : Prop :=
  forall row col, (row < R)%nat -> (col < C)%nat -> in_boundary rows cols (row, col) = true -> cell g row col = 0.
Definition no_addition_at (adds : list addition) (t : nat) : Prop :=
  forall a, In a adds -> snd a <> t.

(* ------------------------------------------------------------------ Part 1: the rule on the torus block *)
Section RuleLevel.

  Lemma tp_cases x : (4 <= x /\ tp x = 1) \/ (x < 4 /\ tp x = 0).
  Proof. unfold tp. destruct (4 <=? x) eqn:E; lia. Qed.

  Lemma tp_nonneg x : 0 <= tp x.
  Proof. destruct (tp_cases x); lia. Qed.

  Lemma topple_in_4 acc a b c d : topple_in acc [a; b; c; d] = acc + tp a + tp b + tp c + tp d.
  Proof.
    unfold topple_in, K, tp. cbn [fold_left].
    destruct (4 <=? a); destruct (4 <=? b); destruct (4 <=? c); destruct (4 <=? d); lia.
  Qed.

  (* the rule's answer in terms of the five entries it reads *)
  Lemma sandpile_call_entries rows cols closed adds n c t :
    sandpile_call rows cols closed adds n c t =
    if closed && in_boundary rows cols c then 0
    else if scheduled adds c t then nb_at n 1 1 + 1
    else nb_at n 1 1 - 4 * tp (nb_at n 1 1)
         + tp (nb_at n 0 1) + tp (nb_at n 1 0) + tp (nb_at n 1 2) + tp (nb_at n 2 1).
  Proof.
    unfold sandpile_call. destruct (closed && in_boundary rows cols c); [reflexivity|].
    destruct (scheduled adds c t); [reflexivity|]. cbv zeta. rewrite topple_in_4.
    unfold K. destruct (tp_cases (nb_at n 1 1)) as [[H1 H2]|[H1 H2]]; rewrite H2.
    - destruct (4 <=? nb_at n 1 1) eqn:E; lia.
    - destruct (4 <=? nb_at n 1 1) eqn:E; lia.
  Qed.

  Lemma mod_mid n x : (x < n)%nat -> ((x + 1 + n - 1) mod n = x)%nat.
  Proof.
    intros H. replace (x + 1 + n - 1)%nat with (x + 1 * n)%nat by lia.
    rewrite Nat.mod_add by lia. apply Nat.mod_small. exact H.
  Qed.
  Lemma mod_up n x : ((x + 0 + n - 1) mod n = up n x)%nat.
  Proof. unfold up. rewrite Nat.add_0_r. reflexivity. Qed.
  Lemma mod_dn n x : (1 <= n)%nat -> ((x + 2 + n - 1) mod n = dn n x)%nat.
  Proof.
    intros H. unfold dn. replace (x + 2 + n - 1)%nat with (x + 1 + 1 * n)%nat by lia.
    apply Nat.mod_add. lia.
  Qed.

  (* entry (a, b) of the radius-1 torus block *)
  Lemma nb_at_block g R C m row col a b : wf_grid R C g -> (1 <= R)%nat -> (a <= 2)%nat -> (b <= 2)%nat ->
    nb_at {| nb_vals := torus_block g row col 1; nb_mask := m |} a b
    = cell g ((row + a + R - 1) mod R)%nat ((col + b + C - 1) mod C)%nat.
  Proof.
    intros Hwf HR Ha Hb. unfold nb_at, cell. cbn [nb_vals].
    apply (torus_block_entry g R C row col 1 a b Hwf HR); lia.
  Qed.

  (* the five entries the rule reads are not masked by evolve2d's von Neumann mask (and none is for Moore) *)
  Lemma read_entries_unmasked : forall ty,
    let m := match ty with Moore => no_mask 1 | VonNeumann => vn_mask 1 end in
    nth 1 (nth 0 m []) true = false /\ nth 0 (nth 1 m []) true = false /\ nth 1 (nth 1 m []) true = false /\
    nth 2 (nth 1 m []) true = false /\ nth 1 (nth 2 m []) true = false.
  Proof. intros [|]; vm_compute; repeat split. Qed.

  Theorem sandpile_call_block : forall rows cols closed adds g R C m row col t,
    wf_grid R C g -> (1 <= R)%nat -> (1 <= C)%nat -> (row < R)%nat -> (col < C)%nat ->
    sandpile_call rows cols closed adds {| nb_vals := torus_block g row col 1; nb_mask := m |} (row, col) t
    = sand_cell rows cols closed adds g R C t row col.
  Proof.
    intros rows cols closed adds g R C m row col t Hwf HR HC Hrow Hcol.
    rewrite sandpile_call_entries. unfold sand_cell, btw_cell.
    rewrite !(nb_at_block g R C m row col) by (try assumption; lia).
    rewrite !mod_up, !(mod_dn R), !(mod_dn C), (mod_mid R row), (mod_mid C col) by assumption.
    reflexivity.
  Qed.
End RuleLevel.

(* ------------------------------------------------------------------ Part 2: sums and rotations *)
Fixpoint sumn (f : nat -> Z) (n : nat) : Z :=
  match n with O => 0 | S m => sumn f m + f m end.
Definition dsum (f : nat -> nat -> Z) (R C : nat) : Z := sumn (fun row => sumn (f row) C) R.

Lemma zsum_app a b : zsum (a ++ b) = zsum a + zsum b.
Proof. induction a as [|x a IH]; cbn [app zsum fold_right] in *; [reflexivity|]. unfold zsum in *. lia. Qed.

Lemma zsum_map_seq (f : nat -> Z) n : zsum (map f (seq 0 n)) = sumn f n.
Proof.
  induction n as [|n IH]; [reflexivity|].
  rewrite seq_S, map_app, zsum_app, IH. cbn [sumn Nat.add map zsum fold_right]. lia.
Qed.

Lemma sumn_ext f h n : (forall i, (i < n)%nat -> f i = h i) -> sumn f n = sumn h n.
Proof.
  induction n as [|n IH]; intros H; [reflexivity|]. cbn [sumn].
  rewrite IH by (intros i Hi; apply H; lia). rewrite (H n) by lia. reflexivity.
Qed.

Lemma sumn_le f h n : (forall i, (i < n)%nat -> f i <= h i) -> sumn f n <= sumn h n.
Proof.
  induction n as [|n IH]; intros H; [reflexivity|]. cbn [sumn].
  assert (sumn f n <= sumn h n) by (apply IH; intros i Hi; apply H; lia).
  assert (f n <= h n) by (apply H; lia). lia.
Qed.

Lemma sumn_lin6 a b d1 d2 d3 d4 n :
  sumn (fun i => a i - 4 * b i + d1 i + d2 i + d3 i + d4 i) n
  = sumn a n - 4 * sumn b n + sumn d1 n + sumn d2 n + sumn d3 n + sumn d4 n.
Proof. induction n as [|n IH]; cbn [sumn]; lia. Qed.

Lemma sumn_succ f n : sumn f (S n) = f O + sumn (fun i => f (S i)) n.
Proof. induction n as [|n IH]; [cbn [sumn]; lia|]. cbn [sumn] in *. lia. Qed.

Lemma sumn_rot1 f n : (1 <= n)%nat -> sumn (fun i => f ((i + 1) mod n)%nat) n = sumn f n.
Proof.
  intros Hn. destruct n as [|m]; [lia|]. rewrite (sumn_succ f m). cbn [sumn].
  rewrite (sumn_ext (fun i => f ((i + 1) mod S m)%nat) (fun i => f (S i)) m).
  - replace (m + 1)%nat with (S m) by lia. rewrite Nat.mod_same by lia. lia.
  - intros i Hi. rewrite Nat.mod_small by lia. f_equal. lia.
Qed.

(* the sum over a cyclic rotation of {0..n-1} is the sum *)
Theorem sumn_rot : forall f n k, (1 <= n)%nat -> sumn (fun i => f ((i + k) mod n)%nat) n = sumn f n.
Proof.
  intros f n k Hn. revert f. induction k as [|k IH]; intros f.
  - apply sumn_ext. intros i Hi. rewrite Nat.add_0_r, Nat.mod_small by lia. reflexivity.
  - rewrite <- (IH f). rewrite <- (sumn_rot1 (fun j => f ((j + k) mod n)%nat) n Hn).
    apply sumn_ext. intros i Hi. f_equal. rewrite Nat.add_mod_idemp_l by lia. f_equal. lia.
Qed.

Lemma dsum_ext f h R C : (forall i j, (i < R)%nat -> (j < C)%nat -> f i j = h i j) -> dsum f R C = dsum h R C.
Proof. intros H. unfold dsum. apply sumn_ext. intros i Hi. apply sumn_ext. intros j Hj. apply H; assumption. Qed.

Lemma dsum_le f h R C : (forall i j, (i < R)%nat -> (j < C)%nat -> f i j <= h i j) -> dsum f R C <= dsum h R C.
Proof. intros H. unfold dsum. apply sumn_le. intros i Hi. apply sumn_le. intros j Hj. apply H; assumption. Qed.

Lemma dsum_lin6 a b d1 d2 d3 d4 R C :
  dsum (fun i j => a i j - 4 * b i j + d1 i j + d2 i j + d3 i j + d4 i j) R C
  = dsum a R C - 4 * dsum b R C + dsum d1 R C + dsum d2 R C + dsum d3 R C + dsum d4 R C.
Proof.
  unfold dsum. rewrite <- sumn_lin6. apply sumn_ext. intros i Hi. apply sumn_lin6.
Qed.

Theorem dsum_rot_row : forall f R C k, (1 <= R)%nat ->
  dsum (fun i j => f ((i + k) mod R)%nat j) R C = dsum f R C.
Proof. intros f R C k HR. unfold dsum. apply (sumn_rot (fun i => sumn (f i) C) R k HR). Qed.

Theorem dsum_rot_col : forall f R C k, (1 <= C)%nat ->
  dsum (fun i j => f i ((j + k) mod C)%nat) R C = dsum f R C.
Proof. intros f R C k HC. unfold dsum. apply sumn_ext. intros i Hi. apply (sumn_rot (f i) C k HC). Qed.

(* ------------------------------------------------------------------ grids as functions *)
Lemma wf_grid_of R C f : wf_grid R C (grid_of R C f).
Proof.
  unfold grid_of. split.
  - rewrite map_length, seq_length. reflexivity.
  - apply Forall_forall. intros x Hin. apply in_map_iff in Hin. destruct Hin as [a [Ha _]]. subst x.
    rewrite map_length, seq_length. reflexivity.
Qed.

Lemma cell_grid_of R C f row col : (row < R)%nat -> (col < C)%nat -> cell (grid_of R C f) row col = f row col.
Proof.
  intros Hr Hc. unfold cell, grid_of. rewrite (nth_map_seq _ R row []) by exact Hr.
  rewrite (nth_map_seq _ C col 0) by exact Hc. reflexivity.
Qed.

Lemma grid_of_cell R C g : wf_grid R C g -> g = grid_of R C (cell g).
Proof.
  intros Hwf. destruct Hwf as [Hl Hf]. unfold grid_of.
  transitivity (map (fun i => nth i g []) (seq 0 R)).
  - rewrite <- Hl. apply list_as_map_nth.
  - apply map_ext_in. intros row Hrow. apply in_seq in Hrow.
    pose proof (list_as_map_nth (nth row g []) 0) as E.
    rewrite (wf_grid_nth R C g row (conj Hl Hf)) in E by lia. exact E.
Qed.

Lemma grid_of_ext R C f h : (forall i j, (i < R)%nat -> (j < C)%nat -> f i j = h i j) -> grid_of R C f = grid_of R C h.
Proof.
  intros H. unfold grid_of. apply map_ext_in. intros i Hi. apply in_seq in Hi.
  apply map_ext_in. intros j Hj. apply in_seq in Hj. apply H; lia.
Qed.

Lemma gsum_grid_of R C f : gsum (grid_of R C f) = dsum f R C.
Proof.
  unfold gsum, grid_of, dsum. rewrite map_map. rewrite zsum_map_seq.
  apply sumn_ext. intros i Hi. apply zsum_map_seq.
Qed.

Lemma gsum_cell R C g : wf_grid R C g -> gsum g = dsum (cell g) R C.
Proof. intros Hwf. rewrite (grid_of_cell R C g Hwf) at 1. apply gsum_grid_of. Qed.

(* ------------------------------------------------------------------ the BTW map conserves the total *)
Theorem btw_total : forall g R C, (1 <= R)%nat -> (1 <= C)%nat ->
  dsum (btw_cell g R C) R C = dsum (cell g) R C.
Proof.
  intros g R C HR HC. unfold btw_cell.
  rewrite (dsum_lin6 (cell g) (fun i j => tp (cell g i j))
             (fun i j => tp (cell g (up R i) j)) (fun i j => tp (cell g i (up C j)))
             (fun i j => tp (cell g i (dn C j))) (fun i j => tp (cell g (dn R i) j)) R C).
  assert (E1 : dsum (fun i j => tp (cell g (up R i) j)) R C = dsum (fun i j => tp (cell g i j)) R C).
  { rewrite <- (dsum_rot_row (fun i j => tp (cell g i j)) R C (R - 1) HR).
    apply dsum_ext. intros i j Hi Hj. unfold up. do 3 f_equal. lia. }
  assert (E2 : dsum (fun i j => tp (cell g i (up C j))) R C = dsum (fun i j => tp (cell g i j)) R C).
  { rewrite <- (dsum_rot_col (fun i j => tp (cell g i j)) R C (C - 1) HC).
    apply dsum_ext. intros i j Hi Hj. unfold up. do 3 f_equal. lia. }
  assert (E3 : dsum (fun i j => tp (cell g i (dn C j))) R C = dsum (fun i j => tp (cell g i j)) R C).
  { rewrite <- (dsum_rot_col (fun i j => tp (cell g i j)) R C 1 HC). reflexivity. }
  assert (E4 : dsum (fun i j => tp (cell g (dn R i) j)) R C = dsum (fun i j => tp (cell g i j)) R C).
  { rewrite <- (dsum_rot_row (fun i j => tp (cell g i j)) R C 1 HR). reflexivity. }
  rewrite E1, E2, E3, E4. lia.
Qed.

(* ------------------------------------------------------------------ Part 3: one engine step *)
Lemma scheduled_none adds c t : no_addition_at adds t -> scheduled adds c t = false.
Proof.
  intros H. unfold scheduled. induction adds as [|a adds IH]; [reflexivity|].
  cbn [existsb]. rewrite IH by (intros b Hb; apply H; right; exact Hb).
  assert (snd a <> t) by (apply H; left; reflexivity).
  destruct (t =? snd a)%nat eqn:E; [lia|]. reflexivity.
Qed.

Lemma scheduled_In adds row col t : In ((row, col), t) adds -> scheduled adds (row, col) t = true.
Proof.
  intros H. unfold scheduled. apply existsb_exists. exists ((row, col), t). split; [exact H|].
  unfold cell_eqb. cbn [fst snd]. rewrite !Nat.eqb_refl. reflexivity.
Qed.

Lemma scheduled_not_In adds row col t : ~ In ((row, col), t) adds -> scheduled adds (row, col) t = false.
Proof.
  intros H. unfold scheduled. match goal with |- ?x = false => destruct x eqn:E end; [|reflexivity]. exfalso. apply H.
  apply existsb_exists in E. destruct E as [[[r c] t'] [Hin Hb]]. unfold cell_eqb in Hb. cbn [fst snd] in Hb.
  assert (t = t' /\ row = r /\ col = c) as [-> [-> ->]] by lia. exact Hin.
Qed.

(* THE ONE-STEP EQUATION: the engine step with the Sandpile rule object, any boundary mode and schedule *)
Theorem sandpile_step : forall rows cols closed adds ty g R C t u,
  wf_grid R C g -> (1 <= R)%nat -> (1 <= C)%nat ->
  snd (step_plain2d (sandpile_rule rows cols closed adds) store_id 1 ty u g t)
  = grid_of R C (sand_cell rows cols closed adds g R C t).
Proof.
  intros rows cols closed adds ty g R C t u Hwf HR HC. unfold sandpile_rule.
  rewrite (step_plain2d_pure_ct (sandpile_call rows cols closed adds) store_id g R C 1 ty t u Hwf HR HC) by lia.
  unfold grid_of. apply map_ext_in. intros row Hrow. apply in_seq in Hrow.
  apply map_ext_in. intros col Hcol. apply in_seq in Hcol. unfold store_id.
  apply sandpile_call_block; try assumption; lia.
Qed.

Local Notation sstep rows cols closed adds ty := (step_plain2d (sandpile_rule rows cols closed adds) store_id 1 ty).

Theorem sandpile_is_btw : forall rows cols adds ty g R C t u,
  wf_grid R C g -> (1 <= R)%nat -> (1 <= C)%nat -> no_addition_at adds t ->
  let g' := snd (sstep rows cols false adds ty u g t) in
  wf_grid R C g' /\
  forall row col, (row < R)%nat -> (col < C)%nat ->
    cell g' row col =
      cell g row col - 4 * tp (cell g row col)
      + tp (cell g (up R row) col) + tp (cell g row (up C col))
      + tp (cell g row (dn C col)) + tp (cell g (dn R row) col).
Proof.
  intros rows cols adds ty g R C t u Hwf HR HC Hno. cbv zeta.
  rewrite (sandpile_step rows cols false adds ty g R C t u Hwf HR HC). split; [apply wf_grid_of|].
  intros row col Hrow Hcol. rewrite cell_grid_of by assumption.
  unfold sand_cell. cbn [andb]. rewrite scheduled_none by exact Hno. reflexivity.
Qed.

Lemma open_step_grid rows cols adds ty g R C t u :
  wf_grid R C g -> (1 <= R)%nat -> (1 <= C)%nat -> no_addition_at adds t ->
  snd (sstep rows cols false adds ty u g t) = grid_of R C (btw_cell g R C).
Proof.
  intros Hwf HR HC Hno. rewrite (sandpile_step rows cols false adds ty g R C t u Hwf HR HC).
  apply grid_of_ext. intros i j Hi Hj. unfold sand_cell. cbn [andb].
  rewrite scheduled_none by exact Hno. reflexivity.
Qed.

Theorem sandpile_conserves : forall rows cols adds ty g R C t u,
  wf_grid R C g -> (1 <= R)%nat -> (1 <= C)%nat -> no_addition_at adds t ->
  gsum (snd (sstep rows cols false adds ty u g t)) = gsum g.
Proof.
  intros rows cols adds ty g R C t u Hwf HR HC Hno.
  rewrite (open_step_grid rows cols adds ty g R C t u Hwf HR HC Hno).
  rewrite gsum_grid_of, (gsum_cell R C g Hwf). apply btw_total; assumption.
Qed.

(* closed boundary: the boundary cells are 0 after the step whatever the input *)
Lemma closed_boundary_after rows cols adds ty g R C t u :
  wf_grid R C g -> (1 <= R)%nat -> (1 <= C)%nat ->
  boundary_zero rows cols R C (snd (sstep rows cols true adds ty u g t)).
Proof.
  intros Hwf HR HC. rewrite (sandpile_step rows cols true adds ty g R C t u Hwf HR HC).
  intros row col Hrow Hcol Hb. rewrite cell_grid_of by assumption. unfold sand_cell.
  rewrite Hb. reflexivity.
Qed.

(* pointwise, a closed step (no addition) is below the BTW value when the boundary cells hold 0 on entry ... *)
Lemma closed_le_btw_bz rows cols adds g R C t row col :
  boundary_zero rows cols R C g -> no_addition_at adds t -> (row < R)%nat -> (col < C)%nat ->
  sand_cell rows cols true adds g R C t row col <= btw_cell g R C row col.
Proof.
  intros Hbz Hno Hrow Hcol. unfold sand_cell. cbn [andb].
  destruct (in_boundary rows cols (row, col)) eqn:Eb.
  - unfold btw_cell. rewrite (Hbz row col Hrow Hcol Eb). change (tp 0) with 0.
    pose proof (tp_nonneg (cell g (up R row) col)). pose proof (tp_nonneg (cell g row (up C col))).
    pose proof (tp_nonneg (cell g row (dn C col))). pose proof (tp_nonneg (cell g (dn R row) col)). lia.
  - rewrite scheduled_none by exact Hno. lia.
Qed.

(* ... and also whenever all grain counts are non-negative (boundary cells may then hold anything) *)
Lemma closed_le_btw_nonneg rows cols adds g R C t row col :
  (forall i j, 0 <= cell g i j) -> no_addition_at adds t ->
  sand_cell rows cols true adds g R C t row col <= btw_cell g R C row col.
Proof.
  intros Hnn Hno. unfold sand_cell. cbn [andb].
  destruct (in_boundary rows cols (row, col)) eqn:Eb.
  - unfold btw_cell. pose proof (Hnn row col).
    pose proof (tp_nonneg (cell g (up R row) col)). pose proof (tp_nonneg (cell g row (up C col))).
    pose proof (tp_nonneg (cell g row (dn C col))). pose proof (tp_nonneg (cell g (dn R row) col)).
    destruct (tp_cases (cell g row col)) as [[Hq1 Hq2]|[Hq1 Hq2]]; rewrite Hq2; lia.
  - rewrite scheduled_none by exact Hno. lia.
Qed.

Theorem sandpile_closed : forall rows cols adds ty g R C t u,
  wf_grid R C g -> (1 <= R)%nat -> (1 <= C)%nat -> no_addition_at adds t ->
  boundary_zero rows cols R C g ->
  let g' := snd (sstep rows cols true adds ty u g t) in
  wf_grid R C g' /\ boundary_zero rows cols R C g' /\ gsum g' <= gsum g.
Proof.
  intros rows cols adds ty g R C t u Hwf HR HC Hno Hbz. cbv zeta. split; [|split].
  - rewrite (sandpile_step rows cols true adds ty g R C t u Hwf HR HC). apply wf_grid_of.
  - apply closed_boundary_after; assumption.
  - rewrite (sandpile_step rows cols true adds ty g R C t u Hwf HR HC).
    rewrite gsum_grid_of, (gsum_cell R C g Hwf), <- (btw_total g R C HR HC).
    apply dsum_le. intros i j Hi Hj. apply closed_le_btw_bz; assumption.
Qed.

Theorem sandpile_closed_nonneg : forall rows cols adds ty g R C t u,
  wf_grid R C g -> (1 <= R)%nat -> (1 <= C)%nat -> no_addition_at adds t ->
  (forall i j, 0 <= cell g i j) ->
  let g' := snd (sstep rows cols true adds ty u g t) in
  boundary_zero rows cols R C g' /\ gsum g' <= gsum g /\ (forall i j, 0 <= cell g' i j).
Proof.
  intros rows cols adds ty g R C t u Hwf HR HC Hno Hnn. cbv zeta. split; [|split].
  - apply closed_boundary_after; assumption.
  - rewrite (sandpile_step rows cols true adds ty g R C t u Hwf HR HC).
    rewrite gsum_grid_of, (gsum_cell R C g Hwf), <- (btw_total g R C HR HC).
    apply dsum_le. intros i j Hi Hj. apply closed_le_btw_nonneg; assumption.
  - rewrite (sandpile_step rows cols true adds ty g R C t u Hwf HR HC). intros i j.
    destruct (Nat.lt_ge_cases i R) as [Hi|Hi]; [destruct (Nat.lt_ge_cases j C) as [Hj|Hj]|].
    + rewrite cell_grid_of by assumption. unfold sand_cell. cbn [andb].
      destruct (in_boundary rows cols (i, j)); [lia|]. rewrite scheduled_none by exact Hno.
      unfold btw_cell. pose proof (Hnn i j).
      pose proof (tp_nonneg (cell g (up R i) j)). pose proof (tp_nonneg (cell g i (up C j))).
      pose proof (tp_nonneg (cell g i (dn C j))). pose proof (tp_nonneg (cell g (dn R i) j)).
      destruct (tp_cases (cell g i j)) as [[Hq1 Hq2]|[Hq1 Hq2]]; rewrite Hq2; lia.
    + unfold cell. rewrite (nth_overflow (nth i (grid_of R C _) [])); [lia|].
      rewrite (wf_grid_nth R C _ i (wf_grid_of R C _) Hi). exact Hj.
    + unfold cell. rewrite (nth_overflow (grid_of R C _)) by (rewrite (proj1 (wf_grid_of R C _)); exact Hi).
      destruct j; cbn [nth]; lia.
Qed.

(* stable configurations: nobody topples, so the BTW value is the cell itself *)
Lemma btw_cell_stable g R C row col : (1 <= R)%nat -> (1 <= C)%nat ->
  stable R C g -> (row < R)%nat -> (col < C)%nat -> btw_cell g R C row col = cell g row col.
Proof.
  intros HR HC Hst Hrow Hcol. unfold btw_cell.
  assert (Hu : forall n x, (1 <= n)%nat -> (up n x < n)%nat) by (intros n x Hn; unfold up; apply Nat.mod_upper_bound; lia).
  assert (Hd : forall n x, (1 <= n)%nat -> (dn n x < n)%nat) by (intros n x Hn; unfold dn; apply Nat.mod_upper_bound; lia).
  pose proof (Hst row col Hrow Hcol) as H0.
  pose proof (Hst (up R row) col (Hu R row HR) Hcol) as H1.
  pose proof (Hst row (up C col) Hrow (Hu C col HC)) as H2.
  pose proof (Hst row (dn C col) Hrow (Hd C col HC)) as H3.
  pose proof (Hst (dn R row) col (Hd R row HR) Hcol) as H4.
  destruct (tp_cases (cell g row col)) as [[? E0]|[? E0]]; [lia|].
  destruct (tp_cases (cell g (up R row) col)) as [[? E1]|[? E1]]; [lia|].
  destruct (tp_cases (cell g row (up C col))) as [[? E2]|[? E2]]; [lia|].
  destruct (tp_cases (cell g row (dn C col))) as [[? E3]|[? E3]]; [lia|].
  destruct (tp_cases (cell g (dn R row) col)) as [[? E4]|[? E4]]; [lia|].
  rewrite E0, E1, E2, E3, E4. lia.
Qed.

(* the general one-step statement on a stable configuration, with any schedule *)
Theorem sandpile_add_grain : forall rows cols closed adds ty g R C t u,
  wf_grid R C g -> (1 <= R)%nat -> (1 <= C)%nat ->
  stable R C g -> (closed = true -> boundary_zero rows cols R C g) ->
  let g' := snd (sstep rows cols closed adds ty u g t) in
  wf_grid R C g' /\
  forall row col, (row < R)%nat -> (col < C)%nat ->
    cell g' row col =
      if closed && in_boundary rows cols (row, col) then cell g row col
      else if scheduled adds (row, col) t then cell g row col + 1
      else cell g row col.
Proof.
  intros rows cols closed adds ty g R C t u Hwf HR HC Hst Hbz. cbv zeta.
  rewrite (sandpile_step rows cols closed adds ty g R C t u Hwf HR HC). split; [apply wf_grid_of|].
  intros row col Hrow Hcol. rewrite cell_grid_of by assumption. unfold sand_cell.
  destruct (closed && in_boundary rows cols (row, col)) eqn:E.
  - apply andb_prop in E. destruct E as [Ec Eb]. symmetry. apply (Hbz Ec row col Hrow Hcol Eb).
  - destruct (scheduled adds (row, col) t); [reflexivity|]. apply btw_cell_stable; assumption.
Qed.

(* the reading of the property text: the scheduled non-boundary cell gains one grain ... *)
Corollary sandpile_add_grain_at : forall rows cols closed adds ty g R C t u row col,
  wf_grid R C g -> (1 <= R)%nat -> (1 <= C)%nat ->
  stable R C g -> (closed = true -> boundary_zero rows cols R C g) ->
  (row < R)%nat -> (col < C)%nat -> In ((row, col), t) adds ->
  closed && in_boundary rows cols (row, col) = false ->
  cell (snd (sstep rows cols closed adds ty u g t)) row col = cell g row col + 1.
Proof.
  intros rows cols closed adds ty g R C t u row col Hwf HR HC Hst Hbz Hrow Hcol Hin Hnb.
  destruct (sandpile_add_grain rows cols closed adds ty g R C t u Hwf HR HC Hst Hbz) as [_ H].
  rewrite (H row col Hrow Hcol), Hnb, (scheduled_In adds row col t Hin). reflexivity.
Qed.

(* ... and every cell without an addition scheduled at this step keeps its value *)
Corollary sandpile_add_grain_elsewhere : forall rows cols closed adds ty g R C t u row col,
  wf_grid R C g -> (1 <= R)%nat -> (1 <= C)%nat ->
  stable R C g -> (closed = true -> boundary_zero rows cols R C g) ->
  (row < R)%nat -> (col < C)%nat -> ~ In ((row, col), t) adds ->
  cell (snd (sstep rows cols closed adds ty u g t)) row col = cell g row col.
Proof.
  intros rows cols closed adds ty g R C t u row col Hwf HR HC Hst Hbz Hrow Hcol Hnin.
  destruct (sandpile_add_grain rows cols closed adds ty g R C t u Hwf HR HC Hst Hbz) as [_ H].
  rewrite (H row col Hrow Hcol), (scheduled_not_In adds row col t Hnin).
  destruct (closed && in_boundary rows cols (row, col)); reflexivity.
Qed.

Theorem sandpile_stable_fixed : forall rows cols closed adds ty g R C t u,
  wf_grid R C g -> (1 <= R)%nat -> (1 <= C)%nat -> no_addition_at adds t ->
  stable R C g -> (closed = true -> boundary_zero rows cols R C g) ->
  snd (sstep rows cols closed adds ty u g t) = g.
Proof.
  intros rows cols closed adds ty g R C t u Hwf HR HC Hno Hst Hbz.
  rewrite (sandpile_step rows cols closed adds ty g R C t u Hwf HR HC).
  rewrite (grid_of_cell R C g Hwf) at 2. apply grid_of_ext. intros row col Hrow Hcol.
  unfold sand_cell. destruct (closed && in_boundary rows cols (row, col)) eqn:E.
  - apply andb_prop in E. destruct E as [Ec Eb]. symmetry. apply (Hbz Ec row col Hrow Hcol Eb).
  - rewrite scheduled_none by exact Hno. apply btw_cell_stable; assumption.
Qed.

(* ------------------------------------------------------------------ Part 4: whole evolutions *)
Definition no_addition_in (adds : list addition) (t n : nat) : Prop :=
  forall a, In a adds -> ~ (t <= snd a < t + n)%nat.

Lemma no_addition_in_head adds t n : no_addition_in adds t (S n) -> no_addition_at adds t.
Proof. intros H a Ha E. apply (H a Ha). lia. Qed.
Lemma no_addition_in_tail adds t n : no_addition_in adds t (S n) -> no_addition_in adds (S t) n.
Proof. intros H a Ha E. apply (H a Ha). lia. Qed.

(* each total is at most the one before *)
Fixpoint chain_le (x : Z) (l : list Z) : Prop :=
  match l with [] => True | y :: l' => y <= x /\ chain_le y l' end.

Theorem sandpile_total_constant : forall rows cols adds ty R C n g t u,
  (1 <= R)%nat -> (1 <= C)%nat -> wf_grid R C g -> no_addition_in adds t n ->
  let grids := snd (iter_steps (sstep rows cols false adds ty) n u g t) in
  length grids = n /\ Forall (fun g' => wf_grid R C g' /\ gsum g' = gsum g) grids.
Proof.
  intros rows cols adds ty R C n g t u HR HC. cbv zeta. revert g t u.
  induction n as [|n IH]; intros g t u Hwf Hno; [split; [reflexivity|constructor]|].
  cbn [iter_steps].
  pose proof (sandpile_conserves rows cols adds ty g R C t u Hwf HR HC (no_addition_in_head adds t n Hno)) as Hc.
  pose proof (proj1 (sandpile_is_btw rows cols adds ty g R C t u Hwf HR HC (no_addition_in_head adds t n Hno))) as Hw.
  destruct (sstep rows cols false adds ty u g t) as [u1 nxt]. cbn [snd] in Hc, Hw.
  specialize (IH nxt (S t) u1 Hw (no_addition_in_tail adds t n Hno)).
  destruct (iter_steps (sstep rows cols false adds ty) n u1 nxt (S t)) as [u2 rest]. cbn [snd] in *.
  destruct IH as [IHl IHf]. split; [cbn [length]; rewrite IHl; reflexivity|].
  constructor; [split; assumption|].
  apply (Forall_impl _ (P := fun g' => wf_grid R C g' /\ gsum g' = gsum nxt)); [|exact IHf].
  intros a [Ha1 Ha2]. split; [exact Ha1|]. rewrite Ha2. exact Hc.
Qed.

Theorem sandpile_total_nonincreasing : forall rows cols adds ty R C n g t u,
  (1 <= R)%nat -> (1 <= C)%nat -> wf_grid R C g -> no_addition_in adds t n ->
  boundary_zero rows cols R C g ->
  let grids := snd (iter_steps (sstep rows cols true adds ty) n u g t) in
  length grids = n /\ chain_le (gsum g) (map gsum grids) /\
  Forall (fun g' => wf_grid R C g' /\ boundary_zero rows cols R C g' /\ gsum g' <= gsum g) grids.
Proof.
  intros rows cols adds ty R C n g t u HR HC. cbv zeta. revert g t u.
  induction n as [|n IH]; intros g t u Hwf Hno Hbz; [split; [reflexivity|split; [exact I|constructor]]|].
  cbn [iter_steps].
  pose proof (sandpile_closed rows cols adds ty g R C t u Hwf HR HC (no_addition_in_head adds t n Hno) Hbz) as Hc.
  cbv zeta in Hc.
  destruct (sstep rows cols true adds ty u g t) as [u1 nxt]. cbn [snd] in Hc. destruct Hc as [Hw [Hb Hle]].
  specialize (IH nxt (S t) u1 Hw (no_addition_in_tail adds t n Hno) Hb).
  destruct (iter_steps (sstep rows cols true adds ty) n u1 nxt (S t)) as [u2 rest]. cbn [snd] in *.
  destruct IH as [IHl [IHc IHf]]. split; [cbn [length]; rewrite IHl; reflexivity|]. split.
  - cbn [map chain_le]. split; assumption.
  - constructor; [split; [|split]; assumption|].
    apply (Forall_impl _ (P := fun g' => wf_grid R C g' /\ boundary_zero rows cols R C g' /\ gsum g' <= gsum nxt)); [|exact IHf].
    intros a [Ha1 [Ha2 Ha3]]. split; [exact Ha1|]. split; [exact Ha2|]. lia.
Qed.

(* a stable configuration is a fixed point of the whole evolution *)
Theorem sandpile_stable_forever : forall rows cols closed adds ty R C n g t u,
  (1 <= R)%nat -> (1 <= C)%nat -> wf_grid R C g -> no_addition_in adds t n ->
  stable R C g -> (closed = true -> boundary_zero rows cols R C g) ->
  snd (iter_steps (sstep rows cols closed adds ty) n u g t) = repeat g n.
Proof.
  intros rows cols closed adds ty R C n g t u HR HC Hwf. revert t u.
  induction n as [|n IH]; intros t u Hno Hst Hbz; [reflexivity|].
  cbn [iter_steps repeat].
  pose proof (sandpile_stable_fixed rows cols closed adds ty g R C t u Hwf HR HC (no_addition_in_head adds t n Hno) Hst Hbz) as Hf.
  destruct (sstep rows cols closed adds ty u g t) as [u1 nxt]. cbn [snd] in Hf. subst nxt.
  specialize (IH (S t) u1 (no_addition_in_tail adds t n Hno) Hst Hbz).
  destruct (iter_steps (sstep rows cols closed adds ty) n u1 g (S t)) as [u2 rest]. cbn [snd] in *.
  rewrite IH. reflexivity.
Qed.

Lemma let_pair {A B D} (p : A * B) (f : A -> B -> D) : (let '(x, y) := p in f x y) = f (fst p) (snd p).
Proof. destruct p; reflexivity. Qed.

(* evolve2d(ca, T, Sandpile(...), r=1, neighbourhood=ty), memoize=False: the returned history *)
Lemma evolve2d_sandpile_rows rows cols closed adds ty hist T : (1 <= T)%nat ->
  evolve2d_plain (sandpile_rule rows cols closed adds) store_id 1 ty tt hist T =
  Ok (fst (iter_steps (sstep rows cols closed adds ty) (T - 1) tt (last hist []) 1),
      hist ++ snd (iter_steps (sstep rows cols closed adds ty) (T - 1) tt (last hist []) 1)).
Proof.
  intros HT. unfold evolve2d_plain, evolve_fixed. destruct T as [|k]; [lia|].
  replace (S k - 1)%nat with k by lia.
  exact (let_pair (iter_steps (sstep rows cols closed adds ty) k tt (last hist []) 1%nat)
                  (fun x rws => Ok (x, hist ++ rws))).
Qed.

Theorem sandpile_evolution_conserves : forall rows cols adds ty R C hist T,
  (1 <= R)%nat -> (1 <= C)%nat -> wf_grid R C (last hist []) -> (1 <= T)%nat ->
  no_addition_in adds 1 (T - 1) ->
  exists u' grids,
    evolve2d_plain (sandpile_rule rows cols false adds) store_id 1 ty tt hist T = Ok (u', hist ++ grids) /\
    length grids = (T - 1)%nat /\
    Forall (fun g' => gsum g' = gsum (last hist [])) grids.
Proof.
  intros rows cols adds ty R C hist T HR HC Hwf HT Hno.
  rewrite (evolve2d_sandpile_rows rows cols false adds ty hist T HT).
  destruct (sandpile_total_constant rows cols adds ty R C (T - 1) (last hist []) 1%nat tt HR HC Hwf Hno) as [Hl Hf].
  eexists. eexists. split; [reflexivity|]. split; [exact Hl|].
  apply (Forall_impl _ (P := fun g' => wf_grid R C g' /\ gsum g' = gsum (last hist []))); [|exact Hf].
  intros a [_ Ha]. exact Ha.
Qed.

Theorem sandpile_evolution_closed : forall rows cols adds ty R C hist T,
  (1 <= R)%nat -> (1 <= C)%nat -> wf_grid R C (last hist []) -> (1 <= T)%nat ->
  no_addition_in adds 1 (T - 1) -> boundary_zero rows cols R C (last hist []) ->
  exists u' grids,
    evolve2d_plain (sandpile_rule rows cols true adds) store_id 1 ty tt hist T = Ok (u', hist ++ grids) /\
    length grids = (T - 1)%nat /\
    chain_le (gsum (last hist [])) (map gsum grids) /\
    Forall (boundary_zero rows cols R C) grids.
Proof.
  intros rows cols adds ty R C hist T HR HC Hwf HT Hno Hbz.
  rewrite (evolve2d_sandpile_rows rows cols true adds ty hist T HT).
  destruct (sandpile_total_nonincreasing rows cols adds ty R C (T - 1) (last hist []) 1%nat tt HR HC Hwf Hno Hbz)
    as [Hl [Hc Hf]].
  eexists. eexists. split; [reflexivity|]. split; [exact Hl|]. split; [exact Hc|].
  apply (Forall_impl _ (P := fun g' => wf_grid R C g' /\ boundary_zero rows cols R C g' /\ gsum g' <= gsum (last hist []))); [|exact Hf].
  intros a [_ [Ha _]]. exact Ha.
Qed.
