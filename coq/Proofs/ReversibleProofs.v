(* Proofs for C13: ReversibleRule is second-order, time-reversible, and does not alias its input.

   Specification (independent of the model): rows s_t with
        s_{t+1} = f_R(s_t) xor s_{t-1},   s_{-1} = prev,   s_0 = init,
   f_R = the elementary rule R on the ring (`elem_step`), written as the iteration of `so_pair` on the
   pair (s_{t-1}, s_t).

   Route: (1) the pure state-machine form `reversible_rule1` run by Model/Evolve1D's step_plain is
   one `so_pair` per step (pure_step: uses that apply_all consults every cell exactly once, ascending,
   which is what makes the per-cell write-back of prev correct; neighbourhoods_eq of C01 supplies the
   ring neighbourhoods); (2) the heap model with the COPYING constructor refines the pure form
   (reversible_heap_refines_pure); (3) second order, retracing (xor involution), no aliasing (frame
   invariant of the heap, proved for every radius and every shape), and the refutation for the
   by-reference constructor (concrete heaps, vm_compute). *)
From Coq Require Import List Arith ZArith NArith Lia Bool.
From CPL Require Import Model.Base Model.Numbering Model.Rules Model.Engine Model.Evolve1D Model.Reversible.
From CPL Require Import Proofs.NumberingProofs Proofs.Evolve1DProofs.
Import ListNotations.

(* ------------------------------------------------------------------ specification *)
(* the elementary rule R on one neighbourhood: bit (4l + 2c + r) of R (C07: bits_to_int is big-endian) *)
Definition elem_cell (R : N) (nb : list Z) : Z := b2z (N.testbit R (bits_to_int nb)).
(* f_R: the elementary rule applied to every cell of the ring *)
Definition elem_step (R : N) (cells : list Z) : list Z :=
  map (fun c => elem_cell R (ring_nbhd cells c 1)) (seq 0 (length cells)).
Definition xor_rows (a b : list Z) : list Z := map (fun ab => Z.lxor (fst ab) (snd ab)) (combine a b).
(* (s_{t-1}, s_t) |-> (s_t, f_R(s_t) xor s_{t-1}) *)
Definition so_pair (R : N) (p : list Z * list Z) : list Z * list Z :=
  (snd p, xor_rows (elem_step R (snd p)) (fst p)).
Fixpoint so_state (R : N) (prev init : list Z) (t : nat) : list Z * list Z :=
  match t with O => (prev, init) | S t' => so_pair R (so_state R prev init t') end.
(* s_t *)
Definition so_row (R : N) (prev init : list Z) (t : nat) : list Z := snd (so_state R prev init t).
(* s_{t-1}  (so_before 0 = prev) *)
Definition so_before (R : N) (prev init : list Z) (t : nat) : list Z := fst (so_state R prev init t).

Lemma so_row_0 R prev init : so_row R prev init 0 = init.
Proof. reflexivity. Qed.
Lemma so_before_0 R prev init : so_before R prev init 0 = prev.
Proof. reflexivity. Qed.
Lemma so_before_S R prev init t : so_before R prev init (S t) = so_row R prev init t.
Proof. reflexivity. Qed.
Lemma so_row_1 R prev init : so_row R prev init 1 = xor_rows (elem_step R init) prev.
Proof. reflexivity. Qed.
Lemma so_row_SS R prev init t :
  so_row R prev init (S (S t)) = xor_rows (elem_step R (so_row R prev init (S t))) (so_row R prev init t).
Proof. reflexivity. Qed.
Lemma so_row_S R prev init t :
  so_row R prev init (S t) = xor_rows (elem_step R (so_row R prev init t)) (so_before R prev init t).
Proof. reflexivity. Qed.

Lemma so_state_shift R st cur j :
  so_state R st cur (S j) = so_state R cur (xor_rows (elem_step R cur) st) j.
Proof.
  induction j as [|j IH]; [reflexivity|].
  change (so_state R st cur (S (S j))) with (so_pair R (so_state R st cur (S j))). rewrite IH. reflexivity.
Qed.

Lemma elem_step_length R cells : length (elem_step R cells) = length cells.
Proof. unfold elem_step. rewrite map_length, seq_length. reflexivity. Qed.

Lemma xor_rows_length a b : length (xor_rows a b) = Nat.min (length a) (length b).
Proof. unfold xor_rows. rewrite map_length, combine_length. reflexivity. Qed.

Lemma xor_rows_cons x a y b : xor_rows (x :: a) (y :: b) = Z.lxor x y :: xor_rows a b.
Proof. reflexivity. Qed.

Lemma xor_rows_nth a b c : c < length a -> c < length b ->
  nth c (xor_rows a b) 0%Z = Z.lxor (nth c a 0%Z) (nth c b 0%Z).
Proof.
  revert b c. induction a as [|x a IH]; intros b c Ha Hb; [cbn in Ha; lia|].
  destruct b as [|y b]; [cbn in Hb; lia|]. rewrite xor_rows_cons.
  destruct c as [|c]; [reflexivity|]. cbn [nth]. apply IH; cbn in Ha, Hb; lia.
Qed.

Lemma so_state_len R prev init t : length prev = length init ->
  length (fst (so_state R prev init t)) = length init /\ length (snd (so_state R prev init t)) = length init.
Proof.
  intros H. induction t as [|t [IH1 IH2]]; [split; [exact H|reflexivity]|].
  cbn [so_state]. destruct (so_state R prev init t) as [a b]. unfold so_pair. cbn [fst snd] in *.
  split; [exact IH2|]. rewrite xor_rows_length, elem_step_length, IH1, IH2. apply Nat.min_id.
Qed.

Lemma so_row_length R prev init t : length prev = length init -> length (so_row R prev init t) = length init.
Proof. intros H. apply (so_state_len R prev init t H). Qed.

(* the three cells a ring neighbourhood of radius 1 holds *)
Lemma ring_nbhd_r1 cells c : c < length cells ->
  ring_nbhd cells c 1 =
    [nth ((c + length cells - 1) mod length cells) cells 0%Z; nth c cells 0%Z;
     nth ((c + 1) mod length cells) cells 0%Z].
Proof.
  intros Hc. unfold ring_nbhd. cbn [Nat.mul Nat.add seq map].
  set (N := length cells) in *.
  replace (c + 0 + N - 1) with (c + N - 1) by lia.
  replace ((c + 1 + N - 1) mod N) with c by (apply Nat.mod_unique with (q := 1); lia).
  replace ((c + 2 + N - 1) mod N) with ((c + 1) mod N); [reflexivity|].
  replace (c + 2 + N - 1) with (c + 1 + 1 * N) by lia. rewrite Nat.mod_add by lia. reflexivity.
Qed.

Lemma elem_step_nth R cells c : c < length cells ->
  nth c (elem_step R cells) 0%Z = elem_cell R (ring_nbhd cells c 1).
Proof.
  intros Hc. unfold elem_step.
  apply (nth_map_seq (fun c0 => elem_cell R (ring_nbhd cells c0 1))). exact Hc.
Qed.

(* the property's sentence, cell by cell *)
Lemma so_row_cellwise R prev init t c : length prev = length init -> c < length init ->
  let N := length init in
  let s := so_row R prev init t in
  nth c (so_row R prev init (S t)) 0%Z =
    Z.lxor (elem_cell R [nth ((c + N - 1) mod N) s 0%Z; nth c s 0%Z; nth ((c + 1) mod N) s 0%Z])
           (nth c (so_before R prev init t) 0%Z).
Proof.
  intros H Hc N s. rewrite so_row_S. fold s.
  assert (Hs : length s = N) by (apply so_row_length; exact H).
  assert (Hb : length (so_before R prev init t) = N) by (apply (so_state_len R prev init t H)).
  rewrite xor_rows_nth by (rewrite ?elem_step_length; lia).
  rewrite elem_step_nth by lia. rewrite ring_nbhd_r1 by lia. rewrite Hs. reflexivity.
Qed.

(* binary states stay binary, so `^` is the boolean xor on them *)
Lemma elem_cell_binary R nb : elem_cell R nb = 0%Z \/ elem_cell R nb = 1%Z.
Proof. unfold elem_cell. destruct (N.testbit R (bits_to_int nb)); [right|left]; reflexivity. Qed.

Lemma xor_rows_binary a b : binary a -> binary b -> binary (xor_rows a b).
Proof.
  unfold binary. revert b. induction a as [|x a IH]; intros b Ha Hb; [constructor|].
  destruct b as [|y b]; [constructor|]. rewrite xor_rows_cons.
  inversion Ha as [|? ? Hx Ha']; inversion Hb as [|? ? Hy Hb']; subst.
  constructor; [|apply IH; assumption].
  destruct Hx as [-> | ->], Hy as [-> | ->]; cbn; auto.
Qed.

Lemma elem_step_binary R cells : binary (elem_step R cells).
Proof.
  unfold binary, elem_step. apply Forall_forall. intros z Hz. apply in_map_iff in Hz.
  destruct Hz as [c [<- _]]. apply elem_cell_binary.
Qed.

Lemma so_state_binary R prev init t : binary prev -> binary init ->
  binary (fst (so_state R prev init t)) /\ binary (snd (so_state R prev init t)).
Proof.
  intros Hp Hi. induction t as [|t [IH1 IH2]]; [split; assumption|].
  cbn [so_state]. destruct (so_state R prev init t) as [a b]. unfold so_pair. cbn [fst snd] in *.
  split; [exact IH2|]. apply xor_rows_binary; [apply elem_step_binary|exact IH1].
Qed.

(* ------------------------------------------------------------------ list / heap helpers *)
Lemma upd_nth_length {A} (f : A -> A) l : forall k, length (upd_nth k f l) = length l.
Proof. induction l as [|x l IH]; intros [|k]; cbn [upd_nth length]; [reflexivity..|]. rewrite IH. reflexivity. Qed.

Lemma upd_nth_app_end {A} (f : A -> A) l x tl : upd_nth (length l) f (l ++ x :: tl) = l ++ f x :: tl.
Proof. induction l as [|y l IH]; [reflexivity|]. cbn [length app upd_nth]. rewrite IH. reflexivity. Qed.

Lemma set_nth_app {A} (done : list A) p todo v :
  set_nth (length done) v (done ++ p :: todo) = done ++ v :: todo.
Proof.
  unfold set_nth. induction done as [|y l IH]; [reflexivity|]. cbn [length app upd_nth]. rewrite IH. reflexivity.
Qed.

Lemma nth_error_app_mid {A} (done : list A) p todo : nth_error (done ++ p :: todo) (length done) = Some p.
Proof. induction done as [|y l IH]; [reflexivity|]. exact IH. Qed.

Lemma h_get_app1 h x id : id < length h -> h_get (h ++ x) id = h_get h id.
Proof. intros H. unfold h_get. apply app_nth1. exact H. Qed.

Lemma h_get_priv h x tl : h_get (h ++ x :: tl) (length h) = x.
Proof. unfold h_get. apply nth_middle. Qed.

Lemma h_row_priv h st tl : h_row (h ++ [st] :: tl) (length h, 0) = st.
Proof. unfold h_row. cbn [fst snd]. rewrite h_get_priv. reflexivity. Qed.

Lemma h_write_priv h x tl c v :
  h_write (h ++ x :: tl) (length h, 0) c v = h ++ upd_nth 0 (set_nth c v) x :: tl.
Proof. unfold h_write. cbn [fst snd]. apply upd_nth_app_end. Qed.

(* a non-empty last row means the id is allocated *)
Lemma ca_id_valid h ca_id : 1 <= length (last (h_get h ca_id) []) -> ca_id < length h.
Proof.
  intros H. destruct (Nat.lt_ge_cases ca_id (length h)) as [Hlt|Hge]; [exact Hlt|].
  unfold h_get in H. rewrite nth_overflow in H by exact Hge. cbn in H. lia.
Qed.

(* projections instead of let-patterns *)
Lemma apply_all_cons {St} (rule : rule1 St) store s c n nbs t :
  apply_all rule store s c (n :: nbs) t =
    (fst (apply_all rule store (fst (rule s n c t)) (S c) nbs t),
     store (snd (rule s n c t)) :: snd (apply_all rule store (fst (rule s n c t)) (S c) nbs t)).
Proof.
  cbn [apply_all]. destruct (rule s n c t) as [s1 v]. cbn [fst snd].
  destruct (apply_all rule store s1 (S c) nbs t) as [s2 vs]. reflexivity.
Qed.

Lemma iter_steps_succ {X C} (step : X -> C -> nat -> X * C) n x cur t :
  iter_steps step (S n) x cur t =
    (fst (iter_steps step n (fst (step x cur t)) (snd (step x cur t)) (S t)),
     snd (step x cur t) :: snd (iter_steps step n (fst (step x cur t)) (snd (step x cur t)) (S t))).
Proof.
  cbn [iter_steps]. destruct (step x cur t) as [x1 nxt]. cbn [fst snd].
  destruct (iter_steps step n x1 nxt (S t)) as [x2 rest]. reflexivity.
Qed.

Lemma iter_steps_len {X C} (step : X -> C -> nat -> X * C) n : forall x cur t,
  length (snd (iter_steps step n x cur t)) = n.
Proof.
  induction n as [|n IH]; intros x cur t; [reflexivity|].
  rewrite iter_steps_succ. cbn [snd length]. rewrite IH. reflexivity.
Qed.

(* ------------------------------------------------------------------ the pure form: one call *)
Local Notation len3 := (fun n : list Z => length n = 3).
Local Notation idz := (fun z : Z => z).

Lemma nks_len3 R n : (R < 256)%N -> length n = 3 -> nks_rule n R = Ok (elem_cell R n).
Proof. intros HR Hn. apply nks_bit. rewrite Hn. exact HR. Qed.

Lemma rule1_ok R prev n c t p : (R < 256)%N -> length n = 3 -> nth_error prev c = Some p ->
  reversible_rule1 R prev n c t = (set_nth c (nth 1 n 0%Z) prev, Z.lxor (elem_cell R n) p).
Proof.
  intros HR Hn Hp. unfold reversible_rule1. rewrite nks_len3, Hp, Hn by assumption. reflexivity.
Qed.

Lemma rule1_length R prev n c t : length (fst (reversible_rule1 R prev n c t)) = length prev.
Proof.
  unfold reversible_rule1. destruct (nks_rule n R); [|reflexivity].
  destruct (nth_error prev c); [|reflexivity]. cbn [fst]. apply upd_nth_length.
Qed.

(* one synchronous step in closed form.  `done` = cells already consulted (their prev entries
   already overwritten with the centre states), `todo` = prev entries still to be read: because
   apply_all visits each cell exactly once in ascending order, every read of prev[c] happens
   before the write to prev[c] and no later call reads it again. *)
Lemma pure_apply_all R (HR : (R < 256)%N) nbs : forall done todo t,
  Forall len3 nbs -> length todo = length nbs ->
  apply_all (reversible_rule1 R) idz (done ++ todo) (length done) nbs t =
    (done ++ map (fun n => nth 1 n 0%Z) nbs, xor_rows (map (elem_cell R) nbs) todo).
Proof.
  induction nbs as [|n nbs IH]; intros done todo t Hall Hlen.
  - destruct todo as [|p todo]; [|discriminate Hlen]. cbn [apply_all map]. rewrite app_nil_r. reflexivity.
  - destruct todo as [|p todo]; [discriminate Hlen|]. inversion Hall as [|? ? Hn Hall']; subst.
    rewrite apply_all_cons.
    rewrite (rule1_ok R _ n _ t p HR Hn (nth_error_app_mid done p todo)). cbn [fst snd].
    rewrite set_nth_app.
    replace (done ++ nth 1 n 0%Z :: todo) with ((done ++ [nth 1 n 0%Z]) ++ todo)
      by (rewrite <- app_assoc; reflexivity).
    replace (S (length done)) with (length (done ++ [nth 1 n 0%Z])) by (rewrite app_length; cbn [length]; lia).
    rewrite IH by (try assumption; cbn [length] in Hlen; lia). cbn [fst snd map].
    rewrite <- app_assoc. cbn [app]. rewrite xor_rows_cons. reflexivity.
Qed.

Lemma nbhds_length cells : 1 <= length cells -> length (neighbourhoods cells 1) = length cells.
Proof. intros H. rewrite neighbourhoods_eq by lia. rewrite map_length, seq_length. reflexivity. Qed.

Lemma nbhds_len3 cells : 1 <= length cells -> Forall len3 (neighbourhoods cells 1).
Proof.
  intros H. rewrite neighbourhoods_eq by lia. apply Forall_forall. intros n Hn.
  apply in_map_iff in Hn. destruct Hn as [c [<- _]]. apply ring_nbhd_length.
Qed.

Lemma nbhds_centres cells : 1 <= length cells ->
  map (fun n => nth 1 n 0%Z) (neighbourhoods cells 1) = cells.
Proof.
  intros H. rewrite neighbourhoods_eq by lia. rewrite map_map.
  apply (nth_ext _ _ 0%Z 0%Z); [rewrite map_length, seq_length; reflexivity|].
  intros c Hc. rewrite map_length, seq_length in Hc.
  rewrite (nth_map_seq (fun c0 => nth 1 (ring_nbhd cells c0 1) 0%Z)) by exact Hc.
  apply ring_nbhd_centre; lia.
Qed.

Lemma nbhds_elem R cells : 1 <= length cells ->
  map (elem_cell R) (neighbourhoods cells 1) = elem_step R cells.
Proof. intros H. rewrite neighbourhoods_eq by lia. rewrite map_map. reflexivity. Qed.

(* after a full step the state is the row just read, and the new row is f_R(row) xor state *)
Lemma pure_step R st cells t : (R < 256)%N -> 1 <= length cells -> length st = length cells ->
  step_plain (reversible_rule1 R) idz 1 st cells t = (cells, xor_rows (elem_step R cells) st).
Proof.
  intros HR HN Hst. unfold step_plain.
  pose proof (pure_apply_all R HR (neighbourhoods cells 1) [] st t (nbhds_len3 cells HN)) as E.
  cbn [app length] in E. rewrite E by (rewrite nbhds_length by exact HN; exact Hst).
  rewrite nbhds_centres, nbhds_elem by exact HN. reflexivity.
Qed.

Lemma pure_iter R (HR : (R < 256)%N) k : forall st cur t, 1 <= length cur -> length st = length cur ->
  iter_steps (step_plain (reversible_rule1 R) idz 1) k st cur t =
    (so_before R st cur k, map (so_row R st cur) (seq 1 k)).
Proof.
  induction k as [|k IH]; intros st cur t HN Hst; [reflexivity|].
  rewrite iter_steps_succ, pure_step by assumption. cbn [fst snd].
  rewrite IH by (rewrite ?xor_rows_length, ?elem_step_length, ?Hst, ?Nat.min_id; lia). cbn [fst snd].
  unfold so_before, so_row. rewrite so_state_shift. f_equal.
  change (seq 1 (S k)) with (1 :: seq 2 k). cbn [map]. rewrite so_state_shift. cbn [so_state snd]. f_equal.
  rewrite <- (seq_shift k 1), map_map. apply map_ext. intros j. rewrite so_state_shift. reflexivity.
Qed.

Theorem pure_evolve R prev hist T : (R < 256)%N -> 1 <= length (last hist []) ->
  length prev = length (last hist []) -> 1 <= T ->
  evolve_plain (reversible_rule1 R) idz 1 prev hist T =
    Ok (so_before R prev (last hist []) (T - 1), hist ++ map (so_row R prev (last hist [])) (seq 1 (T - 1))).
Proof.
  intros HR HN Hp HT. destruct T as [|k]; [lia|]. replace (S k - 1) with k by lia.
  unfold evolve_plain, evolve_fixed. rewrite pure_iter by assumption. reflexivity.
Qed.

(* ------------------------------------------------------------------ heap model refines the pure form *)
(* the rule object the copying constructor builds over heap h: its previous-state vector is the
   fresh object at id = length h *)
Definition priv_obj (h : heap) (R : N) : rev_obj := {| prev_ref := (length h, 0); rule_no := R |}.

Lemma mk_reversible_eq h a R : mk_reversible h a R = (h ++ [[h_row h (arg_ref a)]], priv_obj h R).
Proof. reflexivity. Qed.

Lemma call_refines h R st tl n c t : (R < 256)%N -> length n = 3 -> c < length st ->
  reversible_call (priv_obj h R) (h ++ [st] :: tl, None) n c t =
    ((h ++ [fst (reversible_rule1 R st n c t)] :: tl, None), snd (reversible_rule1 R st n c t)).
Proof.
  intros HR Hn Hc. destruct (nth_error st c) as [p|] eqn:E; [|apply nth_error_None in E; lia].
  rewrite (rule1_ok R st n c t p HR Hn E). cbn [fst snd].
  unfold reversible_call, priv_obj. cbn [prev_ref rule_no].
  rewrite nks_len3, h_row_priv, E, h_write_priv, Hn by assumption. reflexivity.
Qed.

Lemma apply_all_refines h R tl (HR : (R < 256)%N) nbs : forall st c t,
  Forall len3 nbs -> c + length nbs <= length st ->
  apply_all (reversible_call (priv_obj h R)) idz (h ++ [st] :: tl, None) c nbs t =
    ((h ++ [fst (apply_all (reversible_rule1 R) idz st c nbs t)] :: tl, None),
     snd (apply_all (reversible_rule1 R) idz st c nbs t)).
Proof.
  induction nbs as [|n nbs IH]; intros st c t Hall Hlen; [reflexivity|].
  inversion Hall as [|? ? Hn Hall']; subst. cbn [length] in Hlen.
  rewrite !apply_all_cons. rewrite call_refines by (try assumption; lia). cbn [fst snd].
  rewrite IH by (try assumption; rewrite rule1_length; lia). reflexivity.
Qed.

Lemma step_refines h R st tl cells t : (R < 256)%N -> 1 <= length cells -> length st = length cells ->
  step_plain (reversible_call (priv_obj h R)) idz 1 (h ++ [st] :: tl, None) cells t =
    ((h ++ [fst (step_plain (reversible_rule1 R) idz 1 st cells t)] :: tl, None),
     snd (step_plain (reversible_rule1 R) idz 1 st cells t)).
Proof.
  intros HR HN Hst. unfold step_plain. apply apply_all_refines; [exact HR|apply nbhds_len3; exact HN|].
  rewrite nbhds_length by exact HN. lia.
Qed.

Lemma iter_refines h R tl (HR : (R < 256)%N) k : forall st cur t, 1 <= length cur -> length st = length cur ->
  iter_steps (step_plain (reversible_call (priv_obj h R)) idz 1) k (h ++ [st] :: tl, None) cur t =
    ((h ++ [fst (iter_steps (step_plain (reversible_rule1 R) idz 1) k st cur t)] :: tl, None),
     snd (iter_steps (step_plain (reversible_rule1 R) idz 1) k st cur t)).
Proof.
  induction k as [|k IH]; intros st cur t HN Hst; [reflexivity|].
  rewrite !iter_steps_succ. rewrite step_refines by assumption. cbn [fst snd].
  rewrite pure_step by assumption. cbn [fst snd].
  rewrite IH by (rewrite ?xor_rows_length, ?elem_step_length, ?Hst, ?Nat.min_id; lia). reflexivity.
Qed.

(* REFINEMENT: ReversibleRule(init_state, R) with the copying constructor, evolved on the heap, is
   the pure state machine run by Model/Evolve1D.v; the final heap is the old heap plus the private
   vector, which holds the pure machine's final state. *)
Theorem reversible_heap_refines_pure h ca_id arg R T :
  (R < 256)%N -> 1 <= length (last (h_get h ca_id) []) ->
  length (h_row h (arg_ref arg)) = length (last (h_get h ca_id) []) ->
  run_reversible h ca_id arg R T 1 =
    match evolve_plain (reversible_rule1 R) idz 1 (h_row h (arg_ref arg)) (h_get h ca_id) T with
    | Ok (st', out) => Ok (h ++ [[st']], out)
    | Raise e => Raise e
    end.
Proof.
  intros HR HN Hp. pose proof (ca_id_valid h ca_id HN) as Hid.
  unfold run_reversible. rewrite mk_reversible_eq. destruct T as [|k]; [reflexivity|].
  unfold evolve_heap, evolve_plain, evolve_fixed. rewrite h_get_app1 by exact Hid.
  rewrite iter_refines by assumption.
  destruct (iter_steps (step_plain (reversible_rule1 R) idz 1) k (h_row h (arg_ref arg))
              (last (h_get h ca_id) []) 1) as [st' rows].
  cbn [fst snd]. rewrite h_get_app1 by exact Hid. reflexivity.
Qed.

(* ------------------------------------------------------------------ second order *)
Theorem reversible_second_order h ca_id arg R T :
  (R < 256)%N -> 1 <= length (last (h_get h ca_id) []) ->
  length (h_row h (arg_ref arg)) = length (last (h_get h ca_id) []) -> 1 <= T ->
  run_reversible h ca_id arg R T 1 =
    Ok (h ++ [[so_before R (h_row h (arg_ref arg)) (last (h_get h ca_id) []) (T - 1)]],
        h_get h ca_id ++ map (so_row R (h_row h (arg_ref arg)) (last (h_get h ca_id) [])) (seq 1 (T - 1))).
Proof.
  intros HR HN Hp HT. rewrite reversible_heap_refines_pure by assumption.
  rewrite pure_evolve by assumption. reflexivity.
Qed.

(* ------------------------------------------------------------------ time reversal *)
Definition swap {A B} (p : A * B) : B * A := (snd p, fst p).

Lemma xor_rows_involutive a : forall b, length b <= length a -> xor_rows a (xor_rows a b) = b.
Proof.
  induction a as [|x a IH]; intros b Hb.
  - destruct b; [reflexivity|cbn in Hb; lia].
  - destruct b as [|y b]; [reflexivity|]. rewrite !xor_rows_cons.
    rewrite <- Z.lxor_assoc, Z.lxor_nilpotent, Z.lxor_0_l. f_equal. apply IH. cbn in Hb. lia.
Qed.

(* one step forward, swap the roles, one step forward again: back where we were, roles swapped *)
Lemma so_pair_swap R a b : length a = length b -> so_pair R (swap (so_pair R (a, b))) = swap (a, b).
Proof.
  intros H. unfold so_pair, swap. cbn [fst snd].
  rewrite xor_rows_involutive by (rewrite elem_step_length; lia). reflexivity.
Qed.

Lemma so_retrace R prev init T : length prev = length init -> forall k, k <= T ->
  so_state R (snd (so_state R prev init T)) (fst (so_state R prev init T)) k = swap (so_state R prev init (T - k)).
Proof.
  intros H. induction k as [|k IH]; intros Hk; [rewrite Nat.sub_0_r; reflexivity|].
  cbn [so_state]. rewrite IH by lia.
  replace (T - k) with (S (T - S k)) by lia. cbn [so_state].
  destruct (so_state_len R prev init (T - S k) H) as [L1 L2].
  destruct (so_state R prev init (T - S k)) as [a b]. cbn [fst snd] in L1, L2.
  apply so_pair_swap. lia.
Qed.

(* started from (prev', init') = (s_{T-1}, s_{T-2}), row k of the new run is s_{T-2-k}, i.e.
   so_before (T-1-k); the run ends on so_before 0 = prev *)
Lemma so_row_retrace R prev init T k : length prev = length init -> 1 <= T -> k <= T - 1 ->
  so_row R (so_row R prev init (T - 1)) (so_before R prev init (T - 1)) k = so_before R prev init (T - 1 - k) /\
  so_before R (so_row R prev init (T - 1)) (so_before R prev init (T - 1)) k = so_row R prev init (T - 1 - k).
Proof.
  intros H HT Hk. unfold so_row, so_before.
  rewrite so_retrace by assumption. split; reflexivity.
Qed.

Theorem reversible_retraces h ca_id arg R T h2 ca_id2 arg2 :
  let prev := h_row h (arg_ref arg) in
  let init := last (h_get h ca_id) [] in
  (R < 256)%N -> 1 <= length init -> length prev = length init -> 2 <= T ->
  (* the forward run *)
  run_reversible h ca_id arg R T 1 =
    Ok (h ++ [[so_before R prev init (T - 1)]], h_get h ca_id ++ map (so_row R prev init) (seq 1 (T - 1))) /\
  (* a new rule object with prev' := s_{T-1}, evolved from init' := s_{T-2}, in any heap *)
  (h_row h2 (arg_ref arg2) = so_row R prev init (T - 1) ->
   last (h_get h2 ca_id2) [] = so_row R prev init (T - 2) ->
   run_reversible h2 ca_id2 arg2 R T 1 =
     Ok (h2 ++ [[init]],
         h_get h2 ca_id2 ++ map (fun k => so_before R prev init (T - 1 - k)) (seq 1 (T - 1)))).
Proof.
  intros prev init HR HN Hp HT. split; [apply reversible_second_order; (assumption || lia)|].
  intros Hprev2 Hinit2.
  assert (Hb : so_row R prev init (T - 2) = so_before R prev init (T - 1))
    by (replace (T - 1) with (S (T - 2)) by lia; reflexivity).
  assert (L1 : length (so_row R prev init (T - 1)) = length init) by (apply so_row_length; exact Hp).
  assert (L2 : length (so_row R prev init (T - 2)) = length init) by (apply so_row_length; exact Hp).
  rewrite reversible_second_order by (rewrite ?Hprev2, ?Hinit2, ?L1, ?L2; (assumption || lia)).
  rewrite Hprev2, Hinit2, Hb. f_equal. f_equal.
  - f_equal. f_equal.
    destruct (so_row_retrace R prev init T (T - 1) Hp) as [_ E]; [lia..|]. rewrite E.
    replace (T - 1 - (T - 1)) with 0 by lia. reflexivity.
  - f_equal. apply map_ext_in. intros k Hk. apply in_seq in Hk.
    destruct (so_row_retrace R prev init T k Hp) as [E _]; [lia..|]. exact E.
Qed.

(* readable corollary for one-row automata: the backward run is the forward run read backwards,
   ending on prev *)
Lemma rev_map_seq {A} (g : nat -> A) n : rev (map g (seq 0 n)) = map (fun k => g (n - 1 - k)) (seq 0 n).
Proof.
  destruct n as [|m]; [reflexivity|].
  apply (nth_ext _ _ (g 0) (g 0)); [rewrite rev_length, !map_length; reflexivity|].
  intros k Hk. rewrite rev_length, map_length, seq_length in Hk.
  rewrite rev_nth by (rewrite map_length, seq_length; exact Hk). rewrite map_length, seq_length.
  rewrite (nth_map_seq g) by lia. rewrite (nth_map_seq (fun k0 => g (S m - 1 - k0))) by lia.
  f_equal. lia.
Qed.

Theorem reversible_retraces_rev h ca_id arg R T h2 ca_id2 arg2 out1 hf :
  let prev := h_row h (arg_ref arg) in
  (R < 256)%N -> 2 <= T ->
  (exists init, h_get h ca_id = [init] /\ 1 <= length init /\ length prev = length init) ->
  run_reversible h ca_id arg R T 1 = Ok (hf, out1) ->
  h_row h2 (arg_ref arg2) = nth (T - 1) out1 [] ->
  h_get h2 ca_id2 = [nth (T - 2) out1 []] ->
  exists hb, run_reversible h2 ca_id2 arg2 R T 1 = Ok (hb, rev (removelast out1) ++ [prev]).
Proof.
  intros prev HR HT [init [Hca [HN Hp]]] Hrun Hprev2 Hca2.
  assert (Hlast : last (h_get h ca_id) [] = init) by (rewrite Hca; reflexivity).
  pose proof (reversible_retraces h ca_id arg R T h2 ca_id2 arg2) as Hret. cbv zeta in Hret.
  rewrite Hlast in Hret. fold prev in Hret. destruct (Hret HR HN Hp HT) as [Hf Hb]. clear Hret.
  rewrite Hf in Hrun. injection Hrun as _ Hout. rewrite Hca in Hout.
  assert (Hout1 : out1 = map (so_row R prev init) (seq 0 T)).
  { rewrite <- Hout. destruct T as [|T']; [lia|]. replace (S T' - 1) with T' by lia. reflexivity. }
  assert (Hn : forall j, j < T -> nth j out1 [] = so_row R prev init j).
  { intros j Hj. rewrite Hout1. apply (nth_map_seq (so_row R prev init)). exact Hj. }
  rewrite Hn in Hprev2 by lia. rewrite Hn in Hca2 by lia.
  exists (h2 ++ [[init]]). rewrite Hb; [|exact Hprev2|rewrite Hca2; reflexivity].
  f_equal. f_equal. rewrite Hca2, Hout1. clear - HT.
  (* both sides are  s_{T-2}, ..., s_0, prev *)
  destruct T as [|[|m]]; [lia|lia|].
  replace (S (S m) - 1) with (S m) by lia. replace (S (S m) - 2) with m by lia.
  rewrite (seq_S (S m)), map_app. cbn [map]. rewrite removelast_last.
  replace (map (so_row R prev init) (seq 0 (S m))) with (map (so_before R prev init) (seq 1 (S m)))
    by (rewrite <- (seq_shift (S m) 0), map_map; reflexivity).
  change [prev] with (rev (map (so_before R prev init) (seq 0 1))).
  rewrite <- rev_app_distr, <- map_app.
  change (seq 0 1 ++ seq 1 (S m)) with (seq 0 (S (S m))). rewrite rev_map_seq.
  change (seq 0 (S (S m))) with (0 :: seq 1 (S m)). cbn [map app]. reflexivity.
Qed.

(* ------------------------------------------------------------------ no aliasing: frame invariant *)
(* every object the caller can name (ids below length h) is untouched: the heap is always the old
   heap followed by the one private object.  No guard: any neighbourhoods, any cell indices, error
   or not. *)
Definition frame (h : heap) (st : heap * option exc) : Prop := exists x, fst st = h ++ [x].

Lemma call_frame h R st n c t : frame h st -> frame h (fst (reversible_call (priv_obj h R) st n c t)).
Proof.
  destruct st as [hh err]. intros [x Hx]. cbn [fst] in Hx. subst hh.
  unfold reversible_call, priv_obj. cbn [prev_ref rule_no].
  destruct err as [e|]; [exists x; reflexivity|].
  destruct (nks_rule n R) as [reg|e]; [|exists x; reflexivity].
  destruct (nth_error (h_row (h ++ [x]) (length h, 0)) c) as [p|]; [|exists x; reflexivity].
  cbn [fst]. rewrite h_write_priv. eexists. reflexivity.
Qed.

Lemma apply_all_inv {St} (rule : rule1 St) store (P : St -> Prop) :
  (forall s n c t, P s -> P (fst (rule s n c t))) ->
  forall nbs s c t, P s -> P (fst (apply_all rule store s c nbs t)).
Proof.
  intros Hr. induction nbs as [|n nbs IH]; intros s c t Hs; [exact Hs|].
  rewrite apply_all_cons. cbn [fst]. apply IH. apply Hr. exact Hs.
Qed.

Lemma iter_steps_inv {X C} (step : X -> C -> nat -> X * C) (P : X -> Prop) :
  (forall x cur t, P x -> P (fst (step x cur t))) ->
  forall n x cur t, P x -> P (fst (iter_steps step n x cur t)).
Proof.
  intros Hs. induction n as [|n IH]; intros x cur t Hx; [exact Hx|].
  rewrite iter_steps_succ. cbn [fst]. apply IH. apply Hs. exact Hx.
Qed.

(* for EVERY heap, every argument form (list / array / view of any row of any array, the evolved
   automaton included), every radius, rule number and step count: whenever the call returns, every
   object of the caller's heap has its old value and the result starts with the automaton as given *)
Theorem reversible_frame h ca_id arg R T r h' out :
  ca_id < length h ->
  run_reversible h ca_id arg R T r = Ok (h', out) ->
  (forall id, id < length h -> h_get h' id = h_get h id) /\
  length h' = S (length h) /\
  exists rows, out = h_get h ca_id ++ rows /\ length rows = T - 1.
Proof.
  intros Hlt. unfold run_reversible. rewrite mk_reversible_eq. destruct T as [|k]; [discriminate|].
  unfold evolve_heap.
  set (step := step_plain (reversible_call (priv_obj h R)) idz r).
  set (h1 := h ++ [[h_row h (arg_ref arg)]]).
  set (it := iter_steps step k _ _ 1).
  assert (Hfr : frame h (fst it)).
  { unfold it. apply (iter_steps_inv step (frame h)); [|eexists; reflexivity].
    intros x cur t Hx. unfold step, step_plain. apply (apply_all_inv _ _ (frame h)); [|exact Hx].
    intros s n c t0 Hs. apply call_frame. exact Hs. }
  assert (Hlen : length (snd it) = k) by (unfold it; apply iter_steps_len).
  clearbody it. destruct it as [[hh err] rows].
  destruct Hfr as [x Hx]. cbn [fst snd] in Hx, Hlen. subst hh. cbv beta iota.
  destruct err as [e|]; [discriminate|]. intros E. injection E as <- <-.
  split; [intros id Hid; apply h_get_app1; exact Hid|].
  split; [rewrite app_length; cbn [length]; lia|].
  exists rows. rewrite h_get_app1 by exact Hlt. split; [reflexivity|lia].
Qed.

Lemma nth_pred_last {A} (l : list A) d : nth (length l - 1) l d = last l d.
Proof.
  induction l as [|a l IH]; [reflexivity|]. destruct l as [|b l]; [reflexivity|].
  replace (length (a :: b :: l) - 1) with (S (length (b :: l) - 1)) by (cbn [length]; lia).
  change (last (a :: b :: l) d) with (last (b :: l) d). rewrite <- IH. reflexivity.
Qed.

(* the property's sentence, on its domain (where the call does return) *)
Theorem reversible_no_alias h ca_id arg R T :
  (R < 256)%N -> 1 <= length (last (h_get h ca_id) []) ->
  length (h_row h (arg_ref arg)) = length (last (h_get h ca_id) []) -> 1 <= T ->
  exists h' out, run_reversible h ca_id arg R T 1 = Ok (h', out) /\
    (forall id, id < length h -> h_get h' id = h_get h id) /\
    firstn (length (h_get h ca_id)) out = h_get h ca_id /\
    nth 0 out [] = nth 0 (h_get h ca_id) [] /\
    nth (length (h_get h ca_id) - 1) out [] = last (h_get h ca_id) [].
Proof.
  intros HR HN Hp HT. pose proof (ca_id_valid h ca_id HN) as Hid.
  eexists. eexists. split; [apply reversible_second_order; assumption|].
  destruct (reversible_frame h ca_id arg R T 1 _ _ Hid (reversible_second_order h ca_id arg R T HR HN Hp HT))
    as [Hfr _].
  split; [exact Hfr|].
  assert (Hne : h_get h ca_id <> []) by (intros E; rewrite E in HN; cbn in HN; lia).
  split; [|split].
  - rewrite firstn_app, Nat.sub_diag, firstn_all. cbn [firstn]. apply app_nil_r.
  - destruct (h_get h ca_id) as [|row0 rest]; [congruence|]. reflexivity.
  - rewrite app_nth1 by (destruct (h_get h ca_id); [congruence|cbn [length]; lia]).
    apply nth_pred_last.
Qed.

(* ------------------------------------------------------------------ the by-reference constructor is different *)
(* rule 90 on a ring of 3, T = 3, the documented call pattern ReversibleRule(ca[0], 90); evolve(ca, 3, ..):
   the call returns, row 0 of the result is no longer the initial state, and the caller's array has
   been overwritten. *)
Theorem reversible_aliasing_refuted :
  exists h ca_id arg R T h' out,
    (R < 256)%N /\ 1 <= length (last (h_get h ca_id) []) /\
    length (h_row h (arg_ref arg)) = length (last (h_get h ca_id) []) /\ 1 <= T /\
    run_reversible_aliasing h ca_id arg R T 1 = Ok (h', out) /\
    nth 0 out [] <> nth 0 (h_get h ca_id) [] /\
    h_get h' ca_id <> h_get h ca_id.
Proof.
  exists [[[0; 1; 0]]]%Z, 0, (ArgView 0 0), 90%N, 3.
  exists [[[1; 1; 1]]]%Z, [[1; 1; 1]; [1; 1; 1]; [0; 1; 0]]%Z.
  split; [reflexivity|]. split; [cbn; lia|]. split; [reflexivity|]. split; [lia|].
  split; [vm_compute; reflexivity|]. split; cbn; intros E; discriminate E.
Qed.

(* a detached Python list: the result is right, but the caller's list has been overwritten *)
Theorem reversible_aliasing_list_mutated :
  exists h ca_id id R T h' out,
    run_reversible_aliasing h ca_id (ArgList id) R T 1 = Ok (h', out) /\ id <> ca_id /\
    h_get h' id <> h_get h id /\
    (* while the copying constructor on the same input leaves it alone and returns the same rows *)
    exists h'', run_reversible h ca_id (ArgList id) R T 1 = Ok (h'', out) /\ h_get h'' id = h_get h id.
Proof.
  exists [[[0; 1; 0]]; [[0; 1; 0]]]%Z, 0, 1, 90%N, 3.
  exists [[[0; 1; 0]]; [[1; 1; 1]]]%Z, [[0; 1; 0]; [1; 1; 1]; [0; 1; 0]]%Z.
  split; [vm_compute; reflexivity|]. split; [lia|]. split; [cbn; intros E; discriminate E|].
  eexists. split; [vm_compute; reflexivity|reflexivity].
Qed.

(* ------------------------------------------------------------------ f_R is the textbook table *)
(* elem_cell is written with the model's bits_to_int; on binary cells it is bit 4l + 2c + r of R *)
Lemma elem_cell_closed_form R l c r : (l = 0 \/ l = 1)%Z -> (c = 0 \/ c = 1)%Z -> (r = 0 \/ r = 1)%Z ->
  elem_cell R [l; c; r] = b2z (N.testbit R (Z.to_N (4 * l + 2 * c + r))).
Proof. intros [-> | ->] [-> | ->] [-> | ->]; reflexivity. Qed.

(* ------------------------------------------------------------------ continuing with the same rule object *)
Lemma h_get_other h x y tl id : id <> length h -> h_get (h ++ x :: tl) id = h_get (h ++ y :: tl) id.
Proof.
  intros Hid. unfold h_get. destruct (Nat.lt_ge_cases id (length h)) as [Hlt|Hge].
  - rewrite !app_nth1 by exact Hlt. reflexivity.
  - rewrite !app_nth2 by exact Hge. destruct (id - length h) as [|k] eqn:E; [lia|]. reflexivity.
Qed.

Lemma nth_succ_app {A} (l : list A) x y tl d : nth (S (length l)) (l ++ x :: y :: tl) d = y.
Proof. induction l as [|a l IH]; [reflexivity|]. exact IH. Qed.

(* evolve with a rule object whose private vector sits anywhere in the heap (not necessarily last) *)
Lemma evolve_heap_priv h R st tl ca_id T :
  (R < 256)%N -> ca_id <> length h ->
  1 <= length (last (h_get (h ++ [st] :: tl) ca_id) []) ->
  length st = length (last (h_get (h ++ [st] :: tl) ca_id) []) -> 1 <= T ->
  evolve_heap (h ++ [st] :: tl) ca_id T (priv_obj h R) 1 =
    Ok (h ++ [so_before R st (last (h_get (h ++ [st] :: tl) ca_id) []) (T - 1)] :: tl,
        h_get (h ++ [st] :: tl) ca_id ++
        map (so_row R st (last (h_get (h ++ [st] :: tl) ca_id) [])) (seq 1 (T - 1))).
Proof.
  intros HR Hid HN Hst HT. destruct T as [|k]; [lia|]. replace (S k - 1) with k by lia.
  unfold evolve_heap. rewrite iter_refines, pure_iter by assumption. cbn [fst snd].
  f_equal. f_equal. f_equal. apply h_get_other. exact Hid.
Qed.

Lemma so_state_add R prev init a k :
  so_state R (so_before R prev init a) (so_row R prev init a) k = so_state R prev init (a + k).
Proof.
  induction k as [|k IH].
  - rewrite Nat.add_0_r. unfold so_before, so_row. destruct (so_state R prev init a); reflexivity.
  - rewrite Nat.add_succ_r. cbn [so_state]. rewrite IH. reflexivity.
Qed.

Lemma last_rows {A} (ca : list (list A)) (f : nat -> list A) k :
  last ca [] = f 0 -> last (ca ++ map f (seq 1 k)) [] = f k.
Proof.
  intros H0. destruct k as [|k]; [cbn [seq map]; rewrite app_nil_r; exact H0|].
  rewrite seq_S, map_app, app_assoc. cbn [map]. apply last_last.
Qed.

Lemma map_seq_shift {A} (f : nat -> A) a n : forall s, map (fun k => f (a + k)) (seq s n) = map f (seq (a + s) n).
Proof.
  induction n as [|n IH]; intros s; [reflexivity|]. cbn [seq map]. rewrite IH, Nat.add_succ_r. reflexivity.
Qed.

(* evolve T1 steps, then evolve the RESULT T2 more steps with the same rule object: one run of
   T1 + T2 - 1 steps; between and after the runs the object's vector holds the row before the last *)
Theorem reversible_continues h ca_id arg R T1 T2 :
  let prev := h_row h (arg_ref arg) in
  let ca := h_get h ca_id in
  let init := last ca [] in
  let o := snd (mk_reversible h arg R) in
  let out1 := ca ++ map (so_row R prev init) (seq 1 (T1 - 1)) in
  let h2 := h ++ [[so_before R prev init (T1 - 1)]] in
  (R < 256)%N -> 1 <= length init -> length prev = length init -> 1 <= T1 -> 1 <= T2 ->
  evolve_heap (fst (mk_reversible h arg R)) ca_id T1 o 1 = Ok (h2, out1) /\
  evolve_heap (h2 ++ [out1]) (length h2) T2 o 1 =
    Ok (h ++ [[so_before R prev init (T1 + T2 - 2)]] ++ [out1],
        ca ++ map (so_row R prev init) (seq 1 (T1 + T2 - 2))).
Proof.
  intros prev ca init o out1 h2 HR HN Hp HT1 HT2.
  split.
  { pose proof (reversible_second_order h ca_id arg R T1 HR HN Hp HT1) as E.
    unfold run_reversible in E. rewrite mk_reversible_eq in E. exact E. }
  unfold o. rewrite mk_reversible_eq. cbn [snd].
  assert (Hlen2 : length h2 = S (length h)) by (unfold h2; rewrite app_length; cbn [length]; lia).
  assert (Hlast : last out1 [] = so_row R prev init (T1 - 1)) by (apply last_rows; reflexivity).
  destruct (so_state_len R prev init (T1 - 1) Hp) as [L1 L2].
  pose proof (evolve_heap_priv h R (so_before R prev init (T1 - 1)) [out1] (S (length h)) T2 HR
                (Nat.neq_succ_diag_l _)) as EV.
  match type of EV with context [h_get ?HH ?ii] => assert (G : h_get HH ii = out1) end.
  { unfold h_get. apply nth_succ_app. }
  rewrite G, Hlast in EV.
  specialize (EV ltac:(unfold so_row; lia) ltac:(unfold so_before, so_row; lia) HT2).
  rewrite Hlen2. unfold h2. rewrite <- app_assoc. refine (eq_trans EV _). clear EV G.
  assert (E : forall k, so_state R (so_before R prev init (T1 - 1)) (so_row R prev init (T1 - 1)) k
                        = so_state R prev init (T1 - 1 + k)) by (intros k; apply so_state_add).
  assert (Eb : so_before R (so_before R prev init (T1 - 1)) (so_row R prev init (T1 - 1)) (T2 - 1)
               = so_before R prev init (T1 + T2 - 2)).
  { unfold so_before at 1. rewrite E. replace (T1 - 1 + (T2 - 1)) with (T1 + T2 - 2) by lia. reflexivity. }
  assert (Er : forall k, so_row R (so_before R prev init (T1 - 1)) (so_row R prev init (T1 - 1)) k
                         = so_row R prev init (T1 - 1 + k)).
  { intros k. unfold so_row at 1. rewrite E. reflexivity. }
  rewrite Eb. f_equal. f_equal.
  unfold out1. rewrite <- app_assoc. f_equal.
  replace (T1 + T2 - 2) with ((T1 - 1) + (T2 - 1)) by lia. rewrite seq_app, map_app. f_equal.
  replace (1 + (T1 - 1)) with (T1 - 1 + 1) by lia.
  rewrite <- (map_seq_shift (so_row R prev init) (T1 - 1) (T2 - 1) 1).
  apply map_ext. intros k. apply Er.
Qed.
