(* C15 — one named statement per clause of the property's parenthesis
     "(8 always becomes 0; undefined 0 stays 0; undefined 1-7 become 8; the 8-neighbour and tube rules)".
   Table-independent part: the clauses of Model/SayamaSpec.v (P1..P4) read off `sayama_default`, the checker and the
   generic sweep lemma of "8 ALWAYS becomes 0" (table entry or default). The table-dependent instances are in
   GenProps/C15Tables.v. *)
From Coq Require Import ZArith Lia ZifyBool.
From CPL Require Import Model.Base Model.CTRBL Model.Loops Model.SayamaSpec Proofs.CTRBLProofs.
Local Open Scope Z_scope.

(* ---- "8 always becomes 0": on centre 8 the rule answers 0, whether through the table or the default *)
Definition ok_eight (call : key -> option Z) (k : key) : bool :=
  let '(c, t, r, b, l) := k in if c =? 8 then opt_eqb (call k) (Some 0) else true.

Lemma eight_always_zero_gen : forall (tbl : table) (call : table -> key -> option Z)
    (fast : fast_table -> key -> option Z),
  (forall k, key_small k = true -> fast (compile tbl) k = call tbl k) ->
  forall5b (states 9) (ok_eight (fast (compile tbl))) = true ->
  forall t r b l, 0 <= t < 9 -> 0 <= r < 9 -> 0 <= b < 9 -> 0 <= l < 9 ->
    call tbl (8, t, r, b, l) = Some 0.
Proof.
  intros tbl call fast Hf H t r b l Ht Hr Hb Hl.
  assert (0 <= 8 < Z.of_nat 9) as H8 by lia.
  pose proof (sweep 9 _ H 8 t r b l H8 Ht Hr Hb Hl) as S. unfold ok_eight in S.
  change (8 =? 8) with true in S. cbv iota in S.
  rewrite Hf in S by (apply states_small with 9%nat; lia).
  apply opt_eqb_eq in S. exact S.
Qed.

(* ---- the clauses of the specification *)
(* P1 *)
Lemma sayama_eight : forall v t r b l, sayama_default v 8 t r b l = 0.
Proof. intros. reflexivity. Qed.

(* P2, "the 8-neighbour rules" *)
Lemma sayama_eight_neighbour : forall v c t r b l, c <> 8 -> next_to 8 [t; r; b; l] = true ->
  sayama_default v c t r b l =
    if member c [0; 1] then (if existsb (fun s => next_to s [t; r; b; l]) [2; 3; 4; 5; 6; 7] then 8 else c)
    else if member c [2; 3; 5] then 0 else 1.
Proof.
  intros v c t r b l Hc H8. unfold sayama_default. cbv zeta.
  destruct (c =? 8) eqn:E; [apply Z.eqb_eq in E; contradiction|]. rewrite H8. reflexivity.
Qed.

(* P3, "the tube rules" (SDSR only) *)
Lemma sayama_tube : forall c t r b l image, c <> 8 -> next_to 8 [t; r; b; l] = false ->
  tube_rule c [t; r; b; l] = Some image -> sayama_default SDSR c t r b l = image.
Proof.
  intros c t r b l image Hc H8 Ht. unfold sayama_default. cbv zeta.
  destruct (c =? 8) eqn:E; [apply Z.eqb_eq in E; contradiction|]. rewrite H8, Ht. reflexivity.
Qed.

(* P4, "undefined 0 stays 0; undefined 1-7 become 8": undefined = not in the table (hypothesis of the table
   theorems), no 8 among the neighbours, and (SDSR) no tube rule applies *)
Lemma sayama_undefined_sdsr : forall c t r b l, c <> 8 -> next_to 8 [t; r; b; l] = false ->
  tube_rule c [t; r; b; l] = None -> sayama_default SDSR c t r b l = if c =? 0 then 0 else 8.
Proof.
  intros c t r b l Hc H8 Ht. unfold sayama_default. cbv zeta.
  destruct (c =? 8) eqn:E; [apply Z.eqb_eq in E; contradiction|]. rewrite H8, Ht. reflexivity.
Qed.

Lemma sayama_undefined_evoloop : forall c t r b l, c <> 8 -> next_to 8 [t; r; b; l] = false ->
  sayama_default EVOLOOP c t r b l = if c =? 0 then 0 else 8.
Proof.
  intros c t r b l Hc H8. unfold sayama_default. cbv zeta.
  destruct (c =? 8) eqn:E; [apply Z.eqb_eq in E; contradiction|]. rewrite H8. reflexivity.
Qed.

(* SDSR: for centre 0 a tube rule always decides: 0 -> 1 in the tube next to a 1, else 0 stays 0 *)
Lemma sayama_zero_sdsr : forall t r b l, next_to 8 [t; r; b; l] = false ->
  sayama_default SDSR 0 t r b l = if in_tube [t; r; b; l] && next_to 1 [t; r; b; l] then 1 else 0.
Proof.
  intros t r b l H8. rewrite (sayama_tube 0 t r b l (if in_tube [t; r; b; l] && next_to 1 [t; r; b; l] then 1 else 0));
    [reflexivity | discriminate | exact H8 | reflexivity].
Qed.

(* non-vacuity helper: some key of {0..8}^5 lies outside the table and satisfies p (the trie is built once) *)
Definition clause_inhabited (tbl : table) (p : key -> bool) : bool :=
  let m := compile tbl in
  negb (forall5b (states 9)
          (fun k => negb (match fast_get k m with None => true | Some _ => false end && p k))).
