(* C16: what a successful correspondence check (Corr/C16.v: check_case) means in terms of the real-valued
   model: the double returned by /repo is within 2^-30 of the model's real number, and a rejection is a
   rejection of the model with the same exception class. *)
From Coq Require Import Reals Lra Lia List ZArith.
From Interval Require Import Interval Xreal.
From CPL Require Import Model.Base Model.EntropyExact Proofs.EntropyBounds Model.EntropyR Model.EntropyI Corr.C16 Proofs.EntropyProofs.
Import ListNotations.
Local Open Scope R_scope.

(* the real number (or the exception) the model assigns to a case *)
Definition real_value (c : case) : res R :=
  match c with
  | CShannon s _ _ => Ok (shannonR sym_dec s)
  | CJoint X Y _ _ => Ok (jointR sym_dec sym_dec X Y)
  | CMI X Y _ _ => Ok (miR sym_dec sym_dec X Y)
  | CACE rows _ _ => Ok (aceR rows)
  | CAMI rows d _ _ => amiR rows d
  | CSeq _ => Raise OtherError      (* sequences: see check_seq_sound *)
  end.

(* the inputs the model is about: non-empty aligned sequences, automata with a row and a column *)
Definition wf (c : case) : Prop :=
  match c with
  | CShannon s _ _ => s <> []
  | CJoint X Y _ _ | CMI X Y _ _ => X <> [] /\ length X = length Y
  | CACE rows _ _ => (0 < nrows rows)%nat /\ (0 < ncols rows)%nat
  | CAMI rows _ _ _ => (0 < ncols rows)%nat
  | CSeq _ => False                 (* sequences: see check_seq_sound *)
  end.

Lemma model_out_encloses c : wf c ->
  match model_out1 c, real_value c with
  | Ok (_, iv), Ok x => contains (I.convert iv) (Xreal x)
  | Raise e, Raise e' => e = e'
  | _, _ => False
  end.
Proof.
  destruct c as [s ref o|X Y ref o|X Y ref o|rows ref o|rows d ref o|steps]; cbn [wf model_out1 real_value]; [| | | | |contradiction].
  - intros Hne. apply shannonI_ok; [apply tab80_ok|exact Hne].
  - intros [Hne Hlen]. apply jointI_ok; [apply tab80_ok|exact Hne|exact Hlen].
  - intros [Hne Hlen]. apply miI_ok; [apply tab80_ok|exact Hne|exact Hlen].
  - intros [HT HN]. apply aceI_ok; [apply tab80_ok|exact HT|exact HN].
  - intros HN. pose proof (amiI_ok prec80 tab80 tab80_ok rows d HN) as Hok.
    unfold amiI, amiR in *. destruct (ami_cells rows d) as [cells|e]; [exact Hok|exact Hok].
Qed.

Definition sound1 (c : case) : Prop :=
  match observed c, real_value c with
  | Ok (Some (m, e)), Ok x => Rabs (x - dblR m e) <= / IZR (2 ^ 30)
  | Raise e, Raise e' => e = e'
  | _, _ => False
  end.

Lemma check1_sound c : wf c -> check1 c = true -> sound1 c.
Proof.
  unfold sound1. intros Hwf Hchk. pose proof (model_out_encloses c Hwf) as Henc. unfold check1 in Hchk.
  destruct (model_out1 c) as [[cells iv]|e]; destruct (real_value c) as [x|e']; try contradiction.
  - destruct (observed c) as [[[m ex]|]|f]; try discriminate Hchk.
    apply andb_prop in Hchk as [_ Hw]. apply (within_sound prec80 iv m ex x Henc Hw).
  - destruct (observed c) as [v|f]; [discriminate Hchk|]. subst e'.
    destruct e, f; try discriminate Hchk; reflexivity.
Qed.

Theorem check_case_sound c : wf c -> check_case c = true ->
  match observed c, real_value c with
  | Ok (Some (m, e)), Ok x => Rabs (x - dblR m e) <= / IZR (2 ^ 30)
  | Raise e, Raise e' => e = e'
  | _, _ => False
  end.
Proof.
  intros Hwf Hchk. apply (check1_sound c Hwf). destruct c; try exact Hchk. contradiction.
Qed.

(* a passing sequence: every call of it is sound for the contents of the array at the time of that call *)
Theorem check_seq_sound steps : Forall (fun s => wf (step_case s)) steps -> check_case (CSeq steps) = true ->
  Forall (fun s => sound1 (step_case s)) steps.
Proof.
  cbn [check_case]. intros Hwf Hchk. rewrite forallb_forall in Hchk. rewrite Forall_forall in *.
  intros s Hs. apply check1_sound; [apply Hwf; exact Hs|apply Hchk; exact Hs].
Qed.

(* statements about the DOUBLES themselves: the laws hold of the real definitions, the doubles are only within
   2^-30 of them (mutual_information does return -4.4e-16 on some inputs); what a passing case gives is: *)
Lemma Rabs_le_inv a b : Rabs a <= b -> - b <= a <= b.
Proof. intros H. pose proof (Rle_abs a). pose proof (Rle_abs (- a)) as H2. rewrite Rabs_Ropp in H2. lra. Qed.

Corollary mi_double_lower X Y ref m e : X <> [] -> length X = length Y ->
  check_case (CMI X Y ref (Ok (Some (m, e)))) = true -> - / IZR (2 ^ 30) <= dblR m e.
Proof.
  intros Hne Hlen Hchk. pose proof (check1_sound (CMI X Y ref (Ok (Some (m, e)))) (conj Hne Hlen) Hchk) as Hs.
  unfold sound1 in Hs. cbn [observed real_value] in Hs.
  pose proof (mi_nonneg sym_dec sym_dec X Y Hne Hlen) as Hnn. apply Rabs_le_inv in Hs. lra.
Qed.

Corollary shannon_double_lower s ref m e : s <> [] ->
  check_case (CShannon s ref (Ok (Some (m, e)))) = true -> - / IZR (2 ^ 30) <= dblR m e.
Proof.
  intros Hne Hchk. pose proof (check1_sound (CShannon s ref (Ok (Some (m, e)))) Hne Hchk) as Hs.
  unfold sound1 in Hs. cbn [observed real_value] in Hs.
  pose proof (shannon_nonneg sym_dec s) as Hnn. apply Rabs_le_inv in Hs. lra.
Qed.

Corollary mi_double_symm X Y r1 r2 m e m' e' : X <> [] -> length X = length Y ->
  check_case (CMI X Y r1 (Ok (Some (m, e)))) = true -> check_case (CMI Y X r2 (Ok (Some (m', e')))) = true ->
  Rabs (dblR m e - dblR m' e') <= 2 * / IZR (2 ^ 30).
Proof.
  intros Hne Hlen H1 H2.
  assert (Hne' : Y <> []) by (destruct Y; [destruct X; [congruence|discriminate Hlen]|discriminate]).
  pose proof (check1_sound (CMI X Y r1 (Ok (Some (m, e)))) (conj Hne Hlen) H1) as S1.
  pose proof (check1_sound (CMI Y X r2 (Ok (Some (m', e')))) (conj Hne' (eq_sym Hlen)) H2) as S2.
  unfold sound1 in S1, S2. cbn [observed real_value] in S1, S2.
  rewrite (mi_symm sym_dec sym_dec Y X (eq_sym Hlen)) in S2.
  apply Rabs_le_inv in S1, S2. apply Rabs_le. lra.
Qed.
