(* C19 — real layer of the apen model and the verified interval enclosure.
   Uses the standard library's real numbers (their axioms are reported by Print Assumptions);
   the exact layer underneath is in Proofs/ApenExact.v and is axiom free. *)
From Coq Require Import String Ascii Reals.
From CPL Require Import Model.Base Model.Apen Proofs.ApenExact.
From Coq Require Import ZArith Lra Lia.
From Coquelicot Require Import Rcomplements.
From Interval Require Import Xreal Interval Basic.
Local Open Scope R_scope.

(* ------------------------------------------------------------------ the logarithm's argument *)

Lemma frac_in_unit (c n : nat) : (1 <= c <= n)%nat ->
  0 < IZR (Z.of_nat c) / IZR (Z.of_nat n) <= 1.
Proof.
  intros [Hc Hn].
  assert (H1 : 0 < IZR (Z.of_nat c)) by (apply IZR_lt; lia).
  assert (H2 : 0 < IZR (Z.of_nat n)) by (apply IZR_lt; lia).
  assert (H3 : IZR (Z.of_nat c) <= IZR (Z.of_nat n)) by (apply IZR_le; lia).
  split.
  - apply Rdiv_lt_0_compat; assumption.
  - apply Rle_div_l; lra.
Qed.

Lemma lnfrac_nonpos (c n : nat) : (1 <= c <= n)%nat -> lnfrac (Z.of_nat n) c <= 0.
Proof.
  intros H. destruct (frac_in_unit c n H) as [H0 H1]. unfold lnfrac.
  rewrite <- ln_1. apply ln_le; assumption.
Qed.

(* every logarithm taken by phi has its argument in (0, 1] *)
Theorem log_arguments_in_unit m r U : (0 <= r)%Z ->
  Forall (fun c => 0 < IZR (Z.of_nat c) / IZR (Z.of_nat (nwin m U)) <= 1) (Cs m r U).
Proof.
  intros Hr. eapply Forall_impl; [|apply (C_self_match m r U Hr)].
  intros c Hc. apply frac_in_unit, Hc.
Qed.

(* ------------------------------------------------------------------ sign *)

Lemma Rsum_nonpos l : Forall (fun x => x <= 0) l -> Rsum l <= 0.
Proof. induction 1 as [|x l Hx _ IH]; cbn [Rsum fold_right]; [lra | unfold Rsum in IH; lra]. Qed.

Theorem phi_nonpos m r U : (0 <= r)%Z -> (m <= length U)%nat -> phiR m r U <= 0.
Proof.
  intros Hr Hm. unfold phiR.
  assert (Hn : 0 < IZR (Z.of_nat (nwin m U))) by (apply IZR_lt; unfold nwin; lia).
  assert (Hs : Rsum (map (lnfrac (Z.of_nat (nwin m U))) (Cs m r U)) <= 0).
  { apply Rsum_nonpos. apply Forall_forall. intros x Hx. apply in_map_iff in Hx.
    destruct Hx as [c [Hx Hc]]. subst x. apply lnfrac_nonpos.
    pose proof (C_self_match m r U Hr) as H. rewrite Forall_forall in H. apply H, Hc. }
  assert (Hi : 0 < 1 / IZR (Z.of_nat (nwin m U))) by (apply Rdiv_lt_0_compat; lra).
  rewrite <- (Rmult_0_r (1 / IZR (Z.of_nat (nwin m U)))).
  apply Rmult_le_compat_l; lra.
Qed.

Theorem apenR_nonneg m r U : 0 <= apenR m r U.
Proof. apply Rabs_pos. Qed.

(* ------------------------------------------------------------------ constant sequences *)

Lemma phi_constant v N m r : (0 <= r)%Z -> (m <= N)%nat -> phiR m r (repeat v N) = 0.
Proof.
  intros Hr Hm. unfold phiR. rewrite Cs_constant by exact Hr.
  unfold nwin. rewrite repeat_length. set (n := (N + 1 - m)%nat).
  assert (Hn : 0 < IZR (Z.of_nat n)) by (apply IZR_lt; unfold n; lia).
  assert (H0 : lnfrac (Z.of_nat n) n = 0).
  { unfold lnfrac. replace (IZR (Z.of_nat n) / IZR (Z.of_nat n)) with 1 by (field; lra). apply ln_1. }
  assert (Hs : forall k, Rsum (map (lnfrac (Z.of_nat n)) (repeat n k)) = 0).
  { induction k as [|k IH]; [reflexivity|]. cbn [repeat map Rsum fold_right]. unfold Rsum in IH.
    rewrite H0, IH. lra. }
  rewrite Hs. lra.
Qed.

Theorem apenR_constant_zero v N m r : (0 <= r)%Z -> (m + 1 <= N)%nat -> apenR m r (repeat v N) = 0.
Proof.
  intros Hr Hm. unfold apenR. rewrite !phi_constant by (assumption || lia).
  rewrite Rminus_0_r. apply Rabs_R0.
Qed.

(* ------------------------------------------------------------------ the whole function *)

Lemma apen_seq_in_domain U m r : (1 <= m)%nat -> (m + 1 <= length U)%nat ->
  apen_seq U m r = Ok (apenR m r U).
Proof.
  intros H1 H2. unfold apen_seq.
  destruct (m =? 0)%nat eqn:E1; [apply Nat.eqb_eq in E1; lia|].
  destruct (length U =? m)%nat eqn:E2; [apply Nat.eqb_eq in E2; lia|].
  destruct (length U + 1 =? m)%nat eqn:E3; [apply Nat.eqb_eq in E3; lia|].
  destruct (length U + 1 <? m)%nat eqn:E4; [apply Nat.ltb_lt in E4; lia|].
  reflexivity.
Qed.

(* in the domain the result is |phi(m+1) - phi(m)| of the normalised sequence, for each form *)
Theorem apen_value zs m r : (1 <= m)%nat -> (m + 1 <= length zs)%nat ->
  apen (SeqList zs) m r = Ok (Rabs (phiR (S m) r zs - phiR m r zs)) /\
  apen (SeqArray zs) m r = Ok (Rabs (phiR (S m) r zs - phiR m r zs)).
Proof. intros H1 H2. split; cbn [apen normalise bind]; apply apen_seq_in_domain; assumption. Qed.

Theorem apen_nonneg inp m r x : apen inp m r = Ok x -> 0 <= x.
Proof.
  unfold apen. destruct (normalise inp) as [U|e]; cbn [bind]; [|discriminate].
  unfold apen_seq.
  destruct (m =? 0)%nat; [discriminate|].
  destruct ((length U =? m)%nat || (length U + 1 =? m)%nat)%bool; [discriminate|].
  destruct (length U + 1 <? m)%nat; intros H; inversion H; [lra | apply apenR_nonneg].
Qed.

Theorem apen_constant_zero v N m r : (1 <= m)%nat -> (0 <= r)%Z -> (m + 1 <= N)%nat ->
  apen (SeqList (repeat v N)) m r = Ok 0 /\ apen (SeqArray (repeat v N)) m r = Ok 0 /\
  ((0 <= v <= 9)%Z -> apen (SeqStr (string_of_digits (repeat v N))) m r = Ok 0).
Proof.
  intros H1 Hr H2.
  assert (H : apen_seq (repeat v N) m r = Ok 0).
  { rewrite apen_seq_in_domain by (rewrite ?repeat_length; assumption).
    rewrite apenR_constant_zero by assumption. reflexivity. }
  split; [exact H | split; [exact H|]].
  intros Hv. unfold apen. cbn [normalise].
  rewrite digits_of_string_of_digits; [exact H|].
  apply Forall_forall. intros z Hz. apply repeat_spec in Hz. subst z. exact Hv.
Qed.

Theorem apen_forms_agree zs m r : Forall (fun z => 0 <= z <= 9)%Z zs ->
  apen (SeqStr (string_of_digits zs)) m r = apen (SeqList zs) m r /\
  apen (SeqArray zs) m r = apen (SeqList zs) m r.
Proof.
  intros H. split; [|reflexivity]. unfold apen. cbn [normalise].
  rewrite digits_of_string_of_digits by exact H. reflexivity.
Qed.

(* list and array agree for every integer content *)
Theorem apen_list_array zs m r : apen (SeqArray zs) m r = apen (SeqList zs) m r.
Proof. reflexivity. Qed.

Theorem apen_type_error m r : apen SeqOther m r = Raise TypeError.
Proof. reflexivity. Qed.

(* ------------------------------------------------------------------ real-valued tolerance *)

(* an integer distance is within a real tolerance exactly when it is within its floor *)
Lemma real_tolerance_floor (d : Z) (rr : R) : IZR d <= rr <-> (d <= Raux.Zfloor rr)%Z.
Proof.
  split.
  - apply Raux.Zfloor_lub.
  - intros H. apply Rle_trans with (IZR (Raux.Zfloor rr)); [apply IZR_le, H | apply Raux.Zfloor_lb].
Qed.

Lemma filter_ext_bool {A} (p q : A -> bool) l : (forall a, p a = q a) -> filter p l = filter q l.
Proof. intros H. induction l as [|a l IH]; [reflexivity|]. cbn [filter]. rewrite H, IH. reflexivity. Qed.

(* hence the counts for a real tolerance are the counts for its floor *)
Theorem CsR_floor m rr U : CsR m rr U = Cs m (Raux.Zfloor rr) U.
Proof.
  unfold CsR, Cs. apply map_ext. intros xi. unfold match_countR, match_count. f_equal.
  apply filter_ext_bool. intros xj.
  destruct (Rle_dec (IZR (max_dist xi xj)) rr) as [H|H].
  - symmetry. apply Z.leb_le, real_tolerance_floor, H.
  - symmetry. apply Z.leb_gt. apply Z.nle_gt. intros H'. apply H, real_tolerance_floor, H'.
Qed.

(* ------------------------------------------------------------------ interval enclosure *)

Lemma lnN_eq k : lnN k = lnI (Z.of_nat k).
Proof.
  unfold lnN. destruct (nth_error lntab k) as [v|] eqn:E; [|reflexivity].
  unfold lntab in E. rewrite nth_error_map in E.
  destruct (nth_error (seq 0 130) k) as [j|] eqn:Ej; [|discriminate].
  cbn [option_map] in E. inversion E; subst v. f_equal. f_equal.
  assert (Hk : (k < length (seq 0 130))%nat).
  { apply nth_error_Some. rewrite Ej. discriminate. }
  rewrite seq_length in Hk.
  rewrite (nth_error_nth' _ 0%nat) in Ej by (rewrite seq_length; exact Hk).
  rewrite seq_nth in Ej by exact Hk. inversion Ej. reflexivity.
Qed.

Lemma lnI_correct k : (0 < k)%Z -> contains (I.convert (lnI k)) (Xreal (ln (IZR k))).
Proof.
  intros Hk. unfold lnI.
  replace (Xreal (ln (IZR k))) with (Xln (Xreal (IZR k))).
  - apply I.ln_correct, I.fromZ_correct.
  - unfold Xln, Xln'. rewrite is_positive_true by (apply IZR_lt; exact Hk). reflexivity.
Qed.

Lemma lnfracI_correct n c : (1 <= c)%nat -> (1 <= n)%nat ->
  contains (I.convert (lnfracI n c)) (Xreal (lnfrac (Z.of_nat n) c)).
Proof.
  intros Hc Hn. unfold lnfracI, lnfrac. rewrite !lnN_eq.
  rewrite ln_div by (apply IZR_lt; lia).
  change (Xreal (ln (IZR (Z.of_nat c)) - ln (IZR (Z.of_nat n))))
    with (Xsub (Xreal (ln (IZR (Z.of_nat c)))) (Xreal (ln (IZR (Z.of_nat n))))).
  apply I.sub_correct; apply lnI_correct; lia.
Qed.

Lemma IsumI_correct (fI : nat -> I.type) (fR : nat -> R) (P : nat -> Prop) l :
  (forall c, P c -> contains (I.convert (fI c)) (Xreal (fR c))) -> Forall P l ->
  contains (I.convert (IsumI (map fI l))) (Xreal (Rsum (map fR l))).
Proof.
  intros Hf. induction 1 as [|c l Hc _ IH].
  - cbn [map IsumI Rsum fold_right]. apply I.fromZ_correct.
  - cbn [map IsumI Rsum fold_right].
    change (Xreal (fR c + fold_right Rplus 0 (map fR l)))
      with (Xadd (Xreal (fR c)) (Xreal (Rsum (map fR l)))).
    apply I.add_correct; [apply Hf, Hc | exact IH].
Qed.

Lemma assoc_nat_map f l c v : assoc_nat c (map (fun c => (c, f c)) l) = Some v -> v = f c.
Proof.
  induction l as [|a l IH]; cbn [map assoc_nat]; [discriminate|].
  destruct (c =? a)%nat eqn:E.
  - apply Nat.eqb_eq in E. subst a. intros H. inversion H. reflexivity.
  - exact IH.
Qed.

Lemma memo_map_eq f l : memo_map f l = map f l.
Proof.
  unfold memo_map. apply map_ext. intros c.
  destruct (assoc_nat c _) as [v|] eqn:E; [|reflexivity]. apply assoc_nat_map in E. exact E.
Qed.

Lemma phiI_correct m r U : (0 <= r)%Z -> (m <= length U)%nat ->
  contains (I.convert (phiI m r U)) (Xreal (phiR m r U)).
Proof.
  intros Hr Hm. unfold phiI, phiR. rewrite memo_map_eq.
  assert (Hn : (1 <= nwin m U)%nat) by (unfold nwin; lia).
  set (n := nwin m U) in *.
  assert (Hz : IZR (Z.of_nat n) <> 0) by (apply not_0_IZR; lia).
  change (Xreal (1 / IZR (Z.of_nat n) * Rsum (map (lnfrac (Z.of_nat n)) (Cs m r U))))
    with (Xmul (Xreal (1 / IZR (Z.of_nat n))) (Xreal (Rsum (map (lnfrac (Z.of_nat n)) (Cs m r U))))).
  apply I.mul_correct.
  - replace (Xreal (1 / IZR (Z.of_nat n))) with (Xdiv (Xreal (IZR 1)) (Xreal (IZR (Z.of_nat n)))).
    + apply I.div_correct; apply I.fromZ_correct.
    + unfold Xdiv, Xdiv'. rewrite is_zero_false by exact Hz. reflexivity.
  - apply (IsumI_correct _ _ (fun c => (1 <= c <= n)%nat)).
    + intros c Hc. apply lnfracI_correct; lia.
    + apply C_self_match, Hr.
Qed.

(* the executable twin encloses the model's real value *)
Theorem apenI_correct m r U : (0 <= r)%Z -> (m + 1 <= length U)%nat ->
  contains (I.convert (apenI m r U)) (Xreal (apenR m r U)).
Proof.
  intros Hr Hm. unfold apenI, apenR.
  change (Xreal (Rabs (phiR (S m) r U - phiR m r U)))
    with (Xabs (Xsub (Xreal (phiR (S m) r U)) (Xreal (phiR m r U)))).
  apply I.abs_correct, I.sub_correct; apply phiI_correct; (assumption || lia).
Qed.

(* the twin of the whole function: same exceptions, and an enclosure of the same value *)
Theorem apen_twin_correct inp m r : (0 <= r)%Z ->
  match apen inp m r, apen_twin inp m r with
  | Ok x, Ok xi => contains (I.convert xi) (Xreal x)
  | Raise e, Raise e' => e = e'
  | _, _ => False
  end.
Proof.
  intros Hr. unfold apen, apen_twin. destruct (normalise inp) as [U|e]; cbn [bind]; [|reflexivity].
  unfold apen_seq, apen_seqI.
  destruct (m =? 0)%nat; [reflexivity|].
  destruct (length U =? m)%nat eqn:E2; [reflexivity|].
  destruct (length U + 1 =? m)%nat eqn:E3; [reflexivity|]. cbn [orb].
  destruct (length U + 1 <? m)%nat eqn:E4; [apply (I.fromZ_correct prec 0)|].
  apply apenI_correct; [exact Hr|].
  apply Nat.eqb_neq in E2, E3. apply Nat.ltb_ge in E4. lia.
Qed.

(* ------------------------------------------------------------------ the comparison used by Corr/C19.v *)

Lemma doubleI_correct mant ex : contains (I.convert (doubleI mant ex)) (Xreal (doubleR mant ex)).
Proof.
  unfold doubleI, doubleR. destruct (0 <=? ex)%Z eqn:E.
  - change (Xreal (IZR mant * IZR (2 ^ ex))) with (Xmul (Xreal (IZR mant)) (Xreal (IZR (2 ^ ex)))).
    apply I.mul_correct; apply I.fromZ_correct.
  - replace (Xreal (IZR mant / IZR (2 ^ (- ex)))) with (Xdiv (Xreal (IZR mant)) (Xreal (IZR (2 ^ (- ex))))).
    + apply I.div_correct; apply I.fromZ_correct.
    + unfold Xdiv, Xdiv'. rewrite is_zero_false; [reflexivity|].
      apply not_0_IZR. apply Z.leb_gt in E. apply Z.pow_nonzero; lia.
Qed.

Lemma tolI_correct x : contains (I.convert tolI) (Xreal x) -> Rabs x <= tol.
Proof.
  unfold tolI. rewrite I.bnd_correct by reflexivity.
  change (F.toX (F.scale2 (F.fromZ (-1)) (-30)%Z)) with (Xreal (Basic.FtoR Zaux.radix2 true 1 (-30))).
  change (F.toX (F.scale2 (F.fromZ 1) (-30)%Z)) with (Xreal (Basic.FtoR Zaux.radix2 false 1 (-30))).
  cbn [contains]. unfold tol, Basic.FtoR.
  change (Z.pow_pos (Zaux.radix_val Zaux.radix2) 30) with (2 ^ 30)%Z.
  change (Z.neg 1) with (-1)%Z. change (Z.pos 1) with 1%Z.
  intros [H1 H2]. apply Rabs_le. lra.
Qed.

(* what a `true` of the check means: the double is within 2^-30 of the model's real value *)
Theorem close_to_model_sound m r U mant ex : (0 <= r)%Z -> (m + 1 <= length U)%nat ->
  close_to_model m r U mant ex = true -> Rabs (doubleR mant ex - apenR m r U) <= tol.
Proof.
  intros Hr Hm H. unfold close_to_model in H. apply tolI_correct.
  eapply I.subset_correct; [|exact H].
  change (Xreal (doubleR mant ex - apenR m r U)) with (Xsub (Xreal (doubleR mant ex)) (Xreal (apenR m r U))).
  apply I.sub_correct; [apply doubleI_correct | apply apenI_correct; assumption].
Qed.
