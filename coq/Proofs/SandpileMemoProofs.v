(* C14 x C04: with the open boundary and no scheduled additions the Sandpile rule object is a pure
   function of the unmasked part of its neighbourhood, so evolve2d's memoised engines (memoize=True,
   memoize="recursive"; Model/Memo2D.v) return the array of the plain loop; that array is the BTW
   evolution and has the same total at every step.

   The C04 transparency theorem for memoize=True asks for an f that depends, for EVERY nbhd2 value
   (also ragged ones, also other masks), only on (nb_mask n, unmasked n).  sandpile_call reads nb_vals
   directly, so it is such an f only on the neighbourhoods evolve2d actually builds (3x3, mask of the
   neighbourhood type).  Bridge: `sand_um` reads mask + unmasked list only, agrees with sandpile_call on
   every get_neighbourhood _ _ _ 1 _ _ _, and engines whose rules agree on those neighbourhoods are equal. *)
From Coq Require Import ZArith Lia.
From CPL Require Import Model.Base Model.Rules Model.Engine Model.Evolve2D Model.Sandpile Model.Memo2D.
From CPL Require Import Proofs.Evolve2DProofs Proofs.Memo2DProofs Proofs.SandpileProofs.
Local Open Scope Z_scope.

(* ------------------------------------------------------------------ the rule as a function of five values *)
Definition val5 (top left centre right bottom : Z) : Z :=
  let new_activity := topple_in centre [top; left; right; bottom] in
  if K <=? centre then new_activity - K else new_activity.

Definition bgrid_eqb : list (list bool) -> list (list bool) -> bool := list_eqb (list_eqb Bool.eqb).

(* reads nothing but the mask and the row-major list of unmasked entries *)
Definition sand_um (n : nbhd2) : Z :=
  if bgrid_eqb (nb_mask n) (vn_mask 1) then
    match unmasked n with [a; b; c; d; e] => val5 a b c d e | _ => 0 end
  else if bgrid_eqb (nb_mask n) (no_mask 1) then
    match unmasked n with [_; a; _; b; c; d; _; e; _] => val5 a b c d e | _ => 0 end
  else 0.

Lemma sand_um_reads_unmasked : forall n n', nb_mask n = nb_mask n' -> unmasked n = unmasked n' -> sand_um n = sand_um n'.
Proof. intros n n' Hm Hu. unfold sand_um. rewrite Hm, Hu. reflexivity. Qed.

(* what evolve2d hands to the rule for r = 1: a 3x3 block with the mask of the neighbourhood type *)
Lemma nbhd1_explicit g R C row col ty : exists a b c d e f h i j,
  get_neighbourhood g R C 1 row col ty
  = {| nb_vals := [[a; b; c]; [d; e; f]; [h; i; j]];
       nb_mask := match ty with Moore => no_mask 1 | VonNeumann => vn_mask 1 end |}.
Proof.
  unfold get_neighbourhood, ix_gather, axis_indices.
  change (seq 0 (2 * 1 + 1)) with [0; 1; 2]%nat. cbn [map].
  do 9 eexists. reflexivity.
Qed.

Lemma sand_um_agrees rows cols g R C row col ty c t :
  sandpile_call rows cols false [] (get_neighbourhood g R C 1 row col ty) c t
  = sand_um (get_neighbourhood g R C 1 row col ty).
Proof.
  destruct (nbhd1_explicit g R C row col ty) as (a & b & c0 & d & e & f & h & i & j & E). rewrite E.
  destruct ty; reflexivity.
Qed.

(* open boundary, empty schedule: the rule object ignores c and t *)
Definition sand_pure (rows cols : nat) (n : nbhd2) : Z := sandpile_call rows cols false [] n (0%nat, 0%nat) 0%nat.

Lemma sandpile_answers rows cols : answers (sandpile_rule rows cols false []) (sand_pure rows cols).
Proof. intros s n c t. reflexivity. Qed.

(* ------------------------------------------------------------------ engines with rules that agree on the
   neighbourhoods built for r = 1 are equal *)
Section StepExt.
  Variable St : Type.
  Variables ra rb : rule2 St.
  Variable store : Z -> Z.
  Variable ty : nbhd_type.
  Hypothesis Hag : forall s g R C row col t,
    ra s (get_neighbourhood g R C 1 row col ty) (row, col) t = rb s (get_neighbourhood g R C 1 row col ty) (row, col) t.

  Lemma apply_cols_ext g R C row t : forall cols s,
    apply_cols ra store s g R C 1 ty row cols t = apply_cols rb store s g R C 1 ty row cols t.
  Proof.
    induction cols as [|col cols IH]; intros s; [reflexivity|].
    cbn [apply_cols]. rewrite Hag. destruct (rb s (get_neighbourhood g R C 1 row col ty) (row, col) t) as [s1 v].
    rewrite IH. reflexivity.
  Qed.

  Lemma apply_rows_ext g R C t : forall rows s,
    apply_rows ra store s g R C 1 ty rows t = apply_rows rb store s g R C 1 ty rows t.
  Proof.
    induction rows as [|row rows IH]; intros s; [reflexivity|].
    cbn [apply_rows]. rewrite apply_cols_ext. destruct (apply_cols rb store s g R C 1 ty row (seq 0 C) t) as [s1 vs].
    rewrite IH. reflexivity.
  Qed.

  Lemma step_plain2d_ext s g t : step_plain2d ra store 1 ty s g t = step_plain2d rb store 1 ty s g t.
  Proof. unfold step_plain2d. apply apply_rows_ext. Qed.
End StepExt.

Lemma iter_steps_pointwise {X C} (s1 s2 : X -> C -> nat -> X * C) :
  (forall x c t, s1 x c t = s2 x c t) -> forall n x c t, iter_steps s1 n x c t = iter_steps s2 n x c t.
Proof.
  intros H. induction n as [|n IH]; intros x c t; [reflexivity|].
  cbn [iter_steps]. rewrite H. destruct (s2 x c t) as [x1 nxt]. rewrite IH. reflexivity.
Qed.

Lemma evolve_fixed_pointwise {X C} (d : C) (s1 s2 : X -> C -> nat -> X * C) :
  (forall x c t, s1 x c t = s2 x c t) -> forall x hist T, evolve_fixed d s1 x hist T = evolve_fixed d s2 x hist T.
Proof.
  intros H x hist T. unfold evolve_fixed. destruct T as [|k]; [reflexivity|].
  rewrite (iter_steps_pointwise s1 s2 H). reflexivity.
Qed.

Lemma get_memoized2_agree {St} (ra rb : rule2 St) n c t :
  (forall s, ra s n c t = rb s n c t) -> forall x, get_memoized2 ra x n c t = get_memoized2 rb x n c t.
Proof.
  intros H [s m]. unfold get_memoized2. destruct (memo_lookup (memo_key n) m); [reflexivity|].
  rewrite H. reflexivity.
Qed.

(* the two bridges: plain and memoize=True engines of the rule object = those of the pure sand_um *)
Lemma plain_bridge rows cols ty hist T :
  evolve2d_plain (sandpile_rule rows cols false []) store_id 1 ty tt hist T
  = evolve2d_plain (pure_rule2 sand_um) store_id 1 ty tt hist T.
Proof.
  unfold evolve2d_plain. apply evolve_fixed_pointwise. intros x c t.
  apply step_plain2d_ext. intros s g R C row col t'. unfold sandpile_rule, pure_rule2.
  rewrite sand_um_agrees. reflexivity.
Qed.

Lemma memo_bridge rows cols ty hist T :
  evolve2d_mode_fixed (sandpile_rule rows cols false []) store_id Memo 1 ty tt hist T
  = evolve2d_mode_fixed (pure_rule2 sand_um) store_id Memo 1 ty tt hist T.
Proof.
  cbn [evolve2d_mode_fixed]. f_equal. apply evolve_fixed_pointwise. intros x c t.
  unfold step_memo2d. apply step_plain2d_ext. intros s g R C row col t'.
  apply get_memoized2_agree. intros s0. unfold sandpile_rule, pure_rule2.
  rewrite sand_um_agrees. reflexivity.
Qed.

(* ------------------------------------------------------------------ transparency for the Sandpile rule object *)
Theorem sandpile_memo_transparent : forall rows cols (m : mode) ty R C hist T,
  (1 <= R)%nat -> (1 <= C)%nat -> wf_grid R C (last hist []) ->
  arr2_of (evolve2d_mode_fixed (sandpile_rule rows cols false []) store_id m 1 ty tt hist T)
  = arr2_of (evolve2d_plain (sandpile_rule rows cols false []) store_id 1 ty tt hist T).
Proof.
  intros rows cols m ty R C hist T HR HC Hwf.
  assert (Hr : (1 <= Nat.min R C)%nat) by (apply Nat.min_glb; assumption).
  destruct m.
  - reflexivity.
  - rewrite memo_bridge, plain_bridge.
    exact (memo2d_true_fixed unit (pure_rule2 sand_um) store_id sand_um (answers_pure sand_um)
             sand_um_reads_unmasked 1%nat ty R C hist T tt HR HC Hr Hwf).
  - exact (memo2d_recursive_fixed unit (sandpile_rule rows cols false []) store_id (sand_pure rows cols)
             (sandpile_answers rows cols) 1%nat ty R C hist T tt HR HC Hr Hwf).
Qed.

(* ------------------------------------------------------------------ the plain evolution is the iterated BTW map *)
Definition btw_map (R C : nat) (g : grid) : grid := grid_of R C (btw_cell g R C).
Fixpoint btw_iter (R C n : nat) (g : grid) : list grid :=
  match n with O => [] | S n' => btw_map R C g :: btw_iter R C n' (btw_map R C g) end.

Lemma no_addition_nil t : no_addition_at [] t.
Proof. intros a []. Qed.

Lemma iter_steps_btw rows cols ty R C : (1 <= R)%nat -> (1 <= C)%nat -> forall n u g t, wf_grid R C g ->
  snd (iter_steps (step_plain2d (sandpile_rule rows cols false []) store_id 1 ty) n u g t) = btw_iter R C n g.
Proof.
  intros HR HC. induction n as [|n IH]; intros u g t Hwf; [reflexivity|].
  cbn [iter_steps btw_iter].
  pose proof (open_step_grid rows cols [] ty g R C t u Hwf HR HC (no_addition_nil t)) as E.
  destruct (step_plain2d (sandpile_rule rows cols false []) store_id 1 ty u g t) as [u1 nxt]. cbn [snd] in E.
  subst nxt. fold (btw_map R C g).
  specialize (IH u1 (btw_map R C g) (S t) (wf_grid_of R C _)).
  destruct (iter_steps (step_plain2d (sandpile_rule rows cols false []) store_id 1 ty) n u1 (btw_map R C g) (S t)) as [u2 rest].
  cbn [snd] in *. rewrite IH. reflexivity.
Qed.

Lemma btw_iter_total R C : (1 <= R)%nat -> (1 <= C)%nat -> forall n g, wf_grid R C g ->
  Forall (fun g' => wf_grid R C g' /\ gsum g' = gsum g) (btw_iter R C n g).
Proof.
  intros HR HC. induction n as [|n IH]; intros g Hwf; [constructor|].
  cbn [btw_iter].
  assert (E : gsum (btw_map R C g) = gsum g).
  { unfold btw_map. rewrite gsum_grid_of, (gsum_cell R C g Hwf). apply btw_total; assumption. }
  constructor; [split; [apply wf_grid_of|exact E]|].
  apply (Forall_impl _ (P := fun g' => wf_grid R C g' /\ gsum g' = gsum (btw_map R C g))); [|apply IH; apply wf_grid_of].
  intros a [Ha1 Ha2]. split; [exact Ha1|]. rewrite Ha2. exact E.
Qed.

Theorem sandpile_conserves_all_modes : forall rows cols (m : mode) ty R C hist T,
  (1 <= R)%nat -> (1 <= C)%nat -> wf_grid R C (last hist []) -> (1 <= T)%nat ->
  arr2_of (evolve2d_mode_fixed (sandpile_rule rows cols false []) store_id m 1 ty tt hist T)
  = arr2_of (evolve2d_plain (sandpile_rule rows cols false []) store_id 1 ty tt hist T) /\
  arr2_of (evolve2d_mode_fixed (sandpile_rule rows cols false []) store_id m 1 ty tt hist T)
  = Ok (hist ++ btw_iter R C (T - 1) (last hist [])) /\
  length (btw_iter R C (T - 1) (last hist [])) = (T - 1)%nat /\
  Forall (fun g' => gsum g' = gsum (last hist [])) (btw_iter R C (T - 1) (last hist [])).
Proof.
  intros rows cols m ty R C hist T HR HC Hwf HT.
  pose proof (sandpile_memo_transparent rows cols m ty R C hist T HR HC Hwf) as Htr.
  split; [exact Htr|]. split; [|split].
  - rewrite Htr, (evolve2d_sandpile_rows rows cols false [] ty hist T HT). cbn [arr2_of].
    do 2 f_equal. exact (iter_steps_btw rows cols ty R C HR HC (T - 1) tt (last hist []) 1%nat Hwf).
  - clear Htr. generalize (last hist []). induction (T - 1)%nat as [|n IH]; intros g; [reflexivity|].
    cbn [btw_iter length]. rewrite IH. reflexivity.
  - apply (Forall_impl _ (P := fun g' => wf_grid R C g' /\ gsum g' = gsum (last hist [])));
      [|apply btw_iter_total; assumption].
    intros a [_ Ha]. exact Ha.
Qed.
