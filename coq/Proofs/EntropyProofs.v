(* C16: the information measures of cellpylib/entropy.py (Model/EntropyExact.v, Model/EntropyR.v)
   satisfy their textbook laws.  The real-analysis core (H >= 0, H <= log2 K, MI >= 0) is
   Proofs/EntropyBounds.v; here it is attached to the model and completed with the remaining laws. *)
From Coq Require Import Reals Lra Lia List Arith ZArith Psatz FinFun.
From CPL Require Import Model.Base Model.EntropyExact Proofs.EntropyBounds Model.EntropyR.
Import ListNotations.
Local Open Scope R_scope.

(* ---------- generic list facts ---------- *)
Section MapFacts.
Context {A B : Type}.
Variable eqA : forall a b : A, {a = b} + {a <> b}.
Variable eqB : forall a b : B, {a = b} + {a <> b}.
Variable f : A -> B.
Hypothesis f_inj : forall x y, f x = f y -> x = y.

Lemma remove_map_inj x l : remove eqB (f x) (map f l) = map f (remove eqA x l).
Proof.
  induction l as [|a l IH]; [reflexivity|]. cbn [map remove].
  destruct (eqB (f x) (f a)) as [E|N], (eqA x a) as [E'|N']; cbn [map]; try rewrite IH; try reflexivity.
  - exfalso. apply N'. apply f_inj. exact E.
  - exfalso. apply N. rewrite E'. reflexivity.
Qed.

Lemma keys_map_inj l : keys eqB (map f l) = map f (keys eqA l).
Proof. induction l as [|a l IH]; [reflexivity|]. cbn [map keys]. rewrite IH, remove_map_inj. reflexivity. Qed.

Lemma count_list_map_inj l : count_list eqB (map f l) = count_list eqA l.
Proof.
  unfold count_list, counts. rewrite keys_map_inj, !map_map. cbn [snd]. apply map_ext.
  intros x. symmetry. apply count_occ_map. exact f_inj.
Qed.
End MapFacts.

Lemma combine_map2 {A B C D} (f : A -> C) (g : B -> D) X Y :
  combine (map f X) (map g Y) = map (fun q => (f (fst q), g (snd q))) (combine X Y).
Proof. revert Y. induction X as [|x X IH]; intros [|y Y]; cbn; [reflexivity..|]. rewrite IH. reflexivity. Qed.

Lemma list_prod_map2 {A B C D} (f : A -> C) (g : B -> D) k1 k2 :
  list_prod (map f k1) (map g k2) = map (fun q => (f (fst q), g (snd q))) (list_prod k1 k2).
Proof.
  induction k1 as [|x k1 IH]; [reflexivity|]. cbn [map list_prod]. rewrite map_app, IH, !map_map. reflexivity.
Qed.

Lemma map_fst_combine_eq {A B} (X : list A) (Y : list B) : length X = length Y -> map fst (combine X Y) = X.
Proof. revert Y. induction X as [|x X IH]; intros [|y Y] E; cbn in *; try reflexivity; try discriminate. rewrite IH by lia. reflexivity. Qed.
Lemma map_snd_combine_eq {A B} (X : list A) (Y : list B) : length X = length Y -> map snd (combine X Y) = Y.
Proof. revert Y. induction X as [|x X IH]; intros [|y Y] E; cbn in *; try reflexivity; try discriminate. rewrite IH by lia. reflexivity. Qed.

(* ---------- Shannon entropy of one sequence ---------- *)
Section Shannon.
Context {A : Type}.
Variable eq_dec : forall a b : A, {a = b} + {a <> b}.

Theorem shannon_nonneg s : 0 <= shannonR eq_dec s.
Proof. rewrite shannonR_H. apply H_nonneg. apply keys_symbols_of. Qed.

Theorem shannon_le_log2_card s K : s <> [] -> (length (keys eq_dec s) <= K)%nat -> shannonR eq_dec s <= log2 (INR K).
Proof. intros Hne HK. rewrite shannonR_H. apply H_le_log2_card; [exact Hne|apply keys_symbols_of|exact HK]. Qed.

(* a sum of non-positive terms that vanishes has only vanishing terms *)
Lemma Rsum_nonpos_zero {B} (g : B -> R) l : (forall x, In x l -> g x <= 0) -> Rsum g l = 0 -> forall x, In x l -> g x = 0.
Proof.
  induction l as [|a l IH]; intros Hg Hs x Hx; [contradiction|]. cbn [Rsum] in Hs.
  assert (Ha : g a <= 0) by (apply Hg; left; reflexivity).
  assert (Hl : Rsum g l <= 0).
  { apply Rle_trans with (Rsum (fun _ => 0) l); [apply Rsum_le; intros; apply Hg; right; assumption|rewrite Rsum_const; lra]. }
  destruct Hx as [<-|Hx]; [lra|]. apply IH; [intros; apply Hg; right; assumption|lra|exact Hx].
Qed.

Lemma plogp_zero_one x : 0 < x <= 1 -> x * log2 x = 0 -> x = 1.
Proof.
  intros [H0 H1] E. unfold log2, Rdiv in E. pose proof ln2_pos as L2.
  assert (Hl : ln x = 0).
  { apply Rmult_integral in E as [E|E]; [lra|]. apply Rmult_integral in E as [E|E]; [exact E|].
    exfalso. assert (0 < / ln 2) by (apply Rinv_0_lt_compat; exact L2). lra. }
  apply ln_inv; [exact H0|lra|]. rewrite ln_1. exact Hl.
Qed.

(* H = 0 exactly when one distinct symbol occurs *)
Theorem shannon_zero_iff_constant s : s <> [] -> (shannonR eq_dec s = 0 <-> length (keys eq_dec s) = 1%nat).
Proof.
  intros Hne. rewrite shannonR_H. pose proof (keys_symbols_of eq_dec s) as Hs. unfold H. split.
  - intros E.
    assert (E0 : Rsum (fun x => p A eq_dec s x * log2 (p A eq_dec s x)) (keys eq_dec s) = 0) by lra.
    assert (Hp1 : forall x, In x (keys eq_dec s) -> p A eq_dec s x = 1).
    { intros x Hx. apply plogp_zero_one; [apply (p_range A eq_dec s _ x Hs Hx)|].
      apply (Rsum_nonpos_zero _ _ (fun y Hy => plogp_nonpos _ (p_range A eq_dec s _ y Hs Hy)) E0 x Hx). }
    pose proof (p_sum A eq_dec s _ Hne Hs) as Hsum.
    rewrite (Rsum_ext _ (fun _ => 1) _ Hp1), Rsum_const in Hsum.
    apply INR_eq. cbn [INR]. lra.
  - intros Hk. destruct (keys eq_dec s) as [|x [|y k]] eqn:Ek; try discriminate Hk.
    pose proof (p_sum A eq_dec s _ Hne Hs) as Hsum. cbn [Rsum] in *.
    replace (p A eq_dec s x) with 1 by lra. unfold log2. rewrite ln_1. lra.
Qed.
End Shannon.

(* ---------- entropy is invariant under an injective renaming of the symbols ---------- *)
Section Rename.
Context {A B : Type}.
Variable eqA : forall a b : A, {a = b} + {a <> b}.
Variable eqB : forall a b : B, {a = b} + {a <> b}.
Variable f : A -> B.
Hypothesis f_inj : forall x y, f x = f y -> x = y.

Lemma symbols_of_map l k : symbols_of A l k -> symbols_of B (map f l) (map f k).
Proof.
  intros [Hnd Hk]. split.
  - apply FinFun.Injective_map_NoDup; [exact f_inj|exact Hnd].
  - intros y. rewrite !in_map_iff. split; intros (x & E & Hx); exists x; (split; [exact E|apply Hk; exact Hx]).
Qed.

Lemma p_map l x : p B eqB (map f l) (f x) = p A eqA l x.
Proof. unfold p, cnt. rewrite map_length, <- (count_occ_map f eqA eqB f_inj). reflexivity. Qed.

Lemma H_map_inj l k : H B eqB (map f l) (map f k) = H A eqA l k.
Proof. unfold H. rewrite Rsum_map. f_equal. apply Rsum_ext. intros x _. rewrite p_map. reflexivity. Qed.
End Rename.

(* ---------- joint entropy and mutual information of two aligned sequences ---------- *)
Lemma ln_le_mono x y : 0 < x -> x <= y -> ln x <= ln y.
Proof. intros Hx [Hlt | ->]; [apply Rlt_le, ln_increasing; assumption|lra]. Qed.

Section Two.
Context {A B : Type}.
Variable eqA : forall a b : A, {a = b} + {a <> b}.
Variable eqB : forall a b : B, {a = b} + {a <> b}.

Lemma miR_unfold (X : list A) (Y : list B) : length X = length Y ->
  miR eqA eqB X Y = shannonR eqA X + shannonR eqB Y - jointR eqA eqB X Y.
Proof. intros Hlen. unfold miR, mi_counts, MIR4, MIR, shannonR, jointR. rewrite Hlen. reflexivity. Qed.

Theorem joint_nonneg (X : list A) (Y : list B) : length X = length Y -> 0 <= jointR eqA eqB X Y.
Proof. intros Hlen. rewrite jointR_H by exact Hlen. apply H_nonneg. apply joint_keys_symbols_of. Qed.

Section Aligned.
Variables (X : list A) (Y : list B).
Hypothesis Hne : X <> [].
Hypothesis Hlen : length X = length Y.
Local Notation l := (combine X Y).

Lemma combine_ne : l <> [].
Proof. destruct X as [|x X']; [congruence|]. destruct Y as [|y Y']; [discriminate Hlen|discriminate]. Qed.
Lemma kX_ok : symbols_of A (map fst l) (keys eqA X).
Proof. rewrite map_fst_combine_eq by exact Hlen. apply keys_symbols_of. Qed.
Lemma kY_ok : symbols_of B (map snd l) (keys eqB Y).
Proof. rewrite map_snd_combine_eq by exact Hlen. apply keys_symbols_of. Qed.
Lemma kXY_ok : symbols_of (A * B) l (joint_keys eqA eqB X Y).
Proof. apply joint_keys_symbols_of. Qed.

(* the model's mutual information is the MI of EntropyBounds on the list of aligned pairs *)
Lemma miR_MI : miR eqA eqB X Y = MI A B eqA eqB l (keys eqA X) (keys eqB Y) (joint_keys eqA eqB X Y).
Proof.
  rewrite miR_unfold by exact Hlen. unfold MI. rewrite !shannonR_H, jointR_H by exact Hlen.
  rewrite map_fst_combine_eq, map_snd_combine_eq by exact Hlen.
  rewrite (H_dec_irrel (pair_dec eqA eqB) (eqAB A B eqA eqB)). reflexivity.
Qed.

Theorem mi_nonneg : 0 <= miR eqA eqB X Y.
Proof. rewrite miR_MI. apply MI_nonneg; [apply combine_ne|apply kX_ok|apply kY_ok|apply kXY_ok]. Qed.

Lemma cnt_pair_le_fst q (m : list (A * B)) : (cnt (A * B) (eqAB A B eqA eqB) q m <= cnt A eqA (fst q) (map fst m))%nat.
Proof.
  unfold cnt. induction m as [|a m IH]; [apply le_n|]. cbn [map count_occ].
  destruct (eqA (fst a) (fst q)) as [E|N'], (eqAB A B eqA eqB a q) as [E2|N]; try lia. exfalso. apply N'. rewrite E2. reflexivity.
Qed.

(* H(X, Y) >= H(X) *)
Theorem joint_ge_left : shannonR eqA X <= jointR eqA eqB X Y.
Proof.
  pose proof ln2_pos as L2. pose proof combine_ne as Hl.
  rewrite shannonR_H, jointR_H by exact Hlen.
  rewrite (H_dec_irrel (pair_dec eqA eqB) (eqAB A B eqA eqB)).
  replace (H A eqA X (keys eqA X)) with (H A eqA (map fst l) (keys eqA X))
    by (rewrite map_fst_combine_eq by exact Hlen; reflexivity).
  rewrite (HX_pos A B eqA l Hl (keys eqA X) (keys eqB Y) (joint_keys eqA eqB X Y) kX_ok kY_ok kXY_ok).
  rewrite (HXY_pos A B eqA eqB l Hl (joint_keys eqA eqB X Y) kXY_ok).
  assert (Hn : 0 < INR (length l)) by (apply (n_pos A B l Hl (keys eqA X) (keys eqB Y) (joint_keys eqA eqB X Y) kX_ok kY_ok kXY_ok)).
  assert (Hi : 0 < / INR (length l)) by (apply Rinv_0_lt_compat; exact Hn).
  assert (Hle : Rsum (fun q => log2 (p (A * B) (eqAB A B eqA eqB) l q)) l
                <= Rsum (fun q => log2 (p A eqA (map fst l) (fst q))) l); [|nra].
  apply Rsum_le. intros q Hq.
  destruct (in_l_ranges A B eqA eqB l (keys eqA X) (keys eqB Y) (joint_keys eqA eqB X Y) kX_ok kY_ok kXY_ok q Hq)
    as (_ & _ & [Hxy _]).
  unfold log2, Rdiv. apply Rmult_le_compat_r; [apply Rlt_le, Rinv_0_lt_compat; exact L2|].
  apply ln_le_mono; [exact Hxy|]. unfold p. rewrite map_length. unfold Rdiv.
  apply Rmult_le_compat_r; [lra|]. apply le_INR. apply cnt_pair_le_fst.
Qed.
End Aligned.
End Two.

(* ---------- symmetry, and the information a sequence has about itself ---------- *)
Definition swap {A B} (q : A * B) : B * A := (snd q, fst q).
Lemma swap_inj {A B} (q r : A * B) : swap q = swap r -> q = r.
Proof. destruct q, r. unfold swap. cbn. congruence. Qed.
Lemma combine_swap {A B} (X : list A) (Y : list B) : combine Y X = map swap (combine X Y).
Proof. revert Y. induction X as [|x X IH]; intros [|y Y]; cbn; [reflexivity..|]. rewrite IH. reflexivity. Qed.

Definition dup {A} (x : A) : A * A := (x, x).
Lemma dup_inj {A} (x y : A) : dup x = dup y -> x = y.
Proof. unfold dup. congruence. Qed.
Lemma combine_dup {A} (X : list A) : combine X X = map dup X.
Proof. induction X as [|x X IH]; [reflexivity|]. cbn. rewrite IH. reflexivity. Qed.

Section Symmetry.
Context {A B : Type}.
Variable eqA : forall a b : A, {a = b} + {a <> b}.
Variable eqB : forall a b : B, {a = b} + {a <> b}.

Theorem joint_symm (X : list A) (Y : list B) : length X = length Y ->
  jointR eqA eqB X Y = jointR eqB eqA Y X.
Proof.
  intros Hlen. rewrite (jointR_H eqA eqB X Y Hlen), (jointR_H eqB eqA Y X (eq_sym Hlen)).
  pose proof (joint_keys_symbols_of eqA eqB X Y) as HkXY.
  pose proof (joint_keys_symbols_of eqB eqA Y X) as HkYX.
  rewrite (H_keys_irrel (pair_dec eqB eqA) (combine Y X) (joint_keys eqB eqA Y X) (map swap (joint_keys eqA eqB X Y)) HkYX).
  - rewrite (combine_swap X Y). symmetry. apply H_map_inj. exact swap_inj.
  - rewrite (combine_swap X Y). apply symbols_of_map; [exact swap_inj|exact HkXY].
Qed.

Theorem mi_symm (X : list A) (Y : list B) : length X = length Y -> miR eqA eqB X Y = miR eqB eqA Y X.
Proof.
  intros Hlen. rewrite (miR_unfold eqA eqB X Y Hlen), (miR_unfold eqB eqA Y X (eq_sym Hlen)), (joint_symm X Y Hlen). lra.
Qed.

(* H(X, Y) >= H(Y) *)
Theorem joint_ge_right (X : list A) (Y : list B) : X <> [] -> length X = length Y ->
  shannonR eqB Y <= jointR eqA eqB X Y.
Proof.
  intros Hne Hlen. rewrite (joint_symm X Y Hlen). apply joint_ge_left; [|symmetry; exact Hlen].
  destruct Y; [destruct X; [congruence|discriminate Hlen]|discriminate].
Qed.

Theorem joint_self (X : list A) : jointR eqA eqA X X = shannonR eqA X.
Proof.
  rewrite (jointR_H eqA eqA X X eq_refl), shannonR_H.
  pose proof (joint_keys_symbols_of eqA eqA X X) as HkXX.
  rewrite (H_keys_irrel (pair_dec eqA eqA) (combine X X) (joint_keys eqA eqA X X) (map dup (keys eqA X)) HkXX).
  - rewrite combine_dup. apply H_map_inj. exact dup_inj.
  - rewrite combine_dup. apply symbols_of_map; [exact dup_inj|apply keys_symbols_of].
Qed.

Theorem mi_self (X : list A) : miR eqA eqA X X = shannonR eqA X.
Proof. rewrite (miR_unfold eqA eqA X X eq_refl), joint_self. lra. Qed.
End Symmetry.

(* ---------- the per-cell series: str(x) is injective, so the symbols ARE the states ---------- *)
From Coq Require DecimalString DecimalZ DecimalPos Decimal.

Lemma to_int_proper z : Z.to_int z <> Decimal.Pos Decimal.Nil /\ Z.to_int z <> Decimal.Neg Decimal.Nil.
Proof.
  destruct z as [|q|q]; cbn [Z.to_int]; split; intros E; try discriminate E;
    injection E as E; exact (DecimalPos.Unsigned.to_uint_nonnil q E).
Qed.

Theorem py_str_inj z1 z2 : py_str z1 = py_str z2 -> z1 = z2.
Proof.
  unfold py_str. intros E. apply (f_equal DecimalString.NilZero.int_of_string) in E.
  destruct (to_int_proper z1) as [P1 N1], (to_int_proper z2) as [P2 N2].
  rewrite !DecimalString.NilZero.isi in E by assumption. injection E as E.
  apply (f_equal Z.of_int) in E. rewrite !DecimalZ.of_to in E. exact E.
Qed.

Section JointRename.
Context {A B : Type}.
Variable eqA : forall a b : A, {a = b} + {a <> b}.
Variable eqB : forall a b : B, {a = b} + {a <> b}.

Lemma joint_count_list_alt (X : list A) (Y : list B) :
  joint_count_list eqA eqB X Y
  = filter (fun c => negb (c =? 0)%nat) (map (fun q => count_occ (pair_dec eqA eqB) (combine X Y) q) (list_prod (keys eqA X) (keys eqB Y))).
Proof.
  unfold joint_count_list, joint_counts, joint_counts_all.
  induction (list_prod (keys eqA X) (keys eqB Y)) as [|q l IH]; [reflexivity|].
  cbn [map filter snd]. destruct (negb _); cbn [map snd]; rewrite IH; reflexivity.
Qed.
End JointRename.

Section JointRename2.
Context {A B C D : Type}.
Variable eqA : forall a b : A, {a = b} + {a <> b}.
Variable eqB : forall a b : B, {a = b} + {a <> b}.
Variable eqC : forall a b : C, {a = b} + {a <> b}.
Variable eqD : forall a b : D, {a = b} + {a <> b}.
Variables (f : A -> C) (g : B -> D).
Hypothesis f_inj : forall x y, f x = f y -> x = y.
Hypothesis g_inj : forall x y, g x = g y -> x = y.

Lemma joint_count_list_map_inj X Y :
  joint_count_list eqC eqD (map f X) (map g Y) = joint_count_list eqA eqB X Y.
Proof.
  rewrite (joint_count_list_alt eqC eqD), (joint_count_list_alt eqA eqB).
  rewrite (keys_map_inj eqA eqC f f_inj), (keys_map_inj eqB eqD g g_inj), list_prod_map2, combine_map2, map_map.
  f_equal. apply map_ext. intros q. symmetry.
  apply (count_occ_map (fun q => (f (fst q), g (snd q))) (pair_dec eqA eqB) (pair_dec eqC eqD)).
  intros [a b] [a' b'] E. cbn in E. injection E as E1 E2. apply f_inj in E1. apply g_inj in E2. congruence.
Qed.

Lemma mi_counts_map_inj X Y : mi_counts eqC eqD (map f X) (map g Y) = mi_counts eqA eqB X Y.
Proof.
  unfold mi_counts. rewrite (count_list_map_inj eqA eqC f f_inj), (count_list_map_inj eqB eqD g g_inj),
    joint_count_list_map_inj, map_length. reflexivity.
Qed.
End JointRename2.

Lemma pair_d_map {A B} (f : A -> B) d s : pair_d d (map f s) = (map f (fst (pair_d d s)), map f (snd (pair_d d s))).
Proof. unfold pair_d. cbn [fst snd]. rewrite map_length, firstn_map, skipn_map. reflexivity. Qed.

(* average_cell_entropy: per cell, the multiplicities of the STATES of that cell over time *)
Theorem ace_cells_states rows :
  ace_cells rows = map (fun i => (count_list Z.eq_dec (column 0%Z i rows), nrows rows)) (seq 0 (ncols rows)).
Proof.
  unfold ace_cells. apply map_ext. intros i. cbn zeta. unfold cell_series.
  rewrite (count_list_map_inj Z.eq_dec String.string_dec py_str py_str_inj), map_length.
  unfold column, nrows. rewrite map_length. reflexivity.
Qed.

(* average_mutual_information: accepted iff 0 < d < T; per cell, the counts of the states paired d steps apart *)
Theorem ami_cells_states rows d :
  ami_cells rows d =
  if ami_guard d (nrows rows) then
    Ok (map (fun i => let s := column 0%Z i rows in
                      mi_counts Z.eq_dec Z.eq_dec (firstn (nrows rows - Z.to_nat d) s) (skipn (Z.to_nat d) s))
            (seq 0 (ncols rows)))
  else Raise ValueError.
Proof.
  unfold ami_cells. destruct (ami_guard d (nrows rows)); [|reflexivity]. f_equal. apply map_ext. intros i.
  unfold cell_series. rewrite pair_d_map.
  rewrite (mi_counts_map_inj Z.eq_dec Z.eq_dec String.string_dec String.string_dec py_str py_str py_str_inj py_str_inj).
  unfold pair_d. cbn [fst snd]. unfold column at 1. rewrite map_length. reflexivity.
Qed.

Theorem ami_guard_spec d T : ami_guard d T = true <-> (0 < d < Z.of_nat T)%Z.
Proof. unfold ami_guard. rewrite andb_true_iff, !Z.ltb_lt. reflexivity. Qed.

Theorem ami_accepts_iff rows d :
  (exists cells, ami_cells rows d = Ok cells) <-> (0 < d < Z.of_nat (nrows rows))%Z.
Proof.
  rewrite <- ami_guard_spec. unfold ami_cells. destruct (ami_guard d (nrows rows)); split.
  - reflexivity.
  - intros _. eexists. reflexivity.
  - intros [cells E]. discriminate E.
  - discriminate.
Qed.

Theorem ami_rejects_ValueError rows d :
  ~ (0 < d < Z.of_nat (nrows rows))%Z -> ami_cells rows d = Raise ValueError /\ amiR rows d = Raise ValueError.
Proof.
  intros Hn. unfold amiR, ami_cells. destruct (ami_guard d (nrows rows)) eqn:G; [|split; reflexivity].
  exfalso. apply Hn. apply ami_guard_spec. exact G.
Qed.

(* the real-valued statements: means over cells of the measures applied to the columns of states *)
Theorem aceR_mean rows :
  aceR rows = meanR (map (fun i => shannonR Z.eq_dec (column 0%Z i rows)) (seq 0 (ncols rows))).
Proof.
  unfold aceR. rewrite ace_cells_states, map_map. f_equal. apply map_ext. intros i. cbn [fst snd].
  unfold shannonR, column, nrows. rewrite map_length. reflexivity.
Qed.

Theorem amiR_mean rows d : (0 < d < Z.of_nat (nrows rows))%Z ->
  amiR rows d = Ok (meanR (map (fun i => let s := column 0%Z i rows in
                     miR Z.eq_dec Z.eq_dec (firstn (nrows rows - Z.to_nat d) s) (skipn (Z.to_nat d) s)) (seq 0 (ncols rows)))).
Proof.
  intros Hd. unfold amiR. rewrite ami_cells_states. apply ami_guard_spec in Hd. rewrite Hd.
  rewrite map_map. reflexivity.
Qed.

(* a concrete non-trivial instance over the reals (used as non-vacuity witness): H("0011") = 1 bit *)
Lemma shannon_0011 :
  shannonR Z.eq_dec [0; 0; 1; 1]%Z = 1 /\ [0; 0; 1; 1]%Z <> [] /\ length (keys Z.eq_dec [0; 0; 1; 1]%Z) = 2%nat
  /\ miR Z.eq_dec Z.eq_dec [0; 0; 1; 1]%Z [0; 0; 1; 1]%Z = 1.
Proof.
  assert (E : shannonR Z.eq_dec [0; 0; 1; 1]%Z = 1).
  { unfold shannonR, HR, termR, log2. cbn. replace ((1 + 1) / (1 + 1 + 1 + 1)) with (/ 2) by lra.
    rewrite ln_Rinv by lra. pose proof ln2_pos. field. lra. }
  split; [exact E|]. split; [discriminate|]. split; [reflexivity|]. rewrite mi_self. exact E.
Qed.
