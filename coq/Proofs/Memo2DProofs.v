(* Proofs for C04 (2D memoisation is transparent) and the 2D half of C09.
   Part A  list / key helpers
   Part B  a simulation lemma for the outer loops of Model/Engine.v (fixed and callable timesteps)
   Part C  the unmemoised step with a pure rule is `tabulate (spec_cell ..)`
   Part D  memoize=True: memo2d_true_transparent
   Part E  _MemoizationCache: cache2d_sound
   Part F  memoize="recursive": the quad-tree engine writes exactly the plain next grid
           (lifted from notes/spikes/memo2d_recursive.v onto the literal model), memo2d_recursive_transparent
   Part G  dispatch2d_by_value, calls2d_independent
   Part H  C09 (2D): memo2d_true_once, memo2d_recursive_at_most_once *)
From Coq Require Import ZArith List Arith Lia Bool ZifyBool ZifyNat.
From CPL Require Import Model.Base Model.Rules Model.Engine Model.Evolve2D Model.Memo2D.
Import ListNotations.
Ltac Zify.zify_post_hook ::= Z.div_mod_to_equations.
Local Open Scope nat_scope.

(* ================================================================== Part A: helpers *)
Lemma zlist_eqb_spec (a b : list Z) : zlist_eqb a b = true <-> a = b.
Proof.
  unfold zlist_eqb. revert b; induction a as [|x a IH]; intros [|y b]; cbn [list_eqb]; split; intros H;
    try reflexivity; try discriminate.
  - apply andb_true_iff in H as [H1 H2]. apply Z.eqb_eq in H1. apply IH in H2. congruence.
  - injection H as -> ->. apply andb_true_iff. split; [apply Z.eqb_refl|apply IH; reflexivity].
Qed.

Lemma zgrid_eqb_spec (a b : grid) : zgrid_eqb a b = true <-> a = b.
Proof.
  unfold zgrid_eqb. revert b; induction a as [|x a IH]; intros [|y b]; cbn [list_eqb]; split; intros H;
    try reflexivity; try discriminate.
  - apply andb_true_iff in H as [H1 H2]. apply zlist_eqb_spec in H1. apply IH in H2. congruence.
  - injection H as -> ->. apply andb_true_iff. split; [apply zlist_eqb_spec; reflexivity|apply IH; reflexivity].
Qed.

Lemma zlist_eqb_refl a : zlist_eqb a a = true.
Proof. apply zlist_eqb_spec. reflexivity. Qed.

Lemma zlist_eqb_false (a b : list Z) : zlist_eqb a b = false <-> a <> b.
Proof.
  split.
  - intros H E. apply zlist_eqb_spec in E. congruence.
  - intros H. destruct (zlist_eqb a b) eqn:E; [|reflexivity]. apply zlist_eqb_spec in E. contradiction.
Qed.

Lemma skipn_map_seq {A} (g : nat -> A) i s L : skipn i (map g (seq s L)) = map g (seq (s + i) (L - i)).
Proof.
  revert s L; induction i as [|i IH]; intros s L.
  - rewrite Nat.add_0_r, Nat.sub_0_r. reflexivity.
  - destruct L as [|L]; [reflexivity|]. cbn [seq map skipn]. rewrite IH. f_equal. f_equal; lia.
Qed.
Lemma firstn_map_seq {A} (g : nat -> A) w s L : w <= L -> firstn w (map g (seq s L)) = map g (seq s w).
Proof.
  revert s L; induction w as [|w IH]; intros s L H; [reflexivity|].
  destruct L as [|L]; [lia|]. cbn [seq map firstn]. f_equal. apply IH. lia.
Qed.
Lemma map_seq_shift {A} (g : nat -> A) s w : map g (seq s w) = map (fun j => g (s + j)) (seq 0 w).
Proof.
  revert g s; induction w as [|w IH]; intros g s; [reflexivity|].
  cbn [seq map]. rewrite Nat.add_0_r. f_equal.
  rewrite (IH g (S s)), (IH (fun j => g (s + j)) 1). apply map_ext. intros j. f_equal. lia.
Qed.
Lemma nth_map_seq0 {A} (g : nat -> A) n c dd : c < n -> nth c (map g (seq 0 n)) dd = g c.
Proof.
  intros H. rewrite (nth_indep _ dd (g 0)) by (rewrite map_length, seq_length; exact H).
  rewrite map_nth, seq_nth by exact H. reflexivity.
Qed.

Lemma app_eq_length {A} : forall (x y a b : list A), length x = length y -> x ++ a = y ++ b -> x = y /\ a = b.
Proof.
  induction x as [|u x IH]; intros [|v y] a b Hl H; try discriminate.
  - split; [reflexivity|exact H].
  - cbn [app] in H. injection H as -> H. cbn [length] in Hl. injection Hl as Hl.
    destruct (IH y a b Hl H) as [-> ->]. split; reflexivity.
Qed.

(* a rectangular array is determined by its flat contents and its row width *)
Lemma concat_inj_rect {A} (w : nat) : forall (a b : list (list A)),
  Forall (fun row => length row = w) a -> Forall (fun row => length row = w) b ->
  length a = length b -> concat a = concat b -> a = b.
Proof.
  induction a as [|x a IH]; intros [|y b] Ha Hb Hl Hc; try reflexivity; try discriminate.
  inversion Ha as [|x' a' Hx Ha']; subst x' a'. inversion Hb as [|y' b' Hy Hb']; subst y' b'.
  cbn [concat] in Hc. cbn [length] in Hl. injection Hl as Hl.
  destruct (app_eq_length x y (concat a) (concat b)) as [-> Hc']; [congruence|exact Hc|].
  f_equal. apply IH; assumption.
Qed.

(* ---- the masked key: MaskedArray.tobytes() determines the unmasked entries *)
Lemma um_row_mk : forall (vs : list Z) (ms : list bool),
  concat (map (fun vm : Z * bool => if snd vm then [] else [fst vm])
              (combine (map (fun vm : Z * bool => if snd vm then 0%Z else fst vm) (combine vs ms)) ms))
  = concat (map (fun vm : Z * bool => if snd vm then [] else [fst vm]) (combine vs ms)).
Proof.
  induction vs as [|v vs IH]; intros [|m ms]; try reflexivity.
  cbn [combine map concat fst snd]. rewrite IH. destruct m; reflexivity.
Qed.

Lemma unmasked_masked_key : forall V M,
  unmasked {| nb_vals := masked_key {| nb_vals := V; nb_mask := M |}; nb_mask := M |}
  = unmasked {| nb_vals := V; nb_mask := M |}.
Proof.
  unfold unmasked, masked_key. cbn [nb_vals nb_mask].
  induction V as [|v V IH]; intros [|m M]; try reflexivity.
  cbn [combine map concat fst snd]. rewrite IH, um_row_mk. reflexivity.
Qed.

Lemma masked_key_unmasked n n' :
  nb_mask n = nb_mask n' -> masked_key n = masked_key n' -> unmasked n = unmasked n'.
Proof.
  destruct n as [V M], n' as [V' M']. cbn [nb_mask]. intros <- H.
  rewrite <- (unmasked_masked_key V M), <- (unmasked_masked_key V' M), H. reflexivity.
Qed.

(* neighbourhoods of one call: a (2r+1) x (2r+1) block with the mask of the neighbourhood type *)
Definition rect (h w : nat) {A} (a : list (list A)) : Prop :=
  length a = h /\ Forall (fun row => length row = w) a.
Definition nb_good (r : nat) (ty : nbhd_type) (n : nbhd2) : Prop :=
  nb_mask n = mask_for ty r /\ rect (2 * r + 1) (2 * r + 1) (nb_vals n).

Lemma mask_for_rect ty r : rect (2 * r + 1) (2 * r + 1) (mask_for ty r).
Proof.
  destruct ty; cbn [mask_for]; split.
  - apply repeat_length.
  - apply Forall_forall. intros row Hin. apply repeat_spec in Hin. subst row. apply repeat_length.
  - unfold vn_mask. rewrite map_length, seq_length. reflexivity.
  - apply Forall_forall. intros row Hin. unfold vn_mask in Hin. apply in_map_iff in Hin as [i [<- _]].
    unfold vn_mask_row. rewrite map_length, seq_length. reflexivity.
Qed.

Lemma ix_gather_rect g ris cis : rect (length ris) (length cis) (ix_gather g ris cis).
Proof.
  unfold ix_gather. split; [apply map_length|].
  apply Forall_forall. intros row Hin. apply in_map_iff in Hin as [i [<- _]]. apply map_length.
Qed.

Lemma get_neighbourhood_good g R C r row col ty : nb_good r ty (get_neighbourhood g R C r row col ty).
Proof.
  split; [destruct ty; reflexivity|]. cbn [get_neighbourhood nb_vals].
  pose proof (ix_gather_rect g (axis_indices R row r) (axis_indices C col r)) as H.
  unfold axis_indices in H at 1 2. rewrite !map_length, !seq_length in H. exact H.
Qed.

Lemma masked_key_rect r ty n : nb_good r ty n -> rect (2 * r + 1) (2 * r + 1) (masked_key n).
Proof.
  intros [Hm [Hl Hf]]. destruct (mask_for_rect ty r) as [Ml Mf]. rewrite <- Hm in Ml, Mf.
  unfold masked_key. split.
  - rewrite map_length, combine_length, Hl, Ml. apply Nat.min_id.
  - apply Forall_forall. intros row Hin. apply in_map_iff in Hin as [[v m] [<- Hin]].
    cbn [fst snd]. rewrite map_length, combine_length.
    rewrite Forall_forall in Hf, Mf.
    rewrite (Hf v (in_combine_l _ _ _ _ Hin)), (Mf m (in_combine_r _ _ _ _ Hin)). apply Nat.min_id.
Qed.

(* within one call (one r, one neighbourhood type) equal flat keys mean equal unmasked contents:
   this is why the shape-blind dict of memoize=True cannot confuse two neighbourhoods *)
Lemma memo_key_unmasked r ty n n' :
  nb_good r ty n -> nb_good r ty n' -> memo_key n = memo_key n' ->
  nb_mask n = nb_mask n' /\ unmasked n = unmasked n'.
Proof.
  intros Hn Hn' Hk.
  assert (Hm : nb_mask n = nb_mask n') by (destruct Hn as [-> _], Hn' as [-> _]; reflexivity).
  split; [exact Hm|]. apply masked_key_unmasked; [exact Hm|].
  destruct (masked_key_rect r ty n Hn) as [L1 F1]. destruct (masked_key_rect r ty n' Hn') as [L2 F2].
  apply (concat_inj_rect (2 * r + 1)); try assumption. congruence.
Qed.

(* ================================================================== Part B: simulation of the outer loops *)
Definition res_snd {A B} (r : res (A * B)) : res B :=
  match r with Ok (_, b) => Ok b | Raise e => Raise e end.
Definition dyn_proj {P X C} (o : option (P * X * list C * list (list C * nat))) : option (list C * list (list C * nat)) :=
  match o with Some (_, _, a, plog) => Some (a, plog) | None => None end.

Section Sim.
  Variables (X1 X2 P C : Type).
  Variable dflt : C.
  Variable step1 : X1 -> C -> nat -> X1 * C.
  Variable step2 : X2 -> C -> nat -> X2 * C.
  Variable pred : P -> list C -> nat -> P * bool.
  Variable Rel : X1 -> X2 -> Prop.
  Variable Good : C -> Prop.
  Hypothesis Hstep : forall x1 x2 c t, Rel x1 x2 -> Good c ->
    Rel (fst (step1 x1 c t)) (fst (step2 x2 c t)) /\
    snd (step1 x1 c t) = snd (step2 x2 c t) /\ Good (snd (step2 x2 c t)).

  Lemma iter_steps_sim : forall n x1 x2 cur t, Rel x1 x2 -> Good cur ->
    Rel (fst (iter_steps step1 n x1 cur t)) (fst (iter_steps step2 n x2 cur t)) /\
    snd (iter_steps step1 n x1 cur t) = snd (iter_steps step2 n x2 cur t).
  Proof.
    induction n as [|n IH]; intros x1 x2 cur t HR HG; [split; [exact HR|reflexivity]|].
    cbn [iter_steps]. destruct (Hstep x1 x2 cur t HR HG) as (H1 & H2 & H3).
    destruct (step1 x1 cur t) as [y1 n1]. destruct (step2 x2 cur t) as [y2 n2].
    cbn [fst snd] in *. subst n2.
    destruct (IH y1 y2 n1 (S t) H1 H3) as [I1 I2].
    destruct (iter_steps step1 n y1 n1 (S t)) as [z1 r1]. destruct (iter_steps step2 n y2 n1 (S t)) as [z2 r2].
    cbn [fst snd] in *. subst r2. split; [exact I1|reflexivity].
  Qed.

  Lemma evolve_fixed_sim : forall x1 x2 hist T, Rel x1 x2 -> Good (last hist dflt) ->
    match evolve_fixed dflt step1 x1 hist T, evolve_fixed dflt step2 x2 hist T with
    | Ok (y1, o1), Ok (y2, o2) => Rel y1 y2 /\ o1 = o2
    | Raise e1, Raise e2 => e1 = e2
    | _, _ => False
    end.
  Proof.
    intros x1 x2 hist T HR HG. destruct T as [|k]; [reflexivity|]. cbn [evolve_fixed].
    destruct (iter_steps_sim k x1 x2 (last hist dflt) 1 HR HG) as [I1 I2].
    destruct (iter_steps step1 k x1 (last hist dflt) 1) as [z1 r1].
    destruct (iter_steps step2 k x2 (last hist dflt) 1) as [z2 r2].
    cbn [fst snd] in *. subst r2. split; [exact I1|reflexivity].
  Qed.

  Lemma dynamic_loop_sim : forall fuel p x1 x2 states t plog, Rel x1 x2 -> Good (last states dflt) ->
    match dynamic_loop dflt step1 pred fuel p x1 states t plog,
          dynamic_loop dflt step2 pred fuel p x2 states t plog with
    | Some (p1, y1, s1, l1), Some (p2, y2, s2, l2) => p1 = p2 /\ Rel y1 y2 /\ s1 = s2 /\ l1 = l2
    | None, None => True
    | _, _ => False
    end.
  Proof.
    induction fuel as [|f IH]; intros p x1 x2 states t plog HR HG; [exact I|].
    cbn [dynamic_loop]. destruct (pred p states t) as [p1 go]. destruct go.
    - destruct (Hstep x1 x2 (last states dflt) t HR HG) as (H1 & H2 & H3).
      destruct (step1 x1 (last states dflt) t) as [y1 n1]. destruct (step2 x2 (last states dflt) t) as [y2 n2].
      cbn [fst snd] in *. subst n2. apply IH; [exact H1|]. rewrite last_last. exact H3.
    - split; [reflexivity|]. split; [exact HR|]. split; reflexivity.
  Qed.

  Lemma evolve_dynamic_sim : forall fuel p x1 x2 hist, Rel x1 x2 -> Good (last hist dflt) ->
    match evolve_dynamic dflt step1 pred fuel p x1 hist, evolve_dynamic dflt step2 pred fuel p x2 hist with
    | Some (p1, y1, s1, l1), Some (p2, y2, s2, l2) => p1 = p2 /\ Rel y1 y2 /\ s1 = s2 /\ l1 = l2
    | None, None => True
    | _, _ => False
    end.
  Proof.
    intros fuel p x1 x2 hist HR HG. unfold evolve_dynamic.
    pose proof (dynamic_loop_sim fuel p x1 x2 [last hist dflt] 1 [] HR HG) as H.
    destruct (dynamic_loop dflt step1 pred fuel p x1 [last hist dflt] 1 []) as [[[[p1 y1] s1] l1]|];
      destruct (dynamic_loop dflt step2 pred fuel p x2 [last hist dflt] 1 []) as [[[[p2 y2] s2] l2]|];
      try exact H.
    destruct H as (-> & H2 & -> & ->). split; [reflexivity|]. split; [exact H2|]. split; reflexivity.
  Qed.

  Lemma evolve_fixed_sim_arr : forall x1 x2 hist T, Rel x1 x2 -> Good (last hist dflt) ->
    res_snd (evolve_fixed dflt step1 x1 hist T) = res_snd (evolve_fixed dflt step2 x2 hist T).
  Proof.
    intros x1 x2 hist T HR HG. pose proof (evolve_fixed_sim x1 x2 hist T HR HG) as H.
    destruct (evolve_fixed dflt step1 x1 hist T) as [[y1 o1]|e1];
      destruct (evolve_fixed dflt step2 x2 hist T) as [[y2 o2]|e2]; try contradiction; cbn [res_snd].
    - destruct H as [_ ->]. reflexivity.
    - subst e2. reflexivity.
  Qed.

  Lemma evolve_dynamic_sim_arr : forall fuel p x1 x2 hist, Rel x1 x2 -> Good (last hist dflt) ->
    dyn_proj (evolve_dynamic dflt step1 pred fuel p x1 hist) = dyn_proj (evolve_dynamic dflt step2 pred fuel p x2 hist).
  Proof.
    intros fuel p x1 x2 hist HR HG. pose proof (evolve_dynamic_sim fuel p x1 x2 hist HR HG) as H.
    destruct (evolve_dynamic dflt step1 pred fuel p x1 hist) as [[[[p1 y1] s1] l1]|];
      destruct (evolve_dynamic dflt step2 pred fuel p x2 hist) as [[[[p2 y2] s2] l2]|]; try contradiction;
      cbn [dyn_proj]; [|reflexivity].
    destruct H as (_ & _ & -> & ->). reflexivity.
  Qed.
End Sim.

Lemma arr2_of_bind {X St} (E : res (X * list grid)) (h : X -> St) :
  arr2_of (bind E (fun xo => Ok (h (fst xo), snd xo))) = res_snd E.
Proof. destruct E as [[x o]|e]; reflexivity. Qed.
Lemma arr2_of_res_snd {St} (E : res (St * list grid)) : arr2_of E = res_snd E.
Proof. destruct E as [[x o]|e]; reflexivity. Qed.
Lemma dyn_arr2_of_proj {P St} (E : option (P * St * list grid * list (list grid * nat))) :
  dyn_arr2_of E = dyn_proj E.
Proof. destruct E as [[[[p x] o] l]|]; reflexivity. Qed.
Lemma dyn_arr2_of_map {P X St} (E : option (P * X * list grid * list (list grid * nat))) (h : X -> St) :
  dyn_arr2_of (match E with Some (p, x, out, plog) => Some (p, h x, out, plog) | None => None end) = dyn_proj E.
Proof. destruct E as [[[[p x] o] l]|]; reflexivity. Qed.

(* ================================================================== Part C: the unmemoised step *)
(* what every mode must write into cell (i, j): the rule on the cell's neighbourhood in the PREVIOUS grid *)
Definition spec_cell (f : nbhd2 -> Z) (store : Z -> Z) (g : grid) (R C r : nat) (ty : nbhd_type) (i j : nat) : Z :=
  store (f (get_neighbourhood g R C r i j ty)).

Lemma wf_grid2_rows R C g : wf_grid2 R C g -> grid_rows g = R.
Proof. intros [H _]. exact H. Qed.
Lemma wf_grid2_cols R C g : 1 <= R -> wf_grid2 R C g -> grid_cols g = C.
Proof.
  intros HR [Hl Hf]. unfold grid_cols. destruct g as [|x g]; cbn [length] in Hl; [lia|].
  inversion Hf; assumption.
Qed.
Lemma tabulate_wf R C h : wf_grid2 R C (tabulate R C h).
Proof.
  unfold tabulate. split; [rewrite map_length, seq_length; reflexivity|].
  apply Forall_forall. intros row Hin. apply in_map_iff in Hin as [i [<- _]].
  rewrite map_length, seq_length. reflexivity.
Qed.
Lemma tabulate_ext R C h h' : (forall i j, i < R -> j < C -> h i j = h' i j) -> tabulate R C h = tabulate R C h'.
Proof.
  intros H. unfold tabulate. apply map_ext_in. intros i Hi. apply in_seq in Hi.
  apply map_ext_in. intros j Hj. apply in_seq in Hj. apply H; lia.
Qed.

Section PlainStep.
  Variable St : Type.
  Variable rule : rule2 St.
  Variable store : Z -> Z.
  Variable f : nbhd2 -> Z.
  Variable I : St -> Prop.
  Variables (g : grid) (R C r : nat) (ty : nbhd_type) (t : nat).
  (* on the neighbourhoods of this grid the rule answers f and keeps the state invariant *)
  Hypothesis Hrule : forall s row col, I s ->
    I (fst (rule s (get_neighbourhood g R C r row col ty) (row, col) t)) /\
    snd (rule s (get_neighbourhood g R C r row col ty) (row, col) t) = f (get_neighbourhood g R C r row col ty).

  Lemma apply_cols_inv row : forall cols s, I s ->
    I (fst (apply_cols rule store s g R C r ty row cols t)) /\
    snd (apply_cols rule store s g R C r ty row cols t) = map (spec_cell f store g R C r ty row) cols.
  Proof.
    induction cols as [|col cols IH]; intros s Hs; [split; [exact Hs|reflexivity]|].
    cbn [apply_cols map]. destruct (Hrule s row col Hs) as [H1 H2].
    destruct (rule s (get_neighbourhood g R C r row col ty) (row, col) t) as [s1 v]. cbn [fst snd] in H1, H2.
    destruct (IH s1 H1) as [J1 J2].
    destruct (apply_cols rule store s1 g R C r ty row cols t) as [s2 vs]. cbn [fst snd] in *.
    split; [exact J1|]. unfold spec_cell at 1. rewrite H2, J2. reflexivity.
  Qed.

  Lemma apply_rows_inv : forall rows s, I s ->
    I (fst (apply_rows rule store s g R C r ty rows t)) /\
    snd (apply_rows rule store s g R C r ty rows t)
    = map (fun row => map (spec_cell f store g R C r ty row) (seq 0 C)) rows.
  Proof.
    induction rows as [|row rows IH]; intros s Hs; [split; [exact Hs|reflexivity]|].
    cbn [apply_rows map]. destruct (apply_cols_inv row (seq 0 C) s Hs) as [H1 H2].
    destruct (apply_cols rule store s g R C r ty row (seq 0 C) t) as [s1 vs]. cbn [fst snd] in H1, H2.
    destruct (IH s1 H1) as [J1 J2].
    destruct (apply_rows rule store s1 g R C r ty rows t) as [s2 rest]. cbn [fst snd] in *.
    split; [exact J1|]. rewrite H2, J2. reflexivity.
  Qed.

  Hypothesis HgR : grid_rows g = R.
  Hypothesis HgC : grid_cols g = C.

  Lemma step_plain2d_inv : forall s, I s ->
    I (fst (step_plain2d rule store r ty s g t)) /\
    snd (step_plain2d rule store r ty s g t) = tabulate R C (spec_cell f store g R C r ty).
  Proof.
    intros s Hs. unfold step_plain2d. rewrite HgR, HgC. exact (apply_rows_inv (seq 0 R) s Hs).
  Qed.
End PlainStep.

(* the property's hypothesis on the rule: its result depends on the neighbourhood only, and for a
   masked neighbourhood only on the unmasked entries *)
Definition reads_unmasked_only (f : nbhd2 -> Z) : Prop :=
  forall n n', nb_mask n = nb_mask n' -> unmasked n = unmasked n' -> f n = f n'.
(* a callable whose results are those of the pure function f (its state, e.g. a call log, is free) *)
Definition answers {St} (rule : rule2 St) (f : nbhd2 -> Z) : Prop :=
  forall s n c t, snd (rule s n c t) = f n.

Lemma answers_pure f : answers (pure_rule2 f) f.
Proof. intros s n c t. reflexivity. Qed.
Lemma answers_logged {St} (rule : rule2 St) f : answers rule f -> answers (logged2 rule) f.
Proof.
  intros H [s lg] n c t. unfold logged2. specialize (H s n c t).
  destruct (rule s n c t) as [s' v]. exact H.
Qed.

Lemma plain_step_spec {St} (rule : rule2 St) store f R C r ty g t s :
  answers rule f -> 1 <= R -> wf_grid2 R C g ->
  snd (step_plain2d rule store r ty s g t) = tabulate R C (spec_cell f store g R C r ty).
Proof.
  intros Hf HR Hwf.
  apply (step_plain2d_inv St rule store f (fun _ => True) g R C r ty t); try exact I.
  - intros s0 row col _. split; [exact I|apply Hf].
  - apply (wf_grid2_rows R C g Hwf).
  - apply (wf_grid2_cols R C g HR Hwf).
Qed.

(* ================================================================== Part D: memoize=True *)
Section MemoTrue.
  Variable St : Type.
  Variable rule : rule2 St.
  Variable store : Z -> Z.
  Variable f : nbhd2 -> Z.
  Hypothesis Hf : answers rule f.
  Hypothesis Hum : reads_unmasked_only f.
  Variables (r : nat) (ty : nbhd_type).

  (* every entry of the table holds the rule's value for every neighbourhood of this call with that key *)
  Definition MInv (m : memo_table) : Prop :=
    forall k v, In (k, v) m -> forall n, nb_good r ty n -> memo_key n = k -> v = f n.

  Lemma memo_lookup_in k m v : memo_lookup k m = Some v -> In (k, v) m.
  Proof.
    induction m as [|[k' v'] m IH]; cbn [memo_lookup]; [discriminate|].
    destruct (zlist_eqb k k') eqn:E.
    - intros [= <-]. apply zlist_eqb_spec in E. subst k'. left. reflexivity.
    - intros H. right. apply IH. exact H.
  Qed.
  Lemma memo_lookup_none k m : memo_lookup k m = None -> forall v, ~ In (k, v) m.
  Proof.
    induction m as [|[k' v'] m IH]; cbn [memo_lookup]; intros H v Hin; [exact Hin|].
    destruct (zlist_eqb k k') eqn:E; [discriminate|].
    destruct Hin as [Hin|Hin]; [|exact (IH H v Hin)].
    injection Hin as -> _. rewrite zlist_eqb_refl in E. discriminate.
  Qed.

  Lemma get_memoized2_ok s m n c t : MInv m -> nb_good r ty n ->
    MInv (snd (fst (get_memoized2 rule (s, m) n c t))) /\ snd (get_memoized2 rule (s, m) n c t) = f n.
  Proof.
    intros HI Hn. unfold get_memoized2.
    destruct (memo_lookup (memo_key n) m) as [v|] eqn:E.
    - cbn [fst snd]. split; [exact HI|]. apply memo_lookup_in in E. exact (HI _ _ E n Hn eq_refl).
    - pose proof (Hf s n c t) as Hv. destruct (rule s n c t) as [s1 v]. cbn [fst snd] in *. subst v.
      split; [|reflexivity].
      intros k v [Hin|Hin] n' Hn' Hk; [|exact (HI _ _ Hin n' Hn' Hk)].
      injection Hin as <- <-.
      destruct (memo_key_unmasked r ty n' n Hn' Hn Hk) as [Hm Hu]. symmetry. apply Hum; assumption.
  Qed.

  Lemma memo_step_spec R C g t s m : MInv m -> 1 <= R -> wf_grid2 R C g ->
    MInv (snd (fst (step_memo2d rule store r ty (s, m) g t))) /\
    snd (step_memo2d rule store r ty (s, m) g t) = tabulate R C (spec_cell f store g R C r ty).
  Proof.
    intros HI HR Hwf. unfold step_memo2d.
    apply (step_plain2d_inv (St * memo_table) (get_memoized2 rule) store f (fun x => MInv (snd x)) g R C r ty t).
    - intros [s0 m0] row col H0. cbn [snd] in H0.
      apply get_memoized2_ok; [exact H0|apply get_neighbourhood_good].
    - apply (wf_grid2_rows R C g Hwf).
    - apply (wf_grid2_cols R C g HR Hwf).
    - exact HI.
  Qed.

  Lemma memo_sim_step R C : 1 <= R -> forall (x1 : St * memo_table) (x2 : St) c t,
    MInv (snd x1) -> wf_grid2 R C c ->
    MInv (snd (fst (step_memo2d rule store r ty x1 c t))) /\
    snd (step_memo2d rule store r ty x1 c t) = snd (step_plain2d rule store r ty x2 c t) /\
    wf_grid2 R C (snd (step_plain2d rule store r ty x2 c t)).
  Proof.
    intros HR [s m] x2 c t HI Hwf. cbn [snd] in HI.
    destruct (memo_step_spec R C c t s m HI HR Hwf) as [H1 H2].
    rewrite (plain_step_spec rule store f R C r ty c t x2 Hf HR Hwf).
    split; [exact H1|]. split; [exact H2|apply tabulate_wf].
  Qed.

  Lemma MInv_nil : MInv [].
  Proof. intros k v []. Qed.

  Theorem memo2d_true_fixed R C hist T s0 : 1 <= R -> 1 <= C -> r <= Nat.min R C ->
    wf_grid2 R C (last hist []) ->
    arr2_of (evolve2d_mode_fixed rule store Memo r ty s0 hist T)
    = arr2_of (evolve2d_mode_fixed rule store Plain r ty s0 hist T).
  Proof.
    intros HR HC Hr Hwf. cbn [evolve2d_mode_fixed]. unfold evolve2d_plain.
    rewrite (arr2_of_bind _ (@fst St memo_table)), arr2_of_res_snd.
    exact (evolve_fixed_sim_arr (St * memo_table) St grid [] (step_memo2d rule store r ty)
             (step_plain2d rule store r ty) (fun x1 _ => MInv (snd x1)) (wf_grid2 R C)
             (memo_sim_step R C HR) (s0, []) s0 hist T MInv_nil Hwf).
  Qed.

  Theorem memo2d_true_dynamic {P} (pred : P -> list grid -> nat -> P * bool) R C hist fuel p0 s0 :
    1 <= R -> 1 <= C -> r <= Nat.min R C -> wf_grid2 R C (last hist []) ->
    dyn_arr2_of (evolve2d_mode_dynamic rule store pred Memo r ty fuel p0 s0 hist)
    = dyn_arr2_of (evolve2d_mode_dynamic rule store pred Plain r ty fuel p0 s0 hist).
  Proof.
    intros HR HC Hr Hwf. cbn [evolve2d_mode_dynamic]. unfold evolve2d_plain_dynamic.
    rewrite (dyn_arr2_of_map _ (@fst St memo_table)), dyn_arr2_of_proj.
    exact (evolve_dynamic_sim_arr (St * memo_table) St P grid [] (step_memo2d rule store r ty)
             (step_plain2d rule store r ty) pred (fun x1 _ => MInv (snd x1)) (wf_grid2 R C)
             (memo_sim_step R C HR) fuel p0 (s0, []) s0 hist MInv_nil Hwf).
  Qed.
End MemoTrue.

(* ---- Part D': the same theorem under the hypothesis restricted to the neighbourhoods the engine builds.
   Real rules (Game of Life, sandpile) read n[r][r] from the data and are mask-respecting only on well-formed
   neighbourhoods; the hypothesis below asks nothing about ragged blocks or blocks with a foreign mask. *)
(* a neighbourhood that _get_neighbourhood returns for some cell of some well-shaped R x C grid: its values are the
   torus block of the cell (Proofs/Evolve2DProofs.v: get_neighbourhood_spec), its mask is the mask of (ty, r) *)
Definition built (R C r : nat) (ty : nbhd_type) (n : nbhd2) : Prop :=
  exists g row col, wf_grid2 R C g /\ row < R /\ col < C /\ n = get_neighbourhood g R C r row col ty.

Lemma built_good R C r ty n : built R C r ty n -> nb_good r ty n.
Proof. intros (g & row & col & _ & _ & _ & ->). apply get_neighbourhood_good. Qed.

(* step_plain2d_inv with the hypothesis on the rule restricted to the cells of the grid *)
Section PlainStepIn.
  Variable St : Type.
  Variable rule : rule2 St.
  Variable store : Z -> Z.
  Variable f : nbhd2 -> Z.
  Variable I : St -> Prop.
  Variables (g : grid) (R C r : nat) (ty : nbhd_type) (t : nat).
  Hypothesis Hrule : forall s row col, row < R -> col < C -> I s ->
    I (fst (rule s (get_neighbourhood g R C r row col ty) (row, col) t)) /\
    snd (rule s (get_neighbourhood g R C r row col ty) (row, col) t) = f (get_neighbourhood g R C r row col ty).

  Lemma apply_cols_inv_in row : row < R -> forall cols s, Forall (fun c => c < C) cols -> I s ->
    I (fst (apply_cols rule store s g R C r ty row cols t)) /\
    snd (apply_cols rule store s g R C r ty row cols t) = map (spec_cell f store g R C r ty row) cols.
  Proof.
    intros Hrow. induction cols as [|col cols IH]; intros s Hc Hs; [split; [exact Hs|reflexivity]|].
    inversion Hc as [|c' l' Hcol Hc']; subst c' l'.
    cbn [apply_cols map]. destruct (Hrule s row col Hrow Hcol Hs) as [H1 H2].
    destruct (rule s (get_neighbourhood g R C r row col ty) (row, col) t) as [s1 v]. cbn [fst snd] in H1, H2.
    destruct (IH s1 Hc' H1) as [J1 J2].
    destruct (apply_cols rule store s1 g R C r ty row cols t) as [s2 vs]. cbn [fst snd] in *.
    split; [exact J1|]. unfold spec_cell at 1. rewrite H2, J2. reflexivity.
  Qed.

  Lemma seq_lt_all n : Forall (fun c => c < n) (seq 0 n).
  Proof. apply Forall_forall. intros x Hx. apply in_seq in Hx. lia. Qed.

  Lemma apply_rows_inv_in : forall rows s, Forall (fun x => x < R) rows -> I s ->
    I (fst (apply_rows rule store s g R C r ty rows t)) /\
    snd (apply_rows rule store s g R C r ty rows t)
    = map (fun row => map (spec_cell f store g R C r ty row) (seq 0 C)) rows.
  Proof.
    induction rows as [|row rows IH]; intros s Hr Hs; [split; [exact Hs|reflexivity]|].
    inversion Hr as [|c' l' Hrow Hr']; subst c' l'.
    cbn [apply_rows map]. destruct (apply_cols_inv_in row Hrow (seq 0 C) s (seq_lt_all C) Hs) as [H1 H2].
    destruct (apply_cols rule store s g R C r ty row (seq 0 C) t) as [s1 vs]. cbn [fst snd] in H1, H2.
    destruct (IH s1 Hr' H1) as [J1 J2].
    destruct (apply_rows rule store s1 g R C r ty rows t) as [s2 rest]. cbn [fst snd] in *.
    split; [exact J1|]. rewrite H2, J2. reflexivity.
  Qed.

  Hypothesis HgR : grid_rows g = R.
  Hypothesis HgC : grid_cols g = C.

  Lemma step_plain2d_inv_in : forall s, I s ->
    I (fst (step_plain2d rule store r ty s g t)) /\
    snd (step_plain2d rule store r ty s g t) = tabulate R C (spec_cell f store g R C r ty).
  Proof.
    intros s Hs. unfold step_plain2d. rewrite HgR, HgC. exact (apply_rows_inv_in (seq 0 R) s (seq_lt_all R) Hs).
  Qed.
End PlainStepIn.

Section MemoTrueBuilt.
  Variable St : Type.
  Variable rule : rule2 St.
  Variable store : Z -> Z.
  Variable f : nbhd2 -> Z.
  Variables (r : nat) (ty : nbhd_type) (R C : nat).
  Hypothesis Hf : answers rule f.
  (* f reads only the unmasked entries OF THE NEIGHBOURHOODS THE ENGINE BUILDS for R x C grids *)
  Hypothesis Hum : forall n n', built R C r ty n -> built R C r ty n' ->
    nb_mask n = nb_mask n' -> unmasked n = unmasked n' -> f n = f n'.

  Definition MInvB (m : memo_table) : Prop :=
    forall k v, In (k, v) m -> forall n, built R C r ty n -> memo_key n = k -> v = f n.

  Lemma get_memoized2_ok_built s m n c t : MInvB m -> built R C r ty n ->
    MInvB (snd (fst (get_memoized2 rule (s, m) n c t))) /\ snd (get_memoized2 rule (s, m) n c t) = f n.
  Proof.
    intros HI Hn. unfold get_memoized2.
    destruct (memo_lookup (memo_key n) m) as [v|] eqn:E.
    - cbn [fst snd]. split; [exact HI|]. apply memo_lookup_in in E. exact (HI _ _ E n Hn eq_refl).
    - pose proof (Hf s n c t) as Hv. destruct (rule s n c t) as [s1 v]. cbn [fst snd] in *. subst v.
      split; [|reflexivity].
      intros k v [Hin|Hin] n' Hn' Hk; [|exact (HI _ _ Hin n' Hn' Hk)].
      injection Hin as <- <-.
      destruct (memo_key_unmasked r ty n' n (built_good _ _ _ _ _ Hn') (built_good _ _ _ _ _ Hn) Hk) as [Hm Hu].
      symmetry. apply Hum; assumption.
  Qed.

  Lemma memo_step_spec_built g t s m : MInvB m -> 1 <= R -> wf_grid2 R C g ->
    MInvB (snd (fst (step_memo2d rule store r ty (s, m) g t))) /\
    snd (step_memo2d rule store r ty (s, m) g t) = tabulate R C (spec_cell f store g R C r ty).
  Proof.
    intros HI HR Hwf. unfold step_memo2d.
    apply (step_plain2d_inv_in (St * memo_table) (get_memoized2 rule) store f (fun x => MInvB (snd x)) g R C r ty t).
    - intros [s0 m0] row col Hrow Hcol H0. cbn [snd] in H0.
      apply get_memoized2_ok_built; [exact H0|]. exists g, row, col. split; [exact Hwf|]. split; [exact Hrow|]. split; [exact Hcol|reflexivity].
    - apply (wf_grid2_rows R C g Hwf).
    - apply (wf_grid2_cols R C g HR Hwf).
    - exact HI.
  Qed.

  Lemma memo_sim_step_built : 1 <= R -> forall (x1 : St * memo_table) (x2 : St) c t,
    MInvB (snd x1) -> wf_grid2 R C c ->
    MInvB (snd (fst (step_memo2d rule store r ty x1 c t))) /\
    snd (step_memo2d rule store r ty x1 c t) = snd (step_plain2d rule store r ty x2 c t) /\
    wf_grid2 R C (snd (step_plain2d rule store r ty x2 c t)).
  Proof.
    intros HR [s m] x2 c t HI Hwf. cbn [snd] in HI.
    destruct (memo_step_spec_built c t s m HI HR Hwf) as [H1 H2].
    rewrite (plain_step_spec rule store f R C r ty c t x2 Hf HR Hwf).
    split; [exact H1|]. split; [exact H2|apply tabulate_wf].
  Qed.

  Lemma MInvB_nil : MInvB [].
  Proof. intros k v []. Qed.

  Theorem memo2d_true_fixed_built hist T s0 : 1 <= R -> 1 <= C -> r <= Nat.min R C ->
    wf_grid2 R C (last hist []) ->
    arr2_of (evolve2d_mode_fixed rule store Memo r ty s0 hist T)
    = arr2_of (evolve2d_mode_fixed rule store Plain r ty s0 hist T).
  Proof.
    intros HR HC Hr Hwf. cbn [evolve2d_mode_fixed]. unfold evolve2d_plain.
    rewrite (arr2_of_bind _ (@fst St memo_table)), arr2_of_res_snd.
    exact (evolve_fixed_sim_arr (St * memo_table) St grid [] (step_memo2d rule store r ty)
             (step_plain2d rule store r ty) (fun x1 _ => MInvB (snd x1)) (wf_grid2 R C)
             (memo_sim_step_built HR) (s0, []) s0 hist T MInvB_nil Hwf).
  Qed.

  Theorem memo2d_true_dynamic_built {P} (pred : P -> list grid -> nat -> P * bool) hist fuel p0 s0 :
    1 <= R -> 1 <= C -> r <= Nat.min R C -> wf_grid2 R C (last hist []) ->
    dyn_arr2_of (evolve2d_mode_dynamic rule store pred Memo r ty fuel p0 s0 hist)
    = dyn_arr2_of (evolve2d_mode_dynamic rule store pred Plain r ty fuel p0 s0 hist).
  Proof.
    intros HR HC Hr Hwf. cbn [evolve2d_mode_dynamic]. unfold evolve2d_plain_dynamic.
    rewrite (dyn_arr2_of_map _ (@fst St memo_table)), dyn_arr2_of_proj.
    exact (evolve_dynamic_sim_arr (St * memo_table) St P grid [] (step_memo2d rule store r ty)
             (step_plain2d rule store r ty) pred (fun x1 _ => MInvB (snd x1)) (wf_grid2 R C)
             (memo_sim_step_built HR) fuel p0 (s0, []) s0 hist MInvB_nil Hwf).
  Qed.
End MemoTrueBuilt.

(* the earlier statements are corollaries: a hypothesis on all well-formed neighbourhoods (nb_good), or on all
   neighbourhood objects whatsoever (reads_unmasked_only), implies the hypothesis on the built ones *)
Corollary memo2d_true_fixed_nbgood {St} (rule : rule2 St) store f r ty R C hist T s0 :
  answers rule f ->
  (forall n n', nb_good r ty n -> nb_good r ty n' -> nb_mask n = nb_mask n' -> unmasked n = unmasked n' -> f n = f n') ->
  1 <= R -> 1 <= C -> r <= Nat.min R C -> wf_grid2 R C (last hist []) ->
  arr2_of (evolve2d_mode_fixed rule store Memo r ty s0 hist T)
  = arr2_of (evolve2d_mode_fixed rule store Plain r ty s0 hist T).
Proof.
  intros Hf Hum. apply (memo2d_true_fixed_built St rule store f r ty R C Hf).
  intros n n' Hn Hn'. apply Hum; eapply built_good; eassumption.
Qed.

Corollary memo2d_true_fixed_from_built {St} (rule : rule2 St) store f r ty R C hist T s0 :
  answers rule f -> reads_unmasked_only f ->
  1 <= R -> 1 <= C -> r <= Nat.min R C -> wf_grid2 R C (last hist []) ->
  arr2_of (evolve2d_mode_fixed rule store Memo r ty s0 hist T)
  = arr2_of (evolve2d_mode_fixed rule store Plain r ty s0 hist T).
Proof.
  intros Hf Hum. apply (memo2d_true_fixed_built St rule store f r ty R C Hf).
  intros n n' _ _. apply Hum.
Qed.

(* ================================================================== Part E: _MemoizationCache *)
(* the cache as a set of (flat contents, shape, value) triples *)
Definition entries (c : cache2d) : list (list Z * shape * grid) :=
  flat_map (fun kl => map (fun e : shape * grid => (fst kl, fst e, snd e)) (snd kl)) c.

Lemma shape_eqb_spec a b : shape_eqb a b = true <-> a = b.
Proof.
  destruct a as [a1 a2], b as [b1 b2]. unfold shape_eqb. cbn [fst snd]. split.
  - intros H. apply andb_true_iff in H as [H1 H2]. apply Nat.eqb_eq in H1, H2. congruence.
  - intros [= -> ->]. rewrite !Nat.eqb_refl. reflexivity.
Qed.

Lemma hm_find_in k c l : hm_find k c = Some l -> In (k, l) c.
Proof.
  induction c as [|[k' l'] c IH]; cbn [hm_find]; [discriminate|].
  destruct (zlist_eqb k k') eqn:E.
  - intros [= <-]. apply zlist_eqb_spec in E. subst k'. left. reflexivity.
  - intros H. right. exact (IH H).
Qed.

Lemma entries_in k l c sh v : In (k, l) c -> In (sh, v) l -> In (k, sh, v) (entries c).
Proof.
  intros Hc Hl. unfold entries. apply in_flat_map. exists (k, l). split; [exact Hc|].
  cbn [fst snd]. apply in_map_iff. exists (sh, v). split; [reflexivity|exact Hl].
Qed.

Lemma entries_append k e c : forall x,
  In x (entries (hm_append k e c)) <-> (k, fst e, snd e) = x \/ In x (entries c).
Proof.
  induction c as [|[k' l] c IH]; intros x.
  - cbn. tauto.
  - cbn [hm_append]. destruct (zlist_eqb k k') eqn:E.
    + apply zlist_eqb_spec in E. subst k'. unfold entries. cbn [flat_map fst snd].
      rewrite map_app, !in_app_iff. cbn [map In]. tauto.
    + unfold entries in *. cbn [flat_map fst snd]. rewrite !in_app_iff, IH. tauto.
Qed.

Lemma entries_put a v c x :
  In x (entries (cache_put a v c)) <-> (concat a, shape_of a, v) = x \/ In x (entries c).
Proof. unfold cache_put. rewrite entries_append. reflexivity. Qed.

(* `array in cache` answers True only if an entry with these flat contents AND this shape exists,
   and then cache[array] returns (without error) the value of such an entry: the `len == 1`
   shortcut of get() skips the shape comparison, but __contains__ has just made it *)
Lemma cache_get_after_contains a c : cache_contains a c = true ->
  exists v, cache_get a c = Ok v /\ In (concat a, shape_of a, v) (entries c).
Proof.
  unfold cache_contains, cache_get. destruct (hm_find (concat a) c) as [l|] eqn:E; [|discriminate].
  intros Hex. apply hm_find_in in E.
  assert (Hfind : exists e, find (fun e => shape_eqb (fst e) (shape_of a)) l = Some e).
  { apply existsb_exists in Hex as [e [Hin He]].
    destruct (find (fun e0 => shape_eqb (fst e0) (shape_of a)) l) as [e'|] eqn:Ef; [eexists; reflexivity|].
    pose proof (find_none _ _ Ef e Hin) as Hn. cbv beta in Hn. congruence. }
  destruct Hfind as [e Hfind]. pose proof (find_some _ _ Hfind) as [Hin He].
  apply shape_eqb_spec in He. destruct e as [sh v]. cbn [fst] in He. subst sh.
  destruct l as [|e1 [|e2 l']].
  - destruct Hin.
  - (* exactly one entry: returned without looking at its shape; contains has checked it *)
    destruct Hin as [->|[]]. exists v. split; [reflexivity|].
    apply (entries_in _ _ _ _ _ E). left. reflexivity.
  - rewrite Hfind. exists v. split; [reflexivity|]. apply (entries_in _ _ _ _ _ E). exact Hin.
Qed.

Lemma hm_find_append k k' e c :
  hm_find k (hm_append k' e c)
  = if zlist_eqb k k' then Some (match hm_find k c with Some l => l ++ [e] | None => [e] end) else hm_find k c.
Proof.
  induction c as [|[k0 l0] c IH].
  - cbn [hm_append hm_find]. destruct (zlist_eqb k k'); reflexivity.
  - cbn [hm_append]. destruct (zlist_eqb k' k0) eqn:E0.
    + apply zlist_eqb_spec in E0. subst k0. cbn [hm_find]. destruct (zlist_eqb k k'); reflexivity.
    + cbn [hm_find]. destruct (zlist_eqb k k0) eqn:E1; [|exact IH].
      destruct (zlist_eqb k k') eqn:E; [|reflexivity].
      apply zlist_eqb_spec in E1, E. subst k0 k'. rewrite zlist_eqb_refl in E0. discriminate.
Qed.

(* after put(a', v): exactly the arrays contained before, plus those with the flat contents and the shape of a' *)
Lemma cache_contains_put a a' v c :
  cache_contains a (cache_put a' v c)
  = cache_contains a c || (zlist_eqb (concat a) (concat a') && shape_eqb (shape_of a') (shape_of a)).
Proof.
  unfold cache_contains, cache_put. rewrite hm_find_append.
  destruct (zlist_eqb (concat a) (concat a')); destruct (hm_find (concat a) c) as [l|];
    cbn [andb]; rewrite ?orb_false_r; try reflexivity.
  - rewrite existsb_app. cbn [existsb fst]. rewrite orb_false_r. reflexivity.
  - cbn [existsb fst orb]. rewrite orb_false_r. reflexivity.
Qed.

(* entries of the cache built by a sequence of puts = the puts *)
Lemma entries_fold ps : forall c x,
  In x (entries (fold_left (fun c av => cache_put (fst av) (snd av) c) ps c)) <->
  In x (entries c) \/ exists a v, In (a, v) ps /\ x = (concat a, shape_of a, v).
Proof.
  induction ps as [|[a v] ps IH]; intros c x; cbn [fold_left fst snd].
  - split; [intros H; left; exact H|intros [H|[a [v [[] _]]]]; exact H].
  - rewrite IH, entries_put. split.
    + intros [[H|H]|[a0 [v0 [Hin Hx]]]].
      * right. exists a, v. split; [left; reflexivity|symmetry; exact H].
      * left. exact H.
      * right. exists a0, v0. split; [right; exact Hin|exact Hx].
    + intros [H|[a0 [v0 [[Hin|Hin] Hx]]]].
      * left. right. exact H.
      * injection Hin as <- <-. left. left. symmetry. exact Hx.
      * right. exists a0, v0. split; [exact Hin|exact Hx].
Qed.

(* a rectangular array is determined by its flat contents and its shape *)
Definition rect_of (a : grid) : Prop := Forall (fun row => length row = snd (shape_of a)) a.
Lemma flat_shape_inj (a b : grid) : rect_of a -> rect_of b ->
  concat a = concat b -> shape_of a = shape_of b -> a = b.
Proof.
  intros Ha Hb Hc Hs. unfold rect_of in *. rewrite <- Hs in Hb.
  apply (concat_inj_rect (snd (shape_of a))); try assumption.
  unfold shape_of in Hs. congruence.
Qed.

(* cache2d_sound: for ANY sequence of puts, `a in cache` followed by cache[a] returns, without error,
   the value of a put whose array has the flat contents AND the shape of a — hence, arrays being
   rectangular, the 2D contents of a (a 3x4 and a 4x3 array with equal bytes are not confused);
   and `a in cache` is True exactly when such a put happened *)
Theorem cache2d_sound : forall (puts : list (grid * grid)) (a : grid),
  rect_of a -> Forall (fun av => rect_of (fst av)) puts ->
  (cache_contains a (cache_of_puts puts) = true ->
     exists v, cache_get a (cache_of_puts puts) = Ok v /\ In (a, v) puts) /\
  ((exists v, In (a, v) puts) -> cache_contains a (cache_of_puts puts) = true).
Proof.
  intros puts a Ha Hputs. split.
  - intros Hc. destruct (cache_get_after_contains a _ Hc) as [v [Hg Hin]]. exists v. split; [exact Hg|].
    unfold cache_of_puts in Hin. apply entries_fold in Hin as [[]|[a' [v' [Hin Heq]]]].
    assert (Hk : concat a = concat a') by congruence.
    assert (Hs : shape_of a = shape_of a') by congruence.
    assert (Hv : v = v') by congruence. subst v'. clear Heq.
    rewrite Forall_forall in Hputs. pose proof (Hputs _ Hin) as Ha'. cbn [fst] in Ha'.
    rewrite (flat_shape_inj a a' Ha Ha' Hk Hs). exact Hin.
  - intros [v Hin]. unfold cache_of_puts. clear Ha Hputs. generalize (@nil (list Z * list (shape * grid))).
    induction puts as [|[a' v'] puts IH]; intros c; [destruct Hin|]. cbn [fold_left fst snd].
    destruct Hin as [Hin|Hin].
    + injection Hin as -> ->.
      assert (Hmono : forall ps c0, cache_contains a c0 = true ->
                cache_contains a (fold_left (fun c1 av => cache_put (fst av) (snd av) c1) ps c0) = true).
      { induction ps as [|[a1 v1] ps IHp]; intros c0 H0; [exact H0|]. cbn [fold_left fst snd].
        apply IHp. rewrite cache_contains_put, H0. reflexivity. }
      apply Hmono. rewrite cache_contains_put, zlist_eqb_refl.
      replace (shape_eqb (shape_of a) (shape_of a)) with true by (symmetry; apply shape_eqb_spec; reflexivity).
      apply orb_true_r.
    + apply IH. exact Hin.
Qed.

(* ================================================================== Part F: memoize="recursive" *)
(* Lifted from notes/spikes/memo2d_recursive.v onto the literal model: index lists in Z with the
   subtract-if-too-large trick resolved by negative indexing, the byte+shape cache, the threaded rule
   state.  No `mod` form is needed: a window of a block's index list IS a cell's index list. *)
Lemma py_index_nat n i : i < n -> py_index n (Z.of_nat i) = Some i.
Proof.
  intros H. unfold py_index.
  destruct ((0 <=? Z.of_nat i)%Z && (Z.of_nat i <? Z.of_nat n)%Z) eqn:E; [|lia].
  rewrite Nat2Z.id. reflexivity.
Qed.
Lemma resolve_nat n i : i < n -> resolve n (Z.of_nat i) = i.
Proof. intros H. unfold resolve. rewrite py_index_nat by exact H. reflexivity. Qed.

Lemma block_axis_one n s r : block_axis_indices n s 1 r = axis_indices n s r.
Proof. unfold block_axis_indices, axis_indices. replace (1 + 2 * r) with (2 * r + 1) by lia. reflexivity. Qed.

Lemma block_axis_length n s len r : length (block_axis_indices n s len r) = len + 2 * r.
Proof. unfold block_axis_indices. rewrite map_length, seq_length. reflexivity. Qed.

(* the (2r+1)-window at offset a of a block's index list is the index list of the cell s + a *)
Lemma block_axis_window n s len r a : a < len ->
  firstn (2 * r + 1) (skipn a (block_axis_indices n s len r)) = axis_indices n (s + a) r.
Proof.
  intros Ha. unfold block_axis_indices, axis_indices.
  rewrite skipn_map_seq, firstn_map_seq by lia. cbn [Nat.add].
  rewrite map_seq_shift. apply map_ext. intros j. cbv zeta.
  replace (Z.of_nat s - Z.of_nat r + Z.of_nat (a + j))%Z with (Z.of_nat (s + a) - Z.of_nat r + Z.of_nat j)%Z by lia.
  reflexivity.
Qed.

(* stripping the margin leaves the block's own (in-range, unwrapped) indices *)
Lemma strip_block_axis n s len r : s + len <= n ->
  strip_margin r (block_axis_indices n s len r) = map Z.of_nat (seq s len).
Proof.
  intros H. unfold strip_margin. rewrite block_axis_length. unfold block_axis_indices.
  replace (len + 2 * r - r - r) with len by lia.
  rewrite skipn_map_seq, firstn_map_seq by lia. cbn [Nat.add].
  rewrite map_seq_shift, (map_seq_shift Z.of_nat s). apply map_ext_in. intros j Hj. apply in_seq in Hj. cbv zeta.
  destruct (Z.of_nat n - 1 <? Z.of_nat s - Z.of_nat r + Z.of_nat (r + j))%Z eqn:E; lia.
Qed.

Lemma index_of_range n : forall len s i, s + len <= n ->
  index_of n (map Z.of_nat (seq s len)) i = if (s <=? i) && (i <? s + len) then Some (i - s) else None.
Proof.
  induction len as [|len IH]; intros s i H.
  - cbn [seq map index_of]. destruct ((s <=? i) && (i <? s + 0)) eqn:E; [lia|reflexivity].
  - cbn [seq map index_of]. rewrite py_index_nat by lia. rewrite IH by lia.
    destruct (s =? i) eqn:E1.
    + destruct ((s <=? i) && (i <? s + S len)) eqn:E2; [|lia]. f_equal. lia.
    + destruct ((S s <=? i) && (i <? S s + len)) eqn:E2; destruct ((s <=? i) && (i <? s + S len)) eqn:E3;
        cbn [option_map]; try lia; try reflexivity. f_equal. lia.
Qed.

Definition inb (b : block) (i j : nat) : bool :=
  (r0 b <=? i) && (i <? r0 b + bh b) && (c0 b <=? j) && (j <? c0 b + bw b).
Definition block_in (R C : nat) (b : block) : Prop := r0 b + bh b <= R /\ c0 b + bw b <= C.

Lemma scatter_block next R C b vals i j : block_in R C b ->
  scatter next R C (map Z.of_nat (seq (r0 b) (bh b))) (map Z.of_nat (seq (c0 b) (bw b))) vals i j
  = if inb b i j then nth (j - c0 b) (nth (i - r0 b) vals []) 0%Z else next i j.
Proof.
  intros [HR HC]. unfold scatter. rewrite !index_of_range by assumption. unfold inb.
  destruct (r0 b <=? i), (i <? r0 b + bh b), (c0 b <=? j), (j <? c0 b + bw b); reflexivity.
Qed.

Lemma fgather_block next R C b : block_in R C b ->
  fgather next R C (map Z.of_nat (seq (r0 b) (bh b))) (map Z.of_nat (seq (c0 b) (bw b)))
  = map (fun i => map (fun j => next i j) (seq (c0 b) (bw b))) (seq (r0 b) (bh b)).
Proof.
  intros [HR HC]. unfold fgather. rewrite map_map. apply map_ext_in. intros i Hi. apply in_seq in Hi.
  rewrite map_map. apply map_ext_in. intros j Hj. apply in_seq in Hj.
  rewrite !resolve_nat by lia. reflexivity.
Qed.

Section Rec.
  Variable St : Type.
  Variable rule : rule2 St.
  Variable store : Z -> Z.
  Variable f : nbhd2 -> Z.
  Hypothesis Hf : answers rule f.
  Variables (curr : grid) (R C r : nat) (ty : nbhd_type) (t : nat).

  Local Notation sc := (spec_cell f store curr R C r ty).

  (* block + margin, gathered from the current grid: the cache key (bytes + shape) of the block *)
  Definition bstate (b : block) : grid :=
    ix_gather curr (block_axis_indices R (r0 b) (bh b) r) (block_axis_indices C (c0 b) (bw b) r).
  Definition srows (b : block) : list Z := strip_margin r (block_axis_indices R (r0 b) (bh b) r).
  Definition scols (b : block) : list Z := strip_margin r (block_axis_indices C (c0 b) (bw b) r).

  Lemma update_state2d_S k b s cache next :
    update_state2d rule store (S k) curr R C r ty t b (s, cache) next =
    if block_empty b then ((s, cache), next) else
    if cache_contains (bstate b) cache
    then ((s, cache), scatter next R C (srows b) (scols b) (cache_get_total (bstate b) cache))
    else let '((s', cache'), next') :=
           (if (1 <? bh b) || (1 <? bw b)
            then step_quads (update_state2d rule store k curr R C r ty t) b (s, cache) next
            else let '(s1, v) := rule s {| nb_vals := bstate b; nb_mask := mask_for ty r |} (r0 b, c0 b) t in
                 ((s1, cache), fset next (r0 b) (c0 b) (store v))) in
         ((s', cache_put (bstate b) (fgather next' R C (srows b) (scols b)) cache'), next').
  Proof. reflexivity. Qed.

  (* ---- what a cache entry must hold: the rule on every (2r+1)^2 window of the key *)
  Definition window (a bb : nat) (key : grid) : grid :=
    map (fun row => firstn (2 * r + 1) (skipn bb row)) (firstn (2 * r + 1) (skipn a key)).
  Definition block_vals (key : grid) : grid :=
    map (fun a => map (fun bb => store (f {| nb_vals := window a bb key; nb_mask := mask_for ty r |}))
                      (seq 0 (length (hd [] key) - 2 * r)))
        (seq 0 (length key - 2 * r)).
  Definition CInv (c : cache2d) : Prop :=
    forall k sh v, In (k, sh, v) (entries c) ->
    forall a, rect_of a -> concat a = k -> shape_of a = sh -> v = block_vals a.

  Definition spec_block (b : block) : grid :=
    map (fun a => map (fun bb => sc (r0 b + a) (c0 b + bb)) (seq 0 (bw b))) (seq 0 (bh b)).

  Lemma window_ix_gather rs cs a bb :
    window a bb (ix_gather curr rs cs)
    = ix_gather curr (firstn (2 * r + 1) (skipn a rs)) (firstn (2 * r + 1) (skipn bb cs)).
  Proof.
    unfold window, ix_gather. rewrite skipn_map, firstn_map, map_map.
    apply map_ext. intros i. rewrite skipn_map, firstn_map. reflexivity.
  Qed.

  Lemma ix_gather_hd g ris cis : ris <> [] -> length (hd [] (ix_gather g ris cis)) = length cis.
  Proof. destruct ris as [|z zs]; [congruence|]. intros _. unfold ix_gather. cbn [map hd]. apply map_length. Qed.

  Lemma block_axis_nonempty n s len : 1 <= len -> block_axis_indices n s len r <> [].
  Proof.
    intros H E. pose proof (block_axis_length n s len r) as L. rewrite E in L. cbn [length] in L. lia.
  Qed.

  Lemma bstate_dims b : 1 <= bh b ->
    length (bstate b) = bh b + 2 * r /\ length (hd [] (bstate b)) = bw b + 2 * r.
  Proof.
    intros Hh. unfold bstate. split.
    - unfold ix_gather. rewrite map_length, block_axis_length. reflexivity.
    - rewrite ix_gather_hd by (apply block_axis_nonempty; exact Hh). apply block_axis_length.
  Qed.

  Lemma bstate_rect b : rect_of (bstate b).
  Proof.
    unfold rect_of. apply Forall_forall. intros row Hin.
    assert (Hrow : length row = length (block_axis_indices C (c0 b) (bw b) r)).
    { unfold bstate, ix_gather in Hin. apply in_map_iff in Hin as [i [<- _]]. apply map_length. }
    rewrite Hrow. unfold shape_of. cbn [snd]. unfold bstate. symmetry. apply ix_gather_hd.
    intros E. unfold bstate in Hin. rewrite E in Hin. destruct Hin.
  Qed.

  Lemma block_vals_spec b : 1 <= bh b -> block_vals (bstate b) = spec_block b.
  Proof.
    intros Hh. unfold block_vals. destruct (bstate_dims b Hh) as [-> ->].
    replace (bh b + 2 * r - 2 * r) with (bh b) by lia. replace (bw b + 2 * r - 2 * r) with (bw b) by lia.
    unfold spec_block. apply map_ext_in. intros a Ha. apply in_seq in Ha.
    apply map_ext_in. intros bb Hbb. apply in_seq in Hbb.
    unfold bstate. rewrite window_ix_gather, !block_axis_window by lia. reflexivity.
  Qed.

  (* ---- post-condition of _update_state on a block *)
  Definition Post (b : block) (next : fgrid) (res : (St * cache2d) * fgrid) : Prop :=
    CInv (snd (fst res)) /\
    (forall i j, inb b i j = true -> snd res i j = sc i j) /\
    (forall i j, inb b i j = false -> snd res i j = next i j).

  Lemma write_spec_block next b i j : block_in R C b -> inb b i j = true ->
    scatter next R C (srows b) (scols b) (spec_block b) i j = sc i j.
  Proof.
    intros Hin Hb. destruct Hin as [HR HC]. unfold srows, scols. rewrite !strip_block_axis by assumption.
    rewrite scatter_block by (split; assumption). rewrite Hb. unfold spec_block.
    unfold inb in Hb. assert (r0 b <= i < r0 b + bh b /\ c0 b <= j < c0 b + bw b) as [Hi Hj] by lia.
    rewrite (nth_map_seq0 (fun a => map (fun bb => sc (r0 b + a) (c0 b + bb)) (seq 0 (bw b)))) by lia.
    rewrite (nth_map_seq0 (fun bb => sc (r0 b + (i - r0 b)) (c0 b + bb))) by lia.
    f_equal; lia.
  Qed.

  Lemma write_outside next b vals i j : block_in R C b -> inb b i j = false ->
    scatter next R C (srows b) (scols b) vals i j = next i j.
  Proof.
    intros [HR HC] Hb. unfold srows, scols. rewrite !strip_block_axis by assumption.
    rewrite scatter_block by (split; assumption). rewrite Hb. reflexivity.
  Qed.

  Lemma read_spec (next : fgrid) b : block_in R C b ->
    (forall i j, inb b i j = true -> next i j = sc i j) ->
    fgather next R C (srows b) (scols b) = spec_block b.
  Proof.
    intros [HR HC] H. unfold srows, scols. rewrite !strip_block_axis by assumption.
    rewrite fgather_block by (split; assumption). unfold spec_block.
    rewrite (map_seq_shift _ (r0 b)). apply map_ext_in. intros a Ha. apply in_seq in Ha.
    rewrite (map_seq_shift _ (c0 b)). apply map_ext_in. intros bb Hbb. apply in_seq in Hbb.
    apply H. unfold inb. lia.
  Qed.

  (* putting the block's correct next values under the block's key keeps the invariant *)
  Lemma CInv_put b vals cache : 1 <= bh b -> CInv cache -> vals = spec_block b ->
    CInv (cache_put (bstate b) vals cache).
  Proof.
    intros Hh HI Hv k sh v Hin a Ha Hk Hs. apply entries_put in Hin as [Hin|Hin]; [|exact (HI _ _ _ Hin a Ha Hk Hs)].
    assert (E1 : concat a = concat (bstate b)) by congruence.
    assert (E2 : shape_of a = shape_of (bstate b)) by congruence.
    assert (E3 : v = vals) by congruence.
    rewrite E3, (flat_shape_inj a (bstate b) Ha (bstate_rect b) E1 E2), block_vals_spec by exact Hh. exact Hv.
  Qed.

  (* ---- the four quadrants *)
  Lemma step_quads_post rec b x next :
    (forall q x' n, (q = fst (fst (fst (sub_matrices b))) \/ q = snd (fst (fst (sub_matrices b))) \/
                     q = snd (fst (sub_matrices b)) \/ q = snd (sub_matrices b)) ->
                    CInv (snd x') -> Post q n (rec q x' n)) ->
    CInv (snd x) -> Post b next (step_quads rec b x next).
  Proof.
    intros Hrec HI. unfold step_quads.
    assert (Hcover : forall i j, inb b i j =
              inb (fst (fst (fst (sub_matrices b)))) i j || inb (snd (fst (sub_matrices b))) i j ||
              inb (snd (fst (fst (sub_matrices b)))) i j || inb (snd (sub_matrices b)) i j).
    { intros i j. unfold sub_matrices, inb. cbn [fst snd r0 bh c0 bw].
      assert (H1 : (bh b + 1) / 2 <= bh b) by lia. assert (H2 : (bw b + 1) / 2 <= bw b) by lia.
      set (h1 := (bh b + 1) / 2) in *. set (w1 := (bw b + 1) / 2) in *. lia. }
    destruct (sub_matrices b) as [[[nw sw] ne] se]. cbn [fst snd] in Hrec, Hcover.
    pose proof (Hrec nw x next (or_introl eq_refl) HI) as P1.
    destruct (rec nw x next) as [x1 n1]. destruct P1 as (I1 & A1 & B1). cbn [fst snd] in I1, A1, B1.
    pose proof (Hrec ne x1 n1 (or_intror (or_intror (or_introl eq_refl))) I1) as P2.
    destruct (rec ne x1 n1) as [x2 n2]. destruct P2 as (I2 & A2 & B2). cbn [fst snd] in I2, A2, B2.
    pose proof (Hrec sw x2 n2 (or_intror (or_introl eq_refl)) I2) as P3.
    destruct (rec sw x2 n2) as [x3 n3]. destruct P3 as (I3 & A3 & B3). cbn [fst snd] in I3, A3, B3.
    pose proof (Hrec se x3 n3 (or_intror (or_intror (or_intror eq_refl))) I3) as P4.
    destruct (rec se x3 n3) as [x4 n4]. destruct P4 as (I4 & A4 & B4). cbn [fst snd] in I4, A4, B4.
    split; [exact I4|]. cbn [fst snd]. split.
    - intros i j Hb. rewrite Hcover in Hb.
      destruct (inb se i j) eqn:E4; [apply A4; exact E4|]. rewrite (B4 i j E4).
      destruct (inb sw i j) eqn:E3; [apply A3; exact E3|]. rewrite (B3 i j E3).
      destruct (inb ne i j) eqn:E2; [apply A2; exact E2|]. rewrite (B2 i j E2).
      destruct (inb nw i j) eqn:E1; [apply A1; exact E1|]. discriminate Hb.
    - intros i j Hb. rewrite Hcover in Hb.
      apply orb_false_iff in Hb as [Hb E4]. apply orb_false_iff in Hb as [Hb E3]. apply orb_false_iff in Hb as [E1 E2].
      rewrite (B4 i j E4), (B3 i j E3), (B2 i j E2). apply B1. exact E1.
  Qed.

  Lemma empty_not_in b i j : block_empty b = true -> inb b i j = false.
  Proof. unfold block_empty, inb. lia. Qed.

  Lemma update_state_ok : forall fuel b x next,
    (block_empty b = true \/ bh b + bw b <= fuel) -> block_in R C b -> CInv (snd x) ->
    Post b next (update_state2d rule store fuel curr R C r ty t b x next).
  Proof.
    induction fuel as [|k IH]; intros b [s cache] next Hfuel Hin HI.
    - (* no fuel: only reached on empty blocks *)
      cbn [update_state2d]. destruct Hfuel as [He|Hfu].
      + split; [exact HI|]. cbn [snd]. split; [|reflexivity]. intros i j Hb. rewrite empty_not_in in Hb by exact He. discriminate.
      + assert (He : block_empty b = true) by (unfold block_empty; lia).
        split; [exact HI|]. cbn [snd]. split; [|reflexivity]. intros i j Hb. rewrite empty_not_in in Hb by exact He. discriminate.
    - rewrite update_state2d_S. destruct (block_empty b) eqn:Ee.
      { split; [exact HI|]. cbn [snd]. split; [|reflexivity]. intros i j Hb. rewrite empty_not_in in Hb by exact Ee. discriminate. }
      assert (Hh : 1 <= bh b) by (unfold block_empty in Ee; lia).
      assert (Hw : 1 <= bw b) by (unfold block_empty in Ee; lia).
      assert (Hf' : bh b + bw b <= S k) by (destruct Hfuel as [?|?]; [congruence|assumption]).
      cbn [snd] in HI.
      destruct (cache_contains (bstate b) cache) eqn:Ec.
      + (* hit *)
        destruct (cache_get_after_contains _ _ Ec) as [v [Hg Hv]].
        pose proof (HI _ _ _ Hv (bstate b) (bstate_rect b) eq_refl eq_refl) as Hvals.
        rewrite block_vals_spec in Hvals by exact Hh.
        unfold cache_get_total. rewrite Hg. subst v.
        split; [exact HI|]. cbn [snd]. split.
        * intros i j Hb. apply write_spec_block; assumption.
        * intros i j Hb. apply write_outside; assumption.
      + (* miss *)
        assert (Hinner : Post b next
                  (if (1 <? bh b) || (1 <? bw b)
                   then step_quads (update_state2d rule store k curr R C r ty t) b (s, cache) next
                   else let '(s1, v) := rule s {| nb_vals := bstate b; nb_mask := mask_for ty r |} (r0 b, c0 b) t in
                        ((s1, cache), fset next (r0 b) (c0 b) (store v)))).
        { destruct ((1 <? bh b) || (1 <? bw b)) eqn:Esz.
          - apply step_quads_post; [|exact HI].
            intros q x' n Hq HI'. apply IH; [| |exact HI'].
            + assert (H1 : (bh b + 1) / 2 <= bh b) by lia. assert (H2 : (bw b + 1) / 2 <= bw b) by lia.
              assert (H3 : 1 < bh b -> (bh b + 1) / 2 < bh b) by lia.
              assert (H4 : 1 < bw b -> (bw b + 1) / 2 < bw b) by lia.
              assert (H5 : 1 <= (bh b + 1) / 2) by lia. assert (H6 : 1 <= (bw b + 1) / 2) by lia.
              unfold sub_matrices in Hq. cbn [fst snd] in Hq.
              set (h1 := (bh b + 1) / 2) in *. set (w1 := (bw b + 1) / 2) in *.
              right. destruct Hq as [-> | [-> | [-> | ->]]]; cbn [bh bw]; lia.
            + destruct Hin as [HR HC].
              assert (H1 : (bh b + 1) / 2 <= bh b) by lia. assert (H2 : (bw b + 1) / 2 <= bw b) by lia.
              unfold sub_matrices in Hq. cbn [fst snd] in Hq.
              set (h1 := (bh b + 1) / 2) in *. set (w1 := (bw b + 1) / 2) in *.
              unfold block_in. destruct Hq as [-> | [-> | [-> | ->]]]; cbn [r0 bh c0 bw]; lia.
          - (* a single cell: the rule is called on the block + margin = the cell's neighbourhood *)
            assert (bh b = 1 /\ bw b = 1) as [E1 E2] by lia.
            pose proof (Hf s {| nb_vals := bstate b; nb_mask := mask_for ty r |} (r0 b, c0 b) t) as Hv.
            destruct (rule s {| nb_vals := bstate b; nb_mask := mask_for ty r |} (r0 b, c0 b) t) as [s1 v].
            cbn [snd] in Hv. subst v.
            split; [exact HI|]. cbn [snd]. split.
            + intros i j Hb. unfold inb in Hb. rewrite E1, E2 in Hb.
              assert (i = r0 b /\ j = c0 b) as [-> ->] by lia.
              unfold fset. rewrite !Nat.eqb_refl. cbn [andb].
              unfold spec_cell, bstate. rewrite E1, E2, !block_axis_one. reflexivity.
            + intros i j Hb. unfold fset. unfold inb in Hb. rewrite E1, E2 in Hb.
              destruct ((i =? r0 b) && (j =? c0 b)) eqn:E; [lia|reflexivity]. }
        destruct (if (1 <? bh b) || (1 <? bw b) then _ else _) as [[s' cache'] next'].
        destruct Hinner as (I' & A' & B'). cbn [fst snd] in I', A', B'.
        split; [|split; assumption]. cbn [fst snd].
        apply CInv_put; [exact Hh|exact I'|]. apply read_spec; assumption.
  Qed.
End Rec.

Section RecEvolve.
  Variable St : Type.
  Variable rule : rule2 St.
  Variable store : Z -> Z.
  Variable f : nbhd2 -> Z.
  Hypothesis Hf : answers rule f.
  Variables (r : nat) (ty : nbhd_type).

  Local Notation RInv := (CInv store f r ty).

  (* one step of the quad-tree engine, from ANY cache satisfying the invariant: the plain next grid *)
  Theorem rec_step_transparent R C g t x : RInv (snd x) -> 1 <= R -> wf_grid2 R C g ->
    RInv (snd (fst (step_rec2d rule store r ty x g t))) /\
    snd (step_rec2d rule store r ty x g t) = tabulate R C (spec_cell f store g R C r ty).
  Proof.
    intros HI HR Hwf. unfold step_rec2d.
    rewrite (wf_grid2_rows R C g Hwf), (wf_grid2_cols R C g HR Hwf).
    pose proof (step_quads_post St store f g R C r ty
                  (update_state2d rule store (R + C) g R C r ty t) (B 0 R 0 C) x (fun _ _ => 0%Z)) as HP.
    assert (Hq : forall q x' n,
               (q = fst (fst (fst (sub_matrices (B 0 R 0 C)))) \/ q = snd (fst (fst (sub_matrices (B 0 R 0 C)))) \/
                q = snd (fst (sub_matrices (B 0 R 0 C))) \/ q = snd (sub_matrices (B 0 R 0 C))) ->
               RInv (snd x') ->
               Post St store f g R C r ty q n (update_state2d rule store (R + C) g R C r ty t q x' n)).
    { intros q x' n Hq HI'. apply (update_state_ok St rule store f Hf g R C r ty t); [| |exact HI'].
      - assert (H1 : (R + 1) / 2 <= R) by lia. assert (H2 : (C + 1) / 2 <= C) by lia.
        unfold sub_matrices in Hq. cbn [fst snd r0 bh c0 bw] in Hq.
        set (h1 := (R + 1) / 2) in *. set (w1 := (C + 1) / 2) in *.
        right. destruct Hq as [-> | [-> | [-> | ->]]]; cbn [bh bw]; lia.
      - assert (H1 : (R + 1) / 2 <= R) by lia. assert (H2 : (C + 1) / 2 <= C) by lia.
        unfold sub_matrices in Hq. cbn [fst snd r0 bh c0 bw] in Hq.
        set (h1 := (R + 1) / 2) in *. set (w1 := (C + 1) / 2) in *.
        unfold block_in. destruct Hq as [-> | [-> | [-> | ->]]]; cbn [r0 bh c0 bw]; lia. }
    specialize (HP Hq HI).
    destruct (step_quads (update_state2d rule store (R + C) g R C r ty t) (B 0 R 0 C) x (fun _ _ => 0%Z)) as [x' next'].
    destruct HP as (I' & A' & _). cbn [fst snd] in *. split; [exact I'|].
    apply tabulate_ext. intros i j Hi Hj. apply A'. unfold inb. cbn [r0 bh c0 bw]. lia.
  Qed.

  Lemma rec_sim_step R C : 1 <= R -> forall (x1 : St * cache2d) (x2 : St) c t,
    RInv (snd x1) -> wf_grid2 R C c ->
    RInv (snd (fst (step_rec2d rule store r ty x1 c t))) /\
    snd (step_rec2d rule store r ty x1 c t) = snd (step_plain2d rule store r ty x2 c t) /\
    wf_grid2 R C (snd (step_plain2d rule store r ty x2 c t)).
  Proof.
    intros HR x1 x2 c t HI Hwf.
    destruct (rec_step_transparent R C c t x1 HI HR Hwf) as [H1 H2].
    rewrite (plain_step_spec rule store f R C r ty c t x2 Hf HR Hwf).
    split; [exact H1|]. split; [exact H2|apply tabulate_wf].
  Qed.

  Lemma RInv_nil : RInv [].
  Proof. intros k sh v []. Qed.

  Theorem memo2d_recursive_fixed R C hist T s0 : 1 <= R -> 1 <= C -> r <= Nat.min R C ->
    wf_grid2 R C (last hist []) ->
    arr2_of (evolve2d_mode_fixed rule store Recursive r ty s0 hist T)
    = arr2_of (evolve2d_mode_fixed rule store Plain r ty s0 hist T).
  Proof.
    intros HR HC Hr Hwf. cbn [evolve2d_mode_fixed]. unfold evolve2d_plain.
    rewrite (arr2_of_bind _ (@fst St cache2d)), arr2_of_res_snd.
    exact (evolve_fixed_sim_arr (St * cache2d) St grid [] (step_rec2d rule store r ty)
             (step_plain2d rule store r ty) (fun x1 _ => RInv (snd x1)) (wf_grid2 R C)
             (rec_sim_step R C HR) (s0, []) s0 hist T RInv_nil Hwf).
  Qed.

  Theorem memo2d_recursive_dynamic {P} (pred : P -> list grid -> nat -> P * bool) R C hist fuel p0 s0 :
    1 <= R -> 1 <= C -> r <= Nat.min R C -> wf_grid2 R C (last hist []) ->
    dyn_arr2_of (evolve2d_mode_dynamic rule store pred Recursive r ty fuel p0 s0 hist)
    = dyn_arr2_of (evolve2d_mode_dynamic rule store pred Plain r ty fuel p0 s0 hist).
  Proof.
    intros HR HC Hr Hwf. cbn [evolve2d_mode_dynamic]. unfold evolve2d_plain_dynamic.
    rewrite (dyn_arr2_of_map _ (@fst St cache2d)), dyn_arr2_of_proj.
    exact (evolve_dynamic_sim_arr (St * cache2d) St P grid [] (step_rec2d rule store r ty)
             (step_plain2d rule store r ty) pred (fun x1 _ => RInv (snd x1)) (wf_grid2 R C)
             (rec_sim_step R C HR) fuel p0 (s0, []) s0 hist RInv_nil Hwf).
  Qed.
End RecEvolve.

(* ================================================================== Part G: dispatch and call independence *)
(* The option is compared by VALUE: any string equal to "recursive" selects the quad-tree engine (there is
   no object identity in the model: after the committed fix the code uses ==); only the two bool
   singletons select True / False; everything else is unsupported. *)
Lemma dispatch2d_by_value :
  (forall s, dispatch2d (PStr s) = if String.eqb s Memo1D.StrLit.recursive_lit then Some Recursive else None) /\
  dispatch2d (PBool true) = Some Memo /\ dispatch2d (PBool false) = Some Plain /\
  (forall z, dispatch2d (PInt z) = None) /\ dispatch2d PNone = None.
Proof.
  split; [|split; [reflexivity|split; [reflexivity|split; [reflexivity|reflexivity]]]].
  intros s. unfold dispatch2d, Memo1D.dispatch. destruct (String.eqb s Memo1D.StrLit.recursive_lit); reflexivity.
Qed.

Lemma evolve2d_fixed_dispatch {St} (rule : rule2 St) store v m r ty s0 hist T :
  dispatch2d v = Some m -> evolve2d_fixed rule store v r ty s0 hist T = evolve2d_mode_fixed rule store m r ty s0 hist T.
Proof. intros H. unfold evolve2d_fixed. rewrite H. reflexivity. Qed.

Lemma run_process2d_acc calls : forall acc,
  fold_left (fun acc c => acc ++ [run_call2d c]) calls acc = acc ++ map run_call2d calls.
Proof.
  induction calls as [|c calls IH]; intros acc; cbn [fold_left map]; [rewrite app_nil_r; reflexivity|].
  rewrite IH, <- app_assoc. reflexivity.
Qed.

(* nothing is carried from one evolve2d call to the next: the result of call i in a process is the
   result of that call alone, whatever was run before or after it *)
Lemma calls2d_independent : forall calls,
  run_process2d calls = map run_call2d calls /\
  forall before c after, nth (length before) (run_process2d (before ++ c :: after)) (Raise OtherError)
                         = run_call2d c.
Proof.
  intros calls. assert (H : forall cs, run_process2d cs = map run_call2d cs).
  { intros cs. unfold run_process2d. rewrite run_process2d_acc. reflexivity. }
  split; [apply H|]. intros before c after. rewrite H, map_app. cbn [map].
  rewrite app_nth2 by (rewrite map_length; lia). rewrite map_length, Nat.sub_diag. reflexivity.
Qed.

(* the Lin2 family of the correspondence check meets the property's hypothesis on the rule *)
Lemma lin2_reads_unmasked ws m : reads_unmasked_only (fun n => snd (lin2 ws m tt n (0, 0) 0)).
Proof. intros n n' _ H. cbn [lin2 snd]. rewrite H. reflexivity. Qed.

(* ================================================================== Part H: C09 (2D) *)
(* ---- generic preservation of a state invariant by the loops *)
Section Pres.
  Variables (X P C : Type).
  Variable dflt : C.
  Variable step : X -> C -> nat -> X * C.
  Variable pred : P -> list C -> nat -> P * bool.
  Variable Good : C -> Prop.
  Variable J : X -> Prop.
  Variable cnt : X -> nat.
  Variable K : nat.
  Hypothesis Hstep : forall x c t, Good c -> J x ->
    J (fst (step x c t)) /\ cnt (fst (step x c t)) <= cnt x + K /\ Good (snd (step x c t)).

  Lemma iter_steps_count : forall n x cur t, Good cur -> J x ->
    J (fst (iter_steps step n x cur t)) /\ cnt (fst (iter_steps step n x cur t)) <= cnt x + n * K.
  Proof.
    induction n as [|n IH]; intros x cur t HG HJ; [split; [exact HJ|cbn; lia]|].
    cbn [iter_steps]. destruct (Hstep x cur t HG HJ) as (H1 & H2 & H3).
    destruct (step x cur t) as [x1 nxt]. cbn [fst snd] in *.
    destruct (IH x1 nxt (S t) H3 H1) as [I1 I2].
    destruct (iter_steps step n x1 nxt (S t)) as [x2 rest]. cbn [fst snd] in *.
    split; [exact I1|]. lia.
  Qed.

  Lemma evolve_fixed_count : forall x hist T y out, Good (last hist dflt) -> J x ->
    evolve_fixed dflt step x hist T = Ok (y, out) -> J y /\ cnt y <= cnt x + (T - 1) * K.
  Proof.
    intros x hist T y out HG HJ H. destruct T as [|k]; [discriminate|]. cbn [evolve_fixed] in H.
    pose proof (iter_steps_count k x (last hist dflt) 1 HG HJ) as HI.
    destruct (iter_steps step k x (last hist dflt) 1) as [z rows]. injection H as <- _. cbn [fst] in HI.
    replace (S k - 1) with k by lia. exact HI.
  Qed.

  Lemma dynamic_loop_count : forall fuel p x states t plog p' y out plog', Good (last states dflt) -> J x ->
    dynamic_loop dflt step pred fuel p x states t plog = Some (p', y, out, plog') ->
    J y /\ cnt y + length states * K <= cnt x + length out * K.
  Proof.
    induction fuel as [|f IH]; intros p x states t plog p' y out plog' HG HJ H; [discriminate|].
    cbn [dynamic_loop] in H. destruct (pred p states t) as [p1 go]. destruct go.
    - destruct (Hstep x (last states dflt) t HG HJ) as (H1 & H2 & H3).
      destruct (step x (last states dflt) t) as [x1 nxt]. cbn [fst snd] in *.
      assert (HG' : Good (last (states ++ [nxt]) dflt)) by (rewrite last_last; exact H3).
      destruct (IH _ _ _ _ _ _ _ _ _ HG' H1 H) as [I1 I2]. split; [exact I1|].
      rewrite app_length in I2. cbn [length] in I2. lia.
    - injection H as _ <- <- _. split; [exact HJ|lia].
  Qed.

  Lemma evolve_dynamic_count : forall fuel p x hist p' y out plog', hist <> [] -> Good (last hist dflt) -> J x ->
    evolve_dynamic dflt step pred fuel p x hist = Some (p', y, out, plog') ->
    J y /\ cnt y + length hist * K <= cnt x + length out * K.
  Proof.
    intros fuel p x hist p' y out plog' Hne HG HJ H. unfold evolve_dynamic in H.
    destruct (dynamic_loop dflt step pred fuel p x [last hist dflt] 1 []) as [[[[p1 y1] s1] l1]|] eqn:E; [|discriminate].
    injection H as _ <- <- _.
    destruct (dynamic_loop_count fuel p x [last hist dflt] 1 [] p1 y1 s1 l1 HG HJ E) as [I1 I2]. split; [exact I1|].
    rewrite app_length. cbn [length] in I2.
    assert (length (removelast hist) + 1 = length hist).
    { rewrite (app_removelast_last dflt Hne) at 2. rewrite app_length. reflexivity. }
    lia.
  Qed.
End Pres.

(* ---- memoize="recursive": the rule is entered only on a cache miss of a single-cell block, and its
   block is put into the cache right after: no two entries of the call log have equal block contents;
   at most one entry per cell and step.  Holds for ANY rule callable (no purity needed). *)
Lemma NoDup_app_one {A} (l : list A) (a : A) : NoDup l -> ~ In a l -> NoDup (l ++ [a]).
Proof.
  induction l as [|x l IH]; intros Hn Hin; cbn [app].
  - constructor; [intros []|constructor].
  - inversion Hn as [|x' l' Hx Hl]; subst x' l'. constructor.
    + intros H. apply in_app_iff in H as [H|[H|[]]]; [contradiction|]. subst x. apply Hin. left. reflexivity.
    + apply IH; [exact Hl|]. intros H. apply Hin. right. exact H.
Qed.

Section RecOnce.
  Variable S0 : Type.
  Variable rule : rule2 S0.
  Variable store : Z -> Z.
  Variables (curr : grid) (R C r : nat) (ty : nbhd_type) (t : nat).

  Local Notation XL := ((S0 * list call2) * cache2d)%type.
  Definition xlog (x : XL) : list call2 := snd (fst x).
  (* every logged block is in the cache, and no block was logged twice *)
  Definition LInv (x : XL) : Prop :=
    NoDup (map call2_vals (xlog x)) /\ forall e, In e (xlog x) -> cache_contains (call2_vals e) (snd x) = true.
  Definition area (b : block) : nat := bh b * bw b.
  Definition Post2 (b : block) (x : XL) (res : XL * fgrid) : Prop :=
    LInv (fst res) /\ length (xlog (fst res)) <= length (xlog x) + area b.

  Lemma contains_put_mono a a' v c : cache_contains a c = true -> cache_contains a (cache_put a' v c) = true.
  Proof. intros H. rewrite cache_contains_put, H. reflexivity. Qed.
  Lemma contains_put_same a v c : cache_contains a (cache_put a v c) = true.
  Proof.
    rewrite cache_contains_put, zlist_eqb_refl.
    replace (shape_eqb (shape_of a) (shape_of a)) with true by (symmetry; apply shape_eqb_spec; reflexivity).
    apply orb_true_r.
  Qed.

  Lemma LInv_put (x : XL) a v : LInv x -> LInv (fst x, cache_put a v (snd x)).
  Proof.
    intros [H1 H2]. split; [exact H1|]. intros e He. cbn [snd]. apply contains_put_mono. apply H2. exact He.
  Qed.

  Lemma quad_area h1 h2 w1 w2 : h1 * w1 + h1 * w2 + h2 * w1 + h2 * w2 = (h1 + h2) * (w1 + w2).
  Proof. rewrite Nat.mul_add_distr_r, !Nat.mul_add_distr_l. lia. Qed.

  Lemma area_split b :
    area (fst (fst (fst (sub_matrices b)))) + area (snd (fst (sub_matrices b))) +
    area (snd (fst (fst (sub_matrices b)))) + area (snd (sub_matrices b)) = area b.
  Proof.
    unfold sub_matrices, area. cbn [fst snd bh bw].
    assert (H1 : (bh b + 1) / 2 <= bh b) by lia. assert (H2 : (bw b + 1) / 2 <= bw b) by lia.
    set (h1 := (bh b + 1) / 2) in *. set (w1 := (bw b + 1) / 2) in *.
    rewrite quad_area. f_equal; lia.
  Qed.

  Lemma step_quads_post2 (rec : block -> XL -> fgrid -> XL * fgrid) b x next :
    (forall q x' n, LInv x' -> Post2 q x' (rec q x' n)) ->
    LInv x -> Post2 b x (step_quads rec b x next).
  Proof.
    intros Hrec HI. unfold step_quads. pose proof (area_split b) as Ha.
    destruct (sub_matrices b) as [[[nw sw] ne] se]. cbn [fst snd] in Ha.
    pose proof (Hrec nw x next HI) as P1. destruct (rec nw x next) as [x1 n1]. destruct P1 as [I1 L1]. cbn [fst] in I1, L1.
    pose proof (Hrec ne x1 n1 I1) as P2. destruct (rec ne x1 n1) as [x2 n2]. destruct P2 as [I2 L2]. cbn [fst] in I2, L2.
    pose proof (Hrec sw x2 n2 I2) as P3. destruct (rec sw x2 n2) as [x3 n3]. destruct P3 as [I3 L3]. cbn [fst] in I3, L3.
    pose proof (Hrec se x3 n3 I3) as P4. destruct (rec se x3 n3) as [x4 n4]. destruct P4 as [I4 L4]. cbn [fst] in I4, L4.
    split; [exact I4|]. cbn [fst]. lia.
  Qed.

  Lemma update_state_once : forall fuel b (x : XL) next, LInv x ->
    Post2 b x (update_state2d (logged2 rule) store fuel curr R C r ty t b x next).
  Proof.
    induction fuel as [|k IH]; intros b [[s lg] cache] next HI.
    - cbn [update_state2d]. split; [exact HI|]. cbn [fst]. lia.
    - rewrite update_state2d_S. destruct (block_empty b) eqn:Ee; [split; [exact HI|cbn [fst]; lia]|].
      destruct (cache_contains (bstate curr R C r b) cache) eqn:Ec; [split; [exact HI|cbn [fst]; lia]|].
      destruct ((1 <? bh b) || (1 <? bw b)) eqn:Esz.
      + pose proof (step_quads_post2 (update_state2d (logged2 rule) store k curr R C r ty t) b (s, lg, cache) next
                      (fun q x' n HI' => IH q x' n HI') HI) as HP.
        destruct (step_quads (update_state2d (logged2 rule) store k curr R C r ty t) b (s, lg, cache) next)
          as [[[s' lg'] cache'] next'].
        destruct HP as [I' L']. split; [|exact L']. cbn [fst].
        exact (LInv_put (s', lg', cache') _ _ I').
      + (* a single cell whose block is not in the cache: the one place where the rule is entered *)
        assert (bh b = 1 /\ bw b = 1) as [E1 E2] by (unfold block_empty in Ee; lia).
        unfold logged2 at 1.
        destruct (rule s {| nb_vals := bstate curr R C r b; nb_mask := mask_for ty r |} (r0 b, c0 b) t) as [s1 v].
        destruct HI as [HN HC]. cbn [xlog fst snd] in HN, HC.
        split.
        * cbn [fst]. split; cbn [xlog fst snd].
          -- rewrite map_app. cbn [map call2_vals fst nb_vals].
             apply NoDup_app_one; [exact HN|].
             intros Hin. apply in_map_iff in Hin as [e [He Hin]]. pose proof (HC e Hin) as Hc.
             rewrite He in Hc. congruence.
          -- intros e He. apply in_app_iff in He as [He|[<-|[]]].
             ++ apply contains_put_mono. apply HC. exact He.
             ++ cbn [call2_vals fst nb_vals]. apply contains_put_same.
        * cbn [fst xlog snd]. rewrite app_length. cbn [length]. unfold area. rewrite E1, E2. lia.
  Qed.
End RecOnce.

Section RecOnceEvolve.
  Variable S0 : Type.
  Variable rule : rule2 S0.
  Variable store : Z -> Z.
  Variables (r : nat) (ty : nbhd_type).
  Local Notation XL := ((S0 * list call2) * cache2d)%type.

  Lemma rec_step_once R C : 1 <= R -> forall (x : XL) g t, wf_grid2 R C g -> LInv S0 x ->
    LInv S0 (fst (step_rec2d (logged2 rule) store r ty x g t)) /\
    length (xlog S0 (fst (step_rec2d (logged2 rule) store r ty x g t))) <= length (xlog S0 x) + R * C /\
    wf_grid2 R C (snd (step_rec2d (logged2 rule) store r ty x g t)).
  Proof.
    intros HR x g t Hwf HI. unfold step_rec2d.
    rewrite (wf_grid2_rows R C g Hwf), (wf_grid2_cols R C g HR Hwf).
    pose proof (step_quads_post2 S0 store (update_state2d (logged2 rule) store (R + C) g R C r ty t) (B 0 R 0 C) x
                  (fun _ _ => 0%Z)
                  (fun q x' n HI' => update_state_once S0 rule store g R C r ty t (R + C) q x' n HI') HI) as HP.
    destruct (step_quads (update_state2d (logged2 rule) store (R + C) g R C r ty t) (B 0 R 0 C) x (fun _ _ => 0%Z))
      as [x' next'].
    destruct HP as [I' L']. cbn [fst snd] in *. unfold area in L'. cbn [bh bw] in L'.
    split; [exact I'|]. split; [exact L'|apply tabulate_wf].
  Qed.

  Lemma LInv_nil s0 : LInv S0 ((s0, []), []).
  Proof. split; [constructor|intros e []]. Qed.

  (* memoize="recursive", one evolve2d call: no two entries of the rule-call log have equal block contents,
     and the rule is entered at most R*C*(T-1) times (the count of the unmemoised evolution) *)
  Theorem memo2d_recursive_at_most_once_fixed R C hist T s0 : 1 <= R -> wf_grid2 R C (last hist []) ->
    let lg := log2_of (evolve2d_mode_fixed (logged2 rule) store Recursive r ty (s0, []) hist T) in
    NoDup (map call2_vals lg) /\ length lg <= (T - 1) * (R * C).
  Proof.
    intros HR Hwf. cbn [evolve2d_mode_fixed].
    destruct (evolve_fixed [] (step_rec2d (logged2 rule) store r ty) (s0, [], []) hist T) as [[y out]|e] eqn:E;
      cbn [bind log2_of]; [|split; [exact (NoDup_nil _)|apply Nat.le_0_l]].
    destruct (evolve_fixed_count XL unit grid [] (step_rec2d (logged2 rule) store r ty) (fun p _ _ => (p, false)) (wf_grid2 R C) (LInv S0)
                (fun x => length (xlog S0 x)) (R * C)
                (fun x c t HG HJ => rec_step_once R C HR x c t HG HJ) (s0, [], []) hist T y out Hwf (LInv_nil s0) E)
      as [[HN _] HL].
    destruct y as [[s lg] cache]. cbn [fst snd xlog length] in *. split; [exact HN|lia].
  Qed.

  Theorem memo2d_recursive_at_most_once_dynamic {P} (pred : P -> list grid -> nat -> P * bool)
          R C hist fuel p0 s0 p' s lg out plog :
    1 <= R -> hist <> [] -> wf_grid2 R C (last hist []) ->
    evolve2d_mode_dynamic (logged2 rule) store pred Recursive r ty fuel p0 (s0, []) hist = Some (p', (s, lg), out, plog) ->
    NoDup (map call2_vals lg) /\ length lg + length hist * (R * C) <= length out * (R * C).
  Proof.
    intros HR Hne Hwf H. cbn [evolve2d_mode_dynamic] in H.
    destruct (evolve_dynamic [] (step_rec2d (logged2 rule) store r ty) pred fuel p0 (s0, [], []) hist)
      as [[[[p1 y] o1] l1]|] eqn:E; [|discriminate].
    destruct (evolve_dynamic_count XL P grid [] (step_rec2d (logged2 rule) store r ty) pred (wf_grid2 R C) (LInv S0)
                (fun x => length (xlog S0 x)) (R * C)
                (fun x c t HG HJ => rec_step_once R C HR x c t HG HJ) fuel p0 (s0, [], []) hist p1 y o1 l1
                Hne Hwf (LInv_nil s0) E) as [[HN _] HL].
    destruct y as [[s' lg'] cache]. cbn [fst snd xlog length] in *. injection H as _ <- <- <- _.
    split; [exact HN|exact HL].
  Qed.
End RecOnceEvolve.

(* ---- memoize=True: the rule is entered exactly when the key of the neighbourhood is not in the table,
   and the key is stored right after.  Holds for ANY rule callable. *)
Lemma apply_cols_length {St} (rule : rule2 St) store g R C r ty row t : forall cols s,
  length (snd (apply_cols rule store s g R C r ty row cols t)) = length cols.
Proof.
  induction cols as [|col cols IH]; intros s; [reflexivity|]. cbn [apply_cols].
  destruct (rule s (get_neighbourhood g R C r row col ty) (row, col) t) as [s1 v].
  specialize (IH s1). destruct (apply_cols rule store s1 g R C r ty row cols t) as [s2 vs].
  cbn [snd length] in *. rewrite IH. reflexivity.
Qed.
Lemma apply_rows_wf {St} (rule : rule2 St) store g R C r ty t : forall rows s,
  wf_grid2 (length rows) C (snd (apply_rows rule store s g R C r ty rows t)).
Proof.
  induction rows as [|row rows IH]; intros s; [split; [reflexivity|constructor]|]. cbn [apply_rows].
  pose proof (apply_cols_length rule store g R C r ty row t (seq 0 C) s) as Hl.
  destruct (apply_cols rule store s g R C r ty row (seq 0 C) t) as [s1 vs].
  specialize (IH s1). destruct (apply_rows rule store s1 g R C r ty rows t) as [s2 rest].
  cbn [snd length] in *. destruct IH as [I1 I2]. rewrite seq_length in Hl.
  split; [cbn [length]; rewrite I1; reflexivity|constructor; assumption].
Qed.
Lemma step_plain2d_wf_any {St} (rule : rule2 St) store r ty s g t :
  wf_grid2 (grid_rows g) (grid_cols g) (snd (step_plain2d rule store r ty s g t)).
Proof.
  unfold step_plain2d.
  pose proof (apply_rows_wf rule store g (grid_rows g) (grid_cols g) r ty t (seq 0 (grid_rows g)) s) as H.
  rewrite seq_length in H. exact H.
Qed.

Section TrueOnce.
  Variable S0 : Type.
  Variable rule : rule2 S0.
  Variable store : Z -> Z.
  Variables (r : nat) (ty : nbhd_type).
  Local Notation XT := ((S0 * list call2) * memo_table)%type.
  Definition tlog (x : XT) : list call2 := snd (fst x).
  Definition tkeys (x : XT) : list (list Z) := map fst (snd x).
  (* the keys of the table are the keys of the logged calls, in order; no key twice *)
  Definition TInv (x : XT) : Prop := map call2_key (tlog x) = rev (tkeys x) /\ NoDup (tkeys x).

  Lemma memo_lookup_some_key k m : In k (map fst m) -> memo_lookup k m <> None.
  Proof.
    intros Hin. apply in_map_iff in Hin as [[k' v] [Hk Hin]]. cbn [fst] in Hk. subst k'.
    intros Hn. exact (memo_lookup_none k m Hn v Hin).
  Qed.

  (* one cell visit: invariant kept, at most one more call, the table grows, the visited key is in it *)
  Lemma get_memoized2_once (x : XT) n c t : TInv x ->
    let x' := fst (get_memoized2 (logged2 rule) x n c t) in
    TInv x' /\ length (tlog x') <= length (tlog x) + 1 /\
    (forall k, In k (tkeys x) -> In k (tkeys x')) /\ In (memo_key n) (tkeys x').
  Proof.
    destruct x as [[s lg] m]. intros [H1 H2]. unfold get_memoized2.
    destruct (memo_lookup (memo_key n) m) as [v|] eqn:E; cbn [fst].
    - split; [split; assumption|]. split; [lia|]. split; [tauto|].
      apply memo_lookup_in in E. unfold tkeys. cbn [snd].
      apply in_map_iff. exists (memo_key n, v). split; [reflexivity|exact E].
    - unfold logged2. destruct (rule s n c t) as [s1 v]. cbn [fst]. unfold TInv, tlog, tkeys in *. cbn [fst snd map] in *.
      split; [split|].
      + rewrite map_app, H1. reflexivity.
      + constructor; [|exact H2]. intros Hin. exact (memo_lookup_some_key _ _ Hin E).
      + split; [rewrite app_length; cbn [length]; lia|]. split; [intros k Hk; right; exact Hk|left; reflexivity].
  Qed.

  Section OneGrid.
    Variables (g : grid) (R C : nat) (t : nat).
    Local Notation nb row col := (get_neighbourhood g R C r row col ty).

    Lemma memo_cols_once row : forall cols (x : XT), TInv x ->
      let x' := fst (apply_cols (get_memoized2 (logged2 rule)) store x g R C r ty row cols t) in
      TInv x' /\ length (tlog x') <= length (tlog x) + length cols /\
      (forall k, In k (tkeys x) -> In k (tkeys x')) /\
      (forall col, In col cols -> In (memo_key (nb row col)) (tkeys x')).
    Proof.
      induction cols as [|col cols IH]; intros x HI; cbn [apply_cols].
      - cbn [fst length]. split; [exact HI|]. split; [lia|]. split; [tauto|intros col []].
      - pose proof (get_memoized2_once x (nb row col) (row, col) t HI) as H. cbv zeta in H.
        destruct (get_memoized2 (logged2 rule) x (nb row col) (row, col) t) as [x1 v]. cbn [fst] in H.
        destruct H as (I1 & L1 & M1 & K1). specialize (IH x1 I1). cbv zeta in IH.
        destruct (apply_cols (get_memoized2 (logged2 rule)) store x1 g R C r ty row cols t) as [x2 vs].
        cbn [fst length] in *. destruct IH as (I2 & L2 & M2 & K2).
        split; [exact I2|]. split; [lia|]. split; [intros k Hk; apply M2, M1, Hk|].
        intros col' [<-|Hin]; [apply M2, K1|apply K2, Hin].
    Qed.

    Lemma memo_rows_once : forall rows (x : XT), TInv x ->
      let x' := fst (apply_rows (get_memoized2 (logged2 rule)) store x g R C r ty rows t) in
      TInv x' /\ length (tlog x') <= length (tlog x) + length rows * C /\
      (forall k, In k (tkeys x) -> In k (tkeys x')) /\
      (forall row col, In row rows -> col < C -> In (memo_key (nb row col)) (tkeys x')).
    Proof.
      induction rows as [|row rows IH]; intros x HI; cbn [apply_rows].
      - cbn [fst length]. split; [exact HI|]. split; [lia|]. split; [tauto|intros row col []].
      - pose proof (memo_cols_once row (seq 0 C) x HI) as H. cbv zeta in H.
        destruct (apply_cols (get_memoized2 (logged2 rule)) store x g R C r ty row (seq 0 C) t) as [x1 vs]. cbn [fst] in H.
        destruct H as (I1 & L1 & M1 & K1). rewrite seq_length in L1. specialize (IH x1 I1). cbv zeta in IH.
        destruct (apply_rows (get_memoized2 (logged2 rule)) store x1 g R C r ty rows t) as [x2 rest].
        cbn [fst length] in *. destruct IH as (I2 & L2 & M2 & K2).
        split; [exact I2|]. split; [lia|]. split; [intros k Hk; apply M2, M1, Hk|].
        intros row' col [<-|Hin] Hc; [apply M2, K1, in_seq; lia|apply K2; assumption].
    Qed.
  End OneGrid.

  (* one step: every neighbourhood of the grid has its key in the table afterwards (hence, by TInv, among
     the keys of the logged calls, exactly once) *)
  Lemma memo_step_once R C : 1 <= R -> forall (x : XT) g t, wf_grid2 R C g -> TInv x ->
    let x' := fst (step_memo2d (logged2 rule) store r ty x g t) in
    TInv x' /\ length (tlog x') <= length (tlog x) + R * C /\
    (forall k, In k (tkeys x) -> In k (tkeys x')) /\
    (forall row col, row < R -> col < C -> In (memo_key (get_neighbourhood g R C r row col ty)) (tkeys x')).
  Proof.
    intros HR x g t Hwf HI. unfold step_memo2d, step_plain2d.
    rewrite (wf_grid2_rows R C g Hwf), (wf_grid2_cols R C g HR Hwf).
    pose proof (memo_rows_once g R C t (seq 0 R) x HI) as H. cbv zeta in *. rewrite seq_length in H.
    destruct H as (I1 & L1 & M1 & K1). split; [exact I1|]. split; [exact L1|]. split; [exact M1|].
    intros row col Hr Hc. apply K1; [apply in_seq; lia|exact Hc].
  Qed.

  Lemma memo_step_wf R C : 1 <= R -> forall (x : XT) g t, wf_grid2 R C g ->
    wf_grid2 R C (snd (step_memo2d (logged2 rule) store r ty x g t)).
  Proof.
    intros HR x g t Hwf. unfold step_memo2d.
    pose proof (step_plain2d_wf_any (get_memoized2 (logged2 rule)) store r ty x g t) as H.
    rewrite (wf_grid2_rows R C g Hwf), (wf_grid2_cols R C g HR Hwf) in H. exact H.
  Qed.

  Lemma TInv_nil s0 : TInv ((s0, []), []).
  Proof. split; [reflexivity|constructor]. Qed.

  (* memoize=True, one evolve2d call: no two entries of the rule-call log have equal (masked) keys, and the
     rule is entered at most R*C*(T-1) times *)
  Theorem memo2d_true_once_fixed R C hist T s0 : 1 <= R -> wf_grid2 R C (last hist []) ->
    let lg := log2_of (evolve2d_mode_fixed (logged2 rule) store Memo r ty (s0, []) hist T) in
    NoDup (map call2_key lg) /\ length lg <= (T - 1) * (R * C).
  Proof.
    intros HR Hwf. cbn [evolve2d_mode_fixed].
    destruct (evolve_fixed [] (step_memo2d (logged2 rule) store r ty) (s0, [], []) hist T) as [[y out]|e] eqn:E;
      cbn [bind log2_of]; [|split; [exact (NoDup_nil _)|apply Nat.le_0_l]].
    destruct (evolve_fixed_count XT unit grid [] (step_memo2d (logged2 rule) store r ty) (fun p _ _ => (p, false)) (wf_grid2 R C) TInv
                (fun x => length (tlog x)) (R * C)
                (fun x c t HG HJ => conj (proj1 (memo_step_once R C HR x c t HG HJ))
                                         (conj (proj1 (proj2 (memo_step_once R C HR x c t HG HJ)))
                                               (memo_step_wf R C HR x c t HG)))
                (s0, [], []) hist T y out Hwf (TInv_nil s0) E) as [[HK HN] HL].
    destruct y as [[s lg] m]. cbn [fst snd tlog tkeys length] in *. split; [|lia].
    rewrite HK. apply NoDup_rev. exact HN.
  Qed.

  Theorem memo2d_true_once_dynamic {P} (pred : P -> list grid -> nat -> P * bool)
          R C hist fuel p0 s0 p' s lg out plog :
    1 <= R -> hist <> [] -> wf_grid2 R C (last hist []) ->
    evolve2d_mode_dynamic (logged2 rule) store pred Memo r ty fuel p0 (s0, []) hist = Some (p', (s, lg), out, plog) ->
    NoDup (map call2_key lg) /\ length lg + length hist * (R * C) <= length out * (R * C).
  Proof.
    intros HR Hne Hwf H. cbn [evolve2d_mode_dynamic] in H.
    destruct (evolve_dynamic [] (step_memo2d (logged2 rule) store r ty) pred fuel p0 (s0, [], []) hist)
      as [[[[p1 y] o1] l1]|] eqn:E; [|discriminate].
    destruct (evolve_dynamic_count XT P grid [] (step_memo2d (logged2 rule) store r ty) pred (wf_grid2 R C) TInv
                (fun x => length (tlog x)) (R * C)
                (fun x c t HG HJ => conj (proj1 (memo_step_once R C HR x c t HG HJ))
                                         (conj (proj1 (proj2 (memo_step_once R C HR x c t HG HJ)))
                                               (memo_step_wf R C HR x c t HG)))
                fuel p0 (s0, [], []) hist p1 y o1 l1 Hne Hwf (TInv_nil s0) E) as [[HK HN] HL].
    destruct y as [[s' lg'] m]. cbn [fst snd tlog tkeys length] in *. injection H as _ <- <- <- _.
    split; [|exact HL]. rewrite HK. apply NoDup_rev. exact HN.
  Qed.

  (* exactly once per distinct content that occurs: after a step on g, started from any state of the call,
     the key of EVERY neighbourhood of g is the key of exactly one logged call *)
  Theorem memo2d_true_step_covers R C (x : XT) g t row col :
    1 <= R -> wf_grid2 R C g -> TInv x -> row < R -> col < C ->
    let x' := fst (step_memo2d (logged2 rule) store r ty x g t) in
    count_occ (list_eq_dec Z.eq_dec) (map call2_key (tlog x')) (memo_key (get_neighbourhood g R C r row col ty)) = 1.
  Proof.
    intros HR Hwf HI Hr Hc. cbv zeta.
    destruct (memo_step_once R C HR x g t Hwf HI) as ([HK HN] & _ & _ & Hcov).
    apply NoDup_count_occ'.
    - rewrite HK. apply NoDup_rev. exact HN.
    - rewrite HK. apply -> in_rev. apply Hcov; assumption.
  Qed.
End TrueOnce.

(* ---- the unmemoised evolution enters the rule exactly once per cell and step: R*C*(T-1) times *)
Section PlainCount.
  Variable S0 : Type.
  Variable rule : rule2 S0.
  Variable store : Z -> Z.
  Variables (r : nat) (ty : nbhd_type).
  Local Notation XP := (S0 * list call2)%type.

  Lemma logged_cols_len g R C row t : forall cols (x : XP),
    length (snd (fst (apply_cols (logged2 rule) store x g R C r ty row cols t))) = length (snd x) + length cols.
  Proof.
    induction cols as [|col cols IH]; intros [s lg]; cbn [apply_cols]; [cbn [fst snd length]; lia|].
    unfold logged2 at 1. destruct (rule s (get_neighbourhood g R C r row col ty) (row, col) t) as [s1 v].
    specialize (IH (s1, lg ++ [(get_neighbourhood g R C r row col ty, (row, col), t)])).
    destruct (apply_cols (logged2 rule) store (s1, lg ++ [(get_neighbourhood g R C r row col ty, (row, col), t)])
                         g R C r ty row cols t) as [x2 vs].
    cbn [fst snd length] in *. rewrite IH, app_length. cbn [length]. lia.
  Qed.

  Lemma logged_rows_len g R C t : forall rows (x : XP),
    length (snd (fst (apply_rows (logged2 rule) store x g R C r ty rows t))) = length (snd x) + length rows * C.
  Proof.
    induction rows as [|row rows IH]; intros x; cbn [apply_rows]; [cbn [fst snd length]; lia|].
    pose proof (logged_cols_len g R C row t (seq 0 C) x) as H1.
    destruct (apply_cols (logged2 rule) store x g R C r ty row (seq 0 C) t) as [x1 vs].
    specialize (IH x1). destruct (apply_rows (logged2 rule) store x1 g R C r ty rows t) as [x2 rest].
    cbn [fst snd length] in *. rewrite seq_length in H1. rewrite IH, H1. lia.
  Qed.

  Lemma plain_iter_len R C : 1 <= R -> forall n (x : XP) g t, wf_grid2 R C g ->
    length (snd (fst (iter_steps (step_plain2d (logged2 rule) store r ty) n x g t))) = length (snd x) + n * (R * C).
  Proof.
    intros HR. induction n as [|n IH]; intros x g t Hwf; cbn [iter_steps]; [cbn [fst]; lia|].
    pose proof (step_plain2d_wf_any (logged2 rule) store r ty x g t) as Hw.
    assert (Hl : length (snd (fst (step_plain2d (logged2 rule) store r ty x g t))) = length (snd x) + R * C).
    { unfold step_plain2d. rewrite logged_rows_len, seq_length.
      rewrite (wf_grid2_rows R C g Hwf), (wf_grid2_cols R C g HR Hwf). reflexivity. }
    rewrite (wf_grid2_rows R C g Hwf), (wf_grid2_cols R C g HR Hwf) in Hw.
    destruct (step_plain2d (logged2 rule) store r ty x g t) as [x1 nxt]. cbn [fst snd] in Hw, Hl.
    specialize (IH x1 nxt (S t) Hw).
    destruct (iter_steps (step_plain2d (logged2 rule) store r ty) n x1 nxt (S t)) as [x2 rest].
    cbn [fst snd] in *. rewrite IH, Hl. lia.
  Qed.

  Theorem plain_log2_length R C hist T s0 : 1 <= R -> 1 <= T -> wf_grid2 R C (last hist []) ->
    length (log2_of (evolve2d_mode_fixed (logged2 rule) store Plain r ty (s0, []) hist T)) = (T - 1) * (R * C).
  Proof.
    intros HR HT Hwf. cbn [evolve2d_mode_fixed]. unfold evolve2d_plain. destruct T as [|k]; [lia|].
    cbn [evolve_fixed].
    destruct (iter_steps _ _ _ _ _) as [[s lg] rows] eqn:E.
    pose proof (plain_iter_len R C HR k (s0, []) (last hist []) 1 Hwf) as H.
    assert (H' : length (snd (fst (s, lg, rows))) = length (snd (s0, @nil call2)) + k * (R * C)).
    { rewrite <- E. exact H. }
    cbn [fst snd length log2_of] in *. rewrite H'. replace (S k - 1) with k by lia. reflexivity.
  Qed.
End PlainCount.

(* ---- memoize=True, trajectory level: the keys of the logged calls are exactly the keys of the neighbourhoods
   that occur in the trajectory (each exactly once) *)
Section TrueTrajectory.
  Variable S0 : Type.
  Variable rule : rule2 S0.
  Variable store : Z -> Z.
  Variables (r : nat) (ty : nbhd_type).
  Local Notation XT := ((S0 * list call2) * memo_table)%type.
  Local Notation TI := (TInv S0).
  Local Notation keys := (tkeys S0).

  (* a cell visit adds no key but the visited one *)
  Lemma get_memoized2_keys (x : XT) n c t k :
    In k (keys (fst (get_memoized2 (logged2 rule) x n c t))) -> In k (keys x) \/ k = memo_key n.
  Proof.
    destruct x as [[s lg] m]. unfold get_memoized2.
    destruct (memo_lookup (memo_key n) m) as [v|]; cbn [fst]; [left; assumption|].
    unfold logged2. destruct (rule s n c t) as [s1 v]. unfold tkeys. cbn [fst snd map].
    intros [H|H]; [right; symmetry; exact H|left; exact H].
  Qed.

  Section OneGrid.
    Variables (g : grid) (R C : nat) (t : nat).
    Local Notation nb row col := (get_neighbourhood g R C r row col ty).

    Lemma memo_cols_keys row : forall cols (x : XT) k,
      In k (keys (fst (apply_cols (get_memoized2 (logged2 rule)) store x g R C r ty row cols t))) ->
      In k (keys x) \/ exists col, In col cols /\ k = memo_key (nb row col).
    Proof.
      induction cols as [|col cols IH]; intros x k; cbn [apply_cols]; [cbn [fst]; left; assumption|].
      pose proof (get_memoized2_keys x (nb row col) (row, col) t) as H1.
      destruct (get_memoized2 (logged2 rule) x (nb row col) (row, col) t) as [x1 v]. cbn [fst] in H1.
      specialize (IH x1 k).
      destruct (apply_cols (get_memoized2 (logged2 rule)) store x1 g R C r ty row cols t) as [x2 vs]. cbn [fst] in *.
      intros Hk. destruct (IH Hk) as [H|[col' [Hin ->]]].
      - destruct (H1 k H) as [H'| ->]; [left; exact H'|right; exists col; split; [left; reflexivity|reflexivity]].
      - right. exists col'. split; [right; exact Hin|reflexivity].
    Qed.

    Lemma memo_rows_keys : forall rows (x : XT) k,
      In k (keys (fst (apply_rows (get_memoized2 (logged2 rule)) store x g R C r ty rows t))) ->
      In k (keys x) \/ exists row col, In row rows /\ col < C /\ k = memo_key (nb row col).
    Proof.
      induction rows as [|row rows IH]; intros x k; cbn [apply_rows]; [cbn [fst]; left; assumption|].
      pose proof (memo_cols_keys row (seq 0 C) x) as H1.
      destruct (apply_cols (get_memoized2 (logged2 rule)) store x g R C r ty row (seq 0 C) t) as [x1 vs]. cbn [fst] in H1.
      specialize (IH x1 k).
      destruct (apply_rows (get_memoized2 (logged2 rule)) store x1 g R C r ty rows t) as [x2 rest]. cbn [fst] in *.
      intros Hk. destruct (IH Hk) as [H|[row' [col' [Hin [Hc ->]]]]].
      - destruct (H1 k H) as [H'|[col [Hin ->]]]; [left; exact H'|].
        right. exists row, col. apply in_seq in Hin. split; [left; reflexivity|]. split; [lia|reflexivity].
      - right. exists row', col'. split; [right; exact Hin|]. split; [exact Hc|reflexivity].
    Qed.
  End OneGrid.

  Lemma memo_step_keys R C : 1 <= R -> forall (x : XT) g t k, wf_grid2 R C g ->
    In k (keys (fst (step_memo2d (logged2 rule) store r ty x g t))) ->
    In k (keys x) \/ exists row col, row < R /\ col < C /\ k = memo_key (get_neighbourhood g R C r row col ty).
  Proof.
    intros HR x g t k Hwf. unfold step_memo2d, step_plain2d.
    rewrite (wf_grid2_rows R C g Hwf), (wf_grid2_cols R C g HR Hwf). intros Hk.
    destruct (memo_rows_keys g R C t (seq 0 R) x k Hk) as [H|[row [col [Hin [Hc ->]]]]]; [left; exact H|].
    right. exists row, col. apply in_seq in Hin. split; [lia|]. split; [exact Hc|reflexivity].
  Qed.

  (* n steps from (x, cur): the table gains exactly the keys of the neighbourhoods of the grids cur, rows[0..n-2] *)
  Lemma memo_iter_traj R C : 1 <= R -> forall n (x : XT) cur t x' rows, wf_grid2 R C cur -> TI x ->
    iter_steps (step_memo2d (logged2 rule) store r ty) n x cur t = (x', rows) ->
    TI x' /\
    forall k, In k (keys x') <->
      In k (keys x) \/ exists j row col, j < n /\ row < R /\ col < C /\
                       k = memo_key (get_neighbourhood (nth j (cur :: rows) []) R C r row col ty).
  Proof.
    intros HR. induction n as [|n IH]; intros x cur t x' rows Hwf HI H.
    - cbn [iter_steps] in H. injection H as <- <-. split; [exact HI|]. intros k. split; [left; assumption|].
      intros [Hk|[j [row [col [Hj _]]]]]; [exact Hk|lia].
    - cbn [iter_steps] in H.
      pose proof (memo_step_once S0 rule store r ty R C HR x cur t Hwf HI) as Hs. cbv zeta in Hs.
      pose proof (memo_step_keys R C HR x cur t) as Hk1.
      pose proof (memo_step_wf S0 rule store r ty R C HR x cur t Hwf) as Hw.
      destruct (step_memo2d (logged2 rule) store r ty x cur t) as [x1 nxt]. cbn [fst snd] in Hs, Hk1, Hw.
      destruct Hs as (I1 & _ & M1 & K1).
      destruct (iter_steps (step_memo2d (logged2 rule) store r ty) n x1 nxt (S t)) as [x2 rest] eqn:E2.
      injection H as <- <-. destruct (IH x1 nxt (S t) x2 rest Hw I1 E2) as [I2 Hiff].
      split; [exact I2|]. intros k. rewrite Hiff. split.
      + intros [Hk|[j [row [col [Hj [Hr [Hc ->]]]]]]].
        * destruct (Hk1 k Hwf Hk) as [H|[row [col [Hr [Hc ->]]]]]; [left; exact H|].
          right. exists 0, row, col. split; [lia|]. split; [exact Hr|]. split; [exact Hc|reflexivity].
        * right. exists (S j), row, col. split; [lia|]. split; [exact Hr|]. split; [exact Hc|reflexivity].
      + intros [Hk|[j [row [col [Hj [Hr [Hc ->]]]]]]].
        * left. apply M1. exact Hk.
        * destruct j as [|j].
          -- left. cbn [nth]. apply K1; assumption.
          -- right. exists j, row, col. split; [lia|]. split; [exact Hr|]. split; [exact Hc|reflexivity].
  Qed.

  Lemma memo_fixed_traj R C hist T s0 : 1 <= R -> 1 <= T -> wf_grid2 R C (last hist []) ->
    exists (x' : XT) rows,
      evolve_fixed [] (step_memo2d (logged2 rule) store r ty) (s0, [], []) hist T = Ok (x', hist ++ rows) /\
      TI x' /\
      forall k, In k (keys x') <->
        exists j row col, j < T - 1 /\ row < R /\ col < C /\
          k = memo_key (get_neighbourhood (nth j (last hist [] :: rows) []) R C r row col ty).
  Proof.
    intros HR HT Hwf. destruct T as [|n]; [lia|]. cbn [evolve_fixed].
    destruct (iter_steps _ _ _ _ _) as [x' rows] eqn:E. exists x', rows. split; [reflexivity|].
    destruct (memo_iter_traj R C HR n (s0, [], []) (last hist []) 1 x' rows Hwf (TInv_nil S0 s0) E) as [I' Hiff].
    split; [exact I'|]. intros k. rewrite Hiff. replace (S n - 1) with n by lia. split.
    - intros [[]|H]. exact H.
    - intros H. right. exact H.
  Qed.

  (* exactly once per distinct content of the trajectory *)
  Theorem memo2d_true_once_trajectory (f : nbhd2 -> Z) R C hist T s0 :
    answers rule f ->
    (forall n n', built R C r ty n -> built R C r ty n' ->
                  nb_mask n = nb_mask n' -> unmasked n = unmasked n' -> f n = f n') ->
    1 <= R -> 1 <= C -> r <= Nat.min R C -> wf_grid2 R C (last hist []) -> 1 <= T ->
    exists rows,
      arr2_of (evolve2d_mode_fixed (logged2 rule) store Plain r ty (s0, []) hist T) = Ok (hist ++ rows) /\
      arr2_of (evolve2d_mode_fixed (logged2 rule) store Memo r ty (s0, []) hist T) = Ok (hist ++ rows) /\
      NoDup (map call2_key (log2_of (evolve2d_mode_fixed (logged2 rule) store Memo r ty (s0, []) hist T))) /\
      forall k, In k (map call2_key (log2_of (evolve2d_mode_fixed (logged2 rule) store Memo r ty (s0, []) hist T))) <->
        exists t row col, 1 <= t < T /\ row < R /\ col < C /\
          k = memo_key (get_neighbourhood (nth (t - 1) (last hist [] :: rows) []) R C r row col ty).
  Proof.
    intros Hf Hum HR HC Hr Hwf HT.
    pose proof (memo2d_true_fixed_built (S0 * list call2) (logged2 rule) store f r ty R C (answers_logged rule f Hf) Hum
                  hist T (s0, []) HR HC Hr Hwf) as Htr.
    destruct (memo_fixed_traj R C hist T s0 HR HT Hwf) as (x' & rows & HE & [HK HN] & Hiff).
    assert (HM : evolve2d_mode_fixed (logged2 rule) store Memo r ty (s0, []) hist T = Ok (fst x', hist ++ rows)).
    { cbn [evolve2d_mode_fixed]. rewrite HE. reflexivity. }
    exists rows. rewrite <- Htr, HM. cbn [arr2_of]. destruct x' as [[s lg] m]. cbn [fst log2_of].
    unfold tlog, tkeys in *. cbn [fst snd] in *.
    split; [reflexivity|]. split; [reflexivity|]. split; [rewrite HK; apply NoDup_rev; exact HN|].
    intros k. rewrite HK, <- in_rev, Hiff. split.
    - intros [j [row [col [Hj H]]]]. exists (S j), row, col. split; [lia|]. cbn [Nat.sub]. rewrite Nat.sub_0_r. exact H.
    - intros [t [row [col [Ht H]]]]. exists (t - 1), row, col. split; [lia|exact H].
  Qed.
End TrueTrajectory.

Lemma last_as_nth {A} (l : list A) d : l <> [] -> last l d = nth (length l - 1) l d.
Proof.
  induction l as [|a l IH]; intros H; [congruence|]. destruct l as [|b l]; [reflexivity|].
  change (last (a :: b :: l) d) with (last (b :: l) d). rewrite IH by discriminate.
  cbn [length]. replace (S (S (length l)) - 1) with (S (S (length l) - 1)) by lia. reflexivity.
Qed.

Section TrueTrajectoryDyn.
  Variable S0 : Type.
  Variable rule : rule2 S0.
  Variable store : Z -> Z.
  Variables (r : nat) (ty : nbhd_type) (R C : nat).
  Variable P : Type.
  Variable pred : P -> list grid -> nat -> P * bool.
  Local Notation XT := ((S0 * list call2) * memo_table)%type.
  Hypothesis HR : 1 <= R.

  (* the table holds exactly the keys of the neighbourhoods of the grids already stepped from: all states but the last *)
  Definition QT (x : XT) (states : list grid) : Prop :=
    TInv S0 x /\
    forall k, In k (tkeys S0 x) <->
      exists j row col, j < length states - 1 /\ row < R /\ col < C /\
        k = memo_key (get_neighbourhood (nth j states []) R C r row col ty).

  Lemma memo_dyn_traj : forall fuel p (x : XT) states t plog p' y out plog',
    states <> [] -> wf_grid2 R C (last states []) -> QT x states ->
    dynamic_loop [] (step_memo2d (logged2 rule) store r ty) pred fuel p x states t plog = Some (p', y, out, plog') ->
    QT y out.
  Proof.
    induction fuel as [|fu IH]; intros p x states t plog p' y out plog' Hne Hwf [HI Hiff] H; [discriminate|].
    cbn [dynamic_loop] in H. destruct (pred p states t) as [p1 go]. destruct go.
    - pose proof (memo_step_once S0 rule store r ty R C HR x (last states []) t Hwf HI) as Hs. cbv zeta in Hs.
      pose proof (memo_step_keys S0 rule store r ty R C HR x (last states []) t) as Hk1.
      pose proof (memo_step_wf S0 rule store r ty R C HR x (last states []) t Hwf) as Hw.
      destruct (step_memo2d (logged2 rule) store r ty x (last states []) t) as [x1 nxt]. cbn [fst snd] in Hs, Hk1, Hw.
      destruct Hs as (I1 & _ & M1 & K1).
      apply (IH p1 x1 (states ++ [nxt]) (S t) (plog ++ [(states, t)]) p' y out plog'); [| |split; [exact I1|]|exact H].
      + intros E. apply app_eq_nil in E as [_ E]. discriminate.
      + rewrite last_last. exact Hw.
      + unfold grid in *. assert (Hlen : length states >= 1) by (destruct states; [congruence|cbn; lia]).
        rewrite app_length. cbn [length]. replace (length states + 1 - 1) with (length states) by lia.
        intros k. split.
        * intros Hk. destruct (Hk1 k Hwf Hk) as [H0|[row [col [Hr [Hc ->]]]]].
          -- apply Hiff in H0 as [j [row [col [Hj [Hr [Hc ->]]]]]]. exists j, row, col.
             split; [lia|]. split; [exact Hr|]. split; [exact Hc|]. rewrite app_nth1 by lia. reflexivity.
          -- exists (length states - 1), row, col. split; [lia|]. split; [exact Hr|]. split; [exact Hc|].
             rewrite app_nth1 by lia. rewrite <- last_as_nth by exact Hne. reflexivity.
        * intros [j [row [col [Hj [Hr [Hc ->]]]]]]. rewrite app_nth1 by lia.
          destruct (Nat.eq_dec j (length states - 1)) as [->|Hneq].
          -- rewrite <- last_as_nth by exact Hne. apply K1; assumption.
          -- apply M1. apply Hiff. exists j, row, col. split; [lia|]. split; [exact Hr|]. split; [exact Hc|reflexivity].
    - injection H as _ <- <- _. split; assumption.
  Qed.

  Theorem memo2d_true_once_trajectory_dynamic (f : nbhd2 -> Z) hist fuel p0 s0 p' s lg out plog :
    answers rule f ->
    (forall n n', built R C r ty n -> built R C r ty n' ->
                  nb_mask n = nb_mask n' -> unmasked n = unmasked n' -> f n = f n') ->
    1 <= C -> r <= Nat.min R C -> wf_grid2 R C (last hist []) ->
    evolve2d_mode_dynamic (logged2 rule) store pred Memo r ty fuel p0 (s0, []) hist = Some (p', (s, lg), out, plog) ->
    exists states,
      out = removelast hist ++ states /\
      dyn_arr2_of (evolve2d_mode_dynamic (logged2 rule) store pred Plain r ty fuel p0 (s0, []) hist) = Some (out, plog) /\
      NoDup (map call2_key lg) /\
      forall k, In k (map call2_key lg) <->
        exists j row col, j < length states - 1 /\ row < R /\ col < C /\
          k = memo_key (get_neighbourhood (nth j states []) R C r row col ty).
  Proof.
    intros Hf Hum HC Hr Hwf H.
    pose proof (memo2d_true_dynamic_built (S0 * list call2) (logged2 rule) store f r ty R C (answers_logged rule f Hf) Hum
                  pred hist fuel p0 (s0, []) HR HC Hr Hwf) as Htr.
    rewrite H in Htr. cbn [dyn_arr2_of] in Htr.
    cbn [evolve2d_mode_dynamic] in H. unfold evolve_dynamic in H.
    destruct (dynamic_loop [] (step_memo2d (logged2 rule) store r ty) pred fuel p0 (s0, [], []) [last hist []] 1 [])
      as [[[[p1 y] states] l1]|] eqn:E; [|discriminate].
    assert (HQ0 : QT (s0, [], []) [last hist []]).
    { split; [apply TInv_nil|]. intros k. split; [intros []|]. intros [j [_ [_ [Hj _]]]]. cbn [length] in Hj. lia. }
    pose proof (memo_dyn_traj fuel p0 (s0, [], []) [last hist []] 1 [] p1 y states l1
                  (fun E0 => nil_cons (eq_sym E0)) Hwf HQ0 E) as [[HK HN] Hiff].
    destruct y as [[s' lg'] m]. cbn [fst] in H. injection H as _ <- <- <- _.
    exists states. split; [reflexivity|]. split; [symmetry; exact Htr|].
    unfold tlog, tkeys in *. cbn [fst snd] in *.
    split; [rewrite HK; apply NoDup_rev; exact HN|].
    intros k. rewrite HK, <- in_rev. apply Hiff.
  Qed.
End TrueTrajectoryDyn.
