(* Proofs about Model/RuleTables.v (C17): the state list, the dict operations, the construction loop of
   random_rule_table for every oracle, both walk-through loops, table_rule. *)
From CPL Require Import Model.Base Model.RuleTables.
From Coq Require Import QArith Lia.
Close Scope Q_scope.
Local Open Scope nat_scope.

(* ================================================================== keys and the dict *)
Lemma key_eqb_spec : forall a b, key_eqb a b = true <-> a = b.
Proof.
  unfold key_eqb. induction a as [|x a IH]; intros [|y b]; simpl; try (split; [discriminate|discriminate]).
  - split; reflexivity.
  - rewrite andb_true_iff, Nat.eqb_eq, IH. split.
    + intros [-> ->]; reflexivity.
    + intros H; inversion H; auto.
Qed.

Lemma key_eqb_refl : forall a, key_eqb a a = true.
Proof. intros; apply key_eqb_spec; reflexivity. Qed.

Lemma key_eqb_neq : forall a b, a <> b -> key_eqb a b = false.
Proof. intros a b H. destruct (key_eqb a b) eqn:E; auto. apply key_eqb_spec in E; contradiction. Qed.

Lemma key_eqb_false : forall a b, key_eqb a b = false -> a <> b.
Proof. intros a b H ->. rewrite key_eqb_refl in H; discriminate. Qed.

Lemma key_eq_dec : forall a b : key, {a = b} + {a <> b}.
Proof. intros; destruct (key_eqb a b) eqn:E; [left; apply key_eqb_spec; auto | right; apply key_eqb_false; auto]. Qed.

Lemma lookup_tset : forall s v t a, lookup a (tset s v t) = if key_eqb s a then Some v else lookup a t.
Proof.
  induction t as [|[k0 v0] t IH]; intros a; simpl.
  - reflexivity.
  - destruct (key_eqb k0 s) eqn:E.
    + apply key_eqb_spec in E; subst k0. simpl. destruct (key_eqb s a); reflexivity.
    + simpl. rewrite IH. destruct (key_eqb k0 a) eqn:E2; auto.
      apply key_eqb_spec in E2; subst k0. rewrite key_eqb_neq; auto.
      intros ->. rewrite key_eqb_refl in E; discriminate.
Qed.

Lemma lookup_tset_same : forall s v t, lookup s (tset s v t) = Some v.
Proof. intros; rewrite lookup_tset, key_eqb_refl; reflexivity. Qed.

Lemma lookup_None_iff : forall s t, lookup s t = None <-> ~ In s (map fst t).
Proof.
  induction t as [|[k0 v0] t IH]; simpl.
  - split; auto.
  - destruct (key_eqb k0 s) eqn:E.
    + apply key_eqb_spec in E. split; [discriminate | intros H; exfalso; apply H; auto].
    + apply key_eqb_false in E. rewrite IH. split; [intros H [H1|H1]; auto | intros H H1; apply H; auto].
Qed.

Lemma lookup_Some_In : forall s v t, lookup s t = Some v -> In (s, v) t.
Proof.
  induction t as [|[k0 v0] t IH]; simpl; [discriminate|].
  destruct (key_eqb k0 s) eqn:E.
  - apply key_eqb_spec in E; subst. intros H; inversion H; auto.
  - auto.
Qed.

Lemma lookup_In : forall s v t, NoDup (map fst t) -> In (s, v) t -> lookup s t = Some v.
Proof.
  induction t as [|[k0 v0] t IH]; simpl; intros ND H; [contradiction|].
  inversion ND as [|? ? Hn ND']; subst.
  destruct H as [H|H].
  - inversion H; subst. rewrite key_eqb_refl; reflexivity.
  - destruct (key_eqb k0 s) eqn:E; auto.
    apply key_eqb_spec in E; subst. exfalso; apply Hn. apply in_map_iff. exists (s, v); auto.
Qed.

Lemma lookup_in_keys : forall s t, In s (map fst t) -> exists v, lookup s t = Some v.
Proof.
  intros s t H. destruct (lookup s t) eqn:E; eauto. apply lookup_None_iff in E; contradiction.
Qed.

Lemma keys_tset_in : forall s v t, In s (map fst t) -> map fst (tset s v t) = map fst t.
Proof.
  induction t as [|[k0 v0] t IH]; simpl; intros H; [contradiction|].
  destruct (key_eqb k0 s) eqn:E; simpl; auto.
  f_equal. apply IH. destruct H as [H|H]; auto. subst; rewrite key_eqb_refl in E; discriminate.
Qed.

Lemma tset_fresh : forall s v t, ~ In s (map fst t) -> tset s v t = t ++ [(s, v)].
Proof.
  induction t as [|[k0 v0] t IH]; simpl; intros H; auto.
  destruct (key_eqb k0 s) eqn:E.
  - apply key_eqb_spec in E; subst. exfalso; auto.
  - f_equal. apply IH; auto.
Qed.

Lemma length_tset_in : forall s v t, In s (map fst t) -> length (tset s v t) = length t.
Proof. intros s v t H. rewrite <- (map_length fst), keys_tset_in, map_length; auto. Qed.

Definition b2n (b : bool) : nat := if b then 1 else 0.

Lemma qcount_cons : forall q s v t, qcount q ((s, v) :: t) = b2n (v =? q)%Z + qcount q t.
Proof. intros; unfold qcount; simpl. destruct (v =? q)%Z; reflexivity. Qed.

Lemma qcount_app : forall q t u, qcount q (t ++ u) = qcount q t + qcount q u.
Proof. intros; unfold qcount. rewrite filter_app, app_length; reflexivity. Qed.

Lemma qcount_le_length : forall q t, qcount q t <= length t.
Proof.
  intros q t; unfold qcount. induction t as [|x t IH]; simpl; auto.
  destruct (snd x =? q)%Z; simpl; lia.
Qed.

Lemma qcount_tset : forall q s v v0 t, lookup s t = Some v0 ->
  qcount q (tset s v t) + b2n (v0 =? q)%Z = qcount q t + b2n (v =? q)%Z.
Proof.
  induction t as [|[k0 w] t IH]; cbn [lookup tset]; intros H; [discriminate|].
  destruct (key_eqb k0 s) eqn:E.
  - inversion H; subst. rewrite !qcount_cons. lia.
  - rewrite !qcount_cons. specialize (IH H). lia.
Qed.

Lemma qcount_tset_fresh : forall q s v t, lookup s t = None ->
  qcount q (tset s v t) = qcount q t + b2n (v =? q)%Z.
Proof.
  intros q s v t H. apply lookup_None_iff in H. rewrite tset_fresh by auto.
  rewrite qcount_app, qcount_cons. change (qcount q []) with 0. lia.
Qed.

Lemma values_tset : forall (P : Z -> Prop) s v t, Forall P (map snd t) -> P v -> Forall P (map snd (tset s v t)).
Proof.
  induction t as [|[k0 w] t IH]; simpl; intros H Hv.
  - constructor; auto.
  - inversion H; subst. destruct (key_eqb k0 s); simpl; constructor; auto.
Qed.

Lemma lookup_value : forall (P : Z -> Prop) s v t, Forall P (map snd t) -> lookup s t = Some v -> P v.
Proof.
  intros P s v t H L. apply lookup_Some_In in L. rewrite Forall_forall in H. apply H.
  apply in_map_iff. exists (s, v); auto.
Qed.

Lemma lookup_app_in : forall s t u, In s (map fst t) -> lookup s (t ++ u) = lookup s t.
Proof.
  induction t as [|[k0 w] t IH]; simpl; intros u H; [contradiction|].
  destruct (key_eqb k0 s) eqn:E; auto. apply IH. destruct H as [H|H]; auto.
  subst; rewrite key_eqb_refl in E; discriminate.
Qed.

Lemma lookup_app_fresh : forall s t u, ~ In s (map fst t) -> lookup s (t ++ u) = lookup s u.
Proof.
  induction t as [|[k0 w] t IH]; simpl; intros u H; auto.
  destruct (key_eqb k0 s) eqn:E.
  - apply key_eqb_spec in E; subst; exfalso; auto.
  - apply IH; auto.
Qed.

(* ================================================================== the state list *)
(* n base-k digits of i, least significant first *)
Fixpoint digs (n i k : nat) : list nat :=
  match n with 0 => [] | S m => (i mod k) :: digs m (i / k) k end.

(* value of a least-significant-first digit list *)
Fixpoint val (k : nat) (l : list nat) : nat :=
  match l with [] => 0 | d :: l' => d + k * val k l' end.

Lemma rev_repeat : forall {A} (x : A) n, rev (repeat x n) = repeat x n.
Proof.
  induction n as [|n IH]; simpl; auto. rewrite IH. symmetry. apply repeat_cons.
Qed.

Lemma digs_zero : forall n k, digs n 0 k = repeat 0 n.
Proof.
  induction n as [|n IH]; intros k; cbn [digs repeat]; auto.
  destruct (Nat.eq_dec k 0) as [->|Hk].
  - change (0 mod 0) with 0. change (0 / 0) with 0. rewrite IH; reflexivity.
  - rewrite Nat.mod_0_l, Nat.div_0_l by auto. rewrite IH. reflexivity.
Qed.

Lemma digits_lsb_zero : forall fuel k, digits_lsb fuel 0 k = [].
Proof. destruct fuel; reflexivity. Qed.

Lemma digits_lsb_digs : forall k, 2 <= k -> forall n fuel i, i <= fuel -> i < k ^ n ->
  length (digits_lsb fuel i k) <= n /\
  digs n i k = digits_lsb fuel i k ++ repeat 0 (n - length (digits_lsb fuel i k)).
Proof.
  intros k Hk. induction n as [|n IH]; intros fuel i Hf Hi.
  - simpl in Hi. assert (i = 0) by lia. subst. rewrite digits_lsb_zero. simpl. split; auto.
  - destruct (Nat.eq_dec i 0) as [->|Hne].
    + rewrite digits_lsb_zero, digs_zero. simpl. split; [lia | reflexivity].
    + destruct fuel as [|f]; [lia|].
      simpl digits_lsb. destruct (i =? 0) eqn:E; [apply Nat.eqb_eq in E; lia|].
      assert (Hd : i / k < i) by (apply Nat.div_lt; lia).
      assert (Hd2 : i / k < k ^ n).
      { apply Nat.div_lt_upper_bound; [lia|]. simpl in Hi. exact Hi. }
      destruct (IH f (i / k)) as [H1 H2]; [lia | auto |].
      simpl. split; [lia|]. f_equal. exact H2.
Qed.

Lemma zfill_base_repr : forall k n i, 2 <= k -> 1 <= n -> i < k ^ n ->
  zfill n (base_repr i k) = rev (digs n i k).
Proof.
  intros k n i Hk Hn Hi. unfold zfill, base_repr.
  destruct (i =? 0) eqn:E.
  - apply Nat.eqb_eq in E; subst. rewrite digs_zero, rev_repeat. simpl.
    destruct n as [|n]; [lia|]. simpl. rewrite Nat.sub_0_r. symmetry. apply repeat_cons.
  - destruct (digits_lsb_digs k Hk n i i (le_n _) Hi) as [H1 H2].
    rewrite H2, rev_app_distr, rev_repeat, rev_length. reflexivity.
Qed.

Lemma digs_length : forall n i k, length (digs n i k) = n.
Proof. induction n; intros; simpl; auto. Qed.

Lemma digs_lt : forall n i k, 0 < k -> Forall (fun d => d < k) (digs n i k).
Proof.
  induction n; intros; simpl; constructor; auto. apply Nat.mod_upper_bound; lia.
Qed.

Lemma val_digs : forall k, 0 < k -> forall n i, val k (digs n i k) = i mod k ^ n.
Proof.
  intros k Hk. induction n as [|n IH]; intros i; cbn [digs val].
  - change (k ^ 0) with 1. rewrite Nat.mod_1_r; reflexivity.
  - rewrite IH. change (k ^ S n) with (k * k ^ n). rewrite Nat.mod_mul_r; try lia. apply Nat.pow_nonzero; lia.
Qed.

Lemma digs_val : forall k l, Forall (fun d => d < k) l -> digs (length l) (val k l) k = l.
Proof.
  intros k. induction l as [|d l IH]; intros H; simpl; auto.
  inversion H as [|? ? Hd Hl]; subst.
  assert (Hk : k <> 0) by lia.
  f_equal.
  - rewrite Nat.mul_comm, Nat.mod_add by auto. apply Nat.mod_small; auto.
  - rewrite Nat.mul_comm, Nat.div_add by auto. rewrite Nat.div_small by auto. simpl. apply IH; auto.
Qed.

Lemma val_lt : forall k l, Forall (fun d => d < k) l -> val k l < k ^ length l.
Proof.
  intros k. induction l as [|d l IH]; intros H; simpl; [lia|].
  inversion H as [|? ? Hd Hl]; subst. specialize (IH Hl). nia.
Qed.

Definition digit_string (k n : nat) (s : key) : Prop := length s = n /\ Forall (fun d => d < k) s.

Lemma states_alt : forall k n, 2 <= k -> 1 <= n ->
  states k n = map (fun i => rev (digs n i k)) (seq 0 (k ^ n)).
Proof.
  intros k n Hk Hn. unfold states. apply map_ext_in. intros i Hi. apply in_seq in Hi.
  apply zfill_base_repr; auto. lia.
Qed.

Lemma states_in : forall k n s, 2 <= k -> 1 <= n -> (In s (states k n) <-> digit_string k n s).
Proof.
  intros k n s Hk Hn. rewrite states_alt by auto. unfold digit_string. rewrite in_map_iff. split.
  - intros [i [<- Hi]]. rewrite rev_length, digs_length. split; auto. apply Forall_rev, digs_lt; lia.
  - intros [Hl Hf]. exists (val k (rev s)).
    assert (Hf' : Forall (fun d => d < k) (rev s)) by (apply Forall_rev; auto).
    split.
    + rewrite <- Hl, <- rev_length, digs_val by auto. apply rev_involutive.
    + apply in_seq. pose proof (val_lt k (rev s) Hf') as H. rewrite rev_length, Hl in H. lia.
Qed.

Lemma states_NoDup : forall k n, 2 <= k -> 1 <= n -> NoDup (states k n).
Proof.
  intros k n Hk Hn. rewrite states_alt by auto.
  apply (NoDup_map_inv (fun s => val k (rev s))).
  rewrite map_map. erewrite map_ext_in; [rewrite map_id; apply seq_NoDup|].
  intros i Hi. apply in_seq in Hi. simpl. rewrite rev_involutive, val_digs by lia.
  apply Nat.mod_small; lia.
Qed.

Lemma states_length : forall k n, length (states k n) = k ^ n.
Proof. intros; unfold states; rewrite map_length, seq_length; reflexivity. Qed.

Lemma digit_string_rev : forall k n s, digit_string k n s -> digit_string k n (rev s).
Proof. intros k n s [H1 H2]; split; [rewrite rev_length; auto | apply Forall_rev; auto]. Qed.

Lemma states_rev : forall k n s, 2 <= k -> 1 <= n -> In s (states k n) -> In (rev s) (states k n).
Proof. intros k n s Hk Hn H. apply states_in in H; auto. apply states_in; auto. apply digit_string_rev; auto. Qed.

(* ------------------------------------------------------------------ uniform strings *)
Lemma uniform_repeat : forall s, uniform s = true -> s = repeat (hd 0 s) (length s).
Proof.
  intros [|c s] H; [discriminate|]. simpl in *. f_equal.
  apply Forall_eq_repeat. apply Forall_forall. intros x Hx.
  rewrite forallb_forall in H. specialize (H x Hx). apply Nat.eqb_eq in H; auto.
Qed.

Lemma uniform_of_repeat : forall c n, uniform (repeat c (S n)) = true.
Proof.
  intros; simpl. apply forallb_forall. intros x Hx. apply repeat_spec in Hx; subst. apply Nat.eqb_refl.
Qed.

Lemma uniform_rev_eq : forall s, uniform s = true -> rev s = s.
Proof. intros s H. rewrite (uniform_repeat s H). apply rev_repeat. Qed.

Lemma uniform_rev : forall s, uniform (rev s) = uniform s.
Proof.
  assert (H : forall s, uniform s = true -> uniform (rev s) = true).
  { intros s Hs. rewrite uniform_rev_eq; auto. }
  intros s. destruct (uniform s) eqn:E; [apply H; auto|].
  destruct (uniform (rev s)) eqn:E2; auto. apply H in E2. rewrite rev_involutive in E2. congruence.
Qed.

(* ================================================================== random_rule_table *)
Definition in_range (k : nat) (v : Z) : Prop := (0 <= v < Z.of_nat k)%Z.

(* uniform neighbourhood strings map to their own state *)
Definition SQ (t : table) : Prop :=
  forall s, In s (map fst t) -> uniform s = true -> lookup s t = Some (Z.of_nat (hd 0 s)).
(* a string and its mirror image map alike *)
Definition ISO (t : table) : Prop :=
  forall s, In s (map fst t) -> In (rev s) (map fst t) -> lookup (rev s) t = lookup s t.

(* invariant of the construction loop after the prefix p of the state list *)
Definition Inv (k : nat) (q : Z) (sq iso : bool) (p : list key) (t : table) (cnt : nat) : Prop :=
  map fst t = p /\
  Forall (in_range k) (map snd t) /\
  cnt = qcount q t /\
  (sq = true -> SQ t) /\
  (iso = true -> ISO t).

Lemma others_in_range : forall k q c, In c (others k q) -> in_range k c /\ c <> q.
Proof.
  intros k q c H. unfold others in H. apply filter_In in H. destruct H as [H1 H2].
  apply in_map_iff in H1. destruct H1 as [i [Hi1 Hi]]. apply in_seq in Hi. subst c.
  split; [unfold in_range; lia|]. intros Hq. rewrite Hq, Z.eqb_refl in H2; discriminate.
Qed.

Lemma others_nonempty : forall k q, 2 <= k -> others k q <> [].
Proof.
  intros k q Hk H.
  assert (Hin : In (if (q =? 0)%Z then 1%Z else 0%Z) (others k q)).
  { unfold others. apply filter_In. split.
    - apply in_map_iff. exists (if (q =? 0)%Z then 1 else 0). split; [destruct (q =? 0)%Z; reflexivity|].
      apply in_seq. destruct (q =? 0)%Z; lia.
    - destruct (q =? 0)%Z eqn:E; [apply Z.eqb_eq in E; subst; reflexivity|].
      apply Z.eqb_neq in E. apply negb_true_iff. apply Z.eqb_neq. lia. }
  rewrite H in Hin. contradiction.
Qed.

Lemma choice_ok : forall {A} (d : A) l i, l <> [] -> exists x, choice d l i = Ok x /\ In x l.
Proof.
  intros A d l i H. destruct l as [|a l]; [contradiction|].
  unfold choice. eexists; split; [reflexivity|]. apply nth_In. apply Nat.mod_upper_bound. simpl; lia.
Qed.

Lemma Inv_extend : forall k q sq iso p t cnt s c,
  Inv k q sq iso p t cnt -> ~ In s p -> in_range k c ->
  (sq = true -> uniform s = true -> c = Z.of_nat (hd 0 s)) ->
  (iso = true -> In (rev s) p -> lookup (rev s) t = Some c) ->
  Inv k q sq iso (p ++ [s]) (tset s c t) (if (c =? q)%Z then S cnt else cnt).
Proof.
  intros k q sq iso p t cnt s c (Hk & Hr & Hc & Hsq & Hiso) Hs Hcr Hu Hm.
  assert (Hfresh : ~ In s (map fst t)) by (rewrite Hk; auto).
  assert (HN : lookup s t = None) by (apply lookup_None_iff; auto).
  split; [|split; [|split; [|split]]].
  - rewrite tset_fresh by auto. rewrite map_app, Hk. reflexivity.
  - apply values_tset; auto.
  - rewrite qcount_tset_fresh by auto. subst cnt. destruct (c =? q)%Z; simpl; lia.
  - intros Hsq1 a Ha Hua. rewrite lookup_tset.
    destruct (key_eqb s a) eqn:E.
    + apply key_eqb_spec in E; subst a. f_equal. auto.
    + apply key_eqb_false in E. apply Hsq; auto.
      rewrite tset_fresh, map_app in Ha by auto. apply in_app_or in Ha. destruct Ha as [Ha|[Ha|[]]]; auto.
      simpl in Ha. congruence.
  - intros Hiso1 a Ha Hra. rewrite !lookup_tset.
    rewrite tset_fresh, map_app, Hk in Ha, Hra by auto. simpl in Ha, Hra.
    apply in_app_or in Ha. apply in_app_or in Hra.
    destruct (key_eqb s a) eqn:E1; destruct (key_eqb s (rev a)) eqn:E2; auto.
    + apply key_eqb_spec in E1; subst a. apply key_eqb_false in E2.
      destruct Hra as [Hra|[Hra|[]]]; [|congruence]. apply Hm; auto.
    + apply key_eqb_spec in E2. apply key_eqb_false in E1.
      destruct Ha as [Ha|[Ha|[]]]; [|congruence].
      symmetry. rewrite <- (rev_involutive a), <- E2. apply Hm; auto.
      rewrite E2, rev_involutive; auto.
    + apply key_eqb_false in E1. apply key_eqb_false in E2.
      destruct Ha as [Ha|[Ha|[]]]; [|congruence]. destruct Hra as [Hra|[Hra|[]]]; [|congruence].
      apply Hiso; auto; rewrite Hk; auto.
Qed.

Lemma rrt_step_inv : forall k q lam sq iso p t cnt us cs s,
  2 <= k -> in_range k q -> Inv k q sq iso p t cnt -> ~ In s p -> Forall (fun d => d < k) s -> s <> [] ->
  exists t' cnt' us' cs', rrt_step k q lam sq iso (t, cnt, us, cs) s = Ok (t', cnt', us', cs') /\
    Inv k q sq iso (p ++ [s]) t' cnt'.
Proof.
  intros k q lam sq iso p t cnt us cs s Hk Hq HI Hs Hd Hne.
  unfold rrt_step.
  destruct (sq && uniform s) eqn:Esq.
  - apply andb_true_iff in Esq. destruct Esq as [E1 E2].
    assert (Hh : hd 0 s < k).
    { destruct s as [|d s']; [contradiction|]. inversion Hd; auto. }
    destruct (hd 0 s <? k) eqn:El; [|apply Nat.ltb_ge in El; lia].
    do 4 eexists. split; [reflexivity|].
    apply Inv_extend; auto.
    + unfold in_range; lia.
    + intros _ Hr. rewrite uniform_rev_eq in Hr by auto. contradiction.
  - destruct (if iso then lookup (rev s) t else None) as [c|] eqn:El.
    + do 4 eexists. split; [reflexivity|].
      destruct iso; [|discriminate].
      apply Inv_extend; auto.
      * destruct HI as (_ & Hr & _). eapply lookup_value; eauto.
      * intros E1 E2. rewrite E1, E2 in Esq. discriminate.
    + destruct (next 0%Q us) as [u us'].
      assert (Hmir : iso = true -> In (rev s) p -> False).
      { intros -> Hin. apply lookup_None_iff in El. apply El. destruct HI as (Hkeys & _). rewrite Hkeys; auto. }
      destruct (Qlt_bool u (1 - lam)).
      * do 4 eexists. split; [reflexivity|].
        assert (HX : Inv k q sq iso (p ++ [s]) (tset s q t) (if (q =? q)%Z then S cnt else cnt)).
        { apply Inv_extend; auto.
          - intros E1 E2. rewrite E1, E2 in Esq. discriminate.
          - intros E1 E2. exfalso; auto. }
        rewrite Z.eqb_refl in HX. exact HX.
      * destruct (next 0 cs) as [i cs'].
        destruct (choice_ok 0%Z (others k q) i (others_nonempty k q Hk)) as [c [Hc Hin]].
        rewrite Hc. simpl. do 4 eexists. split; [reflexivity|].
        apply others_in_range in Hin. destruct Hin as [Hcr Hcq].
        assert (HX : Inv k q sq iso (p ++ [s]) (tset s c t) (if (c =? q)%Z then S cnt else cnt)).
        { apply Inv_extend; auto.
          - intros E1 E2. rewrite E1, E2 in Esq. discriminate.
          - intros E1 E2. exfalso; auto. }
        apply Z.eqb_neq in Hcq. rewrite Hcq in HX. exact HX.
Qed.

Lemma rrt_fold_inv : forall k q lam sq iso l p t cnt us cs,
  2 <= k -> in_range k q -> Inv k q sq iso p t cnt -> NoDup (p ++ l) ->
  (forall s, In s l -> Forall (fun d => d < k) s /\ s <> []) ->
  exists t' cnt' us' cs', fold_res (rrt_step k q lam sq iso) l (t, cnt, us, cs) = Ok (t', cnt', us', cs') /\
    Inv k q sq iso (p ++ l) t' cnt'.
Proof.
  intros k q lam sq iso. induction l as [|s l IH]; intros p t cnt us cs Hk Hq HI ND Hl.
  - simpl. rewrite app_nil_r. do 4 eexists; split; [reflexivity | auto].
  - assert (Hs : ~ In s p).
    { intros Hin. apply NoDup_remove_2 in ND. apply ND. apply in_or_app; auto. }
    destruct (Hl s (or_introl eq_refl)) as [Hd Hne].
    destruct (rrt_step_inv k q lam sq iso p t cnt us cs s Hk Hq HI Hs Hd Hne) as (t1 & c1 & u1 & s1 & E & HI1).
    cbn [fold_res]. rewrite E. cbn [bind].
    replace (p ++ s :: l) with ((p ++ [s]) ++ l) in * by (rewrite <- app_assoc; reflexivity).
    apply IH; auto. intros a Ha. apply Hl. right; auto.
Qed.

Lemma Inv_nil : forall k q sq iso, Inv k q sq iso [] [] 0.
Proof.
  intros. split; [reflexivity|]. split; [constructor|]. split; [reflexivity|].
  split; intros _ s Hs; inversion Hs.
Qed.

(* the quiescent state the call uses *)
Definition q_used (qo : option Z) (o : oracle) : Z := match qo with Some q => q | None => o_randint o end.

Lemma rrt_spec : forall k r lam qo sq iso o,
  2 <= k <= 36 -> in_range k (q_used qo o) ->
  exists t cnt, random_rule_table k r lam qo sq iso o = Ok (t, lambda_of k (2 * r + 1) cnt, q_used qo o) /\
    Inv k (q_used qo o) sq iso (states k (2 * r + 1)) t cnt.
Proof.
  intros k r lam qo sq iso o [Hk Hk36] Hq. unfold random_rule_table. cbv zeta.
  assert (E1 : (k =? 1) || (36 <? k) = false).
  { apply orb_false_iff. split; [apply Nat.eqb_neq; lia | apply Nat.ltb_ge; lia]. }
  rewrite E1.
  set (lam' := match lam with Some l => Ok l | None => _ end).
  assert (El : exists l, lam' = Ok l).
  { subst lam'. destruct lam; eauto. destruct (k =? 0) eqn:E; [apply Nat.eqb_eq in E; lia | eauto]. }
  destruct El as [l ->]. cbn [bind]. fold (q_used qo o).
  assert (E2 : negb ((0 <=? q_used qo o)%Z && (q_used qo o <=? Z.of_nat k - 1)%Z) = false).
  { unfold in_range in Hq. apply negb_false_iff, andb_true_iff. split; [apply Z.leb_le | apply Z.leb_le]; lia. }
  rewrite E2.
  destruct (rrt_fold_inv k (q_used qo o) l sq iso (states k (2 * r + 1)) [] [] 0 (o_rand o) (o_choice o) Hk Hq
              (Inv_nil _ _ _ _)) as (t & cnt & us & cs & E & HI).
  - simpl. apply states_NoDup; lia.
  - intros s Hs. apply states_in in Hs; try lia. destruct Hs as [Hlen Hd]. split; auto.
    intros ->. simpl in Hlen. lia.
  - exists t, cnt.
    match goal with |- bind ?x _ = _ /\ _ => replace x with (@Ok rrt_state (t, cnt, us, cs)) by (symmetry; exact E) end.
    cbn [bind]. split; [reflexivity | exact HI].
Qed.

(* when the call returns, the arguments were admissible *)
Lemma rrt_ok_inv : forall k r lam qo sq iso o t l q,
  random_rule_table k r lam qo sq iso o = Ok (t, l, q) ->
  2 <= k <= 36 /\ q = q_used qo o /\ in_range k q.
Proof.
  intros k r lam qo sq iso o t l q H. unfold random_rule_table in H. cbv zeta in H.
  destruct ((k =? 1) || (36 <? k)) eqn:E1; [discriminate|].
  apply orb_false_iff in E1. destruct E1 as [Ea Eb]. apply Nat.eqb_neq in Ea. apply Nat.ltb_ge in Eb.
  destruct (match lam with Some l0 => Ok l0 | None => _ end) as [l0|e]; [|discriminate].
  cbn [bind] in H. fold (q_used qo o) in H.
  destruct (negb _) eqn:E2; [discriminate|].
  apply negb_false_iff, andb_true_iff in E2. destruct E2 as [E3 E4].
  apply Z.leb_le in E3. apply Z.leb_le in E4.
  destruct (fold_res _ _ _) as [[[[t1 c1] u1] s1]|e]; [|discriminate].
  cbn [bind] in H. inversion H; subst. unfold in_range. lia.
Qed.

Lemma rrt_full : forall k r lam qo sq iso o t l q,
  random_rule_table k r lam qo sq iso o = Ok (t, l, q) ->
  exists cnt, l = lambda_of k (2 * r + 1) cnt /\ q = q_used qo o /\ 2 <= k <= 36 /\ in_range k q /\
    Inv k q sq iso (states k (2 * r + 1)) t cnt.
Proof.
  intros k r lam qo sq iso o t l q H.
  destruct (rrt_ok_inv _ _ _ _ _ _ _ _ _ _ H) as (Hk & Hq & Hr). subst q.
  destruct (rrt_spec k r lam qo sq iso o Hk Hr) as (t' & cnt & E & HI).
  rewrite E in H. inversion H; subst. exists cnt. auto.
Qed.

(* ------------------------------------------------------------------ the rrt theorems *)
Lemma rrt_keys : forall k r lam qo sq iso o t l q,
  random_rule_table k r lam qo sq iso o = Ok (t, l, q) ->
  map fst t = states k (2 * r + 1) /\ NoDup (map fst t) /\ length t = k ^ (2 * r + 1) /\
  (forall s, In s (map fst t) <-> digit_string k (2 * r + 1) s).
Proof.
  intros k r lam qo sq iso o t l q H.
  destruct (rrt_full _ _ _ _ _ _ _ _ _ _ H) as (cnt & _ & _ & Hk & _ & (Hkeys & _)).
  split; auto. rewrite Hkeys. split; [apply states_NoDup; lia|].
  split; [rewrite <- (map_length fst), Hkeys; apply states_length|].
  intros s. apply states_in; lia.
Qed.

Lemma rrt_range : forall k r lam qo sq iso o t l q,
  random_rule_table k r lam qo sq iso o = Ok (t, l, q) ->
  Forall (in_range k) (map snd t) /\
  (forall s, digit_string k (2 * r + 1) s -> exists v, lookup s t = Some v /\ in_range k v).
Proof.
  intros k r lam qo sq iso o t l q H.
  destruct (rrt_full _ _ _ _ _ _ _ _ _ _ H) as (cnt & _ & _ & Hk & _ & (Hkeys & Hr & _)).
  split; auto. intros s Hs. apply states_in in Hs; try lia. rewrite <- Hkeys in Hs.
  destruct (lookup_in_keys s t Hs) as [v Hv]. exists v. split; auto. eapply lookup_value; eauto.
Qed.

Lemma rrt_strong_quiescence : forall k r lam qo iso o t l q,
  random_rule_table k r lam qo true iso o = Ok (t, l, q) ->
  forall d, d < k -> lookup (repeat d (2 * r + 1)) t = Some (Z.of_nat d).
Proof.
  intros k r lam qo iso o t l q H d Hd.
  destruct (rrt_full _ _ _ _ _ _ _ _ _ _ H) as (cnt & _ & _ & Hk & _ & (Hkeys & _ & _ & Hsq & _)).
  specialize (Hsq eq_refl (repeat d (2 * r + 1))).
  replace (2 * r + 1) with (S (2 * r)) in * by lia.
  rewrite Hsq; [reflexivity | | apply uniform_of_repeat].
  rewrite Hkeys. apply states_in; try lia. split; [apply repeat_length|].
  apply Forall_forall. intros x Hx. apply repeat_spec in Hx. subst; auto.
Qed.

Lemma rrt_isotropic : forall k r lam qo sq o t l q,
  random_rule_table k r lam qo sq true o = Ok (t, l, q) ->
  forall s, digit_string k (2 * r + 1) s -> lookup (rev s) t = lookup s t.
Proof.
  intros k r lam qo sq o t l q H s Hs.
  destruct (rrt_full _ _ _ _ _ _ _ _ _ _ H) as (cnt & _ & _ & Hk & _ & (Hkeys & _ & _ & _ & Hiso)).
  apply (Hiso eq_refl); rewrite Hkeys; apply states_in; try lia; auto. apply digit_string_rev; auto.
Qed.

Lemma rrt_lambda_true : forall k r lam qo sq iso o t l q,
  random_rule_table k r lam qo sq iso o = Ok (t, l, q) ->
  l = actual_lambda k r q t /\ q = q_used qo o.
Proof.
  intros k r lam qo sq iso o t l q H.
  destruct (rrt_full _ _ _ _ _ _ _ _ _ _ H) as (cnt & Hl & Hq & _ & _ & (_ & _ & Hc & _)).
  subst. split; reflexivity.
Qed.

(* the call returns exactly on 2 <= k <= 36 with the quiescent state in range; otherwise it raises *)
Lemma rrt_defined : forall k r lam qo sq iso o,
  (exists t l q, random_rule_table k r lam qo sq iso o = Ok (t, l, q)) <->
  (2 <= k <= 36 /\ in_range k (q_used qo o)).
Proof.
  intros. split.
  - intros (t & l & q & H). destruct (rrt_ok_inv _ _ _ _ _ _ _ _ _ _ H) as (Hk & -> & Hr). auto.
  - intros [Hk Hr]. destruct (rrt_spec k r lam qo sq iso o Hk Hr) as (t & cnt & E & _). eauto.
Qed.

(* ================================================================== table_walk_through *)
(* one perturbation: rule_table[s] = v, and with the isotropic flag also rule_table[s[::-1]] = v *)
Definition perturb (iso : bool) (s : key) (v : Z) (t : table) : table :=
  if iso then tset (rev s) v (tset s v t) else tset s v t.

Lemma mirror_spec : forall iso s v t cs, mirror iso s (tset s v t) cs = Ok (Cont (perturb iso s v t) cs).
Proof. intros. unfold mirror, perturb. destruct iso; auto. rewrite lookup_tset_same. reflexivity. Qed.

Lemma lookup_perturb : forall iso s v t a,
  lookup a (perturb iso s v t) = if (iso && key_eqb (rev s) a) || key_eqb s a then Some v else lookup a t.
Proof.
  intros. unfold perturb. destruct iso; cbn [andb]; rewrite ?lookup_tset;
    destruct (key_eqb (rev s) a), (key_eqb s a); reflexivity.
Qed.

Lemma tset_keys_in : forall s v t a, In a (map fst t) -> In a (map fst (tset s v t)).
Proof.
  induction t as [|[k0 w] t IH]; simpl; intros a H; [contradiction|].
  destruct (key_eqb k0 s); simpl in *; destruct H; auto.
Qed.

Lemma keys_perturb : forall iso s v t, In s (map fst t) -> (iso = true -> In (rev s) (map fst t)) ->
  map fst (perturb iso s v t) = map fst t.
Proof.
  intros iso s v t Hs Hr. unfold perturb. destruct iso.
  - rewrite keys_tset_in; [apply keys_tset_in; auto|]. rewrite keys_tset_in; auto.
  - apply keys_tset_in; auto.
Qed.

Lemma range_perturb : forall (P : Z -> Prop) iso s v t, Forall P (map snd t) -> P v -> Forall P (map snd (perturb iso s v t)).
Proof. intros. unfold perturb. destruct iso; repeat apply values_tset; auto. Qed.

Lemma b2n_refl : forall q, b2n (q =? q)%Z = 1.
Proof. intros; rewrite Z.eqb_refl; reflexivity. Qed.
Lemma b2n_neq : forall v q, v <> q -> b2n (v =? q)%Z = 0.
Proof. intros v q H. apply Z.eqb_neq in H. rewrite H. reflexivity. Qed.
Lemma b2n_le : forall b, b2n b <= 1.
Proof. destruct b; simpl; lia. Qed.

Lemma qcount_perturb_dec : forall q iso s v0 t, lookup s t = Some v0 -> v0 <> q ->
  qcount q t + 1 <= qcount q (perturb iso s q t).
Proof.
  intros q iso s v0 t H Hne. unfold perturb.
  pose proof (qcount_tset q s q v0 t H) as H1. rewrite b2n_refl, (b2n_neq v0 q Hne) in H1.
  destruct iso; [|lia].
  destruct (lookup (rev s) (tset s q t)) as [w|] eqn:E.
  - pose proof (qcount_tset q (rev s) q w _ E) as H2. rewrite b2n_refl in H2. pose proof (b2n_le (w =? q)%Z). lia.
  - pose proof (qcount_tset_fresh q (rev s) q _ E) as H2. lia.
Qed.

Lemma qcount_perturb_inc : forall q iso s v t, lookup s t = Some q -> v <> q ->
  qcount q (perturb iso s v t) + 1 <= qcount q t.
Proof.
  intros q iso s v t H Hne. unfold perturb.
  pose proof (qcount_tset q s v q t H) as H1. rewrite b2n_refl, (b2n_neq v q Hne) in H1.
  destruct iso; [|lia].
  destruct (lookup (rev s) (tset s v t)) as [w|] eqn:E.
  - pose proof (qcount_tset q (rev s) v w _ E) as H2. rewrite (b2n_neq v q Hne) in H2. lia.
  - pose proof (qcount_tset_fresh q (rev s) v _ E) as H2. rewrite (b2n_neq v q Hne) in H2. lia.
Qed.

Lemma rev_inj : forall (a b : key), rev a = rev b -> a = b.
Proof. intros a b H. rewrite <- (rev_involutive a), H. apply rev_involutive. Qed.

Lemma key_eqb_rev : forall a b, key_eqb (rev a) (rev b) = key_eqb a b.
Proof.
  intros a b. destruct (key_eqb a b) eqn:E.
  - apply key_eqb_spec in E; subst. apply key_eqb_refl.
  - apply key_eqb_neq. intros H. apply rev_inj in H. apply key_eqb_false in E. contradiction.
Qed.

Lemma key_eqb_rev_l : forall a b, key_eqb a (rev b) = key_eqb (rev a) b.
Proof. intros a b. rewrite <- (rev_involutive a) at 1. apply key_eqb_rev. Qed.

Lemma SQ_perturb : forall iso s v t, SQ t -> uniform s = false -> In s (map fst t) ->
  (iso = true -> In (rev s) (map fst t)) -> SQ (perturb iso s v t).
Proof.
  intros iso s v t H Hu Hs Hr a Ha Hua. rewrite keys_perturb in Ha by auto. rewrite lookup_perturb.
  assert (E1 : key_eqb (rev s) a = false).
  { apply key_eqb_neq. intros <-. rewrite uniform_rev in Hua. congruence. }
  assert (E2 : key_eqb s a = false).
  { apply key_eqb_neq. intros <-. congruence. }
  rewrite E1, E2, andb_false_r. simpl. apply H; auto.
Qed.

Lemma ISO_perturb : forall s v t, ISO t -> In s (map fst t) -> In (rev s) (map fst t) -> ISO (perturb true s v t).
Proof.
  intros s v t H Hs Hr a Ha Hra. rewrite keys_perturb in Ha, Hra by auto. rewrite !lookup_perturb. cbn [andb].
  rewrite key_eqb_rev, key_eqb_rev_l, (orb_comm (key_eqb s a)).
  destruct (key_eqb (rev s) a || key_eqb s a); auto.
Qed.

Lemma adm_dec_in : forall q sq t s, NoDup (map fst t) -> In s (adm_dec q sq t) ->
  exists v0, lookup s t = Some v0 /\ v0 <> q /\ In s (map fst t) /\ (sq = true -> uniform s = false).
Proof.
  intros q sq t s ND H. unfold adm_dec in H.
  assert (H' : In s (map fst (filter (fun kv => negb (snd kv =? q)%Z) t)) /\ (sq = true -> uniform s = false)).
  { destruct sq; [apply filter_In in H; destruct H as [H1 H2]; split; auto; intros _; apply negb_true_iff; auto
                 | split; auto; discriminate]. }
  destruct H' as [H1 H2]. apply in_map_iff in H1. destruct H1 as [[s' v0] [Hf Hin]]. simpl in Hf; subst s'.
  apply filter_In in Hin. destruct Hin as [Hin Hv]. simpl in Hv. apply negb_true_iff, Z.eqb_neq in Hv.
  exists v0. split; [apply lookup_In; auto|]. split; auto. split; auto.
  apply in_map_iff. exists (s, v0); auto.
Qed.

Lemma adm_inc_in : forall q sq t s, NoDup (map fst t) -> In s (adm_inc q sq t) ->
  lookup s t = Some q /\ In s (map fst t) /\ (sq = true -> uniform s = false).
Proof.
  intros q sq t s ND H. unfold adm_inc in H.
  assert (H' : In s (map fst (filter (fun kv => (snd kv =? q)%Z) t)) /\ (sq = true -> uniform s = false)).
  { destruct sq; [apply filter_In in H; destruct H as [H1 H2]; split; auto; intros _; apply negb_true_iff; auto
                 | split; auto; discriminate]. }
  destruct H' as [H1 H2]. apply in_map_iff in H1. destruct H1 as [[s' v0] [Hf Hin]]. simpl in Hf; subst s'.
  apply filter_In in Hin. destruct Hin as [Hin Hv]. simpl in Hv. apply Z.eqb_eq in Hv. subst v0.
  split; [apply lookup_In; auto|]. split; auto.
  apply in_map_iff. exists (s, q); auto.
Qed.

Lemma filter_all_neg_nil : forall {A} (f : A -> bool) l,
  length (filter f l) = length l -> filter (fun x => negb (f x)) l = [].
Proof.
  intros A f. induction l as [|x l IH]; simpl; intros H; auto.
  assert (Hle : length (filter f l) <= length l).
  { clear. induction l as [|y l IH]; simpl; auto. destruct (f y); simpl; lia. }
  destruct (f x); simpl in *; [apply IH; lia | lia].
Qed.

Lemma adm_dec_nil_of_full : forall q sq t, qcount q t = length t -> adm_dec q sq t = [].
Proof.
  intros q sq t H. unfold adm_dec, qcount in *.
  rewrite (filter_all_neg_nil (fun kv => (snd kv =? q)%Z) t H). destruct sq; reflexivity.
Qed.

Lemma adm_inc_nil_of_zero : forall q sq t, qcount q t = 0 -> adm_inc q sq t = [].
Proof.
  intros q sq t H. unfold adm_inc, qcount in *. apply length_zero_iff_nil in H. rewrite H. destruct sq; reflexivity.
Qed.

Lemma choice_in : forall {A} (d : A) l i x, choice d l i = Ok x -> In x l.
Proof.
  intros A d l i x H. destruct l as [|a l]; [discriminate|].
  assert (E : x = nth (i mod length (a :: l)) (a :: l) d) by (unfold choice in H; congruence).
  rewrite E. apply nth_In. apply Nat.mod_upper_bound. simpl; lia.
Qed.

Lemma dec_body_cont : forall q sq iso t cs t' cs', dec_body q sq iso t cs = Ok (Cont t' cs') ->
  exists s, In s (adm_dec q sq t) /\ t' = perturb iso s q t.
Proof.
  intros q sq iso t cs t' cs' H. unfold dec_body in H.
  destruct (adm_dec q sq t) as [|a l] eqn:Ea; [discriminate|].
  destruct (next 0 cs) as [i cs1].
  destruct (choice [] (a :: l) i) as [s|e] eqn:Ec; [|discriminate].
  cbn [bind] in H. rewrite mirror_spec in H. inversion H; subst.
  exists s. split; auto. eapply choice_in; eauto.
Qed.

Lemma dec_body_break : forall q sq iso t cs, dec_body q sq iso t cs = Ok Break -> adm_dec q sq t = [].
Proof.
  intros q sq iso t cs H. unfold dec_body in H.
  destruct (adm_dec q sq t) as [|a l] eqn:Ea; auto.
  destruct (next 0 cs) as [i cs1].
  destruct (choice [] (a :: l) i) as [s|e] eqn:Ec; [|discriminate].
  cbn [bind] in H. rewrite mirror_spec in H. discriminate.
Qed.

Lemma dec_body_total : forall q sq iso t cs, exists o, dec_body q sq iso t cs = Ok o.
Proof.
  intros q sq iso t cs. unfold dec_body.
  destruct (adm_dec q sq t) as [|a l] eqn:Ea; [eauto|].
  destruct (next 0 cs) as [i cs1].
  destruct (choice_ok [] (a :: l) i) as [s [Hc _]]; [discriminate|].
  rewrite Hc. cbn [bind]. rewrite mirror_spec. eauto.
Qed.

Lemma inc_body_cont : forall k q sq iso t cs t' cs', inc_body k q sq iso t cs = Ok (Cont t' cs') ->
  exists s v, In s (adm_inc q sq t) /\ In v (others k q) /\ t' = perturb iso s v t.
Proof.
  intros k q sq iso t cs t' cs' H. unfold inc_body in H.
  destruct (adm_inc q sq t) as [|a l] eqn:Ea; [discriminate|].
  destruct (next 0 cs) as [i cs1].
  destruct (choice [] (a :: l) i) as [s|e] eqn:Ec; [|discriminate].
  cbn [bind] in H. destruct (next 0 cs1) as [j cs2].
  destruct (choice 0%Z (others k q) j) as [v|e] eqn:Ev; [|discriminate].
  cbn [bind] in H. rewrite mirror_spec in H. inversion H; subst.
  exists s, v. split; [eapply choice_in; eauto|]. split; [eapply choice_in; eauto | reflexivity].
Qed.

Lemma inc_body_break : forall k q sq iso t cs, inc_body k q sq iso t cs = Ok Break -> adm_inc q sq t = [].
Proof.
  intros k q sq iso t cs H. unfold inc_body in H.
  destruct (adm_inc q sq t) as [|a l] eqn:Ea; auto.
  destruct (next 0 cs) as [i cs1].
  destruct (choice [] (a :: l) i) as [s|e] eqn:Ec; [|discriminate].
  cbn [bind] in H. destruct (next 0 cs1) as [j cs2].
  destruct (choice 0%Z (others k q) j) as [v|e] eqn:Ev; [|discriminate].
  cbn [bind] in H. rewrite mirror_spec in H. discriminate.
Qed.

Lemma inc_body_total : forall k q sq iso t cs, 2 <= k -> exists o, inc_body k q sq iso t cs = Ok o.
Proof.
  intros k q sq iso t cs Hk. unfold inc_body.
  destruct (adm_inc q sq t) as [|a l] eqn:Ea; [eauto|].
  destruct (next 0 cs) as [i cs1].
  destruct (choice_ok [] (a :: l) i) as [s [Hc _]]; [discriminate|].
  rewrite Hc. cbn [bind]. destruct (next 0 cs1) as [j cs2].
  destruct (choice_ok 0%Z (others k q) j (others_nonempty k q Hk)) as [v [Hv _]].
  rewrite Hv. cbn [bind]. rewrite mirror_spec. eauto.
Qed.

(* ------------------------------------------------------------------ the generic loop *)
Section Loop.
  Variable guard : table -> bool.
  Variable body : table -> list nat -> res step_out.
  Variable P : table -> nat -> Prop.
  Variable L : nat.
  Hypothesis step : forall t a cs t' cs',
    P t a -> guard t = true -> a < length t -> body t cs = Ok (Cont t' cs') -> P t' (S a).
  Hypothesis len : forall t a, P t a -> length t = L.
  Hypothesis total : forall t a cs, P t a -> exists o, body t cs = Ok o.

  Lemma walk_loop_inv : forall fuel t a cs t' cs',
    P t a -> walk_loop guard body fuel t a cs = Ok (Some (t', cs')) ->
    exists a', P t' a' /\ (guard t' = false \/ length t' <= a' \/ exists cs0, body t' cs0 = Ok Break).
  Proof.
    induction fuel as [|f IH]; intros t a cs t' cs' HP H; cbn [walk_loop] in H; [discriminate|].
    destruct (guard t && (a <? length t)) eqn:G.
    - apply andb_true_iff in G. destruct G as [G1 G2]. apply Nat.ltb_lt in G2.
      destruct (body t cs) as [o|e] eqn:B; cbn [bind] in H; [|discriminate].
      destruct o as [|t1 cs1].
      + inversion H; subst. exists a. split; auto. right; right. eauto.
      + eapply IH; [|exact H]. eapply step; eauto.
    - inversion H; subst. exists a. split; auto.
      apply andb_false_iff in G. destruct G as [G|G]; [left; auto | right; left; apply Nat.ltb_ge; auto].
  Qed.

  (* the loop's own bound `attempts < len(rule_table)` is sufficient fuel *)
  Lemma walk_loop_total : forall fuel t a cs,
    P t a -> L - a < fuel -> exists r, walk_loop guard body fuel t a cs = Ok (Some r).
  Proof.
    induction fuel as [|f IH]; intros t a cs HP Hf; [lia|]. cbn [walk_loop].
    destruct (guard t && (a <? length t)) eqn:G; [|eauto].
    apply andb_true_iff in G. destruct G as [G1 G2]. apply Nat.ltb_lt in G2.
    destruct (total t a cs HP) as [o B]. rewrite B. cbn [bind].
    destruct o as [|t1 cs1]; [eauto|].
    apply IH; [eapply step; eauto|]. rewrite (len t a HP) in G2. lia.
  Qed.
End Loop.

(* ------------------------------------------------------------------ Q helpers *)
Lemma Qlt_bool_true : forall a b, Qlt_bool a b = true -> (a < b)%Q.
Proof. intros a b H. unfold Qlt_bool in H. apply Qlt_alt. destruct (a ?= b)%Q; auto; discriminate. Qed.

Lemma Qlt_bool_false : forall a b, Qlt_bool a b = false -> (b <= a)%Q.
Proof.
  intros a b H. apply Qnot_lt_le. intros Hlt. apply Qlt_alt in Hlt. unfold Qlt_bool in H. unfold Qcompare in *. rewrite Hlt in H. discriminate.
Qed.

Lemma Qlt_bool_of_lt : forall a b, (a < b)%Q -> Qlt_bool a b = true.
Proof. intros a b H. apply Qlt_alt in H. unfold Qlt_bool. unfold Qcompare in *. rewrite H. reflexivity. Qed.

Lemma lambda_of_mono : forall k n c1 c2, c1 <= c2 -> (lambda_of k n c2 <= lambda_of k n c1)%Q.
Proof.
  intros k n c1 c2 H. unfold lambda_of, Qle. cbn [Qnum Qden].
  apply Z.mul_le_mono_nonneg_r; [apply Pos2Z.is_nonneg | lia].
Qed.

(* ------------------------------------------------------------------ both loops *)
(* What the walk-through needs of the key list: a dict has distinct keys, and with the isotropic flag the
   mirror image of a key must be a key (otherwise `rule_table[s[::-1]] = ...` would ADD an entry).
   Nothing about the ORDER of the keys. *)
Definition closed_keys (iso : bool) (t : table) : Prop :=
  NoDup (map fst t) /\ (iso = true -> forall s, In s (map fst t) -> In (rev s) (map fst t)).

(* the key SET is the full set of k-colour neighbourhood strings of length n, in any order *)
Definition full_keys (k n : nat) (t : table) : Prop :=
  NoDup (map fst t) /\ (forall s, In s (map fst t) <-> digit_string k n s).

Lemma full_keys_closed : forall k n iso t, full_keys k n t -> closed_keys iso t.
Proof.
  intros k n iso t [ND H]. split; auto. intros _ s Hs. apply H. apply digit_string_rev. apply H; auto.
Qed.

Lemma canonical_full_keys : forall k n (t : table), 2 <= k -> 1 <= n -> map fst t = states k n -> full_keys k n t.
Proof.
  intros k n t Hk Hn H. split; rewrite H; [apply states_NoDup; auto | intros s; apply states_in; auto].
Qed.

Section Walk.
  Variables (k r : nat) (q : Z) (lam : Q) (sq iso : bool) (t0 : table).
  Hypothesis Hk : 2 <= k.
  Hypothesis WF0 : closed_keys iso t0.

  Definition Pcommon (t : table) : Prop :=
    map fst t = map fst t0 /\
    (Forall (in_range k) (map snd t0) -> in_range k q -> Forall (in_range k) (map snd t)) /\
    (sq = true -> SQ t0 -> SQ t) /\
    (iso = true -> ISO t0 -> ISO t).

  Definition Pdec (t : table) (a : nat) : Prop :=
    Pcommon t /\ qcount q t0 + a <= qcount q t /\
    (t = t0 \/ exists tp cs0 cs1, dec_guard k r q lam tp = true /\ dec_body q sq iso tp cs0 = Ok (Cont t cs1)).

  Definition Pinc (t : table) (a : nat) : Prop :=
    Pcommon t /\ qcount q t + a <= qcount q t0 /\
    (t = t0 \/ exists tp cs0 cs1, inc_guard k r q lam tp = true /\ inc_body k q sq iso tp cs0 = Ok (Cont t cs1)).

  Lemma Pcommon_init : Pcommon t0.
  Proof. split; auto. Qed.

  Lemma keys_NoDup : forall t : table, map fst t = map fst t0 -> NoDup (map fst t).
  Proof. intros t H. rewrite H. exact (proj1 WF0). Qed.

  Lemma Pcommon_perturb : forall t s v, Pcommon t -> In s (map fst t) -> (sq = true -> uniform s = false) ->
    (in_range k q -> in_range k v) -> Pcommon (perturb iso s v t).
  Proof.
    intros t s v (Hkeys & Hr & Hsq & Hiso) Hs Hu Hv.
    assert (Hrev : iso = true -> In (rev s) (map fst t)).
    { intros E. rewrite Hkeys in *. apply (proj2 WF0); auto. }
    split; [|split; [|split]].
    - rewrite keys_perturb; auto.
    - intros H1 H2. apply range_perturb; auto.
    - intros E H1. apply SQ_perturb; auto.
    - intros E H1. specialize (Hrev E). rewrite E. apply ISO_perturb; auto.
  Qed.

  Lemma Pdec_step : forall t a cs t' cs',
    Pdec t a -> dec_guard k r q lam t = true -> a < length t -> dec_body q sq iso t cs = Ok (Cont t' cs') -> Pdec t' (S a).
  Proof.
    intros t a cs t' cs' (HC & Hq & _) G _ B.
    destruct (dec_body_cont _ _ _ _ _ _ _ B) as [s [Hin ->]].
    destruct (adm_dec_in q sq t s (keys_NoDup t (proj1 HC)) Hin) as (v0 & Hl & Hne & Hk' & Hu).
    split; [|split].
    - apply Pcommon_perturb; auto.
    - pose proof (qcount_perturb_dec q iso s v0 t Hl Hne). lia.
    - right. exists t, cs, cs'. auto.
  Qed.

  Lemma Pinc_step : forall t a cs t' cs',
    Pinc t a -> inc_guard k r q lam t = true -> a < length t -> inc_body k q sq iso t cs = Ok (Cont t' cs') -> Pinc t' (S a).
  Proof.
    intros t a cs t' cs' (HC & Hq & _) G _ B.
    destruct (inc_body_cont _ _ _ _ _ _ _ _ B) as [s [v [Hin [Hv ->]]]].
    destruct (adm_inc_in q sq t s (keys_NoDup t (proj1 HC)) Hin) as (Hl & Hk' & Hu).
    apply others_in_range in Hv. destruct Hv as [Hvr Hvq].
    split; [|split].
    - apply Pcommon_perturb; auto.
    - pose proof (qcount_perturb_inc q iso s v t Hl Hvq). lia.
    - right. exists t, cs, cs'. auto.
  Qed.

  Lemma P_len : forall t, Pcommon t -> length t = length t0.
  Proof. intros t (H & _). rewrite <- (map_length fst t), H, map_length. reflexivity. Qed.

  (* outcome of the "reduce lambda" loop *)
  Lemma dec_loop_spec : forall cs, exists t' cs',
    walk_loop (dec_guard k r q lam) (dec_body q sq iso) (S (length t0)) t0 0 cs = Ok (Some (t', cs')) /\
    Pcommon t' /\ qcount q t0 <= qcount q t' /\
    ((actual_lambda k r q t' <= lam)%Q \/ adm_dec q sq t' = []) /\
    (t' = t0 \/ exists tp cs0 cs1, (lam < actual_lambda k r q tp)%Q /\ dec_body q sq iso tp cs0 = Ok (Cont t' cs1)).
  Proof.
    intros cs.
    assert (H0 : Pdec t0 0) by (split; [apply Pcommon_init | split; [lia | auto]]).
    destruct (walk_loop_total (dec_guard k r q lam) (dec_body q sq iso) Pdec (length t0) Pdec_step
                (fun t a HP => P_len t (proj1 HP)) (fun t a cs _ => dec_body_total q sq iso t cs)
                (S (length t0)) t0 0 cs H0) as [[t' cs'] E]; [lia|].
    exists t', cs'. split; auto.
    destruct (walk_loop_inv _ _ Pdec Pdec_step _ _ _ _ _ _ H0 E) as (a' & (HC & Hq & Hlast) & Hexit).
    split; auto. split; [lia|]. split.
    - destruct Hexit as [G | [G | [cs0 G]]].
      + left. apply Qlt_bool_false; auto.
      + right. apply adm_dec_nil_of_full. pose proof (qcount_le_length q t'). lia.
      + right. eapply dec_body_break; eauto.
    - destruct Hlast as [Hl | (tp & cs0 & cs1 & G & B)]; [left; auto | right].
      exists tp, cs0, cs1. split; auto. apply Qlt_bool_true; auto.
  Qed.

  (* outcome of the "increase lambda" loop *)
  Lemma inc_loop_spec : forall cs, exists t' cs',
    walk_loop (inc_guard k r q lam) (inc_body k q sq iso) (S (length t0)) t0 0 cs = Ok (Some (t', cs')) /\
    Pcommon t' /\ qcount q t' <= qcount q t0 /\
    ((lam <= actual_lambda k r q t')%Q \/ adm_inc q sq t' = []) /\
    (t' = t0 \/ exists tp cs0 cs1, (actual_lambda k r q tp < lam)%Q /\ inc_body k q sq iso tp cs0 = Ok (Cont t' cs1)).
  Proof.
    intros cs.
    assert (H0 : Pinc t0 0) by (split; [apply Pcommon_init | split; [lia | auto]]).
    destruct (walk_loop_total (inc_guard k r q lam) (inc_body k q sq iso) Pinc (length t0) Pinc_step
                (fun t a HP => P_len t (proj1 HP)) (fun t a cs _ => inc_body_total k q sq iso t cs Hk)
                (S (length t0)) t0 0 cs H0) as [[t' cs'] E]; [lia|].
    exists t', cs'. split; auto.
    destruct (walk_loop_inv _ _ Pinc Pinc_step _ _ _ _ _ _ H0 E) as (a' & (HC & Hq & Hlast) & Hexit).
    split; auto. split; [lia|]. split.
    - destruct Hexit as [G | [G | [cs0 G]]].
      + left. apply Qlt_bool_false; auto.
      + right. apply adm_inc_nil_of_zero. pose proof (qcount_le_length q t0). rewrite (P_len t' HC) in G. lia.
      + right. eapply inc_body_break; eauto.
    - destruct Hlast as [Hl | (tp & cs0 & cs1 & G & B)]; [left; auto | right].
      exists tp, cs0, cs1. split; auto. apply Qlt_bool_true; auto.
  Qed.
End Walk.

(* ------------------------------------------------------------------ the walk-through theorems *)
Lemma twt_spec : forall t lam k r q sq iso cs, 2 <= k -> closed_keys iso t ->
  exists t', table_walk_through t lam k r q sq iso cs = Ok (Some (t', actual_lambda k r q t')) /\
    Pcommon k q sq iso t t' /\
    ((actual_lambda k r q t == lam)%Q -> t' = t) /\
    ((lam < actual_lambda k r q t)%Q ->
       qcount q t <= qcount q t' /\
       ((actual_lambda k r q t' <= lam)%Q \/ adm_dec q sq t' = []) /\
       (t' = t \/ exists tp cs0 cs1, (lam < actual_lambda k r q tp)%Q /\ dec_body q sq iso tp cs0 = Ok (Cont t' cs1))) /\
    ((actual_lambda k r q t < lam)%Q ->
       qcount q t' <= qcount q t /\
       ((lam <= actual_lambda k r q t')%Q \/ adm_inc q sq t' = []) /\
       (t' = t \/ exists tp cs0 cs1, (actual_lambda k r q tp < lam)%Q /\ inc_body k q sq iso tp cs0 = Ok (Cont t' cs1))).
Proof.
  intros t lam k r q sq iso cs Hk WF. unfold table_walk_through.
  destruct (k =? 0) eqn:E0; [apply Nat.eqb_eq in E0; lia|].
  destruct (actual_lambda k r q t ?= lam)%Q eqn:C.
  - exists t. split; [reflexivity|]. split; [apply Pcommon_init|]. split; [auto|]. split.
    + intros H. apply Qgt_alt in H. unfold Qcompare in *. congruence.
    + intros H. apply Qlt_alt in H. unfold Qcompare in *. congruence.
  - destruct (inc_loop_spec k r q lam sq iso t Hk WF cs) as (t' & cs' & E & HC & Hq & Hstop & Hlast).
    exists t'. rewrite E. cbn [bind finish]. split; [reflexivity|]. split; auto. split; [|split].
    + intros H. apply Qeq_alt in H. unfold Qcompare in *. congruence.
    + intros H. apply Qgt_alt in H. unfold Qcompare in *. congruence.
    + intros _. auto.
  - destruct (dec_loop_spec k r q lam sq iso t Hk WF cs) as (t' & cs' & E & HC & Hq & Hstop & Hlast).
    exists t'. rewrite E. cbn [bind finish]. split; [reflexivity|]. split; auto. split; [|split].
    + intros H. apply Qeq_alt in H. unfold Qcompare in *. congruence.
    + intros _. auto.
    + intros H. apply Qlt_alt in H. unfold Qcompare in *. congruence.
Qed.

Lemma twt_result : forall t lam k r q sq iso cs t' l', 2 <= k -> closed_keys iso t ->
  table_walk_through t lam k r q sq iso cs = Ok (Some (t', l')) ->
  l' = actual_lambda k r q t' /\ Pcommon k q sq iso t t' /\
    ((actual_lambda k r q t == lam)%Q -> t' = t) /\
    ((lam < actual_lambda k r q t)%Q ->
       qcount q t <= qcount q t' /\
       ((actual_lambda k r q t' <= lam)%Q \/ adm_dec q sq t' = []) /\
       (t' = t \/ exists tp cs0 cs1, (lam < actual_lambda k r q tp)%Q /\ dec_body q sq iso tp cs0 = Ok (Cont t' cs1))) /\
    ((actual_lambda k r q t < lam)%Q ->
       qcount q t' <= qcount q t /\
       ((lam <= actual_lambda k r q t')%Q \/ adm_inc q sq t' = []) /\
       (t' = t \/ exists tp cs0 cs1, (actual_lambda k r q tp < lam)%Q /\ inc_body k q sq iso tp cs0 = Ok (Cont t' cs1))).
Proof.
  intros t lam k r q sq iso cs t' l' Hk WF H.
  destruct (twt_spec t lam k r q sq iso cs Hk WF) as (t1 & E & Hrest).
  rewrite E in H. inversion H; subst. split; auto.
Qed.

(* never out of fuel, never an exception: the loop's own `attempts` bound is sufficient fuel *)
Lemma twt_terminates : forall t lam k r q sq iso cs, 2 <= k -> closed_keys iso t ->
  exists t' l', table_walk_through t lam k r q sq iso cs = Ok (Some (t', l')).
Proof.
  intros t lam k r q sq iso cs Hk WF.
  destruct (twt_spec t lam k r q sq iso cs Hk WF) as (t1 & E & _). eauto.
Qed.

Lemma twt_preserves : forall t lam k r q sq iso cs t' l', 2 <= k -> closed_keys iso t ->
  table_walk_through t lam k r q sq iso cs = Ok (Some (t', l')) ->
  map fst t' = map fst t /\
  (in_range k q -> Forall (in_range k) (map snd t) -> Forall (in_range k) (map snd t')) /\
  (sq = true -> SQ t -> SQ t') /\
  (iso = true -> ISO t -> ISO t').
Proof.
  intros t lam k r q sq iso cs t' l' Hk WF H.
  destruct (twt_result _ _ _ _ _ _ _ _ _ _ Hk WF H) as (_ & (H1 & H2 & H3 & H4) & _).
  split; [exact H1|]. split; auto.
Qed.

Lemma twt_monotone : forall t lam k r q sq iso cs t' l', 2 <= k -> closed_keys iso t ->
  table_walk_through t lam k r q sq iso cs = Ok (Some (t', l')) ->
  ((lam <= actual_lambda k r q t)%Q ->
     qcount q t <= qcount q t' /\ (actual_lambda k r q t' <= actual_lambda k r q t)%Q) /\
  ((actual_lambda k r q t <= lam)%Q ->
     qcount q t' <= qcount q t /\ (actual_lambda k r q t <= actual_lambda k r q t')%Q).
Proof.
  intros t lam k r q sq iso cs t' l' Hk WF H.
  destruct (twt_result _ _ _ _ _ _ _ _ _ _ Hk WF H) as (_ & _ & Heq & Hgt & Hlt).
  assert (Hsame : t' = t -> qcount q t <= qcount q t' /\ qcount q t' <= qcount q t) by (intros ->; lia).
  split; intros Hle.
  - assert (Hc : qcount q t <= qcount q t').
    { destruct (Q_dec lam (actual_lambda k r q t)) as [[Hl|Hg]|He].
      - apply Hgt; auto.
      - exfalso. apply (Qlt_not_le _ _ Hg); auto.
      - apply Hsame. apply Heq. symmetry; auto. }
    split; auto. apply lambda_of_mono; auto.
  - assert (Hc : qcount q t' <= qcount q t).
    { destruct (Q_dec lam (actual_lambda k r q t)) as [[Hl|Hg]|He].
      - exfalso. apply (Qlt_not_le _ _ Hl); auto.
      - apply Hlt; auto.
      - apply Hsame. apply Heq. symmetry; auto. }
    split; auto. apply lambda_of_mono; auto.
Qed.

(* every single perturbation moves the quiescent count strictly in the loop's direction *)
Lemma twt_step_monotone : forall (t : table) k q sq iso cs t' cs', NoDup (map fst t) ->
  (dec_body q sq iso t cs = Ok (Cont t' cs') -> qcount q t < qcount q t') /\
  (inc_body k q sq iso t cs = Ok (Cont t' cs') -> qcount q t' < qcount q t).
Proof.
  intros t k q sq iso cs t' cs' ND.
  split; intros B.
  - destruct (dec_body_cont _ _ _ _ _ _ _ B) as [s [Hin ->]].
    destruct (adm_dec_in q sq t s ND Hin) as (v0 & Hl & Hne & _).
    pose proof (qcount_perturb_dec q iso s v0 t Hl Hne). lia.
  - destruct (inc_body_cont _ _ _ _ _ _ _ _ B) as [s [v [Hin [Hv ->]]]].
    destruct (adm_inc_in q sq t s ND Hin) as (Hl & _).
    apply others_in_range in Hv. destruct Hv as [_ Hvq].
    pose proof (qcount_perturb_inc q iso s v t Hl Hvq). lia.
Qed.

Lemma twt_stop : forall t lam k r q sq iso cs t' l', 2 <= k -> closed_keys iso t ->
  table_walk_through t lam k r q sq iso cs = Ok (Some (t', l')) ->
  ((actual_lambda k r q t == lam)%Q -> t' = t) /\
  ((lam < actual_lambda k r q t)%Q ->
     ((actual_lambda k r q t' <= lam)%Q \/ adm_dec q sq t' = []) /\
     (t' = t \/ exists tp cs0 cs1, (lam < actual_lambda k r q tp)%Q /\ dec_body q sq iso tp cs0 = Ok (Cont t' cs1))) /\
  ((actual_lambda k r q t < lam)%Q ->
     ((lam <= actual_lambda k r q t')%Q \/ adm_inc q sq t' = []) /\
     (t' = t \/ exists tp cs0 cs1, (actual_lambda k r q tp < lam)%Q /\ inc_body k q sq iso tp cs0 = Ok (Cont t' cs1))).
Proof.
  intros t lam k r q sq iso cs t' l' Hk WF H.
  destruct (twt_result _ _ _ _ _ _ _ _ _ _ Hk WF H) as (_ & _ & Heq & Hgt & Hlt).
  split; auto. split; intros Hc; [apply Hgt in Hc | apply Hlt in Hc]; tauto.
Qed.

Lemma twt_lambda_true : forall t lam k r q sq iso cs t' l',
  table_walk_through t lam k r q sq iso cs = Ok (Some (t', l')) -> l' = actual_lambda k r q t'.
Proof.
  intros t lam k r q sq iso cs t' l' H. unfold table_walk_through in H.
  destruct (k =? 0); [discriminate|].
  destruct (actual_lambda k r q t ?= lam)%Q.
  - inversion H; subst; reflexivity.
  - destruct (walk_loop _ _ _ _ _ _) as [[[t1 c1]|]|e]; cbn [bind finish] in H; inversion H; subst; reflexivity.
  - destruct (walk_loop _ _ _ _ _ _) as [[[t1 c1]|]|e]; cbn [bind finish] in H; inversion H; subst; reflexivity.
Qed.

(* ================================================================== table_rule *)
Lemma table_rule_lookup : forall nb t,
  (forall v, table_rule nb t = Ok v <-> lookup (state_repr nb) t = Some v) /\
  (table_rule nb t = Raise ValueError <-> ~ In (state_repr nb) (map fst t)) /\
  (forall e, table_rule nb t = Raise e -> e = ValueError).
Proof.
  intros nb t. unfold table_rule. rewrite <- lookup_None_iff.
  destruct (lookup (state_repr nb) t) as [v|]; split; [|split| |split].
  - intros w. split; intros H; inversion H; reflexivity.
  - split; discriminate.
  - discriminate.
  - intros w. split; discriminate.
  - split; reflexivity.
  - intros e H. inversion H; reflexivity.
Qed.

Lemma base_repr_small : forall x b, 2 <= b -> x < b -> base_repr x b = [x].
Proof.
  intros x b Hb Hx. unfold base_repr. destruct (x =? 0) eqn:E; [apply Nat.eqb_eq in E; subst; reflexivity|].
  destruct x as [|f]; [discriminate|]. cbn [digits_lsb]. rewrite E.
  rewrite Nat.mod_small, Nat.div_small, digits_lsb_zero by lia. reflexivity.
Qed.

Lemma val_digits_lsb : forall b, 2 <= b -> forall fuel i, i <= fuel -> val b (digits_lsb fuel i b) = i.
Proof.
  intros b Hb. induction fuel as [|f IH]; intros i Hi; cbn [digits_lsb].
  - simpl. lia.
  - destruct (i =? 0) eqn:E; [apply Nat.eqb_eq in E; subst; reflexivity|]. apply Nat.eqb_neq in E.
    cbn [val]. rewrite IH.
    + rewrite Nat.add_comm. symmetry. apply Nat.div_mod. lia.
    + assert (i / b < i) by (apply Nat.div_lt; lia). lia.
Qed.

(* str(x) is the decimal numeral of x (most significant digit first), for every x *)
Lemma base_repr_value : forall x b, 2 <= b -> val b (rev (base_repr x b)) = x.
Proof.
  intros x b Hb. unfold base_repr. destruct (x =? 0) eqn:E.
  - apply Nat.eqb_eq in E; subst. simpl. lia.
  - rewrite rev_involutive. apply val_digits_lsb; auto.
Qed.

Lemma state_repr_digits : forall nb, Forall (fun d => d < 10) nb -> state_repr nb = nb.
Proof.
  unfold state_repr. induction nb as [|x nb IH]; intros H; cbn [map concat]; auto.
  inversion H; subst. rewrite base_repr_small by lia. rewrite IH by auto. reflexivity.
Qed.

(* for k <= 10 the table built by random_rule_table answers every k-colour neighbourhood *)
Lemma rrt_table_rule : forall k r lam qo sq iso o t l q nb,
  random_rule_table k r lam qo sq iso o = Ok (t, l, q) -> k <= 10 -> digit_string k (2 * r + 1) nb ->
  exists v, table_rule nb t = Ok v /\ in_range k v /\ lookup nb t = Some v.
Proof.
  intros k r lam qo sq iso o t l q nb H Hk Hnb.
  destruct (rrt_range _ _ _ _ _ _ _ _ _ _ H) as [_ Hr].
  destruct (Hr nb Hnb) as [v [Hv Hvr]]. exists v. split; [|auto].
  unfold table_rule. rewrite state_repr_digits, Hv; auto.
  destruct Hnb as [_ Hd]. eapply Forall_impl; [|exact Hd]. simpl. intros; lia.
Qed.

(* ================================================================== walk-through: full key SET in any order *)
(* The versions quoted by Properties/C17.v: the table's keys are distinct and are exactly the k-colour
   strings of length 2r+1, in ANY order (the lemmas above need even less: closed_keys). *)
Section FullKeys.
  Variables (t : table) (lam : Q) (k r : nat) (q : Z) (sq iso : bool) (cs : list nat).
  Hypothesis Hk : 2 <= k.
  Hypothesis ND : NoDup (map fst t).
  Hypothesis FK : forall s, In s (map fst t) <-> (length s = 2 * r + 1 /\ Forall (fun d => d < k) s).

  Lemma FK_closed : closed_keys iso t.
  Proof. apply (full_keys_closed k (2 * r + 1)). split; auto. Qed.

  Lemma twt_terminates_full : exists t' l', table_walk_through t lam k r q sq iso cs = Ok (Some (t', l')).
  Proof. apply twt_terminates; auto. apply FK_closed. Qed.

  Lemma twt_preserves_full : forall t' l',
    table_walk_through t lam k r q sq iso cs = Ok (Some (t', l')) ->
    map fst t' = map fst t /\
    (in_range k q -> Forall (in_range k) (map snd t) -> Forall (in_range k) (map snd t')) /\
    (sq = true -> SQ t -> SQ t') /\
    (iso = true -> ISO t -> ISO t').
  Proof. intros t' l'. apply twt_preserves; auto. apply FK_closed. Qed.

  Lemma twt_monotone_full : forall t' l',
    table_walk_through t lam k r q sq iso cs = Ok (Some (t', l')) ->
    ((lam <= actual_lambda k r q t)%Q ->
       qcount q t <= qcount q t' /\ (actual_lambda k r q t' <= actual_lambda k r q t)%Q) /\
    ((actual_lambda k r q t <= lam)%Q ->
       qcount q t' <= qcount q t /\ (actual_lambda k r q t <= actual_lambda k r q t')%Q).
  Proof. intros t' l'. apply twt_monotone; auto. apply FK_closed. Qed.

  Lemma twt_stop_full : forall t' l',
    table_walk_through t lam k r q sq iso cs = Ok (Some (t', l')) ->
    ((actual_lambda k r q t == lam)%Q -> t' = t) /\
    ((lam < actual_lambda k r q t)%Q ->
       ((actual_lambda k r q t' <= lam)%Q \/ adm_dec q sq t' = []) /\
       (t' = t \/ exists tp cs0 cs1, (lam < actual_lambda k r q tp)%Q /\ dec_body q sq iso tp cs0 = Ok (Cont t' cs1))) /\
    ((actual_lambda k r q t < lam)%Q ->
       ((lam <= actual_lambda k r q t')%Q \/ adm_inc q sq t' = []) /\
       (t' = t \/ exists tp cs0 cs1, (actual_lambda k r q tp < lam)%Q /\ inc_body k q sq iso tp cs0 = Ok (Cont t' cs1))).
  Proof. intros t' l'. apply twt_stop; auto. apply FK_closed. Qed.
End FullKeys.

(* the canonical order of random_rule_table is one instance *)
Lemma states_full_keys : forall k r (t : table), 2 <= k -> map fst t = states k (2 * r + 1) ->
  NoDup (map fst t) /\ (forall s, In s (map fst t) <-> (length s = 2 * r + 1 /\ Forall (fun d => d < k) s)).
Proof. intros k r t Hk H. apply (canonical_full_keys k (2 * r + 1) t); auto. lia. Qed.

Lemma canonical_closed : forall k r iso (t : table), 2 <= k -> map fst t = states k (2 * r + 1) -> closed_keys iso t.
Proof. intros k r iso t Hk H. apply (full_keys_closed k (2 * r + 1)). apply canonical_full_keys; auto. lia. Qed.

(* canonical-order corollaries (the statements of the first version of Properties/C17.v) *)
Lemma twt_terminates_canonical : forall t lam k r q sq iso cs, 2 <= k -> map fst t = states k (2 * r + 1) ->
  exists t' l', table_walk_through t lam k r q sq iso cs = Ok (Some (t', l')).
Proof. intros. apply twt_terminates; auto. eapply canonical_closed; eauto. Qed.

Lemma twt_preserves_canonical : forall t lam k r q sq iso cs t' l', 2 <= k -> map fst t = states k (2 * r + 1) ->
  table_walk_through t lam k r q sq iso cs = Ok (Some (t', l')) ->
  map fst t' = states k (2 * r + 1) /\
  (in_range k q -> Forall (in_range k) (map snd t) -> Forall (in_range k) (map snd t')) /\
  (sq = true -> SQ t -> SQ t') /\ (iso = true -> ISO t -> ISO t').
Proof.
  intros t lam k r q sq iso cs t' l' Hk WF H.
  destruct (twt_preserves t lam k r q sq iso cs t' l' Hk (canonical_closed k r iso t Hk WF) H) as (H1 & H2).
  split; [congruence | exact H2].
Qed.

(* ================================================================== doubles and rationals *)
(* The code compares the DOUBLE fl((K - c)/K) with the DOUBLE target x; the model compares the rational
   (K - c)/K with a rational lam.  For any rounding fl that is monotone and fixes the doubles, the two
   comparisons agree when lam is read off the double x as follows:
     - x is not the double of the grid point a:  lam := the exact value of x     (reading_offgrid)
     - x = fl(b) for a grid point b = c0/K:      lam := b, provided fl is strictly monotone on the two grid
       points compared (true for K < 2^52: neighbouring grid points are 1/K > 1 ulp apart)   (reading_ongrid)
   Python's int / int is correctly rounded, so fl((K-c)/K) IS the double the code holds; it is exact
   (fl a == a) iff K is a power of two. *)
Section DoubleReading.
  Variable fl : Q -> Q.
  Hypothesis fl_mono : forall a b, (a <= b)%Q -> (fl a <= fl b)%Q.

  Lemma reading_offgrid : forall a x, (fl x == x)%Q -> ~ (fl a == x)%Q -> (a ?= x)%Q = (fl a ?= x)%Q.
  Proof.
    intros a x Hx Hne.
    destruct (Q_dec (fl a) x) as [[Hl|Hg]|He]; [| |contradiction].
    - assert (Ha : (a < x)%Q).
      { apply Qnot_le_lt. intros Hle. apply fl_mono in Hle. rewrite Hx in Hle. apply (Qlt_not_le _ _ Hl); auto. }
      apply Qlt_alt in Ha. apply Qlt_alt in Hl. unfold Qcompare in *. congruence.
    - assert (Ha : (x < a)%Q).
      { apply Qnot_le_lt. intros Hle. apply fl_mono in Hle. rewrite Hx in Hle. apply (Qlt_not_le _ _ Hg); auto. }
      apply Qgt_alt in Ha. apply Qgt_alt in Hg. unfold Qcompare in *. congruence.
  Qed.

  Lemma reading_ongrid : forall a b,
    ((a < b)%Q -> (fl a < fl b)%Q) -> ((b < a)%Q -> (fl b < fl a)%Q) -> (forall c d, (c == d)%Q -> (fl c == fl d)%Q) ->
    (a ?= b)%Q = (fl a ?= fl b)%Q.
  Proof.
    intros a b H1 H2 Hc.
    destruct (Q_dec a b) as [[Hl|Hg]|He].
    - pose proof (H1 Hl) as Hf. apply Qlt_alt in Hl. apply Qlt_alt in Hf. unfold Qcompare in *. congruence.
    - pose proof (H2 Hg) as Hf. apply Qgt_alt in Hg. apply Qgt_alt in Hf. unfold Qcompare in *. congruence.
    - pose proof (Hc _ _ He) as Hf. apply Qeq_alt in He. apply Qeq_alt in Hf. unfold Qcompare in *. congruence.
  Qed.
End DoubleReading.
