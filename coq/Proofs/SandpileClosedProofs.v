(* C14, closed boundary at the engine level: one step of evolve2d with Sandpile(rows, cols, True) and no
   addition at that step holds every boundary cell at 0 and applies the BTW toppling formula to every other
   cell (the neighbours are torus positions; for an interior cell of the R x C grid with rows = R, cols = C
   they are its four grid neighbours, see `interior_neighbours`).  No premise on the entry grid is needed. *)
From Coq Require Import ZArith Lia ZifyBool ZifyNat.
From CPL Require Import Model.Base Model.Rules Model.Engine Model.Evolve2D Model.Sandpile.
From CPL Require Import Proofs.Evolve2DProofs Proofs.SandpileProofs.
Local Open Scope Z_scope.

Theorem sandpile_is_btw_closed : forall rows cols adds ty g R C t u,
  wf_grid R C g -> (1 <= R)%nat -> (1 <= C)%nat -> no_addition_at adds t ->
  let g' := snd (step_plain2d (sandpile_rule rows cols true adds) store_id 1 ty u g t) in
  wf_grid R C g' /\
  forall row col, (row < R)%nat -> (col < C)%nat ->
    cell g' row col =
      if in_boundary rows cols (row, col) then 0
      else cell g row col - 4 * tp (cell g row col)
           + tp (cell g (up R row) col) + tp (cell g row (up C col))
           + tp (cell g row (dn C col)) + tp (cell g (dn R row) col).
Proof.
  intros rows cols adds ty g R C t u Hwf HR HC Hno. cbv zeta.
  rewrite (sandpile_step rows cols true adds ty g R C t u Hwf HR HC). split; [apply wf_grid_of|].
  intros row col Hrow Hcol. rewrite cell_grid_of by assumption.
  unfold sand_cell. cbn [andb]. destruct (in_boundary rows cols (row, col)); [reflexivity|].
  rewrite scheduled_none by exact Hno. reflexivity.
Qed.

(* for a cell that Sandpile(R, C)._is_in_boundary rejects, up / dn are the plain neighbours row -+ 1, col -+ 1 *)
Lemma interior_neighbours R C row col : (row < R)%nat -> (col < C)%nat -> in_boundary R C (row, col) = false ->
  up R row = (row - 1)%nat /\ dn R row = (row + 1)%nat /\ up C col = (col - 1)%nat /\ dn C col = (col + 1)%nat /\
  (1 <= row)%nat /\ (row + 1 < R)%nat /\ (1 <= col)%nat /\ (col + 1 < C)%nat.
Proof.
  intros Hrow Hcol Hb. unfold in_boundary in Hb. cbn [fst snd] in Hb.
  assert (H : (1 <= row)%nat /\ (row + 1 < R)%nat /\ (1 <= col)%nat /\ (col + 1 < C)%nat) by lia.
  destruct H as (H1 & H2 & H3 & H4). unfold up, dn.
  replace (row + R - 1)%nat with (row - 1 + 1 * R)%nat by lia.
  replace (col + C - 1)%nat with (col - 1 + 1 * C)%nat by lia.
  rewrite !Nat.mod_add by lia. rewrite !Nat.mod_small by lia. repeat split; lia.
Qed.

(* the same statement with the neighbours written as grid neighbours (documented use rows = R, cols = C) *)
Theorem sandpile_is_btw_closed_interior : forall adds ty g R C t u,
  wf_grid R C g -> (1 <= R)%nat -> (1 <= C)%nat -> no_addition_at adds t ->
  let g' := snd (step_plain2d (sandpile_rule R C true adds) store_id 1 ty u g t) in
  forall row col, (row < R)%nat -> (col < C)%nat ->
    (in_boundary R C (row, col) = true -> cell g' row col = 0) /\
    (in_boundary R C (row, col) = false ->
       cell g' row col = cell g row col - 4 * tp (cell g row col)
         + tp (cell g (row - 1) col) + tp (cell g row (col - 1))
         + tp (cell g row (col + 1)) + tp (cell g (row + 1) col)).
Proof.
  intros adds ty g R C t u Hwf HR HC Hno. cbv zeta. intros row col Hrow Hcol.
  destruct (sandpile_is_btw_closed R C adds ty g R C t u Hwf HR HC Hno) as [_ H].
  rewrite (H row col Hrow Hcol). split; intros Hb; rewrite Hb; [reflexivity|].
  destruct (interior_neighbours R C row col Hrow Hcol Hb) as (E1 & E2 & E3 & E4 & _).
  rewrite E1, E2, E3, E4. reflexivity.
Qed.
