(* C15 — table-independent proofs about Model/CTRBL.v and Model/Loops.v.
   The theorems that depend on the regenerated tables are in GenProps/C15Tables.v; they are one-line
   instances of the `*_gen` lemmas below, each closed by one vm_compute sweep. *)
From Coq Require Import ZArith Lia ZifyBool ZifyNat FMapPositive.
From CPL Require Import Model.Base Model.CTRBL Model.Loops Model.SayamaSpec.
Local Open Scope Z_scope.

(* ================================================================== keys *)
Lemma key_eqb_eq : forall a b, key_eqb a b = true <-> a = b.
Proof.
  intros [[[[c1 t1] r1] b1] l1] [[[[c2 t2] r2] b2] l2]. unfold key_eqb.
  rewrite !andb_true_iff, !Z.eqb_eq. split.
  - intros [[[[H1 H2] H3] H4] H5]. subst. reflexivity.
  - intros H. inversion H. subst. tauto.
Qed.

Lemma key_eqb_refl : forall a, key_eqb a a = true.
Proof. intros a. apply key_eqb_eq. reflexivity. Qed.

Lemma key_eqb_neq : forall a b, key_eqb a b = false <-> a <> b.
Proof.
  intros a b. split.
  - intros H E. apply key_eqb_eq in E. congruence.
  - intros H. destruct (key_eqb a b) eqn:E; [apply key_eqb_eq in E; contradiction | reflexivity].
Qed.

Lemma key_eqb_sym : forall a b, key_eqb a b = key_eqb b a.
Proof.
  intros a b. destruct (key_eqb a b) eqn:E.
  - apply key_eqb_eq in E. subst. symmetry. apply key_eqb_refl.
  - symmetry. apply key_eqb_neq. apply key_eqb_neq in E. congruence.
Qed.

(* r.insert(1, r.pop(4)) on a 5-tuple *)
Lemma rot_spec : forall c t r b l, rot (c, t, r, b, l) = (c, l, t, r, b).
Proof. reflexivity. Qed.

Lemma rot4 : forall k, rot (rot (rot (rot k))) = k.
Proof. intros [[[[c t] r] b] l]. reflexivity. Qed.

Lemma rot_inj : forall a b, rot a = rot b -> a = b.
Proof. intros a b H. rewrite <- (rot4 a), <- (rot4 b). rewrite H. reflexivity. Qed.

(* ================================================================== dict semantics *)
Lemma dict_get_set : forall d k k' v,
  dict_get k (dict_set k' v d) = if key_eqb k k' then Some v else dict_get k d.
Proof.
  induction d as [|[k0 v0] d IH]; intros k k' v; cbn [dict_set dict_get].
  - reflexivity.
  - destruct (key_eqb k' k0) eqn:E0; cbn [dict_get].
    + apply key_eqb_eq in E0. subst k0. destruct (key_eqb k k'); reflexivity.
    + rewrite IH. destruct (key_eqb k k') eqn:E1; [|reflexivity].
      apply key_eqb_eq in E1. subst k'. rewrite E0. reflexivity.
Qed.

Lemma dict_get_In : forall d k v, dict_get k d = Some v -> In (k, v) d.
Proof.
  induction d as [|[k0 v0] d IH]; intros k v H; cbn [dict_get] in H; [discriminate|].
  destruct (key_eqb k k0) eqn:E.
  - apply key_eqb_eq in E. inversion H. subst. left. reflexivity.
  - right. apply IH. exact H.
Qed.

Lemma dict_get_None : forall d k, dict_get k d = None <-> (forall v, ~ In (k, v) d).
Proof.
  induction d as [|[k0 v0] d IH]; intros k; cbn [dict_get].
  - split; [intros _ v []| reflexivity].
  - destruct (key_eqb k k0) eqn:E.
    + apply key_eqb_eq in E. subst. split; [discriminate|]. intros H. exfalso. apply (H v0). left. reflexivity.
    + rewrite IH. apply key_eqb_neq in E. split.
      * intros H v [H1|H1]; [inversion H1; congruence | exact (H v H1)].
      * intros H v H1. apply (H v). right. exact H1.
Qed.

(* ================================================================== ctrbl_lookup *)
(* the answer is the table entry of (C,T,R,B,L); ValueError iff there is none *)
Lemma ctrbl_lookup : forall t k,
  (forall v, ctrbl_call t k = Ok v <-> dict_get k t = Some v) /\
  (ctrbl_call t k = Raise ValueError <-> dict_get k t = None) /\
  (forall e, ctrbl_call t k = Raise e -> e = ValueError) /\
  (forall v, ctrbl_call t k = Ok v -> In (k, v) t) /\
  (ctrbl_call t k = Raise ValueError <-> forall v, ~ In (k, v) t).
Proof.
  intros t k. unfold ctrbl_call.
  pose proof (dict_get_In t k) as HI. pose proof (dict_get_None t k) as HN.
  destruct (dict_get k t) as [w|].
  - repeat split; try congruence; try discriminate.
    + intros v H. apply HI. congruence.
    + intros H. apply HN in H. discriminate.
  - repeat split; try congruence; try discriminate.
    intros _. apply HN. reflexivity.
Qed.

(* which cells of the 3x3 block make the key *)
Lemma key_of_block : forall a0 a1 a2 b0 b1 b2 c0 c1 c2,
  key_of_nbhd [[a0; a1; a2]; [b0; b1; b2]; [c0; c1; c2]] = (b1, a1, b2, c1, b0).
Proof. reflexivity. Qed.

(* ================================================================== rotation classes *)
Definition same_class (k k' : key) : bool :=
  key_eqb k (rot (rot (rot k'))) || (key_eqb k (rot (rot k')) || (key_eqb k (rot k') || key_eqb k k')).

Lemma same_class_spec : forall k k',
  same_class k k' = true <-> (k = k' \/ k = rot k' \/ k = rot (rot k') \/ k = rot (rot (rot k'))).
Proof. intros k k'. unfold same_class. rewrite !orb_true_iff, !key_eqb_eq. tauto. Qed.

Lemma same_class_rot_l : forall k k', same_class (rot k) k' = same_class k k'.
Proof.
  intros k k'. apply eq_true_iff_eq. rewrite !same_class_spec.
  split; intros [H|[H|[H|H]]].
  - right. right. right. rewrite <- H. symmetry. apply rot4.
  - left. apply rot_inj. exact H.
  - right. left. apply rot_inj. exact H.
  - right. right. left. apply rot_inj. exact H.
  - right. left. congruence.
  - right. right. left. congruence.
  - right. right. right. congruence.
  - left. rewrite H. apply rot4.
Qed.

Lemma same_class_refl : forall k, same_class k k = true.
Proof. intros k. apply same_class_spec. left. reflexivity. Qed.

Lemma same_class_sym : forall k k', same_class k k' = true -> same_class k' k = true.
Proof.
  intros k k'. rewrite !same_class_spec. intros [H|[H|[H|H]]]; subst k.
  - left. reflexivity.
  - right. right. right. symmetry. apply rot4.
  - right. right. left. rewrite rot4. reflexivity.
  - right. left. rewrite rot4. reflexivity.
Qed.

Lemma same_class_rot_r : forall k k', same_class k (rot k') = same_class k k'.
Proof.
  intros k k'. destruct (same_class k k') eqn:E.
  - apply same_class_sym. rewrite same_class_rot_l. apply same_class_sym. exact E.
  - destruct (same_class k (rot k')) eqn:E2; [|reflexivity].
    apply same_class_sym in E2. rewrite same_class_rot_l in E2. apply same_class_sym in E2. congruence.
Qed.

Lemma same_class_trans : forall a b c, same_class a b = true -> same_class b c = true -> same_class a c = true.
Proof.
  intros a b c H1 H2. apply same_class_spec in H1.
  destruct H1 as [H|[H|[H|H]]]; subst a; rewrite ?same_class_rot_l; exact H2.
Qed.

(* ================================================================== _init_rule_table *)
(* the image of the last listed entry whose key lies in the rotation class of k *)
Definition last_in_class (k : key) (rt : table) : option Z :=
  fold_left (fun acc e => if same_class k (fst e) then Some (snd e) else acc) rt None.
(* the image of the last listed entry with key k *)
Definition last_with_key (k : key) (rt : table) : option Z :=
  fold_left (fun acc e => if key_eqb k (fst e) then Some (snd e) else acc) rt None.

Lemma add_entry_get_rot : forall acc rule image k,
  dict_get k (add_entry true acc (rule, image)) = if same_class k rule then Some image else dict_get k acc.
Proof.
  intros acc rule image k. unfold add_entry, same_class. rewrite !dict_get_set.
  destruct (key_eqb k (rot (rot (rot rule)))); [reflexivity|].
  destruct (key_eqb k (rot (rot rule))); [reflexivity|].
  destruct (key_eqb k (rot rule)); [reflexivity|].
  destruct (key_eqb k rule); reflexivity.
Qed.

Lemma add_entry_get_plain : forall acc rule image k,
  dict_get k (add_entry false acc (rule, image)) = if key_eqb k rule then Some image else dict_get k acc.
Proof. intros. unfold add_entry. apply dict_get_set. Qed.

Lemma init_get_rot_acc : forall rt acc k,
  dict_get k (fold_left (add_entry true) rt acc)
  = fold_left (fun a e => if same_class k (fst e) then Some (snd e) else a) rt (dict_get k acc).
Proof.
  induction rt as [|[rule image] rt IH]; intros acc k; cbn [fold_left]; [reflexivity|].
  rewrite IH, add_entry_get_rot. reflexivity.
Qed.

Lemma init_get_plain_acc : forall rt acc k,
  dict_get k (fold_left (add_entry false) rt acc)
  = fold_left (fun a e => if key_eqb k (fst e) then Some (snd e) else a) rt (dict_get k acc).
Proof.
  induction rt as [|[rule image] rt IH]; intros acc k; cbn [fold_left]; [reflexivity|].
  rewrite IH, add_entry_get_plain. reflexivity.
Qed.

(* with add_rotations: every key answers with the LAST listed image of its rotation class *)
Lemma init_get_rot : forall rt k, dict_get k (init_rule_table rt true) = last_in_class k rt.
Proof. intros. unfold init_rule_table, last_in_class. rewrite init_get_rot_acc. reflexivity. Qed.

Lemma init_get_plain : forall rt k, dict_get k (init_rule_table rt false) = last_with_key k rt.
Proof. intros. unfold init_rule_table, last_with_key. rewrite init_get_plain_acc. reflexivity. Qed.

Lemma last_in_class_rot : forall rt k, last_in_class (rot k) rt = last_in_class k rt.
Proof.
  intros rt k. unfold last_in_class. generalize (@None Z).
  induction rt as [|e rt IH]; intros a; cbn [fold_left]; [reflexivity|].
  rewrite same_class_rot_l. apply IH.
Qed.

(* generic fold facts for "last entry satisfying p" *)
Lemma last_sat_app : forall (p : key -> bool) (rt : table) (e : key * Z) (a : option Z),
  fold_left (fun acc e => if p (fst e) then Some (snd e) else acc) (rt ++ [e]) a
  = if p (fst e) then Some (snd e) else fold_left (fun acc e => if p (fst e) then Some (snd e) else acc) rt a.
Proof. intros. rewrite fold_left_app. reflexivity. Qed.

Lemma last_sat_Some : forall (p : key -> bool) (rt : table) (v : Z),
  fold_left (fun acc e => if p (fst e) then Some (snd e) else acc) rt None = Some v ->
  exists k', In (k', v) rt /\ p k' = true.
Proof.
  intros p rt. induction rt as [|e rt IH] using rev_ind; intros v H.
  - discriminate.
  - rewrite last_sat_app in H. destruct (p (fst e)) eqn:E.
    + inversion H. exists (fst e). split; [|exact E]. apply in_or_app. right. left. destruct e; reflexivity.
    + destruct (IH v H) as [k' [H1 H2]]. exists k'. split; [apply in_or_app; left; exact H1 | exact H2].
Qed.

Lemma last_sat_None : forall (p : key -> bool) (rt : table),
  fold_left (fun acc e => if p (fst e) then Some (snd e) else acc) rt None = None <->
  (forall k' v, In (k', v) rt -> p k' = false).
Proof.
  intros p rt. induction rt as [|e rt IH] using rev_ind.
  - split; [intros _ k' v [] | reflexivity].
  - rewrite last_sat_app. destruct (p (fst e)) eqn:E.
    + split; [discriminate|]. intros H. destruct e as [k0 v0]. cbn [fst] in E. rewrite (H k0 v0) in E; [discriminate|].
      apply in_or_app. right. left. reflexivity.
    + rewrite IH. split.
      * intros H k' v Hin. apply in_app_or in Hin. destruct Hin as [Hin|[Hin|[]]]; [exact (H k' v Hin)|].
        subst e. exact E.
      * intros H k' v Hin. apply (H k' v). apply in_or_app. left. exact Hin.
Qed.

(* ---- rotations_closed, for every user table (any length, any states, conflicts allowed) *)
Lemma rotations_closed : forall rt k,
  ctrbl_call (init_rule_table rt true) (rot k) = ctrbl_call (init_rule_table rt true) k.
Proof. intros rt k. unfold ctrbl_call. rewrite !init_get_rot, last_in_class_rot. reflexivity. Qed.

Lemma rotations_closed_four : forall rt c t r b l,
  let T := init_rule_table rt true in
  ctrbl_call T (c, l, t, r, b) = ctrbl_call T (c, t, r, b, l) /\
  ctrbl_call T (c, b, l, t, r) = ctrbl_call T (c, t, r, b, l) /\
  ctrbl_call T (c, r, b, l, t) = ctrbl_call T (c, t, r, b, l).
Proof.
  intros rt c t r b l T. unfold T.
  pose proof (rotations_closed rt (c, t, r, b, l)) as H1.
  pose proof (rotations_closed rt (c, l, t, r, b)) as H2.
  pose proof (rotations_closed rt (c, b, l, t, r)) as H3.
  rewrite rot_spec in H1, H2, H3. repeat split; congruence.
Qed.

(* which image wins when the input lists conflicting images inside one rotation class: the last listed *)
Lemma rotations_last_wins : forall rt1 k' v rt2 k,
  same_class k k' = true ->
  (forall k'' v'', In (k'', v'') rt2 -> same_class k k'' = false) ->
  ctrbl_call (init_rule_table (rt1 ++ (k', v) :: rt2) true) k = Ok v.
Proof.
  intros rt1 k' v rt2 k Hc Hlater. unfold ctrbl_call. rewrite init_get_rot. unfold last_in_class.
  rewrite fold_left_app. cbn [fold_left fst snd]. rewrite Hc.
  assert (forall a, fold_left (fun acc e => if same_class k (fst e) then Some (snd e) else acc) rt2 (Some a) = Some a) as Hk.
  { induction rt2 as [|[k2 v2] rt2 IH]; intros a; cbn [fold_left fst snd]; [reflexivity|].
    rewrite (Hlater k2 v2) by (left; reflexivity). apply IH. intros k'' v'' Hin. apply (Hlater k'' v''). right. exact Hin. }
  rewrite Hk. reflexivity.
Qed.

(* under the property's hypothesis "one image per rotation class" the answer is that image *)
Definition one_image_per_class (rt : table) : Prop :=
  forall k1 v1 k2 v2, In (k1, v1) rt -> In (k2, v2) rt -> same_class k1 k2 = true -> v1 = v2.

Lemma rotations_image : forall rt, one_image_per_class rt ->
  forall k' v k, In (k', v) rt -> same_class k k' = true ->
  ctrbl_call (init_rule_table rt true) k = Ok v.
Proof.
  intros rt H1 k' v k Hin Hc. unfold ctrbl_call. rewrite init_get_rot. unfold last_in_class.
  destruct (fold_left _ rt None) as [w|] eqn:E.
  - apply last_sat_Some in E. destruct E as [k2 [Hin2 Hc2]].
    assert (w = v) as ->; [|reflexivity].
    apply (H1 k2 w k' v Hin2 Hin). apply same_class_trans with k; [apply same_class_sym; exact Hc2 | exact Hc].
  - exfalso. pose proof (proj1 (last_sat_None (same_class k) rt) E k' v Hin) as F. congruence.
Qed.

(* ValueError exactly on the keys whose rotation class is not mentioned by the input *)
Lemma rotations_absent : forall rt k,
  ctrbl_call (init_rule_table rt true) k = Raise ValueError <->
  (forall k' v, In (k', v) rt -> same_class k k' = false).
Proof.
  intros rt k. unfold ctrbl_call. rewrite init_get_rot. unfold last_in_class.
  rewrite <- (last_sat_None (same_class k) rt).
  destruct (fold_left _ rt None); split; congruence.
Qed.

(* ---- without add_rotations *)
Definition nodup_keys (d : table) : Prop := NoDup (map fst d).

Lemma dict_set_fresh : forall d k v, dict_get k d = None -> dict_set k v d = d ++ [(k, v)].
Proof.
  induction d as [|[k0 v0] d IH]; intros k v H; cbn [dict_set dict_get app] in *; [reflexivity|].
  destruct (key_eqb k k0); [discriminate|]. rewrite IH by exact H. reflexivity.
Qed.

Lemma dict_get_notin_keys : forall d k, ~ In k (map fst d) -> dict_get k d = None.
Proof.
  intros d k H. apply dict_get_None. intros v Hin. apply H. apply in_map_iff. exists (k, v). split; [reflexivity|exact Hin].
Qed.

Lemma init_plain_acc : forall rt acc, NoDup (map fst (acc ++ rt)) ->
  fold_left (add_entry false) rt acc = acc ++ rt.
Proof.
  induction rt as [|[k v] rt IH]; intros acc H; cbn [fold_left].
  - rewrite app_nil_r. reflexivity.
  - unfold add_entry at 2. rewrite dict_set_fresh.
    + rewrite IH; rewrite <- app_assoc; [reflexivity | exact H].
    + apply dict_get_notin_keys. rewrite map_app in H. cbn [map fst] in H.
      apply NoDup_remove_2 in H. intros Hin. apply H. apply in_or_app. left. exact Hin.
Qed.

(* a dict (distinct keys, as rule_table.items() always is) passes through unchanged, order included *)
Lemma init_no_rotations_identity : forall rt, nodup_keys rt -> init_rule_table rt false = rt.
Proof. intros rt H. unfold init_rule_table. rewrite init_plain_acc; [reflexivity | exact H]. Qed.

Lemma dict_set_keys : forall d k v,
  map fst (dict_set k v d) = if dict_get k d then map fst d else map fst d ++ [k].
Proof.
  induction d as [|[k0 v0] d IH]; intros k v; cbn [dict_set dict_get map fst app]; [reflexivity|].
  destruct (key_eqb k k0) eqn:E; cbn [map fst]; [reflexivity|].
  rewrite IH. destruct (dict_get k d); reflexivity.
Qed.

Lemma NoDup_snoc : forall (l : list key) x, NoDup l -> ~ In x l -> NoDup (l ++ [x]).
Proof.
  induction l as [|y l IH]; intros x H Hx; cbn [app].
  - constructor; [intros []|constructor].
  - inversion H as [|y' l' Hy Hl]; subst. constructor.
    + intros Hin. apply in_app_or in Hin. destruct Hin as [Hin|[Hin|[]]]; [contradiction|].
      subst. apply Hx. left. reflexivity.
    + apply IH; [exact Hl|]. intros Hin. apply Hx. right. exact Hin.
Qed.

Lemma dict_set_nodup : forall d k v, nodup_keys d -> nodup_keys (dict_set k v d).
Proof.
  intros d k v H. unfold nodup_keys. rewrite dict_set_keys.
  destruct (dict_get k d) eqn:E; [exact H|].
  apply NoDup_snoc; [exact H|].
  intros Hin. apply in_map_iff in Hin. destruct Hin as [[k1 v1] [H1 H3]].
  cbn [fst] in H1. subst k1. apply (proj1 (dict_get_None d k) E v1 H3).
Qed.

(* a Python dict never holds a key twice *)
Lemma py_dict_nodup : forall items, nodup_keys (py_dict items).
Proof.
  intros items. unfold py_dict.
  assert (forall acc, nodup_keys acc ->
          nodup_keys (fold_left (fun d e => dict_set (fst e) (snd e) d) items acc)) as H.
  { induction items as [|e items IH]; intros acc Ha; cbn [fold_left]; [exact Ha|].
    apply IH. apply dict_set_nodup. exact Ha. }
  apply H. constructor.
Qed.

(* CTRBLRule(dict, add_rotations=False).rule_table is the dict *)
Lemma ctrbl_new_no_rotations : forall items, ctrbl_new items false = py_dict items.
Proof. intros. unfold ctrbl_new. apply init_no_rotations_identity. apply py_dict_nodup. Qed.

(* ================================================================== the trie answers like the dict *)
Lemma pack_inj : forall k k', key_small k = true -> key_small k' = true -> pack k = pack k' -> k = k'.
Proof.
  intros [[[[c1 t1] r1] b1] l1] [[[[c2 t2] r2] b2] l2] H1 H2 H.
  unfold key_small, small in H1, H2. unfold pack in H.
  apply Z2Pos.inj in H; [|lia|lia].
  assert (c1 = c2 /\ t1 = t2 /\ r1 = r2 /\ b1 = b2 /\ l1 = l2) as [-> [-> [-> [-> ->]]]] by lia.
  reflexivity.
Qed.

Lemma fast_get_correct : forall d k, key_small k = true -> fast_get k (compile d) = dict_get k d.
Proof.
  intros d k Hk. unfold fast_get.
  induction d as [|[k0 v0] d IH]; cbn [compile fold_right dict_get fst snd].
  - apply PositiveMap.gempty.
  - fold (compile d). destruct (key_eqb k k0) eqn:E.
    + apply key_eqb_eq in E. subst k0. rewrite Hk. apply PositiveMap.gss.
    + destruct (key_small k0) eqn:Hs; [|exact IH].
      rewrite PositiveMap.gso; [exact IH|].
      intros Hp. apply pack_inj in Hp; [|exact Hk|exact Hs]. apply key_eqb_neq in E. contradiction.
Qed.

Lemma rot_small : forall k, key_small k = true -> key_small (rot k) = true.
Proof. intros [[[[c t] r] b] l]. rewrite rot_spec. unfold key_small. intros H. lia. Qed.

(* ================================================================== finite sweeps *)
Lemma In_states : forall n x, 0 <= x < Z.of_nat n -> In x (states n).
Proof.
  intros n x H. unfold states. apply in_map_iff. exists (Z.to_nat x). split; [lia|].
  apply in_seq. lia.
Qed.

Lemma forall5b_spec : forall dom f, forall5b dom f = true ->
  forall c t r b l, In c dom -> In t dom -> In r dom -> In b dom -> In l dom -> f (c, t, r, b, l) = true.
Proof.
  intros dom f H c t r b l Hc Ht Hr Hb Hl. unfold forall5b in H.
  rewrite forallb_forall in H. specialize (H c Hc).
  rewrite forallb_forall in H. specialize (H t Ht).
  rewrite forallb_forall in H. specialize (H r Hr).
  rewrite forallb_forall in H. specialize (H b Hb).
  rewrite forallb_forall in H. exact (H l Hl).
Qed.

Lemma states_small : forall n c t r b l, (n <= 16)%nat ->
  0 <= c < Z.of_nat n -> 0 <= t < Z.of_nat n -> 0 <= r < Z.of_nat n -> 0 <= b < Z.of_nat n -> 0 <= l < Z.of_nat n ->
  key_small (c, t, r, b, l) = true.
Proof. intros. unfold key_small, small. lia. Qed.

(* a complete sweep over {0..n-1}^5 of a boolean property of keys *)
Lemma sweep : forall n f, forall5b (states n) f = true ->
  forall c t r b l, 0 <= c < Z.of_nat n -> 0 <= t < Z.of_nat n -> 0 <= r < Z.of_nat n ->
    0 <= b < Z.of_nat n -> 0 <= l < Z.of_nat n -> f (c, t, r, b, l) = true.
Proof. intros n f H c t r b l Hc Ht Hr Hb Hl. apply (forall5b_spec _ _ H); apply In_states; assumption. Qed.

Lemma opt_eqb_eq : forall a b, opt_eqb a b = true <-> a = b.
Proof.
  intros [x|] [y|]; cbn [opt_eqb]; split; intros H; try discriminate; try reflexivity.
  - apply Z.eqb_eq in H. subst. reflexivity.
  - inversion H. apply Z.eqb_refl.
Qed.

Lemma fast_ctrbl_correct : forall tbl k, key_small k = true -> fast_ctrbl (compile tbl) k = dict_get k tbl.
Proof. intros. unfold fast_ctrbl. apply fast_get_correct. assumption. Qed.

Lemma fast_sdsr_correct : forall tbl k, key_small k = true -> fast_sdsr (compile tbl) k = sdsr_call tbl k.
Proof. intros. unfold fast_sdsr, sdsr_call. rewrite fast_get_correct by assumption. reflexivity. Qed.

Lemma fast_evoloop_correct : forall tbl k, key_small k = true -> fast_evoloop (compile tbl) k = evoloop_call tbl k.
Proof. intros. unfold fast_evoloop, evoloop_call. rewrite fast_get_correct by assumption. reflexivity. Qed.

(* ---- generic forms of the finite theorems: `tbl` is any table, the premise is one closed computation *)
Section Gen.
  Variable tbl : table.
  Variable n : nat.
  Hypothesis n16 : (n <= 16)%nat.
  Local Notation dom x := (0 <= x < Z.of_nat n).

  Lemma ctrbl_orientation_gen :
    forall5b (states n) (ok_orient (fast_ctrbl (compile tbl))) = true ->
    forall c t r b l, dom c -> dom t -> dom r -> dom b -> dom l ->
      ctrbl_call tbl (c, l, t, r, b) = ctrbl_call tbl (c, t, r, b, l) /\
      ctrbl_call tbl (c, b, l, t, r) = ctrbl_call tbl (c, t, r, b, l) /\
      ctrbl_call tbl (c, r, b, l, t) = ctrbl_call tbl (c, t, r, b, l).
  Proof.
    intros H c t r b l Hc Ht Hr Hb Hl.
    assert (forall c t r b l, dom c -> dom t -> dom r -> dom b -> dom l ->
            ctrbl_call tbl (c, l, t, r, b) = ctrbl_call tbl (c, t, r, b, l)) as Q.
    { clear c t r b l Hc Ht Hr Hb Hl. intros c t r b l Hc Ht Hr Hb Hl.
      pose proof (sweep _ _ H c t r b l Hc Ht Hr Hb Hl) as S. unfold ok_orient in S.
      apply opt_eqb_eq in S. rewrite rot_spec in S.
      rewrite !fast_ctrbl_correct in S by (apply states_small with n; assumption).
      unfold ctrbl_call. rewrite S. reflexivity. }
    pose proof (Q c t r b l Hc Ht Hr Hb Hl) as Q1.
    pose proof (Q c l t r b Hc Hl Ht Hr Hb) as Q2.
    pose proof (Q c b l t r Hc Hb Hl Ht Hr) as Q3.
    repeat split; congruence.
  Qed.

  Section Loop.
    (* an SDSR- or Evoloop-like rule: table entry, else a default function *)
    Variable call : table -> key -> option Z.
    Variable fast : fast_table -> key -> option Z.
    Hypothesis fast_correct : forall k, key_small k = true -> fast (compile tbl) k = call tbl k.

    Lemma loop_orientation_gen :
      forall5b (states n) (ok_orient (fast (compile tbl))) = true ->
      forall c t r b l, dom c -> dom t -> dom r -> dom b -> dom l ->
        call tbl (c, l, t, r, b) = call tbl (c, t, r, b, l) /\
        call tbl (c, b, l, t, r) = call tbl (c, t, r, b, l) /\
        call tbl (c, r, b, l, t) = call tbl (c, t, r, b, l).
    Proof.
      intros H c t r b l Hc Ht Hr Hb Hl.
      assert (forall c t r b l, dom c -> dom t -> dom r -> dom b -> dom l ->
              call tbl (c, l, t, r, b) = call tbl (c, t, r, b, l)) as Q.
      { clear c t r b l Hc Ht Hr Hb Hl. intros c t r b l Hc Ht Hr Hb Hl.
        pose proof (sweep _ _ H c t r b l Hc Ht Hr Hb Hl) as S. unfold ok_orient in S.
        apply opt_eqb_eq in S. rewrite rot_spec in S.
        rewrite !fast_correct in S by (apply states_small with n; assumption).
        symmetry. exact S. }
      pose proof (Q c t r b l Hc Ht Hr Hb Hl) as Q1.
      pose proof (Q c l t r b Hc Hl Ht Hr Hb) as Q2.
      pose proof (Q c b l t r Hc Hb Hl Ht Hr) as Q3.
      repeat split; congruence.
    Qed.

    Lemma loop_total_range_gen :
      forall5b (states n) (ok_range (fast (compile tbl))) = true ->
      forall c t r b l, dom c -> dom t -> dom r -> dom b -> dom l ->
        exists v, call tbl (c, t, r, b, l) = Some v /\ 0 <= v <= 8.
    Proof.
      intros H c t r b l Hc Ht Hr Hb Hl.
      pose proof (sweep _ _ H c t r b l Hc Ht Hr Hb Hl) as S. unfold ok_range in S.
      rewrite fast_correct in S by (apply states_small with n; assumption).
      destruct (call tbl (c, t, r, b, l)) as [v|]; [|discriminate].
      exists v. split; [reflexivity|lia].
    Qed.

    Lemma loop_defaults_gen : forall spec : key -> Z,
      forall5b (states n) (ok_default (compile tbl) (fast (compile tbl)) spec) = true ->
      forall c t r b l, dom c -> dom t -> dom r -> dom b -> dom l ->
        dict_get (c, t, r, b, l) tbl = None ->
        call tbl (c, t, r, b, l) = Some (spec (c, t, r, b, l)).
    Proof.
      intros spec H c t r b l Hc Ht Hr Hb Hl Habs.
      pose proof (sweep _ _ H c t r b l Hc Ht Hr Hb Hl) as S. unfold ok_default in S.
      assert (key_small (c, t, r, b, l) = true) as Hs by (apply states_small with n; assumption).
      rewrite fast_get_correct, Habs in S by exact Hs.
      rewrite fast_correct in S by exact Hs. apply opt_eqb_eq in S. exact S.
    Qed.
  End Loop.
End Gen.

(* ================================================================== orientation for ALL integer states *)
(* table entry, else a default that does not look at the orientation: the rule answers alike on every key and
   its quarter-turn as soon as it does so on the LISTED keys (necessary and sufficient; one pass over the table) *)
Section ClosedCall.
  Variable tbl : table.
  Variable dflt : key -> option Z.
  Hypothesis dflt_rot : forall k, dflt (rot k) = dflt k.

  Definition call_with (k : key) : option Z :=
    match dict_get k tbl with Some v => Some v | None => dflt k end.

  Definition closed_call : bool :=
    forallb (fun e => opt_eqb (call_with (rot (fst e))) (call_with (fst e))) tbl.

  Lemma closed_call_spec : closed_call = true -> forall k, call_with (rot k) = call_with k.
  Proof.
    intros H. unfold closed_call in H. rewrite forallb_forall in H.
    assert (forall k v, dict_get k tbl = Some v -> call_with (rot k) = call_with k) as P.
    { intros k v Hk. pose proof (dict_get_In _ _ _ Hk) as Hin. specialize (H _ Hin). cbn [fst] in H.
      apply opt_eqb_eq in H. exact H. }
    assert (forall k, dict_get k tbl = None -> call_with k = dflt k) as D.
    { intros k Hk. unfold call_with. rewrite Hk. reflexivity. }
    intros k. destruct (dict_get k tbl) as [v|] eqn:E0; [apply (P k v E0)|].
    rewrite (D k E0).
    destruct (dict_get (rot k) tbl) as [v1|] eqn:E1; [|rewrite (D _ E1); apply dflt_rot].
    pose proof (P _ _ E1) as P1.
    destruct (dict_get (rot (rot k)) tbl) as [v2|] eqn:E2;
      [|rewrite <- P1, (D _ E2), !dflt_rot; reflexivity].
    pose proof (P _ _ E2) as P2.
    destruct (dict_get (rot (rot (rot k))) tbl) as [v3|] eqn:E3;
      [|rewrite <- P1, <- P2, (D _ E3), !dflt_rot; reflexivity].
    pose proof (P _ _ E3) as P3. rewrite rot4 in P3.
    rewrite <- P1, <- P2, <- P3. apply (D k E0).
  Qed.
End ClosedCall.

Lemma zin_rot : forall x t r b l, zin x [l; t; r; b] = zin x [t; r; b; l].
Proof.
  intros. unfold zin. cbn [existsb].
  destruct (x =? l), (x =? t), (x =? r), (x =? b); reflexivity.
Qed.

Lemma is_in_tube_rot : forall t r b l, is_in_tube l t r b = is_in_tube t r b l.
Proof.
  intros. unfold is_in_tube. cbn [fold_left].
  destruct (zin l [1; 2; 4; 6; 7]), (zin t [1; 2; 4; 6; 7]), (zin r [1; 2; 4; 6; 7]), (zin b [1; 2; 4; 6; 7]);
    reflexivity.
Qed.

Ltac rotz t r b l :=
  rewrite ?(zin_rot 0 t r b l), ?(zin_rot 1 t r b l), ?(zin_rot 2 t r b l), ?(zin_rot 3 t r b l),
          ?(zin_rot 4 t r b l), ?(zin_rot 5 t r b l), ?(zin_rot 6 t r b l), ?(zin_rot 7 t r b l),
          ?(zin_rot 8 t r b l).

Lemma eight_block_rot : forall c t r b l na, eight_block c [l; t; r; b] na = eight_block c [t; r; b; l] na.
Proof. intros. unfold eight_block. cbn [existsb]. rotz t r b l. reflexivity. Qed.

(* the default branches do not look at the orientation, whatever the (integer) states are *)
Lemma sdsr_default_rot : forall c t r b l, sdsr_default c l t r b = sdsr_default c t r b l.
Proof.
  intros. unfold sdsr_default. cbv zeta. rewrite eight_block_rot, is_in_tube_rot. rotz t r b l. reflexivity.
Qed.

Lemma evoloop_default_rot : forall c t r b l, evoloop_default c l t r b = evoloop_default c t r b l.
Proof. intros. unfold evoloop_default. cbv zeta. rewrite eight_block_rot. reflexivity. Qed.

Definition no_dflt (k : key) : option Z := None.
Definition sdsr_dflt (k : key) : option Z := let '(c, t, r, b, l) := k in sdsr_default c t r b l.
Definition evoloop_dflt (k : key) : option Z := let '(c, t, r, b, l) := k in evoloop_default c t r b l.

Lemma sdsr_dflt_rot : forall k, sdsr_dflt (rot k) = sdsr_dflt k.
Proof. intros [[[[c t] r] b] l]. rewrite rot_spec. apply sdsr_default_rot. Qed.

Lemma evoloop_dflt_rot : forall k, evoloop_dflt (rot k) = evoloop_dflt k.
Proof. intros [[[[c t] r] b] l]. rewrite rot_spec. apply evoloop_default_rot. Qed.

Lemma ctrbl_orientation_all : forall tbl, closed_call tbl no_dflt = true ->
  forall k, ctrbl_call tbl (rot k) = ctrbl_call tbl k.
Proof.
  intros tbl H k. pose proof (closed_call_spec tbl no_dflt (fun _ => eq_refl) H k) as Q.
  unfold call_with, no_dflt in Q. unfold ctrbl_call.
  destruct (dict_get (rot k) tbl), (dict_get k tbl); congruence.
Qed.

Lemma sdsr_orientation_all : forall tbl, closed_call tbl sdsr_dflt = true ->
  forall k, sdsr_call tbl (rot k) = sdsr_call tbl k.
Proof. intros tbl H k. exact (closed_call_spec tbl sdsr_dflt sdsr_dflt_rot H k). Qed.

Lemma evoloop_orientation_all : forall tbl, closed_call tbl evoloop_dflt = true ->
  forall k, evoloop_call tbl (rot k) = evoloop_call tbl k.
Proof. intros tbl H k. exact (closed_call_spec tbl evoloop_dflt evoloop_dflt_rot H k). Qed.

(* ================================================================== table_eqb *)
Lemma sub_table_spec : forall a b, sub_table a b = true ->
  forall k v, dict_get k a = Some v -> dict_get k b = Some v.
Proof.
  intros a b H k v Hk. unfold sub_table in H. rewrite forallb_forall in H.
  specialize (H _ (dict_get_In _ _ _ Hk)). cbn [fst] in H. rewrite Hk in H.
  destruct (dict_get k b) as [w|]; [|discriminate]. apply Z.eqb_eq in H. congruence.
Qed.

Lemma table_eqb_spec : forall a b, table_eqb a b = true -> forall k, dict_get k a = dict_get k b.
Proof.
  intros a b H k. unfold table_eqb in H. apply andb_true_iff in H. destruct H as [H1 H2].
  destruct (dict_get k a) as [v|] eqn:Ea.
  - symmetry. apply (sub_table_spec a b H1). exact Ea.
  - destruct (dict_get k b) as [w|] eqn:Eb; [|reflexivity].
    apply (sub_table_spec b a H2) in Eb. congruence.
Qed.

(* ================================================================== Prop forms used by Properties/C15.v *)
Definition turn_of (k k' : key) : Prop :=
  k = k' \/ k = rot k' \/ k = rot (rot k') \/ k = rot (rot (rot k')).

Lemma same_class_true : forall k k', same_class k k' = true <-> turn_of k k'.
Proof. exact same_class_spec. Qed.

Lemma same_class_false : forall k k', same_class k k' = false <-> ~ turn_of k k'.
Proof.
  intros k k'. rewrite <- same_class_true. destruct (same_class k k'); split; congruence.
Qed.

Lemma rotations_last_wins_prop : forall rt1 k' v rt2 k,
  turn_of k k' ->
  (forall k'' v'', In (k'', v'') rt2 -> ~ turn_of k k'') ->
  ctrbl_call (init_rule_table (rt1 ++ (k', v) :: rt2) true) k = Ok v.
Proof.
  intros rt1 k' v rt2 k H1 H2. apply rotations_last_wins.
  - apply same_class_true. exact H1.
  - intros k'' v'' Hin. apply same_class_false. exact (H2 k'' v'' Hin).
Qed.

Lemma rotations_image_prop : forall rt,
  (forall k1 v1 k2 v2, In (k1, v1) rt -> In (k2, v2) rt -> turn_of k1 k2 -> v1 = v2) ->
  forall k' v k, In (k', v) rt -> turn_of k k' ->
  ctrbl_call (init_rule_table rt true) k = Ok v.
Proof.
  intros rt H k' v k Hin Ht. apply (rotations_image rt) with k'.
  - intros k1 v1 k2 v2 H1 H2 Hc. apply (H k1 v1 k2 v2 H1 H2). apply same_class_true. exact Hc.
  - exact Hin.
  - apply same_class_true. exact Ht.
Qed.

Lemma rotations_absent_prop : forall rt k,
  ctrbl_call (init_rule_table rt true) k = Raise ValueError <->
  (forall k' v, In (k', v) rt -> ~ turn_of k k').
Proof.
  intros rt k. rewrite rotations_absent. split; intros H k' v Hin.
  - apply same_class_false. exact (H k' v Hin).
  - apply same_class_false. exact (H k' v Hin).
Qed.

(* without add_rotations every key answers with its own (last listed) image and nothing else is added *)
Lemma no_rotations_lookup : forall rt k,
  ctrbl_call (init_rule_table rt false) k
  = match last_with_key k rt with Some v => Ok v | None => Raise ValueError end.
Proof. intros. unfold ctrbl_call. rewrite init_get_plain. reflexivity. Qed.
