(* Proofs about Model/HeapEngine.v:
     heap_fixed_frame / heap_dynamic_frame   the caller's object is unchanged, the result is a fresh object
                                             holding hist ++ rows, for every step (and predicate) that writes
                                             only to objects other than the caller's that existed before the call;
     heap_fixed_refines / heap_dynamic_refines   for steps / predicates that get values (lift_step, lift_pred) the
                                             heap engine computes exactly Engine.evolve_fixed / evolve_dynamic;
     inplace_refuted / returns_view_refuted  the two aliasing variants violate the statements. *)
From CPL Require Import Model.Base Model.Engine Model.HeapEngine Proofs.EngineProofs.
From Coq Require Import Lia.

(* ------------------------------------------------------------------ lists *)
Lemma upd_at_length {A} (f : A -> A) l : forall k, length (upd_at k f l) = length l.
Proof. induction l as [|x l IH]; intros [|k]; cbn [upd_at length]; try reflexivity. now rewrite IH. Qed.

Lemma nth_upd_at_same {A} (f : A -> A) l d : forall k, k < length l -> nth k (upd_at k f l) d = f (nth k l d).
Proof.
  induction l as [|x l IH]; intros [|k] Hk; cbn [length] in Hk; try lia; cbn [upd_at nth]; [reflexivity|].
  apply IH. lia.
Qed.

Lemma nth_upd_at_other {A} (f : A -> A) l d : forall k j, j <> k -> nth j (upd_at k f l) d = nth j l d.
Proof.
  induction l as [|x l IH]; intros [|k] [|j] Hjk; cbn [upd_at nth]; try reflexivity; try congruence.
  apply IH. congruence.
Qed.

Lemma upd_at_app_end {A} (f : A -> A) l x tl : upd_at (length l) f (l ++ x :: tl) = l ++ f x :: tl.
Proof. induction l as [|y l IH]; [reflexivity|]. cbn [length app upd_at]. now rewrite IH. Qed.

Lemma upd_at_app_mid {A} (f : A -> A) l x tl k : length l = k -> upd_at k f (l ++ x :: tl) = l ++ f x :: tl.
Proof. intros <-. apply upd_at_app_end. Qed.

Lemma nth_last {A} (l : list A) d : nth (length l - 1) l d = last l d.
Proof.
  induction l as [|a l IH]; [reflexivity|]. destruct l as [|b l]; [reflexivity|].
  change (last (a :: b :: l) d) with (last (b :: l) d). rewrite <- IH.
  cbn [length]. replace (S (S (length l)) - 1) with (S (S (length l) - 1)) by lia. reflexivity.
Qed.

Lemma last_map {A B} (g : A -> B) (l : list A) da db : l <> [] -> last (map g l) db = g (last l da).
Proof.
  induction l as [|a l IH]; intros Hne; [congruence|]. destruct l as [|b l]; [reflexivity|].
  change (last (map g (a :: b :: l)) db) with (last (map g (b :: l)) db).
  change (last (a :: b :: l) da) with (last (b :: l) da). apply IH. discriminate.
Qed.

Section Heap.
  Variable C : Type.
  Variable dflt : C.
  Local Notation heap := (heap C).

  Lemma h_get_app1 (h e : heap) id : id < length h -> h_get (h ++ e) id = h_get h id.
  Proof. intros H. unfold h_get. now apply app_nth1. Qed.

  Lemma h_get_app_end (h : heap) o tl : h_get (h ++ o :: tl) (length h) = o.
  Proof. unfold h_get. rewrite app_nth2, Nat.sub_diag by lia. reflexivity. Qed.

  Lemma h_row_app1 (h e : heap) rf : fst rf < length h -> h_row dflt (h ++ e) rf = h_row dflt h rf.
  Proof. intros H. unfold h_row. now rewrite h_get_app1. Qed.

  Lemma h_set_row_length (h : heap) id k row : length (h_set_row h id k row) = length h.
  Proof. apply upd_at_length. Qed.

  Lemma h_get_set_row_same (h : heap) id k row : id < length h ->
    h_get (h_set_row h id k row) id = set_at k row (h_get h id).
  Proof. intros H. unfold h_get, h_set_row. now rewrite nth_upd_at_same. Qed.

  Lemma h_get_set_row_other (h : heap) id k row j : j <> id -> h_get (h_set_row h id k row) j = h_get h j.
  Proof. intros H. unfold h_get, h_set_row. now rewrite nth_upd_at_other. Qed.

  Lemma h_get_nonempty_valid (h : heap) id : h_get h id <> [] -> id < length h.
  Proof.
    intros H. destruct (Nat.lt_ge_cases id (length h)) as [L|L]; [exact L|].
    exfalso. apply H. unfold h_get. now apply nth_overflow.
  Qed.
End Heap.

(* ================================================================== the caller's object is not modified *)
Section Frame.
  Variables (X P C : Type).
  Variable dflt : C.
  Variable step : X -> heap C -> C -> nat -> X * heap C * C.
  Variable pred : P -> heap C -> nat -> nat -> P * heap C * bool.
  Variable W : nat -> Prop.              (* the objects the step / predicate may write to *)
  Variable h0 : heap C.                  (* the heap at the moment of the call *)
  Variable ca : nat.                     (* the caller's array *)
  Hypothesis Hca : ca < length h0.
  Hypothesis HWca : ~ W ca.
  Hypothesis HWold : forall id, W id -> id < length h0.
  Hypothesis Hstep : step_writes_only step W.

  Local Notation n0 := (length h0).
  Local Notation kept h := (forall id, id < n0 -> ~ W id -> h_get h id = h_get h0 id).

  Lemma step_keeps : forall x h c t, n0 <= length h -> kept h ->
    length (snd (fst (step x h c t))) = length h /\ kept (snd (fst (step x h c t))) /\
    forall id, n0 <= id -> h_get (snd (fst (step x h c t))) id = h_get h id.
  Proof.
    intros x h c t Hn Hk. destruct (Hstep x h c t) as [L K]. split; [exact L|]. split.
    - intros id Hid HW. rewrite K by exact HW. now apply Hk.
    - intros id Hid. apply K. intro HW. apply HWold in HW. lia.
  Qed.

  (* ---------------------------------------------------------------- fixed number of steps *)
  Section Fixed.
    Variable k : nat.      (* T = S k *)
    Definition InvF (h : heap C) : Prop :=
      length h = S n0 /\ length (h_get h n0) = S k /\ kept h.

    Lemma heap_loop_inv : forall n x h t, InvF h -> InvF (snd (heap_loop dflt step n x h n0 t)).
    Proof.
      induction n as [|n IH]; intros x h t HI; [exact HI|].
      cbn [heap_loop]. destruct HI as [HL [HA HK]].
      destruct (step_keeps x h (nth (t - 1) (h_get h n0) dflt) t ltac:(lia) HK) as [L [K N]].
      destruct (step x h (nth (t - 1) (h_get h n0) dflt) t) as [[x1 h1] nxt]. cbn [fst snd] in *.
      apply IH. split; [now rewrite h_set_row_length, L|]. split.
      - rewrite h_get_set_row_same by lia. unfold set_at. rewrite upd_at_length, N by lia. exact HA.
      - intros id Hid HW. rewrite h_get_set_row_other by lia. now apply K.
    Qed.

    Theorem heap_fixed_frame : forall x0 x hr rid,
      heap_evolve_fixed dflt step h0 ca x0 (S k) = Ok (x, hr, rid) ->
      exists rows, length rows = k /\
        h_get hr rid = h_get h0 ca ++ rows /\          (* the result holds the given rows, then the new ones *)
        h_get hr ca = h_get h0 ca /\                   (* the caller's object is unchanged *)
        rid = S n0 /\                                  (* the result is an object that did not exist before *)
        (forall id, id < n0 -> ~ W id -> h_get hr id = h_get h0 id).
    Proof.
      intros x0 x hr rid H. cbv beta iota zeta delta [heap_evolve_fixed h_alloc] in H.
      match type of H with context [heap_loop ?a ?b ?c ?d ?e ?f ?g] =>
        assert (I2 : InvF e);
        [ split; [rewrite h_set_row_length, app_length; cbn [length]; lia|]; split;
          [ rewrite h_get_set_row_same by (rewrite app_length; cbn [length]; lia);
            unfold set_at; now rewrite upd_at_length, h_get_app_end, repeat_length
          | intros id Hid HW; rewrite h_get_set_row_other by lia; now apply h_get_app1 ]
        | pose proof (heap_loop_inv c d e g I2 : InvF (snd (heap_loop a b c d e f g))) as I3;
          destruct (heap_loop a b c d e f g) as [x3 h3] ]
      end.
      cbn [snd] in I3. cbv beta iota zeta in H.
      injection H as <- <- <-. destruct I3 as [HL [HA HK]].
      exists (skipn 1 (h_get h3 n0)). split; [rewrite skipn_length; lia|].
      assert (Ec : h_get h3 ca = h_get h0 ca) by (apply HK; assumption).
      split; [rewrite h_get_app_end, Ec; reflexivity|].
      split; [rewrite h_get_app1 by lia; exact Ec|]. split; [exact HL|].
      intros id Hid HW. rewrite h_get_app1 by lia. now apply HK.
    Qed.
  End Fixed.

  (* ---------------------------------------------------------------- callable timesteps *)
  Hypothesis Hpred : pred_writes_only pred W.

  Lemma dyn_loop_frame : forall fuel p x h newrefs t plog p' x' hr rid plog',
    n0 <= length h -> kept h ->
    heap_dynamic_loop dflt step pred fuel p x h ca ((ca, length (h_get h0 ca) - 1) :: newrefs) t plog
      = Some (p', x', hr, rid, plog') ->
    exists rows,
      length newrefs <= length rows /\ length plog' - length plog = length rows - length newrefs + 1 /\
      h_get hr rid = removelast (h_get h0 ca) ++ last (h_get h0 ca) dflt :: rows /\
      h_get hr ca = h_get h0 ca /\ n0 <= rid /\ rid <> ca /\ kept hr.
  Proof.
    induction fuel as [|f IH]; intros p x h newrefs t plog p' x' hr rid plog' Hn Hk H; [discriminate H|].
    cbn [heap_dynamic_loop] in H. unfold h_alloc in H.
    set (refs := (ca, length (h_get h0 ca) - 1) :: newrefs) in *.
    set (hc := h ++ [map (h_row dflt h) refs]) in *.
    destruct (Hpred p hc (length h) t) as [PL PK].
    destruct (pred p hc (length h) t) as [[p1 h1] go]. cbn [fst snd] in PL, PK.
    assert (L1 : length h1 = S (length h)) by (rewrite PL; unfold hc; rewrite app_length; cbn [length]; lia).
    assert (K1 : kept h1).
    { intros id Hid HW. rewrite PK by (try exact HW; lia). unfold hc. rewrite h_get_app1 by lia. now apply Hk. }
    destruct go.
    - destruct (step_keeps x h1 (h_row dflt h1 (last refs (0, 0))) t ltac:(lia) K1) as [L [K N]].
      destruct (step x h1 (h_row dflt h1 (last refs (0, 0))) t) as [[x1 h2] nxt]. cbn [fst snd] in *.
      change (refs ++ [(length h2, 0)]) with ((ca, length (h_get h0 ca) - 1) :: (newrefs ++ [(length h2, 0)])) in H.
      assert (G1 : n0 <= length (h2 ++ [[nxt]])) by (rewrite app_length; cbn [length]; lia).
      assert (G2 : kept (h2 ++ [[nxt]])) by (intros id Hid HW; rewrite h_get_app1 by lia; now apply K).
      destruct (IH _ _ _ _ _ _ _ _ _ _ _ G1 G2 H) as [rows [Hle [Hpl [E1 [E2 [E3 [E4 E5]]]]]]].
      rewrite !app_length in *. cbn [length] in *.
      exists rows. split; [lia|]. split; [lia|]. repeat split; assumption.
    - injection H as <- <- <- <- <-.
      assert (Ec : h_get h1 ca = h_get h0 ca) by (apply K1; assumption).
      exists (map (h_row dflt h1) newrefs). rewrite !app_length, map_length. cbn [length].
      split; [lia|]. split; [lia|]. split.
      + rewrite h_get_app_end, Ec. f_equal. unfold refs. cbn [map]. f_equal.
        unfold h_row. cbn [fst snd]. rewrite Ec. apply nth_last.
      + split; [rewrite h_get_app1 by lia; exact Ec|]. split; [lia|]. split; [lia|].
        intros id Hid HW. rewrite h_get_app1 by lia. now apply K1.
  Qed.

  Theorem heap_dynamic_frame : forall fuel p0 x0 p x hr rid plog,
    h_get h0 ca <> [] ->
    heap_evolve_dynamic dflt step pred fuel h0 ca p0 x0 = Some (p, x, hr, rid, plog) ->
    exists rows, length rows = length plog - 1 /\
      h_get hr rid = h_get h0 ca ++ rows /\
      h_get hr ca = h_get h0 ca /\
      n0 <= rid /\ rid <> ca /\
      (forall id, id < n0 -> ~ W id -> h_get hr id = h_get h0 id).
  Proof.
    intros fuel p0 x0 p x hr rid plog Hne H. unfold heap_evolve_dynamic in H.
    destruct (dyn_loop_frame fuel p0 x0 h0 [] 1 [] p x hr rid plog (le_n _) (fun id _ _ => eq_refl) H)
      as [rows [_ [Hpl [E1 [E2 [E3 [E4 E5]]]]]]].
    cbn [length] in Hpl. exists rows. split; [lia|]. split.
    - rewrite E1. now apply removelast_last_app.
    - repeat split; assumption.
  Qed.
End Frame.

(* ================================================================== steps that get values: the heap engine is Engine.v *)
Section Refines.
  Variables (X P C : Type).
  Variable dflt : C.
  Variable ps : X -> C -> nat -> X * C.
  Variable pp : P -> list C -> nat -> P * bool.
  Variable h0 : heap C.
  Variable ca : nat.
  Hypothesis Hca : ca < length h0.

  Local Notation n0 := (length h0).

  Lemma lift_step_writes_nothing : step_writes_only (lift_step ps) (fun _ => False).
  Proof. intros x h c t. unfold lift_step. cbn [fst snd]. split; [reflexivity|]. intros; reflexivity. Qed.

  Lemma lift_pred_writes_nothing : pred_writes_only (lift_pred pp) (fun _ => False).
  Proof. intros p h cid t. unfold lift_pred. cbn [fst snd]. split; [reflexivity|]. intros; reflexivity. Qed.

  Lemma heap_loop_pure : forall n x pre cur zs t, length pre = t - 1 -> 1 <= t -> n <= length zs ->
    heap_loop dflt (lift_step ps) n x (h0 ++ [pre ++ cur :: zs]) n0 t
    = (fst (iter_steps ps n x cur t), h0 ++ [pre ++ cur :: snd (iter_steps ps n x cur t) ++ skipn n zs]).
  Proof.
    induction n as [|n IH]; intros x pre cur zs t Hp Ht Hz; [reflexivity|].
    destruct zs as [|z zs]; [cbn [length] in Hz; lia|].
    cbn [heap_loop iter_steps]. rewrite h_get_app_end.
    rewrite app_nth2 by lia. replace (t - 1 - length pre) with 0 by lia. cbn [nth].
    unfold lift_step. destruct (ps x cur t) as [x1 nxt]. cbn [fst snd].
    unfold h_set_row. rewrite upd_at_app_end. unfold set_at.
    replace (pre ++ cur :: z :: zs) with ((pre ++ [cur]) ++ z :: zs) by (now rewrite <- app_assoc).
    rewrite (upd_at_app_mid _ (pre ++ [cur]) z zs t) by (rewrite app_length; cbn [length]; lia).
    fold (@lift_step X C ps). rewrite (IH x1 (pre ++ [cur]) nxt zs (S t)) by (try rewrite app_length; cbn [length] in *; lia).
    destruct (iter_steps ps n x1 nxt (S t)) as [x2 rest]. cbn [fst snd skipn].
    now rewrite <- !app_assoc.
  Qed.

  Theorem heap_fixed_refines : forall x0 T,
    match evolve_fixed dflt ps x0 (h_get h0 ca) T with
    | Ok (x', out) => exists w, heap_evolve_fixed dflt (lift_step ps) h0 ca x0 T = Ok (x', h0 ++ [w; out], S n0)
    | Raise e => heap_evolve_fixed dflt (lift_step ps) h0 ca x0 T = Raise e
    end.
  Proof.
    intros x0 [|k]; [reflexivity|]. rewrite evolve_fixed_unfold.
    unfold heap_evolve_fixed, h_alloc. rewrite (h_get_app1 C h0 _ ca Hca).
    unfold h_set_row. rewrite upd_at_app_end. unfold set_at. cbn [repeat upd_at].
    pose proof (heap_loop_pure k x0 [] (last (h_get h0 ca) dflt) (repeat dflt k) 1 eq_refl (le_n _)
                  ltac:(rewrite repeat_length; lia)) as HP.
    cbn [app] in HP. rewrite HP. clear HP. cbv beta iota zeta. rewrite h_get_app_end, (h_get_app1 C h0 _ ca Hca).
    rewrite skipn_all2 by (rewrite repeat_length; lia). rewrite app_nil_r. cbn [skipn].
    eexists. rewrite app_length. cbn [length]. rewrite Nat.add_1_r.
    rewrite <- app_assoc. reflexivity.
  Qed.

  (* callable timesteps *)
  (* what is observable of a heap run: predicate state, threaded state, contents of the result object,
     predicate log, contents of the caller's object afterwards, "the result id is not an old id" *)
  Definition dyn_proj (o : option (P * X * heap C * nat * list (list C * nat))) :=
    match o with
    | Some (p, x, hr, rid, plog) => Some (p, x, h_get hr rid, plog, h_get hr ca, n0 <=? rid)
    | None => None
    end.

  Lemma dyn_loop_pure : forall fuel p x extra refs t plog,
    refs <> [] -> Forall (fun rf => fst rf < length (h0 ++ extra)) refs ->
    dyn_proj (heap_dynamic_loop dflt (lift_step ps) (lift_pred pp) fuel p x (h0 ++ extra) ca refs t plog)
    = match dynamic_loop dflt ps pp fuel p x (map (h_row dflt (h0 ++ extra)) refs) t plog with
      | Some (p', x', states', plog') => Some (p', x', removelast (h_get h0 ca) ++ states', plog', h_get h0 ca, true)
      | None => None
      end.
  Proof.
    induction fuel as [|f IH]; intros p x extra refs t plog Hne HF; [reflexivity|].
    cbn [dynamic_loop heap_dynamic_loop]. unfold h_alloc.
    set (h := h0 ++ extra) in *. set (given := map (h_row dflt h) refs).
    unfold lift_pred at 1. cbn [fst snd]. rewrite h_get_app_end.
    destruct (pp p given t) as [p1 go]. cbn [fst snd].
    assert (Hm : map (h_row dflt (h ++ [given])) refs = given).
    { unfold given. apply map_ext_in. intros rf Hin. apply h_row_app1.
      rewrite Forall_forall in HF. now apply HF. }
    destruct go.
    - assert (Hc : h_row dflt (h ++ [given]) (last refs (0, 0)) = last given dflt).
      { rewrite <- (last_map (h_row dflt (h ++ [given])) refs (0, 0) dflt Hne). now rewrite Hm. }
      rewrite Hc. unfold lift_step at 1. cbn [fst snd].
      destruct (ps x (last given dflt) t) as [x1 nxt]. cbn [fst snd].
      assert (Eh : (h ++ [given]) ++ [[nxt]] = h0 ++ (extra ++ [given] ++ [[nxt]])).
      { unfold h. now rewrite <- !app_assoc. }
      rewrite Eh.
      specialize (IH p1 x1 (extra ++ [given] ++ [[nxt]]) (refs ++ [(length (h ++ [given]), 0)]) (S t) (plog ++ [(given, t)])).
      assert (Hmap : map (h_row dflt (h0 ++ extra ++ [given] ++ [[nxt]])) (refs ++ [(length (h ++ [given]), 0)]) = given ++ [nxt]).
      { rewrite map_app. f_equal.
        - transitivity (map (h_row dflt (h ++ [given])) refs); [|exact Hm]. apply map_ext_in. intros rf Hin.
          replace (h0 ++ extra ++ [given] ++ [[nxt]]) with ((h ++ [given]) ++ [[nxt]]) by exact Eh.
          apply h_row_app1. rewrite app_length. rewrite Forall_forall in HF. specialize (HF rf Hin). lia.
        - cbn [map]. f_equal. rewrite <- Eh. unfold h_row. cbn [fst snd]. rewrite h_get_app_end. reflexivity. }
      rewrite Hmap in IH. apply IH.
      + destruct refs; discriminate.
      + rewrite <- Eh. apply Forall_app. split.
        * eapply Forall_impl; [|exact HF]. intros rf Hrf. cbn beta in *. rewrite !app_length. fold h in Hrf. lia.
        * constructor; [|constructor]. cbn [fst]. rewrite (app_length (h ++ [given])). cbn [length]. lia.
    - cbn [dyn_proj]. rewrite h_get_app_end.
      assert (Eh0 : h_get h ca = h_get h0 ca) by (unfold h; now apply h_get_app1).
      rewrite !h_get_app1 by (unfold h; rewrite ?app_length; cbn [length]; lia).
      rewrite Eh0, Hm.
      replace (n0 <=? length (h ++ [given])) with true; [reflexivity|].
      symmetry. apply Nat.leb_le. unfold h. rewrite !app_length. lia.
  Qed.

  Theorem heap_dynamic_refines : forall fuel p0 x0, h_get h0 ca <> [] ->
    match evolve_dynamic dflt ps pp fuel p0 x0 (h_get h0 ca) with
    | Some (p, x, out, plog) =>
        exists hr rid, heap_evolve_dynamic dflt (lift_step ps) (lift_pred pp) fuel h0 ca p0 x0 = Some (p, x, hr, rid, plog) /\
                       h_get hr rid = out /\ h_get hr ca = h_get h0 ca /\ n0 <= rid
    | None => heap_evolve_dynamic dflt (lift_step ps) (lift_pred pp) fuel h0 ca p0 x0 = None
    end.
  Proof.
    intros fuel p0 x0 Hne. unfold evolve_dynamic, heap_evolve_dynamic.
    pose proof (dyn_loop_pure fuel p0 x0 [] [(ca, length (h_get h0 ca) - 1)] 1 [] ltac:(discriminate)) as D.
    rewrite app_nil_r in D. cbn [map] in D.
    assert (Er : h_row dflt h0 (ca, length (h_get h0 ca) - 1) = last (h_get h0 ca) dflt).
    { unfold h_row. cbn [fst snd]. apply nth_last. }
    rewrite Er in D. specialize (D ltac:(constructor; [exact Hca|constructor])).
    destruct (dynamic_loop dflt ps pp fuel p0 x0 [last (h_get h0 ca) dflt] 1 []) as [[[[p x] states] plog]|];
      destruct (heap_dynamic_loop dflt (lift_step ps) (lift_pred pp) fuel p0 x0 h0 ca [(ca, length (h_get h0 ca) - 1)] 1 [])
        as [[[[[p' x'] hr] rid] plog']|]; cbn [dyn_proj] in D; try discriminate D; [|reflexivity].
    injection D as -> -> E1 -> E2 E3. exists hr, rid. split; [reflexivity|]. split; [exact E1|]. split; [exact E2|].
    now apply Nat.leb_le.
  Qed.
End Refines.

(* ================================================================== the aliasing variants violate the statements *)
(* a step that gets values and adds 1 *)
Definition inc_step : unit -> nat -> nat -> unit * nat := fun u c t => (u, c + 1).

(* work array = the caller's object: after the call the caller's object has grown *)
Lemma inplace_refuted :
  exists (h0 : heap nat) (ca : nat) x hr rid,
    step_writes_only (lift_step inc_step) (fun _ => False) /\
    heap_evolve_inplace 0 (lift_step inc_step) h0 ca tt 3 = Ok (x, hr, rid) /\
    h_get hr ca <> h_get h0 ca.
Proof.
  exists [[5; 7]], 0. do 3 eexists. split; [apply lift_step_writes_nothing|].
  split; [vm_compute; reflexivity|]. vm_compute. discriminate.
Qed.

(* result = the caller's object: it is not a new object (and the caller's object has changed) *)
Lemma returns_view_refuted :
  exists (h0 : heap nat) (ca : nat) x hr rid,
    step_writes_only (lift_step inc_step) (fun _ => False) /\
    heap_evolve_returns_view 0 (lift_step inc_step) h0 ca tt 3 = Ok (x, hr, rid) /\
    rid = ca /\ rid < length h0 /\ h_get hr ca <> h_get h0 ca.
Proof.
  exists [[5; 7]], 0. do 3 eexists. split; [apply lift_step_writes_nothing|].
  split; [vm_compute; reflexivity|]. split; [reflexivity|]. split; [vm_compute; lia|]. vm_compute. discriminate.
Qed.

(* the correct engine on the same input, for contrast *)
Example correct_on_same_input :
  heap_evolve_fixed 0 (lift_step inc_step) [[5; 7]] 0 tt 3 = Ok (tt, [[5; 7]; [7; 8; 9]; [5; 7; 8; 9]], 2).
Proof. vm_compute. reflexivity. Qed.

(* ================================================================== a 1D rule object that HOLDS A REFERENCE
   The rule's calls thread the heap (as ReversibleRule does in Model/Reversible.v): the state of the rule
   callable is the heap itself, so it can read and write any object it has a reference to. *)
From CPL Require Import Model.Rules Model.Evolve1D.

Definition ref_step (rule : rule1 (heap (list Z))) (store : Z -> Z) (r : nat)
  : unit -> heap (list Z) -> list Z -> nat -> unit * heap (list Z) * list Z :=
  fun x h cells t => let '(h', row) := step_plain rule store r h cells t in (x, h', row).

(* like ReversibleRule: remembers the centre cell of every neighbourhood it sees in row 0 of the object `oth` *)
Definition remember_rule (oth : nat) (ws : list Z) (m : Z) : rule1 (heap (list Z)) :=
  fun h n c t => (h_set_row h oth 0 (set_at c (nth (length n / 2) n 0%Z) (nth 0 (h_get h oth) [])),
                  (lin_dot ws n mod m)%Z).

Section RefStep.
  Variable rule : rule1 (heap (list Z)).
  Variable store : Z -> Z.
  Variable W : nat -> Prop.
  Hypothesis Hrule : forall h n c t, length (fst (rule h n c t)) = length h /\
                                     forall id, ~ W id -> h_get (fst (rule h n c t)) id = h_get h id.

  Lemma apply_all_frame : forall nbs h c t,
    length (fst (apply_all rule store h c nbs t)) = length h /\
    forall id, ~ W id -> h_get (fst (apply_all rule store h c nbs t)) id = h_get h id.
  Proof.
    induction nbs as [|n nbs IH]; intros h c t; [split; [reflexivity|intros; reflexivity]|].
    cbn [apply_all]. destruct (Hrule h n c t) as [L K]. destruct (rule h n c t) as [h1 v]. cbn [fst] in L, K.
    destruct (IH h1 (S c) t) as [L2 K2]. destruct (apply_all rule store h1 (S c) nbs t) as [h2 vs]. cbn [fst] in *.
    split; [congruence|]. intros id HW. rewrite K2, K by exact HW. reflexivity.
  Qed.

  Lemma ref_step_frame : forall r, step_writes_only (ref_step rule store r) W.
  Proof.
    intros r x h c t. unfold ref_step, step_plain.
    destruct (apply_all_frame (neighbourhoods c r) h 0 t) as [L K].
    destruct (apply_all rule store h 0 (neighbourhoods c r) t) as [h' row]. cbn [fst snd] in *. split; assumption.
  Qed.
End RefStep.

Lemma remember_rule_frame oth ws m : forall h n c t,
  length (fst (remember_rule oth ws m h n c t)) = length h /\
  forall id, ~ (id = oth) -> h_get (fst (remember_rule oth ws m h n c t)) id = h_get h id.
Proof.
  intros h n c t. unfold remember_rule. cbn [fst]. split; [apply h_set_row_length|].
  intros id Hid. now apply h_get_set_row_other.
Qed.
