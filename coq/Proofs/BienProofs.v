(* C18, real layer: BiEntropy values lie in [0, 1]; invariance under complement, reversal and (ktbien)
   rotation; the normaliser of bien is the accumulated weight (geometric sum); containment of the
   interval twin.  Uses the real numbers of the standard library (axioms listed by Print Assumptions). *)
From Coq Require Import Reals Lra Lia List Arith Bool Psatz ZArith.
From Flocq Require Import Core.
From Interval Require Import Specific_stdz Specific_ops Float_full Interval Xreal Basic.
From CPL Require Import Model.Base Model.BienExact Proofs.EntropyBounds Proofs.BienExactProofs.
From CPL Require Import Model.Bien.
Import ListNotations.
Local Open Scope R_scope.

(* ------------------------------------------------------------------ the key list *)
Lemma keys_b_cases s :
  (s = [] /\ keys_b s = []) \/
  (exists a, keys_b s = [a] /\ In a s /\ forall x, In x s -> x = a) \/
  (exists a, keys_b s = [a; negb a] /\ In a s /\ In (negb a) s).
Proof.
  destruct s as [|a t]; [left; split; reflexivity|]. right. cbn [keys_b].
  destruct (existsb (xorb a) t) eqn:E.
  - right. exists a. split; [reflexivity|]. split; [left; reflexivity|].
    apply existsb_exists in E as (x & Hx & Hxa). right.
    replace (negb a) with x; [exact Hx|]. destruct a, x; cbn in Hxa |- *; congruence.
  - left. exists a. split; [reflexivity|]. split; [left; reflexivity|]. intros x [<-|Hx]; [reflexivity|].
    destruct (Bool.bool_dec x a) as [|Hne]; [assumption|]. exfalso.
    assert (Hex : existsb (xorb a) t = true); [|congruence].
    apply existsb_exists. exists x. split; [exact Hx|]. destruct a, x; cbn; congruence.
Qed.

Lemma keys_b_symbols s : symbols_of bool s (keys_b s).
Proof.
  destruct (keys_b_cases s) as [[-> ->]|[(a & -> & Hin & Ha)|(a & -> & Ha & Hna)]].
  - split; [constructor|]. intros x; split; intros [].
  - split; [repeat constructor; intros []|]. intros x; split.
    + intros [<-|[]]. exact Hin.
    + intros Hx. left. symmetry. apply Ha. exact Hx.
  - split.
    + constructor; [intros [E|[]]; destruct a; discriminate|]. constructor; [intros []|constructor].
    + intros x; split.
      * intros [<-|[<-|[]]]; assumption.
      * intros _. destruct a, x; cbn; auto.
Qed.

Lemma keys_b_length s : (length (keys_b s) <= 2)%nat.
Proof. destruct s as [|a t]; [cbn; lia|]. cbn [keys_b]. destruct (existsb (xorb a) t); cbn; lia. Qed.

(* any other duplicate-free enumeration of the occurring symbols gives the same sum, so the
   order produced by dict.fromkeys is immaterial *)
Lemma Rsum_bool_nodup (g : bool -> R) keys : NoDup keys ->
  Rsum g keys = (if in_dec bool_dec true keys then g true else 0) + (if in_dec bool_dec false keys then g false else 0).
Proof.
  intros Hnd.
  destruct keys as [|a [|b [|c r]]].
  - cbn. lra.
  - destruct a; cbn [Rsum]; destruct (in_dec bool_dec true _) as [i|i], (in_dec bool_dec false _) as [j|j];
      cbn in i, j; try lra; exfalso; intuition congruence.
  - inversion Hnd as [|? ? Hab _]; subst.
    destruct a, b; cbn [Rsum]; try (exfalso; apply Hab; left; reflexivity);
      destruct (in_dec bool_dec true _) as [i|i], (in_dec bool_dec false _) as [j|j];
      cbn in i, j; try lra; exfalso; intuition congruence.
  - exfalso. inversion Hnd as [|? ? Ha Hnd']; subst. inversion Hnd' as [|? ? Hb Hnd'']; subst.
    inversion Hnd'' as [|? ? Hc _]; subst. cbn in Ha, Hb.
    destruct a, b, c; intuition congruence.
Qed.

Theorem shannon_keys_irrelevant s keys : symbols_of bool s keys -> H bool bool_dec s keys = shannon s.
Proof.
  intros [Hnd Hk]. destruct (keys_b_symbols s) as [Hnd' Hk']. unfold shannon, H.
  rewrite (Rsum_bool_nodup _ keys Hnd), (Rsum_bool_nodup _ (keys_b s) Hnd').
  destruct (in_dec bool_dec true keys) as [i|i], (in_dec bool_dec true (keys_b s)) as [i'|i'];
    try (exfalso; rewrite Hk, <- Hk' in i; contradiction);
  destruct (in_dec bool_dec false keys) as [j|j], (in_dec bool_dec false (keys_b s)) as [j'|j'];
    try (exfalso; rewrite Hk, <- Hk' in j; contradiction); reflexivity.
Qed.

(* ------------------------------------------------------------------ entropy as a function of the counts *)
Lemma count_false s : count_occ bool_dec s false = (length s - count_true s)%nat.
Proof.
  unfold count_true. induction s as [|a t IH]; [reflexivity|]. cbn [count_occ length].
  pose proof (count_occ_bound bool_dec true t) as Hb.
  destruct a; destruct (bool_dec true false), (bool_dec false false), (bool_dec true true), (bool_dec false true);
    try congruence; lia.
Qed.

Lemma log2_1 : log2 1 = 0.
Proof. unfold log2. rewrite ln_1. unfold Rdiv. lra. Qed.

Theorem shannon_H2R s : shannon s = H2R (count_true s) (length s).
Proof.
  pose proof (keys_b_symbols s) as [_ Hk].
  pose proof (count_false s) as Hcf. pose proof (count_true_le s) as Hle.
  unfold shannon, H.
  destruct (keys_b_cases s) as [[-> _]|[(a & E & Hin & Ha)|(a & E & Ha & Hna)]].
  - cbn. unfold H2R. cbn. lra.
  - rewrite E. cbn [Rsum].
    assert (Hn : (0 < length s)%nat) by (destruct s; [contradiction|cbn; lia]).
    assert (Hnz : INR (length s) <> 0) by (apply not_0_INR; lia).
    assert (Hother : count_occ bool_dec s (negb a) = 0%nat).
    { apply count_occ_not_In. intros Hx. apply Ha in Hx. destruct a; discriminate. }
    assert (Hp : p bool bool_dec s a = 1).
    { unfold p, cnt. replace (count_occ bool_dec s a) with (length s); [field; exact Hnz|].
      destruct a; cbn [negb] in Hother; [fold (count_true s); lia|].
      fold (count_true s) in Hother. lia. }
    rewrite Hp, log2_1. unfold H2R.
    replace ((count_true s =? 0)%nat || (count_true s =? length s)%nat) with true; [lra|].
    symmetry. apply orb_true_iff. destruct a; cbn [negb] in Hother.
    + right. apply Nat.eqb_eq. lia.
    + left. apply Nat.eqb_eq. exact Hother.
  - rewrite E. cbn [Rsum].
    assert (Ht : (0 < count_true s)%nat).
    { apply (count_occ_In bool_dec). destruct a; assumption. }
    assert (Hf : (0 < count_occ bool_dec s false)%nat).
    { apply (count_occ_In bool_dec). destruct a; assumption. }
    unfold H2R.
    replace ((count_true s =? 0)%nat || (count_true s =? length s)%nat) with false.
    2:{ symmetry. apply orb_false_iff. split; apply Nat.eqb_neq; lia. }
    assert (Et : p bool bool_dec s true * log2 (p bool bool_dec s true) = termR (count_true s) (length s)) by reflexivity.
    assert (Ef : p bool bool_dec s false * log2 (p bool bool_dec s false) = termR (length s - count_true s) (length s)).
    { unfold termR, p, cnt. rewrite Hcf. reflexivity. }
    destruct a; cbn [negb]; rewrite Et, Ef; lra.
Qed.

Theorem shannon_range s : 0 <= shannon s <= 1.
Proof.
  destruct s as [|a t].
  - unfold shannon, H. cbn. lra.
  - assert (Hne : a :: t <> []) by discriminate. split.
    + apply H_nonneg. apply keys_b_symbols.
    + apply H_binary_le_1; [exact Hne|apply keys_b_symbols|apply keys_b_length].
Qed.

Lemma H2R_sym c n : (c <= n)%nat -> H2R (n - c) n = H2R c n.
Proof.
  intros Hc. unfold H2R.
  destruct (Nat.eqb_spec c 0) as [->|Hc0].
  - rewrite Nat.sub_0_r, Nat.eqb_refl, orb_true_r. reflexivity.
  - destruct (Nat.eqb_spec c n) as [->|Hcn].
    + rewrite Nat.sub_diag. reflexivity.
    + destruct (Nat.eqb_spec (n - c) 0) as [E|_]; [lia|]. destruct (Nat.eqb_spec (n - c) n) as [E|_]; [lia|].
      cbn [orb]. replace (n - (n - c))%nat with c by lia. lra.
Qed.

Theorem shannon_same_counts s t : length s = length t -> count_true s = count_true t -> shannon s = shannon t.
Proof. intros Hl Hc. rewrite !shannon_H2R, Hl, Hc. reflexivity. Qed.

Theorem shannon_complement s : shannon (complement s) = shannon s.
Proof.
  rewrite !shannon_H2R, complement_length.
  pose proof (count_true_complement s) as Hc. pose proof (count_true_le s) as Hle.
  replace (count_true (complement s)) with (length s - count_true s)%nat by lia.
  apply H2R_sym. exact Hle.
Qed.
Theorem shannon_rev s : shannon (rev s) = shannon s.
Proof. apply shannon_same_counts; [apply rev_length|apply count_true_rev]. Qed.
Theorem shannon_rotate k s : shannon (rotate k s) = shannon s.
Proof. apply shannon_same_counts; [apply rotate_length|apply count_true_rotate]. Qed.

(* ------------------------------------------------------------------ the accumulation loop *)
Fixpoint wsum (w : nat -> R) (fuel k : nat) : R :=
  match fuel with 0%nat => 0 | S f => w k + wsum w f (S k) end.

Lemma acc_loop_snd d w : forall fuel k s tot totw,
  snd (acc_loop d w fuel k s tot totw) = totw + wsum w fuel k.
Proof.
  induction fuel as [|f IH]; intros k s tot totw; cbn [acc_loop wsum snd]; [lra|]. rewrite IH. lra.
Qed.

Lemma wsum_nonneg w : (forall k, 0 <= w k) -> forall fuel k, 0 <= wsum w fuel k.
Proof.
  intros Hw. induction fuel as [|f IH]; intros k; cbn [wsum]; [lra|]. specialize (Hw k). specialize (IH (S k)). lra.
Qed.
Lemma wsum_pos w : (forall k, 0 < w k) -> forall fuel k, (1 <= fuel)%nat -> 0 < wsum w fuel k.
Proof.
  intros Hw fuel k Hf. destruct fuel as [|f]; [lia|]. cbn [wsum].
  assert (0 <= wsum w f (S k)) by (apply wsum_nonneg; intros j; apply Rlt_le, Hw). specialize (Hw k). lra.
Qed.

(* geometric sum: the weights 2^k, k = k0 .. k0 + m - 1, add up to 2^k0 (2^m - 1) *)
Lemma wsum_pow2 : forall fuel k, wsum w_pow2 fuel k = 2 ^ k * (2 ^ fuel - 1).
Proof.
  induction fuel as [|f IH]; intros k; cbn [wsum]; [cbn; lra|]. rewrite IH. unfold w_pow2. cbn [pow]. ring.
Qed.

Lemma acc_loop_range d w : (forall k, 0 <= w k) -> forall fuel k s tot totw,
  0 <= tot <= totw ->
  0 <= fst (acc_loop d w fuel k s tot totw) <= snd (acc_loop d w fuel k s tot totw).
Proof.
  intros Hw. induction fuel as [|f IH]; intros k s tot totw Ht; cbn [acc_loop]; [cbn; exact Ht|].
  apply IH. pose proof (shannon_range s) as Hs. specialize (Hw k). nra.
Qed.

Lemma mean_range T W : 0 < W -> 0 <= T <= W -> 0 <= 1 / W * T <= 1.
Proof.
  intros HW HT. assert (Hi : 0 < / W) by (apply Rinv_0_lt_compat; exact HW).
  assert (Hone : / W * W = 1) by (apply Rinv_l; lra). unfold Rdiv. nra.
Qed.

Lemma w_pow2_pos k : 0 < w_pow2 k.
Proof. unfold w_pow2. apply pow_lt. lra. Qed.

Lemma w_log_ge_1 k : 1 <= w_log k.
Proof.
  unfold w_log, log2. pose proof ln2_pos as L2.
  assert (Hk : 2 <= INR (k + 2)) by (rewrite plus_INR; pose proof (pos_INR k); cbn; lra).
  assert (Hl : ln 2 <= ln (INR (k + 2))).
  { destruct Hk as [Hk|<-]; [apply Rlt_le, ln_increasing; lra|lra]. }
  apply Rmult_le_reg_r with (ln 2); [exact L2|]. unfold Rdiv. rewrite Rmult_assoc, Rinv_l by lra. lra.
Qed.
Lemma w_log_pos k : 0 < w_log k.
Proof. pose proof (w_log_ge_1 k). lra. Qed.

(* the divisor of bien is the accumulated weight *)
Theorem bien_normaliser s :
  snd (acc_loop binary_derivative w_pow2 (length s - 1) 0 s 0 0) = 2 ^ (length s - 1) - 1.
Proof. rewrite acc_loop_snd, wsum_pow2. cbn [pow]. lra. Qed.

Lemma pow2_ge_2 m : (1 <= m)%nat -> 2 <= 2 ^ m.
Proof. intros Hm. replace 2 with (2 ^ 1) at 1 by (cbn; lra). apply Rle_pow; [lra|exact Hm]. Qed.

Theorem bien_range s : bien_guard s -> 0 <= bien s <= 1.
Proof.
  unfold bien_guard. intros Hn. unfold bien. cbv zeta.
  rewrite <- (bien_normaliser s).
  pose proof (pow2_ge_2 (length s - 1) ltac:(lia)) as Hp.
  apply mean_range.
  - rewrite bien_normaliser. lra.
  - apply acc_loop_range; [intros k; apply Rlt_le, w_pow2_pos|lra].
Qed.

Lemma log_loop_range d s : (2 <= length s)%nat ->
  let r := acc_loop d w_log (length s - 1) 0 s 0 0 in 0 <= 1 / snd r * fst r <= 1.
Proof.
  intros Hn r. apply mean_range.
  - unfold r. rewrite acc_loop_snd. assert (0 < wsum w_log (length s - 1) 0); [|lra].
    apply wsum_pos; [apply w_log_pos|lia].
  - apply acc_loop_range; [intros k; apply Rlt_le, w_log_pos|lra].
Qed.

Theorem tbien_range s : bien_guard s -> 0 <= tbien s <= 1.
Proof. intros Hn. apply (log_loop_range binary_derivative s Hn). Qed.
Theorem ktbien_range s : bien_guard s -> 0 <= ktbien s <= 1.
Proof. intros Hn. apply (log_loop_range cyclic_binary_derivative s Hn). Qed.

(* the loop as a sum: tot = sum_j H(d^j s) w(k+j)  (the "weighted mean of the entropies of the
   successive derivatives" of the property text) *)
Fixpoint hsum (d : list bool -> list bool) (w : nat -> R) (fuel k : nat) (s : list bool) : R :=
  match fuel with 0%nat => 0 | S f => shannon s * w k + hsum d w f (S k) (d s) end.
Lemma acc_loop_fst d w : forall fuel k s tot totw,
  fst (acc_loop d w fuel k s tot totw) = tot + hsum d w fuel k s.
Proof.
  induction fuel as [|f IH]; intros k s tot totw; cbn [acc_loop hsum fst]; [lra|]. rewrite IH. lra.
Qed.
Lemma hsum_iter d w : forall fuel k s,
  hsum d w fuel k s = Rsum (fun j => shannon (iter_d d j s) * w (k + j)%nat) (seq 0 fuel).
Proof.
  induction fuel as [|f IH]; intros k s; [reflexivity|]. cbn [hsum seq Rsum iter_d].
  rewrite Nat.add_0_r. f_equal. rewrite IH, <- seq_shift, Rsum_map. apply Rsum_ext. intros j _.
  cbn [iter_d]. replace (S k + j)%nat with (k + S j)%nat by lia. reflexivity.
Qed.
Lemma wsum_iter w : forall fuel k, wsum w fuel k = Rsum (fun j => w (k + j)%nat) (seq 0 fuel).
Proof.
  induction fuel as [|f IH]; intros k; [reflexivity|]. cbn [wsum seq Rsum].
  rewrite Nat.add_0_r. f_equal. rewrite IH, <- seq_shift, Rsum_map. apply Rsum_ext. intros j _.
  replace (S k + j)%nat with (k + S j)%nat by lia. reflexivity.
Qed.

Theorem geometric_sum (m : nat) : Rsum (fun k => 2 ^ k) (seq 0 m) = 2 ^ m - 1.
Proof.
  transitivity (wsum w_pow2 m 0); [symmetry; apply (wsum_iter w_pow2 m 0)|].
  rewrite wsum_pow2. cbn [pow]. lra.
Qed.

(* Croll's formulas, read off the loops *)
Theorem bien_formula s :
  bien s = 1 / (2 ^ (length s - 1) - 1)
           * Rsum (fun k => shannon (iter_d binary_derivative k s) * 2 ^ k) (seq 0 (length s - 1)).
Proof. unfold bien. cbv zeta. rewrite acc_loop_fst, hsum_iter. rewrite Rplus_0_l. reflexivity. Qed.
Theorem tbien_formula s :
  tbien s = 1 / Rsum (fun k => log2 (INR (k + 2))) (seq 0 (length s - 1))
            * Rsum (fun k => shannon (iter_d binary_derivative k s) * log2 (INR (k + 2))) (seq 0 (length s - 1)).
Proof. unfold tbien. cbv zeta. rewrite acc_loop_fst, acc_loop_snd, hsum_iter, wsum_iter, !Rplus_0_l. reflexivity. Qed.
Theorem ktbien_formula s :
  ktbien s = 1 / Rsum (fun k => log2 (INR (k + 2))) (seq 0 (length s - 1))
             * Rsum (fun k => shannon (iter_d cyclic_binary_derivative k s) * log2 (INR (k + 2))) (seq 0 (length s - 1)).
Proof. unfold ktbien. cbv zeta. rewrite acc_loop_fst, acc_loop_snd, hsum_iter, wsum_iter, !Rplus_0_l. reflexivity. Qed.

(* ------------------------------------------------------------------ invariance *)
Lemma acc_loop_sim (Rel : list bool -> list bool -> Prop) d w :
  (forall a b, Rel a b -> Rel (d a) (d b)) ->
  (forall a b, Rel a b -> shannon a = shannon b) ->
  forall fuel k a b tot totw, Rel a b ->
  acc_loop d w fuel k a tot totw = acc_loop d w fuel k b tot totw.
Proof.
  intros Hstep Hsh. induction fuel as [|f IH]; intros k a b tot totw Hab; [reflexivity|].
  cbn [acc_loop]. rewrite (Hsh a b Hab). apply IH. apply Hstep. exact Hab.
Qed.

Definition rel_compl (a b : list bool) : Prop := a = complement b \/ a = b.
Definition rel_rev (a b : list bool) : Prop := a = rev b.
Definition rel_rot (k : nat) (a b : list bool) : Prop := a = rotate k b.
Definition rel_rotrev (a b : list bool) : Prop := exists j, a = Nat.iter j rot1 (rev b).

Lemma sim_compl_bd w fuel k s tot totw :
  acc_loop binary_derivative w fuel k (complement s) tot totw = acc_loop binary_derivative w fuel k s tot totw.
Proof.
  apply (acc_loop_sim rel_compl).
  - intros a b [-> | ->]; right; [apply binary_derivative_complement|reflexivity].
  - intros a b [->| ->]; [apply shannon_complement|reflexivity].
  - left; reflexivity.
Qed.
Lemma sim_compl_cbd w fuel k s tot totw :
  acc_loop cyclic_binary_derivative w fuel k (complement s) tot totw = acc_loop cyclic_binary_derivative w fuel k s tot totw.
Proof.
  apply (acc_loop_sim rel_compl).
  - intros a b [->| ->]; right; [apply cyclic_binary_derivative_complement|reflexivity].
  - intros a b [->| ->]; [apply shannon_complement|reflexivity].
  - left; reflexivity.
Qed.
Lemma sim_rev_bd w fuel k s tot totw :
  acc_loop binary_derivative w fuel k (rev s) tot totw = acc_loop binary_derivative w fuel k s tot totw.
Proof.
  apply (acc_loop_sim rel_rev).
  - intros a b ->. apply binary_derivative_rev.
  - intros a b ->. apply shannon_rev.
  - reflexivity.
Qed.
Lemma sim_rot_cbd j w fuel k s tot totw :
  acc_loop cyclic_binary_derivative w fuel k (rotate j s) tot totw = acc_loop cyclic_binary_derivative w fuel k s tot totw.
Proof.
  apply (acc_loop_sim (rel_rot j)).
  - intros a b ->. apply cyclic_binary_derivative_rotate.
  - intros a b ->. apply shannon_rotate.
  - reflexivity.
Qed.
Lemma sim_rev_cbd w fuel k s tot totw :
  acc_loop cyclic_binary_derivative w fuel k (rev s) tot totw = acc_loop cyclic_binary_derivative w fuel k s tot totw.
Proof.
  apply (acc_loop_sim rel_rotrev).
  - intros a b [j ->]. exists (S j).
    rewrite cyclic_binary_derivative_iter_rot1, cyclic_binary_derivative_rev. apply iter_succ_r.
  - intros a b [j ->]. rewrite <- (shannon_rev b).
    apply shannon_same_counts; [apply iter_rot1_length|apply count_true_iter_rot1].
  - exists 0%nat. reflexivity.
Qed.

Theorem bien_complement s : bien (complement s) = bien s.
Proof. unfold bien. rewrite complement_length. cbv zeta. rewrite sim_compl_bd. reflexivity. Qed.
Theorem bien_rev s : bien (rev s) = bien s.
Proof. unfold bien. rewrite rev_length. cbv zeta. rewrite sim_rev_bd. reflexivity. Qed.
Theorem tbien_complement s : tbien (complement s) = tbien s.
Proof. unfold tbien. rewrite complement_length. cbv zeta. rewrite sim_compl_bd. reflexivity. Qed.
Theorem tbien_rev s : tbien (rev s) = tbien s.
Proof. unfold tbien. rewrite rev_length. cbv zeta. rewrite sim_rev_bd. reflexivity. Qed.
Theorem ktbien_complement s : ktbien (complement s) = ktbien s.
Proof. unfold ktbien. rewrite complement_length. cbv zeta. rewrite sim_compl_cbd. reflexivity. Qed.
Theorem ktbien_rev s : ktbien (rev s) = ktbien s.
Proof. unfold ktbien. rewrite rev_length. cbv zeta. rewrite sim_rev_cbd. reflexivity. Qed.
Theorem ktbien_rotate j s : ktbien (rotate j s) = ktbien s.
Proof. unfold ktbien. rewrite rotate_length. cbv zeta. rewrite sim_rot_cbd. reflexivity. Qed.

(* non-degeneracy of the range statement: both ends are attained *)
Theorem bien_constant_zero a m : bien (repeat a (S (S m))) = 0.
Proof.
  (* every derivative of a constant string is constant (all false after the first), entropy 0 *)
  assert (Hconst : forall b n, shannon (repeat b n) = 0).
  { intros b n. rewrite shannon_H2R, repeat_length. unfold H2R.
    assert (Hc : count_true (repeat b n) = 0%nat \/ count_true (repeat b n) = n).
    { unfold count_true. destruct b; [right; apply count_occ_repeat_eq; reflexivity|left].
      apply count_occ_repeat_neq. discriminate. }
    destruct Hc as [-> | ->]; [reflexivity|]. rewrite Nat.eqb_refl, orb_true_r. reflexivity. }
  assert (Hd : forall b n, binary_derivative (repeat b (S n)) = repeat false n).
  { intros b n. rewrite binary_derivative_spec. induction n as [|n IH]; [reflexivity|].
    change (repeat b (S (S n))) with (b :: repeat b (S n)).
    change (xor_adjacent (b :: repeat b (S n))) with (xorb b b :: xor_adjacent (repeat b (S n))).
    rewrite IH, xorb_nilpotent. reflexivity. }
  assert (Hloop : forall fuel k b n tot totw, (fuel <= n)%nat ->
            fst (acc_loop binary_derivative w_pow2 fuel k (repeat b n) tot totw) = tot).
  { induction fuel as [|f IH]; intros k b n tot totw Hf; [reflexivity|]. cbn [acc_loop].
    destruct n as [|n]; [lia|]. rewrite Hd, IH by lia. rewrite Hconst. lra. }
  unfold bien. cbv zeta. rewrite repeat_length, Hloop by lia. lra.
Qed.

Theorem bien_01_one : bien [false; true] = 1.
Proof.
  unfold bien. cbv zeta. cbn [length Nat.sub acc_loop fst]. rewrite shannon_H2R.
  change (count_true [false; true]) with 1%nat. change (length [false; true]) with 2%nat.
  unfold H2R, termR, w_pow2. cbn [Nat.eqb orb Nat.sub INR pow]. unfold log2.
  pose proof ln2_pos as L2.
  replace (ln (1 / (1 + 1))) with (- ln 2).
  2:{ unfold Rdiv. rewrite Rmult_1_l, ln_Rinv by lra. replace (1 + 1) with 2 by lra. reflexivity. }
  field. lra.
Qed.

(* ------------------------------------------------------------------ interval twin: containment *)
Lemma c_add a b x y : contains (I.convert a) (Xreal x) -> contains (I.convert b) (Xreal y) ->
  contains (I.convert (I.add prec a b)) (Xreal (x + y)).
Proof. intros Ha Hb. apply (I.add_correct prec a b (Xreal x) (Xreal y) Ha Hb). Qed.
Lemma c_sub a b x y : contains (I.convert a) (Xreal x) -> contains (I.convert b) (Xreal y) ->
  contains (I.convert (I.sub prec a b)) (Xreal (x - y)).
Proof. intros Ha Hb. apply (I.sub_correct prec a b (Xreal x) (Xreal y) Ha Hb). Qed.
Lemma c_mul a b x y : contains (I.convert a) (Xreal x) -> contains (I.convert b) (Xreal y) ->
  contains (I.convert (I.mul prec a b)) (Xreal (x * y)).
Proof. intros Ha Hb. apply (I.mul_correct prec a b (Xreal x) (Xreal y) Ha Hb). Qed.
Lemma c_div a b x y : contains (I.convert a) (Xreal x) -> contains (I.convert b) (Xreal y) -> y <> 0 ->
  contains (I.convert (I.div prec a b)) (Xreal (x / y)).
Proof.
  intros Ha Hb Hy. replace (Xreal (x / y)) with (Xdiv (Xreal x) (Xreal y)).
  - apply I.div_correct; assumption.
  - unfold Xdiv, Xdiv'. rewrite is_zero_false by exact Hy. reflexivity.
Qed.
Lemma c_Z z : contains (I.convert (I.fromZ prec z)) (Xreal (IZR z)).
Proof. apply I.fromZ_correct. Qed.
Lemma c_N k : contains (I.convert (IofN k)) (Xreal (INR k)).
Proof. rewrite INR_IZR_INZ. apply c_Z. Qed.

Lemma ln_direct_ok k : (1 <= k)%nat -> contains (I.convert (ln_direct k)) (Xreal (ln (INR k))).
Proof.
  intros Hk. unfold ln_direct.
  replace (Xreal (ln (INR k))) with (Xln (Xreal (INR k))).
  - apply I.ln_correct. apply c_N.
  - unfold Xln, Xln'. rewrite is_positive_true; [reflexivity|]. apply lt_0_INR. lia.
Qed.

Lemma lnI_ok k : (1 <= k)%nat -> contains (I.convert (lnI k)) (Xreal (ln (INR k))).
Proof.
  intros Hk. destruct k as [|j]; [lia|]. unfold lnI.
  destruct (j <? LN_MAX)%nat eqn:E; [|apply ln_direct_ok; lia].
  apply Nat.ltb_lt in E. unfold ln_tab.
  rewrite (nth_indep _ I.nai (ln_direct 0)) by (rewrite map_length, seq_length; exact E).
  rewrite map_nth, seq_nth by exact E. apply ln_direct_ok. lia.
Qed.

Lemma ln_div' x y : 0 < x -> 0 < y -> ln (x / y) = ln x - ln y.
Proof.
  intros Hx Hy. unfold Rdiv. rewrite ln_mult by (try apply Rinv_0_lt_compat; assumption).
  rewrite ln_Rinv by exact Hy. lra.
Qed.

Lemma H2R_formula c n : (0 < c)%nat -> (c < n)%nat ->
  H2R c n = (INR n * ln (INR n) - (INR c * ln (INR c) + INR (n - c) * ln (INR (n - c)))) / (INR n * ln 2).
Proof.
  intros Hc Hn. unfold H2R.
  destruct (Nat.eqb_spec c 0) as [E|_]; [lia|]. destruct (Nat.eqb_spec c n) as [E|_]; [lia|]. cbn [orb].
  pose proof ln2_pos as L2.
  assert (HN : 0 < INR n) by (apply lt_0_INR; lia).
  assert (HC : 0 < INR c) by (apply lt_0_INR; lia).
  assert (HM : 0 < INR (n - c)) by (apply lt_0_INR; lia).
  assert (EM : INR (n - c) = INR n - INR c) by (apply minus_INR; lia).
  unfold termR, log2. rewrite !ln_div' by assumption.
  set (lM := ln (INR (n - c))). rewrite EM. field. lra.
Qed.

Lemma H2I_ok c n : (c <= n)%nat -> contains (I.convert (H2I c n)) (Xreal (H2R c n)).
Proof.
  intros Hcn. destruct ((c =? 0)%nat || (c =? n)%nat) eqn:E.
  - unfold H2I, H2R. rewrite E. apply (c_Z 0).
  - apply orb_false_iff in E as [E0 En]. apply Nat.eqb_neq in E0, En.
    rewrite H2R_formula by lia. unfold H2I.
    replace ((c =? 0)%nat || (c =? n)%nat) with false
      by (symmetry; apply orb_false_iff; split; apply Nat.eqb_neq; assumption).
    pose proof ln2_pos as L2.
    assert (HN : 0 < INR n) by (apply lt_0_INR; lia).
    apply c_div.
    + apply c_sub; [apply c_mul; [apply c_N|apply lnI_ok; lia]|].
      apply c_add; (apply c_mul; [apply c_N|apply lnI_ok; lia]).
    + apply c_mul; [apply c_N|]. replace 2 with (INR 2) at 2 by (cbn; lra). apply lnI_ok. lia.
    + nra.
Qed.

Lemma shannonI_ok s : contains (I.convert (shannonI s)) (Xreal (shannon s)).
Proof. rewrite shannon_H2R. apply H2I_ok. apply count_true_le. Qed.

Lemma w_pow2I_ok k : contains (I.convert (w_pow2I k)) (Xreal (w_pow2 k)).
Proof. unfold w_pow2I, w_pow2. rewrite pow_IZR. apply c_Z. Qed.
Lemma w_logI_ok k : contains (I.convert (w_logI k)) (Xreal (w_log k)).
Proof.
  unfold w_logI, w_log, log2. pose proof ln2_pos as L2. apply c_div.
  - apply lnI_ok. lia.
  - replace 2 with (INR 2) at 2 by (cbn; lra). apply lnI_ok. lia.
  - lra.
Qed.

Lemma acc_loopI_ok d dI wI w :
  (forall s, dI s = d s) -> (forall k, contains (I.convert (wI k)) (Xreal (w k))) ->
  forall fuel k s totI totwI tot totw,
  contains (I.convert totI) (Xreal tot) -> contains (I.convert totwI) (Xreal totw) ->
  contains (I.convert (fst (acc_loopI dI wI fuel k s totI totwI))) (Xreal (fst (acc_loop d w fuel k s tot totw))) /\
  contains (I.convert (snd (acc_loopI dI wI fuel k s totI totwI))) (Xreal (snd (acc_loop d w fuel k s tot totw))).
Proof.
  intros Hd Hw. induction fuel as [|f IH]; intros k s totI totwI tot totw Ht Htw.
  - cbn. split; assumption.
  - cbn [acc_loopI acc_loop]. cbv zeta. rewrite Hd. apply IH.
    + apply c_add; [exact Ht|]. apply c_mul; [apply shannonI_ok|apply Hw].
    + apply c_add; [exact Htw|apply Hw].
Qed.

Theorem bienI_ok s : bien_guard s -> contains (I.convert (bienI s)) (Xreal (bien s)).
Proof.
  unfold bien_guard. intros Hn. unfold bienI, bien. cbv zeta.
  pose proof (pow2_ge_2 (length s - 1) ltac:(lia)) as Hp.
  apply c_mul.
  - apply c_div; [apply (c_Z 1)| |lra].
    replace (2 ^ (length s - 1) - 1) with (IZR (2 ^ Z.of_nat (length s - 1) - 1)); [apply c_Z|].
    rewrite minus_IZR, <- pow_IZR. reflexivity.
  - apply (acc_loopI_ok binary_derivative xor_adjacent w_pow2I w_pow2);
      [intros x; symmetry; apply binary_derivative_spec|apply w_pow2I_ok|apply (c_Z 0)|apply (c_Z 0)].
Qed.

Lemma log_loopI_ok d dI s : (forall x, dI x = d x) -> (2 <= length s)%nat ->
  let rI := acc_loopI dI w_logI (length s - 1) 0 s (I.fromZ prec 0) (I.fromZ prec 0) in
  let r := acc_loop d w_log (length s - 1) 0 s 0 0 in
  contains (I.convert (I.mul prec (I.div prec (I.fromZ prec 1) (snd rI)) (fst rI))) (Xreal (1 / snd r * fst r)).
Proof.
  intros Hd Hn rI r.
  destruct (acc_loopI_ok d dI w_logI w_log Hd w_logI_ok (length s - 1) 0 s _ _ 0 0 (c_Z 0) (c_Z 0)) as [Hf Hs].
  apply c_mul; [|exact Hf]. apply c_div; [apply (c_Z 1)|exact Hs|].
  unfold r. rewrite acc_loop_snd. assert (0 < wsum w_log (length s - 1) 0); [|lra].
  apply wsum_pos; [apply w_log_pos|lia].
Qed.

Theorem tbienI_ok s : bien_guard s -> contains (I.convert (tbienI s)) (Xreal (tbien s)).
Proof.
  intros Hn. apply (log_loopI_ok binary_derivative xor_adjacent s); [|exact Hn].
  intros x; symmetry; apply binary_derivative_spec.
Qed.
Theorem ktbienI_ok s : bien_guard s -> contains (I.convert (ktbienI s)) (Xreal (ktbien s)).
Proof.
  intros Hn. apply (log_loopI_ok cyclic_binary_derivative xor_adjacent_cyclic s); [|exact Hn].
  intros x; symmetry; apply cyclic_binary_derivative_spec.
Qed.

(* ------------------------------------------------------------------ the comparison of Corr/C18.v is sound:
   a double m * 2^e accepted by `within` is at most 2^-30 away from the enclosed real *)
Lemma dbl_value m e : F.toR (dbl m e) = IZR m * bpow radix2 e.
Proof.
  unfold F.toR, dbl, F.toX, F.toF.
  destruct m as [|q|q]; cbn.
  - lra.
  - rewrite FtoR_split. unfold F2R. cbn. reflexivity.
  - rewrite FtoR_split. unfold F2R. cbn. reflexivity.
Qed.

Lemma dbl_pt m e : contains (I.convert (I.bnd (dbl m e) (dbl m e))) (Xreal (F.toR (dbl m e))).
Proof.
  rewrite I.bnd_correct.
  - unfold dbl. rewrite F.toX_Float. cbn. split; apply Rle_refl.
  - apply I.valid_lb_real. unfold dbl. rewrite F.toX_Float. reflexivity.
  - apply I.valid_ub_real. unfold dbl. rewrite F.toX_Float. reflexivity.
Qed.

Lemma tol_convert : I.convert tol = Ibnd (Xreal (- / 2 ^ 30)) (Xreal (/ 2 ^ 30)).
Proof.
  unfold tol. rewrite I.bnd_correct.
  - unfold dbl. rewrite !F.toX_Float. unfold F.toR, F.toX, F.toF. cbn -[pow].
    assert (E : 2 ^ 30 = 1073741824) by (simpl; lra). rewrite E. change (StdZRadix2.MtoP 1) with 1%positive. f_equal; f_equal; lra.
  - apply I.valid_lb_real. unfold dbl. rewrite F.toX_Float. reflexivity.
  - apply I.valid_ub_real. unfold dbl. rewrite F.toX_Float. reflexivity.
Qed.

Theorem within_ok enc m e x : contains (I.convert enc) (Xreal x) -> within enc m e = true ->
  Rabs (x - IZR m * bpow radix2 e) <= / 2 ^ 30.
Proof.
  intros Hx Hw. unfold within in Hw.
  pose proof (c_sub _ _ _ _ Hx (dbl_pt m e)) as Hs.
  pose proof (I.subset_correct _ _ _ Hs Hw) as Ht. rewrite tol_convert, dbl_value in Ht.
  cbn in Ht. apply Rabs_le. lra.
Qed.
