(* C20, end to end: the composition section of Proofs/HopfieldProofs.v instantiated with the real
   engine -- evolve_plain (C01, Model/Evolve1D.v) driving async_rule1 (C12, Model/Async.v) that wraps
   hopfield_rule1.  Uses async_run_1d (Proofs/AsyncProofs.v: evolving with the AsynchronousRule object
   IS the sequential automaton seq_step1) and neighbourhoods_spec (Proofs/Evolve1DProofs.v: the c-th
   window of the strided index matrix is the ring neighbourhood of c). *)
From Coq Require Import ZArith Lia List Arith Permutation.
From CPL Require Import Model.Base Model.Rules Model.Engine Model.Evolve1D Model.Async Model.Hopfield.
From CPL Require Import Proofs.Evolve1DProofs Proofs.AsyncProofs Proofs.HopfieldProofs.
Import ListNotations.

Lemma upd1_upd_list s x v : x < length s -> upd1 s x v = upd_list s x v.
Proof.
  intros Hx. apply (nth_ext _ _ 0%Z 0%Z).
  - unfold upd1. rewrite map_length, seq_length, length_upd_list. reflexivity.
  - intros c Hc. unfold upd1 in *. rewrite map_length, seq_length in Hc.
    rewrite (HopfieldProofs.nth_map_seq _ _ _ _ Hc).
    unfold upd_list. rewrite nth_upd_nth.
    apply Nat.ltb_lt in Hx. rewrite Hx, Bool.andb_true_r. reflexivity.
Qed.

Lemma good1_id N s : length s = N -> good1 store_id N s.
Proof. intros H. split; [exact H|]. apply Forall_forall. intros; reflexivity. Qed.

Section HopAsync.
  Variable r : nat.
  Hypothesis Hr : 1 <= r.
  Local Notation N := (2 * r + 1).
  Variable W : list (list Z).
  Variable sh : nat -> list nat -> list nat.
  Hypothesis sh_perm : forall i l, Permutation l (sh i l).

  Local Notation sstep := (seq_step1 (hopfield_rule1 W r) sh store_id r).
  Definition sched_of (a : astate nat unit) : nat := nth (a_curr a) (a_order a) 0.

  (* the sequential automaton of C12 satisfies the hypothesis of the composition section *)
  Lemma sstep_one_cell : forall a s t, ainv1 unit N a -> length s = N ->
    sched_of a < N /\ ainv1 unit N (fst (sstep a s t)) /\
    snd (sstep a s t) =
      upd_list s (sched_of a) (snd (hopfield_rule1 W r tt (ring_nbhd s (sched_of a) r) (sched_of a) t)).
  Proof.
    intros a s t Ha HL.
    assert (Hx : sched_of a < N).
    { destruct Ha as (_ & _ & Hk & _ & Hin). apply (in_seq N 0 (sched_of a)), Hin, nth_In, Hk. }
    split; [exact Hx|]. split.
    - apply (sstep_inv nat 0 (list Z) unit (hopfield_rule1 W r) sh sh_perm (list Z) (good1 store_id N) (seq 0 N)
               (nbof1 r) upd1 store_id).
      + intros cur x v Hg Hin. apply (upd1_good sh sh_perm store_id (fun z => eq_refl) N r ltac:(lia)); assumption.
      + exact Ha.
      + apply good1_id. exact HL.
    - unfold seq_step1, seq_step. fold (sched_of a).
      unfold nbof1. destruct (neighbourhoods_spec s r ltac:(lia)) as [_ Hnb].
      rewrite (Hnb (sched_of a)) by lia.
      destruct (a_inner a). unfold hopfield_rule1 at 1. cbn [snd].
      rewrite upd1_upd_list by lia. reflexivity.
  Qed.

  (* evolve with the AsynchronousRule object = evolve with the sequential automaton *)
  Lemma evolve_async_seq : forall T a0 s, ainv1 unit N a0 -> length s = N ->
    evolve_plain (async_rule1 (hopfield_rule1 W r) sh) store_id r a0 [s] T =
    evolve_fixed [] sstep a0 [s] T.
  Proof.
    intros T a0 s Ha HL. unfold evolve_plain, evolve_fixed. destruct T as [|k]; [reflexivity|].
    cbn [last].
    rewrite (async_run_1d unit (hopfield_rule1 W r) sh sh_perm store_id (fun z => eq_refl) N r ltac:(lia)
               k a0 s 1 Ha (good1_id N s HL)).
    reflexivity.
  Qed.

  (* what HopfieldNet.__init__ builds: AsynchronousRule(_rule, num_cells=N) = all cells, shuffled once *)
  Lemma init_cells_inv rand : ainv1 unit N (async_init_cells sh (init_order1 N) rand tt).
  Proof.
    unfold ainv1, AInv, async_init_cells, shuffle_order, init_order1. cbn [a_napp a_order a_curr a_nsh].
    pose proof (sh_perm 0 (seq 0 N)) as P.
    rewrite <- (Permutation_length P), seq_length.
    split; [reflexivity|]. split; [lia|]. split; [lia|].
    split; [eapply Permutation_NoDup; [exact P|apply seq_NoDup]|].
    intros x Hx. eapply Permutation_in; [apply Permutation_sym; exact P|exact Hx].
  Qed.
  (* the schedule of the sequential automaton is C12's sched_trace: the cell order[curr] of the current
     (possibly reshuffled) update order, curr advancing cyclically *)
  Lemma sched_cells_trace : forall n a s t,
    sched_cells (astate nat unit) sstep sched_of n a s t =
    sched_trace nat 0 sh n (a_rand a) (a_order a) (a_curr a) (a_nsh a).
  Proof.
    induction n as [|n IH]; intros a s t; [reflexivity|].
    cbn [sched_cells sched_trace]. f_equal. rewrite IH.
    unfold seq_step1, seq_step.
    destruct (hopfield_rule1 W r (a_inner a) (nbof1 r s (nth (a_curr a) (a_order a) 0)) (nth (a_curr a) (a_order a) 0) t) as [s' v].
    cbn [fst a_rand a_order a_curr a_nsh]. reflexivity.
  Qed.
End HopAsync.

(* TOTALITY, end to end: cpl.evolve(initial, T, AsynchronousRule(_rule, ...), r) as modelled by evolve_plain +
   async_rule1 on an odd ring N = 2r+1 >= 3 returns for every T >= 1, every N x N matrix W, every start of length
   N, every shuffle oracle and every admissible AsynchronousRule state; its rows are the trajectory of the
   Hopfield updates of exactly the scheduled cells (C12's sched_trace: order[curr] of the current, possibly
   reshuffled, order), and no call of _rule raises. *)
Theorem hopfield_async_total : forall r W sh a0 s T, 1 <= r -> 1 <= T ->
  shape (2 * r + 1) W -> (forall i l, Permutation l (sh i l)) ->
  ainv1 unit (2 * r + 1) a0 -> length s = 2 * r + 1 ->
  let cs := sched_trace nat 0 sh (T - 1) (a_rand a0) (a_order a0) (a_curr a0) (a_nsh a0) in
  let rows := trajectory W s cs in
  (exists a, evolve_plain (async_rule1 (hopfield_rule1 W r) sh) store_id r a0 [s] T = Ok (a, rows)) /\
  length cs = T - 1 /\ Forall (fun c => c < 2 * r + 1) cs /\ length rows = T /\
  Forall (fun row => length row = 2 * r + 1) rows /\
  forall i, i < T - 1 ->
    hopfield_rule W r (ring_nbhd (nth i rows []) (nth i cs 0) r) (nth i cs 0)
    = Ok (nth (nth i cs 0) (nth (S i) rows []) 0%Z).
Proof.
  intros r W sh a0 s T Hr HT HS Hperm Ha HL. cbn zeta.
  pose proof (evolve_total r W HS (astate nat unit) _ (ainv1 unit (2 * r + 1)) sched_of
                (sstep_one_cell r Hr W sh Hperm) T a0 s HT Ha HL) as H.
  cbn zeta in H. rewrite (sched_cells_trace r W sh) in H.
  rewrite (evolve_async_seq r Hr W sh Hperm T a0 s Ha HL). exact H.
Qed.

(* ENERGY, end to end, with the schedule by name *)
Theorem hopfield_async_energy : forall r W sh a0 s T, 1 <= r -> 1 <= T ->
  shape (2 * r + 1) W -> wsym (2 * r + 1) W -> wdiag (2 * r + 1) W ->
  (forall i l, Permutation l (sh i l)) ->
  ainv1 unit (2 * r + 1) a0 -> length s = 2 * r + 1 -> bipolar s ->
  let cs := sched_trace nat 0 sh (T - 1) (a_rand a0) (a_order a0) (a_curr a0) (a_nsh a0) in
  let rows := trajectory W s cs in
  (exists a, evolve_plain (async_rule1 (hopfield_rule1 W r) sh) store_id r a0 [s] T = Ok (a, rows)) /\
  length rows = T /\ Forall (fun c => c < 2 * r + 1) cs /\
  nonincreasing (map (energy2 W) rows) /\
  Forall (fun row => length row = 2 * r + 1 /\ bipolar row) rows.
Proof.
  intros r W sh a0 s T Hr HT HS HSy HD Hperm Ha HL Hb. cbn zeta.
  pose proof (evolve_energy r W HS (astate nat unit) _ (ainv1 unit (2 * r + 1)) sched_of
                (sstep_one_cell r Hr W sh Hperm) T a0 s HT HSy HD Ha HL Hb) as H.
  cbn zeta in H. rewrite (sched_cells_trace r W sh) in H.
  rewrite (evolve_async_seq r Hr W sh Hperm T a0 s Ha HL). exact H.
Qed.

(* the net as HopfieldNet builds it: odd N >= 3, r = N // 2, update order = all cells shuffled once *)
Lemma net_setup N sh rand : Nat.odd N = true -> 3 <= N -> (forall i l, Permutation l (sh i l)) ->
  let r := hopfield_r N in
  N = 2 * r + 1 /\ 1 <= r /\ ainv1 unit (2 * r + 1) (async_init_cells sh (init_order1 (2 * r + 1)) rand tt).
Proof.
  intros Hodd HN Hperm r. pose proof (hopfield_r_odd N Hodd) as EN. fold r in EN.
  assert (Hr : 1 <= r) by lia. split; [exact EN|]. split; [exact Hr|]. apply (init_cells_inv r Hr sh Hperm).
Qed.

Theorem hopfield_net_total : forall N p0 P W sh rand s T,
  Nat.odd N = true -> 3 <= N -> 1 <= T ->
  Forall (fun p => length p = N) (p0 :: P) -> train (p0 :: P) = Ok W ->
  (forall i l, Permutation l (sh i l)) -> length s = N ->
  let cs := sched_trace nat 0 sh (T - 1) rand (sh 0 (seq 0 N)) 0 1 in
  let rows := trajectory W s cs in
  (exists a, evolve_plain (async_rule1 (hopfield_rule1 W (hopfield_r N)) sh) store_id (hopfield_r N)
               (async_init_cells sh (init_order1 N) rand tt) [s] T = Ok (a, rows)) /\
  length cs = T - 1 /\ Forall (fun c => c < N) cs /\ length rows = T /\
  Forall (fun row => length row = N) rows /\
  forall i, i < T - 1 ->
    hopfield_rule W (hopfield_r N) (ring_nbhd (nth i rows []) (nth i cs 0) (hopfield_r N)) (nth i cs 0)
    = Ok (nth (nth i cs 0) (nth (S i) rows []) 0%Z).
Proof.
  intros N p0 P W sh rand s T Hodd HN HT HP HTr Hperm HL.
  destruct (net_setup N sh rand Hodd HN Hperm) as (EN & Hr & Ha). set (r := hopfield_r N) in *.
  destruct (train_hebbian N p0 P HP) as (W' & HT' & HS & _ & _ & _).
  rewrite HTr in HT'. injection HT' as <-.
  rewrite EN in HS, HL |- *.
  exact (hopfield_async_total r W sh _ s T Hr HT HS Hperm Ha HL).
Qed.

Theorem hopfield_net_energy : forall N p0 P W sh rand s T,
  Nat.odd N = true -> 3 <= N -> 1 <= T ->
  Forall (fun p => length p = N) (p0 :: P) -> train (p0 :: P) = Ok W ->
  (forall i l, Permutation l (sh i l)) ->
  length s = N -> bipolar s ->
  let cs := sched_trace nat 0 sh (T - 1) rand (sh 0 (seq 0 N)) 0 1 in
  let rows := trajectory W s cs in
  (exists a, evolve_plain (async_rule1 (hopfield_rule1 W (hopfield_r N)) sh) store_id (hopfield_r N)
               (async_init_cells sh (init_order1 N) rand tt) [s] T = Ok (a, rows)) /\
  length rows = T /\ Forall (fun c => c < N) cs /\
  nonincreasing (map (energy2 W) rows) /\
  Forall (fun row => length row = N /\ bipolar row) rows.
Proof.
  intros N p0 P W sh rand s T Hodd HN HT HP HTr Hperm HL Hb.
  destruct (net_setup N sh rand Hodd HN Hperm) as (EN & Hr & Ha). set (r := hopfield_r N) in *.
  destruct (train_hebbian N p0 P HP) as (W' & HT' & HS & _ & HSy & HD).
  rewrite HTr in HT'. injection HT' as <-.
  rewrite EN in HS, HSy, HD, HL |- *.
  exact (hopfield_async_energy r W sh _ s T Hr HT HS HSy HD Hperm Ha HL Hb).
Qed.

(* without randomize_each_cycle (what HopfieldNet uses) the schedule is the shuffled order, cyclically:
   step t (1-based) updates cell order[(t-1) mod N], order = the constructor's shuffle of 0..N-1 *)
Theorem hopfield_net_schedule : forall N sh T i, 1 <= N -> (forall i l, Permutation l (sh i l)) -> i < T - 1 ->
  nth i (sched_trace nat 0 sh (T - 1) false (sh 0 (seq 0 N)) 0 1) 0 = nth (i mod N) (sh 0 (seq 0 N)) 0.
Proof.
  intros N sh T i HN Hperm Hi.
  assert (HL : length (sh 0 (seq 0 N)) = N) by (rewrite <- (Permutation_length (Hperm 0 (seq 0 N))); apply seq_length).
  rewrite trace_cyclic by (rewrite ?HL; lia). rewrite HL. reflexivity.
Qed.

(* a single stored pattern and its negation are fixed points of the real evolution *)
Theorem hopfield_net_stored_fixed : forall N p W sh rand T,
  Nat.odd N = true -> 3 <= N -> 1 <= T -> length p = N -> bipolar p -> train [p] = Ok W ->
  (forall i l, Permutation l (sh i l)) ->
  (exists a, evolve_plain (async_rule1 (hopfield_rule1 W (hopfield_r N)) sh) store_id (hopfield_r N)
               (async_init_cells sh (init_order1 N) rand tt) [p] T = Ok (a, repeat p T)) /\
  (exists a, evolve_plain (async_rule1 (hopfield_rule1 W (hopfield_r N)) sh) store_id (hopfield_r N)
               (async_init_cells sh (init_order1 N) rand tt) [map Z.opp p] T = Ok (a, repeat (map Z.opp p) T)).
Proof.
  intros N p W sh rand T Hodd HN HT HL Hb HTr Hperm.
  destruct (net_setup N sh rand Hodd HN Hperm) as (EN & Hr & Ha). set (r := hopfield_r N) in *.
  destruct (train_hebbian N p [] ltac:(constructor; [exact HL|constructor])) as (W' & HT' & HS & _ & _ & _).
  rewrite HTr in HT'. injection HT' as <-.
  rewrite EN in HS, HL |- *.
  destruct (evolve_stored_fixed r W HS (astate nat unit) _ (ainv1 unit (2 * r + 1)) sched_of
              (sstep_one_cell r Hr W sh Hperm) T _ p HT Hr HTr HL Hb Ha) as [F1 F2].
  rewrite !(evolve_async_seq r Hr W sh Hperm T _ _ Ha) by (rewrite ?map_length; exact HL).
  split; assumption.
Qed.
