(* C20, end to end: the composition section of Proofs/HopfieldProofs.v instantiated with the real
   engine -- evolve_plain (C01, Model/Evolve1D.v) driving async_rule1 (C12, Model/Async.v) that wraps
   hopfield_rule1.  Uses async_run_1d (Proofs/AsyncProofs.v: evolving with the AsynchronousRule object
   IS the sequential automaton seq_step1) and neighbourhoods_spec (Proofs/Evolve1DProofs.v: the c-th
   window of the strided index matrix is the ring neighbourhood of c). *)
From Coq Require Import ZArith Lia List Arith Permutation.
From CPL Require Import Model.Base Model.Rules Model.Engine Model.Evolve1D Model.Async Model.Hopfield.
From CPL Require Import Proofs.Evolve1DProofs Proofs.AsyncProofs Proofs.HopfieldProofs.
Import ListNotations.

Lemma upd1_upd_list s x v : x < length s -> upd1 s x v = upd_list s x v.
Proof.
  intros Hx. apply (nth_ext _ _ 0%Z 0%Z).
  - unfold upd1. rewrite map_length, seq_length, length_upd_list. reflexivity.
  - intros c Hc. unfold upd1 in *. rewrite map_length, seq_length in Hc.
    rewrite (HopfieldProofs.nth_map_seq _ _ _ _ Hc).
    unfold upd_list. rewrite nth_upd_nth.
    apply Nat.ltb_lt in Hx. rewrite Hx, Bool.andb_true_r. reflexivity.
Qed.

Lemma good1_id N s : length s = N -> good1 store_id N s.
Proof. intros H. split; [exact H|]. apply Forall_forall. intros; reflexivity. Qed.

Section HopAsync.
  Variable r : nat.
  Hypothesis Hr : 1 <= r.
  Local Notation N := (2 * r + 1).
  Variable W : list (list Z).
  Variable sh : nat -> list nat -> list nat.
  Hypothesis sh_perm : forall i l, Permutation l (sh i l).

  Local Notation sstep := (seq_step1 (hopfield_rule1 W r) sh store_id r).
  Definition sched_of (a : astate nat unit) : nat := nth (a_curr a) (a_order a) 0.

  (* the sequential automaton of C12 satisfies the hypothesis of the composition section *)
  Lemma sstep_one_cell : forall a s t, ainv1 unit N a -> length s = N ->
    sched_of a < N /\ ainv1 unit N (fst (sstep a s t)) /\
    snd (sstep a s t) =
      upd_list s (sched_of a) (snd (hopfield_rule1 W r tt (ring_nbhd s (sched_of a) r) (sched_of a) t)).
  Proof.
    intros a s t Ha HL.
    assert (Hx : sched_of a < N).
    { destruct Ha as (_ & _ & Hk & _ & Hin). apply (in_seq N 0 (sched_of a)), Hin, nth_In, Hk. }
    split; [exact Hx|]. split.
    - apply (sstep_inv nat 0 (list Z) unit (hopfield_rule1 W r) sh sh_perm (list Z) (good1 store_id N) (seq 0 N)
               (nbof1 r) upd1 store_id).
      + intros cur x v Hg Hin. apply (upd1_good sh sh_perm store_id (fun z => eq_refl) N r ltac:(lia)); assumption.
      + exact Ha.
      + apply good1_id. exact HL.
    - unfold seq_step1, seq_step. fold (sched_of a).
      unfold nbof1. destruct (neighbourhoods_spec s r ltac:(lia)) as [_ Hnb].
      rewrite (Hnb (sched_of a)) by lia.
      destruct (a_inner a). unfold hopfield_rule1 at 1. cbn [snd].
      rewrite upd1_upd_list by lia. reflexivity.
  Qed.

  (* evolve with the AsynchronousRule object = evolve with the sequential automaton *)
  Lemma evolve_async_seq : forall T a0 s, ainv1 unit N a0 -> length s = N ->
    evolve_plain (async_rule1 (hopfield_rule1 W r) sh) store_id r a0 [s] T =
    evolve_fixed [] sstep a0 [s] T.
  Proof.
    intros T a0 s Ha HL. unfold evolve_plain, evolve_fixed. destruct T as [|k]; [reflexivity|].
    cbn [last].
    rewrite (async_run_1d unit (hopfield_rule1 W r) sh sh_perm store_id (fun z => eq_refl) N r ltac:(lia)
               k a0 s 1 Ha (good1_id N s HL)).
    reflexivity.
  Qed.

  (* what HopfieldNet.__init__ builds: AsynchronousRule(_rule, num_cells=N) = all cells, shuffled once *)
  Lemma init_cells_inv rand : ainv1 unit N (async_init_cells sh (init_order1 N) rand tt).
  Proof.
    unfold ainv1, AInv, async_init_cells, shuffle_order, init_order1. cbn [a_napp a_order a_curr a_nsh].
    pose proof (sh_perm 0 (seq 0 N)) as P.
    rewrite <- (Permutation_length P), seq_length.
    split; [reflexivity|]. split; [lia|]. split; [lia|].
    split; [eapply Permutation_NoDup; [exact P|apply seq_NoDup]|].
    intros x Hx. eapply Permutation_in; [apply Permutation_sym; exact P|exact Hx].
  Qed.
End HopAsync.

(* ENERGY, end to end: cpl.evolve(initial, T, net.apply_rule, r=net.r) on an odd ring N = 2r+1 >= 3,
   for every symmetric zero-diagonal N x N weight matrix, every shuffle outcome (any permutation, also
   with randomize_each_cycle), every bipolar start: every row is bipolar of length N, each row differs
   from the previous one by one Hopfield update of one cell, and 2E never increases. *)
Theorem hopfield_async_energy : forall r W sh a0 s T a rows, 1 <= r ->
  shape (2 * r + 1) W -> wsym (2 * r + 1) W -> wdiag (2 * r + 1) W ->
  (forall i l, Permutation l (sh i l)) ->
  ainv1 unit (2 * r + 1) a0 -> length s = 2 * r + 1 -> bipolar s ->
  evolve_plain (async_rule1 (hopfield_rule1 W r) sh) store_id r a0 [s] T = Ok (a, rows) ->
  length rows = T /\
  nonincreasing (map (energy2 W) rows) /\
  Forall (fun row => length row = 2 * r + 1 /\ bipolar row) rows /\
  exists cs, Forall (fun c => c < 2 * r + 1) cs /\ rows = trajectory W s cs.
Proof.
  intros r W sh a0 s T a rows Hr HS HSy HD Hperm Ha HL Hb Hev.
  rewrite (evolve_async_seq r Hr W sh Hperm T a0 s Ha HL) in Hev.
  exact (evolve_energy r W HS (astate nat unit) _ (ainv1 unit (2 * r + 1)) sched_of
           (sstep_one_cell r Hr W sh Hperm) T a0 s a rows HSy HD Ha HL Hb Hev).
Qed.

(* the same for a trained net with the update order HopfieldNet builds *)
Theorem hopfield_net_energy : forall N p0 P W sh rand s T a rows,
  Nat.odd N = true -> 3 <= N ->
  Forall (fun p => length p = N) (p0 :: P) -> train (p0 :: P) = Ok W ->
  (forall i l, Permutation l (sh i l)) ->
  length s = N -> bipolar s ->
  evolve_plain (async_rule1 (hopfield_rule1 W (hopfield_r N)) sh) store_id (hopfield_r N)
               (async_init_cells sh (init_order1 N) rand tt) [s] T = Ok (a, rows) ->
  length rows = T /\
  nonincreasing (map (energy2 W) rows) /\
  Forall (fun row => length row = N /\ bipolar row) rows /\
  exists cs, Forall (fun c => c < N) cs /\ rows = trajectory W s cs.
Proof.
  intros N p0 P W sh rand s T a rows Hodd HN HP HT Hperm HL Hb Hev.
  pose proof (hopfield_r_odd N Hodd) as EN. set (r := hopfield_r N) in *.
  assert (Hr : 1 <= r) by lia.
  destruct (train_hebbian N p0 P HP) as (W' & HT' & HS & _ & HSy & HD).
  rewrite HT in HT'. injection HT' as <-.
  rewrite EN in HS, HSy, HD, HL, Hev |- *.
  exact (hopfield_async_energy r W sh _ s T a rows Hr HS HSy HD Hperm (init_cells_inv r Hr sh Hperm rand) HL Hb Hev).
Qed.

(* a single stored pattern and its negation are fixed points of the real evolution *)
Theorem hopfield_net_stored_fixed : forall N p W sh rand T a rows,
  Nat.odd N = true -> 3 <= N -> length p = N -> bipolar p -> train [p] = Ok W ->
  (forall i l, Permutation l (sh i l)) ->
  (evolve_plain (async_rule1 (hopfield_rule1 W (hopfield_r N)) sh) store_id (hopfield_r N)
                (async_init_cells sh (init_order1 N) rand tt) [p] T = Ok (a, rows) ->
   Forall (fun row => row = p) rows) /\
  (evolve_plain (async_rule1 (hopfield_rule1 W (hopfield_r N)) sh) store_id (hopfield_r N)
                (async_init_cells sh (init_order1 N) rand tt) [map Z.opp p] T = Ok (a, rows) ->
   Forall (fun row => row = map Z.opp p) rows).
Proof.
  intros N p W sh rand T a rows Hodd HN HL Hb HT Hperm.
  pose proof (hopfield_r_odd N Hodd) as EN. set (r := hopfield_r N) in *.
  assert (Hr : 1 <= r) by lia.
  destruct (train_hebbian N p [] ltac:(constructor; [exact HL|constructor])) as (W' & HT' & HS & _ & _ & _).
  rewrite HT in HT'. injection HT' as <-.
  pose proof (init_cells_inv r Hr sh Hperm rand) as Ha.
  rewrite EN in HS, HL.
  destruct (evolve_stored_fixed r W HS (astate nat unit) _ (ainv1 unit (2 * r + 1)) sched_of
              (sstep_one_cell r Hr W sh Hperm) T _ p a rows Hr HT HL Hb Ha) as [F1 F2].
  rewrite EN.
  split; intros Hev.
  - apply F1. rewrite <- (evolve_async_seq r Hr W sh Hperm T _ p Ha HL). exact Hev.
  - apply F2. rewrite <- (evolve_async_seq r Hr W sh Hperm T _ (map Z.opp p) Ha ltac:(rewrite map_length; exact HL)). exact Hev.
Qed.
