(* Proofs for C10 (block automata): the alternating partition, its shape, one rule call per block,
   conservation for permuting rules, reversibility for invertible rules, rejection of non-divisible sizes. *)
From Coq Require Import List ZArith Arith Lia Permutation Bool.
From CPL Require Import Model.Base Model.Engine Model.Block.
Import ListNotations.

(* ================================================================== lists *)

Lemma nth_skipn_add {A} (d : A) : forall k l i, nth i (skipn k l) d = nth (k + i) l d.
Proof.
  induction k as [|k IH]; intros l i; [reflexivity|].
  destruct l as [|x l]; [destruct i; reflexivity|]. cbn [skipn Nat.add nth]. apply IH.
Qed.

Lemma nth_firstn_lt {A} (d : A) : forall b l i, i < b -> nth i (firstn b l) d = nth i l d.
Proof.
  induction b as [|b IH]; intros l i Hi; [lia|].
  destruct l as [|x l]; [reflexivity|]. destruct i as [|i]; [reflexivity|]. cbn [firstn nth]. apply IH; lia.
Qed.

Lemma firstn_skipn_seq {A} (d : A) : forall b k l, k + b <= length l ->
  firstn b (skipn k l) = map (fun i => nth (k + i) l d) (seq 0 b).
Proof.
  intros b k l H. apply nth_ext with (d := d) (d' := d).
  - rewrite firstn_length, skipn_length, map_length, seq_length. lia.
  - intros i Hi. rewrite firstn_length, skipn_length in Hi.
    assert (Hib : i < b) by lia.
    rewrite nth_firstn_lt by exact Hib. rewrite nth_skipn_add.
    rewrite nth_indep with (d' := nth (k + 0) l d) (d := d) (l := map _ _) by (rewrite map_length, seq_length; exact Hib).
    rewrite map_nth with (f := fun i => nth (k + i) l d). rewrite seq_nth by exact Hib. reflexivity.
Qed.

Lemma map_add_seq : forall b a s, map (fun i => a + i) (seq s b) = seq (a + s) b.
Proof.
  induction b as [|b IH]; intros a s; [reflexivity|].
  cbn [seq map]. f_equal. rewrite IH. f_equal. lia.
Qed.

Lemma skipn_skipn' {A} : forall a b (l : list A), skipn a (skipn b l) = skipn (b + a) l.
Proof.
  intros a b; revert a. induction b as [|b IH]; intros a l; [reflexivity|].
  destruct l as [|x l]; [rewrite !skipn_nil; reflexivity|]. cbn [skipn Nat.add]. apply IH.
Qed.

Lemma map_eq_in {A B} (f g : A -> B) : forall l x, map f l = map g l -> In x l -> f x = g x.
Proof.
  induction l as [|y l IH]; intros x H Hin; [destruct Hin|].
  cbn [map] in H. injection H as H1 H2. destruct Hin as [->|Hin]; [exact H1|apply IH; assumption].
Qed.

Lemma map_combine_pointwise {A B C} (f : A -> C) (g : B -> C) : forall c r, length c = length r ->
  (forall k v, In (k, v) (combine c r) -> f k = g v) -> map f c = map g r.
Proof.
  induction c as [|k c IH]; intros [|v r] Hl H; try discriminate; [reflexivity|].
  cbn [map]. f_equal.
  - apply H. left. reflexivity.
  - apply IH; [cbn in Hl; lia|]. intros k' v' Hin. apply H. right. exact Hin.
Qed.

Lemma map_fst_combine_eq {A B} : forall (c : list A) (r : list B), length c = length r -> map fst (combine c r) = c.
Proof.
  induction c as [|k c IH]; intros [|v r] Hl; try discriminate; [reflexivity|].
  cbn [combine map fst]. f_equal. apply IH. cbn in Hl. lia.
Qed.

Lemma Permutation_concat_map {A B} (f g : A -> list B) : forall l,
  (forall x, In x l -> Permutation (f x) (g x)) -> Permutation (concat (map f l)) (concat (map g l)).
Proof.
  induction l as [|x l IH]; intros H; [constructor|].
  cbn [map concat]. apply Permutation_app; [apply H; left; reflexivity|].
  apply IH. intros y Hy. apply H. right. exact Hy.
Qed.

(* ---- upd *)
Lemma upd_length {A} : forall (l : list A) i v, length (upd l i v) = length l.
Proof. induction l as [|x l IH]; intros [|i] v; cbn [upd length]; try reflexivity. rewrite IH. reflexivity. Qed.

Lemma nth_upd_eq {A} (d : A) : forall (l : list A) i v, i < length l -> nth i (upd l i v) d = v.
Proof.
  induction l as [|x l IH]; intros [|i] v H; cbn [length] in H; try lia; cbn [upd nth]; [reflexivity|].
  apply IH. lia.
Qed.

Lemma nth_upd_neq {A} (d : A) : forall (l : list A) i j v, i <> j -> nth j (upd l i v) d = nth j l d.
Proof.
  induction l as [|x l IH]; intros [|i] [|j] v H; cbn [upd nth]; try reflexivity; try lia.
  apply IH. lia.
Qed.

(* ================================================================== chunks *)

Lemma chunks_fuel_nil {A} : forall f b, @chunks_fuel A f b [] = [].
Proof. destruct f; reflexivity. Qed.

Lemma chunks_fuel_nth {A} (b : nat) : 1 <= b -> forall f (l : list A) j, length l <= f ->
  nth j (chunks_fuel f b l) [] = firstn b (skipn (j * b) l).
Proof.
  intros Hb. induction f as [|f IH]; intros l j Hf.
  - destruct l; [|cbn in Hf; lia]. rewrite skipn_nil, firstn_nil. destruct j; reflexivity.
  - destruct l as [|x l].
    + rewrite skipn_nil, firstn_nil. destruct j; reflexivity.
    + cbn [chunks_fuel]. destruct j as [|j]; [reflexivity|].
      cbn [nth]. rewrite IH.
      * rewrite skipn_skipn'. f_equal.
      * rewrite skipn_length. cbn [length] in *. lia.
Qed.

Lemma chunks_fuel_concat {A} (b : nat) : 1 <= b -> forall f (l : list A), length l <= f ->
  concat (chunks_fuel f b l) = l.
Proof.
  intros Hb. induction f as [|f IH]; intros l Hf.
  - destruct l; [reflexivity|cbn in Hf; lia].
  - destruct l as [|x l]; [reflexivity|].
    cbn [chunks_fuel concat]. rewrite IH; [apply firstn_skipn|].
    rewrite skipn_length. cbn [length] in *. lia.
Qed.

Lemma chunks_fuel_length {A} (b : nat) : 1 <= b -> forall m f (l : list A), length l = m * b -> length l <= f ->
  length (chunks_fuel f b l) = m.
Proof.
  intros Hb. induction m as [|m IH]; intros f l Hl Hf.
  - destruct l; [|discriminate]. rewrite chunks_fuel_nil. reflexivity.
  - cbn [Nat.mul] in Hl. destruct l as [|x l]; [cbn in Hl; lia|]. destruct f as [|f]; [cbn in Hf; lia|].
    cbn [chunks_fuel length]. f_equal. apply IH.
    + rewrite skipn_length, Hl. lia.
    + rewrite skipn_length. cbn [length] in *. lia.
Qed.

Lemma chunks_nth {A} b (l : list A) j : 1 <= b -> nth j (chunks b l) [] = firstn b (skipn (j * b) l).
Proof. intros Hb. apply chunks_fuel_nth; [exact Hb|apply le_n]. Qed.
Lemma chunks_concat {A} b (l : list A) : 1 <= b -> concat (chunks b l) = l.
Proof. intros Hb. apply chunks_fuel_concat; [exact Hb|apply le_n]. Qed.
Lemma chunks_length {A} b m (l : list A) : 1 <= b -> length l = m * b -> length (chunks b l) = m.
Proof. intros Hb Hl. apply chunks_fuel_length; [exact Hb|exact Hl|apply le_n]. Qed.

(* ================================================================== 1D blocks *)

Lemma rotated_length N : length (rotated N) = N.
Proof. destruct N; [reflexivity|]. cbn [rotated length]. rewrite seq_length. reflexivity. Qed.

Lemma rotated_nth N i : i < N -> nth i (rotated N) 0 = (i + N - 1) mod N.
Proof.
  intros Hi. destruct N as [|k]; [lia|]. cbn [rotated]. destruct i as [|i].
  - cbn [nth]. replace (0 + S k - 1) with k by lia. rewrite Nat.mod_small by lia. reflexivity.
  - cbn [nth]. rewrite seq_nth by lia. replace (S i + S k - 1) with (i + 1 * S k) by lia.
    rewrite Nat.mod_add by lia. rewrite Nat.mod_small by lia. reflexivity.
Qed.

Lemma rotated_perm N : Permutation (rotated N) (seq 0 N).
Proof.
  destruct N as [|k]; [constructor|]. cbn [rotated]. rewrite seq_S. cbn [Nat.add].
  apply Permutation_cons_append.
Qed.

Lemma mul_block_le j m b : j < m -> j * b + b <= m * b.
Proof. intros H. replace (j * b + b) with (S j * b) by (cbn; lia). apply Nat.mul_le_mono_r. lia. Qed.

(* odd-step block j is cells j*b .. j*b+b-1 *)
Lemma blocks_odd_nth b m j : 1 <= b -> j < m -> nth j (blocks_odd (m * b) b) [] = seq (j * b) b.
Proof.
  intros Hb Hj. unfold blocks_odd. rewrite chunks_nth by exact Hb.
  pose proof (mul_block_le j m b Hj) as Hle.
  rewrite firstn_skipn_seq with (d := 0) by (rewrite seq_length; exact Hle).
  replace (seq (j * b) b) with (map (fun i => j * b + i) (seq 0 b)) by (rewrite map_add_seq; f_equal; lia).
  apply map_ext_in. intros i Hi. apply in_seq in Hi. rewrite seq_nth by lia. reflexivity.
Qed.

(* even-step block j is cells (j*b - 1 + i) mod N, i = 0..b-1 (written without subtraction below 0) *)
Lemma blocks_even_nth b m j : 1 <= b -> j < m ->
  nth j (blocks_even (m * b) b) [] = map (fun i => (j * b + i + m * b - 1) mod (m * b)) (seq 0 b).
Proof.
  intros Hb Hj. unfold blocks_even. rewrite chunks_nth by exact Hb.
  pose proof (mul_block_le j m b Hj) as Hle.
  rewrite firstn_skipn_seq with (d := 0) by (rewrite rotated_length; exact Hle).
  apply map_ext_in. intros i Hi. apply in_seq in Hi. apply rotated_nth. lia.
Qed.

Lemma blocks_odd_length b m : 1 <= b -> length (blocks_odd (m * b) b) = m.
Proof. intros Hb. apply chunks_length; [exact Hb|apply seq_length]. Qed.
Lemma blocks_even_length b m : 1 <= b -> length (blocks_even (m * b) b) = m.
Proof. intros Hb. apply chunks_length; [exact Hb|apply rotated_length]. Qed.

(* every cell in exactly one block, at every step; holds for every N (divisible or not) *)
Lemma blocks_at_perm N b t : 1 <= b -> Permutation (concat (blocks_at N b t)) (seq 0 N).
Proof.
  intros Hb. unfold blocks_at, blocks_even, blocks_odd. destruct (t mod 2 =? 0).
  - rewrite chunks_concat by exact Hb. apply rotated_perm.
  - rewrite chunks_concat by exact Hb. apply Permutation_refl.
Qed.

Lemma blocks_at_NoDup N b t : 1 <= b -> NoDup (concat (blocks_at N b t)).
Proof. intros Hb. eapply Permutation_NoDup; [apply Permutation_sym, blocks_at_perm; exact Hb|apply seq_NoDup]. Qed.

Lemma blocks_at_in N b t i : 1 <= b -> (In i (concat (blocks_at N b t)) <-> i < N).
Proof.
  intros Hb. split; intros H.
  - apply (Permutation_in _ (blocks_at_perm N b t Hb)) in H. apply in_seq in H. lia.
  - apply (Permutation_in _ (Permutation_sym (blocks_at_perm N b t Hb))). apply in_seq. lia.
Qed.

(* ================================================================== generic write-back
   A configuration type Cf addressed by keys K (cell index in 1D, (row, col) in 2D). *)
Section Writes.
  Variables (K Cf : Type).
  Variable get : Cf -> K -> Z.
  Variable set : Cf -> K -> Z -> Cf.
  Variable inb : Cf -> K -> Prop.
  Variable store : Z -> Z.
  Hypothesis get_set_eq : forall a k v, inb a k -> get (set a k v) k = v.
  Hypothesis get_set_neq : forall a k k' v, k <> k' -> get (set a k v) k' = get a k'.
  Hypothesis inb_set : forall a k v k', inb a k' -> inb (set a k v) k'.

  Definition write_all (a : Cf) (ws : list (K * Z)) : Cf :=
    fold_left (fun a (kv : K * Z) => set a (fst kv) (store (snd kv))) ws a.

  Lemma write_all_inb : forall ws a k, inb a k -> inb (write_all a ws) k.
  Proof.
    induction ws as [|[k0 v0] ws IH]; intros a k H; [exact H|].
    cbn [write_all fold_left]. apply IH. apply inb_set. exact H.
  Qed.

  Lemma write_all_notin : forall ws a k, ~ In k (map fst ws) -> get (write_all a ws) k = get a k.
  Proof.
    induction ws as [|[k0 v0] ws IH]; intros a k H; [reflexivity|].
    cbn [write_all fold_left fst snd]. cbn [map fst In] in H.
    fold (write_all (set a k0 (store v0)) ws). rewrite IH by tauto.
    apply get_set_neq. intros ->. tauto.
  Qed.

  Lemma write_all_in : forall ws a k v, NoDup (map fst ws) -> In (k, v) ws -> inb a k ->
    get (write_all a ws) k = store v.
  Proof.
    induction ws as [|[k0 v0] ws IH]; intros a k v Hnd Hin Hb; [destruct Hin|].
    cbn [map fst] in Hnd. inversion Hnd as [|? ? Hnot Hnd']; subst.
    cbn [write_all fold_left fst snd]. fold (write_all (set a k0 (store v0)) ws).
    destruct Hin as [Heq|Hin].
    - injection Heq as -> ->. rewrite write_all_notin by exact Hnot. apply get_set_eq. exact Hb.
    - apply IH; [exact Hnd'|exact Hin|apply inb_set; exact Hb].
  Qed.

  Lemma write_all_app a ws1 ws2 : write_all a (ws1 ++ ws2) = write_all (write_all a ws1) ws2.
  Proof. unfold write_all. apply fold_left_app. Qed.

  (* runs: per block, its cells (in order) and the flat list of values written to them *)
  Definition writes (runs : list (list K * list Z)) : list (K * Z) :=
    flat_map (fun cr => combine (fst cr) (snd cr)) runs.

  Lemma writes_keys : forall runs, Forall (fun cr : list K * list Z => length (fst cr) = length (snd cr)) runs ->
    map fst (writes runs) = concat (map fst runs).
  Proof.
    induction runs as [|[c r] runs IH]; intros H; [reflexivity|].
    inversion H as [|? ? H1 H2]; subst. cbn [writes flat_map map concat fst snd] in *.
    rewrite map_app. rewrite map_fst_combine_eq by exact H1. f_equal. apply IH. exact H2.
  Qed.

  (* after all blocks are written, each block holds exactly its (cast) result *)
  Lemma runs_get a runs c r :
    Forall (fun cr : list K * list Z => length (fst cr) = length (snd cr)) runs ->
    NoDup (concat (map fst runs)) ->
    (forall k, In k (concat (map fst runs)) -> inb a k) ->
    In (c, r) runs ->
    map (get (write_all a (writes runs))) c = map store r.
  Proof.
    intros Hlen Hnd Hb Hin.
    assert (Hl : length c = length r).
    { rewrite Forall_forall in Hlen. apply (Hlen (c, r)). exact Hin. }
    apply map_combine_pointwise; [exact Hl|].
    intros k v Hkv.
    assert (Hw : In (k, v) (writes runs)).
    { unfold writes. apply in_flat_map. exists (c, r). split; [exact Hin|exact Hkv]. }
    apply write_all_in.
    - rewrite writes_keys by exact Hlen. exact Hnd.
    - exact Hw.
    - apply Hb. rewrite <- writes_keys by exact Hlen. apply in_map_iff. exists (k, v). split; [reflexivity|exact Hw].
  Qed.

  Lemma runs_get_all a runs :
    Forall (fun cr : list K * list Z => length (fst cr) = length (snd cr)) runs ->
    NoDup (concat (map fst runs)) ->
    (forall k, In k (concat (map fst runs)) -> inb a k) ->
    map (get (write_all a (writes runs))) (concat (map fst runs)) = map store (concat (map snd runs)).
  Proof.
    intros Hlen Hnd Hb. rewrite !concat_map, !map_map.
    f_equal. apply map_ext_in. intros [c r] Hin. cbn [fst snd]. apply runs_get; assumption.
  Qed.
End Writes.

Arguments write_all {K Cf} set store a ws.
Arguments writes {K}.

(* ================================================================== small helpers *)
Lemma Forall2_combine_in {A B} (P : A -> B -> Prop) : forall l1 l2, Forall2 P l1 l2 ->
  forall x y, In (x, y) (combine l1 l2) -> P x y.
Proof.
  induction 1 as [|a b l1 l2 Hab HF IH]; intros x y Hin; [destruct Hin|].
  destruct Hin as [Heq|Hin]; [injection Heq as <- <-; exact Hab|apply IH; exact Hin].
Qed.

Lemma Forall2_impl' {A B} (P Q : A -> B -> Prop) : (forall x y, P x y -> Q x y) ->
  forall l1 l2, Forall2 P l1 l2 -> Forall2 Q l1 l2.
Proof. intros H l1 l2. induction 1; constructor; auto. Qed.

Lemma Forall2_length' {A B} (P : A -> B -> Prop) l1 l2 : Forall2 P l1 l2 -> length l1 = length l2.
Proof. induction 1; cbn; congruence. Qed.

Lemma map_snd_combine_eq {A B} : forall (c : list A) (r : list B), length c = length r -> map snd (combine c r) = r.
Proof.
  induction c as [|k c IH]; intros [|v r] Hl; try discriminate; [reflexivity|].
  cbn [combine map snd]. f_equal. apply IH. cbn in Hl. lia.
Qed.

Lemma Forall2_perm_concat {A B} (f : A -> list B) : forall l1 l2,
  Forall2 (fun x y => Permutation y (f x)) l1 l2 -> Permutation (concat l2) (concat (map f l1)).
Proof.
  induction 1 as [|a b l1 l2 Hab HF IH]; [constructor|].
  cbn [map concat]. apply Permutation_app; assumption.
Qed.

Lemma map_nth_seq {A} (d : A) : forall l, map (fun k => nth k l d) (seq 0 (length l)) = l.
Proof.
  intros l. apply nth_ext with (d := d) (d' := d); [rewrite map_length, seq_length; reflexivity|].
  intros i Hi. rewrite map_length, seq_length in Hi.
  rewrite nth_indep with (d' := nth 0 l d) by (rewrite map_length, seq_length; exact Hi).
  rewrite map_nth with (f := fun k => nth k l d). rewrite seq_nth by exact Hi. reflexivity.
Qed.

Lemma map_id_store l : map id_store l = l.
Proof. unfold id_store. apply map_id. Qed.

(* ================================================================== 1D step *)
Definition get1 (a : list Z) (k : nat) : Z := nth k a 0%Z.
Definition inb1 (a : list Z) (k : nat) : Prop := k < length a.

Lemma get1_set_eq a k v : inb1 a k -> get1 (upd a k v) k = v.
Proof. apply nth_upd_eq. Qed.
Lemma get1_set_neq a k k' (v : Z) : k <> k' -> get1 (upd a k v) k' = get1 a k'.
Proof. apply nth_upd_neq. Qed.
Lemma inb1_set a k (v : Z) k' : inb1 a k' -> inb1 (upd a k v) k'.
Proof. unfold inb1. rewrite upd_length. exact (fun H => H). Qed.

Lemma write_all1_length store : forall ws a, length (write_all upd store a ws) = length a.
Proof.
  unfold write_all. induction ws as [|[k v] ws IH]; intros a; cbn [fold_left]; [reflexivity|].
  rewrite IH. apply upd_length.
Qed.

Lemma gather_get1 cells blk : gather cells blk = map (get1 cells) blk.
Proof. reflexivity. Qed.

Section Step1D.
  Variable St : Type.
  Variable rule : block_rule St.
  Variable store : Z -> Z.

  (* the results of the rule calls of one step, in block order, with the state threaded *)
  Fixpoint run_blocks (s : St) (cells : list Z) (blocks : list (list nat)) (t : nat) : St * list (list Z) :=
    match blocks with
    | [] => (s, [])
    | blk :: rest =>
        let '(s1, res) := rule s (gather cells blk) t in
        let '(s2, rs) := run_blocks s1 cells rest t in
        (s2, res :: rs)
    end.

  Lemma apply_blocks_eq cells t : forall blocks s arr,
    apply_blocks rule store s cells arr blocks t =
    (fst (run_blocks s cells blocks t),
     write_all upd store arr (writes (combine blocks (snd (run_blocks s cells blocks t))))).
  Proof.
    induction blocks as [|blk rest IH]; intros s arr; [reflexivity|].
    cbn [apply_blocks run_blocks]. destruct (rule s (gather cells blk) t) as [s1 res].
    rewrite IH. destruct (run_blocks s1 cells rest t) as [s2 rs]. cbn [fst snd combine writes flat_map].
    rewrite write_all_app. reflexivity.
  Qed.

  Lemma run_blocks_results cells t : forall blocks s,
    Forall2 (fun blk res => exists s', res = snd (rule s' (gather cells blk) t)) blocks (snd (run_blocks s cells blocks t)).
  Proof.
    induction blocks as [|blk rest IH]; intros s; [constructor|].
    cbn [run_blocks]. destruct (rule s (gather cells blk) t) as [s1 res] eqn:E.
    specialize (IH s1). destruct (run_blocks s1 cells rest t) as [s2 rs]. cbn [snd] in *.
    constructor; [exists s; rewrite E; reflexivity|exact IH].
  Qed.

  Lemma step_block_eq b s cells t :
    step_block rule store b s cells t =
    (fst (run_blocks s cells (blocks_at (length cells) b t) t),
     write_all upd store (repeat 0%Z (length cells))
       (writes (combine (blocks_at (length cells) b t) (snd (run_blocks s cells (blocks_at (length cells) b t) t))))).
  Proof. unfold step_block. apply apply_blocks_eq. Qed.

  Lemma step_block_length b s cells t : length (snd (step_block rule store b s cells t)) = length cells.
  Proof. rewrite step_block_eq. cbn [snd]. rewrite write_all1_length. apply repeat_length. Qed.

  (* when every result has the length of its block: each block of the new row holds its result *)
  Lemma step_block_gather b s cells t :
    1 <= b -> (forall s x t, length (snd (rule s x t)) = length x) ->
    let blocks := blocks_at (length cells) b t in
    let results := snd (run_blocks s cells blocks t) in
    let new := snd (step_block rule store b s cells t) in
    length results = length blocks /\
    forall blk res, In (blk, res) (combine blocks results) -> gather new blk = map store res.
  Proof.
    intros Hb Hlen blocks results new.
    pose proof (run_blocks_results cells t blocks s) as HF. fold results in HF.
    assert (Hl : length results = length blocks) by (symmetry; eapply Forall2_length'; exact HF).
    split; [exact Hl|]. intros blk res Hin.
    assert (Hruns : Forall (fun cr : list nat * list Z => length (fst cr) = length (snd cr)) (combine blocks results)).
    { apply Forall_forall. intros [c r] Hcr. cbn [fst snd].
      destruct (Forall2_combine_in _ _ _ HF _ _ Hcr) as [s' ->]. rewrite Hlen. unfold gather. rewrite map_length. reflexivity. }
    subst new. rewrite step_block_eq. cbn [snd]. fold blocks. fold results.
    rewrite gather_get1.
    apply (runs_get nat (list Z) get1 upd inb1 store get1_set_eq get1_set_neq inb1_set); try assumption.
    - rewrite map_fst_combine_eq by (symmetry; exact Hl). apply blocks_at_NoDup. exact Hb.
    - intros k Hk. rewrite map_fst_combine_eq in Hk by (symmetry; exact Hl).
      unfold inb1. rewrite repeat_length. apply (blocks_at_in _ b t); assumption.
  Qed.
End Step1D.

Arguments run_blocks {St} rule s cells blocks t.

(* ---- one (contents, t) per block in block order *)
Lemma apply_blocks_log St (rule : block_rule St) store cells t : forall blocks s lg arr,
  snd (fst (apply_blocks (logged_b rule) store (s, lg) cells arr blocks t)) =
  lg ++ map (fun blk => (gather cells blk, t)) blocks.
Proof.
  induction blocks as [|blk rest IH]; intros s lg arr; [cbn; rewrite app_nil_r; reflexivity|].
  cbn [apply_blocks logged_b]. destruct (rule s (gather cells blk) t) as [s1 res].
  rewrite IH. rewrite <- app_assoc. reflexivity.
Qed.

Lemma block_calls_1d St (rule : block_rule St) store b s lg cells t :
  snd (fst (step_block (logged_b rule) store b (s, lg) cells t)) =
  lg ++ map (fun blk => (gather cells blk, t)) (blocks_at (length cells) b t).
Proof. unfold step_block. apply apply_blocks_log. Qed.

(* the logging wrapper does not change what is computed *)
Lemma apply_blocks_logged St (rule : block_rule St) store cells t : forall blocks s lg arr,
  let r := apply_blocks (logged_b rule) store (s, lg) cells arr blocks t in
  let r0 := apply_blocks rule store s cells arr blocks t in
  fst (fst r) = fst r0 /\ snd r = snd r0.
Proof.
  induction blocks as [|blk rest IH]; intros s lg arr; [split; reflexivity|].
  cbn [apply_blocks logged_b]. destruct (rule s (gather cells blk) t) as [s1 res]. apply IH.
Qed.

(* ---- conservation *)
Lemma block_conserves_1d St (rule : block_rule St) b s cells t :
  1 <= b -> (forall s x t, Permutation (snd (rule s x t)) x) ->
  Permutation (snd (step_block rule id_store b s cells t)) cells.
Proof.
  intros Hb Hperm.
  assert (Hlen : forall s x t, length (snd (rule s x t)) = length x) by (intros; apply Permutation_length, Hperm).
  destruct (step_block_gather St rule id_store b s cells t Hb Hlen) as [Hl Hg].
  set (blocks := blocks_at (length cells) b t) in *.
  set (results := snd (run_blocks rule s cells blocks t)) in *.
  set (new := snd (step_block rule id_store b s cells t)) in *.
  assert (Hnl : length new = length cells) by apply step_block_length.
  (* the new row read through the blocks is the concatenation of the results *)
  assert (H1 : map (get1 new) (concat blocks) = concat results).
  { rewrite concat_map. f_equal.
    apply nth_ext with (d := []) (d' := []); [rewrite map_length; symmetry; exact Hl|].
    intros i Hi. rewrite map_length in Hi.
    rewrite nth_indep with (d' := map (get1 new) []) by (rewrite map_length; exact Hi).
    rewrite map_nth. specialize (Hg (nth i blocks []) (nth i results [])).
    rewrite <- gather_get1. rewrite Hg; [apply map_id_store|].
    rewrite <- combine_nth by (symmetry; exact Hl). apply nth_In. rewrite combine_length. lia. }
  assert (H2 : Permutation (concat results) (map (get1 cells) (concat blocks))).
  { rewrite concat_map. apply Forall2_perm_concat.
    pose proof (run_blocks_results St rule cells t blocks s) as HF. fold results in HF.
    eapply Forall2_impl'; [|exact HF]. intros blk res [s' ->]. cbn beta. apply Hperm. }
  pose proof (blocks_at_perm (length cells) b t Hb) as HP. fold blocks in HP.
  apply Permutation_trans with (map (get1 new) (seq 0 (length cells)));
    [rewrite <- Hnl; unfold get1; rewrite map_nth_seq; apply Permutation_refl|].
  apply Permutation_trans with (map (get1 cells) (seq 0 (length cells)));
    [|unfold get1; rewrite map_nth_seq; apply Permutation_refl].
  eapply Permutation_trans; [apply Permutation_map, Permutation_sym, HP|].
  rewrite H1. eapply Permutation_trans; [exact H2|]. apply Permutation_map. exact HP.
Qed.

(* ---- reversibility *)
Lemma in_combine_map {A B} (F : A -> B) : forall l x, In x l -> In (x, F x) (combine l (map F l)).
Proof.
  induction l as [|y l IH]; intros x H; [destruct H|].
  cbn [map combine]. destruct H as [->|H]; [left; reflexivity|right; apply IH; exact H].
Qed.

Lemma run_blocks_pure h cells t : forall blocks u,
  snd (run_blocks (pure_b h) u cells blocks t) = map (fun blk => h (gather cells blk) t) blocks.
Proof.
  induction blocks as [|blk rest IH]; intros u; [reflexivity|].
  cbn [run_blocks pure_b map]. specialize (IH u). destruct (run_blocks (pure_b h) u cells rest t) as [s2 rs].
  cbn [snd] in *. rewrite IH. reflexivity.
Qed.

Lemma step_pure_gather h b cells t blk :
  1 <= b -> (forall x t, length (h x t) = length x) -> In blk (blocks_at (length cells) b t) ->
  gather (snd (step_block (pure_b h) id_store b tt cells t)) blk = h (gather cells blk) t.
Proof.
  intros Hb Hlen Hin.
  assert (Hlen' : forall (s : unit) x t, length (snd (pure_b h s x t)) = length x) by (intros; apply Hlen).
  destruct (step_block_gather unit (pure_b h) id_store b tt cells t Hb Hlen') as [_ Hg].
  rewrite (Hg blk (h (gather cells blk) t)); [apply map_id_store|].
  rewrite run_blocks_pure. apply in_combine_map with (F := fun blk => h (gather cells blk) t). exact Hin.
Qed.

Lemma block_reversible_1d (f g : list Z -> nat -> list Z) b cells t :
  1 <= b ->
  (forall x t, length (f x t) = length x) -> (forall x t, length (g x t) = length x) ->
  (forall x t, g (f x t) t = x) ->
  snd (step_block (pure_b g) id_store b tt (snd (step_block (pure_b f) id_store b tt cells t)) t) = cells.
Proof.
  intros Hb Hf Hg Hgf.
  set (mid := snd (step_block (pure_b f) id_store b tt cells t)).
  assert (Hml : length mid = length cells) by apply step_block_length.
  set (fin := snd (step_block (pure_b g) id_store b tt mid t)).
  assert (Hfl : length fin = length cells) by (unfold fin; rewrite step_block_length; exact Hml).
  apply nth_ext with (d := 0%Z) (d' := 0%Z); [exact Hfl|].
  intros i Hi. rewrite Hfl in Hi.
  apply (blocks_at_in (length cells) b t i Hb) in Hi. apply in_concat in Hi. destruct Hi as [blk [Hblk Hi]].
  assert (E : gather fin blk = gather cells blk).
  { unfold fin. rewrite step_pure_gather; [|exact Hb|exact Hg|rewrite Hml; exact Hblk].
    unfold mid. rewrite step_pure_gather by assumption. apply Hgf. }
  unfold gather in E. exact (map_eq_in _ _ _ _ E Hi).
Qed.

(* ---- rejection *)
Lemma block_rejects_1d St (rule : block_rule St) store b s0 hist T :
  hist <> [] -> 1 <= b ->
  (length (last hist []) mod b <> 0 -> evolve_block rule store b s0 hist T = Raise OtherError) /\
  (1 <= T -> 1 <= length (last hist []) -> length (last hist []) mod b = 0 ->
   exists r, evolve_block rule store b s0 hist T = Ok r).
Proof.
  intros Hh Hb. unfold evolve_block. destruct hist as [|h0 hist']; [congruence|].
  set (N := length (last (h0 :: hist') [])).
  destruct (b =? 0) eqn:Eb; [apply Nat.eqb_eq in Eb; lia|]. split.
  - intros Hmod. destruct (N mod b =? 0) eqn:Em; [apply Nat.eqb_eq in Em; contradiction|]. reflexivity.
  - intros HT HN Hmod. rewrite Hmod. cbn [Nat.eqb negb].
    destruct (N =? 0) eqn:En; [apply Nat.eqb_eq in En; lia|].
    destruct T as [|k]; [lia|]. unfold evolve_fixed.
    destruct (iter_steps (step_block rule store b) k s0 (last (h0 :: hist') []) 1) as [x rows]. eexists. reflexivity.
Qed.

(* ================================================================== 2D blocks *)

Lemma starts_mul m b : 1 <= b -> starts (m * b) b = map (fun k => k * b) (seq 0 m).
Proof.
  intros Hb. unfold starts. f_equal. f_equal.
  replace (m * b + b - 1) with (m * b + (b - 1)) by lia.
  rewrite Nat.div_add_l by lia. rewrite Nat.div_small by lia. lia.
Qed.

Lemma flat_map_seq_blocks b : forall m a, flat_map (fun k => seq (k * b) b) (seq a m) = seq (a * b) (m * b).
Proof.
  induction m as [|m IH]; intros a; [reflexivity|].
  cbn [seq flat_map]. rewrite IH. cbn [Nat.mul]. rewrite seq_app. f_equal. f_equal. lia.
Qed.

Lemma flat_map_map' {A B C} (f : A -> B) (g : B -> list C) : forall l,
  flat_map g (map f l) = flat_map (fun x => g (f x)) l.
Proof. induction l as [|x l IH]; [reflexivity|]. cbn [map flat_map]. rewrite IH. reflexivity. Qed.

Lemma flat_map_flat_map {A B C} (f : A -> list B) (g : B -> list C) : forall l,
  flat_map g (flat_map f l) = flat_map (fun x => flat_map g (f x)) l.
Proof. induction l as [|x l IH]; [reflexivity|]. cbn [flat_map]. rewrite flat_map_app, IH. reflexivity. Qed.

Lemma map_flat_map {A B C} (f : A -> list B) (h : B -> C) : forall l,
  map h (flat_map f l) = flat_map (fun x => map h (f x)) l.
Proof. induction l as [|x l IH]; [reflexivity|]. cbn [flat_map]. rewrite map_app, IH. reflexivity. Qed.

Lemma starts_cover m b : 1 <= b -> flat_map (fun r => seq r b) (starts (m * b) b) = seq 0 (m * b).
Proof. intros Hb. rewrite starts_mul by exact Hb. rewrite flat_map_map'. apply (flat_map_seq_blocks b m 0). Qed.

(* ---- list_prod *)
Lemma list_prod_app_l {A B} (l1 l2 : list A) (l : list B) : list_prod (l1 ++ l2) l = list_prod l1 l ++ list_prod l2 l.
Proof. induction l1 as [|x l1 IH]; [reflexivity|]. cbn [app list_prod]. rewrite IH, app_assoc. reflexivity. Qed.

Lemma list_prod_perm_app_r {A B} (l1 l2 : list B) : forall l : list A,
  Permutation (list_prod l (l1 ++ l2)) (list_prod l l1 ++ list_prod l l2).
Proof.
  induction l as [|x l IH]; [constructor|].
  cbn [list_prod]. rewrite map_app.
  eapply Permutation_trans; [apply Permutation_app_head; exact IH|].
  rewrite <- !app_assoc. apply Permutation_app_head.
  rewrite !app_assoc. apply Permutation_app_tail. apply Permutation_app_comm.
Qed.

Lemma list_prod_perm_l {A B} (l l' : list A) (m : list B) : Permutation l l' -> Permutation (list_prod l m) (list_prod l' m).
Proof.
  intros H. induction H as [|x l l' H IH|x y l|l l' l'' H1 IH1 H2 IH2].
  - constructor.
  - cbn [list_prod]. apply Permutation_app_head. exact IH.
  - cbn [list_prod]. rewrite !app_assoc. apply Permutation_app_tail. apply Permutation_app_comm.
  - eapply Permutation_trans; eassumption.
Qed.

Lemma list_prod_perm_r {A B} (l : list A) (m m' : list B) : Permutation m m' -> Permutation (list_prod l m) (list_prod l m').
Proof.
  intros H. induction l as [|x l IH]; [constructor|].
  cbn [list_prod]. apply Permutation_app; [apply Permutation_map; exact H|exact IH].
Qed.

Lemma list_prod_nil_r {A B} : forall l : list A, list_prod l (@nil B) = [].
Proof. induction l as [|x l IH]; [reflexivity|]. cbn [list_prod map app]. exact IH. Qed.

Lemma list_prod_flat_r {A B Y} (g : Y -> list B) (a : list A) : forall ys,
  Permutation (flat_map (fun y => list_prod a (g y)) ys) (list_prod a (flat_map g ys)).
Proof.
  induction ys as [|y ys IH]; [cbn [flat_map]; rewrite list_prod_nil_r; constructor|].
  cbn [flat_map]. eapply Permutation_trans; [apply Permutation_app_head; exact IH|].
  apply Permutation_sym. apply list_prod_perm_app_r.
Qed.

Lemma list_prod_flat {A B X Y} (f : X -> list A) (g : Y -> list B) ys : forall xs,
  Permutation (flat_map (fun x => flat_map (fun y => list_prod (f x) (g y)) ys) xs)
              (list_prod (flat_map f xs) (flat_map g ys)).
Proof.
  induction xs as [|x xs IH]; [constructor|].
  cbn [flat_map]. rewrite list_prod_app_l. apply Permutation_app; [apply list_prod_flat_r|exact IH].
Qed.

(* ---- the cyclic shift by one is a permutation of the axis *)
Lemma shift_perm R : Permutation (map (fun i => (i + 1) mod R) (seq 0 R)) (seq 0 R).
Proof.
  destruct R as [|k]; [constructor|].
  rewrite seq_S at 1. rewrite map_app. cbn [map Nat.add].
  replace ((k + 1) mod S k) with 0 by (replace (k + 1) with (S k) by lia; rewrite Nat.mod_same by lia; reflexivity).
  replace (map (fun i => (i + 1) mod S k) (seq 0 k)) with (seq 1 k).
  - apply Permutation_sym. change (seq 0 (S k)) with (0 :: seq 1 k). apply Permutation_cons_append.
  - rewrite <- seq_shift. apply map_ext_in.
    intros i Hi. apply in_seq in Hi. rewrite Nat.mod_small by lia. lia.
Qed.

Definition all_cells (R C : nat) : list (nat * nat) := list_prod (seq 0 R) (seq 0 C).

Lemma blocks2_odd_cells R C b1 b2 :
  flat_map block_cells (blocks2_odd R C b1 b2) =
  flat_map (fun r => flat_map (fun c => list_prod (seq r b1) (seq c b2)) (starts C b2)) (starts R b1).
Proof.
  unfold blocks2_odd. rewrite flat_map_flat_map. apply flat_map_ext. intros r.
  rewrite flat_map_map'. reflexivity.
Qed.

Lemma blocks2_even_cells R C b1 b2 :
  flat_map block_cells (blocks2_even R C b1 b2) =
  flat_map (fun r => flat_map (fun c => list_prod (map (fun i => (i + 1) mod R) (seq r b1))
                                                  (map (fun i => (i + 1) mod C) (seq c b2))) (starts C b2)) (starts R b1).
Proof.
  unfold blocks2_even, blocks2_odd. rewrite flat_map_map'. rewrite flat_map_flat_map. apply flat_map_ext. intros r.
  rewrite flat_map_map'. reflexivity.
Qed.

(* every cell in exactly one block, at every step *)
Lemma blocks2_at_perm b1 b2 m1 m2 t : 1 <= b1 -> 1 <= b2 ->
  Permutation (flat_map block_cells (blocks2_at (m1 * b1) (m2 * b2) b1 b2 t)) (all_cells (m1 * b1) (m2 * b2)).
Proof.
  intros H1 H2. unfold blocks2_at, all_cells. destruct (t mod 2 =? 0).
  - rewrite blocks2_even_cells.
    eapply Permutation_trans; [apply list_prod_flat with (f := fun r => map (fun i => (i + 1) mod (m1 * b1)) (seq r b1))
                                                       (g := fun c => map (fun i => (i + 1) mod (m2 * b2)) (seq c b2))|].
    rewrite <- !map_flat_map. rewrite !starts_cover by assumption.
    eapply Permutation_trans; [apply list_prod_perm_l, shift_perm|]. apply list_prod_perm_r, shift_perm.
  - rewrite blocks2_odd_cells.
    eapply Permutation_trans; [apply list_prod_flat with (f := fun r => seq r b1) (g := fun c => seq c b2)|].
    rewrite !starts_cover by assumption. apply Permutation_refl.
Qed.

Lemma NoDup_app_intro {A} : forall l1 l2 : list A, NoDup l1 -> NoDup l2 ->
  (forall x, In x l1 -> In x l2 -> False) -> NoDup (l1 ++ l2).
Proof.
  induction l1 as [|x l1 IH]; intros l2 H1 H2 H; [exact H2|].
  inversion H1 as [|? ? Hx H1']; subst. cbn [app]. constructor.
  - intros Hin. apply in_app_or in Hin. destruct Hin as [Hin|Hin]; [exact (Hx Hin)|]. apply (H x); [left; reflexivity|exact Hin].
  - apply IH; [exact H1'|exact H2|]. intros y Hy1 Hy2. apply (H y); [right; exact Hy1|exact Hy2].
Qed.

Lemma all_cells_NoDup R C : NoDup (all_cells R C).
Proof.
  unfold all_cells. generalize (seq_NoDup R 0). generalize (seq 0 R) as l. intros l Hl.
  induction Hl as [|x l Hx Hl IH]; [constructor|].
  cbn [list_prod]. apply NoDup_app_intro; [| exact IH |].
  - apply FinFun.Injective_map_NoDup; [intros a b E; injection E; auto|apply seq_NoDup].
  - intros [i j] Hin1 Hin2. apply Hx. apply in_map_iff in Hin1. destruct Hin1 as [y [E _]]. injection E as <- <-.
    apply in_prod_iff in Hin2. tauto.
Qed.

(* ---- shape of the 2D blocks *)
Lemma nth_flat_map_uniform {A B} (f : A -> list B) n (d : B) (dx : A) : (forall x, length (f x) = n) ->
  forall l a c, c < n -> a < length l -> nth (a * n + c) (flat_map f l) d = nth c (f (nth a l dx)) d.
Proof.
  intros Hn. induction l as [|x l IH]; intros a c Hc Ha; [cbn in Ha; lia|].
  cbn [flat_map]. destruct a as [|a].
  - cbn [Nat.mul Nat.add nth]. apply app_nth1. rewrite Hn. exact Hc.
  - rewrite app_nth2 by (rewrite Hn; cbn; lia). rewrite Hn. cbn [nth].
    replace (S a * n + c - n) with (a * n + c) by (cbn; lia). apply IH; [exact Hc|cbn in Ha; lia].
Qed.

Lemma starts_length m b : 1 <= b -> length (starts (m * b) b) = m.
Proof. intros Hb. rewrite starts_mul by exact Hb. rewrite map_length. apply seq_length. Qed.

Lemma starts_nth m b j : 1 <= b -> j < m -> nth j (starts (m * b) b) 0 = j * b.
Proof.
  intros Hb Hj. rewrite starts_mul by exact Hb.
  rewrite nth_indep with (d' := 0 * b) by (rewrite map_length, seq_length; exact Hj).
  rewrite (map_nth (fun k => k * b)). rewrite seq_nth by exact Hj. reflexivity.
Qed.

Lemma flat_map_length_uniform {A B} (f : A -> list B) n : (forall x, length (f x) = n) ->
  forall l, length (flat_map f l) = length l * n.
Proof.
  intros Hn. induction l as [|x l IH]; [reflexivity|].
  cbn [flat_map length Nat.mul]. rewrite app_length, Hn, IH. reflexivity.
Qed.

Lemma blocks2_odd_length b1 b2 m1 m2 : 1 <= b1 -> 1 <= b2 ->
  length (blocks2_odd (m1 * b1) (m2 * b2) b1 b2) = m1 * m2.
Proof.
  intros H1 H2. unfold blocks2_odd.
  rewrite flat_map_length_uniform with (n := m2).
  - rewrite starts_length by exact H1. reflexivity.
  - intros r. rewrite map_length. apply starts_length. exact H2.
Qed.

Lemma blocks2_even_length b1 b2 m1 m2 : 1 <= b1 -> 1 <= b2 ->
  length (blocks2_even (m1 * b1) (m2 * b2) b1 b2) = m1 * m2.
Proof. intros H1 H2. unfold blocks2_even. rewrite map_length. apply blocks2_odd_length; assumption. Qed.

(* odd-step block (j1, j2) is rows j1*b1 .. j1*b1+b1-1, columns j2*b2 .. j2*b2+b2-1 *)
Lemma blocks2_odd_nth b1 b2 m1 m2 j1 j2 : 1 <= b1 -> 1 <= b2 -> j1 < m1 -> j2 < m2 ->
  nth (j1 * m2 + j2) (blocks2_odd (m1 * b1) (m2 * b2) b1 b2) ([], []) = (seq (j1 * b1) b1, seq (j2 * b2) b2).
Proof.
  intros H1 H2 Hj1 Hj2. unfold blocks2_odd.
  rewrite nth_flat_map_uniform with (n := m2) (dx := 0).
  - rewrite starts_nth by assumption.
    rewrite nth_indep with (d' := (seq (j1 * b1) b1, seq 0 b2))
      by (rewrite map_length, starts_length by exact H2; exact Hj2).
    rewrite (map_nth (fun c => (seq (j1 * b1) b1, seq c b2))). rewrite starts_nth by assumption. reflexivity.
  - intros r. rewrite map_length. apply starts_length. exact H2.
  - exact Hj2.
  - rewrite starts_length by exact H1. exact Hj1.
Qed.

Lemma shift_seq R a b : map (fun i => (i + 1) mod R) (seq a b) = map (fun i => (a + 1 + i) mod R) (seq 0 b).
Proof.
  replace (seq a b) with (map (fun i => a + i) (seq 0 b)) by (rewrite map_add_seq; f_equal; lia).
  rewrite map_map. apply map_ext. intros i. f_equal. lia.
Qed.

(* even-step block (j1, j2): rows (j1*b1 + 1 + i) mod R, columns (j2*b2 + 1 + i) mod C *)
Lemma blocks2_even_nth b1 b2 m1 m2 j1 j2 : 1 <= b1 -> 1 <= b2 -> j1 < m1 -> j2 < m2 ->
  nth (j1 * m2 + j2) (blocks2_even (m1 * b1) (m2 * b2) b1 b2) ([], []) =
  (map (fun i => (j1 * b1 + 1 + i) mod (m1 * b1)) (seq 0 b1),
   map (fun i => (j2 * b2 + 1 + i) mod (m2 * b2)) (seq 0 b2)).
Proof.
  intros H1 H2 Hj1 Hj2. unfold blocks2_even.
  assert (Hlt : j1 * m2 + j2 < m1 * m2).
  { apply Nat.lt_le_trans with (S j1 * m2); [cbn; lia|]. apply Nat.mul_le_mono_r. lia. }
  rewrite nth_indep with (d' := shift_block (m1 * b1) (m2 * b2) ([], []))
    by (rewrite map_length, blocks2_odd_length by assumption; exact Hlt).
  rewrite map_nth. rewrite blocks2_odd_nth by assumption.
  unfold shift_block. cbn [fst snd]. rewrite !shift_seq. reflexivity.
Qed.

(* ================================================================== grids *)
Definition inb2 (g : grid2) (ij : nat * nat) : Prop := fst ij < length g /\ snd ij < length (nth (fst ij) g []).

Lemma upd_oob {A} : forall (l : list A) i v, length l <= i -> upd l i v = l.
Proof.
  induction l as [|x l IH]; intros [|i] v H; cbn [upd]; try reflexivity; cbn [length] in H; [lia|].
  rewrite IH by lia. reflexivity.
Qed.

Lemma get2_set_eq g k v : inb2 g k -> get2 (upd2 g k v) k = v.
Proof.
  destruct k as [i j]. unfold inb2, get2, upd2. cbn [fst snd]. intros [H1 H2].
  rewrite nth_upd_eq by exact H1. apply nth_upd_eq. exact H2.
Qed.

Lemma get2_set_neq g k k' (v : Z) : k <> k' -> get2 (upd2 g k v) k' = get2 g k'.
Proof.
  destruct k as [i j], k' as [i' j']. unfold get2, upd2. cbn [fst snd]. intros Hne.
  destruct (Nat.eq_dec i i') as [->|Hi].
  - assert (Hj : j <> j') by congruence.
    destruct (Nat.lt_ge_cases i' (length g)) as [Hlt|Hge].
    + rewrite nth_upd_eq by exact Hlt. apply nth_upd_neq. exact Hj.
    + rewrite upd_oob by exact Hge. reflexivity.
  - rewrite nth_upd_neq by exact Hi. reflexivity.
Qed.

Lemma inb2_set g k (v : Z) k' : inb2 g k' -> inb2 (upd2 g k v) k'.
Proof.
  destruct k as [i j], k' as [i' j']. unfold inb2, upd2. cbn [fst snd]. intros [H1 H2].
  split; [rewrite upd_length; exact H1|].
  destruct (Nat.eq_dec i i') as [->|Hi].
  - rewrite nth_upd_eq by exact H1. rewrite upd_length. exact H2.
  - rewrite nth_upd_neq by exact Hi. exact H2.
Qed.

Definition shape (h w : nat) (v : grid2) : Prop := length v = h /\ Forall (fun row => length row = w) v.

Lemma shape_eqb_iff h w v : shape_eqb h w v = true <-> shape h w v.
Proof.
  unfold shape_eqb, shape. rewrite andb_true_iff, Nat.eqb_eq, forallb_forall, Forall_forall.
  split; intros [H1 H2]; (split; [exact H1|]); intros x Hx; specialize (H2 x Hx); apply Nat.eqb_eq; exact H2.
Qed.

Lemma bcast_shape h w v : shape h w v -> bcast h w v = Some v.
Proof. intros H. unfold bcast. apply shape_eqb_iff in H. rewrite H. reflexivity. Qed.

Lemma concat_map_prod {A} (F : nat * nat -> A) cs : forall rs,
  concat (map (fun i => map (fun j => F (i, j)) cs) rs) = map F (list_prod rs cs).
Proof.
  induction rs as [|r rs IH]; [reflexivity|].
  cbn [map concat list_prod]. rewrite IH, map_app, map_map. reflexivity.
Qed.

Lemma concat_gather2 g rc : concat (gather2 g rc) = map (get2 g) (block_cells rc).
Proof. unfold gather2, block_cells. apply concat_map_prod. Qed.

Lemma gather2_shape g rc : shape (length (fst rc)) (length (snd rc)) (gather2 g rc).
Proof.
  unfold shape, gather2. split; [apply map_length|].
  apply Forall_forall. intros row Hrow. apply in_map_iff in Hrow. destruct Hrow as [i [<- _]]. apply map_length.
Qed.

Lemma shape_concat_length h w : forall v, shape h w v -> length (concat v) = h * w.
Proof.
  intros v [H1 H2]. subst h. induction v as [|row v IH]; [reflexivity|].
  inversion H2 as [|? ? Hr Hv]; subst. cbn [concat length Nat.mul]. rewrite app_length, IH by exact Hv. reflexivity.
Qed.

Lemma app_eq_len {A} : forall (a b c d : list A), length a = length b -> a ++ c = b ++ d -> a = b /\ c = d.
Proof.
  induction a as [|x a IH]; intros [|y b] c d Hl H; try discriminate; [split; [reflexivity|exact H]|].
  cbn [app] in H. injection H as -> H. cbn in Hl. destruct (IH b c d) as [-> ->]; [lia|exact H|]. split; reflexivity.
Qed.

Lemma shape_concat_inj h w : forall x y, shape h w x -> shape h w y -> concat x = concat y -> x = y.
Proof.
  intros x y [Hx1 Hx2] [Hy1 Hy2]. subst h. revert y Hy1 Hy2.
  induction x as [|r x IH]; intros [|r' y] Hy1 Hy2 H; try discriminate; [reflexivity|].
  inversion Hx2 as [|? ? Hr Hx]; subst. inversion Hy2 as [|? ? Hr' Hy]; subst.
  cbn [concat] in H. destruct (app_eq_len _ _ _ _ (eq_sym Hr') H) as [-> Hc].
  f_equal. apply IH; [exact Hx|cbn in Hy1; lia|exact Hy|exact Hc].
Qed.

Lemma Forall_upd {A} (P : A -> Prop) : forall l i v, Forall P l -> (i < length l -> P v) -> Forall P (upd l i v).
Proof.
  induction l as [|x l IH]; intros [|i] v Hl Hv; cbn [upd]; try exact Hl;
    inversion Hl as [|? ? Hx Hl']; subst; constructor; auto.
  - apply Hv. cbn. lia.
  - apply IH; [exact Hl'|]. intros Hi. apply Hv. cbn. lia.
Qed.

Lemma upd2_shape h w g k v : shape h w g -> shape h w (upd2 g k v).
Proof.
  intros [H1 H2]. unfold shape, upd2. split; [rewrite upd_length; exact H1|].
  apply Forall_upd; [exact H2|]. intros Hlt. rewrite upd_length.
  rewrite Forall_forall in H2. apply H2. apply nth_In. exact Hlt.
Qed.

Lemma write_all2_shape store h w : forall ws a, shape h w a -> shape h w (write_all upd2 store a ws).
Proof.
  unfold write_all. induction ws as [|[k v] ws IH]; intros a Ha; cbn [fold_left]; [exact Ha|].
  apply IH. apply upd2_shape. exact Ha.
Qed.

Lemma zeros_shape R C : shape R C (repeat (repeat 0%Z C) R).
Proof.
  split; [apply repeat_length|]. apply Forall_forall. intros row Hrow. apply repeat_spec in Hrow. subst row. apply repeat_length.
Qed.

Lemma gather2_full R C g : shape R C g -> gather2 g (seq 0 R, seq 0 C) = g.
Proof.
  intros [H1 H2]. unfold gather2, get2. cbn [fst snd].
  apply nth_ext with (d := []) (d' := []); [rewrite map_length, seq_length; symmetry; exact H1|].
  intros i Hi. rewrite map_length, seq_length in Hi.
  rewrite nth_indep with (d' := map (fun j => nth j (nth 0 g []) 0%Z) (seq 0 C)) by (rewrite map_length, seq_length; exact Hi).
  rewrite (map_nth (fun i => map (fun j => nth j (nth i g []) 0%Z) (seq 0 C))). rewrite seq_nth by exact Hi. cbn [Nat.add].
  assert (Hrow : length (nth i g []) = C).
  { rewrite Forall_forall in H2. apply H2. apply nth_In. lia. }
  rewrite <- Hrow. apply map_nth_seq.
Qed.

Lemma concat_grid R C g : shape R C g -> concat g = map (get2 g) (all_cells R C).
Proof.
  intros H. rewrite <- (gather2_full R C g H) at 1. rewrite concat_gather2. reflexivity.
Qed.

Lemma shape_cols R C g : 1 <= R -> shape R C g -> cols_of g = C.
Proof.
  intros HR [H1 H2]. unfold cols_of. destruct g as [|row g]; [cbn in H1; lia|].
  inversion H2; subst. reflexivity.
Qed.

Lemma all_cells_inb R C g k : shape R C g -> In k (all_cells R C) -> inb2 g k.
Proof.
  intros [H1 H2] Hin. destruct k as [i j]. unfold all_cells in Hin. apply in_prod_iff in Hin.
  destruct Hin as [Hi Hj]. apply in_seq in Hi. apply in_seq in Hj. unfold inb2. cbn [fst snd].
  split; [lia|]. rewrite Forall_forall in H2. rewrite (H2 (nth i g [])); [lia|apply nth_In; lia].
Qed.

Lemma in_combine_map2 {A B A' B'} (f : A -> A') (g : B -> B') : forall l1 l2 x y,
  In (x, y) (combine l1 l2) -> In (f x, g y) (combine (map f l1) (map g l2)).
Proof.
  induction l1 as [|a l1 IH]; intros [|b l2] x y H; cbn [combine map] in *; try contradiction.
  destruct H as [H|H].
  - injection H as <- <-. left. reflexivity.
  - right. apply IH. exact H.
Qed.

Lemma in_combine_map2_inv {A B A' B'} (f : A -> A') (g : B -> B') : forall l1 l2 p,
  In p (combine (map f l1) (map g l2)) -> exists x y, p = (f x, g y) /\ In (x, y) (combine l1 l2).
Proof.
  induction l1 as [|a l1 IH]; intros [|b l2] p H; cbn [combine map] in *; try contradiction.
  destruct H as [H|H].
  - exists a, b. split; [symmetry; exact H|left; reflexivity].
  - destruct (IH l2 p H) as [x [y [E Hin]]]. exists x, y. split; [exact E|right; exact Hin].
Qed.

(* ================================================================== 2D step *)
Section Step2D.
  Variable St : Type.
  Variable rule : block_rule2 St.
  Variable store : Z -> Z.

  Fixpoint run_blocks2 (s : St) (g : grid2) (blocks : list block2) (t : nat) : St * list grid2 :=
    match blocks with
    | [] => (s, [])
    | rc :: rest =>
        let '(s1, res) := rule s (gather2 g rc) t in
        let '(s2, rs) := run_blocks2 s1 g rest t in
        (s2, res :: rs)
    end.

  Lemma run_blocks2_results g t : forall blocks s,
    Forall2 (fun rc res => exists s', res = snd (rule s' (gather2 g rc) t)) blocks (snd (run_blocks2 s g blocks t)).
  Proof.
    induction blocks as [|rc rest IH]; intros s; [constructor|].
    cbn [run_blocks2]. destruct (rule s (gather2 g rc) t) as [s1 res] eqn:E.
    specialize (IH s1). destruct (run_blocks2 s1 g rest t) as [s2 rs]. cbn [snd] in *.
    constructor; [exists s; rewrite E; reflexivity|exact IH].
  Qed.

  (* the rule returns a block of the shape it was given *)
  Hypothesis Hshape : forall s x t h w, shape h w x -> shape h w (snd (rule s x t)).

  Lemma apply_blocks2_eq g t : forall blocks s arr,
    apply_blocks2 rule store s g arr blocks t =
    (fst (run_blocks2 s g blocks t), false,
     write_all upd2 store arr
       (writes (combine (map block_cells blocks) (map (@concat Z) (snd (run_blocks2 s g blocks t)))))).
  Proof.
    induction blocks as [|rc rest IH]; intros s arr; [reflexivity|].
    cbn [apply_blocks2 run_blocks2].
    pose proof (Hshape s _ t _ _ (gather2_shape g rc)) as Hs.
    destruct (rule s (gather2 g rc) t) as [s1 v]. cbn [snd] in Hs.
    rewrite (bcast_shape _ _ _ Hs). rewrite IH.
    destruct (run_blocks2 s1 g rest t) as [s2 rs]. cbn [fst snd map combine writes flat_map].
    rewrite write_all_app. reflexivity.
  Qed.

  Lemma step_block2d_eq b1 b2 s g t :
    let blocks := blocks2_at (rows_of g) (cols_of g) b1 b2 t in
    step_block2d rule store b1 b2 (s, false) g t =
    ((fst (run_blocks2 s g blocks t), false),
     write_all upd2 store (repeat (repeat 0%Z (cols_of g)) (rows_of g))
       (writes (combine (map block_cells blocks) (map (@concat Z) (snd (run_blocks2 s g blocks t)))))).
  Proof. intros blocks. unfold step_block2d. cbn [fst snd]. rewrite apply_blocks2_eq. reflexivity. Qed.

  Lemma step_block2d_shape b1 b2 s g t :
    shape (rows_of g) (cols_of g) (snd (step_block2d rule store b1 b2 (s, false) g t)).
  Proof. rewrite step_block2d_eq. cbn [snd]. apply write_all2_shape. apply zeros_shape. Qed.

  (* after the step every block holds (the cast of) its result *)
  Lemma step_block2d_gather b1 b2 m1 m2 s g t :
    1 <= b1 -> 1 <= b2 -> 1 <= m1 -> 1 <= m2 -> shape (m1 * b1) (m2 * b2) g ->
    let blocks := blocks2_at (m1 * b1) (m2 * b2) b1 b2 t in
    let results := snd (run_blocks2 s g blocks t) in
    let new := snd (step_block2d rule store b1 b2 (s, false) g t) in
    length results = length blocks /\
    forall rc res, In (rc, res) (combine blocks results) ->
      shape (length (fst rc)) (length (snd rc)) res /\
      map (get2 new) (block_cells rc) = map store (concat res).
  Proof.
    intros H1 H2 Hm1 Hm2 Hg blocks results new.
    assert (HR : rows_of g = m1 * b1) by (destruct Hg as [Hg _]; exact Hg).
    assert (HC : cols_of g = m2 * b2).
    { apply shape_cols with (R := m1 * b1); [|exact Hg]. destruct m1; [lia|]. cbn. lia. }
    pose proof (run_blocks2_results g t blocks s) as HF. fold results in HF.
    assert (Hl : length results = length blocks) by (symmetry; eapply Forall2_length'; exact HF).
    split; [exact Hl|]. intros rc res Hin.
    assert (Hres : forall rc res, In (rc, res) (combine blocks results) -> shape (length (fst rc)) (length (snd rc)) res).
    { intros rc' res' Hin'. destruct (Forall2_combine_in _ _ _ HF _ _ Hin') as [s' ->]. apply Hshape. apply gather2_shape. }
    split; [apply Hres; exact Hin|].
    set (runs := combine (map block_cells blocks) (map (@concat Z) results)).
    assert (Hruns : Forall (fun cr : list (nat * nat) * list Z => length (fst cr) = length (snd cr)) runs).
    { apply Forall_forall. intros p Hp. apply in_combine_map2_inv in Hp. destruct Hp as [rc' [res' [-> Hin']]].
      cbn [fst snd]. unfold block_cells. rewrite prod_length.
      rewrite (shape_concat_length _ _ _ (Hres _ _ Hin')). reflexivity. }
    assert (Hkeys : concat (map fst runs) = flat_map block_cells blocks).
    { unfold runs. rewrite map_fst_combine_eq by (rewrite !map_length; symmetry; exact Hl).
      symmetry. apply flat_map_concat_map. }
    subst new. rewrite step_block2d_eq. cbn [snd]. rewrite HR, HC. fold blocks. fold results. fold runs.
    apply (runs_get (nat * nat) grid2 get2 upd2 inb2 store get2_set_eq get2_set_neq inb2_set); try assumption.
    - rewrite Hkeys. eapply Permutation_NoDup; [apply Permutation_sym, blocks2_at_perm; assumption|apply all_cells_NoDup].
    - intros k Hk. rewrite Hkeys in Hk. apply all_cells_inb with (R := m1 * b1) (C := m2 * b2); [apply zeros_shape|].
      eapply Permutation_in; [apply blocks2_at_perm; assumption|exact Hk].
    - unfold runs. apply in_combine_map2. exact Hin.
  Qed.
End Step2D.

Arguments run_blocks2 {St} rule s g blocks t.

(* ---- one (contents, t) per block in block order; after a ValueError the log is the prefix reached *)
Lemma apply_blocks2_log St (rule : block_rule2 St) store g t : forall blocks s lg arr,
  let r := apply_blocks2 (logged_b2 rule) store (s, lg) g arr blocks t in
  exists k, k <= length blocks /\
    snd (fst (fst r)) = lg ++ map (fun rc => (gather2 g rc, t)) (firstn k blocks) /\
    (snd (fst r) = false -> k = length blocks).
Proof.
  induction blocks as [|rc rest IH]; intros s lg arr.
  - exists 0. cbn. rewrite app_nil_r. auto.
  - cbn [apply_blocks2 logged_b2]. destruct (rule s (gather2 g rc) t) as [s1 v].
    destruct (bcast (length (fst rc)) (length (snd rc)) v) as [v'|].
    + destruct (IH s1 (lg ++ [(gather2 g rc, t)]) (scatter2 store arr rc v')) as [k [Hk [Hlog Hbad]]].
      exists (S k). cbn [length firstn map]. split; [lia|]. split.
      * cbn zeta in Hlog. rewrite Hlog. rewrite <- app_assoc. reflexivity.
      * intros Hb. f_equal. apply Hbad. exact Hb.
    + exists 1. cbn [length firstn map fst snd]. split; [lia|]. split; [destruct rest; reflexivity|discriminate].
Qed.

Lemma block_calls_2d St (rule : block_rule2 St) store b1 b2 s lg g t :
  let r := step_block2d (logged_b2 rule) store b1 b2 ((s, lg), false) g t in
  let blocks := blocks2_at (rows_of g) (cols_of g) b1 b2 t in
  exists k, k <= length blocks /\
    snd (fst (fst r)) = lg ++ map (fun rc => (gather2 g rc, t)) (firstn k blocks) /\
    (snd (fst r) = false -> k = length blocks).
Proof.
  intros r blocks. subst r. unfold step_block2d. cbn [fst snd].
  destruct (apply_blocks2_log St rule store g t blocks s lg (repeat (repeat 0%Z (cols_of g)) (rows_of g))) as [k Hk].
  cbn zeta in Hk. fold blocks.
  destruct (apply_blocks2 (logged_b2 rule) store (s, lg) g (repeat (repeat 0%Z (cols_of g)) (rows_of g)) blocks t) as [[s' bad] arr].
  exists k. exact Hk.
Qed.

Lemma Forall2_map_r {A B C} (P : A -> C -> Prop) (h : B -> C) : forall l1 l2,
  Forall2 (fun x y => P x (h y)) l1 l2 -> Forall2 P l1 (map h l2).
Proof. induction 1; cbn [map]; constructor; auto. Qed.

(* ---- conservation *)
Lemma block_conserves_2d St (rule : block_rule2 St) b1 b2 m1 m2 s g t :
  1 <= b1 -> 1 <= b2 -> 1 <= m1 -> 1 <= m2 -> shape (m1 * b1) (m2 * b2) g ->
  (forall s x t h w, shape h w x -> shape h w (snd (rule s x t))) ->
  (forall s x t, Permutation (concat (snd (rule s x t))) (concat x)) ->
  let r := step_block2d rule id_store b1 b2 (s, false) g t in
  snd (fst r) = false /\ shape (m1 * b1) (m2 * b2) (snd r) /\ Permutation (concat (snd r)) (concat g).
Proof.
  intros H1 H2 Hm1 Hm2 Hg Hshape Hperm r.
  assert (HR : rows_of g = m1 * b1) by (destruct Hg as [Hg _]; exact Hg).
  assert (HC : cols_of g = m2 * b2).
  { apply shape_cols with (R := m1 * b1); [|exact Hg]. destruct m1; [lia|]. cbn. lia. }
  destruct (step_block2d_gather St rule id_store Hshape b1 b2 m1 m2 s g t H1 H2 Hm1 Hm2 Hg) as [Hl Hgt].
  set (blocks := blocks2_at (m1 * b1) (m2 * b2) b1 b2 t) in *.
  set (results := snd (run_blocks2 rule s g blocks t)) in *.
  assert (Hns : shape (m1 * b1) (m2 * b2) (snd r)).
  { subst r. rewrite <- HR, <- HC. apply step_block2d_shape. exact Hshape. }
  split; [subst r; rewrite step_block2d_eq by exact Hshape; reflexivity|]. split; [exact Hns|].
  fold r in Hgt. set (new := snd r) in *.
  rewrite (concat_grid _ _ _ Hns), (concat_grid _ _ _ Hg).
  pose proof (blocks2_at_perm b1 b2 m1 m2 t H1 H2) as HP. fold blocks in HP.
  assert (E1 : map (get2 new) (flat_map block_cells blocks) = concat (map (@concat Z) results)).
  { rewrite flat_map_concat_map, concat_map, map_map. f_equal.
    apply map_combine_pointwise; [symmetry; exact Hl|].
    intros rc res Hin. destruct (Hgt rc res Hin) as [_ E]. rewrite E. apply map_id_store. }
  assert (E2 : Permutation (concat (map (@concat Z) results)) (map (get2 g) (flat_map block_cells blocks))).
  { rewrite flat_map_concat_map, concat_map, map_map.
    rewrite map_ext with (g := fun rc => concat (gather2 g rc)) by (intros rc; symmetry; apply concat_gather2).
    apply Forall2_perm_concat. apply Forall2_map_r.
    pose proof (run_blocks2_results St rule g t blocks s) as HF. fold results in HF.
    eapply Forall2_impl'; [|exact HF]. intros rc res [s' ->]. cbn beta. apply Hperm. }
  eapply Permutation_trans; [apply Permutation_map, Permutation_sym, HP|].
  rewrite E1. eapply Permutation_trans; [exact E2|]. apply Permutation_map. exact HP.
Qed.

(* ---- reversibility *)
Lemma run_blocks2_pure h g t : forall blocks u,
  snd (run_blocks2 (pure_b2 h) u g blocks t) = map (fun rc => h (gather2 g rc) t) blocks.
Proof.
  induction blocks as [|rc rest IH]; intros u; [reflexivity|].
  cbn [run_blocks2 pure_b2 map]. specialize (IH u). destruct (run_blocks2 (pure_b2 h) u g rest t) as [s2 rs].
  cbn [snd] in *. rewrite IH. reflexivity.
Qed.

Lemma step_pure_gather2 h b1 b2 m1 m2 g t rc :
  1 <= b1 -> 1 <= b2 -> 1 <= m1 -> 1 <= m2 -> shape (m1 * b1) (m2 * b2) g ->
  (forall x t hh w, shape hh w x -> shape hh w (h x t)) ->
  In rc (blocks2_at (m1 * b1) (m2 * b2) b1 b2 t) ->
  gather2 (snd (step_block2d (pure_b2 h) id_store b1 b2 (tt, false) g t)) rc = h (gather2 g rc) t.
Proof.
  intros H1 H2 Hm1 Hm2 Hg Hh Hin.
  assert (Hshape : forall (s : unit) x t hh w, shape hh w x -> shape hh w (snd (pure_b2 h s x t))) by (intros; apply Hh; assumption).
  destruct (step_block2d_gather unit (pure_b2 h) id_store Hshape b1 b2 m1 m2 tt g t H1 H2 Hm1 Hm2 Hg) as [_ Hgt].
  destruct (Hgt rc (h (gather2 g rc) t)) as [Hs E].
  { rewrite run_blocks2_pure. apply in_combine_map with (F := fun rc => h (gather2 g rc) t). exact Hin. }
  rewrite map_id_store in E. rewrite <- concat_gather2 in E.
  eapply shape_concat_inj; [apply gather2_shape|exact Hs|exact E].
Qed.

Lemma block_reversible_2d (f g : grid2 -> nat -> grid2) b1 b2 m1 m2 g0 t :
  1 <= b1 -> 1 <= b2 -> 1 <= m1 -> 1 <= m2 -> shape (m1 * b1) (m2 * b2) g0 ->
  (forall x t h w, shape h w x -> shape h w (f x t)) ->
  (forall x t h w, shape h w x -> shape h w (g x t)) ->
  (forall x t h w, shape h w x -> g (f x t) t = x) ->
  snd (step_block2d (pure_b2 g) id_store b1 b2 (tt, false)
        (snd (step_block2d (pure_b2 f) id_store b1 b2 (tt, false) g0 t)) t) = g0.
Proof.
  intros H1 H2 Hm1 Hm2 Hg0 Hf Hg Hgf.
  assert (HR : rows_of g0 = m1 * b1) by (destruct Hg0 as [Hx _]; exact Hx).
  assert (HC : cols_of g0 = m2 * b2).
  { apply shape_cols with (R := m1 * b1); [|exact Hg0]. destruct m1; [lia|]. cbn. lia. }
  assert (Hsf : forall (s : unit) x t h w, shape h w x -> shape h w (snd (pure_b2 f s x t))) by (intros; apply Hf; assumption).
  assert (Hsg : forall (s : unit) x t h w, shape h w x -> shape h w (snd (pure_b2 g s x t))) by (intros; apply Hg; assumption).
  set (mid := snd (step_block2d (pure_b2 f) id_store b1 b2 (tt, false) g0 t)).
  assert (Hmid : shape (m1 * b1) (m2 * b2) mid).
  { unfold mid. rewrite <- HR, <- HC. apply step_block2d_shape. exact Hsf. }
  assert (HRm : rows_of mid = m1 * b1) by (destruct Hmid as [Hx _]; exact Hx).
  assert (HCm : cols_of mid = m2 * b2).
  { apply shape_cols with (R := m1 * b1); [|exact Hmid]. destruct m1; [lia|]. cbn. lia. }
  set (fin := snd (step_block2d (pure_b2 g) id_store b1 b2 (tt, false) mid t)).
  assert (Hfin : shape (m1 * b1) (m2 * b2) fin).
  { unfold fin. rewrite <- HRm, <- HCm. apply step_block2d_shape. exact Hsg. }
  eapply shape_concat_inj; [exact Hfin|exact Hg0|].
  rewrite (concat_grid _ _ _ Hfin), (concat_grid _ _ _ Hg0).
  apply map_ext_in. intros k Hk.
  pose proof (blocks2_at_perm b1 b2 m1 m2 t H1 H2) as HP.
  apply (Permutation_in _ (Permutation_sym HP)) in Hk. apply in_flat_map in Hk. destruct Hk as [rc [Hrc Hk]].
  assert (E : gather2 fin rc = gather2 g0 rc).
  { unfold fin. rewrite (step_pure_gather2 g b1 b2 m1 m2 mid t rc) by assumption.
    unfold mid. rewrite (step_pure_gather2 f b1 b2 m1 m2 g0 t rc) by assumption.
    eapply Hgf. apply gather2_shape. }
  apply (f_equal (@concat Z)) in E. rewrite !concat_gather2 in E.
  exact (map_eq_in _ _ _ _ E Hk).
Qed.

(* ---- rejection *)
Lemma iter_steps2_flag St (rule : block_rule2 St) store b1 b2 :
  (forall s x t h w, shape h w x -> shape h w (snd (rule s x t))) ->
  forall n s g t, snd (fst (iter_steps (step_block2d rule store b1 b2) n (s, false) g t)) = false.
Proof.
  intros Hshape. induction n as [|n IH]; intros s g t; [reflexivity|].
  cbn [iter_steps]. rewrite step_block2d_eq by exact Hshape. cbn zeta.
  match goal with |- context [iter_steps _ n (?s1, false) ?g1 ?t1] => specialize (IH s1 g1 t1);
    destruct (iter_steps (step_block2d rule store b1 b2) n (s1, false) g1 t1) as [x2 rest] end.
  exact IH.
Qed.

Lemma evolve_fixed2_ok St (rule : block_rule2 St) store b1 b2 :
  (forall s x t h w, shape h w x -> shape h w (snd (rule s x t))) ->
  forall s0 (hist : list grid2) k, exists s rows,
    evolve_fixed [] (step_block2d rule store b1 b2) (s0, false) hist (S k) = Ok ((s, false), rows).
Proof.
  intros Hshape s0 hist k. unfold evolve_fixed.
  pose proof (iter_steps2_flag St rule store b1 b2 Hshape k s0 (last hist []) 1) as Hflag.
  unfold grid2 in *.
  match type of Hflag with snd (fst ?it) = false => destruct it as [[s bad] rows] end.
  cbn [fst snd] in Hflag. subst bad. eexists. eexists. reflexivity.
Qed.

Lemma block_rejects_2d St (rule : block_rule2 St) store b1 b2 s0 hist T :
  hist <> [] -> 1 <= b1 -> 1 <= b2 -> 1 <= T ->
  (rows_of (last hist []) mod b1 <> 0 \/ cols_of (last hist []) mod b2 <> 0 ->
   evolve2d_block rule store b1 b2 s0 hist T = Raise OtherError) /\
  (rows_of (last hist []) mod b1 = 0 -> cols_of (last hist []) mod b2 = 0 ->
   (forall s x t h w, shape h w x -> shape h w (snd (rule s x t))) ->
   exists r, evolve2d_block rule store b1 b2 s0 hist T = Ok r).
Proof.
  intros Hh H1 H2 HT. unfold evolve2d_block. destruct hist as [|h0 hist']; [congruence|].
  cbv zeta. unfold grid2 in *.
  destruct (T =? 0) eqn:ET; [apply Nat.eqb_eq in ET; lia|].
  destruct (b1 =? 0) eqn:E1; [apply Nat.eqb_eq in E1; lia|].
  destruct (b2 =? 0) eqn:E2; [apply Nat.eqb_eq in E2; lia|]. cbn [orb]. split.
  - intros [Hm|Hm]; apply Nat.eqb_neq in Hm; rewrite Hm; cbn [negb orb]; [reflexivity|].
    match goal with |- (if ?c || true then _ else _) = _ => destruct c; reflexivity end.
  - intros Hr Hc Hshape. rewrite Hr, Hc. cbn [Nat.eqb negb orb].
    destruct T as [|k]; [lia|].
    destruct (evolve_fixed2_ok St rule store b1 b2 Hshape s0 (h0 :: hist') k) as [s [rows E]].
    unfold grid2 in *. rewrite E. eexists. reflexivity.
Qed.

(* ================================================================== whole evolutions *)
Lemma iter_steps_conserves_1d St (rule : block_rule St) b : 1 <= b ->
  (forall s x t, Permutation (snd (rule s x t)) x) ->
  forall n s cur t, Forall (fun r => Permutation r cur) (snd (iter_steps (step_block rule id_store b) n s cur t)).
Proof.
  intros Hb Hperm. induction n as [|n IH]; intros s cur t; [constructor|].
  cbn [iter_steps]. pose proof (block_conserves_1d St rule b s cur t Hb Hperm) as Hstep.
  destruct (step_block rule id_store b s cur t) as [s1 nxt]. cbn [snd] in Hstep.
  specialize (IH s1 nxt (S t)). destruct (iter_steps (step_block rule id_store b) n s1 nxt (S t)) as [s2 rest].
  cbn [snd] in *. constructor; [exact Hstep|].
  eapply Forall_impl; [|exact IH]. intros r Hr. cbn beta in Hr. apply Permutation_trans with nxt; assumption.
Qed.

Lemma evolve_block_conserves St (rule : block_rule St) b s0 hist T s rows : 1 <= b ->
  (forall s x t, Permutation (snd (rule s x t)) x) ->
  evolve_block rule id_store b s0 hist T = Ok (s, rows) ->
  exists news, rows = hist ++ news /\ length news = T - 1 /\ Forall (fun r => Permutation r (last hist [])) news.
Proof.
  intros Hb Hperm. unfold evolve_block. destruct hist as [|h0 hist']; [discriminate|].
  destruct (b =? 0); [discriminate|].
  destruct (negb (length (last (h0 :: hist') []) mod b =? 0)); [discriminate|].
  destruct (length (last (h0 :: hist') []) =? 0); [discriminate|].
  unfold evolve_fixed. destruct T as [|k]; [discriminate|].
  pose proof (iter_steps_conserves_1d St rule b Hb Hperm k s0 (last (h0 :: hist') []) 1) as HF.
  assert (HL : forall n s cur t, length (snd (iter_steps (step_block rule id_store b) n s cur t)) = n).
  { induction n as [|n IHn]; intros s' cur t; [reflexivity|]. cbn [iter_steps].
    destruct (step_block rule id_store b s' cur t) as [s1 nxt]. specialize (IHn s1 nxt (S t)).
    destruct (iter_steps (step_block rule id_store b) n s1 nxt (S t)) as [s2 rest]. cbn [snd length] in *. lia. }
  specialize (HL k s0 (last (h0 :: hist') []) 1).
  destruct (iter_steps (step_block rule id_store b) k s0 (last (h0 :: hist') []) 1) as [x news].
  cbn [snd] in *. intros E. injection E as <- <-. exists news. split; [reflexivity|]. split; [lia|exact HF].
Qed.

Lemma iter_steps_conserves_2d St (rule : block_rule2 St) b1 b2 m1 m2 :
  1 <= b1 -> 1 <= b2 -> 1 <= m1 -> 1 <= m2 ->
  (forall s x t h w, shape h w x -> shape h w (snd (rule s x t))) ->
  (forall s x t, Permutation (concat (snd (rule s x t))) (concat x)) ->
  forall n s cur t, shape (m1 * b1) (m2 * b2) cur ->
  let r := iter_steps (step_block2d rule id_store b1 b2) n (s, false) cur t in
  snd (fst r) = false /\
  Forall (fun g' => shape (m1 * b1) (m2 * b2) g' /\ Permutation (concat g') (concat cur)) (snd r).
Proof.
  intros H1 H2 Hm1 Hm2 Hshape Hperm. induction n as [|n IH]; intros s cur t Hcur; [split; [reflexivity|constructor]|].
  cbn [iter_steps].
  destruct (block_conserves_2d St rule b1 b2 m1 m2 s cur t H1 H2 Hm1 Hm2 Hcur Hshape Hperm) as [Hbad [Hns Hp]].
  destruct (step_block2d rule id_store b1 b2 (s, false) cur t) as [[s1 bad] nxt]. cbn [fst snd] in Hbad, Hns, Hp. subst bad.
  specialize (IH s1 nxt (S t) Hns). cbn zeta in IH.
  destruct (iter_steps (step_block2d rule id_store b1 b2) n (s1, false) nxt (S t)) as [x2 rest].
  cbn [fst snd] in *. destruct IH as [IHb IHF]. split; [exact IHb|].
  constructor; [split; assumption|].
  eapply Forall_impl; [|exact IHF]. intros g' [Hg' Hpg]. split; [exact Hg'|]. apply Permutation_trans with (concat nxt); assumption.
Qed.

Lemma evolve2d_block_conserves St (rule : block_rule2 St) b1 b2 m1 m2 s0 hist T :
  1 <= b1 -> 1 <= b2 -> 1 <= m1 -> 1 <= m2 -> 1 <= T -> hist <> [] ->
  shape (m1 * b1) (m2 * b2) (last hist []) ->
  (forall s x t h w, shape h w x -> shape h w (snd (rule s x t))) ->
  (forall s x t, Permutation (concat (snd (rule s x t))) (concat x)) ->
  exists s news, evolve2d_block rule id_store b1 b2 s0 hist T = Ok (s, hist ++ news) /\ length news = T - 1 /\
    Forall (fun g' => shape (m1 * b1) (m2 * b2) g' /\ Permutation (concat g') (concat (last hist []))) news.
Proof.
  intros H1 H2 Hm1 Hm2 HT Hh Hg Hshape Hperm.
  assert (HR : rows_of (last hist []) = m1 * b1) by (destruct Hg as [Hx _]; exact Hx).
  assert (HC : cols_of (last hist []) = m2 * b2).
  { apply shape_cols with (R := m1 * b1); [|exact Hg]. destruct m1; [lia|]. cbn. lia. }
  unfold evolve2d_block. destruct hist as [|h0 hist']; [congruence|]. cbv zeta.
  unfold grid2 in *. rewrite HR, HC. rewrite !Nat.mod_mul by lia.
  destruct (T =? 0) eqn:ET; [apply Nat.eqb_eq in ET; lia|].
  destruct (b1 =? 0) eqn:E1; [apply Nat.eqb_eq in E1; lia|].
  destruct (b2 =? 0) eqn:E2; [apply Nat.eqb_eq in E2; lia|]. cbn [orb negb Nat.eqb].
  destruct T as [|k]; [lia|]. unfold evolve_fixed.
  pose proof (iter_steps_conserves_2d St rule b1 b2 m1 m2 H1 H2 Hm1 Hm2 Hshape Hperm k s0 _ 1 Hg) as HF.
  cbn zeta in HF. unfold grid2 in *.
  assert (HL : forall n x cur t, length (snd (iter_steps (step_block2d rule id_store b1 b2) n x cur t)) = n).
  { induction n as [|n IHn]; intros x cur t; [reflexivity|]. cbn [iter_steps].
    destruct (step_block2d rule id_store b1 b2 x cur t) as [x1 nxt]. specialize (IHn x1 nxt (S t)).
    destruct (iter_steps (step_block2d rule id_store b1 b2) n x1 nxt (S t)) as [x2 rest]. cbn [snd length] in *. lia. }
  specialize (HL k (s0, false) (last (h0 :: hist') []) 1). unfold grid2 in *.
  match type of HL with length (snd ?it) = _ => destruct it as [[s bad] news] end.
  cbn [fst snd] in *. destruct HF as [Hb HF']. subst bad.
  exists s, news. split; [reflexivity|]. split; [lia|exact HF'].
Qed.

(* ================================================================== the rules used in the non-vacuity examples *)
Definition rev180 (x : grid2) : grid2 := rev (map (@rev Z) x).

Lemma rev180_shape h w x : shape h w x -> shape h w (rev180 x).
Proof.
  intros [H1 H2]. unfold rev180, shape. split; [rewrite rev_length, map_length; exact H1|].
  apply Forall_rev. apply Forall_forall. intros row Hrow. apply in_map_iff in Hrow. destruct Hrow as [r [<- Hr]].
  rewrite rev_length. rewrite Forall_forall in H2. apply H2. exact Hr.
Qed.

Lemma rev180_perm : forall x, Permutation (concat (rev180 x)) (concat x).
Proof.
  unfold rev180. induction x as [|r x IH]; [constructor|].
  cbn [map rev concat]. rewrite concat_app. cbn [concat]. rewrite app_nil_r.
  eapply Permutation_trans; [apply Permutation_app_comm|].
  apply Permutation_app; [apply Permutation_sym, Permutation_rev|exact IH].
Qed.

Lemma rev180_involutive x : rev180 (rev180 x) = x.
Proof.
  unfold rev180. rewrite map_rev, rev_involutive, map_map.
  rewrite map_ext with (g := fun r => r) by (intros r; apply rev_involutive). apply map_id.
Qed.

(* ================================================================== hypotheses restricted to blocks of the
   automaton's block size: a rule written for exactly b cells (b1 x b2 cells) *)

Lemma apply_blocks_ext St (r1 r2 : block_rule St) store cells t : forall blocks s arr,
  (forall s blk, In blk blocks -> r1 s (gather cells blk) t = r2 s (gather cells blk) t) ->
  apply_blocks r1 store s cells arr blocks t = apply_blocks r2 store s cells arr blocks t.
Proof.
  induction blocks as [|blk rest IH]; intros s arr H; [reflexivity|].
  cbn [apply_blocks]. rewrite (H s blk) by (left; reflexivity).
  destruct (r2 s (gather cells blk) t) as [s1 res]. apply IH. intros s' blk' Hin. apply H. right. exact Hin.
Qed.

Lemma blocks_at_len b m t blk : 1 <= b -> In blk (blocks_at (m * b) b t) -> length blk = b.
Proof.
  intros Hb Hin. apply In_nth with (d := []) in Hin. destruct Hin as [j [Hj <-]].
  unfold blocks_at in *. destruct (t mod 2 =? 0).
  - rewrite blocks_even_length in Hj by exact Hb. rewrite blocks_even_nth by assumption.
    rewrite map_length. apply seq_length.
  - rewrite blocks_odd_length in Hj by exact Hb. rewrite blocks_odd_nth by assumption. apply seq_length.
Qed.

Lemma gather_length cells blk : length (gather cells blk) = length blk.
Proof. apply map_length. Qed.

Lemma step_block_ext St (r1 r2 : block_rule St) store b m s cells t : 1 <= b -> length cells = m * b ->
  (forall s x, length x = b -> r1 s x t = r2 s x t) ->
  step_block r1 store b s cells t = step_block r2 store b s cells t.
Proof.
  intros Hb Hl H. unfold step_block. apply apply_blocks_ext. intros s' blk Hin. apply H.
  rewrite gather_length. rewrite Hl in Hin. eapply blocks_at_len; eassumption.
Qed.

Lemma iter_steps_ext_1d St (r1 r2 : block_rule St) store b m : 1 <= b ->
  (forall s x t, length x = b -> r1 s x t = r2 s x t) ->
  forall n s cur t, length cur = m * b ->
  iter_steps (step_block r1 store b) n s cur t = iter_steps (step_block r2 store b) n s cur t.
Proof.
  intros Hb H. induction n as [|n IH]; intros s cur t Hl; [reflexivity|].
  cbn [iter_steps]. rewrite (step_block_ext St r1 r2 store b m s cur t Hb Hl) by (intros; apply H; assumption).
  pose proof (step_block_length St r2 store b s cur t) as Hn.
  destruct (step_block r2 store b s cur t) as [s1 nxt]. cbn [snd] in Hn.
  rewrite IH by (rewrite Hn; exact Hl). reflexivity.
Qed.

Lemma evolve_block_ext St (r1 r2 : block_rule St) store b m s0 hist T : 1 <= b ->
  length (last hist []) = m * b ->
  (forall s x t, length x = b -> r1 s x t = r2 s x t) ->
  evolve_block r1 store b s0 hist T = evolve_block r2 store b s0 hist T.
Proof.
  intros Hb Hl H. unfold evolve_block. destruct hist as [|h0 hist']; [reflexivity|].
  destruct (b =? 0); [reflexivity|]. destruct (negb _); [reflexivity|]. destruct (_ =? 0); [reflexivity|].
  unfold evolve_fixed. destruct T as [|k]; [reflexivity|].
  rewrite (iter_steps_ext_1d St r1 r2 store b m Hb H k s0 _ 1 Hl). reflexivity.
Qed.

(* the rule, made total: identity outside its block size *)
Definition guard_b {St} (b : nat) (rule : block_rule St) : block_rule St :=
  fun s x t => if length x =? b then rule s x t else (s, x).
Definition guard_f (b : nat) (f : list Z -> nat -> list Z) : list Z -> nat -> list Z :=
  fun x t => if length x =? b then f x t else x.

Lemma block_conserves_1d' St (rule : block_rule St) b m s cells t :
  1 <= b -> length cells = m * b ->
  (forall s x t, length x = b -> Permutation (snd (rule s x t)) x) ->
  Permutation (snd (step_block rule id_store b s cells t)) cells.
Proof.
  intros Hb Hl H.
  rewrite (step_block_ext St rule (guard_b b rule) id_store b m s cells t Hb Hl)
    by (intros s' x Hx; unfold guard_b; rewrite Hx, Nat.eqb_refl; reflexivity).
  apply block_conserves_1d; [exact Hb|]. intros s' x t'. unfold guard_b.
  destruct (length x =? b) eqn:E; [apply H; apply Nat.eqb_eq; exact E|apply Permutation_refl].
Qed.

Lemma evolve_block_conserves' St (rule : block_rule St) b m s0 hist T s rows : 1 <= b ->
  length (last hist []) = m * b ->
  (forall s x t, length x = b -> Permutation (snd (rule s x t)) x) ->
  evolve_block rule id_store b s0 hist T = Ok (s, rows) ->
  exists news, rows = hist ++ news /\ length news = T - 1 /\ Forall (fun r => Permutation r (last hist [])) news.
Proof.
  intros Hb Hl H.
  rewrite (evolve_block_ext St rule (guard_b b rule) id_store b m s0 hist T Hb Hl)
    by (intros s' x t' Hx; unfold guard_b; rewrite Hx, Nat.eqb_refl; reflexivity).
  apply evolve_block_conserves; [exact Hb|]. intros s' x t'. unfold guard_b.
  destruct (length x =? b) eqn:E; [apply H; apply Nat.eqb_eq; exact E|apply Permutation_refl].
Qed.

Lemma guard_f_length b f : (forall x t, length x = b -> length (f x t) = b) ->
  forall x t, length (guard_f b f x t) = length x.
Proof.
  intros H x t. unfold guard_f. destruct (length x =? b) eqn:E; [|reflexivity].
  apply Nat.eqb_eq in E. rewrite H by exact E. symmetry. exact E.
Qed.

Lemma guard_f_inverse b f g : (forall x t, length x = b -> length (f x t) = b) ->
  (forall x t, length x = b -> g (f x t) t = x) ->
  forall x t, guard_f b g (guard_f b f x t) t = x.
Proof.
  intros Hf Hgf x t. unfold guard_f. destruct (length x =? b) eqn:E.
  - apply Nat.eqb_eq in E. rewrite (Hf x t E), Nat.eqb_refl. apply Hgf. exact E.
  - rewrite E. reflexivity.
Qed.

Lemma step_pure_guard f b m cells t : 1 <= b -> length cells = m * b ->
  step_block (pure_b f) id_store b tt cells t = step_block (pure_b (guard_f b f)) id_store b tt cells t.
Proof.
  intros Hb Hl. apply (step_block_ext unit _ _ id_store b m tt cells t Hb Hl).
  intros s x Hx. unfold pure_b, guard_f. rewrite Hx, Nat.eqb_refl. reflexivity.
Qed.

Lemma block_reversible_1d' (f g : list Z -> nat -> list Z) b m cells t :
  1 <= b -> length cells = m * b ->
  (forall x t, length x = b -> length (f x t) = b) -> (forall x t, length x = b -> length (g x t) = b) ->
  (forall x t, length x = b -> g (f x t) t = x) ->
  snd (step_block (pure_b g) id_store b tt (snd (step_block (pure_b f) id_store b tt cells t)) t) = cells.
Proof.
  intros Hb Hl Hf Hg Hgf.
  rewrite (step_pure_guard f b m cells t Hb Hl).
  rewrite (step_pure_guard g b m _ t Hb) by (rewrite step_block_length; exact Hl).
  apply block_reversible_1d; [exact Hb|apply guard_f_length; exact Hf|apply guard_f_length; exact Hg|].
  apply guard_f_inverse; assumption.
Qed.

(* ---- 2D *)
Lemma blocks2_at_dims R C b1 b2 t rc : In rc (blocks2_at R C b1 b2 t) -> length (fst rc) = b1 /\ length (snd rc) = b2.
Proof.
  assert (Hodd : forall rc, In rc (blocks2_odd R C b1 b2) -> length (fst rc) = b1 /\ length (snd rc) = b2).
  { intros rc' H. unfold blocks2_odd in H. apply in_flat_map in H. destruct H as [r [_ H]].
    apply in_map_iff in H. destruct H as [c [<- _]]. cbn [fst snd]. rewrite !seq_length. split; reflexivity. }
  unfold blocks2_at, blocks2_even. destruct (t mod 2 =? 0); [|apply Hodd].
  intros H. apply in_map_iff in H. destruct H as [rc' [<- H]]. unfold shift_block. cbn [fst snd].
  rewrite !map_length. apply Hodd. exact H.
Qed.

Lemma apply_blocks2_ext St (r1 r2 : block_rule2 St) store g t : forall blocks s arr,
  (forall s rc, In rc blocks -> r1 s (gather2 g rc) t = r2 s (gather2 g rc) t) ->
  apply_blocks2 r1 store s g arr blocks t = apply_blocks2 r2 store s g arr blocks t.
Proof.
  induction blocks as [|rc rest IH]; intros s arr H; [reflexivity|].
  cbn [apply_blocks2]. rewrite (H s rc) by (left; reflexivity).
  destruct (r2 s (gather2 g rc) t) as [s1 v]. destruct (bcast _ _ v); [|reflexivity].
  apply IH. intros s' rc' Hin. apply H. right. exact Hin.
Qed.

Lemma step_block2d_ext St (r1 r2 : block_rule2 St) store b1 b2 sb g t :
  (forall s x, shape b1 b2 x -> r1 s x t = r2 s x t) ->
  step_block2d r1 store b1 b2 sb g t = step_block2d r2 store b1 b2 sb g t.
Proof.
  intros H. unfold step_block2d. destruct (snd sb); [reflexivity|].
  rewrite (apply_blocks2_ext St r1 r2 store g t); [reflexivity|].
  intros s rc Hin. apply H. destruct (blocks2_at_dims _ _ _ _ _ _ Hin) as [<- <-]. apply gather2_shape.
Qed.

Lemma iter_steps_ext_2d St (r1 r2 : block_rule2 St) store b1 b2 :
  (forall s x t, shape b1 b2 x -> r1 s x t = r2 s x t) ->
  forall n sb cur t,
  iter_steps (step_block2d r1 store b1 b2) n sb cur t = iter_steps (step_block2d r2 store b1 b2) n sb cur t.
Proof.
  intros H. induction n as [|n IH]; intros sb cur t; [reflexivity|].
  cbn [iter_steps]. rewrite (step_block2d_ext St r1 r2 store b1 b2 sb cur t) by (intros; apply H; assumption).
  destruct (step_block2d r2 store b1 b2 sb cur t) as [sb1 nxt]. rewrite IH. reflexivity.
Qed.

Lemma evolve2d_block_ext St (r1 r2 : block_rule2 St) store b1 b2 s0 hist T :
  (forall s x t, shape b1 b2 x -> r1 s x t = r2 s x t) ->
  evolve2d_block r1 store b1 b2 s0 hist T = evolve2d_block r2 store b1 b2 s0 hist T.
Proof.
  intros H. unfold evolve2d_block. destruct hist as [|h0 hist']; [reflexivity|]. cbv zeta.
  destruct (T =? 0); [reflexivity|]. destruct (_ || _); [reflexivity|]. destruct (_ || _); [reflexivity|].
  unfold evolve_fixed. destruct T as [|k]; [reflexivity|].
  rewrite (iter_steps_ext_2d St r1 r2 store b1 b2 H). reflexivity.
Qed.

Definition guard_b2 {St} (b1 b2 : nat) (rule : block_rule2 St) : block_rule2 St :=
  fun s x t => if shape_eqb b1 b2 x then rule s x t else (s, x).
Definition guard_f2 (b1 b2 : nat) (f : grid2 -> nat -> grid2) : grid2 -> nat -> grid2 :=
  fun x t => if shape_eqb b1 b2 x then f x t else x.

Lemma shape_unique h w h' w' x : 1 <= h -> shape h w x -> shape h' w' x -> h = h' /\ w = w'.
Proof.
  intros Hh [H1 H2] [H1' H2']. split; [congruence|].
  destruct x as [|r x]; [cbn in H1; lia|]. inversion H2; inversion H2'; subst. congruence.
Qed.

Lemma guard_b2_eq St (rule : block_rule2 St) b1 b2 s x t : shape b1 b2 x -> rule s x t = guard_b2 b1 b2 rule s x t.
Proof. intros H. unfold guard_b2. apply shape_eqb_iff in H. rewrite H. reflexivity. Qed.

Lemma guard_b2_shape St (rule : block_rule2 St) b1 b2 : 1 <= b1 ->
  (forall s x t, shape b1 b2 x -> shape b1 b2 (snd (rule s x t))) ->
  forall s x t h w, shape h w x -> shape h w (snd (guard_b2 b1 b2 rule s x t)).
Proof.
  intros Hb H s x t h w Hx. unfold guard_b2. destruct (shape_eqb b1 b2 x) eqn:E; [|exact Hx].
  apply shape_eqb_iff in E. destruct (shape_unique b1 b2 h w x Hb E Hx) as [<- <-]. apply H. exact E.
Qed.

Lemma guard_b2_perm St (rule : block_rule2 St) b1 b2 :
  (forall s x t, shape b1 b2 x -> Permutation (concat (snd (rule s x t))) (concat x)) ->
  forall s x t, Permutation (concat (snd (guard_b2 b1 b2 rule s x t))) (concat x).
Proof.
  intros H s x t. unfold guard_b2. destruct (shape_eqb b1 b2 x) eqn:E; [|apply Permutation_refl].
  apply H. apply shape_eqb_iff. exact E.
Qed.

Lemma block_conserves_2d' St (rule : block_rule2 St) b1 b2 m1 m2 s g t :
  1 <= b1 -> 1 <= b2 -> 1 <= m1 -> 1 <= m2 -> shape (m1 * b1) (m2 * b2) g ->
  (forall s x t, shape b1 b2 x -> shape b1 b2 (snd (rule s x t))) ->
  (forall s x t, shape b1 b2 x -> Permutation (concat (snd (rule s x t))) (concat x)) ->
  let r := step_block2d rule id_store b1 b2 (s, false) g t in
  snd (fst r) = false /\ shape (m1 * b1) (m2 * b2) (snd r) /\ Permutation (concat (snd r)) (concat g).
Proof.
  intros H1 H2 Hm1 Hm2 Hg Hs Hp r. subst r.
  rewrite (step_block2d_ext St rule (guard_b2 b1 b2 rule) id_store b1 b2 (s, false) g t)
    by (intros; apply guard_b2_eq; assumption).
  apply block_conserves_2d; try assumption; [apply guard_b2_shape|apply guard_b2_perm]; assumption.
Qed.

Lemma evolve2d_block_conserves' St (rule : block_rule2 St) b1 b2 m1 m2 s0 hist T :
  1 <= b1 -> 1 <= b2 -> 1 <= m1 -> 1 <= m2 -> 1 <= T -> hist <> [] ->
  shape (m1 * b1) (m2 * b2) (last hist []) ->
  (forall s x t, shape b1 b2 x -> shape b1 b2 (snd (rule s x t))) ->
  (forall s x t, shape b1 b2 x -> Permutation (concat (snd (rule s x t))) (concat x)) ->
  exists s news, evolve2d_block rule id_store b1 b2 s0 hist T = Ok (s, hist ++ news) /\ length news = T - 1 /\
    Forall (fun g' => shape (m1 * b1) (m2 * b2) g' /\ Permutation (concat g') (concat (last hist []))) news.
Proof.
  intros H1 H2 Hm1 Hm2 HT Hh Hg Hs Hp.
  rewrite (evolve2d_block_ext St rule (guard_b2 b1 b2 rule) id_store b1 b2 s0 hist T)
    by (intros; apply guard_b2_eq; assumption).
  apply evolve2d_block_conserves; try assumption; [apply guard_b2_shape|apply guard_b2_perm]; assumption.
Qed.

Lemma guard_f2_shape b1 b2 f : 1 <= b1 -> (forall x t, shape b1 b2 x -> shape b1 b2 (f x t)) ->
  forall x t h w, shape h w x -> shape h w (guard_f2 b1 b2 f x t).
Proof.
  intros Hb H x t h w Hx. unfold guard_f2. destruct (shape_eqb b1 b2 x) eqn:E; [|exact Hx].
  apply shape_eqb_iff in E. destruct (shape_unique b1 b2 h w x Hb E Hx) as [<- <-]. apply H. exact E.
Qed.

Lemma guard_f2_inverse b1 b2 f g : (forall x t, shape b1 b2 x -> shape b1 b2 (f x t)) ->
  (forall x t, shape b1 b2 x -> g (f x t) t = x) ->
  forall x t, guard_f2 b1 b2 g (guard_f2 b1 b2 f x t) t = x.
Proof.
  intros Hf Hgf x t. unfold guard_f2. destruct (shape_eqb b1 b2 x) eqn:E.
  - assert (Hx : shape b1 b2 x) by (apply shape_eqb_iff; exact E).
    pose proof (Hf x t Hx) as Hfx. apply shape_eqb_iff in Hfx. rewrite Hfx. apply Hgf. exact Hx.
  - rewrite E. reflexivity.
Qed.

Lemma step_pure_guard2 f b1 b2 sb g t :
  step_block2d (pure_b2 f) id_store b1 b2 sb g t = step_block2d (pure_b2 (guard_f2 b1 b2 f)) id_store b1 b2 sb g t.
Proof.
  apply step_block2d_ext. intros s x Hx. unfold pure_b2, guard_f2. apply shape_eqb_iff in Hx. rewrite Hx. reflexivity.
Qed.

Lemma block_reversible_2d' (f g : grid2 -> nat -> grid2) b1 b2 m1 m2 g0 t :
  1 <= b1 -> 1 <= b2 -> 1 <= m1 -> 1 <= m2 -> shape (m1 * b1) (m2 * b2) g0 ->
  (forall x t, shape b1 b2 x -> shape b1 b2 (f x t)) ->
  (forall x t, shape b1 b2 x -> shape b1 b2 (g x t)) ->
  (forall x t, shape b1 b2 x -> g (f x t) t = x) ->
  snd (step_block2d (pure_b2 g) id_store b1 b2 (tt, false)
        (snd (step_block2d (pure_b2 f) id_store b1 b2 (tt, false) g0 t)) t) = g0.
Proof.
  intros H1 H2 Hm1 Hm2 Hg0 Hf Hg Hgf.
  rewrite (step_pure_guard2 f), (step_pure_guard2 g).
  apply block_reversible_2d with (m1 := m1) (m2 := m2); try assumption.
  - apply guard_f2_shape; assumption.
  - apply guard_f2_shape; assumption.
  - intros x t' h w _. apply guard_f2_inverse; assumption.
Qed.

(* ================================================================== whole runs: the call log *)
Lemma flat_map_seq_shift {B} (F : nat -> list B) n : flat_map F (seq 1 n) = flat_map (fun k => F (S k)) (seq 0 n).
Proof. rewrite <- seq_shift. apply flat_map_map'. Qed.

Lemma iter_steps_calls_1d St (rule : block_rule St) store b : forall n s lg cur t0,
  let r := iter_steps (step_block (logged_b rule) store b) n (s, lg) cur t0 in
  length (snd r) = n /\
  snd (fst r) = lg ++ flat_map (fun k => map (fun blk => (gather (nth k (cur :: snd r) []) blk, t0 + k))
                                          (blocks_at (length cur) b (t0 + k))) (seq 0 n).
Proof.
  induction n as [|n IH]; intros s lg cur t0; [cbn; rewrite app_nil_r; split; reflexivity|].
  cbn [iter_steps].
  pose proof (block_calls_1d St rule store b s lg cur t0) as Hlog.
  pose proof (step_block_length _ (logged_b rule) store b (s, lg) cur t0) as Hlen.
  destruct (step_block (logged_b rule) store b (s, lg) cur t0) as [[s1 lg1] nxt]. cbn [fst snd] in Hlog, Hlen.
  specialize (IH s1 lg1 nxt (S t0)). cbn zeta in IH.
  destruct (iter_steps (step_block (logged_b rule) store b) n (s1, lg1) nxt (S t0)) as [[s2 lg2] rest].
  cbn [fst snd] in *. destruct IH as [IHl IHlog]. split; [cbn [length]; lia|].
  rewrite IHlog, Hlog. rewrite <- app_assoc. f_equal.
  change (seq 0 (S n)) with (0 :: seq 1 n). cbn [flat_map]. rewrite Nat.add_0_r. cbn [nth]. f_equal.
  rewrite flat_map_seq_shift. apply flat_map_ext. intros k. cbn [nth].
  rewrite Hlen. replace (t0 + S k) with (S t0 + k) by lia. reflexivity.
Qed.

Lemma evolve_block_calls St (rule : block_rule St) store b s0 lg0 hist T s lg rows :
  evolve_block (logged_b rule) store b (s0, lg0) hist T = Ok ((s, lg), hist ++ rows) ->
  length rows = T - 1 /\
  lg = lg0 ++ flat_map (fun t => map (fun blk => (gather (nth (t - 1) (last hist [] :: rows) []) blk, t))
                                     (blocks_at (length (last hist [])) b t)) (seq 1 (T - 1)).
Proof.
  unfold evolve_block. destruct hist as [|h0 hist']; [discriminate|].
  destruct (b =? 0); [discriminate|]. destruct (negb _); [discriminate|]. destruct (_ =? 0); [discriminate|].
  unfold evolve_fixed. destruct T as [|k]; [discriminate|].
  destruct (iter_steps_calls_1d St rule store b k s0 lg0 (last (h0 :: hist') []) 1) as [Hl Hlog]. cbn zeta in Hl, Hlog.
  destruct (iter_steps (step_block (logged_b rule) store b) k (s0, lg0) (last (h0 :: hist') []) 1) as [[s' lg'] rows'].
  cbn [fst snd] in *. intros E. injection E as <- <- E. apply app_inv_head in E. subst rows'.
  replace (S k - 1) with k by lia. split; [exact Hl|]. rewrite Hlog. f_equal.
  rewrite flat_map_seq_shift. apply flat_map_ext. intros j. replace (S j - 1) with j by lia. reflexivity.
Qed.

(* ---- 2D *)
Lemma apply_blocks2_shape St (rule : block_rule2 St) store g t R C : forall blocks s arr,
  shape R C arr -> shape R C (snd (apply_blocks2 rule store s g arr blocks t)).
Proof.
  induction blocks as [|rc rest IH]; intros s arr Ha; [exact Ha|].
  cbn [apply_blocks2]. destruct (rule s (gather2 g rc) t) as [s1 v].
  destruct (bcast _ _ v) as [v'|]; [|exact Ha]. apply IH. unfold scatter2.
  apply (write_all2_shape store R C). exact Ha.
Qed.

Lemma shape_dims g new : shape (rows_of g) (cols_of g) new -> rows_of new = rows_of g /\ cols_of new = cols_of g.
Proof.
  intros H. split; [destruct H as [H _]; exact H|].
  destruct g as [|r g'].
  - destruct H as [H _]. destruct new; [reflexivity|discriminate].
  - apply shape_cols with (R := rows_of (r :: g')); [cbn; lia|exact H].
Qed.

Lemma step_block2d_dims St (rule : block_rule2 St) store b1 b2 sb g t :
  let new := snd (step_block2d rule store b1 b2 sb g t) in rows_of new = rows_of g /\ cols_of new = cols_of g.
Proof.
  cbn zeta. unfold step_block2d. destruct (snd sb); [split; reflexivity|].
  pose proof (apply_blocks2_shape St rule store g t (rows_of g) (cols_of g)
                (blocks2_at (rows_of g) (cols_of g) b1 b2 t) (fst sb) _ (zeros_shape (rows_of g) (cols_of g))) as H.
  destruct (apply_blocks2 rule store (fst sb) g _ _ t) as [[s' bad] arr]. cbn [snd] in *. apply shape_dims. exact H.
Qed.

Lemma iter_steps2_bad St (rule : block_rule2 St) store b1 b2 : forall n x cur t,
  snd (fst (iter_steps (step_block2d rule store b1 b2) n (x, true) cur t)) = true.
Proof.
  induction n as [|n IH]; intros x cur t; [reflexivity|].
  cbn [iter_steps]. unfold step_block2d at 1. cbn [snd].
  specialize (IH x cur (S t)). destruct (iter_steps (step_block2d rule store b1 b2) n (x, true) cur (S t)) as [x2 rest].
  exact IH.
Qed.

Lemma iter_steps_calls_2d St (rule : block_rule2 St) store b1 b2 : forall n s lg cur t0,
  let r := iter_steps (step_block2d (logged_b2 rule) store b1 b2) n ((s, lg), false) cur t0 in
  snd (fst r) = false ->
  length (snd r) = n /\
  snd (fst (fst r)) = lg ++ flat_map (fun k => map (fun rc => (gather2 (nth k (cur :: snd r) []) rc, t0 + k))
                                                 (blocks2_at (rows_of cur) (cols_of cur) b1 b2 (t0 + k))) (seq 0 n).
Proof.
  induction n as [|n IH]; intros s lg cur t0; [cbn; rewrite app_nil_r; split; reflexivity|].
  cbn [iter_steps].
  destruct (block_calls_2d St rule store b1 b2 s lg cur t0) as [k [Hk [Hlog Hbad]]]. cbn zeta in Hlog, Hbad.
  destruct (step_block2d_dims _ (logged_b2 rule) store b1 b2 ((s, lg), false) cur t0) as [HR HC].
  destruct (step_block2d (logged_b2 rule) store b1 b2 ((s, lg), false) cur t0) as [[[s1 lg1] bad1] nxt].
  cbn [fst snd] in Hlog, Hbad, HR, HC. destruct bad1.
  - pose proof (iter_steps2_bad _ (logged_b2 rule) store b1 b2 n (s1, lg1) nxt (S t0)) as Hb.
    destruct (iter_steps (step_block2d (logged_b2 rule) store b1 b2) n ((s1, lg1), true) nxt (S t0)) as [x2 rest].
    cbn [fst snd] in *. intros Hf. congruence.
  - specialize (IH s1 lg1 nxt (S t0)). cbn zeta in IH.
    destruct (iter_steps (step_block2d (logged_b2 rule) store b1 b2) n ((s1, lg1), false) nxt (S t0)) as [[[s2 lg2] bad2] rest].
    cbn [fst snd] in *. intros Hf. destruct (IH Hf) as [IHl IHlog]. split; [cbn [length]; lia|].
    rewrite IHlog, Hlog. rewrite (Hbad eq_refl), firstn_all. rewrite <- app_assoc. f_equal.
    change (seq 0 (S n)) with (0 :: seq 1 n). cbn [flat_map]. rewrite Nat.add_0_r. cbn [nth]. f_equal.
    rewrite flat_map_seq_shift. apply flat_map_ext. intros j. cbn [nth].
    rewrite HR, HC. replace (t0 + S j) with (S t0 + j) by lia. reflexivity.
Qed.

Lemma evolve2d_block_calls St (rule : block_rule2 St) store b1 b2 s0 lg0 (hist : list grid2) T s lg grids :
  evolve2d_block (logged_b2 rule) store b1 b2 (s0, lg0) hist T = Ok ((s, lg), hist ++ grids) ->
  length grids = T - 1 /\
  lg = lg0 ++ flat_map (fun t => map (fun rc => (gather2 (nth (t - 1) (last hist [] :: grids) []) rc, t))
                                     (blocks2_at (rows_of (last hist [])) (cols_of (last hist [])) b1 b2 t))
                       (seq 1 (T - 1)).
Proof.
  unfold evolve2d_block. destruct hist as [|h0 hist']; [discriminate|]. cbv zeta.
  destruct (T =? 0); [discriminate|]. destruct (_ || _); [discriminate|]. destruct (_ || _); [discriminate|].
  unfold evolve_fixed. destruct T as [|k]; [discriminate|].
  pose proof (iter_steps_calls_2d St rule store b1 b2 k s0 lg0 (last (h0 :: hist') []) 1) as H. cbn zeta in H.
  unfold grid2 in *.
  match type of H with snd (fst ?it) = false -> _ => destruct it as [[[s' lg'] bad] rows'] end.
  cbn [fst snd] in *. destruct bad; [discriminate|]. destruct (H eq_refl) as [Hl Hlog].
  intros E. injection E as <- <- E. apply app_inv_head in E. subst rows'.
  replace (S k - 1) with k by lia. split; [exact Hl|]. rewrite Hlog. f_equal.
  rewrite flat_map_seq_shift. apply flat_map_ext. intros j. replace (S j - 1) with j by lia. reflexivity.
Qed.

(* ================================================================== whole runs: injectivity of the T-step map *)
Lemma last_app_cons {A} (d : A) : forall h news, h <> [] -> last (h ++ news) d = last (last h d :: news) d.
Proof.
  induction h as [|x h IH]; intros news Hh; [congruence|].
  destruct h as [|y h]; [reflexivity|].
  change (last ((x :: y :: h) ++ news) d) with (last ((y :: h) ++ news) d).
  change (last (x :: y :: h) d) with (last (y :: h) d). apply IH. discriminate.
Qed.

Lemma iter_steps_unit_snd {C} (step : unit -> C -> nat -> unit * C) n c t :
  snd (iter_steps step (S n) tt c t) = snd (step tt c t) :: snd (iter_steps step n tt (snd (step tt c t)) (S t)).
Proof.
  cbn [iter_steps]. destruct (step tt c t) as [[] nxt]. cbn [snd].
  destruct (iter_steps step n tt nxt (S t)) as [x2 rest]. reflexivity.
Qed.

Lemma iter_steps_injective_1d (f g : list Z -> nat -> list Z) b : 1 <= b ->
  (forall x t, length x = b -> length (f x t) = b) -> (forall x t, length x = b -> length (g x t) = b) ->
  (forall x t, length x = b -> g (f x t) t = x) ->
  forall n c1 c2 t0 m m', length c1 = m * b -> length c2 = m' * b ->
  last (c1 :: snd (iter_steps (step_block (pure_b f) id_store b) n tt c1 t0)) [] =
  last (c2 :: snd (iter_steps (step_block (pure_b f) id_store b) n tt c2 t0)) [] -> c1 = c2.
Proof.
  intros Hb Hf Hg Hgf. induction n as [|n IH]; intros c1 c2 t0 m m' H1 H2 E; [exact E|].
  rewrite !iter_steps_unit_snd in E.
  set (n1 := snd (step_block (pure_b f) id_store b tt c1 t0)) in *.
  set (n2 := snd (step_block (pure_b f) id_store b tt c2 t0)) in *.
  match type of E with last (c1 :: n1 :: ?l) [] = _ => change (last (c1 :: n1 :: l) []) with (last (n1 :: l) []) in E end.
  match type of E with _ = last (c2 :: n2 :: ?l) [] => change (last (c2 :: n2 :: l) []) with (last (n2 :: l) []) in E end.
  assert (En : n1 = n2).
  { apply (IH n1 n2 (S t0) m m'); [unfold n1; rewrite step_block_length; exact H1|unfold n2; rewrite step_block_length; exact H2|exact E]. }
  rewrite <- (block_reversible_1d' f g b m c1 t0 Hb H1 Hf Hg Hgf).
  rewrite <- (block_reversible_1d' f g b m' c2 t0 Hb H2 Hf Hg Hgf). fold n1 n2. rewrite En. reflexivity.
Qed.

Lemma evolve_block_injective (f g : list Z -> nat -> list Z) b T h1 h2 r1 r2 : 1 <= b ->
  (forall x t, length x = b -> length (f x t) = b) -> (forall x t, length x = b -> length (g x t) = b) ->
  (forall x t, length x = b -> g (f x t) t = x) ->
  evolve_block (pure_b f) id_store b tt h1 T = Ok (tt, r1) ->
  evolve_block (pure_b f) id_store b tt h2 T = Ok (tt, r2) ->
  last r1 [] = last r2 [] -> last h1 [] = last h2 [].
Proof.
  intros Hb Hf Hg Hgf E1 E2 El.
  assert (Hrun : forall h r, evolve_block (pure_b f) id_store b tt h T = Ok (tt, r) ->
            exists m k, T = S k /\ length (last h []) = m * b /\
              last r [] = last (last h [] :: snd (iter_steps (step_block (pure_b f) id_store b) k tt (last h []) 1)) []).
  { intros h r. unfold evolve_block. destruct h as [|h0 h']; [discriminate|].
    destruct (b =? 0); [discriminate|].
    destruct (length (last (h0 :: h') []) mod b =? 0) eqn:Em; cbn [negb]; [|discriminate].
    destruct (length (last (h0 :: h') []) =? 0); [discriminate|]. unfold evolve_fixed. destruct T as [|k]; [discriminate|].
    apply Nat.eqb_eq in Em. apply Nat.mod_divides in Em; [|lia]. destruct Em as [m Em].
    destruct (iter_steps (step_block (pure_b f) id_store b) k tt (last (h0 :: h') []) 1) as [x rows] eqn:Ei.
    intros E. injection E as _ <-. exists m, k. split; [reflexivity|]. split; [rewrite Em; apply Nat.mul_comm|].
    rewrite Ei. cbn [snd]. apply (last_app_cons [] (h0 :: h') rows). discriminate. }
  destruct (Hrun h1 r1 E1) as [m [k [HT [Hl1 Hr1]]]]. destruct (Hrun h2 r2 E2) as [m' [k' [HT' [Hl2 Hr2]]]].
  assert (k' = k) by congruence. subst k'.
  apply (iter_steps_injective_1d f g b Hb Hf Hg Hgf k _ _ 1 m m' Hl1 Hl2). congruence.
Qed.

(* ---- 2D *)
Lemma step_pure2_state f b1 b2 g t : 1 <= b1 -> (forall x t, shape b1 b2 x -> shape b1 b2 (f x t)) ->
  fst (step_block2d (pure_b2 f) id_store b1 b2 (tt, false) g t) = (tt, false).
Proof.
  intros Hb Hf. rewrite step_pure_guard2.
  rewrite step_block2d_eq by (intros s x t' h w Hx; apply (guard_f2_shape b1 b2 f Hb Hf); exact Hx).
  cbn [fst]. destruct (fst (run_blocks2 _ _ _ _ _)). reflexivity.
Qed.

Lemma step_pure2_shape f b1 b2 R C g t : 1 <= b1 -> 1 <= R -> (forall x t, shape b1 b2 x -> shape b1 b2 (f x t)) ->
  shape R C g -> shape R C (snd (step_block2d (pure_b2 f) id_store b1 b2 (tt, false) g t)).
Proof.
  intros Hb HR Hf Hg. rewrite step_pure_guard2.
  assert (E1 : rows_of g = R) by (destruct Hg as [H _]; exact H).
  assert (E2 : cols_of g = C) by (apply shape_cols with (R := R); assumption).
  rewrite <- E1, <- E2. apply step_block2d_shape.
  intros s x t' h w Hx. apply (guard_f2_shape b1 b2 f Hb Hf). exact Hx.
Qed.

Lemma iter_steps_pure2_snd f b1 b2 n c t : 1 <= b1 -> (forall x t, shape b1 b2 x -> shape b1 b2 (f x t)) ->
  let step := step_block2d (pure_b2 f) id_store b1 b2 in
  iter_steps step (S n) (tt, false) c t =
  (fst (iter_steps step n (tt, false) (snd (step (tt, false) c t)) (S t)),
   snd (step (tt, false) c t) :: snd (iter_steps step n (tt, false) (snd (step (tt, false) c t)) (S t))).
Proof.
  intros Hb Hf step. cbn [iter_steps]. pose proof (step_pure2_state f b1 b2 c t Hb Hf) as Hs. fold step in Hs.
  destruct (step (tt, false) c t) as [x1 nxt]. cbn [fst snd] in *. subst x1.
  destruct (iter_steps step n (tt, false) nxt (S t)) as [x2 rest]. reflexivity.
Qed.

Lemma iter_steps_injective_2d (f g : grid2 -> nat -> grid2) b1 b2 m1 m2 :
  1 <= b1 -> 1 <= b2 -> 1 <= m1 -> 1 <= m2 ->
  (forall x t, shape b1 b2 x -> shape b1 b2 (f x t)) -> (forall x t, shape b1 b2 x -> shape b1 b2 (g x t)) ->
  (forall x t, shape b1 b2 x -> g (f x t) t = x) ->
  forall n c1 c2 t0, shape (m1 * b1) (m2 * b2) c1 -> shape (m1 * b1) (m2 * b2) c2 ->
  last (c1 :: snd (iter_steps (step_block2d (pure_b2 f) id_store b1 b2) n (tt, false) c1 t0)) [] =
  last (c2 :: snd (iter_steps (step_block2d (pure_b2 f) id_store b1 b2) n (tt, false) c2 t0)) [] -> c1 = c2.
Proof.
  intros H1 H2 Hm1 Hm2 Hf Hg Hgf. induction n as [|n IH]; intros c1 c2 t0 S1 S2 E; [exact E|].
  rewrite !(iter_steps_pure2_snd f b1 b2 n _ t0 H1 Hf) in E. cbn zeta in E. cbn [snd] in E.
  set (n1 := snd (step_block2d (pure_b2 f) id_store b1 b2 (tt, false) c1 t0)) in *.
  set (n2 := snd (step_block2d (pure_b2 f) id_store b1 b2 (tt, false) c2 t0)) in *.
  match type of E with last (c1 :: n1 :: ?l) [] = _ => change (last (c1 :: n1 :: l) []) with (last (n1 :: l) []) in E end.
  match type of E with _ = last (c2 :: n2 :: ?l) [] => change (last (c2 :: n2 :: l) []) with (last (n2 :: l) []) in E end.
  assert (HR : 1 <= m1 * b1) by (destruct m1; [lia|cbn; lia]).
  assert (En : n1 = n2).
  { apply (IH n1 n2 (S t0)); [apply step_pure2_shape; assumption|apply step_pure2_shape; assumption|exact E]. }
  rewrite <- (block_reversible_2d' f g b1 b2 m1 m2 c1 t0) by assumption.
  rewrite <- (block_reversible_2d' f g b1 b2 m1 m2 c2 t0) by assumption. fold n1 n2. rewrite En. reflexivity.
Qed.

Lemma evolve2d_block_injective (f g : grid2 -> nat -> grid2) b1 b2 m1 m2 T (h1 h2 r1 r2 : list grid2) :
  1 <= b1 -> 1 <= b2 -> 1 <= m1 -> 1 <= m2 ->
  (forall x t, shape b1 b2 x -> shape b1 b2 (f x t)) -> (forall x t, shape b1 b2 x -> shape b1 b2 (g x t)) ->
  (forall x t, shape b1 b2 x -> g (f x t) t = x) ->
  shape (m1 * b1) (m2 * b2) (last h1 []) -> shape (m1 * b1) (m2 * b2) (last h2 []) ->
  evolve2d_block (pure_b2 f) id_store b1 b2 tt h1 T = Ok (tt, r1) ->
  evolve2d_block (pure_b2 f) id_store b1 b2 tt h2 T = Ok (tt, r2) ->
  last r1 [] = last r2 [] -> last h1 [] = last h2 [].
Proof.
  intros H1 H2 Hm1 Hm2 Hf Hg Hgf S1 S2 E1 E2 El.
  assert (Hrun : forall (h r : list grid2), evolve2d_block (pure_b2 f) id_store b1 b2 tt h T = Ok (tt, r) ->
            exists k, T = S k /\
              last r [] = last (last h [] :: snd (iter_steps (step_block2d (pure_b2 f) id_store b1 b2) k (tt, false) (last h []) 1)) []).
  { intros h r. unfold evolve2d_block. destruct h as [|h0 h']; [discriminate|]. cbv zeta.
    destruct (T =? 0); [discriminate|]. destruct (_ || _); [discriminate|]. destruct (_ || _); [discriminate|].
    unfold evolve_fixed. destruct T as [|k]; [discriminate|]. unfold grid2 in *.
    match goal with |- context [@iter_steps ?X ?C ?a ?b ?c ?d ?e] =>
      destruct (@iter_steps X C a b c d e) as [[x bad] rows] eqn:Ei end.
    destruct bad; [discriminate|]. intros E. injection E as _ <-. exists k. split; [reflexivity|].
    rewrite Ei. cbn [snd]. apply (last_app_cons [] (h0 :: h') rows). discriminate. }
  destruct (Hrun h1 r1 E1) as [k [HT Hr1]]. destruct (Hrun h2 r2 E2) as [k' [HT' Hr2]].
  assert (k' = k) by congruence. subst k'.
  apply (iter_steps_injective_2d f g b1 b2 m1 m2 H1 H2 Hm1 Hm2 Hf Hg Hgf k _ _ 1 S1 S2). congruence.
Qed.

(* ---- write-back, hypotheses restricted to the block size *)
Lemma step_pure_gather' h b m cells t blk :
  1 <= b -> length cells = m * b -> (forall x t, length x = b -> length (h x t) = b) ->
  In blk (blocks_at (length cells) b t) ->
  gather (snd (step_block (pure_b h) id_store b tt cells t)) blk = h (gather cells blk) t.
Proof.
  intros Hb Hl Hh Hin. rewrite (step_pure_guard h b m cells t Hb Hl).
  rewrite step_pure_gather; [|exact Hb|apply guard_f_length; exact Hh|exact Hin].
  unfold guard_f. rewrite gather_length. rewrite Hl in Hin. rewrite (blocks_at_len b m t blk Hb Hin), Nat.eqb_refl. reflexivity.
Qed.

Lemma step_pure_gather2' h b1 b2 m1 m2 g t rc :
  1 <= b1 -> 1 <= b2 -> 1 <= m1 -> 1 <= m2 -> shape (m1 * b1) (m2 * b2) g ->
  (forall x t, shape b1 b2 x -> shape b1 b2 (h x t)) ->
  In rc (blocks2_at (m1 * b1) (m2 * b2) b1 b2 t) ->
  gather2 (snd (step_block2d (pure_b2 h) id_store b1 b2 (tt, false) g t)) rc = h (gather2 g rc) t.
Proof.
  intros H1 H2 Hm1 Hm2 Hg Hh Hin. rewrite step_pure_guard2.
  rewrite (step_pure_gather2 (guard_f2 b1 b2 h) b1 b2 m1 m2 g t rc) by (try assumption; apply guard_f2_shape; assumption).
  unfold guard_f2. destruct (blocks2_at_dims _ _ _ _ _ _ Hin) as [E1 E2].
  pose proof (gather2_shape g rc) as Hs. rewrite E1, E2 in Hs. apply shape_eqb_iff in Hs. rewrite Hs. reflexivity.
Qed.

(* a rule written for exactly two cells (it returns () for anything else) *)
Definition swap2 (x : list Z) (t : nat) : list Z := match x with [a; b] => [b; a] | _ => [] end.

Lemma swap2_props :
  (forall x t, length x = 2 -> length (swap2 x t) = 2) /\
  (forall x t, length x = 2 -> swap2 (swap2 x t) t = x) /\
  (forall (s : unit) x t, length x = 2 -> Permutation (snd (pure_b swap2 s x t)) x).
Proof.
  split; [|split]; intros; destruct x as [|a [|b [|c x]]]; try discriminate; cbn; try reflexivity. apply perm_swap.
Qed.
