(* Proofs for C12 (AsynchronousRule): the per-step invariant (lifted from notes/spikes/async_step.v and
   extended with the randomize flag and a stream of shuffle outcomes), the run-level theorems through
   Engine.iter_steps with step_plain / step_plain2d, and the permutation property of the generated order. *)
From Coq Require Import List Arith Lia Bool Permutation ZArith.
From CPL Require Import Model.Base Model.Rules Model.Engine Model.Evolve1D Model.Evolve2D Model.Async.
Import ListNotations.

(* ------------------------------------------------------------------------------------------------ *)
(* visiting a list of (cell, neighbourhood) pairs with a state-machine rule, state threaded          *)
Section RunCells.
  Variables (cell NB X : Type).
  Variable f : X -> NB -> cell -> nat -> X * Z.
  Fixpoint run_cells (t : nat) (x : X) (cells : list (cell * NB)) : X * list Z :=
    match cells with
    | [] => (x, [])
    | (c, n) :: rest =>
        let '(x1, v) := f x n c t in
        let '(x2, vs) := run_cells t x1 rest in (x2, v :: vs)
    end.

  Lemma run_cells_app t : forall l1 l2 x,
    run_cells t x (l1 ++ l2) =
    (fst (run_cells t (fst (run_cells t x l1)) l2),
     snd (run_cells t x l1) ++ snd (run_cells t (fst (run_cells t x l1)) l2)).
  Proof.
    induction l1 as [|[c n] l1 IH]; intros l2 x.
    - cbn [app run_cells fst snd]. destruct (run_cells t x l2); reflexivity.
    - cbn [app run_cells]. destruct (f x n c t) as [x1 v]. rewrite IH.
      destruct (run_cells t x1 l1) as [x2 vs]. cbn [fst snd].
      destruct (run_cells t x2 l2) as [x3 ws]. reflexivity.
  Qed.

  Lemma run_cells_length t : forall l x, length (snd (run_cells t x l)) = length l.
  Proof.
    induction l as [|[c n] l IH]; intros x; [reflexivity|].
    cbn [run_cells]. destruct (f x n c t) as [x1 v]. specialize (IH x1).
    destruct (run_cells t x1 l) as [x2 vs]. cbn [snd length] in *. rewrite IH. reflexivity.
  Qed.
End RunCells.
Arguments run_cells {cell NB X} f t x cells.

(* ------------------------------------------------------------------------------------------------ *)
(* one step of the engine over any duplicate-free visiting order                                      *)
Section AsyncStep.
  Variable cell : Type.
  Variable ceq : cell -> cell -> bool.
  Hypothesis ceq_spec : forall a b, ceq a b = true <-> a = b.
  Variable dc : cell.
  Variable NB : Type.
  Variable centre : NB -> Z.
  Variable St : Type.
  Variable inner : St -> NB -> cell -> nat -> St * Z.
  Variable sh : nat -> list cell -> list cell.          (* outcome of the i-th shuffle: ANY permutation *)
  Hypothesis sh_perm : forall i l, Permutation l (sh i l).

  Local Notation acall := (async_call cell ceq dc NB centre St inner sh).
  Local Notation mem := (cmem cell ceq).

  Definition next_order (rd : bool) (h : nat) (o : list cell) : list cell := if rd then sh h o else o.
  Definition next_nsh (rd : bool) (h : nat) : nat := if rd then S h else h.

  (* specification of one step: who gets which value, and what the wrapped rule's state becomes *)
  Definition spec_out (t : nat) (s : St) (x : cell) (cells : list (cell * NB)) : list Z :=
    map (fun cn => if ceq (fst cn) x then snd (inner s (snd cn) (fst cn) t) else centre (snd cn)) cells.
  Fixpoint spec_state (t : nat) (s : St) (x : cell) (cells : list (cell * NB)) : St :=
    match cells with
    | [] => s
    | (c, n) :: rest => if ceq c x then fst (inner s n c t) else spec_state t s x rest
    end.

  Lemma mem_In c l : mem c l = true <-> In c l.
  Proof.
    unfold cmem. rewrite existsb_exists. split.
    - intros (x & Hx & E). apply ceq_spec in E. subst. exact Hx.
    - intros H. exists c. split; [exact H|apply ceq_spec; reflexivity].
  Qed.
  Lemma mem_false c l : mem c l = false <-> ~ In c l.
  Proof. rewrite <- mem_In. destruct (mem c l); split; intros; congruence. Qed.
  Lemma ceq_false a b : ceq a b = false <-> a <> b.
  Proof. rewrite <- ceq_spec. destruct (ceq a b); split; intros; congruence. Qed.
  Lemma ceq_refl a : ceq a a = true.
  Proof. apply ceq_spec. reflexivity. Qed.

  Lemma next_order_perm rd h o : Permutation o (next_order rd h o).
  Proof. unfold next_order. destruct rd; [apply sh_perm|reflexivity]. Qed.
  Lemma next_order_length rd h o : length (next_order rd h o) = length o.
  Proof. symmetry. apply Permutation_length, next_order_perm. Qed.

  (* _check_for_end_of_cycle, both outcomes *)
  Lemma end_cycle_last o k j rd h s : j = length o ->
    end_cycle cell St sh (mkA o k j rd h s) =
    mkA (next_order rd h o) ((k + 1) mod length o) 0 rd (next_nsh rd h) s.
  Proof.
    intros E. unfold end_cycle. cbn [a_order a_curr a_napp a_rand a_nsh a_inner].
    replace (j =? length o) with true by (symmetry; apply Nat.eqb_eq; exact E).
    destruct rd; reflexivity.
  Qed.
  Lemma end_cycle_not o k j rd h s : j <> length o ->
    end_cycle cell St sh (mkA o k j rd h s) = mkA o k j rd h s.
  Proof.
    intros E. unfold end_cycle. cbn [a_order a_curr a_napp a_rand a_nsh a_inner].
    replace (j =? length o) with false by (symmetry; apply Nat.eqb_neq; exact E). reflexivity.
  Qed.

  (* __call__, by whether the cell is listed *)
  Lemma acall_listed o k j rd h s n c t : mem c o = true ->
    acall (mkA o k j rd h s) n c t =
    (let a2 := end_cycle cell St sh (mkA o k (j + 1) rd h s) in
     if ceq c (nth k o dc)
     then (mkA (a_order a2) (a_curr a2) (a_napp a2) (a_rand a2) (a_nsh a2) (fst (inner (a_inner a2) n c t)),
           snd (inner (a_inner a2) n c t))
     else (a2, centre n)).
  Proof.
    intros H. unfold async_call. cbn [a_order a_curr a_napp a_rand a_nsh a_inner]. rewrite H.
    cbn [a_order a_curr a_napp a_rand a_nsh a_inner].
    destruct (ceq c (nth k o dc)); [|reflexivity].
    destruct (inner _ n c t); reflexivity.
  Qed.
  Lemma acall_unlisted o k j rd h s n c t : mem c o = false -> k < length o ->
    acall (mkA o k j rd h s) n c t = (end_cycle cell St sh (mkA o k j rd h s), centre n).
  Proof.
    intros H Hk. unfold async_call. cbn [a_order a_curr a_napp a_rand a_nsh a_inner]. rewrite H.
    cbn [a_order a_curr a_napp a_rand a_nsh a_inner].
    replace (ceq c (nth k o dc)) with false; [reflexivity|].
    symmetry. apply ceq_false. intros E. apply mem_false in H. apply H. rewrite E. apply nth_In. exact Hk.
  Qed.

  Definition listed (o : list cell) (cells : list (cell * NB)) : nat :=
    length (filter (fun cn => mem (fst cn) o) cells).

  (* phase 2: after the end of the cycle no listed cell remains in this step *)
  Lemma phase2 t o k rd h s rest : 1 <= length o -> k < length o ->
    (forall cn, In cn rest -> ~ In (fst cn) o) ->
    run_cells acall t (mkA o k 0 rd h s) rest = (mkA o k 0 rd h s, map (fun cn => centre (snd cn)) rest).
  Proof.
    intros HL Hk. induction rest as [|[c n] rest IH]; intros Hun; [reflexivity|].
    cbn [run_cells].
    assert (Hc : mem c o = false) by (apply mem_false; apply (Hun (c, n)); left; reflexivity).
    rewrite acall_unlisted by assumption. rewrite end_cycle_not by lia.
    rewrite IH by (intros cn H; apply Hun; right; exact H). reflexivity.
  Qed.

  Lemma spec_out_unlisted t s x cells : (forall cn, In cn cells -> fst cn <> x) ->
    spec_out t s x cells = map (fun cn => centre (snd cn)) cells.
  Proof.
    intros H. unfold spec_out. apply map_ext_in. intros cn Hcn.
    replace (ceq (fst cn) x) with false by (symmetry; apply ceq_false; apply H; exact Hcn). reflexivity.
  Qed.
  Lemma spec_state_unlisted t s x cells : (forall cn, In cn cells -> fst cn <> x) -> spec_state t s x cells = s.
  Proof.
    induction cells as [|[c n] rest IH]; intros H; [reflexivity|]. cbn [spec_state].
    replace (ceq c x) with false by (symmetry; apply ceq_false; apply (H (c, n)); left; reflexivity).
    apply IH. intros cn Hcn. apply H. right; exact Hcn.
  Qed.
  Lemma spec_out_cons t s x c n rest :
    spec_out t s x ((c, n) :: rest) =
    (if ceq c x then snd (inner s n c t) else centre n) :: spec_out t s x rest.
  Proof. reflexivity. Qed.

  (* phase 1: j listed cells seen so far in this step, the remaining ones are still ahead *)
  Lemma phase1 t o k rd h : 1 <= length o -> k < length o -> NoDup o ->
    forall rest j s,
      NoDup (map fst rest) ->
      j + listed o rest = length o -> 1 <= listed o rest ->
      run_cells acall t (mkA o k j rd h s) rest =
        (mkA (next_order rd h o) ((k + 1) mod length o) 0 rd (next_nsh rd h)
             (spec_state t s (nth k o dc) rest),
         spec_out t s (nth k o dc) rest).
  Proof.
    intros HL Hk Ho. induction rest as [|[c n] rest IH]; intros j s Hnd Hj H1; [cbn in H1; lia|].
    cbn [run_cells].
    inversion Hnd as [|c0 l0 Hnotin Hnd']; subst.
    unfold listed in Hj, H1. cbn [filter fst] in Hj, H1.
    destruct (mem c o) eqn:Hc.
    - (* a listed cell *)
      cbn [length] in Hj, H1. fold (listed o rest) in Hj, H1.
      rewrite acall_listed by exact Hc.
      destruct (Nat.eq_dec (listed o rest) 0) as [Hz|Hnz].
      + (* the last listed cell of this step: the cycle ends here *)
        rewrite end_cycle_last by lia. cbn [a_order a_curr a_napp a_rand a_nsh a_inner].
        assert (Hun : forall cn, In cn rest -> ~ In (fst cn) o).
        { intros cn Hcn Hin. unfold listed in Hz.
          assert (In cn (filter (fun cn => mem (fst cn) o) rest)) as Hf
            by (apply filter_In; split; [exact Hcn|apply mem_In; exact Hin]).
          destruct (filter (fun cn => mem (fst cn) o) rest); [exact Hf|discriminate]. }
        assert (Hun' : forall cn, In cn rest -> ~ In (fst cn) (next_order rd h o)).
        { intros cn Hcn Hin. apply (Hun cn Hcn). apply Permutation_in with (l := next_order rd h o);
            [apply Permutation_sym, next_order_perm|exact Hin]. }
        assert (HL' : length (next_order rd h o) = length o) by apply next_order_length.
        assert (Hne : forall cn, In cn rest -> fst cn <> nth k o dc).
        { intros cn Hcn E. apply (Hun cn Hcn). rewrite E. apply nth_In. exact Hk. }
        destruct (ceq c (nth k o dc)) eqn:Hu.
        * rewrite phase2; [|lia|rewrite HL'; apply Nat.mod_upper_bound; lia|exact Hun'].
          rewrite spec_out_cons. cbn [spec_state]. rewrite Hu.
          rewrite spec_out_unlisted by exact Hne. reflexivity.
        * rewrite phase2; [|lia|rewrite HL'; apply Nat.mod_upper_bound; lia|exact Hun'].
          rewrite spec_out_cons. cbn [spec_state]. rewrite Hu.
          rewrite spec_out_unlisted, spec_state_unlisted by exact Hne. reflexivity.
      + (* more listed cells follow *)
        rewrite end_cycle_not by lia. cbn [a_order a_curr a_napp a_rand a_nsh a_inner].
        destruct (ceq c (nth k o dc)) eqn:Hu.
        * rewrite IH by (try exact Hnd'; lia).
          rewrite spec_out_cons. cbn [spec_state]. rewrite Hu.
          (* c is the scheduled cell; it does not occur again in rest, so rest is spec'd as unlisted *)
          apply ceq_spec in Hu.
          assert (Hne : forall cn, In cn rest -> fst cn <> nth k o dc).
          { intros cn Hcn E. apply Hnotin. rewrite Hu, <- E. apply in_map. exact Hcn. }
          rewrite !spec_out_unlisted, spec_state_unlisted by exact Hne. reflexivity.
        * rewrite IH by (try exact Hnd'; lia).
          rewrite spec_out_cons. cbn [spec_state]. rewrite Hu. reflexivity.
    - (* an unlisted cell: nothing happens *)
      fold (listed o rest) in Hj, H1.
      rewrite acall_unlisted by assumption. rewrite end_cycle_not by lia.
      assert (Hu : ceq c (nth k o dc) = false).
      { apply ceq_false. intros E. apply mem_false in Hc. apply Hc. rewrite E. apply nth_In. exact Hk. }
      rewrite IH by (try exact Hnd'; lia).
      rewrite spec_out_cons. cbn [spec_state]. rewrite Hu. reflexivity.
  Qed.

  (* every listed cell is visited exactly once: NoDup order, NoDup cells, order within cells *)
  Lemma listed_all o cells : NoDup o -> NoDup (map fst cells) -> incl o (map fst cells) ->
    listed o cells = length o.
  Proof.
    intros Ho Hc Hincl. unfold listed.
    rewrite <- (map_length fst).
    apply Nat.le_antisymm.
    - apply NoDup_incl_length.
      + clear Hincl. induction cells as [|[c n] rest IH]; [constructor|].
        inversion Hc as [|? ? Hn Hc']; subst. cbn [filter fst].
        destruct (mem c o); [|apply IH; exact Hc'].
        cbn [map fst]. constructor; [|apply IH; exact Hc'].
        intros Hin. apply Hn. apply in_map_iff in Hin as ([c' n'] & E & Hf). cbn in E. subst c'.
        apply filter_In in Hf as [Hf _]. apply in_map_iff. exists (c, n'). split; [reflexivity|exact Hf].
      + intros x Hx. apply in_map_iff in Hx as (cn & E & Hf). apply filter_In in Hf as [_ Hm].
        apply mem_In in Hm. subst x. exact Hm.
    - apply NoDup_incl_length; [exact Ho|].
      intros x Hx. specialize (Hincl x Hx). apply in_map_iff in Hincl as (cn & E & Hcn).
      apply in_map_iff. exists cn. split; [exact E|]. apply filter_In. split; [exact Hcn|].
      apply mem_In. rewrite E. exact Hx.
  Qed.

  (* THE STEP THEOREM.  A step entered with num_applied = 0 and curr = k, visiting `cells` (any
     duplicate-free order containing every listed cell), gives every cell the wrapped rule's value if it
     is order[k] and its centre state otherwise; the wrapped rule's state advances by exactly one call
     (spec_state: the call on order[k] with its neighbourhood, its identity and t); the object leaves
     the step with num_applied = 0, curr = (k+1) mod L and (randomize) the next shuffle installed. *)
  Theorem async_step t o k rd h s cells :
    1 <= length o -> k < length o -> NoDup o -> NoDup (map fst cells) -> incl o (map fst cells) ->
    run_cells acall t (mkA o k 0 rd h s) cells =
      (mkA (next_order rd h o) ((k + 1) mod length o) 0 rd (next_nsh rd h)
           (spec_state t s (nth k o dc) cells),
       spec_out t s (nth k o dc) cells).
  Proof.
    intros HL Hk Ho Hc Hincl. apply phase1; try assumption.
    - rewrite listed_all by assumption. reflexivity.
    - rewrite listed_all by assumption. exact HL.
  Qed.

  (* the wrapped rule is called exactly once: on the scheduled cell, with that cell's neighbourhood *)
  Lemma spec_state_in t s x n cells : NoDup (map fst cells) -> In (x, n) cells ->
    spec_state t s x cells = fst (inner s n x t).
  Proof.
    induction cells as [|[c m] rest IH]; intros Hnd Hin; [destruct Hin|].
    inversion Hnd as [|? ? Hnotin Hnd']; subst. cbn [spec_state].
    destruct Hin as [E|Hin].
    - inversion E; subst. rewrite ceq_refl. reflexivity.
    - replace (ceq c x) with false; [apply IH; assumption|].
      symmetry. apply ceq_false. intros E. subst c. apply Hnotin.
      apply in_map_iff. exists (x, n). split; [reflexivity|exact Hin].
  Qed.
End AsyncStep.

(* ------------------------------------------------------------------------------------------------ *)
(* run level: through Engine.iter_steps, for any engine whose step visits the cells once each        *)
Definition glogged {cell NB S} (f : S -> NB -> cell -> nat -> S * Z)
  : (S * list (NB * cell * nat)) -> NB -> cell -> nat -> (S * list (NB * cell * nat)) * Z :=
  fun st n c t => let '(s, lg) := st in let '(s', v) := f s n c t in ((s', lg ++ [(n, c, t)]), v).

Section AsyncRun.
  Variable cell : Type.
  Variable ceq : cell -> cell -> bool.
  Hypothesis ceq_spec : forall a b, ceq a b = true <-> a = b.
  Variable dc : cell.
  Variable NB : Type.
  Variable St : Type.
  Variable inner : St -> NB -> cell -> nat -> St * Z.
  Variable sh : nat -> list cell -> list cell.
  Hypothesis sh_perm : forall i l, Permutation l (sh i l).
  Variable C : Type.
  Variable Good : C -> Prop.                    (* shape and dtype invariant of a configuration *)
  Variable all : list cell.                     (* the cells of a Good configuration *)
  Variable nbof : C -> cell -> NB.
  Variable upd : C -> cell -> Z -> C.
  Variable valof : C -> cell -> Z.
  Variable store : Z -> Z.
  Variable step : astate cell St -> C -> nat -> astate cell St * C.

  Local Notation sstep := (seq_step cell dc NB St inner sh C nbof upd store).
  Local Notation trace := (sched_trace cell dc sh).

  (* what the instances (1D: step_plain, 2D: step_plain2d) establish from async_step *)
  Hypothesis step_spec : forall o k rd h s cur t,
    Good cur -> 1 <= length o -> k < length o -> NoDup o -> incl o all ->
    step (mkA o k 0 rd h s) cur t = sstep (mkA o k 0 rd h s) cur t.
  Hypothesis upd_good : forall cur x v, Good cur -> In x all -> Good (upd cur x (store v)).
  Hypothesis valof_upd : forall cur x v c, Good cur -> In x all -> In c all ->
    valof (upd cur x v) c = if ceq c x then v else valof cur c.

  (* the object between two steps *)
  Definition AInv (a : astate cell St) : Prop :=
    a_napp a = 0 /\ 1 <= length (a_order a) /\ a_curr a < length (a_order a) /\
    NoDup (a_order a) /\ incl (a_order a) all.

  Lemma sstep_inv a cur t : AInv a -> Good cur ->
    AInv (fst (sstep a cur t)) /\ Good (snd (sstep a cur t)).
  Proof.
    intros (Hn & HL & Hk & Hnd & Hin) Hg. unfold seq_step.
    destruct (inner (a_inner a) (nbof cur (nth (a_curr a) (a_order a) dc)) (nth (a_curr a) (a_order a) dc) t) as [s' v].
    cbn [fst snd]. split.
    - unfold AInv. cbn [a_order a_curr a_napp].
      assert (P : Permutation (a_order a) (if a_rand a then sh (a_nsh a) (a_order a) else a_order a))
        by (destruct (a_rand a); [apply sh_perm|reflexivity]).
      rewrite <- (Permutation_length P).
      split; [reflexivity|]. split; [exact HL|]. split; [apply Nat.mod_upper_bound; lia|].
      split; [eapply Permutation_NoDup; eassumption|].
      intros x Hx. apply Hin. eapply Permutation_in; [apply Permutation_sym; exact P|exact Hx].
    - apply upd_good; [exact Hg|]. apply Hin. apply nth_In. exact Hk.
  Qed.

  (* ASYNC_RUN, equational form: evolving with the AsynchronousRule object IS the sequential automaton
     seq_step (one scheduled cell rewritten per step, one call of the wrapped rule per step), for any
     number of steps, any start step number, randomized or not, any shuffle outcomes. *)
  Theorem async_iter : forall n a cur t, AInv a -> Good cur ->
    iter_steps step n a cur t = iter_steps sstep n a cur t.
  Proof.
    induction n as [|n IH]; intros a cur t Ha Hg; [reflexivity|].
    cbn [iter_steps].
    assert (E : step a cur t = sstep a cur t).
    { destruct Ha as (Hn & HL & Hk & Hnd & Hin). destruct a as [o k j rd h s]. cbn in Hn. subst j.
      apply step_spec; assumption. }
    rewrite E. destruct (sstep_inv a cur t Ha Hg) as [Ha1 Hg1].
    destruct (sstep a cur t) as [a1 nxt]. cbn [fst snd] in Ha1, Hg1.
    rewrite (IH a1 nxt (S t) Ha1 Hg1). reflexivity.
  Qed.

  Lemma iter_length {X} (stp : X -> C -> nat -> X * C) : forall n x cur t,
    length (snd (iter_steps stp n x cur t)) = n.
  Proof.
    induction n as [|n IH]; intros x cur t; [reflexivity|]. cbn [iter_steps].
    destruct (stp x cur t) as [x1 nxt]. specialize (IH x1 nxt (S t)).
    destruct (iter_steps stp n x1 nxt (S t)) as [x2 rest]. cbn [snd length] in *. rewrite IH. reflexivity.
  Qed.

  Lemma trace_length rd : forall n o k h, length (trace n rd o k h) = n.
  Proof. induction n as [|n IH]; intros o k h; [reflexivity|]. cbn [sched_trace length]. rewrite IH. reflexivity. Qed.

  (* every scheduled cell is a listed cell *)
  Lemma trace_in rd : forall n o k h i, 1 <= length o -> k < length o -> i < n ->
    In (nth i (trace n rd o k h) dc) o.
  Proof.
    induction n as [|n IH]; intros o k h i HL Hk Hi; [lia|]. cbn [sched_trace].
    destruct i as [|i]; cbn [nth]; [apply nth_In; exact Hk|].
    assert (P : Permutation o (if rd then sh h o else o)) by (destruct rd; [apply sh_perm|reflexivity]).
    eapply Permutation_in; [apply Permutation_sym; exact P|].
    apply IH; rewrite <- ?(Permutation_length P); [exact HL|apply Nat.mod_upper_bound; lia|lia].
  Qed.

  (* not randomized: the schedule is the order itself, cyclically *)
  Lemma trace_cyclic : forall n o k h i, 1 <= length o -> k < length o -> i < n ->
    nth i (trace n false o k h) dc = nth ((k + i) mod length o) o dc.
  Proof.
    induction n as [|n IH]; intros o k h i HL Hk Hi; [lia|]. cbn [sched_trace].
    destruct i as [|i]; cbn [nth].
    - rewrite Nat.add_0_r, Nat.mod_small by exact Hk. reflexivity.
    - rewrite IH; [|exact HL|apply Nat.mod_upper_bound; lia|lia].
      f_equal. rewrite Nat.add_mod_idemp_l by lia. f_equal. lia.
  Qed.

  (* ASYNC_RUN, frame form: in the i-th step (0-based) no cell other than the scheduled one changes *)
  Theorem seq_frame : forall n a cur t d, AInv a -> Good cur ->
    forall i c, i < n -> In c all ->
      c <> nth i (trace n (a_rand a) (a_order a) (a_curr a) (a_nsh a)) dc ->
      valof (nth (S i) (cur :: snd (iter_steps sstep n a cur t)) d) c =
      valof (nth i (cur :: snd (iter_steps sstep n a cur t)) d) c.
  Proof.
    induction n as [|n IH]; intros a cur t d Ha Hg i c Hi Hc Hne; [lia|].
    cbn [iter_steps].
    destruct (sstep_inv a cur t Ha Hg) as [Ha1 Hg1].
    destruct (sstep a cur t) as [a1 nxt] eqn:E. cbn [fst snd] in Ha1, Hg1.
    specialize (IH a1 nxt (S t) d Ha1 Hg1).
    destruct (iter_steps sstep n a1 nxt (S t)) as [x2 rest]. cbn [snd] in *.
    unfold seq_step in E. destruct (inner (a_inner a) _ _ t) as [s' v]. inversion E; subst a1 nxt; clear E.
    cbn [a_rand a_order a_curr a_nsh] in IH.
    cbn [sched_trace] in Hne.
    destruct i as [|i].
    - cbn [nth] in *. destruct Ha as (_ & _ & Hk & _ & Hin).
      rewrite valof_upd; [|exact Hg|apply Hin, nth_In, Hk|exact Hc].
      destruct (ceq c (nth (a_curr a) (a_order a) dc)) eqn:E; [|reflexivity].
      apply ceq_spec in E. contradiction.
    - cbn [nth] in Hne |- *. apply IH; [lia|exact Hc|exact Hne].
  Qed.

  (* the scheduled cell takes the wrapped rule's value *)
  Theorem seq_value : forall a cur t, AInv a -> Good cur ->
    let x := nth (a_curr a) (a_order a) dc in
    valof (snd (sstep a cur t)) x = store (snd (inner (a_inner a) (nbof cur x) x t)).
  Proof.
    intros a cur t (_ & _ & Hk & _ & Hin) Hg x. unfold seq_step. fold x.
    destruct (inner (a_inner a) (nbof cur x) x t) as [s' v]. cbn [snd].
    assert (Hx : In x all) by (apply Hin, nth_In, Hk).
    rewrite valof_upd by assumption.
    replace (ceq x x) with true by (symmetry; apply ceq_spec; reflexivity). reflexivity.
  Qed.
End AsyncRun.

(* the log of a logged wrapped rule: exactly one entry per step, the scheduled cell with its
   neighbourhood in the configuration of that step and the step number *)
Section AsyncLog.
  Variables (cell NB St C : Type) (dc : cell).
  Variable f : St -> NB -> cell -> nat -> St * Z.
  Variable sh : nat -> list cell -> list cell.
  Variable nbof : C -> cell -> NB.
  Variable upd : C -> cell -> Z -> C.
  Variable store : Z -> Z.
  Fixpoint calls_of (tr : list cell) (confs : list C) (t : nat) : list (NB * cell * nat) :=
    match tr, confs with
    | x :: tr', c :: cs => (nbof c x, x, t) :: calls_of tr' cs (S t)
    | _, _ => []
    end.
  Local Notation lstep := (seq_step cell dc NB (St * list (NB * cell * nat)) (glogged f) sh C nbof upd store).

  Theorem seq_log : forall n o k j rd h s lg cur t,
    snd (a_inner (fst (iter_steps lstep n (mkA o k j rd h (s, lg)) cur t))) =
    lg ++ calls_of (sched_trace cell dc sh n rd o k h)
                   (cur :: snd (iter_steps lstep n (mkA o k j rd h (s, lg)) cur t)) t.
  Proof.
    induction n as [|n IH]; intros o k j rd h s lg cur t.
    - cbn. rewrite app_nil_r. reflexivity.
    - cbn [iter_steps sched_trace]. unfold seq_step at 1 3. cbn [a_order a_curr a_napp a_rand a_nsh a_inner].
      unfold glogged at 1 3. destruct (f s (nbof cur (nth k o dc)) (nth k o dc) t) as [s' v].
      specialize (IH (if rd then sh h o else o) ((k + 1) mod length o) 0 rd (if rd then S h else h) s'
                     (lg ++ [(nbof cur (nth k o dc), nth k o dc, t)]) (upd cur (nth k o dc) (store v)) (S t)).
      destruct (iter_steps lstep n _ _ (S t)) as [x2 rest]. cbn [fst snd] in *.
      rewrite IH. cbn [calls_of]. rewrite <- app_assoc. reflexivity.
  Qed.

  Lemma calls_of_length : forall tr confs t, length tr <= length confs -> length (calls_of tr confs t) = length tr.
  Proof.
    induction tr as [|x tr IH]; intros confs t H; [reflexivity|].
    destruct confs as [|c cs]; [cbn in H; lia|]. cbn [calls_of length] in *. rewrite IH by lia. reflexivity.
  Qed.
End AsyncLog.

(* ------------------------------------------------------------------------------------------------ *)
(* list facts used by the two instances                                                              *)
From Coq Require Import ZifyBool ZifyNat.
Ltac Zify.zify_post_hook ::= Z.div_mod_to_equations.

Lemma nth_map_lt {A B} (f : A -> B) l n d d' : n < length l -> nth n (map f l) d' = f (nth n l d).
Proof. intros H. rewrite (nth_indep _ d' (f d)) by (rewrite map_length; exact H). apply map_nth. Qed.
Lemma nth_map_seq0 {A} (f : nat -> A) n c d : c < n -> nth c (map f (seq 0 n)) d = f c.
Proof. intros H. rewrite (nth_map_lt f _ c 0) by (rewrite seq_length; exact H). rewrite seq_nth by exact H. reflexivity. Qed.
Lemma nth_firstn_lt' {A} (l : list A) : forall k w d, k < w -> nth k (firstn w l) d = nth k l d.
Proof.
  induction l as [|a l IH]; intros k w d H; [rewrite firstn_nil; reflexivity|].
  destruct w as [|w]; [lia|]. destruct k as [|k]; [reflexivity|]. cbn [firstn nth]. apply IH. lia.
Qed.
Lemma nth_skipn' {A} (l : list A) : forall c k d, nth k (skipn c l) d = nth (c + k) l d.
Proof.
  induction l as [|a l IH]; intros c k d.
  - rewrite skipn_nil. destruct k, c; reflexivity.
  - destruct c as [|c]; [reflexivity|]. cbn [skipn Nat.add nth]. apply IH.
Qed.
Lemma combine_seq_nth {A} (d : A) : forall l c,
  combine (seq c (length l)) l = map (fun i => (i, nth (i - c) l d)) (seq c (length l)).
Proof.
  induction l as [|a l IH]; intros c; [reflexivity|].
  cbn [length seq combine map]. rewrite Nat.sub_diag. cbn [nth]. f_equal.
  rewrite IH. apply map_ext_in. intros i Hi. apply in_seq in Hi.
  replace (i - c) with (S (i - S c)) by lia. reflexivity.
Qed.
Lemma flat_map_ext_in' {A B} (f g : A -> list B) l : (forall a, In a l -> f a = g a) -> flat_map f l = flat_map g l.
Proof.
  induction l as [|a l IH]; intros H; [reflexivity|]. cbn [flat_map].
  rewrite (H a) by (left; reflexivity). rewrite IH; [reflexivity|]. intros b Hb. apply H. right; exact Hb.
Qed.
Lemma app_inj_len {A} : forall (a b x y : list A), length a = length b -> a ++ x = b ++ y -> a = b /\ x = y.
Proof.
  induction a as [|u a IH]; intros [|v b] x y L E; cbn in L; try discriminate.
  - split; [reflexivity|exact E].
  - cbn [app] in E. inversion E as [[E1 E2]]. destruct (IH b x y) as [-> ->]; [lia|exact E2|]. split; reflexivity.
Qed.
Lemma concat_inj_len {A} (n : nat) : forall (l1 l2 : list (list A)),
  length l1 = length l2 -> Forall (fun r => length r = n) l1 -> Forall (fun r => length r = n) l2 ->
  concat l1 = concat l2 -> l1 = l2.
Proof.
  induction l1 as [|a l1 IH]; intros [|b l2] L F1 F2 E; cbn in L; try discriminate; [reflexivity|].
  inversion F1 as [|? ? Ha F1']; inversion F2 as [|? ? Hb F2']; subst. cbn [concat] in E.
  apply app_inj_len in E; [|congruence]. destruct E as [-> E]. f_equal. apply IH; try assumption. lia.
Qed.

(* ------------------------------------------------------------------------------------------------ *)
(* 1D: cpl.evolve with memoize=False (Evolve1D.step_plain)                                            *)
Lemma apply_all_run {X} (rule : rule1 X) store t : forall nbs s c,
  apply_all rule store s c nbs t =
  (fst (run_cells rule t s (combine (seq c (length nbs)) nbs)),
   map store (snd (run_cells rule t s (combine (seq c (length nbs)) nbs)))).
Proof.
  induction nbs as [|n nbs IH]; intros s c; [reflexivity|].
  cbn [apply_all length seq combine run_cells]. destruct (rule s n c t) as [s1 v].
  rewrite IH. destruct (run_cells rule t s1 _) as [s2 vs]. reflexivity.
Qed.

Lemma ext_idx_parts N r : 1 <= r <= N ->
  ext_idx N r = skipn (N - r) (seq 0 N) ++ seq 0 N ++ firstn r (seq 0 N).
Proof.
  intros H. unfold ext_idx, py_last. rewrite seq_length.
  replace (r =? 0) with false by (symmetry; apply Nat.eqb_neq; lia).
  replace (N <? r) with false by (symmetry; apply Nat.ltb_ge; lia). reflexivity.
Qed.
Lemma ext_idx_len N r : 1 <= r <= N -> length (ext_idx N r) = N + 2 * r.
Proof.
  intros H. rewrite ext_idx_parts by exact H.
  rewrite !app_length, skipn_length, firstn_length, !seq_length. lia.
Qed.
Lemma nbhds_length cells r : 1 <= r <= length cells -> length (neighbourhoods cells r) = length cells.
Proof.
  intros H. unfold neighbourhoods, index_strides, windows. rewrite !map_length, seq_length, ext_idx_len by exact H. lia.
Qed.
(* the centre of the c-th window is cell c *)
Lemma nbhds_centre cells r c : 1 <= r <= length cells -> c < length cells ->
  centre1 (nth c (neighbourhoods cells r) []) = nth c cells 0%Z.
Proof.
  intros H Hc.
  unfold neighbourhoods, index_strides, windows.
  assert (Hcnt : length (ext_idx (length cells) r) - (2 * r + 1) + 1 = length cells) by (rewrite ext_idx_len by exact H; lia).
  rewrite Hcnt.
  rewrite (nth_map_lt _ _ c []) by (rewrite map_length, seq_length; exact Hc).
  rewrite nth_map_seq0 by exact Hc.
  unfold centre1. rewrite map_length, firstn_length, skipn_length, ext_idx_len by exact H.
  replace (Nat.min (2 * r + 1) (length cells + 2 * r - c) / 2) with r by lia.
  rewrite (nth_map_lt _ _ r 0) by (rewrite firstn_length, skipn_length, ext_idx_len by exact H; lia).
  f_equal. rewrite nth_firstn_lt' by lia. rewrite nth_skipn'.
  rewrite ext_idx_parts by exact H.
  rewrite app_nth2 by (rewrite skipn_length, seq_length; lia).
  rewrite skipn_length, seq_length.
  rewrite app_nth1 by (rewrite seq_length; lia).
  rewrite seq_nth by lia. lia.
Qed.

Section Async1D.
  Variable St : Type.
  Variable inner : rule1 St.
  Variable sh : nat -> list nat -> list nat.
  Hypothesis sh_perm : forall i l, Permutation l (sh i l).
  Variable store : Z -> Z.
  Hypothesis store_idem : forall z, store (store z) = store z.
  Variables N r : nat.
  Hypothesis Hr : 1 <= r <= N.

  (* a row of the automaton: N cells, each a value of the automaton's dtype *)
  Definition good1 (cells : list Z) : Prop := length cells = N /\ Forall (fun z => store z = z) cells.

  Lemma step1_spec o k rd h s cells t :
    good1 cells -> 1 <= length o -> k < length o -> NoDup o -> incl o (seq 0 N) ->
    step_plain (async_rule1 inner sh) store r (mkA o k 0 rd h s) cells t =
    seq_step1 inner sh store r (mkA o k 0 rd h s) cells t.
  Proof.
    intros [HN Hfix] HL Hk Hnd Hin. unfold step_plain. rewrite apply_all_run.
    assert (Hlen : length (neighbourhoods cells r) = N) by (rewrite nbhds_length; lia).
    rewrite (combine_seq_nth []). rewrite Hlen.
    set (cs := map (fun i => (i, nth (i - 0) (neighbourhoods cells r) [])) (seq 0 N)).
    assert (Hfst : map fst cs = seq 0 N).
    { unfold cs. rewrite map_map. cbn [fst]. apply map_id. }
    unfold async_rule1.
    rewrite (async_step nat Nat.eqb Nat.eqb_eq 0 (list Z) centre1 St inner sh sh_perm t o k rd h s cs);
      [|exact HL|exact Hk|exact Hnd|rewrite Hfst; apply seq_NoDup|rewrite Hfst; exact Hin].
    cbn [fst snd].
    set (x := nth k o 0).
    assert (Hx : x < N) by (apply (in_seq N 0 x), Hin, nth_In, Hk).
    rewrite (spec_state_in nat Nat.eqb Nat.eqb_eq (list Z) St inner t s x (nth x (neighbourhoods cells r) []) cs);
      [|rewrite Hfst; apply seq_NoDup
       |unfold cs; apply in_map_iff; exists x; split; [rewrite Nat.sub_0_r; reflexivity|apply in_seq; lia]].
    unfold seq_step1, seq_step. cbn [a_order a_curr a_napp a_rand a_nsh a_inner]. fold x.
    unfold nbof1. destruct (inner s (nth x (neighbourhoods cells r) []) x t) as [s' v] eqn:Ei.
    cbn [fst]. unfold next_order, next_nsh. f_equal.
    unfold spec_out, upd1, cs. rewrite !map_map, HN. apply map_ext_in. intros c Hc. apply in_seq in Hc.
    cbn [fst snd]. rewrite Nat.sub_0_r. destruct (c =? x) eqn:Ec.
    - apply Nat.eqb_eq in Ec. subst c. rewrite Ei. reflexivity.
    - rewrite nbhds_centre by lia. rewrite Forall_forall in Hfix. apply Hfix. apply nth_In. lia.
  Qed.

  Lemma upd1_good cells x v : good1 cells -> In x (seq 0 N) -> good1 (upd1 cells x (store v)).
  Proof.
    intros [HN Hfix] Hx. split.
    - unfold upd1. rewrite map_length, seq_length. exact HN.
    - unfold upd1. apply Forall_forall. intros z Hz. apply in_map_iff in Hz as (c & E & Hc). apply in_seq in Hc.
      destruct (c =? x); subst z; [apply store_idem|].
      rewrite Forall_forall in Hfix. apply Hfix. apply nth_In. lia.
  Qed.

  Lemma valof_upd1 cells x v c : good1 cells -> In x (seq 0 N) -> In c (seq 0 N) ->
    nth c (upd1 cells x v) 0%Z = if c =? x then v else nth c cells 0%Z.
  Proof.
    intros [HN _] _ Hc. apply in_seq in Hc. unfold upd1. rewrite HN. rewrite nth_map_seq0 by lia. reflexivity.
  Qed.

  Definition ainv1 := AInv nat St (seq 0 N).

  (* cpl.evolve(..., AsynchronousRule(inner, order), r) IS the sequential automaton *)
  Theorem async_run_1d : forall n a cells t, ainv1 a -> good1 cells ->
    iter_steps (step_plain (async_rule1 inner sh) store r) n a cells t =
    iter_steps (seq_step1 inner sh store r) n a cells t.
  Proof.
    intros n a cells t Ha Hg.
    apply (async_iter nat 0 (list Z) St inner sh sh_perm (list Z) good1 (seq 0 N) (nbof1 r) upd1 store
             (step_plain (async_rule1 inner sh) store r)); try assumption.
    - intros; apply step1_spec; assumption.
    - intros; apply upd1_good; assumption.
  Qed.

  Theorem async_frame_1d : forall n a cells t d, ainv1 a -> good1 cells ->
    forall i c, i < n -> c < N ->
      c <> nth i (sched_trace nat 0 sh n (a_rand a) (a_order a) (a_curr a) (a_nsh a)) 0 ->
      nth c (nth (S i) (cells :: snd (iter_steps (step_plain (async_rule1 inner sh) store r) n a cells t)) d) 0%Z =
      nth c (nth i (cells :: snd (iter_steps (step_plain (async_rule1 inner sh) store r) n a cells t)) d) 0%Z.
  Proof.
    intros n a cells t d Ha Hg i c Hi Hc Hne. rewrite async_run_1d by assumption.
    apply (seq_frame nat Nat.eqb Nat.eqb_eq 0 (list Z) St inner sh sh_perm (list Z) good1 (seq 0 N) (nbof1 r) upd1
             (fun cells c => nth c cells 0%Z) store); try assumption.
    - intros; apply upd1_good; assumption.
    - intros; apply valof_upd1; assumption.
    - apply in_seq. lia.
  Qed.
End Async1D.

(* ------------------------------------------------------------------------------------------------ *)
(* 2D: cpl.evolve2d with memoize=False (Evolve2D.step_plain2d)                                        *)
Lemma pair_eqb_spec (a b : nat * nat) : pair_eqb a b = true <-> a = b.
Proof.
  destruct a as [a1 a2], b as [b1 b2]. unfold pair_eqb. cbn [fst snd].
  rewrite andb_true_iff, !Nat.eqb_eq. split; [intros [-> ->]; reflexivity|intros E; inversion E; split; reflexivity].
Qed.

Lemma map_flat_map {A B D} (f : B -> D) (g : A -> list B) l :
  map f (flat_map g l) = flat_map (fun x => map f (g x)) l.
Proof. induction l as [|a l IH]; [reflexivity|]. cbn [flat_map]. rewrite map_app, IH. reflexivity. Qed.

Lemma NoDup_app' {A} (l m : list A) : NoDup l -> NoDup m -> (forall x, In x l -> ~ In x m) -> NoDup (l ++ m).
Proof.
  induction l as [|a l IH]; intros Hl Hm H; [exact Hm|]. inversion Hl as [|? ? Ha Hl']; subst.
  cbn [app]. constructor.
  - intros Hin. apply in_app_or in Hin as [Hin|Hin]; [contradiction|]. apply (H a); [left; reflexivity|exact Hin].
  - apply IH; [exact Hl'|exact Hm|]. intros x Hx. apply H. right; exact Hx.
Qed.

Lemma init_order2_In R C i j : In (i, j) (init_order2 R C) <-> i < R /\ j < C.
Proof.
  unfold init_order2. rewrite in_flat_map. split.
  - intros (a & Ha & Hin). apply in_map_iff in Hin as (b & E & Hb). inversion E; subst.
    apply in_seq in Ha. apply in_seq in Hb. lia.
  - intros [Hi Hj]. exists i. split; [apply in_seq; lia|]. apply in_map_iff. exists j. split; [reflexivity|apply in_seq; lia].
Qed.
Lemma init_order2_NoDup R C : NoDup (init_order2 R C).
Proof.
  unfold init_order2. generalize (seq_NoDup R 0). generalize (seq 0 R) as rows.
  induction rows as [|a rows IH]; intros Hnd; [constructor|]. inversion Hnd as [|? ? Ha Hnd']; subst.
  cbn [flat_map]. apply NoDup_app'.
  - apply FinFun.Injective_map_NoDup; [|apply seq_NoDup]. intros x y E. inversion E; reflexivity.
  - apply IH; exact Hnd'.
  - intros [i j] H1 H2. apply in_map_iff in H1 as (b & E & _). inversion E; subst.
    apply in_flat_map in H2 as (a' & Ha' & H2). apply in_map_iff in H2 as (b' & E' & _). inversion E'; subst. contradiction.
Qed.

Definition wfg (R C : nat) (g : grid) : Prop := length g = R /\ Forall (fun row => length row = C) g.

Lemma wfg_rows R C g : wfg R C g -> grid_rows g = R.
Proof. intros [H _]; exact H. Qed.
Lemma wfg_cols R C g : 1 <= R -> wfg R C g -> grid_cols g = C.
Proof.
  intros HR [H F]. unfold grid_cols. destruct g as [|a g]; [cbn in H; lia|]. inversion F; subst. reflexivity.
Qed.
Lemma wfg_row_len R C g i : wfg R C g -> i < R -> length (nth i g []) = C.
Proof. intros [H F] Hi. rewrite Forall_forall in F. apply F. apply nth_In. lia. Qed.

Lemma axis_len n x r : length (axis_indices n x r) = 2 * r + 1.
Proof. unfold axis_indices. rewrite map_length, seq_length. reflexivity. Qed.
Lemma axis_centre n x r : x < n -> nth r (axis_indices n x r) 0%Z = Z.of_nat x.
Proof.
  intros H. unfold axis_indices. rewrite nth_map_seq0 by lia. cbv zeta.
  destruct (Z.ltb_spec (Z.of_nat n - 1) (Z.of_nat x - Z.of_nat r + Z.of_nat r)); lia.
Qed.
Lemma get_axis_nat {A} (d : A) l x : x < length l -> get_axis d l (Z.of_nat x) = nth x l d.
Proof.
  intros H. unfold get_axis, py_index.
  replace ((0 <=? Z.of_nat x)%Z && (Z.of_nat x <? Z.of_nat (length l))%Z) with true by lia.
  rewrite Nat2Z.id. reflexivity.
Qed.

(* the centre of the neighbourhood of (row, col) is cell (row, col) *)
Lemma centre2_nb g R C r row col ty : wfg R C g -> row < R -> col < C ->
  centre2 (get_neighbourhood g R C r row col ty) = nth col (nth row g []) 0%Z.
Proof.
  intros Hw Hrow Hcol. unfold centre2, get_neighbourhood. cbn [nb_vals]. unfold ix_gather.
  rewrite map_length, axis_len.
  assert (Hhd : length (hd [] (map (fun i => map (fun j => get_axis 0%Z (get_axis [] g i) j) (axis_indices C col r))
                                   (axis_indices R row r))) = 2 * r + 1).
  { pose proof (axis_len R row r) as L. destruct (axis_indices R row r) as [|a l]; [cbn in L; lia|].
    cbn [map hd]. rewrite map_length, axis_len. reflexivity. }
  rewrite Hhd. replace ((2 * r + 1) / 2) with r by lia.
  rewrite (nth_map_lt _ _ r 0%Z) by (rewrite axis_len; lia).
  rewrite (nth_map_lt _ _ r 0%Z) by (rewrite axis_len; lia).
  rewrite !axis_centre by assumption.
  rewrite (get_axis_nat [] g row) by (destruct Hw as [Hw _]; lia).
  rewrite get_axis_nat by (rewrite (wfg_row_len R C) by assumption; exact Hcol). reflexivity.
Qed.

Lemma apply_cols_run {X} (rule : rule2 X) store g R C r ty row t : forall cols s,
  apply_cols rule store s g R C r ty row cols t =
  (fst (run_cells rule t s (map (fun col => ((row, col), get_neighbourhood g R C r row col ty)) cols)),
   map store (snd (run_cells rule t s (map (fun col => ((row, col), get_neighbourhood g R C r row col ty)) cols)))).
Proof.
  induction cols as [|col cols IH]; intros s; [reflexivity|].
  cbn [apply_cols map run_cells]. destruct (rule s _ (row, col) t) as [s1 v].
  rewrite IH. destruct (run_cells rule t s1 _) as [s2 vs]. reflexivity.
Qed.

Definition cellsnb (g : grid) (R C r : nat) (ty : nbhd_type) (rows : list nat) : list ((nat * nat) * nbhd2) :=
  flat_map (fun row => map (fun col => ((row, col), get_neighbourhood g R C r row col ty)) (seq 0 C)) rows.

Lemma apply_rows_run {X} (rule : rule2 X) store g R C r ty t : forall rows s,
  fst (apply_rows rule store s g R C r ty rows t) = fst (run_cells rule t s (cellsnb g R C r ty rows)) /\
  concat (snd (apply_rows rule store s g R C r ty rows t)) = map store (snd (run_cells rule t s (cellsnb g R C r ty rows))) /\
  length (snd (apply_rows rule store s g R C r ty rows t)) = length rows /\
  Forall (fun row => length row = C) (snd (apply_rows rule store s g R C r ty rows t)).
Proof.
  induction rows as [|row rows IH]; intros s.
  - cbn. repeat split; constructor.
  - cbn [apply_rows]. rewrite apply_cols_run.
    unfold cellsnb. cbn [flat_map]. fold (cellsnb g R C r ty rows).
    set (rc := map (fun col => ((row, col), get_neighbourhood g R C r row col ty)) (seq 0 C)).
    rewrite run_cells_app. cbn [fst snd].
    specialize (IH (fst (run_cells rule t s rc))).
    destruct (apply_rows rule store (fst (run_cells rule t s rc)) g R C r ty rows t) as [s2 rest].
    cbn [fst snd] in *. destruct IH as (I1 & I2 & I3 & I4).
    split; [exact I1|]. split; [cbn [concat]; rewrite map_app, I2; reflexivity|].
    split; [cbn [length]; rewrite I3; reflexivity|].
    constructor; [|exact I4]. rewrite map_length, run_cells_length. unfold rc. rewrite map_length, seq_length. reflexivity.
Qed.

Section Async2D.
  Variable St : Type.
  Variable inner : rule2 St.
  Variable sh : nat -> list (nat * nat) -> list (nat * nat).
  Hypothesis sh_perm : forall i l, Permutation l (sh i l).
  Variable store : Z -> Z.
  Hypothesis store_idem : forall z, store (store z) = store z.
  Variables R C r : nat.
  Variable ty : nbhd_type.
  Hypothesis HR : 1 <= R.

  Definition good2 (g : grid) : Prop := wfg R C g /\ Forall (Forall (fun z => store z = z)) g.

  Lemma good2_fix g i j : good2 g -> i < R -> j < C -> store (nth j (nth i g []) 0%Z) = nth j (nth i g []) 0%Z.
  Proof.
    intros [Hw Hf] Hi Hj. rewrite Forall_forall in Hf.
    assert (Hrow : In (nth i g []) g) by (apply nth_In; destruct Hw as [Hw _]; lia).
    specialize (Hf _ Hrow). rewrite Forall_forall in Hf. apply Hf. apply nth_In.
    rewrite (wfg_row_len R C) by assumption. exact Hj.
  Qed.

  Lemma step2_spec o k rd h s g t :
    good2 g -> 1 <= length o -> k < length o -> NoDup o -> incl o (init_order2 R C) ->
    step_plain2d (async_rule2 inner sh) store r ty (mkA o k 0 rd h s) g t =
    seq_step2 inner sh store r ty (mkA o k 0 rd h s) g t.
  Proof.
    intros Hg HL Hk Hnd Hin. pose proof Hg as [Hw Hf].
    unfold step_plain2d, seq_step2, seq_step, nbof2, upd2.
    rewrite (wfg_rows R C g Hw), (wfg_cols R C g HR Hw).
    cbn [a_order a_curr a_napp a_rand a_nsh a_inner].
    destruct (apply_rows_run (async_rule2 inner sh) store g R C r ty t (seq 0 R) (mkA o k 0 rd h s))
      as (E1 & E2 & E3 & E4).
    set (cs := cellsnb g R C r ty (seq 0 R)) in *.
    assert (Hfst : map fst cs = init_order2 R C).
    { unfold cs, cellsnb, init_order2. rewrite map_flat_map. apply flat_map_ext_in'. intros i _.
      rewrite map_map. reflexivity. }
    unfold async_rule2 in E1, E2, E3, E4 |- *.
    rewrite (async_step (nat * nat) pair_eqb pair_eqb_spec (0, 0) nbhd2 centre2 St inner sh sh_perm t o k rd h s cs)
      in E1, E2;
      [|exact HL|exact Hk|exact Hnd|rewrite Hfst; apply init_order2_NoDup|rewrite Hfst; exact Hin
       |exact HL|exact Hk|exact Hnd|rewrite Hfst; apply init_order2_NoDup|rewrite Hfst; exact Hin].
    cbn [fst snd] in E1, E2.
    set (x := nth k o (0, 0)) in *.
    assert (Hx : fst x < R /\ snd x < C).
    { apply init_order2_In. rewrite <- surjective_pairing. apply Hin. apply nth_In. exact Hk. }
    destruct Hx as [Hx1 Hx2].
    rewrite (spec_state_in (nat * nat) pair_eqb pair_eqb_spec nbhd2 St inner t s x
               (get_neighbourhood g R C r (fst x) (snd x) ty) cs) in E1;
      [|rewrite Hfst; apply init_order2_NoDup
       |unfold cs, cellsnb; apply in_flat_map; exists (fst x); split; [apply in_seq; lia|];
        apply in_map_iff; exists (snd x); split; [rewrite <- surjective_pairing; reflexivity|apply in_seq; lia]].
    destruct (inner s (get_neighbourhood g R C r (fst x) (snd x) ty) x t) as [s' v] eqn:Ei.
    cbn [fst] in E1.
    rewrite (surjective_pairing (apply_rows _ _ _ _ _ _ _ _ _ _)). rewrite E1.
    unfold next_order, next_nsh. f_equal.
    apply (concat_inj_len C).
    - rewrite E3, map_length. reflexivity.
    - exact E4.
    - apply Forall_forall. intros row Hrow. apply in_map_iff in Hrow as (i & <- & _).
      rewrite map_length, seq_length. reflexivity.
    - rewrite E2. rewrite <- flat_map_concat_map.
      unfold spec_out, cs, cellsnb. rewrite !map_flat_map. apply flat_map_ext_in'. intros i Hi. apply in_seq in Hi.
      rewrite !map_map. apply map_ext_in. intros j Hj. apply in_seq in Hj. cbn [fst snd].
      destruct (pair_eqb (i, j) x) eqn:Ec.
      + apply pair_eqb_spec in Ec. subst x. rewrite <- Ec in Ei. cbn [fst snd] in Ei. rewrite Ei. reflexivity.
      + rewrite (centre2_nb g R C) by (try assumption; lia). apply good2_fix; [exact Hg|lia|lia].
  Qed.

  Lemma upd2_good g x v : good2 g -> In x (init_order2 R C) -> good2 (upd2 g x (store v)).
  Proof.
    intros Hg _. pose proof Hg as [Hw Hf]. unfold upd2. rewrite (wfg_rows R C g Hw), (wfg_cols R C g HR Hw).
    split; [split|].
    - rewrite map_length, seq_length. reflexivity.
    - apply Forall_forall. intros row Hrow. apply in_map_iff in Hrow as (i & <- & _).
      rewrite map_length, seq_length. reflexivity.
    - apply Forall_forall. intros row Hrow. apply in_map_iff in Hrow as (i & <- & Hi). apply in_seq in Hi.
      apply Forall_forall. intros z Hz. apply in_map_iff in Hz as (j & <- & Hj). apply in_seq in Hj.
      destruct (pair_eqb (i, j) x); [apply store_idem|]. apply good2_fix; [exact Hg|lia|lia].
  Qed.

  Definition valof2 (g : grid) (c : nat * nat) : Z := nth (snd c) (nth (fst c) g []) 0%Z.

  Lemma valof_upd2 g x v c : good2 g -> In x (init_order2 R C) -> In c (init_order2 R C) ->
    valof2 (upd2 g x v) c = if pair_eqb c x then v else valof2 g c.
  Proof.
    intros [Hw _] _ Hc. destruct c as [i j]. apply init_order2_In in Hc as [Hi Hj].
    unfold valof2, upd2. cbn [fst snd]. rewrite (wfg_rows R C g Hw), (wfg_cols R C g HR Hw).
    rewrite nth_map_seq0 by exact Hi. rewrite nth_map_seq0 by exact Hj. reflexivity.
  Qed.

  Definition ainv2 := AInv (nat * nat) St (init_order2 R C).

  Theorem async_run_2d : forall n a g t, ainv2 a -> good2 g ->
    iter_steps (step_plain2d (async_rule2 inner sh) store r ty) n a g t =
    iter_steps (seq_step2 inner sh store r ty) n a g t.
  Proof.
    intros n a g t Ha Hg.
    apply (async_iter (nat * nat) (0, 0) nbhd2 St inner sh sh_perm grid good2 (init_order2 R C) (nbof2 r ty) upd2 store
             (step_plain2d (async_rule2 inner sh) store r ty)); try assumption.
    - intros; apply step2_spec; assumption.
    - intros; apply upd2_good; assumption.
  Qed.

  Theorem async_frame_2d : forall n a g t d, ainv2 a -> good2 g ->
    forall i row col, i < n -> row < R -> col < C ->
      (row, col) <> nth i (sched_trace (nat * nat) (0, 0) sh n (a_rand a) (a_order a) (a_curr a) (a_nsh a)) (0, 0) ->
      nth col (nth row (nth (S i) (g :: snd (iter_steps (step_plain2d (async_rule2 inner sh) store r ty) n a g t)) d) []) 0%Z =
      nth col (nth row (nth i (g :: snd (iter_steps (step_plain2d (async_rule2 inner sh) store r ty) n a g t)) d) []) 0%Z.
  Proof.
    intros n a g t d Ha Hg i row col Hi Hrow Hcol Hne. rewrite async_run_2d by assumption.
    apply (seq_frame (nat * nat) pair_eqb pair_eqb_spec (0, 0) nbhd2 St inner sh sh_perm grid good2 (init_order2 R C)
             (nbof2 r ty) upd2 valof2 store) with (c := (row, col)); try assumption.
    - intros; apply upd2_good; assumption.
    - intros; apply valof_upd2; assumption.
    - apply init_order2_In. lia.
  Qed.
End Async2D.

(* ------------------------------------------------------------------------------------------------ *)
(* the statements of the property                                                                    *)
Lemma ainv_init {cell St} (all o : list cell) rd (s0 : St) :
  1 <= length o -> NoDup o -> incl o all -> AInv cell St all (async_init o rd s0).
Proof. intros HL Hnd Hin. unfold AInv, async_init. cbn. repeat split; try assumption; lia. Qed.

(* init_order_perm: the order built from num_cells is a permutation of all cells, whatever the shuffle returns *)
Theorem init_order_perm {cell St} (sh : nat -> list cell -> list cell) (all : list cell) rd (s0 : St) :
  (forall i l, Permutation l (sh i l)) ->
  Permutation all (a_order (async_init_cells sh all rd s0)) /\
  a_curr (async_init_cells sh all rd s0) = 0 /\ a_napp (async_init_cells sh all rd s0) = 0.
Proof. intros H. cbn. split; [apply H|split; reflexivity]. Qed.

Lemma ainv_init_cells {cell St} (sh : nat -> list cell -> list cell) (all : list cell) rd (s0 : St) :
  (forall i l, Permutation l (sh i l)) -> 1 <= length all -> NoDup all ->
  AInv cell St all (async_init_cells sh all rd s0).
Proof.
  intros H HL Hnd. unfold AInv. cbn. rewrite <- (Permutation_length (H 0 all)).
  repeat split; try lia.
  - eapply Permutation_NoDup; [apply H|exact Hnd].
  - intros x Hx. eapply Permutation_in; [apply Permutation_sym, H|exact Hx].
Qed.

Section Statements1D.
  Variable St : Type.
  Variable f : rule1 St.
  Variable sh : nat -> list nat -> list nat.
  Hypothesis sh_perm : forall i l, Permutation l (sh i l).
  Variable store : Z -> Z.
  Hypothesis store_idem : forall z, store (store z) = store z.
  Variables N r : nat.
  Hypothesis Hr : 1 <= r <= N.
  Local Notation eng := (step_plain (async_rule1 (logged1 f) sh) store r).

  (* async_run (1D, not randomized), with the wrapped rule logged *)
  Theorem async_run_1d_stmt : forall n o s0 cells d,
    1 <= length o -> NoDup o -> (forall c, In c o -> c < N) -> good1 store N cells ->
    let res := iter_steps eng n (async_init o false (s0, [])) cells 1 in
    let rows := cells :: snd res in
    res = iter_steps (seq_step1 (logged1 f) sh store r) n (async_init o false (s0, [])) cells 1 /\
    (forall i c, i < n -> c < N -> c <> nth (i mod length o) o 0 ->
       nth c (nth (S i) rows d) 0%Z = nth c (nth i rows d) 0%Z) /\
    (forall i c, i < n -> c < N -> ~ In c o -> nth c (nth (S i) rows d) 0%Z = nth c (nth i rows d) 0%Z) /\
    snd (a_inner (fst res)) =
      calls_of nat (list Z) (list Z) (nbof1 r) (map (fun i => nth (i mod length o) o 0) (seq 0 n)) rows 1 /\
    length (snd (a_inner (fst res))) = n.
  Proof.
    intros n o s0 cells d HL Hnd Hin Hg res rows.
    assert (Ha : ainv1 (St * list call1) N (async_init o false (s0, []))).
    { apply ainv_init; try assumption. intros c Hc. apply in_seq. specialize (Hin c Hc). lia. }
    assert (Hrun : res = iter_steps (seq_step1 (logged1 f) sh store r) n (async_init o false (s0, [])) cells 1)
      by (apply (async_run_1d (St * list call1) (logged1 f) sh sh_perm store store_idem N r Hr); assumption).
    assert (Htr : sched_trace nat 0 sh n false o 0 0 = map (fun i => nth (i mod length o) o 0) (seq 0 n)).
    { apply nth_ext with (d := 0) (d' := 0).
      - rewrite trace_length, map_length, seq_length. reflexivity.
      - intros i Hi. rewrite trace_length in Hi. rewrite trace_cyclic by lia.
        rewrite (nth_map_seq0 (fun i => nth (i mod length o) o 0)) by exact Hi. reflexivity. }
    assert (Hframe : forall i c, i < n -> c < N -> c <> nth (i mod length o) o 0 ->
              nth c (nth (S i) rows d) 0%Z = nth c (nth i rows d) 0%Z).
    { intros i c Hi Hc Hne.
      apply (async_frame_1d (St * list call1) (logged1 f) sh sh_perm store store_idem N r Hr n _ cells 1 d Ha Hg i c Hi Hc).
      cbn [async_init a_rand a_order a_curr a_nsh]. rewrite trace_cyclic by lia. exact Hne. }
    assert (Hlog : snd (a_inner (fst res)) =
              calls_of nat (list Z) (list Z) (nbof1 r) (map (fun i => nth (i mod length o) o 0) (seq 0 n)) rows 1).
    { unfold rows. rewrite Hrun. unfold async_init. rewrite <- Htr.
      exact (seq_log nat (list Z) St (list Z) 0 f sh (nbof1 r) upd1 store n o 0 0 false 0 s0 [] cells 1). }
    split; [exact Hrun|]. split; [exact Hframe|]. split; [|split; [exact Hlog|]].
    - intros i c Hi Hc Hno. apply Hframe; try assumption. intros E. apply Hno. rewrite E. apply nth_In.
      apply Nat.mod_upper_bound. lia.
    - rewrite Hlog. etransitivity; [apply calls_of_length|]; rewrite map_length, seq_length; [|reflexivity].
      unfold rows. cbn [length]. unfold res. rewrite (iter_length (list Z)). lia.
  Qed.

  (* async_shuffled (1D): any flag, any start position, ANY permutation at each shuffle *)
  Theorem async_shuffled_1d_stmt : forall n o k rd h s0 lg cells t d,
    1 <= length o -> k < length o -> NoDup o -> (forall c, In c o -> c < N) -> good1 store N cells ->
    let res := iter_steps eng n (mkA o k 0 rd h (s0, lg)) cells t in
    let rows := cells :: snd res in
    let tr := sched_trace nat 0 sh n rd o k h in
    res = iter_steps (seq_step1 (logged1 f) sh store r) n (mkA o k 0 rd h (s0, lg)) cells t /\
    (forall i, i < n -> In (nth i tr 0) o /\
       forall c, c < N -> c <> nth i tr 0 -> nth c (nth (S i) rows d) 0%Z = nth c (nth i rows d) 0%Z) /\
    snd (a_inner (fst res)) = lg ++ calls_of nat (list Z) (list Z) (nbof1 r) tr rows t /\
    length (calls_of nat (list Z) (list Z) (nbof1 r) tr rows t) = n.
  Proof.
    intros n o k rd h s0 lg cells t d HL Hk Hnd Hin Hg res rows tr.
    assert (Ha : ainv1 (St * list call1) N (mkA o k 0 rd h (s0, lg))).
    { unfold ainv1, AInv. cbn. repeat split; try assumption.
      intros c Hc. apply in_seq. specialize (Hin c Hc). lia. }
    assert (Hrun : res = iter_steps (seq_step1 (logged1 f) sh store r) n (mkA o k 0 rd h (s0, lg)) cells t)
      by (apply (async_run_1d (St * list call1) (logged1 f) sh sh_perm store store_idem N r Hr); assumption).
    split; [exact Hrun|]. split; [|split].
    - intros i Hi. split; [apply trace_in; assumption|]. intros c Hc Hne.
      apply (async_frame_1d (St * list call1) (logged1 f) sh sh_perm store store_idem N r Hr n _ cells t d Ha Hg i c Hi Hc).
      exact Hne.
    - unfold rows. rewrite Hrun.
      change (seq_step1 (logged1 f) sh store r)
        with (seq_step nat 0 (list Z) (St * list (list Z * nat * nat)) (glogged f) sh (list Z) (nbof1 r) upd1 store).
      apply (seq_log nat (list Z) St (list Z) 0 f sh (nbof1 r) upd1 store n o k 0 rd h s0 lg cells t).
    - rewrite calls_of_length; unfold tr; rewrite trace_length; [reflexivity|].
      unfold rows. cbn [length]. unfold res. rewrite (iter_length (list Z)). lia.
  Qed.
End Statements1D.

Section Statements2D.
  Variable St : Type.
  Variable f : rule2 St.
  Variable sh : nat -> list (nat * nat) -> list (nat * nat).
  Hypothesis sh_perm : forall i l, Permutation l (sh i l).
  Variable store : Z -> Z.
  Hypothesis store_idem : forall z, store (store z) = store z.
  Variables R C r : nat.
  Variable ty : nbhd_type.
  Hypothesis HR : 1 <= R.
  Local Notation eng := (step_plain2d (async_rule2 (logged2 f) sh) store r ty).
  Local Notation cellv g row col := (nth col (nth row g []) 0%Z).

  Theorem async_shuffled_2d_stmt : forall n o k rd h s0 lg g t d,
    1 <= length o -> k < length o -> NoDup o -> (forall c, In c o -> fst c < R /\ snd c < C) -> good2 store R C g ->
    let res := iter_steps eng n (mkA o k 0 rd h (s0, lg)) g t in
    let grids := g :: snd res in
    let tr := sched_trace (nat * nat) (0, 0) sh n rd o k h in
    res = iter_steps (seq_step2 (logged2 f) sh store r ty) n (mkA o k 0 rd h (s0, lg)) g t /\
    (forall i, i < n -> In (nth i tr (0, 0)) o /\
       forall row col, row < R -> col < C -> (row, col) <> nth i tr (0, 0) ->
         cellv (nth (S i) grids d) row col = cellv (nth i grids d) row col) /\
    snd (a_inner (fst res)) = lg ++ calls_of (nat * nat) nbhd2 grid (nbof2 r ty) tr grids t /\
    length (calls_of (nat * nat) nbhd2 grid (nbof2 r ty) tr grids t) = n.
  Proof.
    intros n o k rd h s0 lg g t d HL Hk Hnd Hin Hg res grids tr.
    assert (Ha : ainv2 (St * list call2) R C (mkA o k 0 rd h (s0, lg))).
    { unfold ainv2, AInv. cbn. repeat split; try assumption.
      intros [i j] Hc. apply init_order2_In. exact (Hin (i, j) Hc). }
    assert (Hrun : res = iter_steps (seq_step2 (logged2 f) sh store r ty) n (mkA o k 0 rd h (s0, lg)) g t)
      by (apply (async_run_2d (St * list call2) (logged2 f) sh sh_perm store store_idem R C r ty HR); assumption).
    split; [exact Hrun|]. split; [|split].
    - intros i Hi. split; [apply trace_in; assumption|]. intros row col Hrow Hcol Hne.
      apply (async_frame_2d (St * list call2) (logged2 f) sh sh_perm store store_idem R C r ty HR n _ g t d Ha Hg
               i row col Hi Hrow Hcol).
      exact Hne.
    - unfold grids. rewrite Hrun.
      change (seq_step2 (logged2 f) sh store r ty)
        with (seq_step (nat * nat) (0, 0) nbhd2 (St * list (nbhd2 * (nat * nat) * nat)) (glogged f) sh grid (nbof2 r ty) upd2 store).
      apply (seq_log (nat * nat) nbhd2 St grid (0, 0) f sh (nbof2 r ty) upd2 store n o k 0 rd h s0 lg g t).
    - rewrite calls_of_length; unfold tr; rewrite trace_length; [reflexivity|].
      unfold grids. cbn [length]. unfold res. rewrite (iter_length grid). lia.
  Qed.

  (* async_run (2D, not randomized) *)
  Theorem async_run_2d_stmt : forall n o s0 g d,
    1 <= length o -> NoDup o -> (forall c, In c o -> fst c < R /\ snd c < C) -> good2 store R C g ->
    let res := iter_steps eng n (async_init o false (s0, [])) g 1 in
    let grids := g :: snd res in
    res = iter_steps (seq_step2 (logged2 f) sh store r ty) n (async_init o false (s0, [])) g 1 /\
    (forall i row col, i < n -> row < R -> col < C -> (row, col) <> nth (i mod length o) o (0, 0) ->
       cellv (nth (S i) grids d) row col = cellv (nth i grids d) row col) /\
    (forall i row col, i < n -> row < R -> col < C -> ~ In (row, col) o ->
       cellv (nth (S i) grids d) row col = cellv (nth i grids d) row col) /\
    snd (a_inner (fst res)) =
      calls_of (nat * nat) nbhd2 grid (nbof2 r ty) (map (fun i => nth (i mod length o) o (0, 0)) (seq 0 n)) grids 1 /\
    length (snd (a_inner (fst res))) = n.
  Proof.
    intros n o s0 g d HL Hnd Hin Hg res grids. unfold async_init in (value of res) |- *.
    destruct (async_shuffled_2d_stmt n o 0 false 0 s0 [] g 1 d HL ltac:(lia) Hnd Hin Hg) as (Hrun & Hfr & Hlog & Hlen).
    fold res in Hrun, Hfr, Hlog, Hlen. fold grids in Hfr, Hlog, Hlen.
    assert (Hframe : forall i row col, i < n -> row < R -> col < C -> (row, col) <> nth (i mod length o) o (0, 0) ->
              cellv (nth (S i) grids d) row col = cellv (nth i grids d) row col).
    { intros i row col Hi Hrow Hcol Hne. apply (proj2 (Hfr i Hi)); try assumption.
      rewrite trace_cyclic by lia. exact Hne. }
    assert (Htr : sched_trace (nat * nat) (0, 0) sh n false o 0 0 = map (fun i => nth (i mod length o) o (0, 0)) (seq 0 n)).
    { apply nth_ext with (d := (0, 0)) (d' := (0, 0)).
      - rewrite trace_length, map_length, seq_length. reflexivity.
      - intros i Hi. rewrite trace_length in Hi. rewrite trace_cyclic by lia.
        rewrite (nth_map_seq0 (fun i => nth (i mod length o) o (0, 0))) by exact Hi. reflexivity. }
    split; [exact Hrun|]. split; [exact Hframe|]. split; [|split].
    - intros i row col Hi Hrow Hcol Hno. apply Hframe; try assumption. intros E. apply Hno. rewrite E. apply nth_In.
      apply Nat.mod_upper_bound. lia.
    - rewrite Hlog, Htr. reflexivity.
    - rewrite Hlog. cbn [app]. exact Hlen.
  Qed.
End Statements2D.

(* the generated orders: all cells, each once *)
Theorem init_order_perm_1d {St} (sh : nat -> list nat -> list nat) N rd (s0 : St) :
  (forall i l, Permutation l (sh i l)) ->
  let a := async_init_cells sh (init_order1 N) rd s0 in
  Permutation (seq 0 N) (a_order a) /\ (forall c, In c (a_order a) <-> c < N) /\ NoDup (a_order a) /\
  length (a_order a) = N /\ a_curr a = 0 /\ a_napp a = 0.
Proof.
  intros H a. assert (P : Permutation (seq 0 N) (a_order a)) by apply H.
  split; [exact P|]. split; [|split; [|split; [|split; reflexivity]]].
  - intros c. split.
    + intros Hc. apply (Permutation_in _ (Permutation_sym P)) in Hc. apply in_seq in Hc. lia.
    + intros Hc. apply (Permutation_in _ P). apply in_seq. lia.
  - eapply Permutation_NoDup; [exact P|apply seq_NoDup].
  - rewrite <- (Permutation_length P). apply seq_length.
Qed.

Theorem init_order_perm_2d {St} (sh : nat -> list (nat * nat) -> list (nat * nat)) R C rd (s0 : St) :
  (forall i l, Permutation l (sh i l)) ->
  let a := async_init_cells sh (init_order2 R C) rd s0 in
  Permutation (init_order2 R C) (a_order a) /\ (forall i j, In (i, j) (a_order a) <-> i < R /\ j < C) /\
  NoDup (a_order a) /\ a_curr a = 0 /\ a_napp a = 0.
Proof.
  intros H a. assert (P : Permutation (init_order2 R C) (a_order a)) by apply H.
  split; [exact P|]. split; [|split; [|split; reflexivity]].
  - intros i j. rewrite <- init_order2_In. split; intros Hc.
    + apply (Permutation_in _ (Permutation_sym P)). exact Hc.
    + apply (Permutation_in _ P). exact Hc.
  - eapply Permutation_NoDup; [exact P|apply init_order2_NoDup].
Qed.

(* one engine step, read off the arrays: the scheduled cell takes the wrapped rule's value on its current
   neighbourhood, with its identity and t; every other cell keeps its state; one call of the wrapped rule *)
Theorem async_engine_step_1d {St} (inner : rule1 St) sh store N r :
  (forall i l, Permutation l (sh i l)) -> (forall z, store (store z) = store z) -> 1 <= r <= N ->
  forall a cells t, ainv1 St N a -> good1 store N cells ->
  let x := nth (a_curr a) (a_order a) 0 in
  let out := step_plain (async_rule1 inner sh) store r a cells t in
  nth x (snd out) 0%Z = store (snd (inner (a_inner a) (nth x (neighbourhoods cells r) []) x t)) /\
  (forall c, c < N -> c <> x -> nth c (snd out) 0%Z = nth c cells 0%Z) /\
  length (snd out) = N /\
  a_inner (fst out) = fst (inner (a_inner a) (nth x (neighbourhoods cells r) []) x t) /\
  a_curr (fst out) = (a_curr a + 1) mod length (a_order a) /\ a_napp (fst out) = 0 /\
  Permutation (a_order a) (a_order (fst out)).
Proof.
  intros Hsh Hst Hr a cells t Ha Hg x out.
  assert (E : out = seq_step1 inner sh store r a cells t).
  { unfold out. destruct Ha as (Hn & HL & Hk & Hnd & Hin). destruct a as [o k j rd h s]. cbn in Hn. subst j.
    apply (step1_spec St inner sh Hsh store Hst N r Hr); assumption. }
  rewrite E. destruct Ha as (Hn & HL & Hk & Hnd & Hin).
  assert (Hx : In x (seq 0 N)) by (apply Hin, nth_In, Hk).
  unfold seq_step1, seq_step. fold x. unfold nbof1.
  destruct (inner (a_inner a) (nth x (neighbourhoods cells r) []) x t) as [s' v]. cbn [fst snd a_inner a_curr a_napp a_order].
  split; [|split; [|split; [|split; [reflexivity|split; [reflexivity|split; [reflexivity|]]]]]].
  - rewrite (valof_upd1 sh Hsh store Hst N r Hr) by assumption. rewrite Nat.eqb_refl. reflexivity.
  - intros c Hc Hne. rewrite (valof_upd1 sh Hsh store Hst N r Hr); try assumption; [|apply in_seq; lia].
    replace (c =? x) with false by (symmetry; apply Nat.eqb_neq; exact Hne). reflexivity.
  - unfold upd1. rewrite map_length, seq_length. apply Hg.
  - destruct (a_rand a); [apply Hsh|reflexivity].
Qed.

Theorem async_engine_step_2d {St} (inner : rule2 St) sh store R C r ty :
  (forall i l, Permutation l (sh i l)) -> (forall z, store (store z) = store z) -> 1 <= R ->
  forall a g t, ainv2 St R C a -> good2 store R C g ->
  let x := nth (a_curr a) (a_order a) (0, 0) in
  let nb := get_neighbourhood g R C r (fst x) (snd x) ty in
  let out := step_plain2d (async_rule2 inner sh) store r ty a g t in
  nth (snd x) (nth (fst x) (snd out) []) 0%Z = store (snd (inner (a_inner a) nb x t)) /\
  (forall row col, row < R -> col < C -> (row, col) <> x ->
     nth col (nth row (snd out) []) 0%Z = nth col (nth row g []) 0%Z) /\
  wfg R C (snd out) /\
  a_inner (fst out) = fst (inner (a_inner a) nb x t) /\
  a_curr (fst out) = (a_curr a + 1) mod length (a_order a) /\ a_napp (fst out) = 0 /\
  Permutation (a_order a) (a_order (fst out)).
Proof.
  intros Hsh Hst HR a g t Ha Hg x nb out.
  assert (E : out = seq_step2 inner sh store r ty a g t).
  { unfold out. destruct Ha as (Hn & HL & Hk & Hnd & Hin). destruct a as [o k j rd h s]. cbn in Hn. subst j.
    apply (step2_spec St inner sh Hsh store Hst R C r ty HR); assumption. }
  rewrite E. destruct Ha as (Hn & HL & Hk & Hnd & Hin).
  assert (Hx : In x (init_order2 R C)) by (apply Hin, nth_In, Hk).
  unfold seq_step2, seq_step. fold x. unfold nbof2.
  pose proof Hg as [Hw _]. rewrite (wfg_rows R C g Hw), (wfg_cols R C g HR Hw). fold nb.
  destruct (inner (a_inner a) nb x t) as [s' v]. cbn [fst snd a_inner a_curr a_napp a_order].
  split; [|split; [|split; [|split; [reflexivity|split; [reflexivity|split; [reflexivity|]]]]]].
  - change (valof2 (upd2 g x (store v)) x = store v).
    rewrite (valof_upd2 store R C HR) by assumption.
    replace (pair_eqb x x) with true by (symmetry; apply pair_eqb_spec; reflexivity). reflexivity.
  - intros row col Hrow Hcol Hne. change (valof2 (upd2 g x (store v)) (row, col) = valof2 g (row, col)).
    rewrite (valof_upd2 store R C HR); try assumption; [|apply init_order2_In; lia].
    destruct (pair_eqb (row, col) x) eqn:Ec; [apply pair_eqb_spec in Ec; contradiction|reflexivity].
  - apply (upd2_good sh Hsh store Hst R C HR g x v Hg Hx).
  - destruct (a_rand a); [apply Hsh|reflexivity].
Qed.

(* the public entry points: evolve / evolve2d with a number of timesteps *)
Theorem async_evolve_1d {St} (inner : rule1 St) sh store N r :
  (forall i l, Permutation l (sh i l)) -> (forall z, store (store z) = store z) -> 1 <= r <= N ->
  forall a hist T, ainv1 St N a -> good1 store N (last hist []) ->
  evolve_plain (async_rule1 inner sh) store r a hist T = evolve_fixed [] (seq_step1 inner sh store r) a hist T.
Proof.
  intros Hsh Hst Hr a hist T Ha Hg. unfold evolve_plain, evolve_fixed. destruct T as [|k]; [reflexivity|].
  rewrite (async_run_1d St inner sh Hsh store Hst N r Hr) by assumption. reflexivity.
Qed.
Theorem async_evolve_2d {St} (inner : rule2 St) sh store R C r ty :
  (forall i l, Permutation l (sh i l)) -> (forall z, store (store z) = store z) -> 1 <= R ->
  forall a hist T, ainv2 St R C a -> good2 store R C (last hist []) ->
  evolve2d_plain (async_rule2 inner sh) store r ty a hist T = evolve_fixed [] (seq_step2 inner sh store r ty) a hist T.
Proof.
  intros Hsh Hst HR a hist T Ha Hg. unfold evolve2d_plain, evolve_fixed. destruct T as [|k]; [reflexivity|].
  rewrite (async_run_2d St inner sh Hsh store Hst R C r ty HR) by assumption. reflexivity.
Qed.
