(* Rule callables as state machines, and the families that exist on both sides of the
   correspondence check (Python twins live in harness/twins.py).
   1D:  rule : S -> list Z (neighbourhood) -> nat (cell index c) -> nat (step t) -> S * Z
   2D:  rule : S -> nbhd2 -> nat * nat (row, col) -> nat (step t) -> S * Z
   where a 2D neighbourhood is the (2r+1)x(2r+1) block of states together with its mask
   (all false for 'Moore'; np.ma.getmaskarray for 'von Neumann'). *)
From CPL Require Import Model.Base.
Local Open Scope Z_scope.

Definition rule1 (S : Type) := S -> list Z -> nat -> nat -> S * Z.

Record nbhd2 := { nb_vals : list (list Z); nb_mask : list (list bool) }.
Definition rule2 (S : Type) := S -> nbhd2 -> nat * nat -> nat -> S * Z.

(* entries of a 2D neighbourhood that are not masked, row-major *)
Definition unmasked (n : nbhd2) : list Z :=
  concat (map (fun rm : list Z * list bool => concat (map (fun vm : Z * bool => if snd vm then [] else [fst vm]) (combine (fst rm) (snd rm))))
              (combine (nb_vals n) (nb_mask n))).
(* all entries, with masked ones replaced by a constant: the model of MaskedArray.tobytes() *)
Definition masked_key (n : nbhd2) : list (list Z) :=
  map (fun rm : list Z * list bool => map (fun vm : Z * bool => if snd vm then 0 else fst vm) (combine (fst rm) (snd rm)))
      (combine (nb_vals n) (nb_mask n)).

(* call logs *)
Definition call1 := (list Z * nat * nat)%type.             (* n, c, t *)
Definition call2 := (nbhd2 * (nat * nat) * nat)%type.      (* n, (row, col), t *)

(* wrap any rule so that it also records its arguments *)
Definition logged1 {S} (f : rule1 S) : rule1 (S * list call1) :=
  fun st n c t => let '(s, lg) := st in let '(s', v) := f s n c t in ((s', lg ++ [(n, c, t)]), v).
Definition logged2 {S} (f : rule2 S) : rule2 (S * list call2) :=
  fun st n c t => let '(s, lg) := st in let '(s', v) := f s n c t in ((s', lg ++ [(n, c, t)]), v).

(* Lin ws m: pure; sum(w_i * n_i) mod m   (Python: int(sum(w*x for w, x in zip(ws, n.ravel()))) % m) *)
Fixpoint lin_dot (ws ns : list Z) : Z :=
  match ws, ns with w :: ws', n :: ns' => w * n + lin_dot ws' ns' | _, _ => 0 end.
Definition lin1 (ws : list Z) (m : Z) : rule1 unit := fun u n c t => (u, lin_dot ws n mod m).
(* 2D: over the unmasked entries only, row-major *)
Definition lin2 (ws : list Z) (m : Z) : rule2 unit := fun u n c t => (u, lin_dot ws (unmasked n) mod m).

(* LinCT: also depends on the cell identity and the step number *)
Definition linct1 (ws : list Z) (m : Z) : rule1 unit :=
  fun u n c t => (u, (lin_dot ws n + 3 * Z.of_nat c + 5 * Z.of_nat t) mod m).
Definition linct2 (ws : list Z) (m : Z) : rule2 unit :=
  fun u n c t => (u, (lin_dot ws (unmasked n) + 3 * Z.of_nat (fst c) + 7 * Z.of_nat (snd c) + 5 * Z.of_nat t) mod m).

(* Script vs: the general stateful rule; the i-th call returns vs[i] (0 when exhausted) *)
Definition script1 (vs : list Z) : rule1 nat := fun i n c t => (S i, nth i vs 0).
Definition script2 (vs : list Z) : rule2 nat := fun i n c t => (S i, nth i vs 0).

(* dtype casts (`store`): what assigning a rule result into the automaton's array does *)
Definition store_id (z : Z) : Z := z.

(* the rule families as data, so that generated cases can name a rule *)
(* RAff ws b m: pure affine rule (sum(w_i * n_i) + b) mod m — unlike RLin it need not map the all-zero
   neighbourhood to 0 *)
Inductive rule_spec := RLin (ws : list Z) (m : Z) | RLinCT (ws : list Z) (m : Z) | RScript (vs : list Z)
  | RAff (ws : list Z) (b m : Z).
(* one state type for all families: the call counter (ignored by the pure ones) *)
Definition spec_rule1 (sp : rule_spec) : rule1 nat :=
  match sp with
  | RLin ws m => fun i n c t => (S i, snd (lin1 ws m tt n c t))
  | RLinCT ws m => fun i n c t => (S i, snd (linct1 ws m tt n c t))
  | RScript vs => script1 vs
  | RAff ws b m => fun i n c t => (S i, (lin_dot ws n + b) mod m)
  end.
Definition spec_rule2 (sp : rule_spec) : rule2 nat :=
  match sp with
  | RLin ws m => fun i n c t => (S i, snd (lin2 ws m tt n c t))
  | RLinCT ws m => fun i n c t => (S i, snd (linct2 ws m tt n c t))
  | RScript vs => script2 vs
  | RAff ws b m => fun i n c t => (S i, (lin_dot ws (unmasked n) + b) mod m)
  end.
