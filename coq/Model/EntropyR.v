(* Real-valued layer of cellpylib/entropy.py over the exact count lists of Model/EntropyExact.v,
   and its connection with the definitions of Proofs/EntropyBounds.v (H l keys, symbols_of, MI).
   Shared by C16 and C18. *)
From Coq Require Import Reals Lra Lia List Arith.
From CPL Require Import Model.Base Model.EntropyExact Proofs.EntropyBounds.
Import ListNotations.
Local Open Scope R_scope.

(* entropy.py:15-16  p = count / len ; H = - sum p * log(p, 2) *)
Definition termR (c n : nat) : R := INR c / INR n * log2 (INR c / INR n).
Definition HR (cs : list nat) (n : nat) : R := - Rsum (fun c => termR c n) cs.
(* entropy.py:68  H(X) + H(Y) - H(X, Y) on count lists *)
Definition MIR (cX cY cXY : list nat) (n : nat) : R := HR cX n + HR cY n - HR cXY n.
Definition MIR4 (q : list nat * list nat * list nat * nat) : R :=
  let '(cX, cY, cXY, n) := q in MIR cX cY cXY n.
(* np.mean of a list *)
Definition meanR (l : list R) : R := Rsum (fun x => x) l / INR (length l).

Section OnSymbols.
Context {A B : Type}.
Variable eqA : forall a b : A, {a = b} + {a <> b}.
Variable eqB : forall a b : B, {a = b} + {a <> b}.
(* shannon_entropy, joint_shannon_entropy, mutual_information as real numbers *)
Definition shannonR (s : list A) : R := HR (count_list eqA s) (length s).
Definition jointR (X : list A) (Y : list B) : R := HR (joint_count_list eqA eqB X Y) (length X).
Definition miR (X : list A) (Y : list B) : R := MIR4 (mi_counts eqA eqB X Y).
End OnSymbols.

(* average_cell_entropy / average_mutual_information as real numbers (the latter when accepted) *)
Definition aceR (rows : list (list Z)) : R := meanR (map (fun cn => HR (fst cn) (snd cn)) (ace_cells rows)).
Definition amiR (rows : list (list Z)) (d : Z) : res R :=
  match ami_cells rows d with
  | Ok cells => Ok (meanR (map MIR4 cells))
  | Raise e => Raise e
  end.

(* ---------- keys / counts: the facts the real layer needs ---------- *)
Section KeysFacts.
Context {A : Type}.
Variable eq_dec : forall a b : A, {a = b} + {a <> b}.

Lemma NoDup_remove_elt (a : A) l : NoDup l -> NoDup (remove eq_dec a l).
Proof.
  induction l as [|x l IH]; intros Hnd; [constructor|]. inversion Hnd as [|? ? Hx Hnd']; subst. cbn.
  destruct (eq_dec a x); [apply IH; assumption|]. constructor; [|apply IH; assumption].
  intros Hin. apply in_remove in Hin as [Hin _]. contradiction.
Qed.

Lemma keys_In l x : In x (keys eq_dec l) <-> In x l.
Proof.
  induction l as [|a l IH]; [reflexivity|]. cbn [keys]. split.
  - intros [->|Hin]; [left; reflexivity|]. apply in_remove in Hin as [Hin _]. right. apply IH. exact Hin.
  - intros [->|Hin]; [left; reflexivity|]. destruct (eq_dec x a) as [->|Hne]; [left; reflexivity|].
    right. apply in_in_remove; [exact Hne|]. apply IH. exact Hin.
Qed.

Lemma keys_NoDup l : NoDup (keys eq_dec l).
Proof.
  induction l as [|a l IH]; [constructor|]. cbn [keys]. constructor.
  - apply remove_In.
  - apply NoDup_remove_elt. exact IH.
Qed.

Lemma keys_symbols_of l : symbols_of A l (keys eq_dec l).
Proof. split; [apply keys_NoDup|]. intros x. apply keys_In. Qed.

Lemma counts_fst l : map fst (counts eq_dec l) = keys eq_dec l.
Proof. unfold counts. rewrite map_map. cbn [fst]. apply map_id. Qed.

Lemma counts_snd l : map snd (counts eq_dec l) = map (fun x => cnt A eq_dec x l) (keys eq_dec l).
Proof. unfold counts. rewrite map_map. reflexivity. Qed.

Lemma counts_symbols_of l : symbols_of A l (map fst (counts eq_dec l)).
Proof. rewrite counts_fst. apply keys_symbols_of. Qed.

(* the count-list entropy IS the entropy H of EntropyBounds over the key list of the code *)
Lemma HR_counts l : HR (map snd (counts eq_dec l)) (length l) = H A eq_dec l (map fst (counts eq_dec l)).
Proof.
  rewrite counts_fst, counts_snd. unfold HR, H. rewrite Rsum_map. reflexivity.
Qed.

Lemma shannonR_H l : shannonR eq_dec l = H A eq_dec l (keys eq_dec l).
Proof. unfold shannonR, count_list. rewrite HR_counts, counts_fst. reflexivity. Qed.

(* every multiplicity in a count list lies in 1..len *)
Lemma count_list_range l c : In c (count_list eq_dec l) -> (1 <= c <= length l)%nat.
Proof.
  unfold count_list. rewrite counts_snd. intros Hin. apply in_map_iff in Hin as (x & <- & Hx).
  apply (proj1 (keys_In l x)) in Hx. split; [apply (cnt_pos A eq_dec); exact Hx|apply cnt_le_len].
Qed.

(* H does not depend on which duplicate-free key list enumerates the symbols *)
Lemma H_keys_irrel l k1 k2 : symbols_of A l k1 -> symbols_of A l k2 -> H A eq_dec l k1 = H A eq_dec l k2.
Proof.
  intros [N1 I1] [N2 I2]. unfold H. f_equal.
  set (g := fun x => p A eq_dec l x * log2 (p A eq_dec l x)).
  assert (Hle : forall ka kb, NoDup ka -> NoDup kb -> (forall x, In x ka <-> In x kb) -> Rsum g ka = Rsum g kb).
  { induction ka as [|a ka IH]; intros kb Na Nb Hab.
    - destruct kb as [|b kb]; [reflexivity|]. exfalso. apply (Hab b). left; reflexivity.
    - inversion Na as [|? ? Ha Na']; subst. cbn [Rsum].
      rewrite (Rsum_remove A eq_dec g a kb Nb) by (apply Hab; left; reflexivity). f_equal.
      apply IH; [exact Na'|apply NoDup_remove_elt; exact Nb|].
      intros x. split.
      + intros Hx. apply in_in_remove; [intros ->; contradiction|]. apply Hab. right; exact Hx.
      + intros Hx. apply in_remove in Hx as [Hx Hne]. apply Hab in Hx as [->|Hx]; [congruence|exact Hx]. }
  apply Hle; [exact N1|exact N2|]. intros x. rewrite I1, I2. reflexivity.
Qed.

(* ... nor on the decision procedure used for counting *)
Lemma cnt_dec_irrel (d1 d2 : forall a b : A, {a = b} + {a <> b}) x l : cnt A d1 x l = cnt A d2 x l.
Proof. unfold cnt. induction l as [|a l IH]; [reflexivity|]. cbn. destruct (d1 a x), (d2 a x); congruence. Qed.
Lemma H_dec_irrel (d1 d2 : forall a b : A, {a = b} + {a <> b}) l k : H A d1 l k = H A d2 l k.
Proof. unfold H, p. f_equal. apply Rsum_ext. intros x _. rewrite (cnt_dec_irrel d1 d2). reflexivity. Qed.
End KeysFacts.

(* ---------- joint counts ---------- *)
Section JointFacts.
Context {A B : Type}.
Variable eqA : forall a b : A, {a = b} + {a <> b}.
Variable eqB : forall a b : B, {a = b} + {a <> b}.
Local Notation pdec := (pair_dec eqA eqB).

Definition joint_keys (X : list A) (Y : list B) : list (A * B) := map fst (joint_counts eqA eqB X Y).

Lemma joint_keys_filter X Y :
  joint_keys X Y = filter (fun q => negb (count_occ pdec (combine X Y) q =? 0)%nat) (list_prod (keys eqA X) (keys eqB Y)).
Proof.
  unfold joint_keys, joint_counts, joint_counts_all.
  induction (list_prod (keys eqA X) (keys eqB Y)) as [|q l IH]; [reflexivity|].
  cbn [map filter snd]. destruct (negb _); cbn [map fst]; rewrite IH; reflexivity.
Qed.

Lemma joint_counts_snd X Y :
  joint_count_list eqA eqB X Y = map (fun q => cnt (A * B) pdec q (combine X Y)) (joint_keys X Y).
Proof.
  unfold joint_count_list, joint_keys, joint_counts, joint_counts_all.
  induction (list_prod (keys eqA X) (keys eqB Y)) as [|q l IH]; [reflexivity|].
  cbn [map filter snd]. destruct (negb _); cbn [map fst snd]; rewrite IH; reflexivity.
Qed.

Lemma joint_keys_symbols_of X Y : symbols_of (A * B) (combine X Y) (joint_keys X Y).
Proof.
  rewrite joint_keys_filter. split.
  - apply NoDup_filter. apply NoDup_list_prod; apply keys_NoDup.
  - intros [x y]. rewrite filter_In. split.
    + intros [_ Hc]. apply (count_occ_In pdec). destruct (count_occ pdec (combine X Y) (x, y)); [discriminate|lia].
    + intros Hin. split.
      * apply in_prod; apply keys_In; [eapply in_combine_l|eapply in_combine_r]; exact Hin.
      * apply (count_occ_In pdec) in Hin. destruct (count_occ pdec (combine X Y) (x, y)); [lia|reflexivity].
Qed.

Lemma jointR_H X Y : length X = length Y ->
  jointR eqA eqB X Y = H (A * B) pdec (combine X Y) (joint_keys X Y).
Proof.
  intros Hlen. unfold jointR, HR, H. rewrite joint_counts_snd, Rsum_map. f_equal. apply Rsum_ext.
  intros q _. unfold termR, p. rewrite combine_length, <- Hlen, Nat.min_id. reflexivity.
Qed.

Lemma joint_count_list_range X Y c : length X = length Y ->
  In c (joint_count_list eqA eqB X Y) -> (1 <= c <= length X)%nat.
Proof.
  intros Hlen. rewrite joint_counts_snd. intros Hin. apply in_map_iff in Hin as (q & <- & Hq).
  apply joint_keys_symbols_of in Hq. split; [apply (cnt_pos _ pdec); exact Hq|].
  pose proof (cnt_le_len _ pdec (combine X Y) q) as Hle. rewrite combine_length, <- Hlen, Nat.min_id in Hle. exact Hle.
Qed.
End JointFacts.
