(* Model of the rejection branch of evolve2d (memoize=False, numeric timesteps): a radius larger than
   a grid dimension makes the index lists of _get_neighbourhood_indices leave [-n, n), and
   cell_layer[np.ix_(row_indices, col_indices)] raises IndexError at the first cell of the first step,
   before the rule is ever called.  Kept apart from Model/Evolve2D.v so that the shared file is unchanged.
   Executable definitions only. *)
From CPL Require Import Model.Base Model.Rules Model.Engine Model.Evolve2D.

(* every index of every per-cell index list is one NumPy accepts for that axis *)
Definition nbhd_in_range (R C r : nat) : bool :=
  forallb (fun row => forallb (axis_in_range R) (axis_indices R row r)) (seq 0 R) &&
  forallb (fun col => forallb (axis_in_range C) (axis_indices C col r)) (seq 0 C).

(* timesteps <= 1 performs no gather at all (timesteps = 0 fails on array[0] = ..., see evolve_fixed) *)
Definition evolve2d_checked {St} (rule : rule2 St) (store : Z -> Z) (r : nat) (ty : nbhd_type)
           (s0 : St) (hist : list grid) (T : nat) : res (St * list grid) :=
  let g := last hist [] in
  if (T <=? 1) || nbhd_in_range (grid_rows g) (grid_cols g) r
  then evolve2d_plain rule store r ty s0 hist T
  else Raise IndexError.
