(* Model of cellpylib/hopfield_net.py (C20): HopfieldNet.train, HopfieldNet._rule, the radius
   r = num_cells // 2, plus the executable specification objects (field, energy, single-cell
   update) and a direct "one scheduled cell per step" evolution used by the correspondence check.
   Executable definitions only; proofs are in Proofs/HopfieldProofs.v.

   Modelling assumption: the weight matrix has dtype int32 in the code; the model uses Z and
   ignores overflow (|W[i][j]| <= number of patterns for bipolar patterns). *)
From CPL Require Import Model.Base Model.Rules Model.Engine Model.Evolve1D.
Local Open Scope Z_scope.

(* ---------- matrices as lists of rows ---------- *)
Definition mget (W : list (list Z)) (i j : nat) : Z := nth j (nth i W []) 0.

(* l[k] = f(l[k]); a no-op when k is out of range (never the case under the guards) *)
Fixpoint upd_nth {A} (l : list A) (k : nat) (f : A -> A) : list A :=
  match l, k with
  | [], _ => []
  | x :: l', O => f x :: l'
  | x :: l', S k' => x :: upd_nth l' k' f
  end.
Definition mupd (W : list (list Z)) (i j : nat) (f : Z -> Z) : list (list Z) :=
  upd_nth W i (fun row => upd_nth row j f).
Definition upd_list (s : list Z) (c : nat) (v : Z) : list Z := upd_nth s c (fun _ => v).

(* np.zeros((R, C)) *)
Definition zeros (R C : nat) : list (list Z) := repeat (repeat 0 C) R.

(* ---------- train (hopfield_net.py:33-40) ---------- *)
(* if i == j: W[i, j] = 0  else: W[i, j] += p[i]*p[j] *)
Definition train_cell (p : list Z) (W : list (list Z)) (i j : nat) : list (list Z) :=
  if Nat.eqb i j then mupd W i j (fun _ => 0)
  else mupd W i j (fun w => w + nth i p 0 * nth j p 0).

(* for i in range(len(p)): for j in range(len(p)): ... *)
Definition train_pattern (W : list (list Z)) (p : list Z) : list (list Z) :=
  fold_left (fun W1 i => fold_left (fun W2 j => train_cell p W2 i j) (seq 0 (length p)) W1)
            (seq 0 (length p)) W.

(* self._W = np.zeros((len(P[0]), len(P[0]))); for p in P: ...
   P = [] fails at P[0]; a pattern longer than P[0] indexes W out of range (IndexError);
   a shorter one only touches its own sub-block. *)
Definition train (P : list (list Z)) : res (list (list Z)) :=
  match P with
  | [] => Raise IndexError
  | p0 :: _ =>
      let N := length p0 in
      if forallb (fun p => length p <=? N)%nat P
      then Ok (fold_left train_pattern P (zeros N N))
      else Raise IndexError
  end.

(* ---------- train once more, as the three loops with the element accesses that can raise ----------
   `train` above decides the IndexError by a pre-check on the pattern lengths; `train_loop` is the
   statement-by-statement form (P[0]; W[i, j] = 0; W[i, j] += p[i]*p[j] as element reads / writes that raise
   IndexError out of range), a target for the source translator.  Proofs/HopfieldProofs.v: train_loop_eq
   proves train_loop P = train P for every P (same value or same exception). *)
(* for x in l: a = f(a, x), stopping at the first exception *)
Fixpoint for_res {A B} (f : A -> B -> res A) (l : list B) (a : A) : res A :=
  match l with
  | [] => Ok a
  | x :: l' => bind (f a x) (for_res f l')
  end.
(* W[i, j] = f(W[i, j]) for non-negative i, j (they come from range()): IndexError out of range *)
Definition mset_py (W : list (list Z)) (i j : nat) (f : Z -> Z) : res (list (list Z)) :=
  match nth_error W i with
  | Some row => match nth_error row j with Some _ => Ok (mupd W i j f) | None => Raise IndexError end
  | None => Raise IndexError
  end.
(* if i == j: W[i, j] = 0  else: W[i, j] += p[i]*p[j] *)
Definition train_cell_m (p : list Z) (W : list (list Z)) (i j : nat) : res (list (list Z)) :=
  if Nat.eqb i j then mset_py W i j (fun _ => 0)
  else bind (py_get p (Z.of_nat i)) (fun pi =>
       bind (py_get p (Z.of_nat j)) (fun pj => mset_py W i j (fun w => w + pi * pj))).
Definition train_pattern_m (W : list (list Z)) (p : list Z) : res (list (list Z)) :=
  for_res (fun W1 i => for_res (fun W2 j => train_cell_m p W2 i j) (seq 0 (length p)) W1)
          (seq 0 (length p)) W.
Definition train_loop (P : list (list Z)) : res (list (list Z)) :=
  bind (py_get P 0) (fun p0 =>
    for_res train_pattern_m P (zeros (length p0) (length p0))).

(* self._r = num_cells // 2 *)
Definition hopfield_r (num_cells : nat) : nat := (num_cells / 2)%nat.

(* ---------- _rule (hopfield_net.py:42-50) ---------- *)
(* self._W[a, c] with a possibly negative row index a (NumPy negative indexing) *)
Definition mget_py (W : list (list Z)) (a : Z) (c : nat) : res Z :=
  match py_index (length W) a with
  | Some k =>
      match nth_error W k with
      | Some row => match nth_error row c with Some x => Ok x | None => Raise IndexError end
      | None => Raise IndexError
      end
  | None => Raise IndexError
  end.

(* for j, x in enumerate(vs): V += self._W[rowidx(j), c] * x      (j counts from the given start) *)
Fixpoint hop_acc (W : list (list Z)) (rowidx : nat -> Z) (c : nat) (j : nat) (vs : list Z) (V : Z) : res Z :=
  match vs with
  | [] => Ok V
  | x :: vs' => bind (mget_py W (rowidx j) c) (fun w => hop_acc W rowidx c (S j) vs' (V + w * x))
  end.

(* left_neighbours = n[0 : len(n)//2]; right_neighbours = n[len(n)//2 + 1 :]; V = 0;
   left rows  c - self._r + j   (may be negative);  right rows (c + j + 1) % len(n) *)
Definition hopfield_V (W : list (list Z)) (r : nat) (n : list Z) (c : nat) : res Z :=
  let L := length n in
  let left := firstn (L / 2) n in
  let right := skipn (L / 2 + 1) n in
  bind (hop_acc W (fun j => Z.of_nat c - Z.of_nat r + Z.of_nat j) c 0 left 0)
       (fun V => hop_acc W (fun j => Z.of_nat ((c + j + 1) mod L)) c 0 right V).

(* return 1 if V >= 0 else -1 *)
Definition hop (V : Z) : Z := if 0 <=? V then 1 else -1.
Definition hopfield_rule (W : list (list Z)) (r : nat) (n : list Z) (c : nat) : res Z :=
  bind (hopfield_V W r n c) (fun V => Ok (hop V)).

(* the rule as a rule1 callable (stateless; ignores t).  An IndexError inside _rule would abort the
   evolution; the totalised callable returns 0 there, which is not a bipolar value.  The theorem
   hopfield_rule_ok shows that this branch is not taken under the guard (W is N x N, N = 2r+1,
   len n = N, c < N). *)
Definition hopfield_rule1 (W : list (list Z)) (r : nat) : rule1 unit :=
  fun u n c t => (u, match hopfield_rule W r n c with Ok v => v | Raise _ => 0 end).

(* ---------- specification objects ---------- *)
Fixpoint Zsum (f : nat -> Z) (n : nat) : Z :=
  match n with O => 0 | S k => Zsum f k + f k end.

(* the weighted input of cell c from all OTHER cells *)
Definition field_excl (W : list (list Z)) (s : list Z) (c : nat) : Z :=
  Zsum (fun i => if Nat.eqb i c then 0 else mget W i c * nth i s 0) (length s).
(* 2E(s) = - sum_i sum_j W[i][j] s_i s_j   (E = -1/2 s'Ws; doubled to stay in Z) *)
Definition energy2 (W : list (list Z)) (s : list Z) : Z :=
  - Zsum (fun i => Zsum (fun j => mget W i j * nth i s 0 * nth j s 0) (length s)) (length s).

(* the asynchronous Hopfield update of one cell *)
Definition hop_update (W : list (list Z)) (s : list Z) (c : nat) : list Z :=
  upd_list s c (hop (field_excl W s c)).
(* any update order *)
Definition run_updates (W : list (list Z)) (s : list Z) (cs : list nat) : list Z :=
  fold_left (hop_update W) cs s.
Fixpoint trajectory (W : list (list Z)) (s : list Z) (cs : list nat) : list (list Z) :=
  match cs with
  | [] => [s]
  | c :: cs' => s :: trajectory W (hop_update W s c) cs'
  end.

(* ---------- direct schedule model of evolve(initial, T, AsynchronousRule(_rule, order), r) ----------
   State = AsynchronousRule._curr.  Step t updates cell order[curr] to _rule(ring neighbourhood)
   and advances curr cyclically; every other cell keeps its value.  (That this is what
   evolve + AsynchronousRule do is C12/C01; here it is the model the correspondence check runs.) *)
Definition sched_step (W : list (list Z)) (r : nat) (order : list nat)
  : nat -> list Z -> nat -> nat * list Z :=
  fun k s t =>
    let c := nth k order 0%nat in
    (((k + 1) mod length order)%nat,
     upd_list s c (snd (hopfield_rule1 W r tt (ring_nbhd s c r) c t))).

Definition hop_evolve (W : list (list Z)) (r : nat) (order : list nat) (s : list Z) (T : nat)
  : res (nat * list (list Z)) :=
  evolve_fixed [] (sched_step W r order) 0%nat [s] T.
