(* Exact (combinatorial) layer of cellpylib/entropy.py: symbol counts, joint counts, the per-cell
   time series of an automaton, the pairing (s[:-d], s[d:]) and the temporal-distance guard.
   Definitions only; shared by C16 and C18.  Symbols are any type with decidable equality
   (characters as code points, str-renderings as Coq strings, bits as bool, ...). *)
From CPL Require Import Model.Base.
From Coq Require String DecimalString DecimalZ.
Notation string := String.string.
Notation string_dec := String.string_dec.

Section Counts.
Context {A : Type}.
Variable eq_dec : forall a b : A, {a = b} + {a <> b}.

(* entropy.py:14  symbols = dict.fromkeys(list(string)) : the distinct symbols, first occurrence first *)
Fixpoint keys (l : list A) : list A :=
  match l with
  | [] => []
  | x :: t => x :: remove eq_dec x (keys t)
  end.

(* entropy.py:15  string.count(symbol) for symbol in symbols *)
Definition counts (l : list A) : list (A * nat) :=
  map (fun x => (x, count_occ eq_dec l x)) (keys l).

(* what the exact layer of shannon_entropy hands to the real layer: multiplicities and len(string) *)
Definition count_list (l : list A) : list nat := map snd (counts l).
End Counts.

Section Joint.
Context {A B : Type}.
Variable eqA : forall a b : A, {a = b} + {a <> b}.
Variable eqB : forall a b : B, {a = b} + {a <> b}.

Definition pair_dec : forall a b : A * B, {a = b} + {a <> b}.
Proof. decide equality. Defined.

(* entropy.py:52-54  for x in set(X): for y in set(Y): mean(logical_and(X == x, Y == y))
   (every pair of the product, zero multiplicities included; positions are aligned: combine) *)
Definition joint_counts_all (X : list A) (Y : list B) : list ((A * B) * nat) :=
  map (fun q => (q, count_occ pair_dec (combine X Y) q)) (list_prod (keys eqA X) (keys eqB Y)).

(* entropy.py:55  ... for p in joint_symbol_probabilities if p != 0 *)
Definition joint_counts (X : list A) (Y : list B) : list ((A * B) * nat) :=
  filter (fun qc => negb (snd qc =? 0)) (joint_counts_all X Y).

Definition joint_count_list (X : list A) (Y : list B) : list nat := map snd (joint_counts X Y).

(* entropy.py:68  the three count lists of mutual_information and the common length *)
Definition mi_counts (X : list A) (Y : list B) : list nat * list nat * list nat * nat :=
  (count_list eqA X, count_list eqB Y, joint_count_list X Y, length X).
End Joint.

(* ---------- automata: T rows (timesteps) of N cells ---------- *)

(* str(x) of an integer state (entropy.py:33, 98): decimal digits, '-' for negatives, "0" for zero *)
Definition py_str (z : Z) : string := DecimalString.NilZero.string_of_int (Z.to_int z).

(* cellular_automaton[:, i] *)
Definition column {A} (d : A) (i : nat) (rows : list (list A)) : list A := map (fun r => nth i r d) rows.
(* shape[0], shape[1] *)
Definition nrows {A} (rows : list (list A)) : nat := length rows.
Definition ncols {A} (rows : list (list A)) : nat := match rows with [] => 0 | r :: _ => length r end.

(* entropy.py:33, 98  cell_states_over_time = [str(x) for x in cellular_automaton[:, i]] *)
Definition cell_series (rows : list (list Z)) (i : nat) : list string := map py_str (column 0%Z i rows).

(* entropy.py:32-35  per cell: multiplicities of the rendered states and the number of timesteps *)
Definition ace_cells (rows : list (list Z)) : list (list nat * nat) :=
  map (fun i => let s := cell_series rows i in (count_list string_dec s, length s)) (seq 0 (ncols rows)).

(* entropy.py:94  0 < temporal_distance < num_timesteps, num_timesteps = shape[0] *)
Definition ami_guard (d : Z) (T : nat) : bool := (0 <? d)%Z && (d <? Z.of_nat T)%Z.

(* entropy.py:99  (s[:-d], s[d:]) for 0 < d < len(s) *)
Definition pair_d {A} (d : nat) (s : list A) : list A * list A := (firstn (length s - d) s, skipn d s).

(* entropy.py:93-100  per cell: the count lists of mutual_information on the shifted pair *)
Definition ami_cells (rows : list (list Z)) (d : Z) : res (list (list nat * list nat * list nat * nat)) :=
  if ami_guard d (nrows rows) then
    Ok (map (fun i => let (X, Y) := pair_d (Z.to_nat d) (cell_series rows i) in
                      mi_counts string_dec string_dec X Y) (seq 0 (ncols rows)))
  else Raise ValueError.
