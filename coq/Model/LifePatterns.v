(* C11, further finite patterns: still lifes, and the glider in all four directions and all four
   phases.  Executable definitions only (proofs: Proofs/LifePatternsProofs.v). *)
From CPL Require Import Model.Base Model.Life.
Local Open Scope Z_scope.

(* still lifes, each in its bounding box *)
Definition BEEHIVE : list (Z * Z) := [(0,1);(0,2);(1,0);(1,3);(2,1);(2,2)].            (* 3 x 4 *)
Definition LOAF    : list (Z * Z) := [(0,1);(0,2);(1,0);(1,3);(2,1);(2,3);(3,2)].      (* 4 x 4 *)
Definition BOAT    : list (Z * Z) := [(0,0);(0,1);(1,0);(1,2);(2,1)].                  (* 3 x 3 *)
Definition TUB     : list (Z * Z) := [(0,1);(1,0);(1,2);(2,1)].                        (* 3 x 3 *)

(* decidable "is a still life in the plane": one plane step, read with its one-cell halo, gives the
   pattern back in place *)
Definition still_check (p q : Z) (cells : list (Z * Z)) : bool := step_check p q cells cells p q 1 1.

(* quarter turn of a 3 x 3 box: (u, v) -> (v, 2 - u) *)
Definition rot3 (cells : list (Z * Z)) : list (Z * Z) := map (fun c => (snd c, 2 - fst c)) cells.

(* the glider travelling in direction d (0: (+1,+1), 1: (+1,-1), 2: (-1,-1), 3: (-1,+1)), in phase k = 0..3.
   The eight images of a glider under the symmetries of the square are these (a reflection of a glider
   is a glider of some direction in another phase). *)
Definition glider_phase (k : nat) : list (Z * Z) := nth k [G0; G1; G2; G3] G0.
Definition gl (d k : nat) : list (Z * Z) := iter d rot3 (glider_phase k).
Definition nextk (k : nat) : nat := match k with 0%nat => 1%nat | 1%nat => 2%nat | 2%nat => 3%nat | _ => 0%nat end.
(* where the next phase's 3 x 3 box sits inside the 5 x 5 halo box of the current one *)
Definition goff (d k : nat) : Z * Z :=
  iter d (fun p : Z * Z => (snd p, 2 - fst p)) (nth k [(2,1); (1,1); (1,2); (1,1)] (1,1)).
(* displacement after four steps *)
Definition gdir (d : nat) : Z * Z := nth d [(1,1); (1,-1); (-1,-1); (-1,1)] (1,1).

Definition dk16 : list (nat * nat) := list_prod [0;1;2;3]%nat [0;1;2;3]%nat.
(* the sixteen one-step checks: direction d, phase k -> phase k+1 *)
Definition glider_checks : bool :=
  forallb (fun dk : nat * nat =>
             step_check 3 3 (gl (fst dk) (snd dk)) (gl (fst dk) (nextk (snd dk))) 3 3
                        (fst (goff (fst dk) (snd dk))) (snd (goff (fst dk) (snd dk)))) dk16.
