(* Shared executable definitions: Python/NumPy conventions used by every model.
   Definitions only; lemmas about them live in Proofs/BaseLemmas.v. *)
From Coq Require Export List ZArith NArith Bool Arith.
Export ListNotations.

(* Exceptions are compared by class only where a property names the class. *)
Inductive exc := ValueError | TypeError | AssertionError | IndexError | OtherError.
Inductive res (A : Type) := Ok (a : A) | Raise (e : exc).
Arguments Ok {A} a.
Arguments Raise {A} e.

Definition exc_eqb (a b : exc) : bool :=
  match a, b with
  | ValueError, ValueError | TypeError, TypeError | AssertionError, AssertionError
  | IndexError, IndexError | OtherError, OtherError => true
  | _, _ => false
  end.

Definition res_eqb {A} (eq : A -> A -> bool) (a b : res A) : bool :=
  match a, b with
  | Ok x, Ok y => eq x y
  | Raise e, Raise f => exc_eqb e f
  | _, _ => false
  end.

(* "rejected": any exception on both sides counts as agreement *)
Definition res_eqb_anyexc {A} (eq : A -> A -> bool) (a b : res A) : bool :=
  match a, b with
  | Ok x, Ok y => eq x y
  | Raise _, Raise _ => true
  | _, _ => false
  end.

Definition bind {A B} (a : res A) (f : A -> res B) : res B :=
  match a with Ok x => f x | Raise e => Raise e end.

Fixpoint list_eqb {A} (eq : A -> A -> bool) (l m : list A) : bool :=
  match l, m with
  | [], [] => true
  | x :: l', y :: m' => eq x y && list_eqb eq l' m'
  | _, _ => false
  end.

Definition zlist_eqb := list_eqb Z.eqb.
Definition zgrid_eqb := list_eqb zlist_eqb.
Definition zhist_eqb := list_eqb zgrid_eqb.

(* indices of the cases on which a check fails; what a generated cases file prints *)
Fixpoint mismatches_from {A} (chk : A -> bool) (i : nat) (l : list A) : list nat :=
  match l with
  | [] => []
  | x :: l' => if chk x then mismatches_from chk (S i) l' else i :: mismatches_from chk (S i) l'
  end.
Definition mismatches {A} (chk : A -> bool) (l : list A) : list nat := mismatches_from chk 0 l.

(* NumPy basic indexing with a possibly negative index: defined for -n <= i < n *)
Definition py_index (n : nat) (i : Z) : option nat :=
  if (0 <=? i)%Z && (i <? Z.of_nat n)%Z then Some (Z.to_nat i)
  else if (- Z.of_nat n <=? i)%Z && (i <? 0)%Z then Some (Z.to_nat (i + Z.of_nat n))
  else None.

Definition py_get {A} (l : list A) (i : Z) : res A :=
  match py_index (length l) i with
  | Some k => match nth_error l k with Some x => Ok x | None => Raise IndexError end
  | None => Raise IndexError
  end.

(* Python slices on lists: bounds saturate *)
Definition py_last {A} (r : nat) (l : list A) : list A :=   (* l[-r:] *)
  if (r =? 0) || (length l <? r) then l else skipn (length l - r) l.

Definition zsum (l : list Z) : Z := fold_right Z.add 0%Z l.
Definition nsum (l : list nat) : nat := fold_right Nat.add 0 l.

(* consecutive chunks of size b (Python: [l[i:i+b] for i in range(0, len(l), b)]) by fuel *)
Fixpoint chunks_fuel {A} (fuel b : nat) (l : list A) : list (list A) :=
  match fuel with
  | 0 => []
  | S f => match l with [] => [] | _ => firstn b l :: chunks_fuel f b (skipn b l) end
  end.
Definition chunks {A} (b : nat) (l : list A) : list (list A) := chunks_fuel (length l) b l.

(* sliding windows of width w *)
Definition windows {A} (w : nat) (l : list A) : list (list A) :=
  map (fun i => firstn w (skipn i l)) (seq 0 (length l - w + 1)).

Definition b2z (b : bool) : Z := if b then 1%Z else 0%Z.
