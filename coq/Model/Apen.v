(* C19 — model of cellpylib/apen.py (approximate entropy, Pincus 1991).
   Definitions only; proofs live in Proofs/ApenExact.v (exact layer, axiom free) and
   Proofs/ApenProofs.v (real layer and the interval enclosure).

   Three layers:
     1. exact  : input normalisation, windows, Chebyshev distance, match counts C_i(m)  (nat / Z)
     2. real   : phi m = (1/(N-m+1)) * sum_i ln (C_i / (N-m+1)),  apen = |phi (m+1) - phi m|   (R)
     3. twin   : the same expression over verified interval arithmetic (Interval, pure-Z floats),
                 executable by vm_compute; containment is proved in Proofs/ApenProofs.v. *)
From Coq Require Import String Ascii Reals.
From CPL Require Import Model.Base.   (* after String: [length] is List.length *)
From Interval Require Import Specific_stdz Specific_ops Float_full Interval Xreal Basic.

(* ------------------------------------------------------------------ 1. exact layer *)

(* apen.py:26-33  the four branches of the type dispatch.  The payload of SeqList / SeqArray is the
   integer content: after the fixes 8fd721a (ndarray -> .tolist()), bf18ea2 (list -> Python list) and
   7e39c45 (NumPy scalar items of a list -> .item()) both branches compute abs(ua - va) on Python
   numbers, exact for every magnitude and every item type (np.uint8 items no longer wrap, np.bool_ and
   Python bools count as 0/1); the str branch computes on int64 digits 0..9. *)
Inductive seq_input :=
| SeqStr (s : string)        (* type(sequence) is str *)
| SeqList (zs : list Z)      (* type(sequence) is list *)
| SeqArray (zs : list Z)     (* type(sequence) is np.ndarray (any integer dtype) *)
| SeqListNoSub               (* a list whose items do not support `-` (str, None): accepted by the
                                type dispatch, then abs(ua - va) raises; class not constrained by C19 *)
| SeqOther.                  (* tuple, range, bytes, deque, ... *)

(* int(x) for one ASCII character x: the ten digits, anything else raises ValueError *)
Definition digit_of_ascii (c : ascii) : option Z :=
  let n := nat_of_ascii c in
  if (48 <=? n)%nat && (n <=? 57)%nat then Some (Z.of_nat (n - 48)) else None.

(* apen.py:27  [int(x) for x in sequence] *)
Fixpoint digits_of_string (s : string) : res (list Z) :=
  match s with
  | EmptyString => Ok []
  | String c s' =>
      match digit_of_ascii c with
      | None => Raise ValueError
      | Some d => bind (digits_of_string s') (fun ds => Ok (d :: ds))
      end
  end.

(* the digit string of a sequence over 0..9 (used to state that the forms agree) *)
Definition ascii_of_digit (z : Z) : ascii := ascii_of_nat (48 + Z.to_nat z).
Fixpoint string_of_digits (zs : list Z) : string :=
  match zs with [] => EmptyString | z :: zs' => String (ascii_of_digit z) (string_of_digits zs') end.

(* apen.py:26-33 *)
Definition normalise (inp : seq_input) : res (list Z) :=
  match inp with
  | SeqStr s => digits_of_string s
  | SeqList zs => Ok zs
  | SeqArray zs => Ok zs
  | SeqListNoSub => Raise OtherError   (* stands for "some exception"; Corr compares it as "rejected" *)
  | SeqOther => Raise TypeError
  end.

(* apen.py:41  x = [[U[j] for j in range(i, i+m)] for i in range(N - m + 1)]
   nat subtraction truncates, so for N + 1 <= m there are no windows, like range(<= 0). *)
Definition nwin (m : nat) (U : list Z) : nat := length U + 1 - m.
Definition window (m : nat) (U : list Z) (i : nat) : list Z := firstn m (skipn i U).
Definition xwindows (m : nat) (U : list Z) : list (list Z) := map (window m U) (seq 0 (nwin m U)).

(* apen.py:37-38  max([abs(ua - va) for ua, va in zip(x_i, x_j)]).
   For empty windows (m = 0) Python's max raises; the model gives 0 there and [apen] below raises
   before using it.  Since every |ua - va| >= 0, starting the maximum at 0 changes nothing for m >= 1. *)
Definition max_dist (x y : list Z) : Z :=
  fold_right Z.max 0%Z (map (fun p => Z.abs (fst p - snd p)) (combine x y)).

(* apen.py:42  len([1 for x_j in x if maximum_distance(x_i, x_j) <= r]) *)
Definition match_count (r : Z) (xs : list (list Z)) (xi : list Z) : nat :=
  length (filter (fun xj => (max_dist xi xj <=? r)%Z) xs).

(* the numerators of C, one per window *)
Definition Cs (m : nat) (r : Z) (U : list Z) : list nat :=
  let xs := xwindows m U in map (match_count r xs) xs.

(* Pincus' count written directly on indices, independently of the window lists above:
   C_i(m) = #{ j < N-m+1 | for all t < m, |u(i+t) - u(j+t)| <= r }   (self-match j = i included).
   Proofs/ApenExact.v proves that Cs computes exactly this. *)
Definition pincus_match (U : list Z) (m : nat) (r : Z) (i j : nat) : bool :=
  forallb (fun t => (Z.abs (nth (i + t) U 0 - nth (j + t) U 0) <=? r)%Z) (seq 0 m).
Definition pincus_C (U : list Z) (m : nat) (r : Z) (i : nat) : nat :=
  length (filter (pincus_match U m r i) (seq 0 (length U + 1 - m))).

(* Real-valued tolerance (the usual r = 0.2 * std): the code evaluates  d <= r  with d a Python int and
   r a float, which Python decides exactly.  [CsR] is the count with that comparison; it is not
   executable (Rle_dec); Proofs/ApenProofs.v proves CsR m rr U = Cs m (floor rr) U,
   so the correspondence hands floor r to the integer model. *)
Definition match_countR (rr : R) (xs : list (list Z)) (xi : list Z) : nat :=
  length (filter (fun xj => if Rle_dec (IZR (max_dist xi xj)) rr then true else false) xs).
Definition CsR (m : nat) (rr : R) (U : list Z) : list nat :=
  let xs := xwindows m U in map (match_countR rr xs) xs.

(* ------------------------------------------------------------------ 2. real layer *)

Definition Rsum (l : list R) : R := fold_right Rplus 0%R l.

(* apen.py:42-43  C_i / (N - m + 1.0), then (1 / (N - m + 1.0)) * sum(np.log(C)) *)
Definition lnfrac (n : Z) (c : nat) : R := ln (IZR (Z.of_nat c) / IZR n).
Definition phiR (m : nat) (r : Z) (U : list Z) : R :=
  let n := Z.of_nat (nwin m U) in
  (1 / IZR n * Rsum (map (lnfrac n) (Cs m r U)))%R.

(* apen.py:45 *)
Definition apenR (m : nat) (r : Z) (U : list Z) : R := Rabs (phiR (S m) r U - phiR m r U).

(* The whole function.  Domain of C19: m >= 1, r >= 0, length >= m + 1.
   Outside it the model mirrors what the code does, for completeness only:
     m = 0                      -> max([]) raises ValueError (ZeroDivisionError when also N = 0)
     N = m  or  N + 1 = m       -> 1 / 0.0 raises ZeroDivisionError           (OtherError)
     N + 1 < m                  -> no windows on either side, abs(-0.0 - -0.0) = 0.0
   None of the C19 theorems speaks about these branches. *)
Definition apen_seq (U : list Z) (m : nat) (r : Z) : res R :=
  let N := length U in
  if (m =? 0)%nat then Raise (if (N =? 0)%nat then OtherError else ValueError)
  else if (N =? m)%nat || (N + 1 =? m)%nat then Raise OtherError
  else if (N + 1 <? m)%nat then Ok 0%R
  else Ok (apenR m r U).

Definition apen (inp : seq_input) (m : nat) (r : Z) : res R :=
  bind (normalise inp) (fun U => apen_seq U m r).

(* ------------------------------------------------------------------ 3. interval twin *)
(* Verified enclosure of apenR, executable by vm_compute.  It evaluates ln (c / n) as ln c - ln n with
   the logarithms of the integers 0..129 taken from a table (a closed constant, so the VM evaluates
   it once per Coq process instead of ~120 logarithms per case); Proofs/ApenProofs.v proves
   contains (apenI m r U) (apenR m r U), which is all the correspondence relies on. *)

Module F := SpecificFloat StdZRadix2.
Module I := FloatIntervalFull F.

Definition prec : F.precision := F.PtoP 80.

Definition lnI (k : Z) : I.type := I.ln prec (I.fromZ prec k).
Definition lntab : list I.type := map (fun k => lnI (Z.of_nat k)) (seq 0 130).
Definition lnN (k : nat) : I.type :=
  match nth_error lntab k with Some v => v | None => lnI (Z.of_nat k) end.

Definition IsumI (l : list I.type) : I.type := fold_right (I.add prec) (I.fromZ prec 0) l.

Definition lnfracI (n c : nat) : I.type := I.sub prec (lnN c) (lnN n).

(* [map f l] with f evaluated once per distinct element (the VM is call-by-value, so [tab] is computed
   once): long sequences have thousands of windows but few distinct counts, and beyond the table every
   logarithm costs ~20 ms.  Proofs/ApenProofs.v: memo_map f l = map f l. *)
Fixpoint assoc_nat (k : nat) (tab : list (nat * I.type)) : option I.type :=
  match tab with
  | [] => None
  | (k', v) :: tab' => if (k =? k')%nat then Some v else assoc_nat k tab'
  end.
Fixpoint distinct (l acc : list nat) : list nat :=
  match l with
  | [] => acc
  | c :: l' => if existsb (Nat.eqb c) acc then distinct l' acc else distinct l' (c :: acc)
  end.
Definition memo_map (f : nat -> I.type) (l : list nat) : list I.type :=
  let tab := map (fun c => (c, f c)) (distinct l []) in
  map (fun c => match assoc_nat c tab with Some v => v | None => f c end) l.

Definition phiI (m : nat) (r : Z) (U : list Z) : I.type :=
  let n := nwin m U in
  I.mul prec (I.div prec (I.fromZ prec 1) (I.fromZ prec (Z.of_nat n)))
             (IsumI (memo_map (lnfracI n) (Cs m r U))).

Definition apenI (m : nat) (r : Z) (U : list Z) : I.type :=
  I.abs (I.sub prec (phiI (S m) r U) (phiI m r U)).

(* the whole function over intervals: same dispatch and guards as [apen] *)
Definition apen_seqI (U : list Z) (m : nat) (r : Z) : res I.type :=
  let N := length U in
  if (m =? 0)%nat then Raise (if (N =? 0)%nat then OtherError else ValueError)
  else if (N =? m)%nat || (N + 1 =? m)%nat then Raise OtherError
  else if (N + 1 <? m)%nat then Ok (I.fromZ prec 0)
  else Ok (apenI m r U).

Definition apen_twin (inp : seq_input) (m : nat) (r : Z) : res I.type :=
  bind (normalise inp) (fun U => apen_seqI U m r).

(* A double transported exactly as mantissa * 2^exponent (from float.hex()); 80 bits hold the 53-bit
   mantissa, so the enclosure is a point (and an enclosure in any case). *)
Definition doubleR (mant ex : Z) : R :=
  if (0 <=? ex)%Z then (IZR mant * IZR (2 ^ ex))%R else (IZR mant / IZR (2 ^ (- ex)))%R.
Definition doubleI (mant ex : Z) : I.type :=
  if (0 <=? ex)%Z then I.mul prec (I.fromZ prec mant) (I.fromZ prec (2 ^ ex))
  else I.div prec (I.fromZ prec mant) (I.fromZ prec (2 ^ (- ex))).

(* [-2^-30, 2^-30] *)
Definition tol : R := (/ IZR (2 ^ 30))%R.
Definition tolI : I.type := I.bnd (F.scale2 (F.fromZ (-1)) (-30)%Z) (F.scale2 (F.fromZ 1) (-30)%Z).

(* the returned double lies within 2^-30 of every point of the enclosure of the model's value *)
Definition close_to_model (m : nat) (r : Z) (U : list Z) (mant ex : Z) : bool :=
  I.subset (I.sub prec (doubleI mant ex) (apenI m r U)) tolI.
