(* Model of cellpylib/ca_functions.py:732-825, class AsynchronousRule (C12).
   Executable definitions only.  The object is a state machine threaded through the engine like any
   other rule state: (update_order, curr, num_applied, randomize_each_cycle, number of shuffles drawn so
   far, state of the wrapped rule).  np.random.shuffle is an oracle `sh : nat -> list cell -> list cell`
   (the i-th shuffle of this object's life installs `sh i order`); theorems quantify over every oracle
   that returns permutations.  Generic in the cell identity (nat in 1D, nat * nat in 2D). *)
From CPL Require Import Model.Base Model.Rules Model.Engine Model.Evolve1D Model.Evolve2D.

Section Async.
  Variable cell : Type.
  Variable ceq : cell -> cell -> bool.          (* Python == on cell identities *)
  Variable dc : cell.                           (* default of nth; never read for a non-empty order *)
  Variable NB : Type.                           (* neighbourhood: list Z (1D) or nbhd2 (2D) *)
  Variable centre : NB -> Z.                    (* _current_cell_value, lines 819-825 *)
  Variable St : Type.                           (* state of the wrapped rule *)
  Variable inner : St -> NB -> cell -> nat -> St * Z.   (* self._apply_rule *)
  Variable sh : nat -> list cell -> list cell.  (* outcome of the i-th np.random.shuffle *)

  (* lines 765-773: the fields of the object, plus the oracle position and the wrapped rule's state *)
  Record astate := mkA {
    a_order : list cell;      (* self._update_order *)
    a_curr : nat;             (* self._curr *)
    a_napp : nat;             (* self._num_applied *)
    a_rand : bool;            (* self._randomize_each_cycle *)
    a_nsh : nat;              (* how many shuffles have been drawn from the oracle *)
    a_inner : St              (* state of self._apply_rule *)
  }.

  (* line 807: c in self._update_order *)
  Definition cmem (c : cell) (l : list cell) : bool := existsb (ceq c) l.

  (* lines 783-784: np.random.shuffle(self._update_order) *)
  Definition shuffle_order (a : astate) : astate :=
    mkA (sh (a_nsh a) (a_order a)) (a_curr a) (a_napp a) (a_rand a) (S (a_nsh a)) (a_inner a).

  (* lines 812-817: _check_for_end_of_cycle *)
  Definition end_cycle (a : astate) : astate :=
    if a_napp a =? length (a_order a) then
      let a' := mkA (a_order a) ((a_curr a + 1) mod length (a_order a)) 0 (a_rand a) (a_nsh a) (a_inner a) in
      if a_rand a then shuffle_order a' else a'
    else a.

  (* lines 786-804: __call__.  Order of effects: count the cell if it is listed (798-799); evaluate
     _should_update on the still unadvanced _curr (800 / 810); run the end-of-cycle check (801 / 803);
     only then either return the centre of the neighbourhood (802) or call the wrapped rule (804). *)
  Definition async_call (a : astate) (n : NB) (c : cell) (t : nat) : astate * Z :=
    let a1 := if cmem c (a_order a)
              then mkA (a_order a) (a_curr a) (a_napp a + 1) (a_rand a) (a_nsh a) (a_inner a) else a in
    let upd := ceq c (nth (a_curr a1) (a_order a1) dc) in
    let a2 := end_cycle a1 in
    if upd then
      let '(s', v) := inner (a_inner a2) n c t in
      (mkA (a_order a2) (a_curr a2) (a_napp a2) (a_rand a2) (a_nsh a2) s', v)
    else (a2, centre n).

  (* lines 763-773, update_order given *)
  Definition async_init (order : list cell) (rand : bool) (s0 : St) : astate := mkA order 0 0 rand 0 s0.
  (* lines 763-773, num_cells given: build the list of all cells (775-781), shuffle it once (770) *)
  Definition async_init_cells (all : list cell) (rand : bool) (s0 : St) : astate :=
    shuffle_order (mkA all 0 0 rand 0 s0).

  (* ---- specification: the sequential automaton the property describes.  One step rewrites exactly
     the scheduled cell order[curr] with the wrapped rule's value on that cell's neighbourhood, calls
     the wrapped rule once, advances curr cyclically and (randomize_each_cycle) installs the next
     shuffle outcome.  `nbof cur x` is the neighbourhood of cell x in configuration cur, `upd cur x v`
     is cur with cell x set to v. *)
  Variable C : Type.
  Variable nbof : C -> cell -> NB.
  Variable upd : C -> cell -> Z -> C.
  Variable store : Z -> Z.
  Definition seq_step (a : astate) (cur : C) (t : nat) : astate * C :=
    let x := nth (a_curr a) (a_order a) dc in
    let '(s', v) := inner (a_inner a) (nbof cur x) x t in
    (mkA (if a_rand a then sh (a_nsh a) (a_order a) else a_order a)
         ((a_curr a + 1) mod length (a_order a)) 0 (a_rand a)
         (if a_rand a then S (a_nsh a) else a_nsh a) s',
     upd cur x (store v)).
  (* the cell scheduled in each of n consecutive steps *)
  Fixpoint sched_trace (n : nat) (rand : bool) (o : list cell) (k j : nat) : list cell :=
    match n with
    | 0 => []
    | S n' => nth k o dc :: sched_trace n' rand (if rand then sh j o else o) ((k + 1) mod length o)
                                        (if rand then S j else j)
    end.
End Async.

Arguments mkA {cell St} a_order a_curr a_napp a_rand a_nsh a_inner.
Arguments a_order {cell St} a.
Arguments a_curr {cell St} a.
Arguments a_napp {cell St} a.
Arguments a_rand {cell St} a.
Arguments a_nsh {cell St} a.
Arguments a_inner {cell St} a.
Arguments async_init {cell St} order rand s0.
Arguments async_init_cells {cell St} sh all rand s0.

(* ---- 1D instance: c is the cell index; lines 820-821: n[len(n)//2] *)
Definition centre1 (n : list Z) : Z := nth (length n / 2) n 0%Z.
Definition async_rule1 {St} (inner : rule1 St) (sh : nat -> list nat -> list nat) : rule1 (astate nat St) :=
  async_call nat Nat.eqb 0 (list Z) centre1 St inner sh.

(* ---- 2D instance: c is (row, col); lines 822-823: n[n.shape[0]//2][n.shape[1]//2] *)
Definition pair_eqb (a b : nat * nat) : bool := (fst a =? fst b) && (snd a =? snd b).
Definition centre2 (n : nbhd2) : Z :=
  let v := nb_vals n in nth (length (hd [] v) / 2) (nth (length v / 2) v []) 0%Z.
Definition async_rule2 {St} (inner : rule2 St) (sh : nat -> list (nat * nat) -> list (nat * nat))
  : rule2 (astate (nat * nat) St) :=
  async_call (nat * nat) pair_eqb (0, 0) nbhd2 centre2 St inner sh.

(* lines 775-781: _init_update_order.  int -> np.arange(num_cells); pair -> row-major coordinates *)
Definition init_order1 (N : nat) : list nat := seq 0 N.
Definition init_order2 (R C : nat) : list (nat * nat) :=
  flat_map (fun i => map (fun j => (i, j)) (seq 0 C)) (seq 0 R).

(* ---- a scripted shuffle oracle (correspondence check): the i-th shuffle installs
   [l[p[0]], l[p[1]], ...] for the i-th scripted index permutation p; identity when the script is
   exhausted or the entry has the wrong length (never generated). *)
Definition apply_perm {A} (d : A) (p : list nat) (l : list A) : list A :=
  if length p =? length l then map (fun i => nth i l d) p else l.
Definition script_sh {A} (d : A) (ps : list (list nat)) : nat -> list A -> list A :=
  fun i l => apply_perm d (nth i ps []) l.

(* ---- the spec-side single-cell writes *)
Definition nbof1 (r : nat) (cells : list Z) (x : nat) : list Z := nth x (neighbourhoods cells r) [].
Definition upd1 (cells : list Z) (x : nat) (v : Z) : list Z :=
  map (fun c => if c =? x then v else nth c cells 0%Z) (seq 0 (length cells)).
Definition nbof2 (r : nat) (ty : nbhd_type) (g : grid) (x : nat * nat) : nbhd2 :=
  get_neighbourhood g (grid_rows g) (grid_cols g) r (fst x) (snd x) ty.
Definition upd2 (g : grid) (x : nat * nat) (v : Z) : grid :=
  map (fun i => map (fun j => if pair_eqb (i, j) x then v else nth j (nth i g []) 0%Z) (seq 0 (grid_cols g)))
      (seq 0 (grid_rows g)).
Definition seq_step1 {St} (inner : rule1 St) sh store r :=
  seq_step nat 0 (list Z) St inner sh (list Z) (nbof1 r) upd1 store.
Definition seq_step2 {St} (inner : rule2 St) sh store r ty :=
  seq_step (nat * nat) (0, 0) nbhd2 St inner sh grid (nbof2 r ty) upd2 store.

(* ---- the calls the correspondence check evaluates.
   cpl.evolve(hist, T, cpl.AsynchronousRule(Logged(inner), update_order=order, randomize_each_cycle=rand), r)
   An empty update_order raises IndexError at the first call (line 810: self._update_order[0]); that is
   the only input on which the rule-level model is totalised, so the guard is stated here. *)
Definition async_evolve1d (sp : rule_spec) (o : option (list nat)) (rand : bool) (ps : list (list nat))
           (r : nat) (hist : list (list Z)) (T : nat) : res (list (list Z) * list call1) :=
  let N := length (last hist []) in
  let a0 := match o with
            | Some order => async_init order rand (0, [])
            | None => async_init_cells (script_sh 0 ps) (init_order1 N) rand (0, [])
            end in
  if (length (a_order a0) =? 0) && (2 <=? T) && (1 <=? N) then Raise IndexError else
  bind (evolve_plain (async_rule1 (logged1 (spec_rule1 sp)) (script_sh 0 ps)) store_id r a0 hist T)
       (fun xr => Ok (snd xr, snd (a_inner (fst xr)))).

Definition async_evolve2d (sp : rule_spec) (o : option (list (nat * nat))) (rand : bool) (ps : list (list nat))
           (r : nat) (ty : nbhd_type) (hist : list grid) (T : nat) : res (list grid * list call2) :=
  let g0 := last hist [] in
  let a0 := match o with
            | Some order => async_init order rand (0, [])
            | None => async_init_cells (script_sh (0, 0) ps) (init_order2 (grid_rows g0) (grid_cols g0)) rand (0, [])
            end in
  if (length (a_order a0) =? 0) && (2 <=? T) && (1 <=? grid_rows g0 * grid_cols g0) then Raise IndexError else
  bind (evolve2d_plain (async_rule2 (logged2 (spec_rule2 sp)) (script_sh (0, 0) ps)) store_id r ty a0 hist T)
       (fun xr => Ok (snd xr, snd (a_inner (fst xr)))).

(* ---- one rule object used for two consecutive evolve calls (the second call starts with curr <> 0, the
   shuffle counter and the wrapped rule's state where the first call left them; step numbers restart at 1) *)
Definition async_obj1 (o : option (list nat)) (rand : bool) (ps : list (list nat)) (N : nat)
  : astate nat (nat * list call1) :=
  match o with
  | Some order => async_init order rand (0, [])
  | None => async_init_cells (script_sh 0 ps) (init_order1 N) rand (0, [])
  end.
Definition async_evolve1d_obj (sp : rule_spec) (ps : list (list nat)) (r : nat)
           (a0 : astate nat (nat * list call1)) (hist : list (list Z)) (T : nat)
  : res (astate nat (nat * list call1) * list (list Z)) :=
  if (length (a_order a0) =? 0) && (2 <=? T) && (1 <=? length (last hist [])) then Raise IndexError else
  evolve_plain (async_rule1 (logged1 (spec_rule1 sp)) (script_sh 0 ps)) store_id r a0 hist T.
Definition async_evolve1d_twice (sp : rule_spec) (o : option (list nat)) (rand : bool) (ps : list (list nat))
           (r : nat) (hist1 : list (list Z)) (T1 : nat) (hist2 : list (list Z)) (T2 : nat)
  : res (list (list Z) * list (list Z) * list call1) :=
  bind (async_evolve1d_obj sp ps r (async_obj1 o rand ps (length (last hist1 []))) hist1 T1) (fun x1 =>
  bind (async_evolve1d_obj sp ps r (fst x1) hist2 T2) (fun x2 =>
  Ok (snd x1, snd x2, snd (a_inner (fst x2))))).

Definition async_obj2 (o : option (list (nat * nat))) (rand : bool) (ps : list (list nat)) (R C : nat)
  : astate (nat * nat) (nat * list call2) :=
  match o with
  | Some order => async_init order rand (0, [])
  | None => async_init_cells (script_sh (0, 0) ps) (init_order2 R C) rand (0, [])
  end.
Definition async_evolve2d_obj (sp : rule_spec) (ps : list (list nat)) (r : nat) (ty : nbhd_type)
           (a0 : astate (nat * nat) (nat * list call2)) (hist : list grid) (T : nat)
  : res (astate (nat * nat) (nat * list call2) * list grid) :=
  let g0 := last hist [] in
  if (length (a_order a0) =? 0) && (2 <=? T) && (1 <=? grid_rows g0 * grid_cols g0) then Raise IndexError else
  evolve2d_plain (async_rule2 (logged2 (spec_rule2 sp)) (script_sh (0, 0) ps)) store_id r ty a0 hist T.
Definition async_evolve2d_twice (sp : rule_spec) (o : option (list (nat * nat))) (rand : bool) (ps : list (list nat))
           (r : nat) (ty : nbhd_type) (hist1 : list grid) (T1 : nat) (hist2 : list grid) (T2 : nat)
  : res (list grid * list grid * list call2) :=
  let g0 := last hist1 [] in
  bind (async_evolve2d_obj sp ps r ty (async_obj2 o rand ps (grid_rows g0) (grid_cols g0)) hist1 T1) (fun x1 =>
  bind (async_evolve2d_obj sp ps r ty (fst x1) hist2 T2) (fun x2 =>
  Ok (snd x1, snd x2, snd (a_inner (fst x2))))).

(* ---- one rule object driven through any number of successive evolve calls: calls = [(history given, timesteps)] *)
Fixpoint async_evolve1d_calls (sp : rule_spec) (ps : list (list nat)) (r : nat)
         (a : astate nat (nat * list call1)) (calls : list (list (list Z) * nat))
  : res (astate nat (nat * list call1) * list (list (list Z))) :=
  match calls with
  | [] => Ok (a, [])
  | (hist, T) :: rest =>
      bind (async_evolve1d_obj sp ps r a hist T) (fun x =>
      bind (async_evolve1d_calls sp ps r (fst x) rest) (fun y => Ok (fst y, snd x :: snd y)))
  end.
Definition async_evolve1d_seq (sp : rule_spec) (o : option (list nat)) (rand : bool) (ps : list (list nat))
           (r : nat) (calls : list (list (list Z) * nat)) : res (list (list (list Z)) * list call1) :=
  let N := length (last (fst (hd ([], 0) calls)) []) in
  bind (async_evolve1d_calls sp ps r (async_obj1 o rand ps N) calls)
       (fun x => Ok (snd x, snd (a_inner (fst x)))).

Fixpoint async_evolve2d_calls (sp : rule_spec) (ps : list (list nat)) (r : nat) (ty : nbhd_type)
         (a : astate (nat * nat) (nat * list call2)) (calls : list (list grid * nat))
  : res (astate (nat * nat) (nat * list call2) * list (list grid)) :=
  match calls with
  | [] => Ok (a, [])
  | (hist, T) :: rest =>
      bind (async_evolve2d_obj sp ps r ty a hist T) (fun x =>
      bind (async_evolve2d_calls sp ps r ty (fst x) rest) (fun y => Ok (fst y, snd x :: snd y)))
  end.
Definition async_evolve2d_seq (sp : rule_spec) (o : option (list (nat * nat))) (rand : bool) (ps : list (list nat))
           (r : nat) (ty : nbhd_type) (calls : list (list grid * nat)) : res (list (list grid) * list call2) :=
  let g0 := last (fst (hd ([], 0) calls)) [] in
  bind (async_evolve2d_calls sp ps r ty (async_obj2 o rand ps (grid_rows g0) (grid_cols g0)) calls)
       (fun x => Ok (snd x, snd (a_inner (fst x)))).
