(* Model of the block automata (C10):
     cellpylib/ca_functions.py    evolve_block     (lines 61-108)
     cellpylib/ca_functions2d.py  evolve2d_block   (lines 262-315)
   built on the shared outer loop Model/Engine.v (evolve_fixed).
   Executable definitions only; proofs are in Proofs/BlockProofs.v. *)
From CPL Require Import Model.Base Model.Engine.

(* ------------------------------------------------------------------ common *)

(* arr[i] = v   (i < len(arr); out of range leaves the list unchanged — never reached: every index the
   engines write is below the length, see BlockProofs.blocks_in_range) *)
Fixpoint upd {A} (l : list A) (i : nat) (v : A) : list A :=
  match l, i with
  | [], _ => []
  | _ :: l', 0 => v :: l'
  | x :: l', S i' => x :: upd l' i' v
  end.

(* the dtype cast of an automaton whose dtype holds every result exactly *)
Definition id_store (z : Z) : Z := z.

(* ------------------------------------------------------------------ 1D *)

(* cell_indices = list(range(N));
   block_indices_odd = [cell_indices[i:i+b] for i in range(0, N, b)]               (lines 94-95) *)
Definition blocks_odd (N b : nat) : list (list nat) := chunks b (seq 0 N).

(* cell_indices = [cell_indices[-1]] + cell_indices[:-1]                             (line 96)
   (for N = 0 the code raises IndexError at cell_indices[-1]; evolve_block below reports that) *)
Definition rotated (N : nat) : list nat :=
  match N with 0 => [] | S k => k :: seq 0 k end.

(* block_indices_even = [cell_indices[i:i+b] for i in range(0, N, b)]               (line 97) *)
Definition blocks_even (N b : nat) : list (list nat) := chunks b (rotated N).

(* strides = block_indices_even if t % 2 == 0 else block_indices_odd                 (line 101) *)
Definition blocks_at (N b t : nat) : list (list nat) :=
  if t mod 2 =? 0 then blocks_even N b else blocks_odd N b.

(* the block rule as a state machine: state, tuple of the block's states, t -> new state, returned tuple *)
Definition block_rule (St : Type) := St -> list Z -> nat -> St * list Z.

(* call log: (block contents, t) *)
Definition bcall := (list Z * nat)%type.
Definition logged_b {St} (f : block_rule St) : block_rule (St * list bcall) :=
  fun st blk t => let '(s, lg) := st in let '(s', v) := f s blk t in ((s', lg ++ [(blk, t)]), v).

(* a pure (stateless) block rule *)
Definition pure_b (f : list Z -> nat -> list Z) : block_rule unit := fun u blk t => (u, f blk t).

(* tuple(cells[stride]) *)
Definition gather (cells : list Z) (stride : list nat) : list Z :=
  map (fun i => nth i cells 0%Z) stride.

Section Block1D.
  Variable St : Type.
  Variable rule : block_rule St.
  Variable store : Z -> Z.          (* the cast into the automaton's dtype *)

  (* for i, r in zip(stride, res): arr[i] = r        (lines 105-106; zip truncates to the shorter) *)
  Definition scatter (arr : list Z) (stride : list nat) (res : list Z) : list Z :=
    fold_left (fun a (ir : nat * Z) => upd a (fst ir) (store (snd ir))) (combine stride res) arr.

  (* for stride in strides: res = apply_rule(tuple(cells[stride]), t); write back   (lines 103-106) *)
  Fixpoint apply_blocks (s : St) (cells arr : list Z) (strides : list (list nat)) (t : nat) : St * list Z :=
    match strides with
    | [] => (s, arr)
    | stride :: rest =>
        let '(s1, res) := rule s (gather cells stride) t in
        apply_blocks s1 cells (scatter arr stride res) rest t
    end.

  (* one time step: arr = np.zeros(cols); ...; array[t] = arr                        (lines 99-107)
     cells the rule's (too short) results do not reach keep the 0 of np.zeros *)
  Definition step_block (b : nat) : St -> list Z -> nat -> St * list Z :=
    fun s cells t =>
      let N := length cells in
      apply_blocks s cells (repeat 0%Z N) (blocks_at N b t) t.

  (* evolve_block(cellular_automaton, block_size, timesteps, apply_rule)
       cellular_automaton[-1] on an empty history      -> IndexError
       cols % block_size with block_size = 0           -> ZeroDivisionError (OtherError)
       cols % block_size != 0                          -> Exception (OtherError)      (lines 88-89)
       timesteps = 0: array[0] = ...                   -> IndexError  (evolve_fixed)
       cols = 0: cell_indices[-1]                      -> IndexError                  (line 96) *)
  Definition evolve_block (b : nat) (s0 : St) (hist : list (list Z)) (T : nat) : res (St * list (list Z)) :=
    match hist with
    | [] => Raise IndexError
    | _ =>
        let N := length (last hist []) in
        if b =? 0 then Raise OtherError
        else if negb (N mod b =? 0) then Raise OtherError
        else if N =? 0 then Raise IndexError
        else evolve_fixed [] (step_block b) s0 hist T
    end.
End Block1D.

Arguments apply_blocks {St} rule store s cells arr strides t.
Arguments step_block {St} rule store b.
Arguments evolve_block {St} rule store b s0 hist T.

(* ------------------------------------------------------------------ 2D *)

Definition grid2 := list (list Z).
Definition rows_of (g : grid2) : nat := length g.
Definition cols_of (g : grid2) : nat := length (hd [] g).

(* list(range(n))[::b] : 0, b, 2b, ... below n *)
Definition starts (n b : nat) : list nat := map (fun k => k * b) (seq 0 ((n + b - 1) / b)).

(* a 2D block: (row_indices, col_indices) *)
Definition block2 := (list nat * list nat)%type.

(* for r in range(rows)[::b1]: for c in range(cols)[::b2]:
     block_indices_odd.append((range(r, r+b1), range(c, c+b2)))                     (lines 293-299) *)
Definition blocks2_odd (R C b1 b2 : nat) : list block2 :=
  flat_map (fun r => map (fun c => (seq r b1, seq c b2)) (starts C b2)) (starts R b1).

(* ([(i+1) % rows for i in row_indices], [(i+1) % cols for i in col_indices])       (lines 301-306) *)
Definition shift_block (R C : nat) (rc : block2) : block2 :=
  (map (fun i => (i + 1) mod R) (fst rc), map (fun i => (i + 1) mod C) (snd rc)).
Definition blocks2_even (R C b1 b2 : nat) : list block2 :=
  map (shift_block R C) (blocks2_odd R C b1 b2).

Definition blocks2_at (R C b1 b2 t : nat) : list block2 :=
  if t mod 2 =? 0 then blocks2_even R C b1 b2 else blocks2_odd R C b1 b2.

(* the cells np.ix_(row_indices, col_indices) addresses, row-major *)
Definition block_cells (rc : block2) : list (nat * nat) := list_prod (fst rc) (snd rc).

Definition block_rule2 (St : Type) := St -> grid2 -> nat -> St * grid2.
Definition bcall2 := (grid2 * nat)%type.
Definition logged_b2 {St} (f : block_rule2 St) : block_rule2 (St * list bcall2) :=
  fun st blk t => let '(s, lg) := st in let '(s', v) := f s blk t in ((s', lg ++ [(blk, t)]), v).
Definition pure_b2 (f : grid2 -> nat -> grid2) : block_rule2 unit := fun u blk t => (u, f blk t).

Definition get2 (g : grid2) (ij : nat * nat) : Z := nth (snd ij) (nth (fst ij) g []) 0%Z.
Definition upd2 (g : grid2) (ij : nat * nat) (v : Z) : grid2 :=
  upd g (fst ij) (upd (nth (fst ij) g []) (snd ij) v).

(* cell_layer[np.ix_(row_indices, col_indices)] *)
Definition gather2 (g : grid2) (rc : block2) : grid2 :=
  map (fun i => map (fun j => get2 g (i, j)) (snd rc)) (fst rc).

(* shape (h, w) exactly *)
Definition shape_eqb (h w : nat) (v : grid2) : bool :=
  (length v =? h) && forallb (fun row => length row =? w) v.

(* NumPy assignment `a[np.ix_(ri, ci)] = v` for a nested-list / 2D-array v: the value is broadcast
   to the (h, w) target; allowed source shapes are (h|1, w|1); ragged rows, empty values and any other
   shape raise ValueError (None). *)
Definition bcast (h w : nat) (v : grid2) : option grid2 :=
  if shape_eqb h w v then Some v
  else
    let vh := length v in let vw := length (hd [] v) in
    if shape_eqb vh vw v && ((vh =? h) || (vh =? 1)) && ((vw =? w) || (vw =? 1)) then
      Some (map (fun a => map (fun c => nth (if vw =? 1 then 0 else c) (nth (if vh =? 1 then 0 else a) v []) 0%Z)
                              (seq 0 w)) (seq 0 h))
    else None.

Section Block2D.
  Variable St : Type.
  Variable rule : block_rule2 St.
  Variable store : Z -> Z.

  (* array[t][np.ix_(ri, ci)] = v  with v of the block's shape: element (a, c) of v goes to cell
     (ri[a], ci[c]); row-major order *)
  Definition scatter2 (arr : grid2) (rc : block2) (v : grid2) : grid2 :=
    fold_left (fun a (kv : (nat * nat) * Z) => upd2 a (fst kv) (store (snd kv)))
              (combine (block_cells rc) (concat v)) arr.

  (* for row_indices, col_indices in strides:
       n = cell_layer[np.ix_(...)]; array[t][np.ix_(...)] = apply_rule(n, t)          (lines 311-313)
     The boolean is True when a result could not be broadcast (ValueError): the loop stops there. *)
  Fixpoint apply_blocks2 (s : St) (g arr : grid2) (blocks : list block2) (t : nat) : St * bool * grid2 :=
    match blocks with
    | [] => (s, false, arr)
    | rc :: rest =>
        let '(s1, v) := rule s (gather2 g rc) t in
        match bcast (length (fst rc)) (length (snd rc)) v with
        | Some v' => apply_blocks2 s1 g (scatter2 arr rc v') rest t
        | None => (s1, true, arr)
        end
    end.

  (* one time step on array[t] = zeros; the threaded state carries the "an exception was raised" flag,
     after which nothing more is executed *)
  Definition step_block2d (b1 b2 : nat) : St * bool -> grid2 -> nat -> (St * bool) * grid2 :=
    fun sb g t =>
      if snd sb then (sb, g)
      else
        let R := rows_of g in let C := cols_of g in
        let '(s', bad, arr) :=
          apply_blocks2 (fst sb) g (repeat (repeat 0%Z C) R) (blocks2_at R C b1 b2 t) t in
        ((s', bad), arr).

  (* evolve2d_block(cellular_automaton, block_size, timesteps, apply_rule)
       empty history / timesteps = 0            -> IndexError               (lines 286-289)
       block_size 0 on an axis                  -> ZeroDivisionError (OtherError)
       rows % b1 != 0 or cols % b2 != 0         -> Exception (OtherError)  (lines 291-292)
       a result of the wrong shape              -> ValueError *)
  Definition evolve2d_block (b1 b2 : nat) (s0 : St) (hist : list grid2) (T : nat) : res (St * list grid2) :=
    match hist with
    | [] => Raise IndexError
    | _ =>
        let g := last hist [] in
        if T =? 0 then Raise IndexError
        else if (b1 =? 0) || (b2 =? 0) then Raise OtherError
        else if negb (rows_of g mod b1 =? 0) || negb (cols_of g mod b2 =? 0) then Raise OtherError
        else
          match evolve_fixed [] (step_block2d b1 b2) (s0, false) hist T with
          | Ok ((s, bad), gs) => if bad then Raise ValueError else Ok (s, gs)
          | Raise e => Raise e
          end
    end.
End Block2D.

Arguments apply_blocks2 {St} rule store s g arr blocks t.
Arguments step_block2d {St} rule store b1 b2.
Arguments evolve2d_block {St} rule store b1 b2 s0 hist T.

(* ------------------------------------------------------------------ rule families of the
   correspondence check (Python twins in harness/props/c10.py).  One state type: the call counter. *)

(* rotate a list left by k *)
Definition rotl {A} (k : nat) (l : list A) : list A :=
  match length l with
  | 0 => l
  | n => skipn (k mod n) l ++ firstn (k mod n) l
  end.

Fixpoint lookup_tbl {A} (eqb : A -> A -> bool) (tbl : list (A * A)) (x : A) : A :=
  match tbl with
  | [] => x
  | (k, v) :: tbl' => if eqb k x then v else lookup_tbl eqb tbl' x
  end.

Inductive brule_spec :=
| BScript (vs : list (list Z))              (* the i-th call returns vs[i] (() when exhausted) *)
| BRev                                      (* tuple(reversed(blk)) *)
| BRot (k : nat)                            (* blk rotated left by k *)
| BRotT                                     (* blk rotated left by t *)
| BSwap (tbl : list (list Z * list Z)).     (* table lookup, identity when absent *)

Definition spec_brule (sp : brule_spec) : block_rule nat :=
  fun i blk t =>
    (S i, match sp with
          | BScript vs => nth i vs []
          | BRev => rev blk
          | BRot k => rotl k blk
          | BRotT => rotl t blk
          | BSwap tbl => lookup_tbl zlist_eqb tbl blk
          end).

Inductive brule2_spec :=
| B2Script (vs : list grid2)
| B2Rev                                     (* blk[::-1, ::-1] *)
| B2Roll (k1 k2 : nat)                      (* rows rotated up by k1, columns left by k2 *)
| B2RollT                                   (* the same by (t, t) *)
| B2Swap (tbl : list (grid2 * grid2)).

Definition spec_brule2 (sp : brule2_spec) : block_rule2 nat :=
  fun i blk t =>
    (S i, match sp with
          | B2Script vs => nth i vs []
          | B2Rev => rev (map (@rev Z) blk)
          | B2Roll k1 k2 => rotl k1 (map (rotl k2) blk)
          | B2RollT => rotl t (map (rotl t) blk)
          | B2Swap tbl => lookup_tbl zgrid_eqb tbl blk
          end).
