(* Model of cellpylib/ca_functions.py: class ReversibleRule (698-729), as used by
   evolve(ca, T, ReversibleRule(init_state, R), r) -> _evolve_fixed (157-205, memoize=False) (C13).
   Executable definitions only.

   The property is about aliasing, so there are TWO models of the rule object's constructor over a
   tiny explicit heap: `mk_reversible` (the code as it is now: self._previous_state = np.array(init_state),
   a private copy) and `mk_reversible_aliasing` (the mechanism before commit bfa38cd:
   self._previous_state = init_state, the caller's object itself).  __call__ is ONE definition
   (`reversible_call`) that reads and writes through whatever reference the object holds, and
   `evolve_heap` re-reads the caller's automaton at the end exactly like np.concatenate does, so "the
   caller's arrays are unchanged" is a theorem about the copying constructor and is false for the other. *)
From CPL Require Import Model.Base Model.Numbering Model.Rules Model.Engine Model.Evolve1D.
Local Open Scope Z_scope.

(* ------------------------------------------------------------------ the heap *)
(* An object is a block of rows: a 2D ndarray is its list of rows; a 1D ndarray or a Python list of
   ints is a single row.  The heap maps array ids (positions) to objects; allocation appends. *)
Definition obj := list (list Z).
Definition heap := list obj.
(* a reference to a vector: (array id, row index).  ca[k] (a NumPy row VIEW: shares the memory of
   ca) is (id of ca, k); a 1D array / list object is (its id, 0). *)
Definition ref := (nat * nat)%type.

Definition h_get (h : heap) (id : nat) : obj := nth id h [].
Definition h_row (h : heap) (rf : ref) : list Z := nth (snd rf) (h_get h (fst rf)) [].
Definition h_alloc (h : heap) (o : obj) : heap * nat := (h ++ [o], length h).

Fixpoint upd_nth {A} (k : nat) (f : A -> A) (l : list A) : list A :=
  match l, k with
  | [], _ => []
  | x :: l', O => f x :: l'
  | x :: l', S k' => x :: upd_nth k' f l'
  end.
Definition set_nth {A} (k : nat) (v : A) (l : list A) : list A := upd_nth k (fun _ => v) l.

(* vec[c] = v  through a reference: the write lands in the object the reference points into *)
Definition h_write (h : heap) (rf : ref) (c : nat) (v : Z) : heap :=
  upd_nth (fst rf) (upd_nth (snd rf) (set_nth c v)) h.

(* ------------------------------------------------------------------ the rule object *)
(* self._previous_state (a reference), self._rule_number *)
Record rev_obj := { prev_ref : ref; rule_no : N }.

(* the three ways the property names of passing init_state: a Python list object, a (fresh) 1D
   ndarray, or the row view ca[row] of a 2D array (row 0 of the automaton that is then evolved, or
   ca[-1] of a longer history) *)
Inductive init_arg := ArgList (id : nat) | ArgArray (id : nat) | ArgView (id row : nat).
Definition arg_ref (a : init_arg) : ref :=
  match a with ArgList id | ArgArray id => (id, 0%nat) | ArgView id row => (id, row) end.

(* __init__ (711, after the fix): self._previous_state = np.array(init_state): a FRESH object
   holding a copy of the vector *)
Definition mk_reversible (h : heap) (a : init_arg) (R : N) : heap * rev_obj :=
  let '(h', id) := h_alloc h [h_row h (arg_ref a)] in
  (h', {| prev_ref := (id, 0%nat); rule_no := R |}).

(* __init__ before the fix: self._previous_state = init_state: the reference itself is kept *)
Definition mk_reversible_aliasing (h : heap) (a : init_arg) (R : N) : heap * rev_obj :=
  (h, {| prev_ref := arg_ref a; rule_no := R |}).

(* __call__(self, n, c, t) (726-729).  The threaded state is the heap plus the exception that has
   propagated, if any (after an exception no further call happens: the state is left alone).
     regular_result = nks_rule(n, self._rule_number)            -- ValueError for R >= 2^(2^len(n))
     new_result = regular_result ^ self._previous_state[c]      -- IndexError if c >= len(previous)
     self._previous_state[c] = n[len(n) // 2]                   -- WRITES THROUGH THE REFERENCE HELD
     return new_result
   `^` on Python/NumPy ints is two's-complement xor = Z.lxor.  n is never empty under evolve
   (it has 2r+1 entries), so the default of `nth` is not reached. *)
Definition reversible_call (o : rev_obj) : rule1 (heap * option exc) :=
  fun st n c t =>
    let '(h, err) := st in
    match err with
    | Some _ => (st, 0)
    | None =>
        match nks_rule n (rule_no o) with
        | Raise e => ((h, Some e), 0)
        | Ok regular =>
            match nth_error (h_row h (prev_ref o)) c with
            | None => ((h, Some IndexError), 0)
            | Some p =>
                ((h_write h (prev_ref o) c (nth (length n / 2) n 0), None), Z.lxor regular p)
            end
        end
    end.

(* ------------------------------------------------------------------ evolve on the heap *)
(* evolve(cellular_automaton, T, rule, r) with memoize=False, the caller's automaton living at ca_id:
     initial_conditions = cellular_automaton[-1]; array = np.zeros((T, cols)); array[0] = initial_conditions
        -- a COPY of the last row into the engine's private buffer (T = 0: IndexError);
     for t in 1..T-1: array[t] = np.array([rule(n, c, t) for c, n in enumerate(cells[strides])])
        -- `cells[strides]` is fancy indexing: the neighbourhoods handed to the rule are copies, and
           the rule keeps only the scalar n[len(n)//2], so the private buffer never escapes and need
           not live in the heap; the rule's calls thread the heap;
     return np.concatenate((cellular_automaton, array[1:]))
        -- the caller's array is read AGAIN here, from the heap as the rule calls left it.
   Returns the final heap and the result array. *)
Definition evolve_heap (h : heap) (ca_id : nat) (T : nat) (o : rev_obj) (r : nat)
  : res (heap * list (list Z)) :=
  match T with
  | O => Raise IndexError
  | S k =>
      let init := last (h_get h ca_id) [] in
      let '((h', err), rows) :=
        iter_steps (step_plain (reversible_call o) (fun z => z) r) k (h, None) init 1 in
      match err with
      | Some e => Raise e
      | None => Ok (h', h_get h' ca_id ++ rows)
      end
  end.

(* the whole documented call pattern: rule = ReversibleRule(init_state, R); evolve(ca, T, rule, r) *)
Definition run_reversible (h : heap) (ca_id : nat) (a : init_arg) (R : N) (T r : nat) :=
  let '(h1, o) := mk_reversible h a R in evolve_heap h1 ca_id T o r.
Definition run_reversible_aliasing (h : heap) (ca_id : nat) (a : init_arg) (R : N) (T r : nat) :=
  let '(h1, o) := mk_reversible_aliasing h a R in evolve_heap h1 ca_id T o r.

(* ------------------------------------------------------------------ heap-free form *)
(* The same rule as a pure state machine for Model/Evolve1D.v: the state IS the previous row (what
   the private copy holds).  Guard: meaningful where the real call does not raise, i.e.
   R < 2^(2^len(n)) and c < len(prev); outside it the real code raises (see reversible_call, which
   models that) and this form returns 0 and leaves the state alone.  The theorems about it carry
   the guard, and the property theorems are stated about evolve_heap, which reports the error. *)
Definition reversible_rule1 (R : N) : rule1 (list Z) :=
  fun prev n c t =>
    match nks_rule n R, nth_error prev c with
    | Ok regular, Some p => (set_nth c (nth (length n / 2) n 0) prev, Z.lxor regular p)
    | _, _ => (prev, 0)
    end.
