(* Mechanism-level model of the ARRAY OPERATIONS of the outer loops of evolve / evolve2d / evolve_block /
   evolve2d_block over a tiny explicit heap, generic in the configuration type C (a row or a grid) and in
   the step.  It exists so that "the given rows come back unchanged, the caller's array is not modified,
   a new array is returned" are theorems about what the engine allocates, copies and writes - not facts
   true by construction of `hist ++ rows` (Model/Engine.v) - and so that engines that alias the caller's
   array are DIFFERENT models for which those theorems fail (heap_evolve_inplace, heap_evolve_returns_view).
   The heap follows coq/Model/Reversible.v (C13): ids are positions, allocation appends.
   Executable definitions only; proofs in Proofs/HeapEngineProofs.v. *)
From CPL Require Import Model.Base Model.Engine.

Fixpoint upd_at {A} (k : nat) (f : A -> A) (l : list A) : list A :=
  match l, k with
  | [], _ => []
  | x :: l', O => f x :: l'
  | x :: l', S k' => x :: upd_at k' f l'
  end.
Definition set_at {A} (k : nat) (v : A) (l : list A) : list A := upd_at k (fun _ => v) l.

Section HeapEngine.
  Variables (X P C : Type).
  Variable dflt : C.              (* the zero configuration of np.zeros; also the default of list reads *)

  (* an ndarray object is its list of rows (1D automaton: rows; 2D: grids); the heap maps ids to objects *)
  Local Notation hobj := (list C).
  Local Notation heap := (list (list C)).
  (* a reference to one row: (object id, row index) - what `ca[-1]` (a view) or a whole row object is *)
  Local Notation href := (nat * nat)%type.

  Definition h_get (h : heap) (id : nat) : hobj := nth id h [].
  Definition h_row (h : heap) (rf : href) : C := nth (snd rf) (h_get h (fst rf)) dflt.
  Definition h_alloc (h : heap) (o : hobj) : heap * nat := (h ++ [o], length h).
  (* obj[k] = row : the write lands in the object with that id *)
  Definition h_set_row (h : heap) (id k : nat) (row : C) : heap := upd_at id (set_at k row) h.
  Definition h_set (h : heap) (id : nat) (o : hobj) : heap := set_at id o h.

  (* one step of the automaton.  It receives the heap (it may read and write the objects it holds
     references to), the current configuration BY VALUE (cells[strides] / np.ix_ gathers are copies) and
     t; it returns the next configuration by value. *)
  Variable step : X -> heap -> C -> nat -> X * heap * C.
  (* the stopping predicate: its state, the heap, the id of the fresh copy np.array(array) it is given, t *)
  Variable pred : P -> heap -> nat -> nat -> P * heap * bool.

  (* for t in range(t0, t0 + n): cells = array[t-1]; array[t] = step(cells)   -- array lives at id arr *)
  Fixpoint heap_loop (n : nat) (x : X) (h : heap) (arr : nat) (t : nat) : X * heap :=
    match n with
    | 0 => (x, h)
    | S n' =>
        let cells := nth (t - 1) (h_get h arr) dflt in
        let '(x1, h1, nxt) := step x h cells t in
        heap_loop n' x1 (h_set_row h1 arr t nxt) arr (S t)
    end.

  (* _evolve_fixed / _evolve2d_fixed / evolve_block / evolve2d_block, the caller's array at id ca:
       array = np.zeros((T, ...))                       -- a FRESH object
       array[0] = cellular_automaton[-1]                -- a COPY of the last row into it (T = 0: IndexError)
       for t in 1..T-1: array[t] = step(array[t-1])
       return np.concatenate((cellular_automaton, array[1:]))
                                                        -- a FRESH object; the prefix is READ from the
                                                           caller's id in the heap as the steps left it
     Returns the final threaded state, the final heap and the id of the result. *)
  Definition heap_evolve_fixed (h : heap) (ca : nat) (x0 : X) (T : nat) : res (X * heap * nat) :=
    match T with
    | 0 => Raise IndexError
    | S k =>
        let '(h1, arr) := h_alloc h (repeat dflt T) in
        let h2 := h_set_row h1 arr 0 (last (h_get h1 ca) dflt) in
        let '(x, h3) := heap_loop k x0 h2 arr 1 in
        let '(h4, rid) := h_alloc h3 (h_get h3 ca ++ skipn 1 (h_get h3 arr)) in
        Ok (x, h4, rid)
    end.

  (* WRONG variant 1: the work array is the caller's object (`array = cellular_automaton`, rows appended
     in place); the result is a fresh copy of it *)
  Fixpoint inplace_loop (n : nat) (x : X) (h : heap) (ca : nat) (t : nat) : X * heap :=
    match n with
    | 0 => (x, h)
    | S n' =>
        let cells := last (h_get h ca) dflt in
        let '(x1, h1, nxt) := step x h cells t in
        inplace_loop n' x1 (h_set h1 ca (h_get h1 ca ++ [nxt])) ca (S t)
    end.
  Definition heap_evolve_inplace (h : heap) (ca : nat) (x0 : X) (T : nat) : res (X * heap * nat) :=
    match T with
    | 0 => Raise IndexError
    | S k =>
        let '(x, h3) := inplace_loop k x0 h ca 1 in
        let '(h4, rid) := h_alloc h3 (h_get h3 ca) in
        Ok (x, h4, rid)
    end.

  (* WRONG variant 2: a private work array, but the result is the caller's object itself, extended *)
  Definition heap_evolve_returns_view (h : heap) (ca : nat) (x0 : X) (T : nat) : res (X * heap * nat) :=
    match T with
    | 0 => Raise IndexError
    | S k =>
        let '(h1, arr) := h_alloc h (repeat dflt T) in
        let h2 := h_set_row h1 arr 0 (last (h_get h1 ca) dflt) in
        let '(x, h3) := heap_loop k x0 h2 arr 1 in
        Ok (x, h_set h3 ca (h_get h3 ca ++ skipn 1 (h_get h3 arr)), ca)
    end.

  (* _evolve_dynamic / _evolve2d_dynamic:
       array = [cellular_automaton[-1]]                 -- a Python list of row REFERENCES; the first one is
                                                           a view into the caller's object
       t = 1
       while timesteps(np.array(array), t):             -- the predicate gets a FRESH copy of the rows
           nxt = step(array[-1]); array.append(nxt)     -- every new row is a FRESH object
           t += 1
       return np.concatenate((cellular_automaton[:-1], array))   -- FRESH; both parts read from the heap
     Also returns the log of what the predicate was given (contents, t).  None = out of fuel. *)
  Fixpoint heap_dynamic_loop (fuel : nat) (p : P) (x : X) (h : heap) (ca : nat) (refs : list href) (t : nat)
           (plog : list (list C * nat)) : option (P * X * heap * nat * list (list C * nat)) :=
    match fuel with
    | 0 => None
    | S f =>
        let given := map (h_row h) refs in
        let '(hc, cid) := h_alloc h given in
        let '(p1, h1, go) := pred p hc cid t in
        let plog1 := plog ++ [(given, t)] in
        if go then
          let cells := h_row h1 (last refs (0, 0)) in
          let '(x1, h2, nxt) := step x h1 cells t in
          let '(h3, nid) := h_alloc h2 [nxt] in
          heap_dynamic_loop f p1 x1 h3 ca (refs ++ [(nid, 0)]) (S t) plog1
        else
          let '(h2, rid) := h_alloc h1 (removelast (h_get h1 ca) ++ map (h_row h1) refs) in
          Some (p1, x, h2, rid, plog1)
    end.

  Definition heap_evolve_dynamic (fuel : nat) (h : heap) (ca : nat) (p0 : P) (x0 : X)
    : option (P * X * heap * nat * list (list C * nat)) :=
    heap_dynamic_loop fuel p0 x0 h ca [(ca, length (h_get h ca) - 1)] 1 [].

  (* ---------------------------------------------------------------- frame conditions *)
  (* the step (the predicate) allocates nothing that persists and writes only to objects whose id is in W;
     the predicate may in addition scribble on the copy it was given *)
  Definition step_writes_only (W : nat -> Prop) : Prop :=
    forall x h c t, length (snd (fst (step x h c t))) = length h /\
                    forall id, ~ W id -> h_get (snd (fst (step x h c t))) id = h_get h id.
  Definition pred_writes_only (W : nat -> Prop) : Prop :=
    forall p h cid t, length (snd (fst (pred p h cid t))) = length h /\
                      forall id, ~ W id -> id <> cid -> h_get (snd (fst (pred p h cid t))) id = h_get h id.
End HeapEngine.

(* the type of heaps, as a notation (so that `length`, `nth` ... see plain lists) *)
Notation heap C := (list (list C)) (only parsing).
Notation href := (nat * nat)%type (only parsing).

Arguments h_get {C} h id.
Arguments h_row {C} dflt h rf.
Arguments h_alloc {C} h o.
Arguments h_set_row {C} h id k row.
Arguments h_set {C} h id o.
Arguments heap_loop {X C} dflt step n x h arr t.
Arguments heap_evolve_fixed {X C} dflt step h ca x0 T.
Arguments inplace_loop {X C} dflt step n x h ca t.
Arguments heap_evolve_inplace {X C} dflt step h ca x0 T.
Arguments heap_evolve_returns_view {X C} dflt step h ca x0 T.
Arguments heap_dynamic_loop {X P C} dflt step pred fuel p x h ca refs t plog.
Arguments heap_evolve_dynamic {X P C} dflt step pred fuel h ca p0 x0.
Arguments step_writes_only {X C} step W.
Arguments pred_writes_only {P C} pred W.

(* a step / a predicate that gets VALUES, not references (the plain, memoised and block steps of this
   development; any predicate that only reads its argument): the heap is handed back untouched *)
Definition lift_step {X C} (ps : X -> C -> nat -> X * C) : X -> heap C -> C -> nat -> X * heap C * C :=
  fun x h c t => (fst (ps x c t), h, snd (ps x c t)).
Definition lift_pred {P C} (pp : P -> list C -> nat -> P * bool) : P -> heap C -> nat -> nat -> P * heap C * bool :=
  fun p h cid t => (fst (pp p (h_get h cid) t), h, snd (pp p (h_get h cid) t)).
