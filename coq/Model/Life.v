(* Model of cellpylib/ca_functions2d.py game_of_life_rule (lines 831-856) and of the Life update on a
   torus as a function on periodic planes (C11).  Executable definitions only; the proofs are in
   Proofs/LifeProofs.v. *)
From CPL Require Import Model.Base Model.Rules Model.Engine Model.Evolve2D.
Local Open Scope Z_scope.

(* ---------------------------------------------------------------- the rule, as the code has it *)

(* center_cell = neighbourhood[1][1]                                              (line 843) *)
Definition gol_centre (n : list (list Z)) : Z := nth 1 (nth 1 n []) 0.

(* total = np.sum(neighbourhood): every entry of a plain ndarray                   (line 844) *)
Definition gol_total (n : list (list Z)) : Z := zsum (concat n).

(* lines 845-856, literally: three `if`s under `center_cell == 1`, none of them with an `else`, so
   that when none fires control falls off the end of the function and Python returns None;
   otherwise `total == 3`.  None below is that fall-through. *)
Definition gol_case (centre total : Z) : option Z :=
  if centre =? 1 then
    if total - 1 <? 2 then Some 0                                   (* 846-847 *)
    else if (total - 1 =? 2) || (total - 1 =? 3) then Some 1        (* 848-849 *)
    else if 3 <? total - 1 then Some 0                              (* 850-851 *)
    else None                                                       (* implicit `return None` *)
  else
    if total =? 3 then Some 1 else Some 0.                          (* 853-856 *)

Definition gol_rule (n : list (list Z)) : option Z := gol_case (gol_centre n) (gol_total n).

(* The same on the neighbourhood object that evolve2d hands to a rule.  For a MaskedArray np.sum
   adds the unmasked entries only; with an all-False mask (what the harness sends, and what a Moore
   neighbourhood amounts to) that is every entry. *)
Definition gol_rule_nb (n : nbhd2) : option Z := gol_case (gol_centre (nb_vals n)) (zsum (unmasked n)).

(* As a rule2.  A None result cannot be stored into an integer array (NumPy raises TypeError); the
   model maps it to a sentinel outside {0, 1}, and LifeProofs.gol_never_none shows that it does not
   occur for integer neighbourhoods at all. *)
Definition gol_sentinel : Z := -1.
Definition gol_as_rule2 : rule2 unit :=
  fun u n c t => (u, match gol_rule_nb n with Some v => v | None => gol_sentinel end).

(* Conway's rule in closed form: B3/S23 *)
Definition b3s23 (c nb : Z) : Z :=
  if ((c =? 0) && (nb =? 3)) || ((c =? 1) && ((nb =? 2) || (nb =? 3))) then 1 else 0.

(* the 512 binary 3x3 blocks, row-major, most significant = top left *)
Definition bits01 : list Z := [0; 1].
Definition blocks512 : list (list (list Z)) :=
  flat_map (fun a0 => flat_map (fun a1 => flat_map (fun a2 =>
  flat_map (fun a3 => flat_map (fun a4 => flat_map (fun a5 =>
  flat_map (fun a6 => flat_map (fun a7 => map (fun a8 =>
    [[a0; a1; a2]; [a3; a4; a5]; [a6; a7; a8]]) bits01) bits01) bits01) bits01) bits01) bits01) bits01) bits01) bits01.

(* what the sweep checks on one block: no fall-through, and the value is B3/S23 of
   (centre, sum of the eight others) *)
Definition gol_block_ok (n : list (list Z)) : bool :=
  match gol_rule n with
  | Some v => v =? b3s23 (gol_centre n) (gol_total n - gol_centre n)
  | None => false
  end.
(* the same sweep written over the nine coordinates (does not build the list of blocks) *)
Definition gol_sweep9 (chk : list (list Z) -> bool) : bool :=
  forallb (fun a0 => forallb (fun a1 => forallb (fun a2 =>
  forallb (fun a3 => forallb (fun a4 => forallb (fun a5 =>
  forallb (fun a6 => forallb (fun a7 => forallb (fun a8 =>
    chk [[a0; a1; a2]; [a3; a4; a5]; [a6; a7; a8]]) bits01) bits01) bits01) bits01) bits01) bits01) bits01) bits01) bits01.

(* ---------------------------------------------------------------- Life on planes and tori *)

Definition plane := Z -> Z -> bool.

Definition cnt8 (g : plane) (i j : Z) : Z :=
  b2z (g (i-1) (j-1)) + b2z (g (i-1) j) + b2z (g (i-1) (j+1)) +
  b2z (g i (j-1)) + b2z (g i (j+1)) +
  b2z (g (i+1) (j-1)) + b2z (g (i+1) j) + b2z (g (i+1) (j+1)).
Definition life (c : bool) (n : Z) : bool := if c then (n =? 2) || (n =? 3) else (n =? 3).
(* one synchronous Life step on the infinite plane *)
Definition pstep (g : plane) : plane := fun i j => life (g i j) (cnt8 g i j).

(* a torus configuration is read through its (R, C)-periodic extension *)
Definition ext (R C : Z) (t : plane) : plane := fun a b => t (a mod R) (b mod C).
(* the torus Life step = the plane step of the periodic extension *)
Definition tstep (R C : Z) (t : plane) : plane := pstep (ext R C t).
Notation life_step_fun := tstep (only parsing).

(* cyclic translation by (a, b) (np.roll(t, (a, b), axis=(0, 1))); also: the pattern P whose origin is
   placed at (a, b), wrapping around both axes *)
Definition emb (R C : Z) (a b : Z) (P : plane) : plane := fun i j => P ((i - a) mod R) ((j - b) mod C).
(* translation in the plane *)
Definition shift (du dv : Z) (P : plane) : plane := fun u v => P (u - du) (v - dv).

Fixpoint iter {A} (n : nat) (f : A -> A) (x : A) : A :=
  match n with O => x | S k => f (iter k f x) end.

(* finite patterns as lists of live cells *)
Definition of_list (cells : list (Z * Z)) : plane :=
  fun u v => existsb (fun c => (fst c =? u) && (snd c =? v)) cells.
Definition in_box (p q : Z) (c : Z * Z) : bool := (0 <=? fst c) && (fst c <? p) && (0 <=? snd c) && (snd c <? q).
Definition zrange (n : Z) : list Z := map Z.of_nat (seq 0 (Z.to_nat n)).

(* decidable check: one plane step of the pattern `cells` (in a p x q box, read with a one-cell
   halo) is the pattern `cells'` (in a p' x q' box) placed at offset (du, dv) of the halo box *)
Definition step_check (p q : Z) (cells cells' : list (Z * Z)) (p' q' du dv : Z) : bool :=
  forallb (in_box p q) cells && (forallb (in_box p' q') cells' &&
  ((0 <=? p') && ((0 <=? q') && ((0 <=? du) && ((du + p' <=? p + 2) && ((0 <=? dv) && ((dv + q' <=? q + 2) &&
  forallb (fun u => forallb (fun v =>
     Bool.eqb (shift 1 1 (pstep (of_list cells)) u v) (shift du dv (of_list cells') u v)) (zrange (q + 2))) (zrange (p + 2))))))))).

(* the glider and its three successors (each in its own 3x3 box) *)
Definition G0 : list (Z * Z) := [(0,1);(1,2);(2,0);(2,1);(2,2)].
Definition G1 : list (Z * Z) := [(0,0);(0,2);(1,1);(1,2);(2,1)].
Definition G2 : list (Z * Z) := [(0,2);(1,0);(1,2);(2,1);(2,2)].
Definition G3 : list (Z * Z) := [(0,0);(1,1);(1,2);(2,0);(2,1)].
(* the 2x2 block (still life) *)
Definition BLK : list (Z * Z) := [(0,0);(0,1);(1,0);(1,1)].
(* the blinker: horizontal in a 1x3 box, vertical in a 3x1 box *)
Definition BH : list (Z * Z) := [(0,0);(0,1);(0,2)].
Definition BV : list (Z * Z) := [(0,0);(1,0);(2,0)].

(* ---------------------------------------------------------------- grids <-> planes *)

(* the plane that reads a list-of-lists grid (live = the state 1); only read inside the grid *)
Definition plane_of_grid (g : grid) : plane :=
  fun i j => nth (Z.to_nat j) (nth (Z.to_nat i) g []) 0 =? 1.
(* tabulate a plane on [0,R) x [0,C) *)
Definition grid_of_plane (R C : nat) (f : plane) : grid :=
  map (fun i => map (fun j => b2z (f (Z.of_nat i) (Z.of_nat j))) (seq 0 C)) (seq 0 R).

(* a pattern placed with its origin at (a, b) on the R x C torus, as a grid *)
Definition pattern_grid (R C : nat) (a b : Z) (cells : list (Z * Z)) : grid :=
  grid_of_plane R C (emb (Z.of_nat R) (Z.of_nat C) a b (of_list cells)).

(* the functional torus Life step, on grids *)
Definition life_step_grid (g : grid) : grid :=
  let R := grid_rows g in let C := grid_cols g in
  grid_of_plane R C (tstep (Z.of_nat R) (Z.of_nat C) (plane_of_grid g)).

(* evolve2d(..., game_of_life_rule) with memoize=False, r=1, Moore *)
Definition life_evolve (hist : list grid) (T : nat) : res (unit * list grid) :=
  evolve2d_plain gol_as_rule2 store_id 1 Moore tt hist T.

(* shape predicates as booleans (used by the correspondence and the non-vacuity examples) *)
Definition wf_gridb (R C : nat) (g : grid) : bool :=
  (length g =? R)%nat && forallb (fun row => (length row =? C)%nat) g.
Definition binary_gridb (g : grid) : bool := forallb (forallb (fun x => (x =? 0) || (x =? 1))) g.

(* np.roll(g, (da, db), axis=(0, 1)) on an R x C grid of 0/1 states *)
Definition roll_grid (da db : Z) (g : grid) : grid :=
  let R := grid_rows g in let C := grid_cols g in
  grid_of_plane R C (emb (Z.of_nat R) (Z.of_nat C) da db (plane_of_grid g)).
