(* Model of cellpylib/ca_functions.py: _index_strides, and the memoize=False step of
   _evolve_fixed / _evolve_dynamic (C01).  Executable definitions only. *)
From CPL Require Import Model.Base Model.Rules Model.Engine.

(* arr = np.concatenate((arr[-window_size // 2 + 1:], arr, arr[:window_size // 2])) with
   window_size = 2r+1: Python's floor division gives -(2r+1)//2 + 1 = -r and (2r+1)//2 = r;
   slice bounds saturate (py_last). *)
Definition ext_idx (N r : nat) : list nat :=
  py_last r (seq 0 N) ++ seq 0 N ++ firstn r (seq 0 N).

(* as_strided(arr, shape=(len(arr) - w + 1, w)): all windows of width w *)
Definition index_strides (N r : nat) : list (list nat) := windows (2 * r + 1) (ext_idx N r).

(* neighbourhoods = cells[strides] *)
Definition neighbourhoods (cells : list Z) (r : nat) : list (list Z) :=
  map (fun idxs => map (fun i => nth i cells 0%Z) idxs) (index_strides (length cells) r).

Section Plain1D.
  Variable St : Type.
  Variable rule : rule1 St.
  Variable store : Z -> Z.        (* the cast into the automaton's dtype *)

  (* [apply_rule(n, c, t) for c, n in enumerate(neighbourhoods)] : ascending c, state threaded *)
  Fixpoint apply_all (s : St) (c : nat) (nbs : list (list Z)) (t : nat) : St * list Z :=
    match nbs with
    | [] => (s, [])
    | n :: nbs' =>
        let '(s1, v) := rule s n c t in
        let '(s2, vs) := apply_all s1 (S c) nbs' t in
        (s2, store v :: vs)
    end.

  Definition step_plain (r : nat) : St -> list Z -> nat -> St * list Z :=
    fun s cells t => apply_all s 0 (neighbourhoods cells r) t.

  (* evolve(ca, T, rule, r, memoize=False) and its callable-timesteps form *)
  Definition evolve_plain (r : nat) (s0 : St) (hist : list (list Z)) (T : nat) :=
    evolve_fixed [] (step_plain r) s0 hist T.
  Definition evolve_plain_dynamic {P} (pred : P -> list (list Z) -> nat -> P * bool)
             (r fuel : nat) (p0 : P) (s0 : St) (hist : list (list Z)) :=
    evolve_dynamic [] (step_plain r) pred fuel p0 s0 hist.
End Plain1D.

Arguments apply_all {St} rule store s c nbs t.
Arguments step_plain {St} rule store r.
Arguments evolve_plain {St} rule store r s0 hist T.
Arguments evolve_plain_dynamic {St} rule store {P} pred r fuel p0 s0 hist.

(* The specification the property states: cell c of the next row is the rule applied to the states
   at positions c-r .. c+r modulo N, with c and t; cells ascending. *)
Definition ring_nbhd (cells : list Z) (c r : nat) : list Z :=
  let N := length cells in
  map (fun k => nth ((c + k + N - r) mod N) cells 0%Z) (seq 0 (2 * r + 1)).
