(* C15 — model of LangtonsLoop, SDSRLoop (sdsr_loop.py) and Evoloop (evoloop.py): constructors and
   __call__, statement by statement. Executable definitions only.

   `new_activity` is an `option Z` (None = Python's None); every `if` of the source is one `let`
   that either overrides the value assigned so far or keeps it (later assignments win). *)
From CPL Require Import Model.Base Model.CTRBL.
Local Open Scope Z_scope.

(* `x in (a, b, ...)` on a tuple of ints *)
Definition zin (x : Z) (l : list Z) : bool := existsb (Z.eqb x) l.

(* sdsr_loop.py:114-119
     k = 0
     for site in [top, right, bottom, left]:
         if site in (1, 2, 4, 6, 7): k += 1
     return k >= 2 *)
Definition is_in_tube (top right bottom left : Z) : bool :=
  let k := fold_left (fun k site => if zin site [1; 2; 4; 6; 7] then k + 1 else k)
                     [top; right; bottom; left] 0 in
  2 <=? k.

(* sdsr_loop.py:85-102 = evoloop.py:304-321, the block guarded by `if 8 in trbl:` (same text in both files) *)
Definition eight_block (current_activity : Z) (trbl : list Z) (new_activity : option Z) : option Z :=
  if zin 8 trbl then
    (* if current_activity == 0 or current_activity == 1: *)
    let new_activity :=
      if (current_activity =? 0) || (current_activity =? 1) then
        (* np.any([i in trbl for i in (2, 3, 4, 5, 6, 7)]) *)
        if existsb (fun i => zin i trbl) [2; 3; 4; 5; 6; 7] then Some 8
        else if current_activity =? 0 then Some 0
        else if current_activity =? 1 then Some 1
        else new_activity
      else new_activity in
    (* if current_activity in (2, 3, 5): new_activity = 0 *)
    let new_activity := if zin current_activity [2; 3; 5] then Some 0 else new_activity in
    (* if current_activity in (4, 6, 7): new_activity = 1 *)
    let new_activity := if zin current_activity [4; 6; 7] then Some 1 else new_activity in
    new_activity
  else new_activity.

(* sdsr_loop.py:105-108 = evoloop.py:324-327 *)
Definition clear_up (current_activity : Z) (new_activity : option Z) : option Z :=
  let new_activity :=
    match new_activity with
    | None => if current_activity =? 0 then Some 0 else new_activity
    | Some _ => new_activity
    end in
  match new_activity with
  | None => if zin current_activity [1; 2; 3; 4; 5; 6; 7] then Some 8 else new_activity
  | Some _ => new_activity
  end.

(* sdsr_loop.py:48-110, the branch `if key not in self._rule_table:` *)
Definition sdsr_default (current_activity top right bottom left : Z) : option Z :=
  let trbl := [top; right; bottom; left] in
  let in_tube := is_in_tube top right bottom left in
  let new_activity : option Z := None in
  (* 53-57 *)
  let new_activity :=
    if current_activity =? 0 then
      if in_tube && zin 1 trbl then Some 1 else Some 0
    else new_activity in
  (* 61-67 *)
  let new_activity :=
    if (current_activity =? 1) && in_tube then
      if zin 7 trbl then Some 7
      else if zin 6 trbl then Some 6
      else if zin 4 trbl then Some 4
      else new_activity
    else new_activity in
  (* 70-71 *)
  let new_activity :=
    if zin current_activity [4; 6; 7] && in_tube && zin 0 trbl then Some 0 else new_activity in
  (* 74-77 *)
  let new_activity :=
    if (current_activity =? 2) && zin 3 trbl then Some 1
    else if (current_activity =? 2) && zin 2 trbl then Some 2
    else new_activity in
  (* 80-81 *)
  let new_activity := if current_activity =? 8 then Some 0 else new_activity in
  (* 85-102 *)
  let new_activity := eight_block current_activity trbl new_activity in
  (* 105-108 *)
  clear_up current_activity new_activity.

(* evoloop.py:294-329 *)
Definition evoloop_default (current_activity top right bottom left : Z) : option Z :=
  let trbl := [top; right; bottom; left] in
  let new_activity : option Z := None in
  (* 298-299 *)
  let new_activity := if current_activity =? 8 then Some 0 else new_activity in
  (* 303-321 *)
  let new_activity := eight_block current_activity trbl new_activity in
  (* 324-327 *)
  clear_up current_activity new_activity.

(* SDSRLoop.__call__ / Evoloop.__call__: table entry if the key is present, else the default branch.
   The result is what Python returns: an int, or None. *)
Definition sdsr_call (t : table) (k : key) : option Z :=
  match dict_get k t with
  | Some v => Some v
  | None => let '(c, tp, r, b, l) := k in sdsr_default c tp r b l
  end.

Definition evoloop_call (t : table) (k : key) : option Z :=
  match dict_get k t with
  | Some v => Some v
  | None => let '(c, tp, r, b, l) := k in evoloop_default c tp r b l
  end.

Definition SDSRLoop_call (t : table) (n : list (list Z)) : option Z := sdsr_call t (key_of_nbhd n).
Definition Evoloop_call (t : table) (n : list (list Z)) : option Z := evoloop_call t (key_of_nbhd n).

(* constructors: langtons_loop.py:22-242 / evoloop.py:18-277  super().__init__(rule_table={...}, add_rotations=..);
   sdsr_loop.py:18-24  super().__init__() and then the hand-written assignments, in order *)
Definition loop_new (literal : table) (add_rotations : bool) : table := ctrbl_new literal add_rotations.
Definition sdsr_new (literal : table) (add_rotations : bool) (extra : table) : table :=
  fold_left (fun d e => dict_set (fst e) (snd e) d) extra (loop_new literal add_rotations).

(* ------------------------------------------------------------------------------------------
   Boolean checkers of the finite theorems (used by GenProps/C15Tables.v and, in witness mode,
   by the generated search file). `m` is the compiled table. *)
Definition opt_eqb (a b : option Z) : bool :=
  match a, b with Some x, Some y => x =? y | None, None => true | _, _ => false end.

Definition fast_ctrbl (m : fast_table) (k : key) : option Z := fast_get k m.
Definition fast_sdsr (m : fast_table) (k : key) : option Z :=
  match fast_get k m with Some v => Some v | None => let '(c, tp, r, b, l) := k in sdsr_default c tp r b l end.
Definition fast_evoloop (m : fast_table) (k : key) : option Z :=
  match fast_get k m with Some v => Some v | None => let '(c, tp, r, b, l) := k in evoloop_default c tp r b l end.

(* same answer (or same absence) on the key and its quarter-turn *)
Definition ok_orient (call : key -> option Z) (k : key) : bool := opt_eqb (call k) (call (rot k)).
(* never None, result in 0..8 *)
Definition ok_range (call : key -> option Z) (k : key) : bool :=
  match call k with Some v => (0 <=? v) && (v <=? 8) | None => false end.
(* outside the table the answer is the specification's *)
Definition ok_default (m : fast_table) (call : key -> option Z) (spec : key -> Z) (k : key) : bool :=
  match fast_get k m with Some _ => true | None => opt_eqb (call k) (Some (spec k)) end.
