(* C18, exact layer: the binary derivatives of cellpylib/bien.py on binary strings.
   A binary string is a `list bool` ('1' = true, '0' = false); `int(a) ^ int(b)` on digits is `xorb`.
   Definitions only; proofs in Proofs/BienExactProofs.v. *)
From CPL Require Import Model.Base.

(* ---- bien.py:23-28  binary_derivative
     result = []
     for i, d in enumerate(string):
         if i - 1 == len(string) - 2: break
         result.append(int(string[i]) ^ int(string[i + 1]))
   The loop walks the indices 0 .. n-1 in order; the guard is evaluated over Python ints (Z here:
   for n = 1 it reads -1 == -1), and a break abandons the remaining indices. *)
Fixpoint bd_loop (s : list bool) (idx : list nat) (result : list bool) : list bool :=
  match idx with
  | [] => result
  | i :: rest =>
      if (Z.of_nat i - 1 =? Z.of_nat (length s) - 2)%Z then result                     (* break *)
      else bd_loop s rest (result ++ [xorb (nth i s false) (nth (i + 1) s false)])       (* append *)
  end.
Definition binary_derivative (s : list bool) : list bool := bd_loop s (seq 0 (length s)) [].

(* ---- bien.py:102-110  cyclic_binary_derivative
     for i, d in enumerate(string):
         s = string[i]
         if i == len(string) - 1: next_s = string[0]
         else:                    next_s = string[i + 1]
         result.append(int(s) ^ int(next_s))
   (no iteration when the string is empty, so `len - 1` is only read for n >= 1) *)
Definition cyclic_binary_derivative (s : list bool) : list bool :=
  map (fun i => xorb (nth i s false)
                     (if (Z.of_nat i =? Z.of_nat (length s) - 1)%Z then nth 0 s false else nth (i + 1) s false))
      (seq 0 (length s)).

(* ---- closed forms used by the theorems (proved equal to the loops above) *)
Fixpoint xor_adjacent (s : list bool) : list bool :=
  match s with
  | a :: ((b :: _) as t) => xorb a b :: xor_adjacent t
  | _ => []
  end.
Definition xor_adjacent_cyclic (s : list bool) : list bool :=
  match s with [] => [] | a :: _ => xor_adjacent (s ++ [a]) end.

(* the string operations the symmetry laws speak about *)
Definition complement (s : list bool) : list bool := map negb s.
Definition rot1 (s : list bool) : list bool := match s with [] => [] | a :: t => t ++ [a] end.
Definition rotate (k : nat) (s : list bool) : list bool := skipn k s ++ firstn k s.   (* s[k:] + s[:k] *)

(* d applied j times (the string held by the accumulation loops after j rounds) *)
Fixpoint iter_d (d : list bool -> list bool) (j : nat) (s : list bool) : list bool :=
  match j with 0 => s | S j' => iter_d d j' (d s) end.

Definition count_true (s : list bool) : nat := count_occ bool_dec s true.

Definition blist_eqb : list bool -> list bool -> bool := list_eqb Bool.eqb.
