(* C15 — specification of the default rules of SDSRLoop and Evoloop, written from the property text and
   Sayama's list, NOT from the code: one closed formula with the priority order explicit.
   (The code reaches the same answers by a sequence of overriding assignments; that they coincide on all
   9^5 combinations outside the tables is theorems C15_sdsr_defaults / C15_evoloop_defaults.)

   For a combination (C,T,R,B,L) that is not in the rule table, C in 0..8:

     P1  C = 8                          -> 0                           ("8 always becomes 0")
     P2  else, some 8 among T,R,B,L     -> C in {0,1}: 8 if some state 2..7 is among T,R,B,L, else C unchanged
                                           C in {2,3,5}: 0
                                           C in {4,6,7}: 1                ("the 8-neighbour rules")
     P3  else, SDSR only, tube rules    -> C = 0: 1 if in the tube and next to a 1, else 0
         (in the tube = at least two      C = 1, in the tube: 7 if next to 7, else 6 if next to 6, else 4 if next to 4
          of T,R,B,L in {1,2,4,6,7})      C in {4,6,7}, in the tube, next to 0: 0
                                          C = 2: 1 if next to 3, else 2 if next to 2
     P4  else                           -> 0 stays 0, 1..7 become 8    ("undefined 0 stays 0; undefined 1-7 become 8")

   P1 beats P2 (an 8 next to an 8 still becomes 0), P2 beats P3 (next to an 8 the tube rules do not apply),
   P3 beats P4. *)
From CPL Require Import Model.Base Model.CTRBL.
Local Open Scope Z_scope.

Inductive variant := SDSR | EVOLOOP.

Definition member (x : Z) (l : list Z) : bool := existsb (fun y => y =? x) l.
Definition next_to (s : Z) (trbl : list Z) : bool := member s trbl.
Definition in_tube (trbl : list Z) : bool :=
  Nat.leb 2 (length (filter (fun s => member s [1; 2; 4; 6; 7]) trbl)).

(* P3: Some image when a tube rule decides the combination *)
Definition tube_rule (c : Z) (trbl : list Z) : option Z :=
  if c =? 0 then Some (if in_tube trbl && next_to 1 trbl then 1 else 0)
  else if c =? 1 then
    if in_tube trbl then
      if next_to 7 trbl then Some 7 else if next_to 6 trbl then Some 6 else if next_to 4 trbl then Some 4 else None
    else None
  else if member c [4; 6; 7] then
    if in_tube trbl && next_to 0 trbl then Some 0 else None
  else if c =? 2 then
    if next_to 3 trbl then Some 1 else if next_to 2 trbl then Some 2 else None
  else None.

Definition sayama_default (v : variant) (c t r b l : Z) : Z :=
  let trbl := [t; r; b; l] in
  if c =? 8 then 0                                                              (* P1 *)
  else if next_to 8 trbl then                                                   (* P2 *)
    if member c [0; 1] then
      if existsb (fun s => next_to s trbl) [2; 3; 4; 5; 6; 7] then 8 else c
    else if member c [2; 3; 5] then 0
    else 1
  else
    match (match v with SDSR => tube_rule c trbl | EVOLOOP => None end) with
    | Some image => image                                                       (* P3 *)
    | None => if c =? 0 then 0 else 8                                           (* P4 *)
    end.

(* the same, on a key *)
Definition sayama_sdsr (k : key) : Z := let '(c, t, r, b, l) := k in sayama_default SDSR c t r b l.
Definition sayama_evoloop (k : key) : Z := let '(c, t, r, b, l) := k in sayama_default EVOLOOP c t r b l.
