(* C18: bien / tbien / ktbien of cellpylib/bien.py.
   Real layer (the definitions, over Coq's R) and an executable interval twin (Interval's
   FloatIntervalFull over pure-Z radix-2 floats, 80 bits).  Definitions only;
   range / invariance theorems and the containment lemmas are in Proofs/BienProofs.v.
   The exact layer (the binary derivatives) is Model/BienExact.v. *)
From Coq Require Import Reals.
From Interval Require Import Specific_stdz Specific_ops Float_full Interval Xreal Basic.
From CPL Require Import Model.Base Model.BienExact Proofs.EntropyBounds.
Local Open Scope R_scope.

(* ------------------------------------------------------------------ real layer *)

(* entropy.py:14  symbols = dict.fromkeys(list(string)): the distinct symbols in order of first
   occurrence.  For a binary string: the first digit, then the other digit if it occurs at all. *)
Definition keys_b (s : list bool) : list bool :=
  match s with
  | [] => []
  | a :: t => if existsb (xorb a) t then [a; negb a] else [a]
  end.

(* entropy.py:15-17  p = count / len for every symbol, H = -sum p * log(p, 2)   (H + 0 is a float
   detail: it turns -0.0 into 0.0).  EntropyBounds.H is exactly that sum over a key list. *)
Definition shannon (s : list bool) : R := H bool bool_dec s (keys_b s).

(* bien.py:48-52 / 73-80 / 130-137: the accumulation loop
     for k in range(n - 1):
         lg = weight(k); tot += shannon_entropy(string) * lg; tot_log += lg; string = derivative(string)
   fuel = number of rounds still to run, k = the loop variable.  (bien keeps no tot_log; it divides by
   2**(n-1) - 1, and Proofs shows that this is the accumulated weight.) *)
Fixpoint acc_loop (d : list bool -> list bool) (w : nat -> R) (fuel k : nat) (s : list bool)
         (tot totw : R) : R * R :=
  match fuel with
  | 0 => (tot, totw)
  | S f => acc_loop d w f (S k) (d s) (tot + shannon s * w k) (totw + w k)
  end.

Definition w_pow2 (k : nat) : R := 2 ^ k.                      (* 2**k *)
Definition w_log (k : nat) : R := log2 (INR (k + 2)).          (* math.log(k + 2, 2.0) *)

(* the code divides by zero for n = 1 (bien, tbien, ktbien: ZeroDivisionError) and n = 0 (tbien, ktbien);
   the property is about n >= 2 and every theorem carries that guard *)
Definition bien_guard (s : list bool) : Prop := (2 <= length s)%nat.

(* bien.py:53   return (1 / (2**(n - 1) - 1)) * tot *)
Definition bien (s : list bool) : R :=
  let n := length s in
  1 / (2 ^ (n - 1) - 1) * fst (acc_loop binary_derivative w_pow2 (n - 1) 0 s 0 0).

(* bien.py:81   return (1 / tot_log) * tot *)
Definition tbien (s : list bool) : R :=
  let r := acc_loop binary_derivative w_log (length s - 1) 0 s 0 0 in 1 / snd r * fst r.

(* bien.py:138 *)
Definition ktbien (s : list bool) : R :=
  let r := acc_loop cyclic_binary_derivative w_log (length s - 1) 0 s 0 0 in 1 / snd r * fst r.

(* the entropy of a binary string as a function of its two counts (c ones among n digits) *)
Definition termR (c n : nat) : R := INR c / INR n * log2 (INR c / INR n).
Definition H2R (c n : nat) : R :=
  if ((c =? 0) || (c =? n))%nat then 0 else - (termR c n + termR (n - c) n).

(* ------------------------------------------------------------------ interval twin
   An enclosure of the real values above; it need not follow the float operations of the code, only
   contain the real number (Proofs/BienProofs.v).  It uses
     H2R c n = (n ln n - c ln c - (n-c) ln (n-c)) / (n ln 2)          for 0 < c < n
   with the logarithms of the integers 1 .. 301 enclosed once (a closed constant: the VM evaluates it
   once per process, when the code is linked: about 6 s), and the closed forms xor_adjacent / xor_adjacent_cyclic of the derivatives. *)
Module F := SpecificFloat StdZRadix2.
Module I := FloatIntervalFull F.

Definition prec : F.precision := F.PtoP 80%positive.
Definition IofN (k : nat) : I.type := I.fromZ prec (Z.of_nat k).
Definition ln_direct (k : nat) : I.type := I.ln prec (IofN k).
Definition LN_MAX : nat := 301.
Definition ln_tab : list I.type := map ln_direct (seq 1 LN_MAX).
Definition lnI (k : nat) : I.type :=
  match k with
  | 0 => ln_direct 0
  | S j => if (j <? LN_MAX)%nat then nth j ln_tab I.nai else ln_direct k
  end.

Definition H2I (c n : nat) : I.type :=
  if ((c =? 0) || (c =? n))%nat then I.fromZ prec 0
  else I.div prec
         (I.sub prec (I.mul prec (IofN n) (lnI n))
                     (I.add prec (I.mul prec (IofN c) (lnI c)) (I.mul prec (IofN (n - c)) (lnI (n - c)))))
         (I.mul prec (IofN n) (lnI 2)).
Definition shannonI (s : list bool) : I.type := H2I (count_true s) (length s).

Fixpoint acc_loopI (d : list bool -> list bool) (w : nat -> I.type) (fuel k : nat)
         (s : list bool) (tot totw : I.type) : I.type * I.type :=
  match fuel with
  | 0 => (tot, totw)
  | S f => let lg := w k in
           acc_loopI d w f (S k) (d s) (I.add prec tot (I.mul prec (shannonI s) lg)) (I.add prec totw lg)
  end.

Definition w_pow2I (k : nat) : I.type := I.fromZ prec (2 ^ Z.of_nat k).
Definition w_logI (k : nat) : I.type := I.div prec (lnI (k + 2)) (lnI 2).

Definition bienI (s : list bool) : I.type :=
  let n := length s in
  I.mul prec (I.div prec (I.fromZ prec 1) (I.fromZ prec (2 ^ Z.of_nat (n - 1) - 1)))
        (fst (acc_loopI xor_adjacent w_pow2I (n - 1) 0 s (I.fromZ prec 0) (I.fromZ prec 0))).
Definition tbienI (s : list bool) : I.type :=
  let r := acc_loopI xor_adjacent w_logI (length s - 1) 0 s (I.fromZ prec 0) (I.fromZ prec 0) in
  I.mul prec (I.div prec (I.fromZ prec 1) (snd r)) (fst r).
Definition ktbienI (s : list bool) : I.type :=
  let r := acc_loopI xor_adjacent_cyclic w_logI (length s - 1) 0 s (I.fromZ prec 0) (I.fromZ prec 0) in
  I.mul prec (I.div prec (I.fromZ prec 1) (snd r)) (fst r).

(* the double m * 2^e lies within 2^-30 of every point of the enclosure *)
Definition dbl (m e : Z) : F.type := Specific_ops.Float m e.
Definition tol : I.type := I.bnd (dbl (-1) (-30)) (dbl 1 (-30)).
Definition within (enc : I.type) (m e : Z) : bool :=
  I.subset (I.sub prec enc (I.bnd (dbl m e) (dbl m e))) tol.
