(* Model of cellpylib/sandpile.py: Sandpile.__call__ (lines 47-81), _is_in_boundary (37-45),
   add_grain (26-35).  Executable definitions only. *)
From CPL Require Import Model.Base Model.Rules.
Local Open Scope Z_scope.

(* n[i][j] on the VALUES of the block.  evolve2d(..., neighbourhood='von Neumann', r=1) hands the
   rule a MaskedArray whose mask is [[T,F,T],[F,F,F],[T,F,T]]: the five entries read below
   (n[0][1], n[1][0], n[1][1], n[1][2], n[2][1]) are exactly the unmasked ones, so indexing returns
   the value (a masked entry would return the constant `masked`). *)
Definition nb_at (n : nbhd2) (i j : nat) : Z := nth j (nth i (nb_vals n) []) 0.

(* _is_in_boundary (45): c[0] == 0 or c[0] == self._rows - 1 or c[1] == 0 or c[1] == self._cols - 1.
   rows / cols are the CONSTRUCTOR arguments (Python ints; rows - 1 may be -1, which matches nothing) *)
Definition in_boundary (rows cols : nat) (c : nat * nat) : bool :=
  (fst c =? 0)%nat || (Z.of_nat (fst c) =? Z.of_nat rows - 1)
  || (snd c =? 0)%nat || (Z.of_nat (snd c) =? Z.of_nat cols - 1).

(* a scheduled addition _GrainAddition(cell_index, timestep) *)
Definition addition := ((nat * nat) * nat)%type.

Definition cell_eqb (a b : nat * nat) : bool := (fst a =? fst b)%nat && (snd a =? snd b)%nat.

(* 62-64: for grain_addition in self._grain_additions:
            if t == grain_addition.timestep and c == grain_addition.cell_index: return n[1][1] + 1
   the loop returns on the first match; the returned value does not depend on which one matched *)
Definition scheduled (adds : list addition) (c : nat * nat) (t : nat) : bool :=
  existsb (fun a : addition => (t =? snd a)%nat && cell_eqb c (fst a)) adds.

Definition K : Z := 4.  (* self._K, line 20 *)

(* 73-76: for neighbour_activity in neighbour_activities: if neighbour_activity >= K: new_activity += 1 *)
Definition topple_in (acc : Z) (nbs : list Z) : Z :=
  fold_left (fun a x => if K <=? x then a + 1 else a) nbs acc.

(* __call__ (47-81) *)
Definition sandpile_call (rows cols : nat) (closed : bool) (adds : list addition)
           (n : nbhd2) (c : nat * nat) (t : nat) : Z :=
  if closed && in_boundary rows cols c then 0                       (* 59-60: the boundary test comes first *)
  else if scheduled adds c t then nb_at n 1 1 + 1                    (* 62-64: no toppling applied here *)
  else
    let current := nb_at n 1 1 in                                    (* 67 *)
    let nbs := [nb_at n 0 1; nb_at n 1 0; nb_at n 1 2; nb_at n 2 1] in  (* 71: top, left, right, bottom *)
    let new_activity := topple_in current nbs in                     (* 68, 73-76 *)
    if K <=? current then new_activity - K else new_activity.        (* 78-81 *)

(* the rule object as a rule2: the additions are fixed before the evolution, the call keeps no state *)
Definition sandpile_rule (rows cols : nat) (closed : bool) (adds : list addition) : rule2 unit :=
  fun u n c t => (u, sandpile_call rows cols closed adds n c t).
