(* Model of cellpylib/ca_functions2d.py: the von Neumann mask, _get_neighbourhood_indices,
   _get_neighbourhood and the memoize=False double loop of _evolve2d_fixed / _evolve2d_dynamic (C02).
   Executable definitions only. *)
From CPL Require Import Model.Base Model.Rules Model.Engine.
Local Open Scope Z_scope.

Definition grid := list (list Z).
Definition grid_rows (g : grid) : nat := length g.
Definition grid_cols (g : grid) : nat := length (hd [] g).

(* von_neumann_mask (lines 361-366): row i has its first and last |r - i| entries masked *)
Definition vn_mask_row (r i : nat) : list bool :=
  let m := if (i <=? r)%nat then (r - i)%nat else (i - r)%nat in
  map (fun j => (j <? m)%nat || (2 * r + 1 - m <=? j)%nat) (seq 0 (2 * r + 1)).
Definition vn_mask (r : nat) : list (list bool) := map (vn_mask_row r) (seq 0 (2 * r + 1)).
Definition no_mask (r : nat) : list (list bool) :=
  repeat (repeat false (2 * r + 1)) (2 * r + 1).

(* row_indices = range(row - r, row + r + 1); [i - rows if i > rows - 1 else i for i in ...]
   the result may be negative: NumPy resolves it (py_index) *)
Definition axis_indices (n : nat) (x r : nat) : list Z :=
  map (fun k => let i := Z.of_nat x - Z.of_nat r + Z.of_nat k in
                if (Z.of_nat n - 1 <? i) then i - Z.of_nat n else i) (seq 0 (2 * r + 1)).

(* a[i] for a possibly negative index; out of range has no model value (the code raises) *)
Definition get_axis {A} (d : A) (l : list A) (i : Z) : A :=
  match py_index (length l) i with Some k => nth k l d | None => d end.
Definition axis_in_range (n : nat) (i : Z) : bool :=
  match py_index n i with Some _ => true | None => false end.

(* cell_layer[np.ix_(row_indices, col_indices)] *)
Definition ix_gather (g : grid) (ris cis : list Z) : grid :=
  map (fun i => map (fun j => get_axis 0 (get_axis [] g i) j) cis) ris.

Inductive nbhd_type := Moore | VonNeumann.

(* _get_neighbourhood *)
Definition get_neighbourhood (g : grid) (R C r : nat) (row col : nat) (ty : nbhd_type) : nbhd2 :=
  {| nb_vals := ix_gather g (axis_indices R row r) (axis_indices C col r);
     nb_mask := match ty with Moore => no_mask r | VonNeumann => vn_mask r end |}.

Section Plain2D.
  Variable St : Type.
  Variable rule : rule2 St.
  Variable store : Z -> Z.

  (* for row ...: for col ...: next[row][col] = apply_rule(n, (row, col), t) — row-major *)
  Fixpoint apply_cols (s : St) (g : grid) (R C r : nat) (ty : nbhd_type) (row : nat) (cols : list nat) (t : nat)
    : St * list Z :=
    match cols with
    | [] => (s, [])
    | col :: cols' =>
        let '(s1, v) := rule s (get_neighbourhood g R C r row col ty) (row, col) t in
        let '(s2, vs) := apply_cols s1 g R C r ty row cols' t in
        (s2, store v :: vs)
    end.
  Fixpoint apply_rows (s : St) (g : grid) (R C r : nat) (ty : nbhd_type) (rows : list nat) (t : nat)
    : St * grid :=
    match rows with
    | [] => (s, [])
    | row :: rows' =>
        let '(s1, vs) := apply_cols s g R C r ty row (seq 0 C) t in
        let '(s2, rest) := apply_rows s1 g R C r ty rows' t in
        (s2, vs :: rest)
    end.

  Definition step_plain2d (r : nat) (ty : nbhd_type) : St -> grid -> nat -> St * grid :=
    fun s g t => apply_rows s g (grid_rows g) (grid_cols g) r ty (seq 0 (grid_rows g)) t.

  Definition evolve2d_plain (r : nat) (ty : nbhd_type) (s0 : St) (hist : list grid) (T : nat) :=
    evolve_fixed [] (step_plain2d r ty) s0 hist T.
  Definition evolve2d_plain_dynamic {P} (pred : P -> list grid -> nat -> P * bool)
             (r : nat) (ty : nbhd_type) (fuel : nat) (p0 : P) (s0 : St) (hist : list grid) :=
    evolve_dynamic [] (step_plain2d r ty) pred fuel p0 s0 hist.
End Plain2D.

Arguments apply_cols {St} rule store s g R C r ty row cols t.
Arguments apply_rows {St} rule store s g R C r ty rows t.
Arguments step_plain2d {St} rule store r ty.
Arguments evolve2d_plain {St} rule store r ty s0 hist T.
Arguments evolve2d_plain_dynamic {St} rule store {P} pred r ty fuel p0 s0 hist.

(* The specification the property states: the block centred on (row, col), both axes wrapping *)
Definition torus_block (g : grid) (row col r : nat) : grid :=
  let R := grid_rows g in let C := grid_cols g in
  map (fun a => map (fun b => nth ((col + b + C - r) mod C) (nth ((row + a + R - r) mod R) g []) 0)
                    (seq 0 (2 * r + 1))) (seq 0 (2 * r + 1)).
(* exactly the positions at Manhattan distance > r from the centre are masked *)
Definition manhattan_mask (r : nat) : list (list bool) :=
  map (fun i => map (fun j => (r <? (if (i <=? r) then r - i else i - r) + (if (j <=? r) then r - j else j - r))%nat)
                    (seq 0 (2 * r + 1))) (seq 0 (2 * r + 1)).
