(* C18: interval twin for long strings (n > 301, beyond the fixed logarithm table of Model/Bien.v).
   Same enclosure formulas as Model/Bien.v, parametrised by the precision and by a table of enclosures of
   ln 1 .. ln N that the caller builds for the string at hand (N = n + 1 covers every logarithm needed:
   counts <= n and the weights log2 (k + 2), k <= n - 2).  Definitions only; containment in
   Proofs/BienLongProofs.v. *)
From Coq Require Import Reals.
From Interval Require Import Specific_stdz Specific_ops Float_full Interval Xreal Basic.
From CPL Require Import Model.Base Model.BienExact Model.Bien.

Definition natIp (pr : F.precision) (k : nat) : I.type := I.fromZ pr (Z.of_nat k).
Definition ln_directp (pr : F.precision) (k : nat) : I.type := I.ln pr (natIp pr k).
Definition mk_tab (pr : F.precision) (N : nat) : list I.type := map (ln_directp pr) (seq 1 N).

Section Long.
Variable pr : F.precision.
Variable tab : list I.type.        (* entry j encloses ln (j + 1) *)

Definition lnL (k : nat) : I.type :=
  match k with
  | 0 => ln_directp pr 0
  | S j => match nth_error tab j with Some x => x | None => ln_directp pr k end
  end.

Definition H2IL (c n : nat) : I.type :=
  if ((c =? 0) || (c =? n))%nat then I.fromZ pr 0
  else I.div pr
         (I.sub pr (I.mul pr (natIp pr n) (lnL n))
                   (I.add pr (I.mul pr (natIp pr c) (lnL c)) (I.mul pr (natIp pr (n - c)) (lnL (n - c)))))
         (I.mul pr (natIp pr n) (lnL 2)).
Definition shannonIL (s : list bool) : I.type := H2IL (count_true s) (length s).

Fixpoint acc_loopIL (d : list bool -> list bool) (w : nat -> I.type) (fuel k : nat)
         (s : list bool) (tot totw : I.type) : I.type * I.type :=
  match fuel with
  | 0 => (tot, totw)
  | S f => let lg := w k in
           acc_loopIL d w f (S k) (d s) (I.add pr tot (I.mul pr (shannonIL s) lg)) (I.add pr totw lg)
  end.

Definition w_pow2IL (k : nat) : I.type := I.fromZ pr (2 ^ Z.of_nat k).
Definition w_logIL (k : nat) : I.type := I.div pr (lnL (k + 2)) (lnL 2).

Definition bienIL_tab (s : list bool) : I.type :=
  let n := length s in
  I.mul pr (I.div pr (I.fromZ pr 1) (I.fromZ pr (2 ^ Z.of_nat (n - 1) - 1)))
        (fst (acc_loopIL xor_adjacent w_pow2IL (n - 1) 0 s (I.fromZ pr 0) (I.fromZ pr 0))).
Definition log_loopIL_tab (d : list bool -> list bool) (s : list bool) : I.type :=
  let r := acc_loopIL d w_logIL (length s - 1) 0 s (I.fromZ pr 0) (I.fromZ pr 0) in
  I.mul pr (I.div pr (I.fromZ pr 1) (snd r)) (fst r).
End Long.

(* the table is built per string: ln 1 .. ln (n + 1) *)
Definition bienIL (pr : F.precision) (s : list bool) : I.type :=
  let tab := mk_tab pr (length s + 1) in bienIL_tab pr tab s.
Definition tbienIL (pr : F.precision) (s : list bool) : I.type :=
  let tab := mk_tab pr (length s + 1) in log_loopIL_tab pr tab xor_adjacent s.
Definition ktbienIL (pr : F.precision) (s : list bool) : I.type :=
  let tab := mk_tab pr (length s + 1) in log_loopIL_tab pr tab xor_adjacent_cyclic s.

(* precision used for long strings: 64 bits (enclosure widths about 2^-50, see notes/agents/C18.md) *)
Definition prec_long : F.precision := F.PtoP 64%positive.
