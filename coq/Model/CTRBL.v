(* C15 — model of cellpylib/ctrbl_rule.py (CTRBLRule). Executable definitions only.

   A rule table is a Python dict; it is modelled as an insertion-ordered association list with
   dict semantics: writing an existing key replaces its value in place (last write wins, the key
   keeps its position), writing a new key appends. Keys are the 5-tuples (C,T,R,B,L). *)
From Coq Require Import FMapPositive.
From CPL Require Import Model.Base.
Local Open Scope Z_scope.

Definition key := (Z * Z * Z * Z * Z)%type.
Definition table := list (key * Z).

Definition key_eqb (a b : key) : bool :=
  let '(c1, t1, r1, b1, l1) := a in
  let '(c2, t2, r2, b2, l2) := b in
  (c1 =? c2) && (t1 =? t2) && (r1 =? r2) && (b1 =? b2) && (l1 =? l2).

(* d[k] / `k in d` *)
Fixpoint dict_get (k : key) (d : table) : option Z :=
  match d with
  | [] => None
  | (k', v) :: d' => if key_eqb k k' then Some v else dict_get k d'
  end.

(* d[k] = v *)
Fixpoint dict_set (k : key) (v : Z) (d : table) : table :=
  match d with
  | [] => [(k, v)]
  | (k', v') :: d' => if key_eqb k k' then (k', v) :: d' else (k', v') :: dict_set k v d'
  end.

(* a dict literal / dict(items): later duplicates overwrite earlier ones *)
Definition py_dict (items : table) : table :=
  fold_left (fun d e => dict_set (fst e) (snd e) d) items [].

(* list.pop(i) and list.insert(i, x) for in-range i (the only way they are used here) *)
Definition list_pop (i : nat) (l : list Z) : Z * list Z := (nth i l 0, firstn i l ++ skipn (S i) l).
Definition list_insert (i : nat) (x : Z) (l : list Z) : list Z := firstn i l ++ x :: skipn i l.

(* ctrbl_rule.py:62   r.insert(1, r.pop(4))   on r = list(rule) *)
Definition rot_list (r : list Z) : list Z :=
  let '(x, r') := list_pop 4 r in list_insert 1 x r'.

Definition key_to_list (k : key) : list Z := let '(c, t, r, b, l) := k in [c; t; r; b; l].
Definition key_of_list (l : list Z) : key :=
  (nth 0 l 0, nth 1 l 0, nth 2 l 0, nth 3 l 0, nth 4 l 0).

(* tuple(r) after one r.insert(1, r.pop(4)):  (C,T,R,B,L) |-> (C,L,T,R,B) (lemma rot_spec) *)
Definition rot (k : key) : key := key_of_list (rot_list (key_to_list k)).

(* ctrbl_rule.py:57-63, the body of the loop over rule_table.items() *)
Definition add_entry (add_rotations : bool) (new_rule_table : table) (e : key * Z) : table :=
  let '(rule, image) := e in
  let t0 := dict_set rule image new_rule_table in          (* new_rule_table[rule] = image *)
  if add_rotations then
    let r1 := rot rule in let t1 := dict_set r1 image t0 in  (* for _ in range(3): rotate; store *)
    let r2 := rot r1 in let t2 := dict_set r2 image t1 in
    let r3 := rot r2 in dict_set r3 image t2
  else t0.

(* ctrbl_rule.py:54-64  _init_rule_table; `rule_table.items()` is the argument in dict order *)
Definition init_rule_table (rule_table : table) (add_rotations : bool) : table :=
  fold_left (add_entry add_rotations) rule_table [].

(* CTRBLRule(rule_table, add_rotations).rule_table  when the argument is the dict built from `items` *)
Definition ctrbl_new (items : table) (add_rotations : bool) : table :=
  init_rule_table (py_dict items) add_rotations.

(* ctrbl_rule.py:35-40: key = (n[1][1], n[0][1], n[1][2], n[2][1], n[1][0]) of the 3x3 block *)
Definition nb_at (n : list (list Z)) (i j : nat) : Z := nth j (nth i n []) 0.
Definition key_of_nbhd (n : list (list Z)) : key :=
  (nb_at n 1 1, nb_at n 0 1, nb_at n 1 2, nb_at n 2 1, nb_at n 1 0).

(* ctrbl_rule.py:41-43 *)
Definition ctrbl_call (t : table) (k : key) : res Z :=
  match dict_get k t with
  | Some v => Ok v
  | None => Raise ValueError
  end.

Definition CTRBLRule_call (t : table) (n : list (list Z)) : res Z := ctrbl_call t (key_of_nbhd n).

(* ------------------------------------------------------------------------------------------
   Helpers for the complete finite sweeps (C15 finite theorems and the correspondence streams).
   Not part of the model of the code: a trie with the same answers as dict_get on keys whose
   components lie in 0..15 (Proofs/CTRBLProofs.v: fast_get_correct), so that 9^5 x 4 lookups in a
   1000-entry table take a fraction of a second under vm_compute. *)
Definition small (x : Z) : bool := (0 <=? x) && (x <? 16).
Definition key_small (k : key) : bool :=
  let '(c, t, r, b, l) := k in small c && small t && small r && small b && small l.
Definition pack (k : key) : positive :=
  let '(c, t, r, b, l) := k in Z.to_pos (1 + c + 16 * (t + 16 * (r + 16 * (b + 16 * l)))).

Definition fast_table := PositiveMap.t Z.
(* first occurrence wins, as in dict_get *)
Definition compile (d : table) : fast_table :=
  fold_right (fun e m => if key_small (fst e) then PositiveMap.add (pack (fst e)) (snd e) m else m)
             (PositiveMap.empty Z) d.
Definition fast_get (k : key) (m : fast_table) : option Z := PositiveMap.find (pack k) m.

(* states 0 .. n-1 *)
Definition states (n : nat) : list Z := map Z.of_nat (seq 0 n).

(* nested sweep over all (C,T,R,B,L) in dom^5 *)
Definition forall5b (dom : list Z) (f : key -> bool) : bool :=
  forallb (fun c => forallb (fun t => forallb (fun r => forallb (fun b => forallb (fun l =>
    f (c, t, r, b, l)) dom) dom) dom) dom) dom.

(* first key of dom^5 (lexicographic) on which f holds: the witness search *)
Definition find_in {A} (dom : list Z) (g : Z -> option A) : option A :=
  fold_right (fun x acc => match g x with Some w => Some w | None => acc end) None dom.
Definition find5 (dom : list Z) (f : key -> bool) : option key :=
  find_in dom (fun c => find_in dom (fun t => find_in dom (fun r => find_in dom (fun b => find_in dom (fun l =>
    if f (c, t, r, b, l) then Some (c, t, r, b, l) else None))))).

(* the two tables agree as mappings (order of insertion is not an observable of the property) *)
Definition sub_table (a b : table) : bool :=
  forallb (fun e => match dict_get (fst e) a, dict_get (fst e) b with
                    | Some v, Some w => v =? w
                    | None, None => true
                    | _, _ => false
                    end) a.
Definition table_eqb (a b : table) : bool := sub_table a b && sub_table b a.
