(* The outer loops shared by evolve, evolve2d, evolve_block, evolve2d_block:
   _evolve_fixed / _evolve2d_fixed (for t in range(1, timesteps)) and
   _evolve_dynamic / _evolve2d_dynamic (while timesteps(np.array(array), t)).
   Generic in the configuration type C (a row `list Z` or a grid `list (list Z)`), in the
   threaded state X of one step (rule state, caches, call log) and in the state P of the
   stopping predicate.  Executable definitions only. *)
From CPL Require Import Model.Base.

Section Engine.
  Variables (X P C : Type).
  Variable dflt : C.
  (* one synchronous step: state, current configuration, 1-based step number *)
  Variable step : X -> C -> nat -> X * C.
  (* the stopping predicate: its own state, the states produced so far IN THIS CALL, t *)
  Variable pred : P -> list C -> nat -> P * bool.

  (* for t in range(t0, t0 + n): array[t] = step(array[t-1]) *)
  Fixpoint iter_steps (n : nat) (x : X) (cur : C) (t : nat) : X * list C :=
    match n with
    | 0 => (x, [])
    | S n' =>
        let '(x1, nxt) := step x cur t in
        let '(x2, rest) := iter_steps n' x1 nxt (S t) in
        (x2, nxt :: rest)
    end.

  (* _evolve_fixed: starts from cellular_automaton[-1], performs timesteps-1 steps numbered 1.., and
     returns np.concatenate((cellular_automaton, array[1:])).  timesteps = 0 raises (array[0] = ...
     on an empty array), which the model reports. *)
  Definition evolve_fixed (x0 : X) (hist : list C) (T : nat) : res (X * list C) :=
    match T with
    | 0 => Raise IndexError
    | S k => let '(x, rows) := iter_steps k x0 (last hist dflt) 1 in Ok (x, hist ++ rows)
    end.

  (* _evolve_dynamic: array = [initial]; t = 1; while timesteps(array, t): array.append(step); t += 1.
     Returns np.concatenate((cellular_automaton[:-1], array)).  Also returns the log of the
     predicate's arguments.  None = out of fuel (the real loop would not have terminated yet). *)
  Fixpoint dynamic_loop (fuel : nat) (p : P) (x : X) (states : list C) (t : nat)
           (plog : list (list C * nat)) : option (P * X * list C * list (list C * nat)) :=
    match fuel with
    | 0 => None
    | S f =>
        let '(p1, go) := pred p states t in
        let plog1 := plog ++ [(states, t)] in
        if go then
          let '(x1, nxt) := step x (last states dflt) t in
          dynamic_loop f p1 x1 (states ++ [nxt]) (S t) plog1
        else Some (p1, x, states, plog1)
    end.

  Definition evolve_dynamic (fuel : nat) (p0 : P) (x0 : X) (hist : list C)
    : option (P * X * list C * list (list C * nat)) :=
    match dynamic_loop fuel p0 x0 [last hist dflt] 1 [] with
    | None => None
    | Some (p, x, states, plog) => Some (p, x, removelast hist ++ states, plog)
    end.
End Engine.

Arguments iter_steps {X C} step n x cur t.
Arguments evolve_fixed {X C} dflt step x0 hist T.
Arguments dynamic_loop {X P C} dflt step pred fuel p x states t plog.
Arguments evolve_dynamic {X P C} dflt step pred fuel p0 x0 hist.

(* until_fixed_point(): len(ca) > 1 and (ca[-2] == ca[-1]).all() -> False, else True.  Stateless. *)
Definition until_fixed_point {C} (eqb : C -> C -> bool) (u : unit) (states : list C) (t : nat) : unit * bool :=
  match rev states with
  | a :: b :: _ => (u, negb (eqb b a))
  | _ => (u, true)
  end.

(* predicates that exist on both sides of the correspondence *)
(* lambda ca, t: t < k *)
Definition pred_lt {C} (k : nat) (u : unit) (states : list C) (t : nat) : unit * bool := (u, t <? k).
(* a scripted predicate: the i-th consultation answers script[i] (False when exhausted) *)
Definition pred_script {C} (script : list bool) (i : nat) (states : list C) (t : nat) : nat * bool :=
  (S i, nth i script false).
