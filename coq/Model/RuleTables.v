(* Model of cellpylib/rule_tables.py: table_rule, random_rule_table, table_walk_through (C17).
   Executable definitions only.

   Strings.  A Python string is a list of character codes (nat): the characters '0'..'9' are
   0..9 and 'A'..'Z' are 10..35, which are exactly the digit characters np.base_repr produces,
   so a base-k digit string IS the list of its digits.
   Dict.  `table` is an insertion-ordered association list with distinct keys; `tset` is
   `d[key] = v` (update in place if present, else append), `lookup` is `d.get(key)`.
   Randomness.  Every random draw is taken from an explicit oracle: a script of rationals for
   `random.random()`, a script of indices for `random.choice(lst)` (the element taken is
   lst[i mod len(lst)]), one value for `np.random.randint(k)`.  A script that runs out yields
   0 for ever (the harness patch does the same).
   lambda is an exact rational (Q); comparisons of doubles in the code are comparisons in Q here. *)
From CPL Require Import Model.Base.
From Coq Require Import QArith.
Local Open Scope nat_scope.

(* ------------------------------------------------------------------ strings *)
Definition key := list nat.
Definition key_eqb : key -> key -> bool := list_eqb Nat.eqb.

(* np.base_repr(number, base):  while num: res.append(digits[num % base]); num //= base
   then ''.join(reversed(res or '0')).  Fuel = number (enough for base >= 2). *)
Fixpoint digits_lsb (fuel num base : nat) : list nat :=
  match fuel with
  | 0 => []
  | S f => if num =? 0 then [] else (num mod base) :: digits_lsb f (num / base) base
  end.
Definition base_repr (num base : nat) : list nat :=
  if num =? 0 then [0] else rev (digits_lsb num num base).

(* str.zfill(n) on a string without sign *)
Definition zfill (n : nat) (s : key) : key := repeat 0 (n - length s) ++ s.

(* rule_tables.py:50-53   for i in range(0, k**n): states.append(np.base_repr(i, k).zfill(n)) *)
Definition states (k n : nat) : list key := map (fun i => zfill n (base_repr i k)) (seq 0 (k ^ n)).

(* len(set(state)) == 1 *)
Definition uniform (s : key) : bool :=
  match s with [] => false | c :: s' => forallb (Nat.eqb c) s' end.

(* ------------------------------------------------------------------ dict *)
Definition table := list (key * Z).

Fixpoint lookup (s : key) (t : table) : option Z :=
  match t with
  | [] => None
  | (s', v) :: t' => if key_eqb s' s then Some v else lookup s t'
  end.

Fixpoint tset (s : key) (v : Z) (t : table) : table :=
  match t with
  | [] => [(s, v)]
  | (s', v') :: t' => if key_eqb s' s then (s', v) :: t' else (s', v') :: tset s v t'
  end.

(* list(rule_table.values()).count(q) *)
Definition qcount (q : Z) (t : table) : nat := length (filter (fun kv => (snd kv =? q)%Z) t).

(* ------------------------------------------------------------------ oracle *)
Record oracle := { o_rand : list Q; o_choice : list nat; o_randint : Z }.

Definition next {A} (d : A) (l : list A) : A * list A :=
  match l with [] => (d, []) | x :: l' => (x, l') end.

(* random.choice(lst) replayed with index i; IndexError on an empty list *)
Definition choice {A} (d : A) (l : list A) (i : nat) : res A :=
  match l with [] => Raise IndexError | _ => Ok (nth (i mod length l) l d) end.

Definition Qlt_bool (a b : Q) : bool := match (a ?= b)%Q with Lt => true | _ => false end.

(* [x for x in range(0, k) if x != quiescent_state] *)
Definition others (k : nat) (q : Z) : list Z :=
  filter (fun x => negb (x =? q)%Z) (map Z.of_nat (seq 0 k)).

Fixpoint fold_res {A B} (f : A -> B -> res A) (l : list B) (a : A) : res A :=
  match l with
  | [] => Ok a
  | x :: l' => bind (f a x) (fun a' => fold_res f l' a')
  end.

(* ------------------------------------------------------------------ random_rule_table *)
(* loop state: table, quiescent_state_count, remaining random.random() script, remaining choice script *)
Definition rrt_state := (table * nat * list Q * list nat)%type.

(* one iteration of `for state in states:` (lines 63-79) *)
Definition rrt_step (k : nat) (q : Z) (lam : Q) (sq iso : bool) (st : rrt_state) (s : key) : res rrt_state :=
  let '(t, cnt, us, cs) := st in
  if sq && uniform s then
    (* 64-67: cell_state = int(state[0], k)  (ValueError if the digit is not a base-k digit) *)
    let d := hd 0 s in
    if d <? k then
      let c := Z.of_nat d in
      Ok (tset s c t, (if (c =? q)%Z then S cnt else cnt), us, cs)
    else Raise ValueError
  else
    (* 69-72 *)
    match (if iso then lookup (rev s) t else None) with
    | Some c => Ok (tset s c t, (if (c =? q)%Z then S cnt else cnt), us, cs)
    | None =>
        (* 74-78 *)
        let (u, us') := next 0%Q us in
        if Qlt_bool u (1 - lam)%Q then Ok (tset s q t, S cnt, us', cs)
        else
          let (i, cs') := next 0 cs in
          bind (choice 0%Z (others k q) i) (fun c => Ok (tset s c t, cnt, us', cs'))
    end.

Definition pow_pos (k n : nat) : positive := Pos.of_nat (k ^ n).

(* (k**n - count) / k**n as an exact rational *)
Definition lambda_of (k n cnt : nat) : Q := (Z.of_nat (k ^ n) - Z.of_nat cnt) # pow_pos k n.

Definition random_rule_table (k r : nat) (lam : option Q) (qo : option Z) (sq iso : bool) (o : oracle)
  : res (table * Q * Z) :=
  let n := 2 * r + 1 in
  let sts := states k n in
  (* 52-53: np.base_repr raises ValueError for a base < 2 or > 36; the loop body runs iff k^n > 0,
     i.e. for k = 1 and for k > 36 (for k = 0 the range is empty) *)
  if (k =? 1) || (36 <? k) then Raise ValueError else
  (* 55-56: 1. - (1. / k): ZeroDivisionError for k = 0 *)
  bind (match lam with
        | Some l => Ok l
        | None => if k =? 0 then Raise OtherError else Ok (1 - (1 # Pos.of_nat k))%Q
        end) (fun lam =>
  (* 57-60 *)
  let q := match qo with Some q => q | None => o_randint o end in
  if negb ((0 <=? q)%Z && (q <=? Z.of_nat k - 1)%Z) then Raise ValueError else
  bind (fold_res (rrt_step k q lam sq iso) sts ([], 0, o_rand o, o_choice o)) (fun st =>
  let '(t, cnt, _, _) := st in
  Ok (t, lambda_of k n cnt, q))).

(* ------------------------------------------------------------------ table_walk_through *)
(* actual_lambda() (116-119) *)
Definition actual_lambda (k r : nat) (q : Z) (t : table) : Q := lambda_of k (2 * r + 1) (qcount q t).

(* 128-132: states_to_others *)
Definition adm_dec (q : Z) (sq : bool) (t : table) : list key :=
  let l := map fst (filter (fun kv => negb (snd kv =? q)%Z) t) in
  if sq then filter (fun s => negb (uniform s)) l else l.

(* 145-148: states_to_quiescent *)
Definition adm_inc (q : Z) (sq : bool) (t : table) : list key :=
  let l := map fst (filter (fun kv => (snd kv =? q)%Z) t) in
  if sq then filter (fun s => negb (uniform s)) l else l.

Inductive step_out := Break | Cont (t : table) (cs : list nat).

(* 137-139 / 154-156: rule_table[state[::-1]] = rule_table[state] (read back after the write) *)
Definition mirror (iso : bool) (s : key) (t1 : table) (cs : list nat) : res step_out :=
  if iso then
    match lookup s t1 with
    | Some w => Ok (Cont (tset (rev s) w t1) cs)
    | None => Raise OtherError
    end
  else Ok (Cont t1 cs).

(* body of the "reduce lambda" loop after `attempts += 1` (128-139) *)
Definition dec_body (q : Z) (sq iso : bool) (t : table) (cs : list nat) : res step_out :=
  match adm_dec q sq t with
  | [] => Ok Break
  | adm =>
      let (i, cs1) := next 0 cs in
      bind (choice [] adm i) (fun s => mirror iso s (tset s q t) cs1)
  end.

(* body of the "increase lambda" loop after `attempts += 1` (145-156) *)
Definition inc_body (k : nat) (q : Z) (sq iso : bool) (t : table) (cs : list nat) : res step_out :=
  match adm_inc q sq t with
  | [] => Ok Break
  | adm =>
      let (i, cs1) := next 0 cs in
      bind (choice [] adm i) (fun s =>
      let (j, cs2) := next 0 cs1 in
      bind (choice 0%Z (others k q) j) (fun v => mirror iso s (tset s v t) cs2))
  end.

(* while guard(table) and attempts < len(rule_table): attempts += 1; body
   None = the fuel ran out (proved impossible with fuel = len(rule_table) + 1). *)
Fixpoint walk_loop (guard : table -> bool) (body : table -> list nat -> res step_out)
  (fuel : nat) (t : table) (att : nat) (cs : list nat) : res (option (table * list nat)) :=
  match fuel with
  | 0 => Ok None
  | S f =>
      if guard t && (att <? length t) then
        bind (body t cs) (fun o =>
          match o with
          | Break => Ok (Some (t, cs))
          | Cont t' cs' => walk_loop guard body f t' (S att) cs'
          end)
      else Ok (Some (t, cs))
  end.

Definition dec_guard (k r : nat) (q : Z) (lam : Q) (t : table) : bool := Qlt_bool lam (actual_lambda k r q t).
Definition inc_guard (k r : nat) (q : Z) (lam : Q) (t : table) : bool := Qlt_bool (actual_lambda k r q t) lam.

Definition finish (k r : nat) (q : Z) (o : option (table * list nat)) : res (option (table * Q)) :=
  match o with
  | None => Ok None
  | Some (t', _) => Ok (Some (t', actual_lambda k r q t'))   (* 157 *)
  end.

(* Ok None = out of fuel *)
Definition table_walk_through (t : table) (lam : Q) (k r : nat) (q : Z) (sq iso : bool) (cs : list nat)
  : res (option (table * Q)) :=
  (* k**n = 0: ZeroDivisionError in actual_lambda() *)
  if k =? 0 then Raise OtherError else
  let a := actual_lambda k r q t in
  match (a ?= lam)%Q with
  | Eq => Ok (Some (t, a))                                                       (* 121-122 *)
  | Gt => bind (walk_loop (dec_guard k r q lam) (dec_body q sq iso) (S (length t)) t 0 cs) (finish k r q)   (* 123-139 *)
  | Lt => bind (walk_loop (inc_guard k r q lam) (inc_body k q sq iso) (S (length t)) t 0 cs) (finish k r q) (* 140-156 *)
  end.

(* ------------------------------------------------------------------ table_rule (17-21) *)
(* str(x) for a non-negative int = its base-10 digits; the key is the concatenation *)
Definition state_repr (nb : list nat) : key := concat (map (fun x => base_repr x 10) nb).

Definition table_rule (nb : list nat) (t : table) : res Z :=
  match lookup (state_repr nb) t with
  | Some v => Ok v
  | None => Raise ValueError
  end.
