(* Model of the memoised 1D engines of cellpylib/ca_functions.py (C03, 1D half of C09):
   _get_memoized (329-357), _step (261-286), _update_state (289-326), the option dispatch inside
   the loops of _evolve_fixed (194-203) and _evolve_dynamic (246-254), and a process = a sequence
   of evolve calls.  Executable definitions only; proofs in Proofs/Memo1DProofs.v.

   Every step threads  (rule state, cache, rule-call log)  so that C09 can count rule calls. *)
From Coq Require String.
From CPL Require Import Model.Base Model.Rules Model.Engine Model.Evolve1D.

(* ------------------------------------------------------------------ the option value *)
(* Python values that can be passed as `memoize`.  Object identity is not a field: after the
   committed fix the string is compared by value. *)
Inductive PyVal := PBool (b : bool) | PStr (s : String.string) | PInt (z : Z) | PNone.
Inductive mode := Plain | Memo | Recursive.
(* the literal "recursive" (String is imported only here: its `length` would shadow List.length) *)
Module StrLit. Import String. Definition recursive_lit : string := "recursive"%string. End StrLit.

(* if memoize == "recursive": ... elif memoize is True: ... elif memoize is False: ... else: raise
   `x == "recursive"` is True only for a str with those characters (1 == "recursive", None == ..,
   True == .. are False); `x is True` / `x is False` hold only for the two bool singletons
   (memoize=1 or 0 are ints: `1 is True` is False, so they fall through to the raise). *)
Definition dispatch (v : PyVal) : option mode :=
  if (match v with PStr s => String.eqb s StrLit.recursive_lit | _ => false end) then Some Recursive
  else if (match v with PBool true => true | _ => false end) then Some Memo
  else if (match v with PBool false => true | _ => false end) then Some Plain
  else None.

(* ------------------------------------------------------------------ caches *)
(* dict keyed by ndarray.tobytes(): for one dtype and one length, byte equality is state equality;
   keys of different lengths are different byte strings.  `d[k] = v` is cons (the newest entry
   shadows), `k in d` / `d[k]` is the first match. *)
Fixpoint lookup {B} (k : list Z) (c : list (list Z * B)) : option B :=
  match c with
  | [] => None
  | (k', v) :: c' => if zlist_eqb k k' then Some v else lookup k c'
  end.

(* the neighbourhood contents of a logged rule call (what C09 counts) *)
Definition call_key (c : call1) : list Z := fst (fst c).

(* curr_state.take(range(s, s + len), mode='wrap'): index i mod N (Python's non-negative mod);
   s = start - r may be negative *)
Definition wrap_take (row : list Z) (s : Z) (len : nat) : list Z :=
  map (fun i => nth (Z.to_nat ((s + Z.of_nat i) mod Z.of_nat (length row))) row 0%Z) (seq 0 len).

(* next_state[indices] = vals  for the contiguous block indices = [start, start + len(vals)) *)
Definition write (next : list Z) (start : nat) (vals : list Z) : list Z :=
  firstn start next ++ vals ++ skipn (start + length vals) next.
(* next_state[indices] (fancy indexing with a list: a copy) *)
Definition read (next : list Z) (start len : nat) : list Z := firstn len (skipn start next).

Section Memo1D.
  Variable St : Type.
  Variable rule : rule1 St.
  Variable store : Z -> Z.        (* the cast into the automaton's dtype *)

  (* ---------------------------------------------------------------- memoize=True *)
  (* memo_table: neighbourhood bytes -> the rule's result (as returned, before the dtype cast) *)
  Definition cacheM := list (list Z * Z).
  Definition XM := (St * cacheM * list call1)%type.

  (* _get_memoized(n, c, t, apply_rule, memoization_table):
       key = n.tobytes()
       if key in memoization_table: return memoization_table[key]
       else: result = apply_rule(n, c, t); memoization_table[key] = result; return result *)
  Definition get_memoized (x : XM) (n : list Z) (c t : nat) : XM * Z :=
    let '(s, cache, lg) := x in
    match lookup n cache with
    | Some v => (x, v)
    | None => let '(s1, v) := rule s n c t in ((s1, (n, v) :: cache, lg ++ [(n, c, t)]), v)
    end.

  (* [_get_memoized(n, c, t, apply_rule, memo_table) for c, n in enumerate(neighbourhoods)];
     array[t] = np.array([...]) / np.array(result, dtype=...) casts every element *)
  Fixpoint memo_all (x : XM) (c : nat) (nbs : list (list Z)) (t : nat) : XM * list Z :=
    match nbs with
    | [] => (x, [])
    | n :: nbs' =>
        let '(x1, v) := get_memoized x n c t in
        let '(x2, vs) := memo_all x1 (S c) nbs' t in
        (x2, store v :: vs)
    end.

  Definition step_memo (r : nat) : XM -> list Z -> nat -> XM * list Z :=
    fun x cells t => memo_all x 0 (neighbourhoods cells r) t.

  (* ---------------------------------------------------------------- memoize="recursive" *)
  (* cache: wrapped block neighbourhood bytes -> next values of the block (a copy) *)
  Definition cacheR := list (list Z * list Z).
  Definition XR := (St * cacheR * list call1)%type.

  (* _step(indices, ...): mid = len(indices) // 2; left = indices[:mid]; right = indices[mid:];
     each non-empty half goes to _update_state, left first.  A block of consecutive cell indices
     is (start, len). *)
  Definition split_with (rec : nat -> nat -> XR -> list Z -> XR * list Z)
             (start len : nat) (x : XR) (next : list Z) : XR * list Z :=
    let mid := len / 2 in
    let '(x1, n1) := if 0 <? mid then rec start mid x next else (x, next) in
    if 0 <? len - mid then rec (start + mid) (len - mid) x1 n1 else (x1, n1).

  (* _update_state(indices, curr_state, next_state, cache, apply_rule, r, t):
       start = indices[0]; end = indices[-1]
       neighbourhood = curr_state.take(range(start - r, end + 1 + r), mode='wrap')
       state_string = neighbourhood.tobytes()
       if state_string in cache: next_state[indices] = cache[state_string]
       else:
         if len(indices) > 1: _step(indices, ...)
         else: val = apply_rule(neighbourhood, start, t); next_state[start] = val
         cache[state_string] = next_state[indices]
     Recursion on explicit fuel (fuel >= len(indices) suffices: Proofs). *)
  Fixpoint update_state (fuel : nat) (curr : list Z) (r t : nat) (start len : nat)
           (x : XR) (next : list Z) : XR * list Z :=
    match fuel with
    | O => (x, next)
    | S k =>
        let key := wrap_take curr (Z.of_nat start - Z.of_nat r) (len + 2 * r) in
        let '(s, cache, lg) := x in
        match lookup key cache with
        | Some vals => (x, write next start vals)
        | None =>
            let '(x', next') :=
              if 1 <? len then split_with (update_state k curr r t) start len x next
              else let '(s1, v) := rule s key start t in
                   ((s1, cache, lg ++ [(key, start, t)]), write next start [store v]) in
            let '(s', cache', lg') := x' in
            ((s', (key, read next' start len) :: cache', lg'), next')
        end
    end.

  (* next_state = np.zeros(len(cells)); _step(cell_indices, cells, next_state, memo_table, ...);
     array[t] = next_state *)
  Definition step_recursive (r : nat) : XR -> list Z -> nat -> XR * list Z :=
    fun x cells t =>
      split_with (update_state (length cells) cells r t) 0 (length cells) x (repeat 0%Z (length cells)).

  (* ---------------------------------------------------------------- evolve, by mode *)
  (* what a call returns here: final rule state, rule-call log, the array *)
  Definition out1 := (St * list call1 * list (list Z))%type.
  Definition plog1 := list (list (list Z) * nat).

  (* memo_table = {} at the start of every call: the caches start empty, the log starts empty *)
  Definition evolve_mode_fixed (m : mode) (r : nat) (s0 : St) (hist : list (list Z)) (T : nat) : res out1 :=
    match m with
    | Plain =>
        bind (evolve_plain (logged1 rule) store r (s0, []) hist T)
             (fun xo => let '((s, lg), out) := xo in Ok (s, lg, out))
    | Memo =>
        bind (evolve_fixed [] (step_memo r) (s0, [], []) hist T)
             (fun xo => let '((s, _, lg), out) := xo in Ok (s, lg, out))
    | Recursive =>
        bind (evolve_fixed [] (step_recursive r) (s0, [], []) hist T)
             (fun xo => let '((s, _, lg), out) := xo in Ok (s, lg, out))
    end.

  Definition evolve_mode_dynamic {P} (pred : P -> list (list Z) -> nat -> P * bool)
             (m : mode) (r fuel : nat) (p0 : P) (s0 : St) (hist : list (list Z))
    : option (P * out1 * plog1) :=
    match m with
    | Plain =>
        match evolve_plain_dynamic (logged1 rule) store pred r fuel p0 (s0, []) hist with
        | Some (p, (s, lg), out, plog) => Some (p, (s, lg, out), plog)
        | None => None
        end
    | Memo =>
        match evolve_dynamic [] (step_memo r) pred fuel p0 (s0, [], []) hist with
        | Some (p, (s, _, lg), out, plog) => Some (p, (s, lg, out), plog)
        | None => None
        end
    | Recursive =>
        match evolve_dynamic [] (step_recursive r) pred fuel p0 (s0, [], []) hist with
        | Some (p, (s, _, lg), out, plog) => Some (p, (s, lg, out), plog)
        | None => None
        end
    end.

  (* evolve(ca, timesteps:int, rule, r, memoize).  The option is examined inside the loop body, so
     an unsupported value raises only if at least one step is attempted (timesteps >= 2);
     timesteps = 1 returns the input; timesteps = 0 fails on array[0] = ... in every mode. *)
  Definition evolve1d_fixed (memo : PyVal) (r : nat) (s0 : St) (hist : list (list Z)) (T : nat) : res out1 :=
    match dispatch memo with
    | Some m => evolve_mode_fixed m r s0 hist T
    | None => match T with
              | 0 => Raise IndexError
              | 1 => Ok (s0, [], hist)
              | _ => Raise OtherError
              end
    end.

  (* evolve(ca, timesteps:callable, ...): the predicate is consulted first; an unsupported option
     raises in the first iteration of the loop body.  None = out of fuel. *)
  Definition evolve1d_dynamic {P} (pred : P -> list (list Z) -> nat -> P * bool)
             (memo : PyVal) (r fuel : nat) (p0 : P) (s0 : St) (hist : list (list Z))
    : option (res (P * out1 * plog1)) :=
    match dispatch memo with
    | Some m => match evolve_mode_dynamic pred m r fuel p0 s0 hist with
                | Some o => Some (Ok o)
                | None => None
                end
    | None =>
        let init := last hist [] in
        let '(p1, go) := pred p0 [init] 1 in
        Some (if go then Raise OtherError
              else Ok (p1, (s0, [], removelast hist ++ [init]), [([init], 1)]))
    end.
End Memo1D.

Arguments get_memoized {St} rule x n c t.
Arguments memo_all {St} rule store x c nbs t.
Arguments step_memo {St} rule store r.
Arguments split_with {St} rec start len x next.
Arguments update_state {St} rule store fuel curr r t start len x next.
Arguments step_recursive {St} rule store r.
Arguments evolve_mode_fixed {St} rule store m r s0 hist T.
Arguments evolve_mode_dynamic {St} rule store {P} pred m r fuel p0 s0 hist.
Arguments evolve1d_fixed {St} rule store memo r s0 hist T.
Arguments evolve1d_dynamic {St} rule store {P} pred memo r fuel p0 s0 hist.

(* a pure rule: no state, ignores the cell index and the step number *)
Definition pure1 (f : list Z -> Z) : rule1 unit := fun u n _ _ => (u, f n).

(* the projections the properties speak about: the returned array (with, for callable timesteps,
   the predicate's final state and argument log), and the rule-call log *)
Definition arr_of {St} (o : res (St * list call1 * list (list Z))) : res (list (list Z)) :=
  match o with Ok (_, _, a) => Ok a | Raise e => Raise e end.
Definition log_of {St} (o : res (St * list call1 * list (list Z))) : list call1 :=
  match o with Ok (_, lg, _) => lg | Raise _ => [] end.
Definition dyn_arr_of {St P} (o : option (res (P * (St * list call1 * list (list Z)) * list (list (list Z) * nat))))
  : option (res (P * list (list Z) * list (list (list Z) * nat))) :=
  match o with
  | Some (Ok (p, (_, _, a), plog)) => Some (Ok (p, a, plog))
  | Some (Raise e) => Some (Raise e)
  | None => None
  end.
Definition dyn_log_of {St P} (o : option (res (P * (St * list call1 * list (list Z)) * list (list (list Z) * nat))))
  : list call1 :=
  match o with Some (Ok (_, (_, lg, _), _)) => lg | _ => [] end.

(* ------------------------------------------------------------------ a process: evolve calls back to back *)
(* timesteps: an int, or the callable lambda ca, t: t < k *)
Inductive tsteps := TFixed (T : nat) | TLt (k : nat).

Record call := mkCall {
  c_rule : rule_spec;            (* the rule callable of this call (Model/Rules.v families) *)
  c_memo : PyVal;                (* the memoize option *)
  c_r : nat;
  c_hist : list (list Z);        (* cellular_automaton *)
  c_ts : tsteps
}.

(* observable result of one call: the rule-call log and the returned array, or the exception.
   The automaton's dtype holds every value the rule returns (store = identity). *)
Definition call_result := res (list call1 * list (list Z)).

Definition run_call (c : call) : call_result :=
  match c_ts c with
  | TFixed T =>
      match evolve1d_fixed (spec_rule1 (c_rule c)) store_id (c_memo c) (c_r c) 0 (c_hist c) T with
      | Ok (_, lg, a) => Ok (lg, a)
      | Raise e => Raise e
      end
  | TLt k =>
      (* the predicate answers False at its (k-1)+1-th consultation at the latest: k + 2 is enough fuel *)
      match evolve1d_dynamic (spec_rule1 (c_rule c)) store_id (pred_lt k) (c_memo c) (c_r c) (k + 2) tt 0 (c_hist c) with
      | Some (Ok (_, (_, lg, a), _)) => Ok (lg, a)
      | Some (Raise e) => Raise e
      | None => Raise OtherError
      end
  end.

(* The model of a process is a fold over the list of calls whose accumulator holds nothing but the
   results so far: memo_table = {} is a local of each call, nothing is carried from call to call. *)
Definition run_process (calls : list call) : list call_result :=
  fold_left (fun acc c => acc ++ [run_call c]) calls [].
