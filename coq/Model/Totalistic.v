(* Model of cellpylib/ca_functions.py: totalistic_rule (473-496) and class TotalisticRule (665-695),
   with the parts of numpy it calls: np.base_repr, ndarray.size, np.sum (plain and masked arrays).
   Executable definitions only (C08).

   Strings over '0'..'9','A'..'Z' are modelled as lists of digit VALUES (N, most significant
   first): base_repr writes digits[num % base], and int(ch, k) reads the value back, rejecting a
   digit that is not below k.  The rule number is a natural number (N): a negative Python int is
   outside this model (np.base_repr would put a '-' in front). *)
From CPL Require Import Model.Base.
Local Open Scope N_scope.

(* np.base_repr:  while num: res.append(digits[num % base]); num //= base
   The fuel is the number of binary digits of num: enough for every base >= 2.
   Consing gives the reversed(res) order directly.  Quotient and remainder come from one
   N.div_eucl (num / k and num mod k are its two components by definition). *)
Fixpoint base_digits_fuel (fuel : nat) (k num : N) (acc : list N) : list N :=
  match fuel with
  | O => acc
  | S f => if num =? 0 then acc
           else let (q, r) := N.div_eucl num k in base_digits_fuel f k q (r :: acc)
  end.
Definition base_digits (k num : N) : list N := base_digits_fuel (N.size_nat num) k num [].

(* np.base_repr(number, base):
     if base > len(digits): raise ValueError   (len(digits) = 36)
     elif base < 2: raise ValueError
     ... return ''.join(reversed(res or '0')) *)
Definition base_repr (num k : N) : res (list N) :=
  if 36 <? k then Raise ValueError
  else if k <? 2 then Raise ValueError
  else Ok (match base_digits k num with [] => [0] | l => l end).

(* str.zfill(width): pad with '0' on the left up to width; unchanged when already that long
   (also for width <= 0).  No sign character can occur here. *)
Definition zfill (width : Z) (l : list N) : list N :=
  repeat 0 (Z.to_nat (width - Z.of_nat (length l))) ++ l.

(* int(ch, k) for one digit character of value d, 2 <= k <= 36: the value, or ValueError when the
   digit is not a digit of base k *)
Definition int_base (d k : N) : res N := if d <? k then Ok d else Raise ValueError.

(* The body of totalistic_rule, on what it reads from the array:
     n = neighbourhood.size          (the FULL size, masked entries included)
     s = np.sum(neighbourhood)       (the sum of the unmasked entries)
   unsigned = the array has an unsigned dtype: np.sum then returns np.uint64 and
   n*(k-1) - s is computed in uint64, so a negative index wraps to >= 2^63 and the string
   index raises IndexError instead of counting from the end.

     rule_string = np.base_repr(rule, base=k).zfill(n*(k - 1) + 1)
     if len(rule_string) > n*(k - 1) + 1: raise ValueError("rule number out of range")
     neighbourhood_sum = np.sum(neighbourhood)
     return int(rule_string[n*(k - 1) - neighbourhood_sum], k) *)
Definition totalistic_ns (unsigned : bool) (n : nat) (s : Z) (k rule : N) : res N :=
  let top := (Z.of_nat n * (Z.of_N k - 1))%Z in
  bind (base_repr rule k) (fun str =>
  let rule_string := zfill (top + 1) str in
  if (top + 1 <? Z.of_nat (length rule_string))%Z then Raise ValueError
  else
    let idx := (top - s)%Z in
    if unsigned && (idx <? 0)%Z then Raise IndexError
    else bind (py_get rule_string idx) (fun ch => int_base ch k)).

(* plain ndarray of any shape, flattened: .size = number of cells, np.sum = sum of all cells *)
Definition totalistic_rule (unsigned : bool) (cells : list Z) (k rule : N) : res N :=
  totalistic_ns unsigned (length cells) (zsum cells) k rule.

(* np.ma.masked_array(cells, mask): np.sum skips the entries whose mask bit is set, .size does not *)
Fixpoint unmasked (cells : list Z) (mask : list bool) : list Z :=
  match cells, mask with
  | x :: cs, m :: ms => if m then unmasked cs ms else x :: unmasked cs ms
  | cs, [] => cs
  | [], _ => []
  end.
Definition totalistic_rule_masked (unsigned : bool) (cells : list Z) (mask : list bool) (k rule : N) : res N :=
  totalistic_ns unsigned (length cells) (zsum (unmasked cells mask)) k rule.

(* TotalisticRule(k, rule)(n, c, t): return totalistic_rule(n, self._k, self._rule) *)
Definition TotalisticRule_call (k rule : N) (unsigned : bool) (cells : list Z) (c : Z) (t : nat) : res N :=
  totalistic_rule unsigned cells k rule.
Definition TotalisticRule_call_masked (k rule : N) (unsigned : bool) (cells : list Z) (mask : list bool)
  (c : Z) (t : nat) : res N :=
  totalistic_rule_masked unsigned cells mask k rule.

(* One TotalisticRule object called on a sequence of neighbourhoods (of any sizes and forms): __init__ stores
   only k and rule, __call__ reads nothing else and writes nothing, so the answers are the independent results of
   totalistic_rule, call by call. *)
Inductive nbhd :=
| Plain (unsigned : bool) (cells : list Z)
| Masked (unsigned : bool) (cells : list Z) (mask : list bool).
Definition totalistic_nb (k rule : N) (nb : nbhd) : res N :=
  match nb with
  | Plain u cells => totalistic_rule u cells k rule
  | Masked u cells mask => totalistic_rule_masked u cells mask k rule
  end.
Definition TotalisticRule_call_nb (k rule : N) (nb : nbhd) (c : Z) (t : nat) : res N :=
  match nb with
  | Plain u cells => TotalisticRule_call k rule u cells c t
  | Masked u cells mask => TotalisticRule_call_masked k rule u cells mask c t
  end.
(* calls = the (neighbourhood, c, t) arguments of the successive calls on the same object *)
Definition TotalisticRule_seq (k rule : N) (calls : list (nbhd * Z * nat)) : list (res N) :=
  map (fun a => match a with (nb, c, t) => TotalisticRule_call_nb k rule nb c t end) calls.

(* the von Neumann mask of radius r as evolve2d builds it (ca_functions2d.py 361-366), row major:
   entry (i, j) is masked iff |r - i| + |r - j| > r *)
Definition von_neumann_mask (r : nat) : list bool :=
  flat_map (fun i => map (fun j =>
      (Z.of_nat r <? Z.abs (Z.of_nat r - Z.of_nat i) + Z.abs (Z.of_nat r - Z.of_nat j))%Z)
    (seq 0 (2 * r + 1))) (seq 0 (2 * r + 1)).
