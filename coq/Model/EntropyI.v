(* Executable interval twin of Model/EntropyR.v (Interval's FloatIntervalFull over pure-Z radix-2
   floats) with the containment lemmas, and the decidable comparison of an IEEE double
   (mantissa, exponent) with an enclosure.  Shared by C16 and C18: use the modules F and I of THIS
   file (functor applications are generative: another `FloatIntervalFull F` is a different module). *)
From Coq Require Import ZArith Reals Lra Lia List.
From Interval Require Import Specific_stdz Specific_ops Float_full Interval Xreal Basic.
From CPL Require Import Model.Base Model.EntropyExact Proofs.EntropyBounds Model.EntropyR.
Import ListNotations.

Module F := SpecificFloat StdZRadix2.
Module I := FloatIntervalFull F.

Definition prec80 : F.precision := F.PtoP 80%positive.

Section Twin.
Variable prec : F.precision.

Definition natI (n : nat) : I.type := I.fromZ prec (Z.of_nat n).
(* a table of enclosures of ln 1, ln 2, ..., ln K (entry j encloses ln (j+1)); evaluated once by the
   VM when it is a closed constant, so that a batch of cases pays for each logarithm once *)
Definition lntab (K : nat) : list I.type := map (fun k => I.ln prec (natI k)) (seq 1 K).
Variable tab : list I.type.
(* ln k from the table, computed directly when k is beyond the table (tab = [] : always direct) *)
Definition lnI_nat (k : nat) : I.type :=
  match k with
  | 0 => I.ln prec (natI 0)
  | S j => match nth_error tab j with Some i => i | None => I.ln prec (natI k) end
  end.
(* one term p * (ln p / ln 2), p = c / n, with ln p = ln c - ln n; the enclosures of ln n and ln 2 are
   passed in so that they are computed once per entropy *)
Definition termI_with (ln_n l2 : I.type) (c n : nat) : I.type :=
  I.mul prec (I.div prec (natI c) (natI n)) (I.div prec (I.sub prec (lnI_nat c) ln_n) l2).
Definition termI (c n : nat) : I.type := termI_with (lnI_nat n) (lnI_nat 2) c n.
Definition sumI (l : list I.type) : I.type := fold_right (I.add prec) (I.fromZ prec 0) l.
Definition HI (cs : list nat) (n : nat) : I.type :=
  let ln_n := lnI_nat n in let l2 := lnI_nat 2 in
  I.neg (sumI (map (fun c => termI_with ln_n l2 c n) cs)).
Definition MII (cX cY cXY : list nat) (n : nat) : I.type :=
  I.sub prec (I.add prec (HI cX n) (HI cY n)) (HI cXY n).
Definition MII4 (q : list nat * list nat * list nat * nat) : I.type :=
  let '(cX, cY, cXY, n) := q in MII cX cY cXY n.
Definition meanI (l : list I.type) : I.type := I.div prec (sumI l) (natI (length l)).

(* memoised variant for many count lists over the same n: the terms p log2 p for c = 1 .. n are computed
   once (entry j of the table encloses termR (j+1) n); counts beyond the table are computed directly *)
Definition termtab (n : nat) : list I.type := map (fun c => termI c n) (seq 1 n).
Definition termI_m (tt : list I.type) (c n : nat) : I.type :=
  match c with
  | 0 => termI c n
  | S j => match nth_error tt j with Some i => i | None => termI c n end
  end.
Definition HIm (tt : list I.type) (cs : list nat) (n : nat) : I.type :=
  I.neg (sumI (map (fun c => termI_m tt c n) cs)).
Definition MIIm (tt : list I.type) (cX cY cXY : list nat) (n : nat) : I.type :=
  I.sub prec (I.add prec (HIm tt cX n) (HIm tt cY n)) (HIm tt cXY n).
Definition MII4m (tt : list I.type) (q : list nat * list nat * list nat * nat) : I.type :=
  let '(cX, cY, cXY, n) := q in MIIm tt cX cY cXY n.

(* every cell of an automaton has the same series length, so one term table serves all cells *)
Definition aceI (rows : list (list Z)) : I.type :=
  let tt := termtab (nrows rows) in
  meanI (map (fun cn => HIm tt (fst cn) (snd cn)) (ace_cells rows)).
Definition amiI_of_cells (rows : list (list Z)) (d : Z) (cells : list (list nat * list nat * list nat * nat)) : I.type :=
  let tt := termtab (nrows rows - Z.to_nat d) in meanI (map (MII4m tt) cells).
Definition amiI (rows : list (list Z)) (d : Z) : res I.type :=
  match ami_cells rows d with
  | Ok cells => Ok (amiI_of_cells rows d cells)
  | Raise e => Raise e
  end.

(* an IEEE double given exactly as m * 2^e *)
Definition dblI (m e : Z) : I.type :=
  if (0 <=? e)%Z then I.fromZ prec (m * 2 ^ e) else I.div prec (I.fromZ prec m) (I.fromZ prec (2 ^ (- e))).
Definition unitI : I.type := I.bnd (F.fromZ (-1)) (F.fromZ 1).
(* every real of the enclosure iv is within 2^-k of the double m * 2^e *)
Definition within_k (k : Z) (iv : I.type) (m e : Z) : bool :=
  I.subset (I.mul prec (I.sub prec iv (dblI m e)) (I.fromZ prec (2 ^ k))) unitI.
Definition within (iv : I.type) (m e : Z) : bool := within_k 30 iv m e.
End Twin.

Definition dblR (m e : Z) : R :=
  if (0 <=? e)%Z then IZR (m * 2 ^ e) else (IZR m / IZR (2 ^ (- e)))%R.

(* ---------- containment ---------- *)
Local Open Scope R_scope.
Section Containment.
Variable prec : F.precision.
Local Notation "i ∋ x" := (contains (I.convert i) (Xreal x)) (at level 70).

Lemma natI_ok n : natI prec n ∋ INR n.
Proof. unfold natI. rewrite INR_IZR_INZ. apply I.fromZ_correct. Qed.

Lemma divI_ok a b x y : y <> 0 -> a ∋ x -> b ∋ y -> I.div prec a b ∋ x / y.
Proof.
  intros Hy Ha Hb. replace (Xreal (x / y)) with (Xdiv (Xreal x) (Xreal y)).
  - apply I.div_correct; assumption.
  - unfold Xdiv, Xdiv'. rewrite is_zero_false by exact Hy. reflexivity.
Qed.
Lemma mulI_ok a b x y : a ∋ x -> b ∋ y -> I.mul prec a b ∋ x * y.
Proof. intros Ha Hb. change (Xreal (x * y)) with (Xmul (Xreal x) (Xreal y)). apply I.mul_correct; assumption. Qed.
Lemma addI_ok a b x y : a ∋ x -> b ∋ y -> I.add prec a b ∋ x + y.
Proof. intros Ha Hb. change (Xreal (x + y)) with (Xadd (Xreal x) (Xreal y)). apply I.add_correct; assumption. Qed.
Lemma subI_ok a b x y : a ∋ x -> b ∋ y -> I.sub prec a b ∋ x - y.
Proof. intros Ha Hb. change (Xreal (x - y)) with (Xsub (Xreal x) (Xreal y)). apply I.sub_correct; assumption. Qed.
Lemma negI_ok a x : a ∋ x -> I.neg a ∋ - x.
Proof. intros Ha. change (Xreal (- x)) with (Xneg (Xreal x)). apply I.neg_correct; assumption. Qed.
Lemma lnI_ok a x : 0 < x -> a ∋ x -> I.ln prec a ∋ ln x.
Proof.
  intros Hx Ha. replace (Xreal (ln x)) with (Xln (Xreal x)).
  - apply I.ln_correct. exact Ha.
  - unfold Xln, Xln'. rewrite is_positive_true by exact Hx. reflexivity.
Qed.

(* a table is sound when every entry encloses the logarithm it stands for *)
Definition tab_ok (tab : list I.type) : Prop := forall j i, nth_error tab j = Some i -> i ∋ ln (INR (S j)).
Lemma tab_ok_nil : tab_ok [].
Proof. intros [|j] i E; discriminate. Qed.
Lemma nth_error_map_seq1 {B} (f : nat -> B) K j b : nth_error (map f (seq 1 K)) j = Some b -> b = f (S j).
Proof.
  intros E. rewrite nth_error_map in E.
  destruct (nth_error (seq 1 K) j) as [k|] eqn:Ek; [|discriminate E].
  assert (Hj : (j < length (seq 1 K))%nat) by (apply nth_error_Some; rewrite Ek; discriminate).
  rewrite seq_length in Hj.
  apply (nth_error_nth _ _ 0%nat) in Ek. rewrite seq_nth in Ek by exact Hj.
  cbn [option_map] in E. rewrite <- Ek in E. change (1 + j)%nat with (S j) in E. symmetry. injection E; trivial.
Qed.
Lemma lntab_ok K : tab_ok (lntab prec K).
Proof.
  intros j i E. unfold lntab in E. apply nth_error_map_seq1 in E. rewrite E.
  apply lnI_ok; [apply lt_0_INR; lia|apply natI_ok].
Qed.

Variable tab : list I.type.
Hypothesis Htab : tab_ok tab.

Lemma lnI_nat_ok k : (0 < k)%nat -> lnI_nat prec tab k ∋ ln (INR k).
Proof.
  intros Hk. destruct k as [|j]; [lia|]. unfold lnI_nat. destruct (nth_error tab j) as [i|] eqn:E.
  - apply Htab. exact E.
  - apply lnI_ok; [apply lt_0_INR; lia|apply natI_ok].
Qed.

Lemma termI_with_ok ln_n l2 c n : ln_n ∋ ln (INR n) -> l2 ∋ ln 2 -> (0 < c)%nat -> (0 < n)%nat ->
  termI_with prec tab ln_n l2 c n ∋ termR c n.
Proof.
  intros Hln Hl2 Hc Hn. unfold termI_with, termR, log2.
  assert (Hc' : 0 < INR c) by (apply lt_0_INR; exact Hc).
  assert (Hn' : 0 < INR n) by (apply lt_0_INR; exact Hn).
  unfold Rdiv at 3. rewrite ln_mult by (try apply Rinv_0_lt_compat; assumption). rewrite ln_Rinv by exact Hn'.
  apply mulI_ok; [apply divI_ok; [lra|apply natI_ok|apply natI_ok]|].
  apply divI_ok; [pose proof ln2_pos; lra| |exact Hl2].
  apply subI_ok; [apply lnI_nat_ok; exact Hc|exact Hln].
Qed.

Lemma ln2I_ok : lnI_nat prec tab 2 ∋ ln 2.
Proof. apply (lnI_nat_ok 2). lia. Qed.

Lemma termI_ok c n : (0 < c)%nat -> (0 < n)%nat -> termI prec tab c n ∋ termR c n.
Proof. intros Hc Hn. apply termI_with_ok; [apply lnI_nat_ok; exact Hn|apply ln2I_ok|exact Hc|exact Hn]. Qed.

Lemma sumI_ok {B} (fi : B -> I.type) (f : B -> R) (l : list B) :
  (forall b, In b l -> fi b ∋ f b) -> sumI prec (map fi l) ∋ Rsum f l.
Proof.
  induction l as [|b l IH]; intros Hl; cbn [map sumI fold_right Rsum].
  - apply (I.fromZ_correct prec 0).
  - apply addI_ok; [apply Hl; left; reflexivity|]. apply IH. intros b' Hb'. apply Hl. right; exact Hb'.
Qed.

(* the enclosure of the entropy of a count list: n > 0 and every count positive
   (count lists produced by count_list / joint_count_list have all counts in 1..n) *)
Theorem HI_ok cs n : (0 < n)%nat -> (forall c, In c cs -> (0 < c)%nat) -> HI prec tab cs n ∋ HR cs n.
Proof.
  intros Hn Hcs. unfold HI, HR. apply negI_ok. apply sumI_ok. intros c Hc.
  apply termI_with_ok; [apply lnI_nat_ok; exact Hn|apply ln2I_ok|apply Hcs; exact Hc|exact Hn].
Qed.

Theorem MII_ok cX cY cXY n : (0 < n)%nat ->
  (forall c, In c cX -> (0 < c)%nat) -> (forall c, In c cY -> (0 < c)%nat) -> (forall c, In c cXY -> (0 < c)%nat) ->
  MII prec tab cX cY cXY n ∋ MIR cX cY cXY n.
Proof.
  intros Hn HX HY HXY. unfold MII, MIR. apply subI_ok; [apply addI_ok|]; apply HI_ok; assumption.
Qed.

(* mean of enclosures encloses the mean (non-empty list) *)
Theorem meanI_ok {B} (fi : B -> I.type) (f : B -> R) (l : list B) : l <> [] ->
  (forall b, In b l -> fi b ∋ f b) -> meanI prec (map fi l) ∋ meanR (map f l).
Proof.
  intros Hne Hl. unfold meanI, meanR. rewrite !map_length, Rsum_map.
  apply divI_ok; [|apply sumI_ok; exact Hl|apply natI_ok].
  apply not_0_INR. destruct l; [congruence|discriminate].
Qed.

(* soundness of the memoised variant *)
Definition ttab_ok (tt : list I.type) (n : nat) : Prop := forall j i, nth_error tt j = Some i -> i ∋ termR (S j) n.
Lemma termtab_ok n : (0 < n)%nat -> ttab_ok (termtab prec tab n) n.
Proof.
  intros Hn j i E. unfold termtab in E. apply nth_error_map_seq1 in E. rewrite E. apply termI_ok; [lia|exact Hn].
Qed.
Lemma termI_m_ok tt c n : ttab_ok tt n -> (0 < c)%nat -> (0 < n)%nat -> termI_m prec tab tt c n ∋ termR c n.
Proof.
  intros Htt Hc Hn. destruct c as [|j]; [lia|]. unfold termI_m. destruct (nth_error tt j) as [i|] eqn:E.
  - apply Htt. exact E.
  - apply termI_ok; assumption.
Qed.
Theorem HIm_ok tt cs n : ttab_ok tt n -> (0 < n)%nat -> (forall c, In c cs -> (0 < c)%nat) -> HIm prec tab tt cs n ∋ HR cs n.
Proof.
  intros Htt Hn Hcs. unfold HIm, HR. apply negI_ok. apply sumI_ok. intros c Hc.
  apply termI_m_ok; [exact Htt|apply Hcs; exact Hc|exact Hn].
Qed.
Theorem MIIm_ok tt cX cY cXY n : ttab_ok tt n -> (0 < n)%nat ->
  (forall c, In c cX -> (0 < c)%nat) -> (forall c, In c cY -> (0 < c)%nat) -> (forall c, In c cXY -> (0 < c)%nat) ->
  MIIm prec tab tt cX cY cXY n ∋ MIR cX cY cXY n.
Proof.
  intros Htt Hn HX HY HXY. unfold MIIm, MIR. apply subI_ok; [apply addI_ok|]; apply HIm_ok; assumption.
Qed.

Lemma dblI_ok m e : dblI prec m e ∋ dblR m e.
Proof.
  unfold dblI, dblR. destruct (0 <=? e)%Z eqn:He; [apply I.fromZ_correct|].
  apply divI_ok; [|apply I.fromZ_correct|apply I.fromZ_correct].
  apply not_0_IZR. apply Z.leb_gt in He. pose proof (Z.pow_pos_nonneg 2 (- e)). lia.
Qed.

(* what a successful comparison means: the real value enclosed by iv is within 2^-k of the double *)
Theorem within_k_sound k iv m e x : (0 <= k)%Z -> iv ∋ x -> within_k prec k iv m e = true ->
  Rabs (x - dblR m e) <= / IZR (2 ^ k).
Proof.
  intros Hk Hx Hw. unfold within_k in Hw.
  assert (Hc : I.mul prec (I.sub prec iv (dblI prec m e)) (I.fromZ prec (2 ^ k)) ∋ (x - dblR m e) * IZR (2 ^ k))
    by (apply mulI_ok; [apply subI_ok; [exact Hx|apply dblI_ok]|apply I.fromZ_correct]).
  pose proof (I.subset_correct _ _ _ Hc Hw) as Hu.
  unfold unitI in Hu. rewrite I.bnd_correct in Hu by reflexivity.
  rewrite !F.fromZ_correct in Hu by (cbn; lia). cbn [contains] in Hu.
  assert (Hp : 0 < IZR (2 ^ k)) by (apply IZR_lt; apply Z.pow_pos_nonneg; lia).
  apply Rabs_le. destruct Hu as [H1 H2].
  assert (Hi : 0 < / IZR (2 ^ k)) by (apply Rinv_0_lt_compat; exact Hp).
  assert (E : x - dblR m e = (x - dblR m e) * IZR (2 ^ k) * / IZR (2 ^ k)) by (field; lra).
  split; rewrite E; nra.
Qed.

Corollary within_sound iv m e x : iv ∋ x -> within prec iv m e = true -> Rabs (x - dblR m e) <= / IZR (2 ^ 30).
Proof. apply within_k_sound. lia. Qed.
End Containment.

(* ---------- containment for the functions of entropy.py ---------- *)
Section OnSymbols.
Variable prec : F.precision.
Local Notation "i ∋ x" := (contains (I.convert i) (Xreal x)) (at level 70).
Context {A B : Type}.
Variable eqA : forall a b : A, {a = b} + {a <> b}.
Variable eqB : forall a b : B, {a = b} + {a <> b}.
Variable tab : list I.type.
Hypothesis Htab : tab_ok tab.

Definition shannonI (s : list A) : I.type := HI prec tab (count_list eqA s) (length s).
Definition jointI (X : list A) (Y : list B) : I.type := HI prec tab (joint_count_list eqA eqB X Y) (length X).
Definition miI (X : list A) (Y : list B) : I.type := MII4 prec tab (mi_counts eqA eqB X Y).

Theorem shannonI_ok s : s <> [] -> shannonI s ∋ shannonR eqA s.
Proof.
  intros Hne. apply HI_ok; [exact Htab|destruct s; [congruence|cbn; lia]|].
  intros c Hc. apply count_list_range in Hc. lia.
Qed.
Theorem jointI_ok X Y : X <> [] -> length X = length Y -> jointI X Y ∋ jointR eqA eqB X Y.
Proof.
  intros Hne Hlen. apply HI_ok; [exact Htab|destruct X; [congruence|cbn; lia]|].
  intros c Hc. apply joint_count_list_range in Hc; [lia|exact Hlen].
Qed.
Theorem miI_ok X Y : X <> [] -> length X = length Y -> miI X Y ∋ miR eqA eqB X Y.
Proof.
  intros Hne Hlen. unfold miI, miR, mi_counts, MII4, MIR4.
  apply MII_ok; [exact Htab|destruct X; [congruence|cbn; lia]| | |].
  - intros c Hc. apply count_list_range in Hc. lia.
  - intros c Hc. apply count_list_range in Hc. lia.
  - intros c Hc. apply joint_count_list_range in Hc; [lia|exact Hlen].
Qed.
End OnSymbols.

Section OnAutomata.
Variable prec : F.precision.
Variable tab : list I.type.
Hypothesis Htab : tab_ok tab.
Local Notation "i ∋ x" := (contains (I.convert i) (Xreal x)) (at level 70).

Lemma cell_series_length rows i : length (cell_series rows i) = nrows rows.
Proof. unfold cell_series, column, nrows. rewrite !map_length. reflexivity. Qed.

(* average_cell_entropy: at least one timestep and one cell *)
Theorem aceI_ok rows : (0 < nrows rows)%nat -> (0 < ncols rows)%nat -> aceI prec tab rows ∋ aceR rows.
Proof.
  intros HT HN. unfold aceI, aceR. apply meanI_ok.
  - unfold ace_cells. destruct (ncols rows); [lia|discriminate].
  - intros cn Hcn. unfold ace_cells in Hcn. apply in_map_iff in Hcn as (i & <- & _). cbn [fst snd].
    rewrite cell_series_length. apply HIm_ok; [exact Htab|apply termtab_ok; [exact Htab|exact HT]|exact HT|].
    intros c Hc. apply count_list_range in Hc. lia.
Qed.

(* average_mutual_information: same verdict of the guard, and containment when accepted *)
Theorem amiI_ok rows d : (0 < ncols rows)%nat ->
  match amiI prec tab rows d, amiR rows d with
  | Ok i, Ok x => i ∋ x
  | Raise e, Raise e' => e = e'
  | _, _ => False
  end.
Proof.
  intros HN. unfold amiI, amiI_of_cells, amiR, ami_cells. destruct (ami_guard d (nrows rows)) eqn:G; [|reflexivity].
  unfold ami_guard in G. apply andb_prop in G as [G1 G2]. apply Z.ltb_lt in G1, G2.
  apply meanI_ok.
  - destruct (ncols rows); [lia|discriminate].
  - intros q Hq. apply in_map_iff in Hq as (i & <- & _). unfold pair_d.
    set (s := cell_series rows i). assert (Hs : length s = nrows rows) by apply cell_series_length.
    assert (Hlx : length (firstn (length s - Z.to_nat d) s) = (nrows rows - Z.to_nat d)%nat) by (rewrite firstn_length; lia).
    assert (Hly : length (skipn (Z.to_nat d) s) = (nrows rows - Z.to_nat d)%nat) by (rewrite skipn_length; lia).
    assert (Hn : (0 < nrows rows - Z.to_nat d)%nat) by lia.
    unfold mi_counts, MII4m, MIR4. rewrite Hlx.
    apply MIIm_ok; [exact Htab|apply termtab_ok; [exact Htab|exact Hn]|exact Hn| | |].
    + intros c Hc. apply count_list_range in Hc. lia.
    + intros c Hc. apply count_list_range in Hc. lia.
    + intros c Hc. apply joint_count_list_range in Hc; [lia|congruence].
Qed.
End OnAutomata.

(* the table used by the correspondence checks: ln 1 .. ln 256 at 80 bits *)
Definition tab80 : list I.type := lntab prec80 256.
Lemma tab80_ok : tab_ok tab80.
Proof. apply lntab_ok. Qed.
