(* Model of cellpylib/ca_functions.py: bits_to_int, int_to_bits, binary_rule, nks_rule,
   NKSRule, BinaryRule (C07).  Executable definitions only. *)
From CPL Require Import Model.Base.
Local Open Scope Z_scope.

Definition truthy (z : Z) : bool := negb (z =? 0).

(* for shift, j in enumerate(bits[::-1]): if j: total += 1 << shift *)
Fixpoint b2i_loop (l : list Z) (shift : N) (total : N) : N :=
  match l with
  | [] => total
  | j :: l' => b2i_loop l' (N.succ shift) (if truthy j then (total + N.shiftl 1 shift)%N else total)
  end.
Definition bits_to_int (bits : list Z) : N := b2i_loop (rev bits) 0%N 0%N.

(* bin(num)[2:] as a list of ints, most significant first *)
Fixpoint pos_bits (p : positive) : list Z :=
  match p with
  | xH => [1]
  | xO q => pos_bits q ++ [0]
  | xI q => pos_bits q ++ [1]
  end.
Definition bin_digits (n : N) : list Z := match n with N0 => [0] | Npos p => pos_bits p end.

(* np.pad(converted, (num_digits - len(converted), 0)): a negative pad width raises ValueError *)
Definition int_to_bits (num : N) (num_digits : nat) : res (list Z) :=
  let c := bin_digits num in
  if (num_digits <? length c)%nat then Raise ValueError
  else Ok (repeat 0 (num_digits - length c) ++ c).

Inductive rule_form := RInt (n : N) | RBits (l : list Z).
Inductive scheme := SDefault | SNks.

Fixpoint dot (a b : list Z) : Z :=
  match a, b with x :: a', y :: b' => x * y + dot a' b' | _, _ => 0 end.

Definition binary_rule (nb : list Z) (rule : rule_form) (sch : scheme) (pows : option (list Z)) : res Z :=
  bind (match pows with
        | None => Ok (Z.of_N (bits_to_int nb))
        | Some p => if (length p =? length nb)%nat then Ok (dot nb p) else Raise AssertionError
        end) (fun state_int =>
  let n := Nat.pow 2 (length nb) in
  bind (match rule with
        | RBits l => if (length l =? n)%nat then Ok l else Raise AssertionError
        | RInt r => int_to_bits r n
        end) (fun arr =>
  match sch with
  | SNks => py_get arr ((Z.of_nat n - 1) - state_int)
  | SDefault => py_get arr state_int
  end)).

Definition nks_rule (nb : list Z) (rule : N) : res Z := binary_rule nb (RInt rule) SNks None.

(* NKSRule(R)(n, c, t) and BinaryRule(rule, scheme, pows)(n, c, t): c and t are ignored *)
Definition NKSRule_call (rule : N) (nb : list Z) (c : Z) (t : nat) : res Z := nks_rule nb rule.
Definition BinaryRule_call (rule : rule_form) (sch : scheme) (pows : option (list Z))
  (nb : list Z) (c : Z) (t : nat) : res Z := binary_rule nb rule sch pows.

(* the vector callers pass as powers_of_two: [2^(L-1); ...; 2; 1] *)
Fixpoint powers_desc (L : nat) : list Z :=
  match L with 0%nat => [] | S k => 2 ^ Z.of_nat k :: powers_desc k end.
