(* Model of the memoised 2D engines of cellpylib/ca_functions2d.py (C04, 2D half of C09), AFTER the
   committed fixes (`memoize == "recursive"`; cached block located with indices[r:len-r],
   r = von_neumann_mask.shape[0] // 2):
     _get_memoized (577-607), _MemoizationCache (859-912), _get_sub_matrices (670-685),
     _get_cell_indices_to_neighbourhood_indices (628-667), _update_state (688-743), _step (746-778),
     the option dispatch inside the loops of _evolve2d_fixed (428-447) / _evolve2d_dynamic (496-518),
     and a process = a sequence of evolve2d calls.
   Executable definitions only; proofs in Proofs/Memo2DProofs.v.

   Rule-call logs: every engine here is generic in the rule's state St; instantiating the rule with
   `logged2 rule` (Model/Rules.v) makes St carry the log of the calls actually made (C09). *)
From Coq Require String.
From CPL Require Import Model.Base Model.Rules Model.Engine Model.Evolve2D.
From CPL Require Model.Memo1D.
Local Open Scope nat_scope.

(* the option value and its dispatch are shared with the 1D model (same if/elif chain, lines 431-445):
   `memoize == "recursive"` by value, `memoize is True`, `memoize is False`, else raise *)
Notation PyVal := Memo1D.PyVal.
Notation PBool := Memo1D.PBool.
Notation PStr := Memo1D.PStr.
Notation PInt := Memo1D.PInt.
Notation PNone := Memo1D.PNone.
Notation mode := Memo1D.mode.
Notation Plain := Memo1D.Plain.
Notation Memo := Memo1D.Memo.
Notation Recursive := Memo1D.Recursive.
Definition dispatch2d (v : PyVal) : option mode := Memo1D.dispatch v.

(* well-shaped R x C grid (what cellular_automaton[-1] is) *)
Definition wf_grid2 (R C : nat) (g : grid) : Prop :=
  length g = R /\ Forall (fun row => length row = C) g.

Definition mask_for (ty : nbhd_type) (r : nat) : list (list bool) :=
  match ty with Moore => no_mask r | VonNeumann => vn_mask r end.

(* ================================================================== memoize=True *)
(* memo_table = {} : dict  n.tobytes() -> the rule's result (as returned, before the dtype cast).
   The key is the FLAT byte string.  ndarray.tobytes() = the contents row-major (one dtype per call);
   MaskedArray.tobytes() = self.filled().tobytes(): masked cells are replaced by the fill value, so
   they never reach the key (masked_key).  Two different shapes with the same flat contents would
   collide in this dict, but within one evolve2d call every neighbourhood has the same shape
   (2r+1) x (2r+1) (and, for von Neumann, the same mask), and a table never outlives its call: for
   a fixed shape, flat equality is 2D equality (Proofs: concat_inj_rect).
   `d[k] = v` on an absent key is cons; `k in d` / `d[k]` is the first match. *)
Definition memo_table := list (list Z * Z).
Fixpoint memo_lookup (k : list Z) (m : memo_table) : option Z :=
  match m with
  | [] => None
  | (k', v) :: m' => if zlist_eqb k k' then Some v else memo_lookup k m'
  end.
Definition memo_key (n : nbhd2) : list Z := concat (masked_key n).

(* _get_memoized(n, c, t, apply_rule, memoization_table):
     key = n.tobytes()
     if key in memoization_table: return memoization_table[key]
     else: result = apply_rule(n, c, t); memoization_table[key] = result; return result
   As a rule over the state (rule state, table): the double loop of the True mode is the double
   loop of the False mode with this callable in place of apply_rule (lines 437-443, 505-511). *)
Definition get_memoized2 {St} (rule : rule2 St) : rule2 (St * memo_table) :=
  fun x n c t =>
    let '(s, m) := x in
    match memo_lookup (memo_key n) m with
    | Some v => (x, v)
    | None => let '(s1, v) := rule s n c t in ((s1, (memo_key n, v) :: m), v)
    end.

(* one step of memoize=True: row-major; the table persists across the steps of a call *)
Definition step_memo2d {St} (rule : rule2 St) (store : Z -> Z) (r : nat) (ty : nbhd_type)
  : St * memo_table -> grid -> nat -> (St * memo_table) * grid :=
  step_plain2d (get_memoized2 rule) store r ty.

(* ================================================================== _MemoizationCache *)
(* self.hashmap : dict  array.tobytes() -> list of (array.shape, value), in insertion order *)
Definition shape := (nat * nat)%type.
Definition shape_of (a : grid) : shape := (length a, length (hd [] a)).
Definition shape_eqb (a b : shape) : bool := (fst a =? fst b) && (snd a =? snd b).
Definition cache2d := list (list Z * list (shape * grid)).

Fixpoint hm_find (k : list Z) (c : cache2d) : option (list (shape * grid)) :=
  match c with
  | [] => None
  | (k', l) :: c' => if zlist_eqb k k' then Some l else hm_find k c'
  end.

(* put(array, val): hash = array.tobytes(); shape = array.shape
     if hash not in self.hashmap: self.hashmap[hash] = []
     self.hashmap[hash].append((shape, val)) *)
Fixpoint hm_append (k : list Z) (e : shape * grid) (c : cache2d) : cache2d :=
  match c with
  | [] => [(k, [e])]
  | (k', l) :: c' => if zlist_eqb k k' then (k', l ++ [e]) :: c' else (k', l) :: hm_append k e c'
  end.
Definition cache_put (a : grid) (v : grid) (c : cache2d) : cache2d :=
  hm_append (concat a) (shape_of a, v) c.

(* __contains__(item): hash = item.tobytes()
     if hash not in self.hashmap: return False
     for collision in self.hashmap[hash]: if collision[0] == item.shape: return True
     return False *)
Definition cache_contains (a : grid) (c : cache2d) : bool :=
  match hm_find (concat a) c with
  | None => false
  | Some l => existsb (fun e => shape_eqb (fst e) (shape_of a)) l
  end.

(* get(array): collisions = self.hashmap[hash]           (KeyError when absent)
     if len(collisions) == 1: return collisions[0][1]    (the shape is NOT compared here)
     else: for collision in collisions: if collision[0] == shape: return collision[1]
           raise Exception("could not find an entry with shape ...") *)
Definition cache_get (a : grid) (c : cache2d) : res grid :=
  match hm_find (concat a) c with
  | None => Raise OtherError
  | Some [e] => Ok (snd e)
  | Some l => match find (fun e => shape_eqb (fst e) (shape_of a)) l with
              | Some e => Ok (snd e)
              | None => Raise OtherError
              end
  end.
(* _update_state calls cache[state] only after `state in cache` (Proofs: cache2d_sound shows the
   Raise branches are then unreachable); the engine below reads through this total wrapper *)
Definition cache_get_total (a : grid) (c : cache2d) : grid :=
  match cache_get a c with Ok v => v | Raise _ => [] end.

(* the cache after a sequence of puts, oldest first *)
Definition cache_of_puts (ps : list (grid * grid)) : cache2d :=
  fold_left (fun c av => cache_put (fst av) (snd av) c) ps [].

(* ================================================================== memoize="recursive" *)
(* A 2D array of cell coordinates produced by _get_cell_indices and _get_sub_matrices is a rectangle
   of consecutive rows and columns: rows r0 .. r0+bh-1, columns c0 .. c0+bw-1.  (Its bytes, the key of
   cell_idx_to_neigh_idx, list the coordinates row-major, so they determine the rectangle: that
   dictionary is a function of the block.) *)
Record block := B { r0 : nat; bh : nat; c0 : nat; bw : nat }.
(* cell_indices.size == 0 *)
Definition block_empty (b : block) : bool := (bh b =? 0) || (bw b =? 0).

(* _get_sub_matrices(arr): np.array_split(arr, 2, axis=1) = the first ceil(w/2) columns, then the
   remaining floor(w/2); each of them np.array_split(.., 2, axis=0) = first ceil(h/2) rows, then the
   rest.  Returned in the order northwest, southwest, northeast, southeast; empty parts included. *)
Definition sub_matrices (b : block) : block * block * block * block :=
  let h1 := (bh b + 1) / 2 in let h2 := bh b - h1 in
  let w1 := (bw b + 1) / 2 in let w2 := bw b - w1 in
  (B (r0 b) h1 (c0 b) w1,            (* nw *)
   B (r0 b + h1) h2 (c0 b) w1,       (* sw *)
   B (r0 b) h1 (c0 b + w1) w2,       (* ne *)
   B (r0 b + h1) h2 (c0 b + w1) w2). (* se *)

(* _get_cell_indices_to_neighbourhood_indices: for a block starting at `start` with `len` cells
   along an axis of size n:
     indices = range(start - r, end + r + 1);  [i - n if i > (n - 1) else i for i in indices]
   entries may be negative: NumPy resolves them (py_index) *)
Definition block_axis_indices (n start len r : nat) : list Z :=
  map (fun k => let i := (Z.of_nat start - Z.of_nat r + Z.of_nat k)%Z in
                if (Z.of_nat n - 1 <? i)%Z then (i - Z.of_nat n)%Z else i) (seq 0 (len + 2 * r)).

(* l[r:len(l) - r]  (0 <= r <= len(l) - r here, so no negative slice bound occurs) *)
Definition strip_margin {A} (r : nat) (l : list A) : list A :=
  firstn (length l - r - r) (skipn r l).

(* next_state is an R x C array that is written cell-wise and block-wise during a step: a function *)
Definition fgrid := nat -> nat -> Z.
Definition tabulate (R C : nat) (g : fgrid) : grid :=
  map (fun i => map (fun j => g i j) (seq 0 C)) (seq 0 R).
Definition resolve (n : nat) (z : Z) : nat := match py_index n z with Some k => k | None => 0 end.

(* position of the first entry of an index list that resolves to i *)
Fixpoint index_of (n : nat) (zs : list Z) (i : nat) : option nat :=
  match zs with
  | [] => None
  | z :: zs' => if (match py_index n z with Some k => k =? i | None => false end) then Some 0
                else option_map S (index_of n zs' i)
  end.
(* next_state[np.ix_(rs, cs)] = vals : entry (a, b) of vals goes to cell (rs[a], cs[b]).
   (rs, cs are lists of distinct in-range indices here, so the order of assignment is immaterial.) *)
Definition scatter (next : fgrid) (R C : nat) (rs cs : list Z) (vals : grid) : fgrid :=
  fun i j => match index_of R rs i, index_of C cs j with
             | Some a, Some b => nth b (nth a vals []) 0%Z
             | _, _ => next i j
             end.
(* next_state[np.ix_(rs, cs)] : a copy *)
Definition fgather (next : fgrid) (R C : nat) (rs cs : list Z) : grid :=
  map (fun i => map (fun j => next (resolve R i) (resolve C j)) cs) rs.
(* next_state[c[0]][c[1]] = val *)
Definition fset (next : fgrid) (i j : nat) (v : Z) : fgrid :=
  fun i' j' => if (i' =? i) && (j' =? j) then v else next i' j'.

Section Rec2D.
  Variable St : Type.
  Variable rule : rule2 St.
  Variable store : Z -> Z.        (* the cast into the automaton's dtype *)

  Definition XR := (St * cache2d)%type.

  (* _step: nw, sw, ne, se = _get_sub_matrices(cell_indices); _update_state on nw, ne, sw, se *)
  Definition step_quads (rec : block -> XR -> fgrid -> XR * fgrid) (b : block) (x : XR) (next : fgrid)
    : XR * fgrid :=
    let '(nw, sw, ne, se) := sub_matrices b in
    let '(x1, n1) := rec nw x next in
    let '(x2, n2) := rec ne x1 n1 in
    let '(x3, n3) := rec sw x2 n2 in
    rec se x3 n3.

  (* _update_state(cell_indices, cell_idx_to_neigh_idx, curr_state, next_state, cache, apply_rule,
                   neighbourhood_type, von_neumann_mask, t):
       if cell_indices.size == 0: return
       rows, cols = cell_idx_to_neigh_idx[cell_indices.tobytes()]
       state = curr_state[np.ix_(rows, cols)];  r = von_neumann_mask.shape[0] // 2
       if state in cache:
           next_state[np.ix_(rows[r:len(rows)-r], cols[r:len(cols)-r])] = cache[state]
       else:
           if shape[0] > 1 or shape[1] > 1: _step(cell_indices, ...)
           else: c = cell_indices[0][0]; neighbourhood = curr_state[np.ix_(rows, cols)]
                 (von Neumann: np.ma.masked_array(neighbourhood, von_neumann_mask))
                 val = apply_rule(neighbourhood, c, t); next_state[c[0]][c[1]] = val
           cache[state] = next_state[np.ix_(rows[r:len(rows)-r], cols[r:len(cols)-r])]
     Recursion on explicit fuel (fuel >= bh + bw suffices: Proofs). *)
  Fixpoint update_state2d (fuel : nat) (curr : grid) (R C r : nat) (ty : nbhd_type) (t : nat)
           (b : block) (x : XR) (next : fgrid) : XR * fgrid :=
    match fuel with
    | O => (x, next)
    | S k =>
        if block_empty b then (x, next) else
        let rows := block_axis_indices R (r0 b) (bh b) r in
        let cols := block_axis_indices C (c0 b) (bw b) r in
        let state := ix_gather curr rows cols in
        let srows := strip_margin r rows in
        let scols := strip_margin r cols in
        let '(s, cache) := x in
        if cache_contains state cache then
          (x, scatter next R C srows scols (cache_get_total state cache))
        else
          let '((s', cache'), next') :=
            if (1 <? bh b) || (1 <? bw b)
            then step_quads (update_state2d k curr R C r ty t) b x next
            else let '(s1, v) := rule s {| nb_vals := state; nb_mask := mask_for ty r |} (r0 b, c0 b) t in
                 ((s1, cache), fset next (r0 b) (c0 b) (store v)) in
          ((s', cache_put state (fgather next' R C srows scols) cache'), next')
    end.

  (* next_state = np.zeros(cell_layer.shape); _step(cell_indices (all R x C cells), ...); array[t] = next_state
     rows, cols = cellular_automaton.shape[1:] *)
  Definition step_rec2d (r : nat) (ty : nbhd_type) : XR -> grid -> nat -> XR * grid :=
    fun x g t =>
      let R := grid_rows g in let C := grid_cols g in
      let '(x', next) := step_quads (update_state2d (R + C) g R C r ty t) (B 0 R 0 C) x (fun _ _ => 0%Z) in
      (x', tabulate R C next).

  (* ---------------------------------------------------------------- evolve2d, by mode *)
  (* memo_table = {} and recursive_cache = _MemoizationCache() at the start of every call.
     What a call returns here: the final rule state and the array. *)
  Definition evolve2d_mode_fixed (m : mode) (r : nat) (ty : nbhd_type) (s0 : St) (hist : list grid) (T : nat)
    : res (St * list grid) :=
    match m with
    | Plain => evolve2d_plain rule store r ty s0 hist T
    | Memo => bind (evolve_fixed [] (step_memo2d rule store r ty) (s0, []) hist T)
                   (fun xo => Ok (fst (fst xo), snd xo))
    | Recursive => bind (evolve_fixed [] (step_rec2d r ty) (s0, []) hist T)
                        (fun xo => Ok (fst (fst xo), snd xo))
    end.

  Definition plog2 := list (list grid * nat).
  Definition evolve2d_mode_dynamic {P} (pred : P -> list grid -> nat -> P * bool)
             (m : mode) (r : nat) (ty : nbhd_type) (fuel : nat) (p0 : P) (s0 : St) (hist : list grid)
    : option (P * St * list grid * plog2) :=
    match m with
    | Plain => evolve2d_plain_dynamic rule store pred r ty fuel p0 s0 hist
    | Memo =>
        match evolve_dynamic [] (step_memo2d rule store r ty) pred fuel p0 (s0, []) hist with
        | Some (p, x, out, plog) => Some (p, fst x, out, plog)
        | None => None
        end
    | Recursive =>
        match evolve_dynamic [] (step_rec2d r ty) pred fuel p0 (s0, []) hist with
        | Some (p, x, out, plog) => Some (p, fst x, out, plog)
        | None => None
        end
    end.

  (* evolve2d(ca, timesteps:int, rule, r, neighbourhood, memoize).  The option is examined inside the
     loop body (for t / for row / for col), so an unsupported value raises only if at least one cell of
     at least one step is visited (timesteps >= 2; grids here have R, C >= 1); timesteps = 1 returns the
     input; timesteps = 0 fails on array[0] = ... in every mode. *)
  Definition evolve2d_fixed (memo : PyVal) (r : nat) (ty : nbhd_type) (s0 : St) (hist : list grid) (T : nat)
    : res (St * list grid) :=
    match dispatch2d memo with
    | Some m => evolve2d_mode_fixed m r ty s0 hist T
    | None => match T with
              | 0 => Raise IndexError
              | 1 => Ok (s0, hist)
              | _ => Raise OtherError
              end
    end.

  (* evolve2d(ca, timesteps:callable, ...): the predicate is consulted first; an unsupported option
     raises at the first cell of the first iteration.  None = out of fuel. *)
  Definition evolve2d_dynamic {P} (pred : P -> list grid -> nat -> P * bool)
             (memo : PyVal) (r : nat) (ty : nbhd_type) (fuel : nat) (p0 : P) (s0 : St) (hist : list grid)
    : option (res (P * St * list grid * plog2)) :=
    match dispatch2d memo with
    | Some m => match evolve2d_mode_dynamic pred m r ty fuel p0 s0 hist with
                | Some o => Some (Ok o)
                | None => None
                end
    | None =>
        let init := last hist [] in
        let '(p1, go) := pred p0 [init] 1 in
        Some (if go then Raise OtherError
              else Ok (p1, s0, removelast hist ++ [init], [([init], 1)]))
    end.
End Rec2D.

Arguments step_quads {St} rec b x next.
Arguments update_state2d {St} rule store fuel curr R C r ty t b x next.
Arguments step_rec2d {St} rule store r ty.
Arguments evolve2d_mode_fixed {St} rule store m r ty s0 hist T.
Arguments evolve2d_mode_dynamic {St} rule store {P} pred m r ty fuel p0 s0 hist.
Arguments evolve2d_fixed {St} rule store memo r ty s0 hist T.
Arguments evolve2d_dynamic {St} rule store {P} pred memo r ty fuel p0 s0 hist.

(* a pure rule: the result depends on the neighbourhood only; no state *)
Definition pure_rule2 (f : nbhd2 -> Z) : rule2 unit := fun u n c t => (u, f n).

(* the projections the properties speak about *)
Definition arr2_of {St} (o : res (St * list grid)) : res (list grid) :=
  match o with Ok (_, a) => Ok a | Raise e => Raise e end.
Definition log2_of {St} (o : res ((St * list call2) * list grid)) : list call2 :=
  match o with Ok ((_, lg), _) => lg | Raise _ => [] end.
Definition dyn_arr2_of {St P} (o : option (P * St * list grid * list (list grid * nat)))
  : option (list grid * list (list grid * nat)) :=
  match o with Some (_, _, a, plog) => Some (a, plog) | None => None end.
Definition dyn_log2_of {St P} (o : option (P * (St * list call2) * list grid * list (list grid * nat)))
  : list call2 :=
  match o with Some (_, (_, lg), _, _) => lg | None => [] end.

(* what C09 counts: the contents of a logged call that reach the cache key *)
Definition call2_key (c : call2) : list Z := memo_key (fst (fst c)).      (* True mode: masked cells filled *)
Definition call2_vals (c : call2) : grid := nb_vals (fst (fst c)).        (* recursive mode: the raw block *)

(* ------------------------------------------------------------------ a process: evolve2d calls back to back *)
(* timesteps: an int, or one of the callables  lambda ca, t: t < k;  a scripted predicate;
   lambda ca, t: t < k and until_fixed_point()(ca, t) *)
Inductive tsteps2 := TFixed (T : nat) | TLt (k : nat) | TScript (bs : list bool) | TUntilFixedLt (k : nat).

Definition pred_ufp_lt (k : nat) (u : unit) (states : list grid) (t : nat) : unit * bool :=
  if t <? k then until_fixed_point zgrid_eqb u states t else (u, false).

Record call2d := mkCall2 {
  c2_rule : rule_spec;           (* the rule callable of this call (Model/Rules.v families) *)
  c2_memo : PyVal;               (* the memoize option *)
  c2_r : nat;
  c2_ty : nbhd_type;
  c2_hist : list grid;           (* cellular_automaton *)
  c2_ts : tsteps2
}.

(* observable result of one call: the rule-call log and the returned array, or the exception.
   The automaton's dtype holds every value the rule returns (store = identity). *)
Definition call2d_result := res (list call2 * list grid).

Definition dyn_result {P} (o : option (res (P * (nat * list call2) * list grid * list (list grid * nat))))
  : call2d_result :=
  match o with
  | Some (Ok (_, (_, lg), a, _)) => Ok (lg, a)
  | Some (Raise e) => Raise e
  | None => Raise OtherError
  end.

Definition run_call2d (c : call2d) : call2d_result :=
  let rule := logged2 (spec_rule2 (c2_rule c)) in
  match c2_ts c with
  | TFixed T =>
      match evolve2d_fixed rule store_id (c2_memo c) (c2_r c) (c2_ty c) (0, []) (c2_hist c) T with
      | Ok ((_, lg), a) => Ok (lg, a)
      | Raise e => Raise e
      end
  | TLt k =>   (* declines at its k-th consultation at the latest: k + 2 is enough fuel *)
      dyn_result (evolve2d_dynamic rule store_id (pred_lt k) (c2_memo c) (c2_r c) (c2_ty c) (k + 2) tt (0, []) (c2_hist c))
  | TScript bs =>
      dyn_result (evolve2d_dynamic rule store_id (pred_script bs) (c2_memo c) (c2_r c) (c2_ty c) (length bs + 2) 0 (0, []) (c2_hist c))
  | TUntilFixedLt k =>
      dyn_result (evolve2d_dynamic rule store_id (pred_ufp_lt k) (c2_memo c) (c2_r c) (c2_ty c) (k + 2) tt (0, []) (c2_hist c))
  end.

(* The model of a process is a fold over the list of calls whose accumulator holds nothing but the
   results so far: memo_table = {} and recursive_cache = _MemoizationCache() are locals of each call,
   nothing is carried from call to call. *)
Definition run_process2d (calls : list call2d) : list call2d_result :=
  fold_left (fun acc c => acc ++ [run_call2d c]) calls [].
