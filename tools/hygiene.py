#!/venv/bin/python
"""Hygiene gate for the Coq development: no axioms of our own, nothing admitted, no switched-off
kernel checks, no Variable/Hypothesis outside a Section.  Exit 2 on a finding."""
import os, re, sys
root = os.path.join(os.path.dirname(os.path.dirname(os.path.abspath(__file__))), 'coq')
bad = []
FORBID = re.compile(r'\b(Admitted|admit|Axiom|Axioms|Parameter|Parameters|Conjecture|Conjectures)\b|Admit Obligations|Unset Guard Checking|Unset Positivity Checking|Unset Universe Checking|bypass_check|type-in-type|impredicative-set|-noinit')
VAR = re.compile(r'^\s*(Variable|Variables|Hypothesis|Hypotheses|Context)\b')
def strip_comments(s):
    out, depth, i = [], 0, 0
    while i < len(s):
        if s.startswith('(*', i): depth += 1; i += 2; continue
        if s.startswith('*)', i) and depth: depth -= 1; i += 2; continue
        if depth == 0: out.append(s[i])
        elif s[i] == '\n': out.append('\n')
        i += 1
    return ''.join(out)
for d, _, fs in os.walk(root):
    for f in fs:
        if not f.endswith('.v') or f.startswith(('cases_', 'eval_', 'Recheck_')): continue
        p = os.path.join(d, f)
        text = strip_comments(open(p).read())
        depth = 0
        for n, line in enumerate(text.split('\n'), 1):
            if re.match(r'^\s*(Section|Module)\s+\w+', line) and ':=' not in line: depth += 1
            elif re.match(r'^\s*End\s+\w+\s*\.', line): depth = max(0, depth - 1)
            m = FORBID.search(line)
            if m and not re.search(r'Print Assumptions', line):
                bad.append('%s:%d: %s' % (p, n, line.strip()[:100]))
            if VAR.match(line) and depth == 0:
                bad.append('%s:%d: outside a Section: %s' % (p, n, line.strip()[:100]))
if bad:
    print('HYGIENE GATE FAILED'); print('\n'.join(bad)); sys.exit(2)
print('hygiene ok')
