#!/venv/bin/python
"""Print the per-property table of DESIGN.md section 13.5 from the evidence files of the last runs."""
import json, os
V = os.path.dirname(os.path.dirname(os.path.abspath(__file__)))
print('| Id | theorems (discharged) | axioms under the theorems | cases (quick) | non-trivial distinct | wall s |')
print('|----|----|----|----|----|----|')
for i in range(1, 21):
    pid = 'C%02d' % i
    e = json.load(open(os.path.join(V, 'evidence', pid + '.json')))
    c = e['coverage']
    ax = [t for t in c['trusted_base'] if t.startswith('axioms reported')][0].split(': ', 1)[1]
    ax = ax.replace('ClassicalDedekindReals.', '').replace('Classical_Prop.', '').replace('FunctionalExtensionality.', '')
    print('| %s | %d (%d) | %s | %d | %d | %.0f |' % (pid, c['obligations'], c['discharged'], ax, c['evaluations'], c['distinct_nontrivial'], e['wall_s']))
