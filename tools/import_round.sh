#!/bin/bash
# import_round.sh <round-dir e.g. /tmp/wt5> <tag e.g. r5> <Cxx ...> : validate each sub-agent change with
# tools/validate_seed.sh in its scratch worktree and, when valid, keep it as seeded/<Cxx>-<tag>m<k>/.
rd=$1; tag=$2; shift 2
for p in "$@"; do
  ( for k in m1 m2 m3; do
      m=$rd/$p/.mut/$k
      [ -f $m/patch.diff ] || continue
      out=$(cd /verif && tools/validate_seed.sh $rd/$p $m 2>&1 | tail -3 | tr '\n' ' ')
      echo "== $p $k: $out"
      if echo "$out" | grep -q "DEMO-OK" && echo "$out" | grep -q "161 passed" && echo "$out" | grep -q "4 failed"; then
        d=/verif/seeded/$p-$tag$k; mkdir -p $d
        cp $m/patch.diff $d/patch.diff; cp $m/demo.py $d/demo.py
        /venv/bin/python - "$m/meta.json" "$d/meta.json" "$p-$tag$k" "$tag" <<'PY'
import json, sys, subprocess
src, dst, sid, tag = sys.argv[1:]
try: m = json.load(open(src))
except Exception as e: m = {"summary": "meta.json of the sub-agent unreadable: %s" % e}
m.setdefault("property", sid[:3])
head = subprocess.run(['git','-C','/repo','rev-parse','--short','HEAD'],capture_output=True,text=True).stdout.strip()
m["validated_by_orchestrator"] = "tools/validate_seed.sh in a scratch git worktree of /repo at %s: patch applies; demo exits 0 unchanged / non-zero with the patch; suite with the patch: 161 passed, 4 failed (baseline)" % head
m["how_to_run_demo"] = "CELLPYLIB_REPO=<tree> /venv/bin/python seeded/%s/demo.py" % sid
ORIGINS = {
 "r5": "asked for two maintainer-plausible changes from different families (optimisation, modernisation, robustness, merged code paths, edge of the domain, evaluation order) with as narrow a failing-input set as possible",
 "r6": "told what the checks already vary (dtypes, layouts, callable shapes, parameter types, sizes) and asked to split the property into clauses first, then for two changes from different families (least-exercised clause, interaction of two or three features, re-entrancy and lifetime, numeric edge, API clean-up with a compatibility shim)"}
m["origin"] = "round %s: fresh sub-agent given only the property text and a scratch worktree; %s" % (tag[1:], ORIGINS.get(tag, "asked for two hard-to-find changes"))
json.dump(m, open(dst,'w'), indent=1)
PY
        echo "   kept as $d"
      else
        echo "   NOT KEPT"
      fi
    done ) > /tmp/import_${tag}_$p.log 2>&1 &
done
wait
cat /tmp/import_${tag}_C*.log; rm -f /tmp/import_${tag}_C*.log /tmp/vs_*.log
