#!/venv/bin/python
"""False-alarm campaign: run the registered quick checks of the properties anchored in the files a
behaviour-preserving refactoring touches, against a scratch worktree of /repo with the refactoring
applied.  A check that exits 0 is QUIET; exit 1 with `no-failing-input-found` is a fail-closed alarm
(a proof obligation / translator / AST gate no longer checks although no input disagrees: expected by the
protocol for rewrites outside the translated subset); exit 1 with a concrete replay is a FALSE ALARM to
be investigated.  usage: tools/run_harmless.py [id ...]   (default: all under /verif/harmless)"""
import json, os, shutil, subprocess, sys, tempfile, fcntl
V = os.path.dirname(os.path.dirname(os.path.abspath(__file__)))
FILES = {
    'cellpylib/ca_functions.py': ['C01', 'C03', 'C05', 'C06', 'C07', 'C08', 'C09', 'C10', 'C12', 'C13', 'C20'],
    'cellpylib/ca_functions2d.py': ['C02', 'C04', 'C05', 'C06', 'C09', 'C10', 'C11', 'C14', 'C15'],
    'cellpylib/entropy.py': ['C16', 'C18'], 'cellpylib/apen.py': ['C19'], 'cellpylib/bien.py': ['C18'],
    'cellpylib/rule_tables.py': ['C17'], 'cellpylib/sandpile.py': ['C14'], 'cellpylib/hopfield_net.py': ['C20'],
    'cellpylib/ctrbl_rule.py': ['C15'], 'cellpylib/sdsr_loop.py': ['C15'], 'cellpylib/evoloop.py': ['C15'],
    'cellpylib/langtons_loop.py': ['C15'],
}
ids = sys.argv[1:] or sorted(d for d in os.listdir(os.path.join(V, 'harmless')) if os.path.isdir(os.path.join(V, 'harmless', d)))
rows = []
for hid in ids:
    d = os.path.join(V, 'harmless', hid)
    meta = json.load(open(os.path.join(d, 'meta.json')))
    props = meta.get('check') or sorted(set(p for f in meta['files_changed'] for p in FILES.get(f, [])))
    tmp = tempfile.mkdtemp(prefix='harmrun_', dir='/tmp')
    try:
        subprocess.run(['git', '-C', '/repo', 'worktree', 'add', '-q', '--detach', tmp + '/wt', 'HEAD'], check=True)
        if subprocess.run(['git', '-C', tmp + '/wt', 'apply', os.path.join(d, 'patch.diff')]).returncode:
            rows.append((hid, '-', 'PATCH-DOES-NOT-APPLY', '')); continue
        for p in props:
            env = dict(os.environ, CELLPYLIB_REPO=tmp + '/wt', VERIF_FAST_REPORT='1')
            r = subprocess.run([os.path.join(V, 'check'), p, '--tier', 'quick'], cwd=V, env=env, capture_output=True, text=True)
            viol = [l for l in r.stdout.splitlines() if l.startswith('VIOLATION')]
            if r.returncode == 0 and not viol:
                st = 'QUIET'
            elif viol and all('no-failing-input-found' in v for v in viol):
                st = 'FAIL-CLOSED'
            else:
                st = 'FALSE-ALARM'
            detail = ''
            if viol:
                try:
                    rp = json.load(open(os.path.join(V, viol[0].split('replay=')[1].split()[0])))
                    detail = (rp.get('what', '') + ' ' + str(rp.get('failing', '')))[:160]
                except Exception:
                    detail = viol[0]
            rows.append((hid, p, st, detail))
    finally:
        subprocess.run(['git', '-C', '/repo', 'worktree', 'remove', '--force', tmp + '/wt'])
        shutil.rmtree(tmp, ignore_errors=True)
for row in rows:
    print('%-8s %-4s %-12s %s' % row)
lk = open(os.path.join(V, 'harmless', '.results.lock'), 'w'); fcntl.flock(lk, fcntl.LOCK_EX)
rp = os.path.join(V, 'harmless', 'results.json')
res = json.load(open(rp)) if os.path.exists(rp) else {}
for hid, p, st, detail in rows:
    res.setdefault(hid, {})[p] = {'status': st, 'detail': detail}
json.dump(res, open(rp, 'w'), indent=1, sort_keys=True)
