#!/bin/bash
# validate_seed.sh <worktree> <mutant-dir> : confirm a seeded change is a valid mutant
#  (demo passes on the unchanged tree, fails with the change; existing suite unchanged).
# Leaves the worktree clean.
wt=$1; m=$2
cd "$wt" || exit 2
export CELLPYLIB_REPO="$wt"   # the demos read the tree under test from this variable
git checkout -q -- . ; 
/venv/bin/python "$m/demo.py" >/tmp/vs_demo0_$$.log 2>&1; d0=$?
git apply "$m/patch.diff" || { echo "PATCH DOES NOT APPLY"; exit 3; }
/venv/bin/python "$m/demo.py" >/tmp/vs_demo1_$$.log 2>&1; d1=$?
if [ "$3" != "nosuite" ]; then
  /venv/bin/python -m pytest -q -p no:cacheprovider --timeout=900 2>&1 | tail -7 > /tmp/vs_suite_$$.log
  suite=$(tail -1 /tmp/vs_suite_$$.log)
  fails=$(grep -c '^FAILED' /tmp/vs_suite_$$.log)
fi
git checkout -q -- .
echo "demo_unchanged_exit=$d0 demo_changed_exit=$d1 suite='$suite' failed_lines=$fails"
if [ $d0 -eq 0 ] && [ $d1 -ne 0 ]; then echo "DEMO-OK"; else echo "DEMO-BAD"; tail -5 /tmp/vs_demo0_$$.log /tmp/vs_demo1_$$.log; fi
