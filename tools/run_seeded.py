#!/venv/bin/python
"""Run the registered quick check of each seeded change's property against a scratch copy of /repo
with the change applied (never /repo itself), and report which checks catch which changes.
usage: tools/run_seeded.py [seed-id ...]   (default: all under /verif/seeded)"""
import json, os, shutil, subprocess, sys, tempfile
V = os.path.dirname(os.path.dirname(os.path.abspath(__file__)))
ids = sys.argv[1:] or sorted(os.listdir(os.path.join(V, 'seeded')))
rows = []
for sid in ids:
    d = os.path.join(V, 'seeded', sid)
    if not os.path.exists(os.path.join(d, 'patch.diff')):
        continue
    meta = json.load(open(os.path.join(d, 'meta.json')))
    pid = meta['property']
    if meta.get('obsolete'):
        rows.append((sid, pid, 'OBSOLETE', meta.get('obsolete_reason', '')[:80]))
        continue
    also = meta.get('also_check', [])
    tmp = tempfile.mkdtemp(prefix='seedrun_', dir='/tmp')
    try:
        subprocess.run(['git', '-C', '/repo', 'worktree', 'add', '-q', '--detach', tmp + '/wt', 'HEAD'], check=True)
        r = subprocess.run(['git', '-C', tmp + '/wt', 'apply', os.path.join(d, 'patch.diff')])
        if r.returncode != 0:
            rows.append((sid, pid, 'PATCH-DOES-NOT-APPLY', ''))
            continue
        for p in [pid] + also:
            env = dict(os.environ, CELLPYLIB_REPO=tmp + '/wt')
            r = subprocess.run([os.path.join(V, 'check'), p, '--tier', 'quick'], cwd=V, env=env, capture_output=True, text=True)
            viol = [l for l in r.stdout.splitlines() if l.startswith('VIOLATION')]
            rows.append((sid, p, 'CAUGHT' if r.returncode == 1 and viol else 'MISSED(exit=%d)' % r.returncode, viol[0] if viol else r.stdout.strip().splitlines()[-1:] ))
    finally:
        subprocess.run(['git', '-C', '/repo', 'worktree', 'remove', '--force', tmp + '/wt'])
        shutil.rmtree(tmp, ignore_errors=True)
for row in rows:
    print('%-14s %-4s %-16s %s' % row)
# persist: seeded/results.json (latest status per seed and property) and seeded/README.md
import fcntl
_lk = open(os.path.join(V, 'seeded', '.results.lock'), 'w'); fcntl.flock(_lk, fcntl.LOCK_EX)
rp = os.path.join(V, 'seeded', 'results.json')
res = json.load(open(rp)) if os.path.exists(rp) else {}
head = subprocess.run(['git', '-C', V, 'rev-parse', '--short', 'HEAD'], capture_output=True, text=True).stdout.strip()
for sid, p, status, _ in rows:
    res.setdefault(sid, {})[p] = {'status': status.split('(')[0], 'verif_commit': head}
json.dump(res, open(rp, 'w'), indent=1, sort_keys=True)
with open(os.path.join(V, 'seeded', 'README.md'), 'w') as f:
    f.write('# Independently seeded changes\n\nEach directory holds `patch.diff`, `demo.py` (run with `CELLPYLIB_REPO=<tree>`), `meta.json`.\n'
            'Status = result of the registered quick check of the property on a scratch worktree of /repo with the patch applied\n'
            '(`tools/run_seeded.py`); `verif` = the /verif commit the run was made at.\n\n| seed | property | status | verif | needs to manifest |\n|---|---|---|---|---|\n')
    for sid in sorted(res):
        try:
            meta = json.load(open(os.path.join(V, 'seeded', sid, 'meta.json')))
        except Exception:
            meta = {}
        for p in sorted(res[sid]):
            f.write('| %s | %s | %s | %s | %s |\n' % (sid, p, res[sid][p]['status'], res[sid][p]['verif_commit'],
                    ' '.join(str(meta.get('needs_to_manifest', '')).split())[:220].replace('|', '/')))
# restore evidence / replays produced by runs against mutants: the caller re-runs the real checks
