#!/venv/bin/python
"""Run the registered quick check of each seeded change's property against a scratch copy of /repo
with the change applied (never /repo itself), and report which checks catch which changes.
usage: tools/run_seeded.py [seed-id ...]   (default: all under /verif/seeded)"""
import json, os, shutil, subprocess, sys, tempfile
V = os.path.dirname(os.path.dirname(os.path.abspath(__file__)))
ids = sys.argv[1:] or sorted(os.listdir(os.path.join(V, 'seeded')))
rows = []
for sid in ids:
    d = os.path.join(V, 'seeded', sid)
    if not os.path.exists(os.path.join(d, 'patch.diff')):
        continue
    meta = json.load(open(os.path.join(d, 'meta.json')))
    pid = meta['property']
    also = meta.get('also_check', [])
    tmp = tempfile.mkdtemp(prefix='seedrun_', dir='/tmp')
    try:
        subprocess.run(['git', '-C', '/repo', 'worktree', 'add', '-q', '--detach', tmp + '/wt', 'HEAD'], check=True)
        r = subprocess.run(['git', '-C', tmp + '/wt', 'apply', os.path.join(d, 'patch.diff')])
        if r.returncode != 0:
            rows.append((sid, pid, 'PATCH-DOES-NOT-APPLY', ''))
            continue
        for p in [pid] + also:
            env = dict(os.environ, CELLPYLIB_REPO=tmp + '/wt')
            r = subprocess.run([os.path.join(V, 'check'), p, '--tier', 'quick'], cwd=V, env=env, capture_output=True, text=True)
            viol = [l for l in r.stdout.splitlines() if l.startswith('VIOLATION')]
            rows.append((sid, p, 'CAUGHT' if r.returncode == 1 and viol else 'MISSED(exit=%d)' % r.returncode, viol[0] if viol else r.stdout.strip().splitlines()[-1:] ))
    finally:
        subprocess.run(['git', '-C', '/repo', 'worktree', 'remove', '--force', tmp + '/wt'])
        shutil.rmtree(tmp, ignore_errors=True)
for row in rows:
    print('%-14s %-4s %-16s %s' % row)
# restore evidence / replays produced by runs against mutants: the caller re-runs the real checks
