(* Design-phase spike (not framework code): archetype of the memoisation-transparency proofs
   (C03 'recursive' mode, one step).  Model of ca_functions.py:_step/_update_state over an
   association-list cache keyed by the wrapped block neighbourhood; theorem: for any cache that
   satisfies the invariant, any ring size N >= 1, radius r <= N and any split, the recursive
   engine writes exactly the plain next row and preserves the invariant. *)
From Coq Require Import List Arith Lia Bool.
Import ListNotations.

Section Memo.
Variable V : Type.
Variable eqV : V -> V -> bool.
Hypothesis eqV_spec : forall a b, eqV a b = true <-> a = b.
Variable d : V.
Variable f : list V -> V.          (* pure rule, dtype store folded in *)
Variable r : nat.

Fixpoint list_eqb (a b : list V) : bool :=
  match a, b with
  | [], [] => true
  | x :: a', y :: b' => eqV x y && list_eqb a' b'
  | _, _ => false
  end.

Lemma list_eqb_spec a b : list_eqb a b = true <-> a = b.
Proof.
  revert b; induction a as [|x a IH]; intros [|y b]; cbn; split; intros H; try congruence; try discriminate.
  - apply andb_true_iff in H as [H1 H2]. apply eqV_spec in H1. apply IH in H2. congruence.
  - injection H as -> ->. apply andb_true_iff. split; [apply eqV_spec|apply IH]; reflexivity.
Qed.

Definition cacheT := list (list V * list V).

Fixpoint lookup (k : list V) (c : cacheT) : option (list V) :=
  match c with
  | [] => None
  | (k', v) :: c' => if list_eqb k k' then Some v else lookup k c'
  end.

(* curr_state.take(range(start - r, start + len + r), mode='wrap'), for r <= N *)
Definition wrap_take (row : list V) (s len : nat) : list V :=
  map (fun i => nth ((s + i) mod length row) row d) (seq 0 len).

Definition write (next : list V) (start : nat) (vals : list V) : list V :=
  firstn start next ++ vals ++ skipn (start + length vals) next.
Definition read (next : list V) (start len : nat) : list V := firstn len (skipn start next).

Definition split_with (rec : nat -> nat -> list V -> cacheT -> list V * cacheT)
           (start len : nat) (next : list V) (cache : cacheT) : list V * cacheT :=
  let mid := len / 2 in
  let '(n1, c1) := if 0 <? mid then rec start mid next cache else (next, cache) in
  if 0 <? len - mid then rec (start + mid) (len - mid) n1 c1 else (n1, c1).

Fixpoint update_state (fuel : nat) (curr : list V) (start len : nat) (next : list V) (cache : cacheT)
  : list V * cacheT :=
  match fuel with
  | O => (next, cache)
  | S k =>
    let key := wrap_take curr (start + length curr - r) (len + 2 * r) in
    match lookup key cache with
    | Some vals => (write next start vals, cache)
    | None =>
      let '(next', cache') :=
        if 1 <? len then split_with (update_state k curr) start len next cache
        else (write next start [f key], cache) in
      (next', (key, read next' start len) :: cache')
    end
  end.

Definition step (curr next : list V) (cache : cacheT) : list V * cacheT :=
  split_with (update_state (length curr) curr) 0 (length curr) next cache.

(* ---- specification ---- *)
Definition spec_cell (curr : list V) (c : nat) : V :=
  f (wrap_take curr (c + length curr - r) (2 * r + 1)).
Definition next_row (curr : list V) : list V := map (spec_cell curr) (seq 0 (length curr)).

Definition block_vals (key : list V) : list V :=
  map (fun i => f (firstn (2 * r + 1) (skipn i key))) (seq 0 (length key - 2 * r)).
Definition Inv (c : cacheT) : Prop := forall k v, In (k, v) c -> v = block_vals k.

Lemma lookup_sound k c v : Inv c -> lookup k c = Some v -> v = block_vals k.
Proof.
  intros HI. induction c as [|[k' v'] c IH]; cbn; [discriminate|].
  destruct (list_eqb k k') eqn:E.
  - intros [= <-]. apply list_eqb_spec in E. subst k'. apply HI. left; reflexivity.
  - apply IH. intros k0 v0 H0. apply HI. right; exact H0.
Qed.

Lemma wrap_take_length row s len : length (wrap_take row s len) = len.
Proof. unfold wrap_take. rewrite map_length, seq_length. reflexivity. Qed.

Lemma skipn_map_seq {A} (g : nat -> A) i s L : skipn i (map g (seq s L)) = map g (seq (s + i) (L - i)).
Proof.
  revert s L; induction i as [|i IH]; intros s L.
  - rewrite Nat.add_0_r, Nat.sub_0_r. reflexivity.
  - destruct L as [|L]; [reflexivity|]. cbn [seq map skipn]. rewrite IH. f_equal. f_equal; lia.
Qed.
Lemma firstn_map_seq {A} (g : nat -> A) w s L : w <= L -> firstn w (map g (seq s L)) = map g (seq s w).
Proof.
  revert s L; induction w as [|w IH]; intros s L H; [reflexivity|].
  destruct L as [|L]; [lia|]. cbn [seq map firstn]. f_equal. apply IH. lia.
Qed.
Lemma map_seq_shift {A} (g : nat -> A) s w : map g (seq s w) = map (fun j => g (s + j)) (seq 0 w).
Proof.
  revert g s; induction w as [|w IH]; intros g s; [reflexivity|].
  cbn [seq map]. rewrite Nat.add_0_r. f_equal.
  rewrite (IH g (S s)), (IH (fun j => g (s + j)) 1). apply map_ext. intros j. f_equal. lia.
Qed.

Lemma window_of_block row s L i : 0 < length row -> i + (2 * r + 1) <= L ->
  firstn (2 * r + 1) (skipn i (wrap_take row s L)) = wrap_take row (s + i) (2 * r + 1).
Proof.
  intros HN Hi. unfold wrap_take. rewrite skipn_map_seq, firstn_map_seq by lia. cbn [plus].
  rewrite map_seq_shift. apply map_ext. intros j. f_equal. f_equal. lia.
Qed.

Lemma block_vals_spec curr start len : 0 < length curr -> r <= length curr ->
  block_vals (wrap_take curr (start + length curr - r) (len + 2 * r)) = map (spec_cell curr) (seq start len).
Proof.
  intros HN Hr. unfold block_vals. rewrite wrap_take_length.
  replace (len + 2 * r - 2 * r) with len by lia.
  rewrite (map_seq_shift (spec_cell curr)). apply map_ext_in. intros i Hi. apply in_seq in Hi.
  rewrite window_of_block by lia. unfold spec_cell. f_equal. f_equal. lia.
Qed.

(* write / read facts *)
Lemma write_length next start vals : start + length vals <= length next -> length (write next start vals) = length next.
Proof. intros H. unfold write. rewrite !app_length, firstn_length, skipn_length. lia. Qed.
Lemma write_in next start vals i : start + length vals <= length next -> start <= i < start + length vals ->
  nth i (write next start vals) d = nth (i - start) vals d.
Proof.
  intros H Hi. unfold write. rewrite app_nth2 by (rewrite firstn_length; lia).
  rewrite firstn_length, Nat.min_l by lia. rewrite app_nth1 by lia. reflexivity.
Qed.
Lemma write_out next start vals i : start + length vals <= length next -> i < start \/ start + length vals <= i ->
  nth i (write next start vals) d = nth i next d.
Proof.
  intros H [Hi|Hi]; unfold write.
  - rewrite app_nth1 by (rewrite firstn_length; lia). clear H. revert next i Hi.
    induction start as [|s IH]; intros next i Hi; [lia|]. destruct next as [|x next]; [destruct i; reflexivity|].
    destruct i as [|i]; cbn; [reflexivity|]. apply IH. lia.
  - rewrite app_nth2 by (rewrite firstn_length; lia). rewrite firstn_length, Nat.min_l by lia.
    rewrite app_nth2 by lia.
    assert (Hs : forall n (l : list V) j, nth j (skipn n l) d = nth (n + j) l d).
    { induction n as [|n IHn]; intros l j; [reflexivity|]. destruct l as [|x l]; cbn [skipn plus nth]; [destruct j; reflexivity|apply IHn]. }
    rewrite Hs. f_equal. lia.
Qed.
Lemma read_spec next start len (g : nat -> V) : start + len <= length next ->
  (forall i, start <= i < start + len -> nth i next d = g i) -> read next start len = map g (seq start len).
Proof.
  intros H Hg. unfold read. apply nth_ext with (d := d) (d' := d).
  - rewrite firstn_length, skipn_length, map_length, seq_length. lia.
  - intros j Hj. rewrite firstn_length, skipn_length in Hj.
    assert (Hj' : j < len) by lia.
    assert (Hs : forall n (l : list V) j, nth j (skipn n l) d = nth (n + j) l d).
    { induction n as [|n IHn]; intros l j0; [reflexivity|]. destruct l as [|x l]; cbn [skipn plus nth]; [destruct j0; reflexivity|apply IHn]. }
    assert (Hf : forall w (l : list V) j0, j0 < w -> nth j0 (firstn w l) d = nth j0 l d).
    { induction w as [|w IHw]; intros l j0 H0; [lia|]. destruct l as [|x l]; [destruct j0; reflexivity|].
      destruct j0; cbn; [reflexivity|apply IHw; lia]. }
    rewrite Hf, Hs by lia. rewrite Hg by lia.
    rewrite (nth_indep _ d (g 0)) by (rewrite map_length, seq_length; lia).
    rewrite map_nth, seq_nth by lia. reflexivity.
Qed.

Definition Post (curr : list V) (start len : nat) (next : list V) (res : list V * cacheT) : Prop :=
  let '(next', cache') := res in
  length next' = length next /\ Inv cache' /\
  (forall i, start <= i < start + len -> nth i next' d = spec_cell curr i) /\
  (forall i, i < start \/ start + len <= i -> nth i next' d = nth i next d).

Lemma update_state_ok curr : 0 < length curr -> r <= length curr ->
  forall fuel start len next cache,
    len <= fuel -> 1 <= len -> start + len <= length curr -> length next = length curr -> Inv cache ->
    Post curr start len next (update_state fuel curr start len next cache).
Proof.
  intros HN Hr. induction fuel as [|k IH]; intros start len next cache Hf Hl Hs Hn HI; [lia|].
  cbn [update_state].
  set (key := wrap_take curr (start + length curr - r) (len + 2 * r)).
  assert (Hbv : block_vals key = map (spec_cell curr) (seq start len)) by (apply block_vals_spec; assumption).
  destruct (lookup key cache) as [vals|] eqn:EL.
  - (* cache hit *)
    apply lookup_sound in EL; [|exact HI]. rewrite Hbv in EL. subst vals.
    assert (Hlv : length (map (spec_cell curr) (seq start len)) = len) by (rewrite map_length, seq_length; reflexivity).
    unfold Post. split; [apply write_length; lia|]. split; [exact HI|]. split.
    + intros i Hi. rewrite write_in by lia.
      rewrite (nth_indep _ d (spec_cell curr 0)) by lia. rewrite map_nth, seq_nth by lia. f_equal. lia.
    + intros i Hi. apply write_out; lia.
  - (* miss *)
    assert (Hinner : Post curr start len next
              (if 1 <? len then split_with (update_state k curr) start len next cache
               else (write next start [f key], cache))).
    { destruct (1 <? len) eqn:E1.
      - apply Nat.ltb_lt in E1. unfold split_with.
        assert (Hmid : 1 <= len / 2 < len).
        { split; [apply Nat.div_le_lower_bound; lia|apply Nat.div_lt; lia]. }
        replace (0 <? len / 2) with true by (symmetry; apply Nat.ltb_lt; lia).
        specialize (IH start (len / 2) next cache) as IH1.
        destruct (update_state k curr start (len / 2) next cache) as [n1 c1].
        destruct IH1 as (L1 & I1 & A1 & B1); try lia; try assumption.
        replace (0 <? len - len / 2) with true by (symmetry; apply Nat.ltb_lt; lia).
        specialize (IH (start + len / 2) (len - len / 2) n1 c1) as IH2.
        destruct (update_state k curr (start + len / 2) (len - len / 2) n1 c1) as [n2 c2].
        destruct IH2 as (L2 & I2 & A2 & B2); try lia; try assumption.
        unfold Post. split; [lia|]. split; [exact I2|]. split.
        + intros i Hi. destruct (Nat.lt_ge_cases i (start + len / 2)).
          * rewrite B2 by lia. apply A1. lia.
          * apply A2. lia.
        + intros i Hi. rewrite B2 by lia. apply B1. lia.
      - apply Nat.ltb_ge in E1. assert (len = 1) by lia. subst len.
        unfold Post. split; [apply write_length; cbn; lia|]. split; [exact HI|]. split.
        + intros i Hi. assert (i = start) by lia. subst i. rewrite write_in by (cbn; lia).
          rewrite Nat.sub_diag. cbn [nth]. unfold key, spec_cell. f_equal. f_equal. lia.
        + intros i Hi. apply write_out; cbn; lia. }
    destruct (if 1 <? len then _ else _) as [next' cache'].
    destruct Hinner as (L & I & A & B).
    unfold Post. repeat split; try assumption.
    intros k0 v0 [H0|H0]; [|apply I; exact H0].
    injection H0 as <- <-. rewrite Hbv. apply read_spec; [lia|exact A].
Qed.

Theorem step_transparent curr next cache :
  0 < length curr -> r <= length curr -> length next = length curr -> Inv cache ->
  fst (step curr next cache) = next_row curr /\ Inv (snd (step curr next cache)).
Proof.
  intros HN Hr Hn HI. unfold step, split_with.
  set (N := length curr) in *.
  destruct (Nat.eq_dec N 1) as [E|E].
  - (* N = 1: left half empty, right half is the single cell *)
    rewrite E. cbn [Nat.div Nat.divmod fst Nat.ltb Nat.leb Nat.sub plus].
    pose proof (update_state_ok curr HN Hr 1 0 1 next cache) as H. fold N in H. rewrite E in H.
    specialize (H (le_n _) (le_n _) (le_n _)). rewrite Hn in H. specialize (H E HI).
    destruct (update_state 1 curr 0 1 next cache) as [n1 c1]. destruct H as (L & I & A & B).
    split; [|exact I]. cbn [fst]. unfold next_row. fold N. rewrite E.
    apply nth_ext with (d := d) (d' := d); [rewrite L, Hn, E; reflexivity|].
    intros i Hi. rewrite L, Hn, E in Hi. assert (i = 0) by lia. subst i. rewrite A by lia. reflexivity.
  - assert (Hmid : 1 <= N / 2 < N) by (split; [apply Nat.div_le_lower_bound; lia|apply Nat.div_lt; lia]).
    replace (0 <? N / 2) with true by (symmetry; apply Nat.ltb_lt; lia).
    pose proof (update_state_ok curr HN Hr N 0 (N / 2) next cache) as H1. fold N in H1.
    destruct (update_state N curr 0 (N / 2) next cache) as [n1 c1].
    destruct H1 as (L1 & I1 & A1 & B1); try lia; try assumption.
    replace (0 <? N - N / 2) with true by (symmetry; apply Nat.ltb_lt; lia).
    pose proof (update_state_ok curr HN Hr N (0 + N / 2) (N - N / 2) n1 c1) as H2. fold N in H2.
    destruct (update_state N curr (0 + N / 2) (N - N / 2) n1 c1) as [n2 c2].
    destruct H2 as (L2 & I2 & A2 & B2); try lia; try assumption.
    split; [|exact I2]. cbn [fst]. unfold next_row. fold N.
    apply nth_ext with (d := d) (d' := d); [rewrite map_length, seq_length; lia|].
    intros i Hi.
    rewrite (nth_indep (map _ _) d (spec_cell curr 0)) by (rewrite map_length, seq_length; lia).
    rewrite map_nth, seq_nth by lia. cbn [plus].
    destruct (Nat.lt_ge_cases i (N / 2)).
    + rewrite B2 by lia. apply A1. lia.
    + apply A2. lia.
Qed.
End Memo.

Print Assumptions step_transparent.
