(* Design-phase spike (not framework code): the foundation lemma of C01.
   Model of ca_functions.py:_index_strides and proof that, for 1 <= r <= N, window c holds the
   ring indices (c - r + k) mod N.  Checked with coqc 8.16.1; closed under the global context. *)
From Coq Require Import List Arith Lia Bool.
Import ListNotations.


Definition windows {A} (w : nat) (l : list A) : list (list A) :=
  map (fun i => firstn w (skipn i l)) (seq 0 (length l - w + 1)).

(* Python's arr[-r:] : the whole list when r = 0 or r > len (slice bounds saturate) *)
Definition py_last {A} (r : nat) (l : list A) : list A :=
  if (r =? 0) || (length l <? r) then l else skipn (length l - r) l.

(* arr = concatenate((arr[-w//2+1:], arr, arr[:w//2])) with w = 2r+1, i.e. -w//2+1 = -r, w//2 = r *)
Definition ext_idx (N r : nat) : list nat :=
  py_last r (seq 0 N) ++ seq 0 N ++ firstn r (seq 0 N).

Definition index_strides (N r : nat) : list (list nat) := windows (2 * r + 1) (ext_idx N r).

Lemma skipn_seq n s len : skipn n (seq s len) = seq (s + n) (len - n).
Proof.
  revert s len; induction n as [|n IH]; intros s len.
  - rewrite Nat.add_0_r, Nat.sub_0_r. reflexivity.
  - destruct len as [|len]; [reflexivity|]. cbn [seq skipn]. rewrite IH. f_equal; lia.
Qed.

Lemma firstn_seq n s len : n <= len -> firstn n (seq s len) = seq s n.
Proof.
  revert s len; induction n as [|n IH]; intros s len H; [reflexivity|].
  destruct len as [|len]; [lia|]. cbn [seq firstn]. f_equal. apply IH. lia.
Qed.

Lemma ext_idx_eq N r : 1 <= r <= N ->
  ext_idx N r = seq (N - r) r ++ seq 0 N ++ seq 0 r.
Proof.
  intros H. unfold ext_idx, py_last. rewrite seq_length.
  destruct (r =? 0) eqn:E0; [apply Nat.eqb_eq in E0; lia|].
  destruct (N <? r) eqn:E1; [apply Nat.ltb_lt in E1; lia|]. cbn [orb].
  rewrite skipn_seq, firstn_seq by lia. repeat f_equal; lia.
Qed.

Lemma nth_firstn_lt {A} (m : list A) k w d : k < w -> nth k (firstn w m) d = nth k m d.
Proof.
  revert m w; induction k as [|k IH]; intros m w Hk; destruct w as [|w]; try lia;
    destruct m as [|y m]; cbn; auto. apply IH. lia.
Qed.

Lemma nth_skipn {A} (l : list A) c k d : nth k (skipn c l) d = nth (c + k) l d.
Proof.
  revert l; induction c as [|c IH]; intros l; [reflexivity|].
  destruct l as [|x l]; cbn [skipn plus nth]; [destruct k; reflexivity|apply IH].
Qed.

Lemma nth_firstn_skipn {A} (l : list A) c k w d : k < w ->
  nth k (firstn w (skipn c l)) d = nth (c + k) l d.
Proof. intros Hk. rewrite nth_firstn_lt by exact Hk. apply nth_skipn. Qed.

Lemma nth_map_seq {A} (f : nat -> A) n c d : c < n -> nth c (map f (seq 0 n)) d = f c.
Proof.
  intros H. rewrite (nth_indep _ d (f 0)) by (rewrite map_length, seq_length; exact H).
  rewrite map_nth, seq_nth by exact H. reflexivity.
Qed.

Theorem strides_spec N r c k : 1 <= r <= N -> c < N -> k < 2 * r + 1 ->
  nth k (nth c (index_strides N r) []) 0 = (c + k + N - r) mod N.
Proof.
  intros Hr Hc Hk. unfold index_strides, windows.
  rewrite ext_idx_eq by lia.
  set (ext := seq (N - r) r ++ seq 0 N ++ seq 0 r).
  assert (Hlen : length ext = N + 2 * r) by (unfold ext; rewrite !app_length, !seq_length; lia).
  rewrite Hlen.
  replace (N + 2 * r - (2 * r + 1) + 1) with N by lia.
  rewrite nth_map_seq by lia.
  rewrite nth_firstn_skipn by lia.
  unfold ext.
  destruct (Nat.lt_ge_cases (c + k) r) as [H1|H1].
  - rewrite app_nth1 by (rewrite seq_length; lia). rewrite seq_nth by lia.
    apply Nat.mod_unique with (q := 0); lia.
  - rewrite app_nth2 by (rewrite seq_length; lia). rewrite seq_length.
    destruct (Nat.lt_ge_cases (c + k - r) N) as [H2|H2].
    + rewrite app_nth1 by (rewrite seq_length; lia). rewrite seq_nth by lia.
      apply Nat.mod_unique with (q := 1); lia.
    + rewrite app_nth2 by (rewrite seq_length; lia). rewrite seq_length, seq_nth by lia.
      apply Nat.mod_unique with (q := 2); lia.
Qed.

Lemma strides_length N r : 1 <= r <= N -> length (index_strides N r) = N.
Proof.
  intros H. unfold index_strides, windows. rewrite map_length, seq_length, ext_idx_eq by lia.
  rewrite !app_length, !seq_length. lia.
Qed.

(* non-vacuity: window wider than the ring *)
Example strides_3_3 : index_strides 3 3 = [[0;1;2;0;1;2;0]; [1;2;0;1;2;0;1]; [2;0;1;2;0;1;2]].
Proof. reflexivity. Qed.
(* the guard matters: r = 0 and r > N give malformed windows, as the real code does *)
Example strides_r0 : index_strides 3 0 = [[0];[1];[2];[0];[1];[2]].
Proof. reflexivity. Qed.

Print Assumptions strides_spec.
