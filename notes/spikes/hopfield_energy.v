(* Design-phase spike (not framework code): the algebraic core of C20.
   For a symmetric weight matrix with zero diagonal, setting cell c to +1 when its field
   V = sum_i W[i][c] s_i is >= 0 and to -1 otherwise never increases
   2E(s) = - sum_i sum_j W[i][j] s_i s_j.  Integers only; closed under the global context. *)
From Coq Require Import ZArith List Lia.
Import ListNotations.
Open Scope Z_scope.

Fixpoint Zsum (f : nat -> Z) (n : nat) : Z :=
  match n with O => 0 | S k => Zsum f k + f k end.

Lemma Zsum_ext f g n : (forall i, (i < n)%nat -> f i = g i) -> Zsum f n = Zsum g n.
Proof. induction n as [|n IH]; intros H; cbn; [reflexivity|]. rewrite IH, H by (intros; try apply H; lia). reflexivity. Qed.
Lemma Zsum_plus f g n : Zsum (fun i => f i + g i) n = Zsum f n + Zsum g n.
Proof. induction n as [|n IH]; cbn; [reflexivity|]. rewrite IH. lia. Qed.
Lemma Zsum_scal a f n : Zsum (fun i => a * f i) n = a * Zsum f n.
Proof. induction n as [|n IH]; cbn; [lia|]. rewrite IH. lia. Qed.
Lemma Zsum_zero n : Zsum (fun _ => 0) n = 0.
Proof. induction n; cbn; lia. Qed.
Definition ind (c i : nat) : Z := if Nat.eqb i c then 1 else 0.
Lemma Zsum_ind g c n : (c < n)%nat -> Zsum (fun i => ind c i * g i) n = g c.
Proof.
  induction n as [|n IH]; intros Hc; [lia|]. cbn [Zsum]. unfold ind at 2.
  destruct (Nat.eqb n c) eqn:E.
  - apply Nat.eqb_eq in E. subst n.
    rewrite (Zsum_ext _ (fun _ => 0)); [rewrite Zsum_zero; lia|].
    intros i Hi. unfold ind. replace (Nat.eqb i c) with false by (symmetry; apply Nat.eqb_neq; lia). lia.
  - apply Nat.eqb_neq in E. rewrite IH by lia. lia.
Qed.

Section Energy.
Variable N : nat.
Variable W : nat -> nat -> Z.
Hypothesis W_sym : forall i j, W i j = W j i.
Hypothesis W_diag : forall i, W i i = 0.

Definition E2 (s : nat -> Z) : Z := - Zsum (fun i => Zsum (fun j => W i j * s i * s j) N) N.
Definition field (s : nat -> Z) (c : nat) : Z := Zsum (fun i => W i c * s i) N.
Definition upd (s : nat -> Z) (c : nat) (v : Z) : nat -> Z := fun i => if Nat.eqb i c then v else s i.

Lemma upd_delta s c v i : upd s c v i = s i + ind c i * (v - s c).
Proof. unfold upd, ind. destruct (Nat.eqb i c) eqn:E; [apply Nat.eqb_eq in E; subst; lia|lia]. Qed.

Theorem energy_step s c v : (c < N)%nat ->
  E2 (upd s c v) - E2 s = - 2 * (v - s c) * field s c.
Proof.
  intros Hc. unfold E2. set (d := v - s c).
  assert (Hexp : forall i j, W i j * upd s c v i * upd s c v j =
     W i j * s i * s j + d * (ind c j * (W i j * s i)) + d * (ind c i * (W i j * s j)) + d * d * (ind c i * (ind c j * W i j))).
  { intros i j. rewrite !upd_delta. fold d. ring. }
  rewrite (Zsum_ext (fun i => Zsum (fun j => W i j * upd s c v i * upd s c v j) N)
                    (fun i => Zsum (fun j => W i j * s i * s j) N + d * (W i c * s i)
                              + d * (ind c i * Zsum (fun j => W i j * s j) N) + d * d * (ind c i * W i c))).
  2:{ intros i Hi. rewrite (Zsum_ext _ _ N (fun j _ => Hexp i j)).
      rewrite !Zsum_plus, !Zsum_scal. rewrite (Zsum_ind (fun j => W i j * s i) c N Hc).
      rewrite (Zsum_ind (fun j => W i j) c N Hc). reflexivity. }
  rewrite !Zsum_plus, !Zsum_scal.
  rewrite (Zsum_ind (fun i => Zsum (fun j => W i j * s j) N) c N Hc).
  rewrite (Zsum_ind (fun i => W i c) c N Hc). rewrite W_diag.
  unfold field.
  rewrite (Zsum_ext (fun j => W c j * s j) (fun i => W i c * s i)) by (intros; rewrite W_sym; reflexivity).
  ring.
Qed.

(* the Hopfield update: +1 iff the field is non-negative *)
Definition hop (V : Z) : Z := if 0 <=? V then 1 else -1.

Corollary energy_descent s c : (c < N)%nat -> (s c = 1 \/ s c = -1) ->
  E2 (upd s c (hop (field s c))) <= E2 s.
Proof.
  intros Hc Hs. pose proof (energy_step s c (hop (field s c)) Hc) as H.
  unfold hop in *. destruct (0 <=? field s c) eqn:E.
  - apply Z.leb_le in E. destruct Hs as [Hs|Hs]; rewrite Hs in H; nia.
  - apply Z.leb_gt in E. destruct Hs as [Hs|Hs]; rewrite Hs in H; nia.
Qed.
End Energy.

Print Assumptions energy_descent.
