(* Design-phase spike (not framework code): the per-step invariant of AsynchronousRule (C12).
   Model of ca_functions.py:786-817 (__call__, _check_for_end_of_cycle) as a state machine
   (order, curr, num_applied); theorem: a step entered with num_applied = 0 and curr = k updates
   exactly the cell order[k], calls the wrapped rule exactly once (for that cell), and ends with
   num_applied = 0, curr = (k+1) mod L, whatever permutation the shuffle oracle returns.
   Works for any duplicate-free visiting order of cells, so 1D and 2D are one statement. *)
From Coq Require Import List Arith Lia Bool Permutation.
Import ListNotations.

Section Async.
Variable cell : Type.
Variable ceq : cell -> cell -> bool.
Hypothesis ceq_spec : forall a b, ceq a b = true <-> a = b.
Variable dc : cell.
Variables NB V S : Type.
Variable centre : NB -> V.
Variable inner : S -> NB -> cell -> nat -> S * V.
Variable rand : bool.                               (* randomize_each_cycle *)
Variable sh : list cell -> list cell.               (* np.random.shuffle outcome: any permutation *)
Hypothesis sh_perm : forall l, Permutation l (sh l).

Record ast := mk { order : list cell; curr : nat; napp : nat }.

Definition mem (c : cell) (l : list cell) : bool := existsb (ceq c) l.

Definition end_cycle (a : ast) : ast :=
  if napp a =? length (order a)
  then mk (if rand then sh (order a) else order a) ((curr a + 1) mod length (order a)) 0
  else a.

(* AsynchronousRule.__call__ *)
Definition call (t : nat) (a : ast) (s : S) (c : cell) (n : NB) : ast * S * V :=
  let a1 := if mem c (order a) then mk (order a) (curr a) (napp a + 1) else a in
  let upd := ceq c (nth (curr a1) (order a1) dc) in
  let a2 := end_cycle a1 in
  if upd then let '(s', v) := inner s n c t in (a2, s', v) else (a2, s, centre n).

Fixpoint run (t : nat) (a : ast) (s : S) (cells : list (cell * NB)) : ast * S * list V :=
  match cells with
  | [] => (a, s, [])
  | (c, n) :: rest =>
    let '(a', s', v) := call t a s c n in
    let '(a'', s'', vs) := run t a' s' rest in (a'', s'', v :: vs)
  end.

(* ---- specification of one step ---- *)
Definition spec_out (t : nat) (s : S) (x : cell) (cells : list (cell * NB)) : list V :=
  map (fun cn => if ceq (fst cn) x then snd (inner s (snd cn) (fst cn) t) else centre (snd cn)) cells.
Fixpoint spec_state (t : nat) (s : S) (x : cell) (cells : list (cell * NB)) : S :=
  match cells with
  | [] => s
  | (c, n) :: rest => if ceq c x then fst (inner s n c t) else spec_state t s x rest
  end.

Lemma mem_In c l : mem c l = true <-> In c l.
Proof.
  unfold mem. rewrite existsb_exists. split.
  - intros (x & Hx & E). apply ceq_spec in E. subst. exact Hx.
  - intros H. exists c. split; [exact H|apply ceq_spec; reflexivity].
Qed.
Lemma mem_false c l : mem c l = false <-> ~ In c l.
Proof. rewrite <- mem_In. destruct (mem c l); split; intros; congruence. Qed.
Lemma ceq_false a b : ceq a b = false <-> a <> b.
Proof. rewrite <- ceq_spec. destruct (ceq a b); split; intros; congruence. Qed.

Definition listed (o : list cell) (cells : list (cell * NB)) : nat :=
  length (filter (fun cn => mem (fst cn) o) cells).

(* phase 2: after the end of the cycle no listed cell remains in this step *)
Lemma phase2 t o k s rest : 1 <= length o -> k < length o ->
  (forall cn, In cn rest -> ~ In (fst cn) o) ->
  run t (mk o k 0) s rest = (mk o k 0, s, map (fun cn => centre (snd cn)) rest).
Proof.
  intros HL Hk. induction rest as [|[c n] rest IH]; intros Hun; [reflexivity|].
  cbn [run]. unfold call. cbn [order curr napp].
  assert (Hc : mem c o = false) by (apply mem_false; apply (Hun (c, n)); left; reflexivity).
  rewrite Hc. cbn [order curr napp].
  assert (Hu : ceq c (nth k o dc) = false).
  { apply ceq_false. intros E. apply (Hun (c, n)); [left; reflexivity|]. cbn. rewrite E. apply nth_In. exact Hk. }
  rewrite Hu. unfold end_cycle. cbn [order curr napp].
  replace (0 =? length o) with false by (symmetry; apply Nat.eqb_neq; lia).
  rewrite IH by (intros cn H; apply Hun; right; exact H). reflexivity.
Qed.

Lemma spec_out_unlisted t s x cells : (forall cn, In cn cells -> fst cn <> x) ->
  spec_out t s x cells = map (fun cn => centre (snd cn)) cells.
Proof.
  intros H. unfold spec_out. apply map_ext_in. intros cn Hcn.
  replace (ceq (fst cn) x) with false by (symmetry; apply ceq_false; apply H; exact Hcn). reflexivity.
Qed.
Lemma spec_state_unlisted t s x cells : (forall cn, In cn cells -> fst cn <> x) -> spec_state t s x cells = s.
Proof.
  induction cells as [|[c n] rest IH]; intros H; [reflexivity|]. cbn [spec_state].
  replace (ceq c x) with false by (symmetry; apply ceq_false; apply (H (c, n)); left; reflexivity).
  apply IH. intros cn Hcn. apply H. right; exact Hcn.
Qed.

Lemma spec_out_cons t s x c n rest :
  spec_out t s x ((c, n) :: rest) =
  (if ceq c x then snd (inner s n c t) else centre n) :: spec_out t s x rest.
Proof. reflexivity. Qed.

Definition next_order (o : list cell) := if rand then sh o else o.
Lemma next_order_perm o : Permutation o (next_order o).
Proof. unfold next_order. destruct rand; [apply sh_perm|reflexivity]. Qed.

(* phase 1: j listed cells seen so far in this step, the remaining ones are still ahead *)
Lemma phase1 t o k : 1 <= length o -> k < length o -> NoDup o ->
  forall rest j s,
    NoDup (map fst rest) ->
    j + listed o rest = length o -> 1 <= listed o rest ->
    (* the scheduled cell is either already done (then it is not in rest) or still in rest *)
    run t (mk o k j) s rest =
      (mk (next_order o) ((k + 1) mod length o) 0,
       spec_state t s (nth k o dc) rest,
       spec_out t s (nth k o dc) rest).
Proof.
  intros HL Hk Ho. induction rest as [|[c n] rest IH]; intros j s Hnd Hj H1; [cbn in H1; lia|].
  cbn [run]. unfold call. cbn [order curr napp].
  inversion Hnd as [|c0 l0 Hnotin Hnd']; subst.
  unfold listed in Hj, H1. cbn [filter fst] in Hj, H1.
  destruct (mem c o) eqn:Hc; cbn [order curr napp].
  - (* a listed cell *)
    cbn [length] in Hj, H1. fold (listed o rest) in Hj, H1.
    unfold end_cycle. cbn [order curr napp].
    destruct (Nat.eq_dec (listed o rest) 0) as [Hz|Hnz].
    + (* the last listed cell of this step: the cycle ends here *)
      replace (j + 1 =? length o) with true by (symmetry; apply Nat.eqb_eq; lia).
      assert (Hun : forall cn, In cn rest -> ~ In (fst cn) o).
      { intros cn Hcn Hin. unfold listed in Hz.
        assert (In cn (filter (fun cn => mem (fst cn) o) rest)) as Hf
          by (apply filter_In; split; [exact Hcn|apply mem_In; exact Hin]).
        destruct (filter (fun cn => mem (fst cn) o) rest); [exact Hf|discriminate]. }
      assert (Hun' : forall cn, In cn rest -> ~ In (fst cn) (next_order o)).
      { intros cn Hcn Hin. apply (Hun cn Hcn). apply Permutation_in with (l := next_order o);
          [apply Permutation_sym, next_order_perm|exact Hin]. }
      assert (HL' : length (next_order o) = length o) by (symmetry; apply Permutation_length, next_order_perm).
      fold (next_order o).
      assert (Hne : forall cn, In cn rest -> fst cn <> nth k o dc).
      { intros cn Hcn E. apply (Hun cn Hcn). rewrite E. apply nth_In. exact Hk. }
      destruct (ceq c (nth k o dc)) eqn:Hu.
      * destruct (inner s n c t) as [s' v] eqn:Ei.
        rewrite phase2; [|lia|rewrite HL'; apply Nat.mod_upper_bound; lia|exact Hun'].
        rewrite spec_out_cons. cbn [spec_state]. rewrite Hu, Ei. cbn [fst snd].
        rewrite spec_out_unlisted by exact Hne. reflexivity.
      * rewrite phase2; [|lia|rewrite HL'; apply Nat.mod_upper_bound; lia|exact Hun'].
        rewrite spec_out_cons. cbn [spec_state]. rewrite Hu.
        rewrite spec_out_unlisted, spec_state_unlisted by exact Hne. reflexivity.
    + (* more listed cells follow *)
      replace (j + 1 =? length o) with false by (symmetry; apply Nat.eqb_neq; lia).
      destruct (ceq c (nth k o dc)) eqn:Hu.
      * destruct (inner s n c t) as [s' v] eqn:Ei.
        rewrite IH by (try exact Hnd'; lia).
        rewrite spec_out_cons. cbn [spec_state]. rewrite Hu, Ei. cbn [fst snd].
        (* c is the scheduled cell; it does not occur again in rest, so rest is spec'd as unlisted *)
        apply ceq_spec in Hu.
        assert (Hne : forall cn, In cn rest -> fst cn <> nth k o dc).
        { intros cn Hcn E. apply Hnotin. rewrite Hu, <- E. apply in_map. exact Hcn. }
        rewrite !spec_out_unlisted, spec_state_unlisted by exact Hne. reflexivity.
      * rewrite IH by (try exact Hnd'; lia).
        rewrite spec_out_cons. cbn [spec_state]. rewrite Hu. reflexivity.
  - (* an unlisted cell: nothing happens *)
    fold (listed o rest) in Hj, H1.
    assert (Hu : ceq c (nth k o dc) = false).
    { apply ceq_false. intros E. apply mem_false in Hc. apply Hc. rewrite E. apply nth_In. exact Hk. }
    rewrite Hu. unfold end_cycle. cbn [order curr napp].
    replace (j =? length o) with false by (symmetry; apply Nat.eqb_neq; lia).
    rewrite IH by (try exact Hnd'; lia).
    rewrite spec_out_cons. cbn [spec_state]. rewrite Hu. reflexivity.
Qed.

(* every listed cell is visited exactly once: NoDup order, NoDup cells, order within cells *)
Lemma listed_all o cells : NoDup o -> NoDup (map fst cells) -> incl o (map fst cells) ->
  listed o cells = length o.
Proof.
  intros Ho Hc Hincl. unfold listed.
  rewrite <- (map_length fst).
  apply Nat.le_antisymm.
  - apply NoDup_incl_length.
    + (* NoDup of the filtered first components *)
      clear Hincl. induction cells as [|[c n] rest IH]; [constructor|].
      inversion Hc as [|? ? Hn Hc']; subst. cbn [filter fst].
      destruct (mem c o); [|apply IH; exact Hc'].
      cbn [map fst]. constructor; [|apply IH; exact Hc'].
      intros Hin. apply Hn. apply in_map_iff in Hin as ([c' n'] & E & Hf). cbn in E. subst c'.
      apply filter_In in Hf as [Hf _]. apply in_map_iff. exists (c, n'). split; [reflexivity|exact Hf].
    + intros x Hx. apply in_map_iff in Hx as (cn & E & Hf). apply filter_In in Hf as [_ Hm].
      apply mem_In in Hm. subst x. exact Hm.
  - apply NoDup_incl_length; [exact Ho|].
    intros x Hx. specialize (Hincl x Hx). apply in_map_iff in Hincl as (cn & E & Hcn).
    apply in_map_iff. exists cn. split; [exact E|]. apply filter_In. split; [exact Hcn|].
    apply mem_In. rewrite E. exact Hx.
Qed.

Theorem async_step t o k s cells :
  1 <= length o -> k < length o -> NoDup o -> NoDup (map fst cells) -> incl o (map fst cells) ->
  run t (mk o k 0) s cells =
    (mk (next_order o) ((k + 1) mod length o) 0,
     spec_state t s (nth k o dc) cells,
     spec_out t s (nth k o dc) cells).
Proof.
  intros HL Hk Ho Hc Hincl. apply phase1; try assumption.
  - rewrite listed_all by assumption. reflexivity.
  - rewrite listed_all by assumption. exact HL.
Qed.
End Async.

Print Assumptions async_step.
