(* Design-phase spike (not framework code): the locality lemma behind the pattern corollaries
   of C11, for ALL torus sizes.  Torus configurations are (R, C)-periodic functions Z -> Z -> bool;
   the torus Life step is the plane Life step of the periodic extension.  A pattern supported in
   [0,p) x [0,q), embedded anywhere in a torus with p + 2 <= R and q + 2 <= C, evolves for one
   step exactly as in the plane (torus_local).  Corollary: a glider placed anywhere on any
   torus with R, C >= 5 reappears after four steps shifted by (1, 1). *)
From Coq Require Import ZArith List Lia Bool.
Import ListNotations.
Open Scope Z_scope.

Definition plane := Z -> Z -> bool.
Definition peq (f g : plane) : Prop := forall i j, f i j = g i j.
Infix "==" := peq (at level 70).

Definition b2z (b : bool) : Z := if b then 1 else 0.
Definition cnt8 (g : plane) (i j : Z) : Z :=
  b2z (g (i-1) (j-1)) + b2z (g (i-1) j) + b2z (g (i-1) (j+1)) +
  b2z (g i (j-1)) + b2z (g i (j+1)) +
  b2z (g (i+1) (j-1)) + b2z (g (i+1) j) + b2z (g (i+1) (j+1)).
Definition life (c : bool) (n : Z) : bool := if c then (n =? 2) || (n =? 3) else (n =? 3).
Definition pstep (g : plane) : plane := fun i j => life (g i j) (cnt8 g i j).

Lemma pstep_ext f g : f == g -> pstep f == pstep g.
Proof. intros H i j. unfold pstep, cnt8. rewrite !H. reflexivity. Qed.

Section Torus.
Variables R C : Z.
Hypothesis R_pos : 0 < R.
Hypothesis C_pos : 0 < C.

Definition ext (t : plane) : plane := fun a b => t (a mod R) (b mod C).
Definition tstep (t : plane) : plane := pstep (ext t).
Lemma tstep_ext f g : f == g -> tstep f == tstep g.
Proof. intros H. apply pstep_ext. intros i j. unfold ext. apply H. Qed.

Definition supp (p q : Z) (P : plane) : Prop := forall u v, P u v = true -> 0 <= u < p /\ 0 <= v < q.
Definition emb (a b : Z) (P : plane) : plane := fun i j => P ((i - a) mod R) ((j - b) mod C).
Definition shift (du dv : Z) (P : plane) : plane := fun u v => P (u - du) (v - dv).

(* one coordinate: the residue of a neighbour is the neighbour of the (offset) residue, or both
   fall outside the support *)
Lemma wrap_cases n k m s : 0 < n -> s = 1 -> -2 <= m <= 0 -> - m <= n ->
  let u := (k + s) mod n in
  (k + s + m) mod n = u + m \/ (u + m < 0 /\ (k + s + m) mod n = u + m + n).
Proof.
  intros Hn Hs Hm Hmn u.
  assert (Hu : 0 <= u < n) by (apply Z.mod_pos_bound; lia).
  assert (E : (k + s + m) mod n = (u + m) mod n) by (unfold u; rewrite Zplus_mod_idemp_l; reflexivity).
  destruct (Z_lt_le_dec (u + m) 0) as [Hneg|Hpos].
  - right. split; [exact Hneg|]. rewrite E.
    rewrite <- (Z_mod_plus_full (u + m) 1 n). replace (u + m + 1 * n) with (u + m + n) by ring.
    apply Z.mod_small. lia.
  - left. rewrite E. apply Z.mod_small. lia.
Qed.

(* the embedded pattern read at a neighbour = the plane pattern read at the plane neighbour *)
Lemma emb_read p q P a b i j di dj :
  supp p q P -> 0 <= p -> 0 <= q -> p + 2 <= R -> q + 2 <= C -> -1 <= di <= 1 -> -1 <= dj <= 1 ->
  P ((i + di - a) mod R) ((j + dj - b) mod C) =
  P ((i - a + 1) mod R - 1 + di) ((j - b + 1) mod C - 1 + dj).
Proof.
  intros HS Hp Hq HR HC Hdi Hdj.
  pose proof (wrap_cases R (i - a) (di - 1) 1 R_pos eq_refl ltac:(lia) ltac:(lia)) as Hr.
  pose proof (wrap_cases C (j - b) (dj - 1) 1 C_pos eq_refl ltac:(lia) ltac:(lia)) as Hc.
  cbn zeta in Hr, Hc.
  replace (i - a + 1 + (di - 1)) with (i + di - a) in Hr by ring.
  replace (j - b + 1 + (dj - 1)) with (j + dj - b) in Hc by ring.
  set (u := (i - a + 1) mod R) in *. set (v := (j - b + 1) mod C) in *.
  assert (Hu : 0 <= u < R) by (apply Z.mod_pos_bound; lia).
  assert (Hv : 0 <= v < C) by (apply Z.mod_pos_bound; lia).
  replace (u - 1 + di) with (u + (di - 1)) by ring. replace (v - 1 + dj) with (v + (dj - 1)) by ring.
  destruct Hr as [-> | [Hrn ->]]; destruct Hc as [-> | [Hcn ->]]; try reflexivity.
  - (* column wrapped: both reads are outside the support *)
    destruct (P (u + (di - 1)) (v + (dj - 1) + C)) eqn:E1; destruct (P (u + (di - 1)) (v + (dj - 1))) eqn:E2;
      try reflexivity; try (apply HS in E1; lia); try (apply HS in E2; lia).
  - destruct (P (u + (di - 1) + R) (v + (dj - 1))) eqn:E1; destruct (P (u + (di - 1)) (v + (dj - 1))) eqn:E2;
      try reflexivity; try (apply HS in E1; lia); try (apply HS in E2; lia).
  - destruct (P (u + (di - 1) + R) (v + (dj - 1) + C)) eqn:E1; destruct (P (u + (di - 1)) (v + (dj - 1))) eqn:E2;
      try reflexivity; try (apply HS in E1; lia); try (apply HS in E2; lia).
Qed.

Lemma ext_emb a b P i j : ext (emb a b P) i j = P ((i - a) mod R) ((j - b) mod C).
Proof. unfold ext, emb. rewrite !Zminus_mod_idemp_l. reflexivity. Qed.

Theorem torus_local p q P a b : supp p q P -> 0 <= p -> 0 <= q -> p + 2 <= R -> q + 2 <= C ->
  tstep (emb a b P) == emb (a - 1) (b - 1) (shift 1 1 (pstep P)).
Proof.
  intros HS Hp Hq HR HC i j. unfold tstep, pstep at 1, cnt8. rewrite !ext_emb.
  unfold emb at 1, shift, pstep, cnt8.
  replace (i - (a - 1)) with (i - a + 1) by ring. replace (j - (b - 1)) with (j - b + 1) by ring.
  set (u := (i - a + 1) mod R). set (v := (j - b + 1) mod C).
  pose proof (fun di dj Hdi Hdj => emb_read p q P a b i j di dj HS Hp Hq HR HC Hdi Hdj) as Hrd. fold u v in Hrd.
  replace (i - a) with (i + 0 - a) by ring. replace (j - b) with (j + 0 - b) by ring.
  replace (i - 1 - a) with (i + -1 - a) by ring. replace (j - 1 - b) with (j + -1 - b) by ring.
  replace (i + 1 + 0 - a) with (i + 1 - a) by ring.
  rewrite !Hrd by lia.
  replace (u - 1 + 0) with (u - 1) by ring. replace (v - 1 + 0) with (v - 1) by ring.
  replace (u - 1 + -1) with (u - 1 - 1) by ring. replace (v - 1 + -1) with (v - 1 - 1) by ring.
  reflexivity.
Qed.

(* re-anchoring: a shifted sub-pattern that still fits in the torus is the sub-pattern embedded
   at the shifted origin *)
Lemma emb_shift p2 q2 P2 a b du dv : supp p2 q2 P2 -> 0 <= p2 -> 0 <= q2 ->
  0 <= du -> du + p2 <= R -> 0 <= dv -> dv + q2 <= C ->
  emb a b (shift du dv P2) == emb (a + du) (b + dv) P2.
Proof.
  intros HS Hp2 Hq2 Hdu HR Hdv HC i j. unfold emb, shift.
  replace (i - (a + du)) with ((i - a) - du) by ring. replace (j - (b + dv)) with ((j - b) - dv) by ring.
  rewrite <- (Zminus_mod_idemp_l (i - a) du R), <- (Zminus_mod_idemp_l (j - b) dv C).
  set (x := (i - a) mod R). set (y := (j - b) mod C).
  assert (Hx : 0 <= x < R) by (apply Z.mod_pos_bound; lia).
  assert (Hy : 0 <= y < C) by (apply Z.mod_pos_bound; lia).
  assert (Ex : (x - du) mod R = x - du \/ (x - du < 0 /\ (x - du) mod R = x - du + R)).
  { destruct (Z_lt_le_dec (x - du) 0); [right; split; [assumption|]|left; apply Z.mod_small; lia].
    rewrite <- (Z_mod_plus_full (x - du) 1 R). replace (x - du + 1 * R) with (x - du + R) by ring. apply Z.mod_small; lia. }
  assert (Ey : (y - dv) mod C = y - dv \/ (y - dv < 0 /\ (y - dv) mod C = y - dv + C)).
  { destruct (Z_lt_le_dec (y - dv) 0); [right; split; [assumption|]|left; apply Z.mod_small; lia].
    rewrite <- (Z_mod_plus_full (y - dv) 1 C). replace (y - dv + 1 * C) with (y - dv + C) by ring. apply Z.mod_small; lia. }
  destruct Ex as [-> | [Hxn ->]]; destruct Ey as [-> | [Hyn ->]]; try reflexivity.
  - destruct (P2 (x - du) (y - dv)) eqn:E1; destruct (P2 (x - du) (y - dv + C)) eqn:E2;
      try reflexivity; try (apply HS in E1; lia); try (apply HS in E2; lia).
  - destruct (P2 (x - du) (y - dv)) eqn:E1; destruct (P2 (x - du + R) (y - dv)) eqn:E2;
      try reflexivity; try (apply HS in E1; lia); try (apply HS in E2; lia).
  - destruct (P2 (x - du) (y - dv)) eqn:E1; destruct (P2 (x - du + R) (y - dv + C)) eqn:E2;
      try reflexivity; try (apply HS in E1; lia); try (apply HS in E2; lia).
Qed.

Lemma emb_ext a b P Q : P == Q -> emb a b P == emb a b Q.
Proof. intros H i j. unfold emb. apply H. Qed.
End Torus.

(* ---------- finite patterns ---------- *)
Definition of_list (cells : list (Z * Z)) : plane :=
  fun u v => existsb (fun c => (fst c =? u) && (snd c =? v)) cells.
Definition in_box (p q : Z) (c : Z * Z) : bool := (0 <=? fst c) && (fst c <? p) && (0 <=? snd c) && (snd c <? q).

Lemma of_list_supp p q cells : forallb (in_box p q) cells = true -> supp p q (of_list cells).
Proof.
  intros Hall u v H. unfold of_list in H. apply existsb_exists in H as ([cu cv] & Hin & E).
  rewrite forallb_forall in Hall. specialize (Hall _ Hin). unfold in_box in Hall. cbn [fst snd] in *. lia.
Qed.

Lemma pstep_supp p q P : supp p q P -> supp (p + 2) (q + 2) (shift 1 1 (pstep P)).
Proof.
  intros HS u v H. unfold shift, pstep in H.
  destruct (P (u - 1) (v - 1)) eqn:E0; [apply HS in E0; lia|].
  unfold life in H. apply Z.eqb_eq in H. unfold cnt8 in H.
  destruct (P (u-1-1) (v-1-1)) eqn:E1; [apply HS in E1; lia|].
  destruct (P (u-1-1) (v-1)) eqn:E2; [apply HS in E2; lia|].
  destruct (P (u-1-1) (v-1+1)) eqn:E3; [apply HS in E3; lia|].
  destruct (P (u-1) (v-1-1)) eqn:E4; [apply HS in E4; lia|].
  destruct (P (u-1) (v-1+1)) eqn:E5; [apply HS in E5; lia|].
  destruct (P (u-1+1) (v-1-1)) eqn:E6; [apply HS in E6; lia|].
  destruct (P (u-1+1) (v-1)) eqn:E7; [apply HS in E7; lia|].
  destruct (P (u-1+1) (v-1+1)) eqn:E8; [apply HS in E8; lia|].
  cbn in H. discriminate.
Qed.

Definition zrange (n : Z) : list Z := map Z.of_nat (seq 0 (Z.to_nat n)).
Lemma in_zrange n u : 0 <= u < n -> In u (zrange n).
Proof. intros H. unfold zrange. apply in_map_iff. exists (Z.to_nat u). split; [lia|]. apply in_seq. lia. Qed.

(* decidable check that one plane step of a finite pattern is another finite pattern, re-anchored *)
Definition step_check (p q : Z) (cells cells' : list (Z * Z)) (p' q' du dv : Z) : bool :=
  forallb (in_box p q) cells && (forallb (in_box p' q') cells' &&
  ((0 <=? p') && ((0 <=? q') && ((0 <=? du) && ((du + p' <=? p + 2) && ((0 <=? dv) && ((dv + q' <=? q + 2) &&
  forallb (fun u => forallb (fun v =>
     Bool.eqb (shift 1 1 (pstep (of_list cells)) u v) (shift du dv (of_list cells') u v)) (zrange (q + 2))) (zrange (p + 2))))))))).

Lemma step_check_inv p q cells cells' p' q' du dv : step_check p q cells cells' p' q' du dv = true ->
  forallb (in_box p q) cells = true /\ forallb (in_box p' q') cells' = true /\
  0 <= p' /\ 0 <= q' /\ 0 <= du /\ du + p' <= p + 2 /\ 0 <= dv /\ dv + q' <= q + 2 /\
  (forall u v, 0 <= u < p + 2 -> 0 <= v < q + 2 ->
     shift 1 1 (pstep (of_list cells)) u v = shift du dv (of_list cells') u v).
Proof.
  unfold step_check. intros H.
  apply andb_true_iff in H as [H1 H]. apply andb_true_iff in H as [H2 H].
  apply andb_true_iff in H as [H3 H]. apply andb_true_iff in H as [H4 H].
  apply andb_true_iff in H as [H5 H]. apply andb_true_iff in H as [H6 H].
  apply andb_true_iff in H as [H7 H]. apply andb_true_iff in H as [H8 H9].
  repeat (split; [first [assumption | lia]|]).
  intros u v Hu Hv. rewrite forallb_forall in H9. specialize (H9 u (in_zrange _ _ Hu)).
  rewrite forallb_forall in H9. specialize (H9 v (in_zrange _ _ Hv)). apply eqb_prop in H9. exact H9.
Qed.

Lemma step_check_sound p q cells cells' p' q' du dv : step_check p q cells cells' p' q' du dv = true ->
  shift 1 1 (pstep (of_list cells)) == shift du dv (of_list cells').
Proof.
  intros H. apply step_check_inv in H as (Hc & Hc' & Hp' & Hq' & Hdu & Hdu2 & Hdv & Hdv2 & Hbox).
  intros u v.
  pose proof (pstep_supp p q _ (of_list_supp p q cells Hc)) as S1.
  pose proof (of_list_supp p' q' cells' Hc') as S2.
  destruct (Z_lt_le_dec u 0) as [Hu|Hu]; [|destruct (Z_lt_le_dec u (p + 2)) as [Hu2|Hu2]];
  [ | destruct (Z_lt_le_dec v 0) as [Hv|Hv]; [|destruct (Z_lt_le_dec v (q + 2)) as [Hv2|Hv2]] | ];
  try (apply Hbox; lia);
  (destruct (shift 1 1 (pstep (of_list cells)) u v) eqn:E1; destruct (shift du dv (of_list cells') u v) eqn:E2;
    try reflexivity; try (apply S1 in E1; lia); unfold shift in E2; apply S2 in E2; lia).
Qed.

(* one torus step of an embedded finite pattern, for every torus it fits in with a one-cell halo *)
Lemma torus_pattern_step R C p q cells cells' p' q' du dv a b :
  step_check p q cells cells' p' q' du dv = true -> 0 <= p -> 0 <= q -> p + 2 <= R -> q + 2 <= C ->
  tstep R C (emb R C a b (of_list cells)) == emb R C (a - 1 + du) (b - 1 + dv) (of_list cells').
Proof.
  intros Hchk Hp Hq HR HC i j.
  assert (R_pos : 0 < R) by lia. assert (C_pos : 0 < C) by lia.
  pose proof (step_check_inv _ _ _ _ _ _ _ _ Hchk) as (Hc & Hc' & Hp' & Hq' & Hdu & Hdu2 & Hdv & Hdv2 & _).
  rewrite (torus_local R C R_pos C_pos p q _ a b (of_list_supp p q cells Hc) Hp Hq HR HC i j).
  rewrite (emb_ext R C _ _ _ _ (step_check_sound _ _ _ _ _ _ _ _ Hchk) i j).
  replace (a - 1 + du) with ((a - 1) + du) by ring. replace (b - 1 + dv) with ((b - 1) + dv) by ring.
  apply (emb_shift R C R_pos C_pos p' q'); [apply of_list_supp; assumption|lia..].
Qed.

(* ---------- the glider ---------- *)
Definition G0 := [(0,1);(1,2);(2,0);(2,1);(2,2)].
Definition G1 := [(0,0);(0,2);(1,1);(1,2);(2,1)].
Definition G2 := [(0,2);(1,0);(1,2);(2,1);(2,2)].
Definition G3 := [(0,0);(1,1);(1,2);(2,0);(2,1)].

Lemma chk01 : step_check 3 3 G0 G1 3 3 2 1 = true. Proof. vm_compute. reflexivity. Qed.
Lemma chk12 : step_check 3 3 G1 G2 3 3 1 1 = true. Proof. vm_compute. reflexivity. Qed.
Lemma chk23 : step_check 3 3 G2 G3 3 3 1 2 = true. Proof. vm_compute. reflexivity. Qed.
Lemma chk30 : step_check 3 3 G3 G0 3 3 1 1 = true. Proof. vm_compute. reflexivity. Qed.

Theorem glider_period4 R C a b : 5 <= R -> 5 <= C ->
  tstep R C (tstep R C (tstep R C (tstep R C (emb R C a b (of_list G0)))))
  == emb R C (a + 1) (b + 1) (of_list G0).
Proof.
  intros HR HC i j.
  assert (R_pos : 0 < R) by lia. assert (C_pos : 0 < C) by lia.
  pose proof (torus_pattern_step R C 3 3 G0 G1 3 3 2 1 a b chk01 ltac:(lia) ltac:(lia) ltac:(lia) ltac:(lia)) as S1.
  pose proof (torus_pattern_step R C 3 3 G1 G2 3 3 1 1 (a - 1 + 2) (b - 1 + 1) chk12 ltac:(lia) ltac:(lia) ltac:(lia) ltac:(lia)) as S2.
  pose proof (torus_pattern_step R C 3 3 G2 G3 3 3 1 2 (a - 1 + 2 - 1 + 1) (b - 1 + 1 - 1 + 1) chk23 ltac:(lia) ltac:(lia) ltac:(lia) ltac:(lia)) as S3.
  pose proof (torus_pattern_step R C 3 3 G3 G0 3 3 1 1 (a - 1 + 2 - 1 + 1 - 1 + 1) (b - 1 + 1 - 1 + 1 - 1 + 2) chk30 ltac:(lia) ltac:(lia) ltac:(lia) ltac:(lia)) as S4.
  rewrite (tstep_ext R C _ _ (tstep_ext R C _ _ (tstep_ext R C _ _ S1)) i j).
  rewrite (tstep_ext R C _ _ (tstep_ext R C _ _ S2) i j).
  rewrite (tstep_ext R C _ _ S3 i j).
  rewrite (S4 i j).
  replace (a - 1 + 2 - 1 + 1 - 1 + 1 - 1 + 1) with (a + 1) by ring.
  replace (b - 1 + 1 - 1 + 1 - 1 + 2 - 1 + 1) with (b + 1) by ring. reflexivity.
Qed.

Print Assumptions glider_period4.
