(* Design-phase spike (not framework code): the largest proof of the plan, C04 'recursive' mode,
   one step.  Model of ca_functions2d.py:_update_state/_step/_get_sub_matrices on rectangles
   (r0, h, c0, w) with the margin stripped by r on each side (the code after the planned fix),
   a cache keyed by the 2D contents of block + margin, grids as functions nat -> nat -> V.
   Theorem: for every cache satisfying the invariant, every R, C >= 1 and radius r <= min(R, C),
   the quad-tree engine writes exactly the plain next grid on the block it is given, leaves the
   rest untouched, and preserves the invariant. *)
From Coq Require Import ZArith List Arith Lia Bool ZifyBool ZifyNat.
Import ListNotations.
Ltac Zify.zify_post_hook ::= Z.div_mod_to_equations.

Section Memo2D.
Variable V : Type.
Variable eqV : V -> V -> bool.
Hypothesis eqV_spec : forall a b, eqV a b = true <-> a = b.
Variable d : V.
Variable f : list (list V) -> V.      (* pure rule on the (2r+1)^2 block; mask and store folded in *)
Variable r R C : nat.
Hypothesis R_pos : 0 < R.
Hypothesis C_pos : 0 < C.
Hypothesis r_le_R : r <= R.
Hypothesis r_le_C : r <= C.

Definition grid := nat -> nat -> V.

Fixpoint row_eqb (a b : list V) : bool :=
  match a, b with [], [] => true | x :: a', y :: b' => eqV x y && row_eqb a' b' | _, _ => false end.
Fixpoint key_eqb (a b : list (list V)) : bool :=
  match a, b with [], [] => true | x :: a', y :: b' => row_eqb x y && key_eqb a' b' | _, _ => false end.
Lemma row_eqb_spec a b : row_eqb a b = true <-> a = b.
Proof.
  revert b; induction a as [|x a IH]; intros [|y b]; cbn; split; intros H; try congruence; try discriminate.
  - apply andb_true_iff in H as [H1 H2]. apply eqV_spec in H1. apply IH in H2. congruence.
  - injection H as -> ->. apply andb_true_iff. split; [apply eqV_spec|apply IH]; reflexivity.
Qed.
Lemma key_eqb_spec a b : key_eqb a b = true <-> a = b.
Proof.
  revert b; induction a as [|x a IH]; intros [|y b]; cbn; split; intros H; try congruence; try discriminate.
  - apply andb_true_iff in H as [H1 H2]. apply row_eqb_spec in H1. apply IH in H2. congruence.
  - injection H as -> ->. apply andb_true_iff. split; [apply row_eqb_spec|apply IH]; reflexivity.
Qed.

Definition cacheT := list (list (list V) * list (list V)).
Fixpoint lookup (k : list (list V)) (c : cacheT) : option (list (list V)) :=
  match c with [] => None | (k', v) :: c' => if key_eqb k k' then Some v else lookup k c' end.

Definition idx (n s len : nat) : list nat := map (fun i => (s + i) mod n) (seq 0 len).
Definition gather (g : grid) (rs cs : list nat) : list (list V) := map (fun i => map (fun j => g i j) cs) rs.

Record block := B { r0 : nat; bh : nat; c0 : nat; bw : nat }.
Definition inb (b : block) (i j : nat) : bool :=
  (r0 b <=? i) && (i <? r0 b + bh b) && (c0 b <=? j) && (j <? c0 b + bw b).
Definition write (next : grid) (b : block) (vals : list (list V)) : grid :=
  fun i j => if inb b i j then nth (j - c0 b) (nth (i - r0 b) vals []) d else next i j.
Definition read (next : grid) (b : block) : list (list V) :=
  gather next (seq (r0 b) (bh b)) (seq (c0 b) (bw b)).
Definition key_of (curr : grid) (b : block) : list (list V) :=
  gather curr (idx R (r0 b + R - r) (bh b + 2 * r)) (idx C (c0 b + C - r) (bw b + 2 * r)).

Definition quads (b : block) : list block :=
  let h1 := (bh b + 1) / 2 in let h2 := bh b - h1 in
  let w1 := (bw b + 1) / 2 in let w2 := bw b - w1 in
  [ B (r0 b) h1 (c0 b) w1; B (r0 b) h1 (c0 b + w1) w2;
    B (r0 b + h1) h2 (c0 b) w1; B (r0 b + h1) h2 (c0 b + w1) w2 ].
Definition empty (b : block) : bool := (bh b =? 0) || (bw b =? 0).

Fixpoint run_list (rec : block -> grid -> cacheT -> grid * cacheT) (bs : list block)
         (next : grid) (cache : cacheT) : grid * cacheT :=
  match bs with
  | [] => (next, cache)
  | b :: bs' =>
    let '(n1, c1) := if empty b then (next, cache) else rec b next cache in
    run_list rec bs' n1 c1
  end.

Fixpoint update_state (fuel : nat) (curr : grid) (b : block) (next : grid) (cache : cacheT) : grid * cacheT :=
  match fuel with
  | O => (next, cache)
  | S k =>
    let key := key_of curr b in
    match lookup key cache with
    | Some vals => (write next b vals, cache)
    | None =>
      let '(next', cache') :=
        if (1 <? bh b) || (1 <? bw b) then run_list (update_state k curr) (quads b) next cache
        else (write next b [[f key]], cache) in
      (next', (key, read next' b) :: cache')
    end
  end.

(* ---------- specification ---------- *)
Definition spec_cell (curr : grid) (i j : nat) : V :=
  f (gather curr (idx R (i + R - r) (2 * r + 1)) (idx C (j + C - r) (2 * r + 1))).
Definition spec_block (curr : grid) (b : block) : list (list V) :=
  map (fun a => map (fun bb => spec_cell curr (r0 b + a) (c0 b + bb)) (seq 0 (bw b))) (seq 0 (bh b)).

Definition window (a bb : nat) (key : list (list V)) : list (list V) :=
  map (fun row => firstn (2 * r + 1) (skipn bb row)) (firstn (2 * r + 1) (skipn a key)).
Definition block_vals (key : list (list V)) : list (list V) :=
  map (fun a => map (fun bb => f (window a bb key)) (seq 0 (length (hd [] key) - 2 * r)))
      (seq 0 (length key - 2 * r)).
Definition Inv (c : cacheT) : Prop := forall k v, In (k, v) c -> v = block_vals k.

Lemma lookup_sound k c v : Inv c -> lookup k c = Some v -> v = block_vals k.
Proof.
  intros HI. induction c as [|[k' v'] c IH]; cbn; [discriminate|].
  destruct (key_eqb k k') eqn:E.
  - intros [= <-]. apply key_eqb_spec in E. subst k'. apply HI. left; reflexivity.
  - apply IH. intros k0 v0 H0. apply HI. right; exact H0.
Qed.

(* ---------- list plumbing ---------- *)
Lemma skipn_map_seq {A} (g : nat -> A) i s L : skipn i (map g (seq s L)) = map g (seq (s + i) (L - i)).
Proof.
  revert s L; induction i as [|i IH]; intros s L.
  - rewrite Nat.add_0_r, Nat.sub_0_r. reflexivity.
  - destruct L as [|L]; [reflexivity|]. cbn [seq map skipn]. rewrite IH. f_equal. f_equal; lia.
Qed.
Lemma firstn_map_seq {A} (g : nat -> A) w s L : w <= L -> firstn w (map g (seq s L)) = map g (seq s w).
Proof.
  revert s L; induction w as [|w IH]; intros s L H; [reflexivity|].
  destruct L as [|L]; [lia|]. cbn [seq map firstn]. f_equal. apply IH. lia.
Qed.
Lemma map_seq_shift {A} (g : nat -> A) s w : map g (seq s w) = map (fun j => g (s + j)) (seq 0 w).
Proof.
  revert g s; induction w as [|w IH]; intros g s; [reflexivity|].
  cbn [seq map]. rewrite Nat.add_0_r. f_equal.
  rewrite (IH g (S s)), (IH (fun j => g (s + j)) 1). apply map_ext. intros j. f_equal. lia.
Qed.
Lemma nth_map_seq {A} (g : nat -> A) n c dd : c < n -> nth c (map g (seq 0 n)) dd = g c.
Proof.
  intros H. rewrite (nth_indep _ dd (g 0)) by (rewrite map_length, seq_length; exact H).
  rewrite map_nth, seq_nth by exact H. reflexivity.
Qed.

Lemma idx_window n s L a : a + (2 * r + 1) <= L ->
  firstn (2 * r + 1) (skipn a (idx n s L)) = idx n (s + a) (2 * r + 1).
Proof.
  intros H. unfold idx. rewrite skipn_map_seq, firstn_map_seq by lia. cbn [plus].
  rewrite map_seq_shift. apply map_ext. intros j. f_equal. lia.
Qed.

Lemma window_gather curr rs cs a bb :
  window a bb (gather curr rs cs) =
  gather curr (firstn (2 * r + 1) (skipn a rs)) (firstn (2 * r + 1) (skipn bb cs)).
Proof.
  unfold window, gather. rewrite skipn_map, firstn_map, map_map.
  apply map_ext. intros i. rewrite skipn_map, firstn_map. reflexivity.
Qed.

Lemma key_dims curr b : 1 <= bh b ->
  length (key_of curr b) = bh b + 2 * r /\ length (hd [] (key_of curr b)) = bw b + 2 * r.
Proof.
  intros Hh. unfold key_of, gather, idx. rewrite !map_length, seq_length. split; [reflexivity|].
  destruct (bh b + 2 * r) as [|m] eqn:E; [lia|]. cbn [seq map hd]. rewrite !map_length, seq_length. reflexivity.
Qed.

Lemma block_vals_spec curr b : 1 <= bh b -> block_vals (key_of curr b) = spec_block curr b.
Proof.
  intros Hh. unfold block_vals. destruct (key_dims curr b Hh) as [-> ->].
  replace (bh b + 2 * r - 2 * r) with (bh b) by lia. replace (bw b + 2 * r - 2 * r) with (bw b) by lia.
  unfold spec_block. apply map_ext_in. intros a Ha. apply in_seq in Ha.
  apply map_ext_in. intros bb Hbb. apply in_seq in Hbb.
  unfold key_of. rewrite window_gather, !idx_window by lia. unfold spec_cell.
  replace (r0 b + R - r + a) with (r0 b + a + R - r) by lia.
  replace (c0 b + C - r + bb) with (c0 b + bb + C - r) by lia. reflexivity.
Qed.

(* ---------- post-condition ---------- *)
Definition Post (curr : grid) (b : block) (next : grid) (res : grid * cacheT) : Prop :=
  let '(next', cache') := res in
  Inv cache' /\
  (forall i j, inb b i j = true -> next' i j = spec_cell curr i j) /\
  (forall i j, inb b i j = false -> next' i j = next i j).

Lemma write_spec_block curr next b i j : inb b i j = true ->
  write next b (spec_block curr b) i j = spec_cell curr i j.
Proof.
  intros Hin. unfold write. rewrite Hin. unfold spec_block.
  unfold inb in Hin. assert (r0 b <= i < r0 b + bh b /\ c0 b <= j < c0 b + bw b) as [Hi Hj] by lia.
  rewrite (nth_map_seq (fun a => map (fun bb => spec_cell curr (r0 b + a) (c0 b + bb)) (seq 0 (bw b)))) by lia.
  rewrite (nth_map_seq (fun bb => spec_cell curr (r0 b + (i - r0 b)) (c0 b + bb))) by lia.
  f_equal; lia.
Qed.

Lemma read_spec curr next b : (forall i j, inb b i j = true -> next i j = spec_cell curr i j) ->
  read next b = spec_block curr b.
Proof.
  intros H. unfold read, gather, spec_block.
  rewrite (map_seq_shift _ (r0 b)). apply map_ext_in. intros a Ha. apply in_seq in Ha.
  rewrite (map_seq_shift _ (c0 b)). apply map_ext_in. intros bb Hbb. apply in_seq in Hbb.
  apply H. unfold inb. lia.
Qed.

Lemma run_list_post curr rec bs :
  (forall b, In b bs -> empty b = false -> forall n c, Inv c -> Post curr b n (rec b n c)) ->
  forall next cache, Inv cache ->
  let '(n', c') := run_list rec bs next cache in
  Inv c' /\
  (forall i j, existsb (fun b => inb b i j) bs = true -> n' i j = spec_cell curr i j) /\
  (forall i j, existsb (fun b => inb b i j) bs = false -> n' i j = next i j).
Proof.
  induction bs as [|b bs IH]; intros Hrec next cache HI.
  - cbn. split; [exact HI|split; [intros; discriminate|intros; reflexivity]].
  - cbn [run_list].
    assert (Hb : let '(n1, c1) := if empty b then (next, cache) else rec b next cache in
                 Inv c1 /\ (forall i j, inb b i j = true -> n1 i j = spec_cell curr i j) /\
                 (forall i j, inb b i j = false -> n1 i j = next i j)).
    { destruct (empty b) eqn:Ee.
      - split; [exact HI|split; [|intros; reflexivity]]. intros i j Hin. unfold inb, empty in *. lia.
      - specialize (Hrec b (or_introl eq_refl) Ee next cache HI). unfold Post in Hrec.
        destruct (rec b next cache) as [n1 c1]. exact Hrec. }
    destruct (if empty b then (next, cache) else rec b next cache) as [n1 c1].
    destruct Hb as (I1 & A1 & B1).
    specialize (IH (fun b' Hb' => Hrec b' (or_intror Hb')) n1 c1 I1).
    destruct (run_list rec bs n1 c1) as [n' c']. destruct IH as (I' & A' & B').
    split; [exact I'|]. split.
    + intros i j Hex. cbn [existsb] in Hex.
      destruct (existsb (fun b0 => inb b0 i j) bs) eqn:Eb; [apply A'; exact Eb|].
      rewrite B' by exact Eb. apply A1. destruct (inb b i j); [reflexivity|discriminate].
    + intros i j Hex. cbn [existsb] in Hex. apply orb_false_iff in Hex as [H1 H2].
      rewrite B' by exact H2. apply B1. exact H1.
Qed.

Lemma quads_cover b i j : existsb (fun q => inb q i j) (quads b) = inb b i j.
Proof.
  unfold quads. cbn [existsb]. unfold inb. cbn [r0 bh c0 bw].
  assert (H1 : (bh b + 1) / 2 <= bh b) by lia.
  assert (H2 : (bw b + 1) / 2 <= bw b) by lia.
  set (h1 := (bh b + 1) / 2) in *. set (w1 := (bw b + 1) / 2) in *. lia.
Qed.

Lemma update_state_ok curr :
  forall fuel b next cache,
    bh b + bw b <= fuel -> 1 <= bh b -> 1 <= bw b -> Inv cache ->
    Post curr b next (update_state fuel curr b next cache).
Proof.
  induction fuel as [|k IH]; intros b next cache Hf Hh Hw HI; [lia|].
  cbn [update_state].
  pose proof (block_vals_spec curr b Hh) as Hbv.
  destruct (lookup (key_of curr b) cache) as [vals|] eqn:EL.
  - apply lookup_sound in EL; [|exact HI]. rewrite Hbv in EL. subst vals.
    unfold Post. split; [exact HI|]. split.
    + intros i j Hin. apply write_spec_block. exact Hin.
    + intros i j Hin. unfold write. rewrite Hin. reflexivity.
  - assert (Hinner : Post curr b next
              (if (1 <? bh b) || (1 <? bw b) then run_list (update_state k curr) (quads b) next cache
               else (write next b [[f (key_of curr b)]], cache))).
    { destruct ((1 <? bh b) || (1 <? bw b)) eqn:Esz.
      - pose proof (run_list_post curr (update_state k curr) (quads b)) as HR.
        assert (Hq : forall q, In q (quads b) -> empty q = false -> forall n c, Inv c ->
                       Post curr q n (update_state k curr q n c)).
        { intros q Hq Hne n c Hc.
          assert (H1 : (bh b + 1) / 2 <= bh b) by lia.
          assert (H2 : (bw b + 1) / 2 <= bw b) by lia.
          assert (H3 : 1 < bh b -> (bh b + 1) / 2 < bh b) by lia.
          assert (H4 : 1 < bw b -> (bw b + 1) / 2 < bw b) by lia.
          assert (H5 : 1 <= (bh b + 1) / 2) by lia.
          assert (H6 : 1 <= (bw b + 1) / 2) by lia.
          unfold empty in Hne. unfold quads in Hq. cbn [In] in Hq.
          set (h1 := (bh b + 1) / 2) in *. set (w1 := (bw b + 1) / 2) in *.
          destruct Hq as [<-|[<-|[<-|[<-|[]]]]]; cbn [bh bw] in *; apply IH; cbn [bh bw]; try exact Hc; lia. }
        specialize (HR Hq next cache HI).
        destruct (run_list (update_state k curr) (quads b) next cache) as [n' c'].
        destruct HR as (I' & A' & B'). unfold Post. split; [exact I'|]. split.
        + intros i j Hin. apply A'. rewrite quads_cover. exact Hin.
        + intros i j Hin. apply B'. rewrite quads_cover. exact Hin.
      - assert (bh b = 1 /\ bw b = 1) as [E1 E2] by lia.
        unfold Post. split; [exact HI|]. split.
        + intros i j Hin. unfold write. rewrite Hin.
          unfold inb in Hin. rewrite E1, E2 in Hin.
          assert (i = r0 b /\ j = c0 b) as [-> ->] by lia. rewrite !Nat.sub_diag. cbn [nth].
          unfold spec_cell, key_of. rewrite E1, E2. replace (1 + 2 * r) with (2 * r + 1) by lia. reflexivity.
        + intros i j Hin. unfold write. rewrite Hin. reflexivity. }
    destruct (if (1 <? bh b) || (1 <? bw b) then _ else _) as [next' cache'].
    destruct Hinner as (I & A & Bx).
    unfold Post. split; [|split; assumption].
    intros k0 v0 [H0|H0]; [|apply I; exact H0].
    injection H0 as <- <-. rewrite Hbv. apply read_spec. exact A.
Qed.

(* the top-level _step: split the whole grid into quadrants and update each *)
Definition step (curr next : grid) (cache : cacheT) : grid * cacheT :=
  run_list (update_state (R + C) curr) (quads (B 0 R 0 C)) next cache.

Theorem step_transparent curr next cache : Inv cache ->
  let '(next', cache') := step curr next cache in
  Inv cache' /\ forall i j, i < R -> j < C -> next' i j = spec_cell curr i j.
Proof.
  intros HI. unfold step.
  pose proof (run_list_post curr (update_state (R + C) curr) (quads (B 0 R 0 C))) as HR.
  assert (Hq : forall q, In q (quads (B 0 R 0 C)) -> empty q = false -> forall n c, Inv c ->
                 Post curr q n (update_state (R + C) curr q n c)).
  { intros q Hq Hne n c Hc.
    assert (H1 : (R + 1) / 2 <= R) by lia.
    assert (H2 : (C + 1) / 2 <= C) by lia.
    unfold empty in Hne. unfold quads in Hq. cbn [In bh bw r0 c0] in Hq.
    set (h1 := (R + 1) / 2) in *. set (w1 := (C + 1) / 2) in *.
    destruct Hq as [<-|[<-|[<-|[<-|[]]]]]; cbn [bh bw] in *; apply update_state_ok; cbn [bh bw]; try exact Hc; lia. }
  specialize (HR Hq next cache HI).
  destruct (run_list (update_state (R + C) curr) (quads (B 0 R 0 C)) next cache) as [n' c'].
  destruct HR as (I' & A' & _). split; [exact I'|].
  intros i j Hi Hj. apply A'. rewrite quads_cover. unfold inb. cbn [r0 bh c0 bw]. lia.
Qed.
End Memo2D.

Print Assumptions step_transparent.
