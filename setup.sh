#!/bin/bash
# Build the Coq development from clean (full .vo build) and run the hygiene gate.
set -e
cd "$(dirname "$0")"
# serialise with running checks (they regenerate files under coq/gen under the same lock)
if [ -z "$VERIF_LOCK_HELD" ]; then export VERIF_LOCK_HELD=1; exec flock "$(pwd)/.lock" bash "$(pwd)/setup.sh" "$@"; fi
export PYTHONPATH=/repo PYTHONHASHSEED=0 MPLBACKEND=Agg
mkdir -p coq/gen evidence replays
# regenerated data (C15 rule tables) must exist before the build
if [ -f harness/gen_tables.py ]; then /venv/bin/python harness/gen_tables.py; fi
if [ -f harness/translate.py ]; then /venv/bin/python harness/translate.py; fi
cd coq
{ echo "-Q . CPL"; echo "-arg -w -arg -notation-overridden,-deprecated-hint-without-locality,-deprecated-instance-without-locality,-ambiguous-paths"; 
  find Model Proofs Spec Properties Corr -name '*.v' 2>/dev/null | sort | grep -Ev "${SETUP_EXCLUDE_RE:-^$}"; 
  [ -f gen/GenTables.v ] && echo gen/GenTables.v; ls gen/GenFuns*.v 2>/dev/null; [ -d GenProps ] && find GenProps -name '*.v' | sort; } > _CoqProject
coq_makefile -f _CoqProject -o Makefile >/dev/null
if [ "$1" = "clean" ]; then make clean >/dev/null 2>&1 || true; fi
ulimit -s unlimited 2>/dev/null || true
timeout 3000 make -k -j16 2>&1 | tail -n 30
if [ ${PIPESTATUS[0]} -ne 0 ]; then echo "WARNING: some Coq files failed to build (the checks of the properties that need them will report it)"; fi
cd ..
# hygiene gate: no axioms of our own, no admitted proofs, no switched-off checks, no Variable outside a Section
/venv/bin/python tools/hygiene.py || exit 2
/venv/bin/python -m compileall -q harness check >/dev/null
echo "setup ok"
