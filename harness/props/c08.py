"""C08 — Totalistic rule numbering: correspondence generators and runners.

Real cpl.totalistic_rule / cpl.TotalisticRule on 1D arrays (sizes 3, 5, 7), 2D Moore blocks (3x3, 5x5) and
masked von Neumann blocks (r = 1, 2; np.ma.masked_array with the mask evolve2d builds), dtypes int32 and uint8,
against Model/Totalistic.v.  ValueError is compared as a class (named by the property)."""
import os
import numpy as np
from harness.driver import call_impl, cz, cnat, cN, cbool, czlist, clist, copt, cres

ID = 'C08'
COQ_IMPORTS = 'From CPL Require Import Model.Base Model.Totalistic Corr.C08.\nOpen Scope Z_scope.'
if os.environ.get('VERIF_C08_STRICT'):
    # compare the "ood/..." buckets too (behaviour outside the property's domain; not part of the regular check)
    COQ_IMPORTS += '\nDefinition check_case := check_case_strict.'
NONTRIVIAL_RULE = ('k in {2,3,4,5,10,16,36} x shapes {1D 3/5/7, Moore 3x3/5x5, masked von Neumann r=1/2} x dtypes '
                   '{int32, uint8} x contents {all 0, all k-1, random} x rule numbers {0, 1, k^j, random, largest in '
                   'range, smallest out of range, far out of range}; complete sweep of k=2, n=3 (8 contents x rules '
                   '0..17) and of all sums for k=3, n=3; class_sequence: one TotalisticRule object called on 2-5 '
                   'neighbourhoods of different sizes/forms, rule number placed below / between / above the bounds of '
                   'the smallest and largest size, sizes ascending / descending / random; non-trivial = the call returned a digit or raised ValueError '
                   'on a well-formed input (2<=k<=36, contents in 0..k-1); distinct = distinct case dicts')
EXHAUSTIVE = {'quick': False, 'thorough': False}
NOTES = ['k = 2, n = 3 enumerated completely (all contents, all rule numbers 0..17) in both tiers',
         'buckets ood/* (contents outside 0..k-1, k outside 2..36) lie outside the property: they are run and the '
         'model computes them (Python string indexing from the end / IndexError; uint64 wrap for uint8 arrays; '
         'ValueError of np.base_repr) but they are compared only with VERIF_C08_STRICT=1']
ASSUMPTIONS = ['rule numbers are non-negative Python ints (N in the model); k is a Python int',
               'digit characters are modelled by their values: base_repr writes digits[v], int(ch, k) reads v back',
               'np.sum of an int32 array is int64 and of a uint8 array is uint64 (no overflow below 2^63)',
               'masked arrays: .size counts masked entries, np.sum skips them (checked here against numpy itself)']

KS = [2, 3, 4, 5, 10, 16, 36]
SHAPES = [('1d', 3), ('1d', 5), ('1d', 7), ('moore', 1), ('moore', 2), ('vn', 1), ('vn', 2)]
DTYPES = ['int32', 'uint8']


def _size(shape):
    kind, p = shape
    return p if kind == '1d' else (2 * p + 1) ** 2


def _vn_mask(r):
    """the von Neumann mask exactly as evolve2d builds it (ca_functions2d.py 361-366)"""
    m = np.zeros((2 * r + 1, 2 * r + 1), dtype=bool)
    for i in range(len(m)):
        mask_size = np.absolute(r - i)
        m[i][:mask_size] = 1
        if mask_size != 0:
            m[i][-mask_size:] = 1
    return m


def _case(kind, shape, dtype, cells, k, rule, cls):
    return {'kind': kind, 'shape': list(shape), 'dtype': dtype, 'cells': [int(x) for x in cells], 'k': int(k),
            'rule': int(rule), 'cls': bool(cls)}


def _contents(rng, n, k, which):
    if which == 'zeros':
        return [0] * n
    if which == 'max':
        return [k - 1] * n
    if which == 'onehot':
        c = [0] * n
        c[rng.randrange(n)] = rng.randint(1, k - 1)
        return c
    return [rng.randint(0, k - 1) for _ in range(n)]


def _rule(rng, n, k, which):
    W = n * (k - 1) + 1
    top = k ** W
    if which == 'zero':
        return 0
    if which == 'one':
        return 1
    if which == 'kpow':
        return k ** rng.randrange(W)
    if which == 'random':
        return rng.randrange(top)
    if which == 'random_short':     # fewer digits than W: exercises zfill
        return rng.randrange(k ** rng.randint(1, W))
    if which == 'max':
        return top - 1
    if which == 'min_out':
        return top
    if which == 'far_out':
        return rng.choice([top * k ** rng.randint(1, 6) + rng.randrange(top), top ** 3 if W < 100 else top * k ** 7,
                           top + rng.randrange(1, top)])
    raise KeyError(which)


def _sequences(rng, count):
    """class_sequence: one rule object, 2-5 calls on neighbourhoods of DIFFERENT sizes/forms.  The rule number is
    placed relative to the bounds k^W of the smallest and the largest size of the sequence; the order of the sizes
    is ascending, descending or random, so that the first call is the accepting one in some cases and the
    rejecting one in others."""
    places = ['in_both', 'exactly_small_digits', 'between', 'between_low', 'between_high', 'out_both', 'zero']
    orders = ['ascending', 'descending', 'random']
    for i in range(count):
        k = rng.choice([2, 2, 3, 3, 4, 5, 10, 16, 36])
        pool = SHAPES if k <= 5 else [s for s in SHAPES if _size(s) <= 9]      # Coq cost of 25 cells with big k
        m = rng.randint(2, 5)
        # distinct sizes first, then (if m is larger than the number of sizes) other forms of the same size
        by_size = {}
        for s in pool:
            by_size.setdefault(_size(s), []).append(s)
        sizes = rng.sample(sorted(by_size), min(m, len(by_size)))
        shapes = [rng.choice(by_size[z]) for z in sizes]
        while len(shapes) < m:
            shapes.append(rng.choice(pool))
        order = orders[i % 3]
        if order == 'ascending':
            shapes.sort(key=_size)
        elif order == 'descending':
            shapes.sort(key=_size, reverse=True)
        else:
            rng.shuffle(shapes)
        n_small, n_large = min(map(_size, shapes)), max(map(_size, shapes))
        lo, hi = k ** (n_small * (k - 1) + 1), k ** (n_large * (k - 1) + 1)
        place = places[(i // 3) % len(places)]
        if place == 'in_both':
            rule = rng.randrange(lo)
        elif place == 'exactly_small_digits':
            rule = rng.randrange(lo // k, lo)
        elif place == 'between':
            rule = rng.randrange(lo, hi)
        elif place == 'between_low':
            rule = lo + rng.randrange(0, 3)
        elif place == 'between_high':
            rule = hi - 1 - rng.randrange(0, 3)
        elif place == 'out_both':
            rule = hi + rng.choice([0, 1, rng.randrange(hi)])
        else:
            rule = 0
        seq = [{'shape': list(s), 'dtype': rng.choice(DTYPES),
                'cells': _contents(rng, _size(s), k, rng.choice(['zeros', 'max', 'random', 'random', 'onehot']))}
               for s in shapes]
        yield {'kind': 'class_sequence/%s/%s' % (place, order), 'op': 'seq', 'k': k, 'rule': rule, 'seq': seq}


RULE_KINDS = ['zero', 'one', 'kpow', 'random', 'random_short', 'max', 'min_out', 'far_out']


def generate(rng, tier):
    reps = 1 if tier == 'quick' else 5
    # complete small domain: k = 2, n = 3, all contents, all rule numbers 0..15 and 16, 17 (rejected)
    for v in range(8):
        cells = [(v >> 2) & 1, (v >> 1) & 1, v & 1]
        for rule in range(18):
            yield _case('sweep/k2n3', ('1d', 3), rng.choice(DTYPES), cells, 2, rule, rng.random() < 0.3)
    # every sum 0..6 for k = 3, n = 3 on rule 777 and on the digits-all-distinct rule 0120120 (base 3)
    for a in range(3):
        for b in range(3):
            for c in range(3):
                for rule in (777, int('0120120', 3), 3 ** 7 - 1):
                    yield _case('sweep/k3n3', ('1d', 3), 'int32', [a, b, c], 3, rule, False)
    # the grid of the design (shuffled: the k = 36, 5x5 cases cost Coq ~0.3 s each and the driver cuts the case
    # list into consecutive shards that are checked in parallel)
    grid = []
    for _ in range(reps):
        for k in KS:
            for shape in SHAPES:
                n = _size(shape)
                for dtype in DTYPES:
                    for cont in ('zeros', 'max', 'random', 'random'):
                        for rk in RULE_KINDS:
                            cells = _contents(rng, n, k, cont)
                            rule = _rule(rng, n, k, rk)
                            grid.append(_case('%s/%s' % (shape[0], rk), shape, dtype, cells, k, rule,
                                              rng.random() < 0.35))
    rng.shuffle(grid)
    for c in grid:
        yield c
    # random extra: other k in 2..36, one-hot contents
    for _ in range(150 * reps):
        k = rng.randint(2, 36)
        shape = rng.choice(SHAPES)
        n = _size(shape)
        cells = _contents(rng, n, k, rng.choice(['onehot', 'random']))
        rule = _rule(rng, n, k, rng.choice(RULE_KINDS))
        yield _case('anyk/%s' % shape[0], shape, rng.choice(DTYPES), cells, k, rule, rng.random() < 0.35)
    # ONE TotalisticRule object reused on neighbourhoods of different sizes / forms
    for c in _sequences(rng, 200 * reps):
        yield c
    # outside the quantified domain (still modelled): contents above k-1 / negative, k outside 2..36
    for _ in range(40 * reps):
        k = rng.choice([2, 3, 4, 10])
        shape = rng.choice(SHAPES)
        n = _size(shape)
        dtype = rng.choice(DTYPES)
        lo = 0 if dtype == 'uint8' else -2
        cells = [rng.randint(lo, 2 * k) for _ in range(n)]
        yield _case('ood/contents', shape, dtype, cells, k, _rule(rng, n, k, rng.choice(['random', 'max', 'one'])),
                    rng.random() < 0.3)
    for k in (0, 1, 37, 40, 100):
        for shape in (('1d', 3), ('vn', 1)):
            n = _size(shape)
            for rule in (0, 5, 10 ** 9):
                yield _case('ood/base', shape, rng.choice(DTYPES), [0] * n, k, rule, rng.random() < 0.3)


def _array(c):
    kind, p = c['shape']
    a = np.array(c['cells'], dtype=getattr(np, c['dtype']))
    if kind == '1d':
        return a
    a = a.reshape(2 * p + 1, 2 * p + 1)
    if kind == 'moore':
        return a
    return np.ma.masked_array(a, _vn_mask(p))      # as evolve2d's _get_neighbourhood does


def run_impl(c):
    import cellpylib as cpl
    if c.get('op') == 'seq':
        arrays = [_array(it) for it in c['seq']]
        made = call_impl(lambda: cpl.TotalisticRule(c['k'], c['rule']))
        if made[0] != 'ok':
            return [list(made)] * len(arrays)
        obj = made[1]                               # ONE object for the whole sequence
        return [list(call_impl(lambda: int(obj(a, i, 1)))) for i, a in enumerate(arrays)]
    arr = _array(c)
    if c['cls']:
        r = call_impl(lambda: int(cpl.TotalisticRule(c['k'], c['rule'])(arr, (0, 0), 1)))
    else:
        r = call_impl(lambda: int(cpl.totalistic_rule(arr, c['k'], c['rule'])))
    return list(r)


def cNbig(n, chunk=512):
    """N literal; big ones as chunked hexadecimal (a long decimal literal takes Coq seconds to parse)"""
    n = int(n)
    if n < 10 ** 18:
        return cN(n)
    h = '%x' % n
    parts = []
    while h:
        parts.append(h[-chunk:])
        h = h[:-chunk]
    parts.reverse()
    t = '0x%s' % parts[0]
    for p in parts[1:]:
        t = '(N.shiftl %s %d + 0x%s)' % (t, 4 * chunk, p)
    return '(%s)%%N' % t


def _mask_terms(shape):
    kind, p = shape
    if kind == 'vn':
        return ('(Some %s)' % clist([bool(x) for x in _vn_mask(p).ravel()], cbool), '(Some %s)' % cnat(p))
    return 'None', 'None'


def to_coq(c, obs):
    if c.get('op') == 'seq':
        items = []
        for it in c['seq']:
            mask, vn = _mask_terms(it['shape'])
            items.append('(Item %s %s %s %s)' % (cbool(it['dtype'] == 'uint8'), czlist(it['cells']), mask, vn))
        return '(CSeq %s %s [%s] %s)' % (cN(c['k']), cNbig(c['rule']), '; '.join(items),
                                         clist(obs, lambda o: cres(o, cz)))
    mask, vn = _mask_terms(c['shape'])
    return '(CTot %s %s %s %s %s %s %s %s)' % (cbool(c['cls']), cbool(c['dtype'] == 'uint8'), czlist(c['cells']),
                                             mask, vn, cN(c['k']), cNbig(c['rule']), cres(obs, cz))


def _in_domain(c):
    if c.get('op') == 'seq':
        return 2 <= c['k'] <= 36 and all(0 <= x <= c['k'] - 1 for it in c['seq'] for x in it['cells'])
    return 2 <= c['k'] <= 36 and all(0 <= x <= c['k'] - 1 for x in c['cells'])


def nontrivial(c, obs):
    if c.get('op') == 'seq':
        return _in_domain(c) and all(o[0] == 'ok' or o[1] == 'ValueError' for o in obs)
    return _in_domain(c) and (obs[0] == 'ok' or obs[1] == 'ValueError')


def oracle(c, obs):
    """The property itself, evaluated on the implementation's answer: (rule // k**s) % k, ValueError iff the rule
    number needs more than size*(k-1)+1 digits; for a sequence, on every call separately."""
    if not _in_domain(c):
        return None
    if c.get('op') == 'seq':
        if len(obs) != len(c['seq']):
            return 'number of answers differs from the number of calls'
        for i, (it, o) in enumerate(zip(c['seq'], obs)):
            msg = oracle(dict(it, k=c['k'], rule=c['rule']), o)
            if msg:
                return 'call %d of the same TotalisticRule object: %s' % (i, msg)
        return None
    k, rule = c['k'], c['rule']
    kind, p = c['shape']
    n = len(c['cells'])
    if kind == 'vn':
        m = _vn_mask(p).ravel()
        s = sum(x for x, b in zip(c['cells'], m) if not b)
    else:
        s = sum(c['cells'])
    if rule >= k ** (n * (k - 1) + 1):
        if obs[0] != 'exc' or obs[1] != 'ValueError':
            return 'rule number needs more than n(k-1)+1 digits: expected ValueError'
        return None
    if obs[0] != 'ok':
        return 'rule number in range: expected a digit, got %s' % obs[1]
    want = (rule // k ** s) % k
    if obs[1] != want:
        return 'expected (rule // k**s) %% k = %d with s = %d' % (want, s)
    if not 0 <= obs[1] <= k - 1:
        return 'result outside 0..k-1'
    return None


def shrink(c):
    if c.get('op') == 'seq':
        seq = c['seq']
        if len(seq) > 2:
            for i in range(len(seq)):
                yield dict(c, seq=seq[:i] + seq[i + 1:])
        for i, it in enumerate(seq):
            if it['dtype'] == 'uint8':
                yield dict(c, seq=seq[:i] + [dict(it, dtype='int32')] + seq[i + 1:])
            if any(it['cells']):
                yield dict(c, seq=seq[:i] + [dict(it, cells=[0] * len(it['cells']))] + seq[i + 1:])
        return
    if c['cls']:
        yield dict(c, cls=False)
    if c['dtype'] == 'uint8':
        yield dict(c, dtype='int32')
    kind, p = c['shape']
    k = c['k']
    if kind != '1d' or p > 3:
        n = len(c['cells'])
        W_old = n * (k - 1) + 1
        # keep the rule number on the same side of the new bound
        new_top = k ** (3 * (k - 1) + 1)
        rule = c['rule'] % new_top if c['rule'] < k ** W_old else new_top + c['rule'] % new_top
        yield dict(c, shape=['1d', 3], cells=c['cells'][:3], rule=rule)
    if any(c['cells']):
        yield dict(c, cells=[0] * len(c['cells']))
        cells = list(c['cells'])
        i = next(i for i, x in enumerate(cells) if x)
        cells[i] -= 1 if cells[i] > 0 else -1
        yield dict(c, cells=cells)
