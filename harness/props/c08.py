"""C08 — Totalistic rule numbering: correspondence generators and runners.

Real cpl.totalistic_rule / cpl.TotalisticRule against Model/Totalistic.v on
  * 1D arrays (sizes 1, 2, 3, 5, 7, 9), 2D Moore blocks (3x3, 5x5, 7x7) and masked von Neumann blocks (r = 1, 2, 3;
    np.ma.masked_array with the mask evolve2d builds; the masked corners hold arbitrary colours);
  * every integer dtype (int8/16/32/64, uint8/16/32/64) and bool (k = 2);
  * the class with random (c, t), one object reused over neighbourhoods of different sizes (class_sequence), and the
    class driven by cpl.evolve / cpl.evolve2d (r = 1, 2; Moore and von Neumann) against the plain-engine models
    (Model/Evolve1D.v, Model/Evolve2D.v) with the totalistic model as the rule.
  * onehot/*: rule = k**m (and k**m - 1, k**m + 1, 2*k**m) against neighbourhoods whose sum is exactly m, m-1, m+1, for
    every k in 2..36 and every digit position of the 3-cell window, every position below 2**64, and samples of the
    larger shapes;  huge/*: 1D windows of 478..5000 cells with rule numbers of thousands of digits (k = 10 at and
    above 10**4300, where CPython's int->str limit lies).
ValueError is compared as a class (named by the property)."""
import os
import numpy as np
from harness.driver import call_impl, cz, cnat, cN, cbool, czlist, cgrid, chist, clist, copt, cres

ID = 'C08'
COQ_IMPORTS = 'From CPL Require Import Model.Base Model.Totalistic Corr.C08.\nOpen Scope Z_scope.'
if os.environ.get('VERIF_C08_STRICT'):
    # compare the "ood/..." buckets too (behaviour outside the property's domain; not part of the regular check)
    COQ_IMPORTS += '\nDefinition check_case := check_case_strict.'
NONTRIVIAL_RULE = ('k in {2,3,4,5,10,16,36} x shapes {1D 1/2/3/5/7/9, Moore 3x3/5x5/7x7, masked von Neumann r=1/2/3} x '
                   'dtypes {int8..int64, uint8..uint64, bool} x contents {all 0, all k-1, random} x rule numbers {0, 1, '
                   'k^j, random, largest in range, smallest out of range, far out of range}; complete sweep of k=2, n=3 '
                   '(8 contents x rules 0..17) and of all sums for k=3, n=3; dtype bucket with sums above 127 / 255; '
                   'class calls with random (c, t); class_sequence: one TotalisticRule object on 2-5 neighbourhoods of '
                   'different sizes/forms, rule number below / between / above the bounds of the smallest and largest '
                   'size, sizes ascending / descending / random; evolve / evolve2d with TotalisticRule as apply_rule; '
                   'onehot: rule k**m vs sum m-1/m/m+1 for all k and digit positions; huge: windows of 478..5000 cells; '
                   'non-trivial = every answer is a digit or ValueError on a well-formed input (2<=k<=36, contents in '
                   '0..k-1); distinct = distinct case dicts')
EXHAUSTIVE = {'quick': False, 'thorough': False}
NOTES = ['k = 2, n = 3 enumerated completely (all contents, all rule numbers 0..17) in both tiers',
         'buckets ood/* (contents outside 0..k-1, k outside 2..36) lie outside the property: they are run and the '
         'model computes them (Python string indexing from the end / IndexError; uint64 wrap for unsigned arrays; '
         'ValueError of np.base_repr) but they are compared only with VERIF_C08_STRICT=1',
         'float arrays are outside the model: the code raises TypeError on every float neighbourhood (np.sum is a '
         'float, a str cannot be indexed by it); see notes/agents/C08.md',
         'k as a numpy scalar (bucket kscalar/*): accepted by the code only while the rule number fits the scalar\'s '
         'dtype and the array is signed; sampled with int16/int32/int64 k, rule < 2^15, signed arrays']
ASSUMPTIONS = ['rule numbers are non-negative Python ints (N in the model); k is a Python int (or a numpy int that '
               'can hold the rule number)',
               'neighbourhoods have an integer or bool dtype',
               'digit characters are modelled by their values: base_repr writes digits[v], int(ch, k) reads v back',
               'np.sum of a signed / bool array is int64 and of an unsigned array is uint64 (no overflow below 2^63)',
               'masked arrays: .size counts masked entries, np.sum skips them (checked here against numpy itself)',
               'the clause "TotalisticRule gives the same answers" rests on this correspondence alone: the model '
               'defines the class call as the function call']

KS = [2, 3, 4, 5, 10, 16, 36]
SHAPES = [('1d', 1), ('1d', 2), ('1d', 3), ('1d', 5), ('1d', 7), ('1d', 9), ('moore', 1), ('moore', 2), ('moore', 3),
          ('vn', 1), ('vn', 2), ('vn', 3)]
SIGNED = ['int8', 'int16', 'int32', 'int64']
UNSIGNED = ['uint8', 'uint16', 'uint32', 'uint64']
DTYPES = SIGNED + UNSIGNED          # 'bool' is added where k = 2
HEAVY = 30                           # shapes with more cells than this only for k <= 10 (Coq cost ~ digits^3)


def _store_rule(rule):
    """rule numbers above ~4000 decimal digits are kept in the case dict as a hex string: CPython refuses to
    print such an int in decimal (json.dump of a replay), and that limit must stay at its default here"""
    rule = int(rule)
    return rule if rule < 1 << 13000 else hex(rule)


def _R(c):
    r = c['rule']
    return int(r, 16) if isinstance(r, str) else r


def _dtypes(k):
    return DTYPES + (['bool'] if k == 2 else [])


def _size(shape):
    kind, p = shape
    return p if kind == '1d' else (2 * p + 1) ** 2


def _shapes(k):
    return [s for s in SHAPES if _size(s) <= HEAVY or k <= 10]


def _vn_mask(r):
    """the von Neumann mask exactly as evolve2d builds it (ca_functions2d.py 361-366)"""
    m = np.zeros((2 * r + 1, 2 * r + 1), dtype=bool)
    for i in range(len(m)):
        mask_size = np.absolute(r - i)
        m[i][:mask_size] = 1
        if mask_size != 0:
            m[i][-mask_size:] = 1
    return m


def _ct(rng, shape):
    """the (c, t) arguments of a class call: what evolve / evolve2d would pass, at random"""
    c = rng.randrange(60) if shape[0] == '1d' else [rng.randrange(60), rng.randrange(60)]
    return c, rng.choice([1, 1, 2, 3, 7, 50, 1000])


def _item(rng, shape, dtype, cells):
    c, t = _ct(rng, shape)
    return {'shape': list(shape), 'dtype': dtype, 'cells': [int(x) for x in cells], 'c': c, 't': t}


def _case(rng, kind, shape, dtype, cells, k, rule, cls, ktype='int'):
    d = _item(rng, shape, dtype, cells)
    d.update({'kind': kind, 'op': 'one', 'k': int(k), 'rule': _store_rule(rule), 'cls': bool(cls), 'ktype': ktype})
    return d


def _contents(rng, n, k, which):
    if which == 'zeros':
        return [0] * n
    if which == 'max':
        return [k - 1] * n
    if which == 'onehot':
        c = [0] * n
        c[rng.randrange(n)] = rng.randint(1, k - 1)
        return c
    if which == 'corners':          # 2D: zero cross, non-zero corners (what a von Neumann mask hides)
        side = int(round(n ** 0.5))
        r = side // 2
        return [rng.randint(1, k - 1) if abs(i - r) + abs(j - r) > r else 0 for i in range(side) for j in range(side)]
    return [rng.randint(0, k - 1) for _ in range(n)]


def _rule(rng, n, k, which):
    W = n * (k - 1) + 1
    top = k ** W
    if which == 'zero':
        return 0
    if which == 'one':
        return 1
    if which == 'kpow':
        return k ** rng.randrange(W)
    if which == 'random':
        return rng.randrange(top)
    if which == 'random_short':     # fewer digits than W: exercises zfill
        return rng.randrange(k ** rng.randint(1, W))
    if which == 'max':
        return top - 1
    if which == 'min_out':
        return top
    if which == 'far_out':
        return rng.choice([top * k ** rng.randint(1, 6) + rng.randrange(top), top ** 3 if W < 100 else top * k ** 7,
                           top + rng.randrange(1, top)])
    raise KeyError(which)


RULE_KINDS = ['zero', 'one', 'kpow', 'random', 'random_short', 'max', 'min_out', 'far_out']


def _sequences(rng, count):
    """class_sequence: one rule object, 2-5 calls on neighbourhoods of DIFFERENT sizes/forms.  The rule number is
    placed relative to the bounds k^W of the smallest and the largest size of the sequence; the order of the sizes
    is ascending, descending or random, so that the first call is the accepting one in some cases and the
    rejecting one in others."""
    places = ['in_both', 'exactly_small_digits', 'between', 'between_low', 'between_high', 'out_both', 'zero']
    orders = ['ascending', 'descending', 'random']
    for i in range(count):
        k = rng.choice([2, 2, 3, 3, 4, 5, 10, 16, 36])
        pool = [s for s in SHAPES if _size(s) <= (49 if k <= 3 else 25 if k <= 5 else 9)]
        m = rng.randint(2, 5)
        by_size = {}
        for s in pool:
            by_size.setdefault(_size(s), []).append(s)
        sizes = rng.sample(sorted(by_size), min(m, len(by_size)))
        shapes = [rng.choice(by_size[z]) for z in sizes]
        while len(shapes) < m:
            shapes.append(rng.choice(pool))
        order = orders[i % 3]
        if order == 'ascending':
            shapes.sort(key=_size)
        elif order == 'descending':
            shapes.sort(key=_size, reverse=True)
        else:
            rng.shuffle(shapes)
        n_small, n_large = min(map(_size, shapes)), max(map(_size, shapes))
        lo, hi = k ** (n_small * (k - 1) + 1), k ** (n_large * (k - 1) + 1)
        place = places[(i // 3) % len(places)]
        if place == 'in_both':
            rule = rng.randrange(lo)
        elif place == 'exactly_small_digits':
            rule = rng.randrange(lo // k, lo)
        elif place == 'between':
            rule = rng.randrange(lo, hi)
        elif place == 'between_low':
            rule = lo + rng.randrange(0, 3)
        elif place == 'between_high':
            rule = hi - 1 - rng.randrange(0, 3)
        elif place == 'out_both':
            rule = hi + rng.choice([0, 1, rng.randrange(hi)])
        else:
            rule = 0
        seq = [_item(rng, s, rng.choice(_dtypes(k)),
                     _contents(rng, _size(s), k, rng.choice(['zeros', 'max', 'random', 'random', 'onehot'])))
               for s in shapes]
        yield {'kind': 'class_sequence/%s/%s' % (place, order), 'op': 'seq', 'k': k, 'rule': rule, 'seq': seq}


def _evolutions(rng, count):
    """cpl.evolve / cpl.evolve2d with apply_rule = TotalisticRule(k, rule): rule numbers in range, cells in 0..k-1"""
    for i in range(count):
        k = rng.choice([2, 3, 3, 4, 5, 10])
        dtype = rng.choice(_dtypes(k))
        T = rng.randint(2, 4)
        if i % 2 == 0:
            r = rng.choice([1, 1, 2, 3])
            N = rng.choice([2 * r + 1, 2 * r + 2, rng.randint(2 * r + 1, 12)])
            n = 2 * r + 1
            rule = _rule(rng, n, k, rng.choice(['random', 'random', 'max', 'kpow', 'random_short']))
            init = [rng.randint(0, k - 1) for _ in range(N)]
            yield {'kind': 'evolve/1d/r%d' % r, 'op': 'evolve1', 'k': k, 'rule': rule, 'r': r, 'dtype': dtype,
                   'init': init, 'T': T}
        else:
            r = rng.choice([1, 1, 2]) if k <= 5 else 1
            nb = rng.choice(['Moore', 'von Neumann'])
            R, C = rng.randint(2 * r + 1, 2 * r + 3), rng.randint(2 * r + 1, 2 * r + 3)
            n = (2 * r + 1) ** 2
            rule = _rule(rng, n, k, rng.choice(['random', 'random', 'max', 'kpow', 'random_short']))
            if T > 3:
                T = 3
            init = [[rng.randint(0, k - 1) for _ in range(C)] for _ in range(R)]
            yield {'kind': 'evolve/2d/%s/r%d' % (nb.replace(' ', ''), r), 'op': 'evolve2', 'k': k, 'rule': rule, 'r': r,
                   'nbhd': nb, 'dtype': dtype, 'init': init, 'T': T}


def _cells_with_sum(rng, shape, k, s):
    """cells in 0..k-1 of the given shape whose UNMASKED sum is exactly s (masked corners: arbitrary non-zero)"""
    kind, p = shape
    n = _size(shape)
    if kind == 'vn':
        free = [i * (2 * p + 1) + j for i in range(2 * p + 1) for j in range(2 * p + 1) if abs(i - p) + abs(j - p) <= p]
    else:
        free = list(range(n))
    assert 0 <= s <= len(free) * (k - 1)
    cells = [rng.randint(1, k - 1)] * n if kind == 'vn' else [0] * n
    for i in free:
        cells[i] = 0
    # random split of s over the free positions
    order = free[:]
    rng.shuffle(order)
    left = s
    for idx, i in enumerate(order):
        rest_cap = (len(order) - idx - 1) * (k - 1)
        lo = max(0, left - rest_cap)
        hi = min(k - 1, left)
        v = rng.randint(lo, hi)
        cells[i] = v
        left -= v
    assert left == 0
    return cells


def _reach(shape, k):
    """largest unmasked sum of the shape"""
    kind, p = shape
    return (2 * p * (p + 1) + 1 if kind == 'vn' else _size(shape)) * (k - 1)


ONEHOT_SHAPES = [('1d', 5), ('1d', 9), ('moore', 1), ('vn', 1), ('moore', 2), ('vn', 2)]


def _onehots(rng, tier):
    """onehot/...: rule = k**m (a single digit 1 at position m) against neighbourhoods whose sum is exactly m
    (answer 1), m-1 and m+1 (answer 0); and the neighbours k**m - 1, k**m + 1, 2*k**m of that rule number with sum m.
    Every k in 2..36, every position m of the 3-cell window, and a sample of positions of the larger shapes."""
    def one(k, shape, m, tag):
        reach = _reach(shape, k)
        out = []
        for s in (m - 1, m, m + 1):
            if 0 <= s <= reach:
                out.append((k ** m, s, 'pow/sum%+d' % (s - m)))
        variants = [(k ** m - 1, 'pow-1'), (k ** m + 1, 'pow+1'), (2 * k ** m, '2pow')]
        if tier == 'quick':
            variants = [rng.choice(variants)]
        for rule, nm in variants:
            if m <= reach and rule < k ** (_size(shape) * (k - 1) + 1):
                out.append((rule, m, nm))
        for rule, s, nm in out:
            yield _case(rng, 'onehot/%s/%s' % (tag, nm), shape, rng.choice(_dtypes(k)), _cells_with_sum(rng, shape, k, s),
                        k, rule, rng.random() < 0.3)
    for k in range(2, 37):
        # complete: every digit position of the 3-cell window
        for m in range(0, 3 * (k - 1) + 1):
            for c in one(k, ('1d', 3), m, 'L3'):
                yield c
        # every position below 2**64 that a bigger window can reach (where float shortcuts could be tried)
        m = 3 * (k - 1) + 1
        while k ** m < 2 ** 64:
            shape = rng.choice([s for s in ONEHOT_SHAPES + [('1d', 65), ('moore', 4)] if _reach(s, k) > m])
            for c in one(k, shape, m, 'small'):
                yield c
            m += 1
        # a sample of positions of the larger shapes, with the two ends
        per = 2 if tier == 'quick' else 12
        for shape in ONEHOT_SHAPES:
            if tier == 'quick' and k > 10 and _size(shape) > 9:
                continue            # 25 cells x (k-1) digits: Coq cost
            top = _size(shape) * (k - 1)
            reach = _reach(shape, k)
            ms = {0, reach, top} | {rng.randint(0, reach) for _ in range(per)}
            for m in sorted(ms):
                for c in one(k, shape, m, shape[0]):
                    yield c


def _huge(rng, tier):
    """huge/...: very long 1D windows, rule numbers of thousands of digits (stored as hex strings)"""
    plan = [(10, 478, 'e4300'), (10, 500, 'top')]
    if tier != 'quick':
        plan += [(10, 478, 'e4300-1'), (10, 478, 'max'), (10, 478, 'min_out'), (10, 500, 'top'), (10, 1200, 'e4300'),
                 (10, 1200, 'top'), (2, 1200, 'top'), (2, 5000, 'top'), (8, 700, 'top'), (16, 300, 'top'),
                 (36, 150, 'top'), (3, 1200, 'top')]
    else:
        plan += [(2, 1200, 'top'), (16, 300, 'top')]
    for k, L, what in plan:
        W = L * (k - 1) + 1
        if what == 'e4300':
            rule = 10 ** 4300
        elif what == 'e4300-1':
            rule = 10 ** 4300 - 1
        elif what == 'max':
            rule = k ** W - 1
        elif what == 'min_out':
            rule = k ** W
        else:
            rule = rng.randrange(k ** (W - 1), k ** W)
        cells = [rng.randint(0, k - 1) for _ in range(L)]
        if what == 'e4300':          # aim at the single 1 (sum 4300) when the window can reach it, else near it
            cells = _cells_with_sum(rng, ('1d', L), k, min(4300, L * (k - 1)))
        yield _case(rng, 'huge/k%d/L%d/%s' % (k, L, what), ('1d', L), rng.choice(_dtypes(k)), cells, k, rule,
                    rng.random() < 0.5)


def generate(rng, tier):
    reps = 1 if tier == 'quick' else 5
    # complete small domain: k = 2, n = 3, all contents, all rule numbers 0..15 and 16, 17 (rejected)
    for v in range(8):
        cells = [(v >> 2) & 1, (v >> 1) & 1, v & 1]
        for rule in range(18):
            yield _case(rng, 'sweep/k2n3', ('1d', 3), rng.choice(_dtypes(2)), cells, 2, rule, rng.random() < 0.3)
    # every sum 0..6 for k = 3, n = 3 on rule 777 and on the digits-all-distinct rule 0120120 (base 3)
    for a in range(3):
        for b in range(3):
            for c in range(3):
                for rule in (777, int('0120120', 3), 3 ** 7 - 1):
                    yield _case(rng, 'sweep/k3n3', ('1d', 3), 'int32', [a, b, c], 3, rule, False)
    # the grid of the design (shuffled: the big cases cost Coq up to ~1 s each and the driver cuts the case
    # list into consecutive shards that are checked in parallel); the dtype cycles through all of them
    grid = []
    j = 0
    for _ in range(reps):
        for k in KS:
            for shape in _shapes(k):
                n = _size(shape)
                for cont in ('zeros', 'max', 'random', 'random'):
                    for rk in RULE_KINDS:
                        dts = _dtypes(k)
                        dtype = dts[j % len(dts)]
                        j += 1
                        cells = _contents(rng, n, k, cont)
                        rule = _rule(rng, n, k, rk)
                        grid.append(_case(rng, '%s/%s' % (shape[0], rk), shape, dtype, cells, k, rule,
                                          rng.random() < 0.4))
    # every dtype with the largest sums: 8-bit data summing above 127 / 255, both call forms, plain and masked
    # (masked: all cells k-1, and non-zero corners around a zero cross)
    for _ in range(reps):
        for k in KS:
            for dtype in _dtypes(k):
                for shape in (('1d', 9), ('moore', 2), ('vn', 2), ('vn', 1)):
                    n = _size(shape)
                    cont = 'max' if shape[0] != 'vn' else rng.choice(['max', 'corners', 'corners'])
                    cells = _contents(rng, n, k, cont)
                    rule = _rule(rng, n, k, rng.choice(['random', 'max', 'random']))
                    grid.append(_case(rng, 'dtype/%s' % dtype, shape, dtype, cells, k, rule, rng.random() < 0.6))
        # a few of the biggest: 49 cells, k = 16 / 36
        for k in (16, 36):
            for shape in (('moore', 3), ('vn', 3)):
                dtype = rng.choice(['int8', 'uint8'])
                grid.append(_case(rng, 'dtype/%s' % dtype, shape, dtype, _contents(rng, 49, k, 'max'), k,
                                  _rule(rng, 49, k, 'max'), rng.random() < 0.6))
    rng.shuffle(grid)
    for c in grid:
        yield c
    # random extra: other k in 2..36, one-hot contents
    for _ in range(150 * reps):
        k = rng.randint(2, 36)
        shape = rng.choice(_shapes(k))
        n = _size(shape)
        cells = _contents(rng, n, k, rng.choice(['onehot', 'random']))
        rule = _rule(rng, n, k, rng.choice(RULE_KINDS))
        yield _case(rng, 'anyk/%s' % shape[0], shape, rng.choice(_dtypes(k)), cells, k, rule, rng.random() < 0.4)
    # k given as a numpy integer scalar (accepted while the rule number fits its dtype and the array is signed)
    for _ in range(60 * reps):
        k = rng.choice(KS)
        shape = rng.choice(_shapes(k))
        n = _size(shape)
        rule = min(_rule(rng, n, k, rng.choice(['random_short', 'one', 'kpow', 'zero'])), rng.randrange(2 ** 15))
        yield _case(rng, 'kscalar', shape, rng.choice(SIGNED), _contents(rng, n, k, 'random'), k, rule,
                    rng.random() < 0.4, ktype=rng.choice(['int16', 'int32', 'int64']))
    # ONE TotalisticRule object reused on neighbourhoods of different sizes / forms
    for c in _sequences(rng, 200 * reps):
        yield c
    # the class as apply_rule of evolve / evolve2d
    for c in _evolutions(rng, 160 * reps):
        yield c
    # single-digit rule numbers against every digit position; thousands of digits
    # (the huge cases are spread among the others so that they land in different shards and run in parallel)
    oh = list(_onehots(rng, tier))
    hg = list(_huge(rng, tier))
    step = max(1, len(oh) // (len(hg) + 1))
    for i, c in enumerate(oh):
        yield c
        if (i + 1) % step == 0 and hg:
            yield hg.pop()
    for c in hg:
        yield c
    # outside the quantified domain (still modelled): contents above k-1 / negative, k outside 2..36
    for _ in range(40 * reps):
        k = rng.choice([2, 3, 4, 10])
        shape = rng.choice([s for s in SHAPES if _size(s) <= 25])
        n = _size(shape)
        dtype = rng.choice(DTYPES)
        lo = 0 if dtype in UNSIGNED else -2
        cells = [rng.randint(lo, 2 * k) for _ in range(n)]
        yield _case(rng, 'ood/contents', shape, dtype, cells, k, _rule(rng, n, k, rng.choice(['random', 'max', 'one'])),
                    rng.random() < 0.3)
    for k in (0, 1, 37, 40, 100):
        for shape in (('1d', 3), ('vn', 1)):
            n = _size(shape)
            for rule in (0, 5, 10 ** 9):
                yield _case(rng, 'ood/base', shape, rng.choice(DTYPES), [0] * n, k, rule, rng.random() < 0.3)


def _array(c):
    kind, p = c['shape']
    a = np.array(c['cells'], dtype=getattr(np, c['dtype'] if c['dtype'] != 'bool' else 'bool_'))
    if kind == '1d':
        return a
    a = a.reshape(2 * p + 1, 2 * p + 1)
    if kind == 'moore':
        return a
    return np.ma.masked_array(a, _vn_mask(p))      # as evolve2d's _get_neighbourhood does


def _c_arg(it):
    c = it.get('c', 0)
    return tuple(c) if isinstance(c, list) else c


def run_impl(c):
    import cellpylib as cpl
    op = c.get('op', 'one')
    if op == 'seq':
        arrays = [_array(it) for it in c['seq']]
        made = call_impl(lambda: cpl.TotalisticRule(c['k'], _R(c)))
        if made[0] != 'ok':
            return [list(made)] * len(arrays)
        obj = made[1]                               # ONE object for the whole sequence
        return [list(call_impl(lambda: int(obj(a, _c_arg(it), it.get('t', 1)))))
                for it, a in zip(c['seq'], arrays)]
    if op == 'evolve1':
        init = np.array([c['init']], dtype=getattr(np, c['dtype'] if c['dtype'] != 'bool' else 'bool_'))
        return list(call_impl(lambda: cpl.evolve(init, timesteps=c['T'], apply_rule=cpl.TotalisticRule(c['k'], _R(c)),
                                                 r=c['r']).astype(np.int64).tolist()))
    if op == 'evolve2':
        init = np.array([c['init']], dtype=getattr(np, c['dtype'] if c['dtype'] != 'bool' else 'bool_'))
        return list(call_impl(lambda: cpl.evolve2d(init, timesteps=c['T'],
                                                   apply_rule=cpl.TotalisticRule(c['k'], _R(c)), r=c['r'],
                                                   neighbourhood=c['nbhd']).astype(np.int64).tolist()))
    arr = _array(c)
    k = c['k'] if c.get('ktype', 'int') == 'int' else getattr(np, c['ktype'])(c['k'])
    if c['cls']:
        r = call_impl(lambda: int(cpl.TotalisticRule(k, _R(c))(arr, _c_arg(c), c.get('t', 1))))
    else:
        r = call_impl(lambda: int(cpl.totalistic_rule(arr, k, _R(c))))
    return list(r)


def cNbig(n, chunk=512):
    """N literal; big ones as chunked hexadecimal (a long decimal literal takes Coq seconds to parse)"""
    n = int(n)
    if n < 10 ** 18:
        return cN(n)
    h = '%x' % n
    parts = []
    while h:
        parts.append(h[-chunk:])
        h = h[:-chunk]
    parts.reverse()
    t = '0x%s' % parts[0]
    for p in parts[1:]:
        t = '(N.shiftl %s %d + 0x%s)' % (t, 4 * chunk, p)
    return '(%s)%%N' % t


def _item_term(it):
    kind, p = it['shape']
    if kind == 'vn':
        mask = '(Some %s)' % clist([bool(x) for x in _vn_mask(p).ravel()], cbool)
        vn = '(Some %s)' % cnat(p)
    else:
        mask, vn = 'None', 'None'
    c = it.get('c', 0)
    c0 = c[0] if isinstance(c, list) else c
    return '(Item %s %s %s %s %s %s)' % (cbool(it['dtype'] in UNSIGNED), czlist(it['cells']), mask, vn, cz(c0),
                                         cnat(it.get('t', 1)))


def to_coq(c, obs):
    op = c.get('op', 'one')
    if op == 'seq':
        return '(CSeq %s %s [%s] %s)' % (cN(c['k']), cNbig(_R(c)), '; '.join(_item_term(it) for it in c['seq']),
                                         clist(obs, lambda o: cres(o, cz)))
    if op == 'evolve1':
        return '(CEvolve1 %s %s %s %s %s %s)' % (cN(c['k']), cNbig(_R(c)), cnat(c['r']), czlist(c['init']),
                                                 cnat(c['T']), cres(obs, cgrid))
    if op == 'evolve2':
        return '(CEvolve2 %s %s %s %s %s %s %s)' % (cN(c['k']), cNbig(_R(c)), cnat(c['r']),
                                                    cbool(c['nbhd'] == 'von Neumann'), cgrid(c['init']), cnat(c['T']),
                                                    cres(obs, chist))
    return '(CTot %s %s %s %s %s)' % (cbool(c['cls']), cN(c['k']), cNbig(_R(c)), _item_term(c), cres(obs, cz))


def _cells_of(c):
    op = c.get('op', 'one')
    if op == 'seq':
        return [x for it in c['seq'] for x in it['cells']]
    if op == 'evolve1':
        return c['init']
    if op == 'evolve2':
        return [x for row in c['init'] for x in row]
    return c['cells']


def _in_domain(c):
    return 2 <= c['k'] <= 36 and all(0 <= x <= c['k'] - 1 for x in _cells_of(c))


def nontrivial(c, obs):
    op = c.get('op', 'one')
    if op == 'seq':
        return _in_domain(c) and all(o[0] == 'ok' or o[1] == 'ValueError' for o in obs)
    return _in_domain(c) and (obs[0] == 'ok' or obs[1] == 'ValueError')


def _digit(k, rule, s):
    return (rule // k ** s) % k


def _oracle_one(k, rule, it, obs):
    kind, p = it['shape']
    n = len(it['cells'])
    if kind == 'vn':
        m = _vn_mask(p).ravel()
        s = sum(x for x, b in zip(it['cells'], m) if not b)
    else:
        s = sum(it['cells'])
    if rule >= k ** (n * (k - 1) + 1):
        if obs[0] != 'exc' or obs[1] != 'ValueError':
            return 'rule number needs more than n(k-1)+1 digits: expected ValueError'
        return None
    if obs[0] != 'ok':
        return 'rule number in range: expected a digit, got %s' % obs[1]
    want = _digit(k, rule, s)
    if obs[1] != want:
        return 'expected (rule // k**s) %% k = %d with s = %d' % (want, s)
    if not 0 <= obs[1] <= k - 1:
        return 'result outside 0..k-1'
    return None


def oracle(c, obs):
    """The property itself, evaluated on the implementation's answer: (rule // k**s) % k, ValueError iff the rule
    number needs more than size*(k-1)+1 digits; for a sequence on every call separately; for evolve / evolve2d the
    closed form applied cell by cell on the ring / torus (rule numbers there are in range)."""
    if not _in_domain(c):
        return None
    op = c.get('op', 'one')
    k, rule = c['k'], _R(c)
    if op == 'seq':
        if len(obs) != len(c['seq']):
            return 'number of answers differs from the number of calls'
        for i, (it, o) in enumerate(zip(c['seq'], obs)):
            msg = _oracle_one(k, rule, it, o)
            if msg:
                return 'call %d of the same TotalisticRule object: %s' % (i, msg)
        return None
    if op == 'evolve1':
        if obs[0] != 'ok':
            return 'evolve raised %s' % obs[1]
        rows, r = [c['init']], c['r']
        for _ in range(c['T'] - 1):
            cur = rows[-1]
            N = len(cur)
            # the window of evolve: N >= 2r+1 here, so it is the ring neighbourhood
            rows.append([_digit(k, rule, sum(cur[(i + d) % N] for d in range(-r, r + 1))) for i in range(N)])
        return None if obs[1] == rows else 'evolve with TotalisticRule differs from the digit formula on the ring'
    if op == 'evolve2':
        if obs[0] != 'ok':
            return 'evolve2d raised %s' % obs[1]
        grids, r = [c['init']], c['r']
        vn = c['nbhd'] == 'von Neumann'
        for _ in range(c['T'] - 1):
            g = grids[-1]
            R, C = len(g), len(g[0])
            grids.append([[_digit(k, rule, sum(g[(i + a) % R][(j + b) % C] for a in range(-r, r + 1)
                                               for b in range(-r, r + 1) if not vn or abs(a) + abs(b) <= r))
                           for j in range(C)] for i in range(R)])
        return None if obs[1] == grids else 'evolve2d with TotalisticRule differs from the digit formula on the torus'
    return _oracle_one(k, rule, c, obs)


def shrink(c):
    op = c.get('op', 'one')
    if op == 'seq':
        seq = c['seq']
        if len(seq) > 2:
            for i in range(len(seq)):
                yield dict(c, seq=seq[:i] + seq[i + 1:])
        for i, it in enumerate(seq):
            if it['dtype'] != 'int32':
                yield dict(c, seq=seq[:i] + [dict(it, dtype='int32')] + seq[i + 1:])
            if any(it['cells']):
                yield dict(c, seq=seq[:i] + [dict(it, cells=[0] * len(it['cells']))] + seq[i + 1:])
        return
    if op in ('evolve1', 'evolve2'):
        if c['T'] > 2:
            yield dict(c, T=2)
        if c['dtype'] != 'int32':
            yield dict(c, dtype='int32')
        return
    if c['cls']:
        yield dict(c, cls=False)
    if c.get('ktype', 'int') != 'int':
        yield dict(c, ktype='int')
    if c['dtype'] != 'int32':
        yield dict(c, dtype='int32')
    if c.get('t', 1) != 1 or c.get('c', 0) not in (0, [0, 0]):
        yield dict(c, t=1, c=0 if c['shape'][0] == '1d' else [0, 0])
    kind, p = c['shape']
    k = c['k']
    if kind != '1d' or p > 3:
        n = len(c['cells'])
        W_old = n * (k - 1) + 1
        # keep the rule number on the same side of the new bound
        new_top = k ** (3 * (k - 1) + 1)
        rule = _R(c) % new_top if _R(c) < k ** W_old else new_top + _R(c) % new_top
        yield dict(c, shape=['1d', 3], cells=c['cells'][:3], rule=_store_rule(rule), c=0)
    if any(c['cells']):
        yield dict(c, cells=[0] * len(c['cells']))
        cells = list(c['cells'])
        i = next(i for i, x in enumerate(cells) if x)
        cells[i] -= 1 if cells[i] > 0 else -1
        yield dict(c, cells=cells)


# ------------------------------------------------------------------ source tie (appended; harness/translate.py)
# pre(): regenerate coq/gen/GenFuns_C08.v from the Python source of the tree under test and, if it changed, re-prove
# GenProps/GenFunsEquivC08.v, GenProps/C08Src.v and Properties/C08.v (theorem C08_source_tie) by hand.
# extra_checks(): report a failed translation / equivalence proof (theorem names, translator or coqc error).
from harness import translate as _translate
_prev_pre = globals().get('pre')
_prev_extra_checks = globals().get('extra_checks')
TRUSTED = list(globals().get('TRUSTED', [])) + [_translate.TRUSTED_NOTE]
NOTES = list(globals().get('NOTES', [])) + [
    'coq/gen/GenFuns_C08.v is regenerated from the Python source at the start of every run; theorem C08_source_tie '
    'proves the regenerated definitions equal to the hand-written model for all inputs']


def pre(ctx):
    if _prev_pre is not None:
        _prev_pre(ctx)
    _translate.pre_hook(ctx, 'C08')


def extra_checks(ctx):
    out = list(_prev_extra_checks(ctx)) if _prev_extra_checks is not None else []
    return out + _translate.extra_hook(ctx, 'C08')
